(* Extraction of the executable model for the correspondence check. ExtrOcamlBasic only: bool, option,
   unit, list, prod, sumbool, sumor map to OCaml's own types, andb/orb to && and ||; nat, positive and N
   stay the Coq inductives. No Extract Constant of our own.
   Run from /verif/driver/extracted (coqc -Q ../../coq FFSM2 ../../coq/Extract.v) so the .ml lands there. *)
Require Extraction.
Require Import ExtrOcamlBasic.
From FFSM2 Require Import Model.Bits Model.BitStream Model.BitArray Model.Arrays Model.TaskList Model.Plan
  Model.Dispatch Model.Ancestors Model.Machine Model.Script Model.Multi Proofs.LifeMonitor Proofs.Contract Proofs.CycleProofs.
Extraction Blacklist List String Nat.
Extraction "model.ml"
  bitWidth contain
  buffer_clear write read write_fields read_fields
  ba_init ba_get ba_set ba_clear ba_clear_all ba_set_all ba_empty ba_and_assign ba_and
  sa_init sa_get sa_set sa_fill sa_clear da_init da_emplace da_get da_clear da_to_list da_append da_append_all da_empty
  tl_init emplace remove tl_clear
  pd_init plan_append plan_append_with plan_remove_at plan_clear plan_tasks plan_first plan_last plan_nonempty pd_clear
  dispatch lower upper state_id
  deep_order
  table_oracle wrun observe
  cb_step
  expected_cbs update_phases react_phases   (* Proofs/CycleProofs.v: the callbacks of an update()/react()/query() computed from the configuration; update_cycle_order / react_cycle_order / query_shape prove every model run delivers exactly these *)
  first_violation table_okb.   (* Proofs/Contract.v: is the script inside the domain the theorems quantify over *)   (* the C01 lifecycle automaton of Proofs/LifeMonitor.v: proved to accept every model trace (run_accepted), run on implementation traces *)
