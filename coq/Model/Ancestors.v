(* Injected bases: A_<TFirst, TRest...>::wideX of structure/ancestors_1.inl, ancestors_2.inl and the
   order S_::deepX combines them with the state's own callback (structure/state_1.inl).
   The result is the delivery order, as a list of "who": Inj i is the i-th injected base (0-based,
   in declaration order), Own is the state's own callback.
   Definitions only; proofs are in Proofs/AncestorsProofs.v. *)
From Coq Require Import List Arith Bool.
Import ListNotations.

Inductive method :=
| MEntryGuard | MEnter | MReenter | MPreUpdate | MUpdate | MPostUpdate
| MPreReact | MReact | MPostReact | MQuery | MExitGuard | MExit
| MPlanSucceeded | MPlanFailed.

Inductive recipient := Inj (i : nat) | Own.

(* A_<First, Rest...>::wideX: "First::x(); Rest::wideX();" or the reverse, per method, as written *)
Definition first_then_rest (m : method) : bool :=
  match m with
  | MEntryGuard | MEnter | MReenter | MPreUpdate | MUpdate | MPreReact | MReact | MQuery => true
  | MPostUpdate | MPostReact | MExitGuard | MExit => false
  | MPlanSucceeded | MPlanFailed => true           (* no wide variant exists: see deep_order *)
  end.
(* injections numbered from [from], [k] of them left *)
Fixpoint wide (m : method) (from k : nat) : list recipient :=
  match k with
  | O => []
  | S k' => if first_then_rest m then Inj from :: wide m (S from) k' else wide m (S from) k' ++ [Inj from]
  end.

(* S_::deepX: "Head::wideX(); Head::x();" or the reverse, per method, as written *)
Definition wide_then_own (m : method) : bool :=
  match m with
  | MEntryGuard | MEnter | MReenter | MPreUpdate | MUpdate | MPreReact | MReact | MExitGuard => true
  | MPostUpdate | MPostReact | MQuery | MExit => false
  | MPlanSucceeded | MPlanFailed => true
  end.
Definition deep_order (m : method) (k : nat) : list recipient :=
  match m with
  | MPlanSucceeded | MPlanFailed => [Own]          (* wrapPlanSucceeded/wrapPlanFailed call Head::planX only *)
  | _ => if wide_then_own m then wide m 0 k ++ [Own] else Own :: wide m 0 k
  end.
