(* StaticArrayT<T, N> and DynamicArrayT<T, N> of development/ffsm2/detail/containers/array.{hpp,inl}
   and IteratorT of shared/iterator.hpp. The index type is UCapacity<N> = uint8_t for N < 256, so the
   iterator's cursor arithmetic is written mod 256.
   Definitions only; proofs are in Proofs/ArraysProofs.v. *)
From Coq Require Import List Arith Bool.
Import ListNotations.

Section Arr.
Variable T : Type.
Variable dflt : T.                       (* filler<T>() / T{} *)

Fixpoint aupd (l : list T) (i : nat) (v : T) : list T :=
  match l, i with
  | [], _ => []
  | _ :: t, O => v :: t
  | h :: t, S j => h :: aupd t j v
  end.

(* ---- StaticArrayT ---- *)
Definition sa := list T.                                   (* always CAPACITY items *)
Definition sa_init (cap : nat) : sa := repeat dflt cap.    (* Item _items[CAPACITY] {} *)
Definition sa_get (a : sa) (i : nat) : T := nth i a dflt.
Definition sa_set (a : sa) (i : nat) (v : T) : sa := aupd a i v.
Definition sa_fill (a : sa) (v : T) : sa := map (fun _ => v) a.
Definition sa_clear (a : sa) : sa := sa_fill a dflt.
Definition sa_count (a : sa) : nat := length a.

(* ---- DynamicArrayT ---- *)
Record da := { da_count : nat; da_items : list T }.       (* CAPACITY items of storage, _count live *)
Definition da_init (cap : nat) : da := {| da_count := 0; da_items := repeat dflt cap |}.
(* emplace(args...): new (&_items[_count]) Item{args...}; return _count++;   (asserts _count < CAPACITY) *)
Definition da_emplace (a : da) (v : T) : da * nat :=
  ({| da_count := S (da_count a); da_items := aupd (da_items a) (da_count a) v |}, da_count a).
Definition da_get (a : da) (i : nat) : T := nth i (da_items a) dflt.
Definition da_clear (a : da) : da := {| da_count := 0; da_items := da_items a |}.
Definition da_empty (a : da) : bool := da_count a =? 0.
(* operator += (const Item&) *)
Definition da_append (a : da) (v : T) : da := fst (da_emplace a v).

(* IteratorT over a DynamicArrayT: cursor = first() = 0; operator!= : cursor != limit() = _count;
   operator++ : cursor = next(cursor) = cursor + 1 (in the uint8_t index type); operator* : container[cursor] *)
Fixpoint da_iter (fuel : nat) (a : da) (cursor : nat) : list T :=
  match fuel with
  | O => []
  | S f => if cursor =? da_count a then [] else da_get a cursor :: da_iter f a ((cursor + 1) mod 256)
  end.
Definition da_to_list (a : da) : list T := da_iter 256 a 0.

(* operator += (const DynamicArrayT<T, N>& other): for (const auto& item : other) emplace(item) *)
Definition da_append_all (a o : da) : da := fold_left da_append (da_to_list o) a.
End Arr.
