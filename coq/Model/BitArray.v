(* BitArrayT<CAPACITY> of development/ffsm2/detail/containers/bit_array.{hpp,inl}:
   contain(CAPACITY, 8) bytes of storage, unit = index / 8, mask = 1 << index % 8.
   Definitions only; proofs are in Proofs/BitArrayProofs.v. *)
From Coq Require Import List NArith Bool.
Import ListNotations.
Local Open Scope N_scope.

Definition ba := list N.

Definition ba_units (cap : N) : N := (cap + 7) / 8.             (* UNIT_COUNT = contain(CAPACITY, 8) *)

Definition uget (b : ba) (u : N) : N := nth (N.to_nat u) b 0.
Fixpoint uset_nat (b : ba) (i : nat) (f : N -> N) : ba :=
  match b, i with
  | [], _ => []
  | h :: t, O => f h :: t
  | h :: t, S j => h :: uset_nat t j f
  end.
Definition uset (b : ba) (u : N) (f : N -> N) : ba := uset_nat b (N.to_nat u) f.

Definition ba_mask (i : N) : N := N.shiftl 1 (i mod 8).

(* BitArrayT(): clear() *)
Definition ba_init (cap : N) : ba := repeat 0 (N.to_nat (ba_units cap)).

Definition ba_get (b : ba) (i : N) : bool := negb (N.land (uget b (i / 8)) (ba_mask i) =? 0).
Definition ba_set (b : ba) (i : N) : ba := uset b (i / 8) (fun x => N.lor x (ba_mask i)).
(* _storage[unit] &= ~mask, on a uint8_t *)
Definition ba_clear (b : ba) (i : N) : ba := uset b (i / 8) (fun x => N.land x (N.lxor 255 (ba_mask i))).
Definition ba_clear_all (b : ba) : ba := map (fun _ => 0) b.
(* set(): every unit = UINT8_MAX, then  _storage[UNIT_COUNT - 1] &= UINT8_MAX >> (UNIT_COUNT * 8 - CAPACITY) *)
Definition ba_last_mask (cap : N) : N := N.shiftr 255 (ba_units cap * 8 - cap).
Definition ba_set_all (cap : N) (b : ba) : ba :=
  uset (map (fun _ => 255) b) (ba_units cap - 1) (fun x => N.land x (ba_last_mask cap)).
Definition ba_empty (b : ba) : bool := forallb (fun x => x =? 0) b.
(* operator &= *)
Definition ba_and_assign (b o : ba) : ba := map (fun p => N.land (fst p) (snd p)) (combine b o).
(* operator & : every unit has a common bit (as written in the C++) *)
Definition ba_and (b o : ba) : bool := forallb (fun p => negb (N.land (fst p) (snd p) =? 0)) (combine b o).

(* bit p of the storage *)
Definition ba_bit (b : ba) (p : N) : bool := N.testbit (uget b (p / 8)) (p mod 8).
