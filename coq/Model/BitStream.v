(* StreamBufferT / BitWriteStreamT::write<W> / BitReadStreamT::read<W> of
   development/ffsm2/detail/shared/bit_stream.{hpp,inl}, byte by byte as the C++ does it.
   Definitions only; proofs are in Proofs/BitStreamProofs.v. *)
From Coq Require Import List NArith Bool.
Import ListNotations.
Local Open Scope N_scope.

Definition bytes := list N.

Definition bget (b : bytes) (i : N) : N := nth (N.to_nat i) b 0.
Fixpoint bset_nat (b : bytes) (i : nat) (v : N) : bytes :=
  match b, i with
  | [], _ => []
  | _ :: t, O => v :: t
  | h :: t, S j => h :: bset_nat t j v
  end.
Definition bset (b : bytes) (i : N) (v : N) : bytes := bset_nat b (N.to_nat i) v.

(* StreamBufferT<BITS>: contain(BITS, 8) bytes; clear() zero-fills *)
Definition buffer_clear (bits : N) : bytes := repeat 0 (N.to_nat ((bits + 7) / 8)).

(* one iteration of the loop body of write<W>; the cursor is a uint8_t, hence mod 256 *)
Definition write_chunk (buf : bytes) (cursor item width : N) : bytes * N * N * N :=
  let byteIndex := N.shiftr cursor 3 in
  let start := N.land cursor 7 in
  let dataw := 8 - start in
  let cw := N.min dataw width in
  let chunk := N.shiftl item start in
  let byte' := (N.lor (bget buf byteIndex) chunk) mod 256 in
  (bset buf byteIndex byte', (cursor + cw) mod 256, N.shiftr item cw, width - cw).

Fixpoint write_loop (fuel : nat) (buf : bytes) (cursor item width : N) : bytes * N :=
  match fuel with
  | O => (buf, cursor)
  | S f => if width =? 0 then (buf, cursor) else
           let '(buf', c', i', w') := write_chunk buf cursor item width in
           write_loop f buf' c' i' w'
  end.

(* write<W>(item): item is a UBitWidth<W>, i.e. already truncated to 8/16/32 bits by the caller's type *)
Definition write (buf : bytes) (cursor width item : N) : bytes * N :=
  write_loop (N.to_nat width) buf cursor item width.

(* one iteration of the loop body of read<W> *)
Definition read_chunk (buf : bytes) (cursor item icur width : N) : N * N * N * N :=
  let byteIndex := N.shiftr cursor 3 in
  let start := N.land cursor 7 in
  let dataw := 8 - start in
  let cw := N.min dataw width in
  let mask := N.shiftl 1 cw - 1 in
  let chunk := N.land (N.shiftr (bget buf byteIndex) start) mask in
  let ichunk := N.shiftl chunk icur in
  ((cursor + cw) mod 256, N.lor item ichunk, icur + cw, width - cw).

Fixpoint read_loop (fuel : nat) (buf : bytes) (cursor item icur width : N) : N * N :=
  match fuel with
  | O => (item, cursor)
  | S f => if width =? 0 then (item, cursor) else
           let '(c', i', ic', w') := read_chunk buf cursor item icur width in
           read_loop f buf c' i' ic' w'
  end.

Definition read (buf : bytes) (cursor width : N) : N * N :=
  read_loop (N.to_nat width) buf cursor 0 0 width.

(* the buffer as a function from bit positions *)
Definition getbit (b : bytes) (p : N) : bool := N.testbit (bget b (p / 8)) (p mod 8).

(* a sequence of fields (width, value) written back to back, then read back *)
Fixpoint write_fields (buf : bytes) (cursor : N) (fs : list (N * N)) : bytes * N :=
  match fs with
  | [] => (buf, cursor)
  | (w, v) :: r => let '(b', c') := write buf cursor w v in write_fields b' c' r
  end.
Fixpoint read_fields (buf : bytes) (cursor : N) (ws : list N) : list N * N :=
  match ws with
  | [] => ([], cursor)
  | w :: r => let '(v, c') := read buf cursor w in
              let '(vs, c'') := read_fields buf c' r in (v :: vs, c'')
  end.
