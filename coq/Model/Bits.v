(* bitWidth() and contain() of development/ffsm2/detail/shared/utility.hpp.
   Definitions only; proofs are in Proofs/BitsProofs.v. *)
From Coq Require Import List NArith Bool.
Import ListNotations.
Local Open Scope N_scope.

(* bitWidth(v): the conditional chain  v == 0 ? 0 : v >> 1 == 0 ? 1 : ... : v >> 31 == 0 ? 31 : 32 *)
Fixpoint chain (fuel : nat) (k : N) (v : N) : N :=
  match fuel with
  | O => 32
  | S f => if N.shiftr v k =? 0 then k else chain f (k + 1) v
  end.
Definition bitWidth (v : N) : N := chain 32 0 v.

(* contain(x, to) = (x + to - 1) / to *)
Definition contain (x to : N) : N := (x + to - 1) / to.
