(* A small imperative language with C++'s integer semantics, and its interpreter.

   tools/leafcode.py translates the bodies of FFSM2's leaf functions (utility.hpp, bit_array.inl, bit_stream.inl)
   from clang's typed AST of /repo's current source into terms of this language (Generated/LeafCode.v);
   Proofs/LeafCodeProofs.v proves that running those terms computes the functions of the hand-written model
   (Model/Bits.v, Model/BitArray.v, Model/BitStream.v) - for every input, capacity and width, not for samples.

   What the language fixes about C++ (the part of the trusted base that replaces "the hand-written model mirrors the code"):
   - every operation is computed at the type clang assigns to it (after the usual arithmetic conversions, which the
     AST spells out as cast nodes): unsigned results wrap, a signed result out of range is undefined (fault);
   - conversions to an unsigned type are modular, to a signed type two's complement (gcc/clang), to bool "non-zero";
   - division is truncating, division by zero and shifts by a negative amount or by >= the width are undefined (fault);
   - an array access outside the array is a fault.
   Definitions only. *)
From Coq Require Import List ZArith Bool String.
Import ListNotations.
Local Open Scope Z_scope.

Inductive ity := TBool | TU8 | TU16 | TU32 | TU64 | TS8 | TS16 | TS32 | TS64.

Definition bits (t : ity) : Z :=
  match t with TBool => 1 | TU8 | TS8 => 8 | TU16 | TS16 => 16 | TU32 | TS32 => 32 | TU64 | TS64 => 64 end.
Definition signed (t : ity) : bool :=
  match t with TS8 | TS16 | TS32 | TS64 => true | _ => false end.
Definition tmin (t : ity) : Z := if signed t then - 2 ^ (bits t - 1) else 0.
Definition tmax (t : ity) : Z := if signed t then 2 ^ (bits t - 1) - 1 else 2 ^ bits t - 1.

(* integral conversion to t *)
Definition conv (t : ity) (z : Z) : Z :=
  match t with
  | TBool => if z =? 0 then 0 else 1
  | _ => let m := 2 ^ bits t in
         let r := z mod m in
         if signed t then (if r <? m / 2 then r else r - m) else r
  end.

(* the result of an arithmetic operation computed at type t *)
Definition arith (t : ity) (z : Z) : option Z :=
  match t with
  | TBool => Some (if z =? 0 then 0 else 1)
  | _ => if signed t then (if (tmin t <=? z) && (z <=? tmax t) then Some z else None)
         else Some (z mod 2 ^ bits t)
  end.

Inductive binop := OAdd | OSub | OMul | ODiv | ORem | OShl | OShr | OAnd | OOr | OXor
                 | OLt | OLe | OGt | OGe | OEq | ONe.
Inductive unop := ONeg | OBitNot | OLogNot.

Definition b2z (b : bool) : Z := if b then 1 else 0.

Definition binop_sem (o : binop) (t : ity) (a b : Z) : option Z :=
  match o with
  | OAdd => arith t (a + b)
  | OSub => arith t (a - b)
  | OMul => arith t (a * b)
  | ODiv => if b =? 0 then None else arith t (Z.quot a b)
  | ORem => if b =? 0 then None else arith t (Z.rem a b)
  | OShl => if (b <? 0) || (bits t <=? b) then None
            else if signed t && (a <? 0) then None
            else arith t (Z.shiftl a b)
  | OShr => if (b <? 0) || (bits t <=? b) then None else Some (Z.shiftr a b)
  | OAnd => Some (Z.land a b)
  | OOr => Some (Z.lor a b)
  | OXor => Some (Z.lxor a b)
  | OLt => Some (b2z (a <? b))
  | OLe => Some (b2z (a <=? b))
  | OGt => Some (b2z (b <? a))
  | OGe => Some (b2z (b <=? a))
  | OEq => Some (b2z (a =? b))
  | ONe => Some (b2z (negb (a =? b)))
  end.

Definition unop_sem (o : unop) (t : ity) (a : Z) : option Z :=
  match o with
  | ONeg => arith t (- a)
  | OBitNot => Some (conv t (Z.lnot a))
  | OLogNot => Some (b2z (a =? 0))
  end.

Inductive expr :=
| EInt (z : Z)                                  (* a literal (in range of its type) *)
| EVar (x : string)                             (* a local variable or a value parameter *)
| EField (f : string)                           (* a scalar data member, named by its access path ("_cursor") *)
| EElem (a : string) (i : expr)                 (* an element of an array data member, named by its access path
                                                   ("_storage", "other._storage", "_buffer._data") *)
| ELen (a : string)                             (* the extent of that array *)
| EConst (c : string)                           (* a template parameter or a static constexpr member *)
| ECast (t : ity) (e : expr)
| EUn (o : unop) (t : ity) (e : expr)
| EBin (o : binop) (t : ity) (e1 e2 : expr)     (* t: the type the operation is computed at *)
| EAndAlso (e1 e2 : expr)                       (* && *)
| EOrElse (e1 e2 : expr)                        (* || *)
| ECond (c e1 e2 : expr)
| ECall0 (f : string)
| ECall1 (f : string) (e1 : expr)
| ECall2 (f : string) (e1 e2 : expr).

Inductive stmt :=
| SSkip
| SSeq (a b : stmt)
| SLocal (x : string) (e : expr)                (* declaration with initialiser, or assignment to a local *)
| SSetField (f : string) (e : expr)
| SSetElem (a : string) (i e : expr)
| SIf (c : expr) (a b : stmt)
| SWhile (c : expr) (b : stmt)
| SForRange (i : string) (t : ity) (lo hi : expr) (b : stmt)
    (* for (T i = lo; i < hi; ++i) b, where b never assigns i and hi is loop-invariant (the translator checks both);
       if hi does not fit T the C++ loop would wrap: fault *)
| SReturn (e : expr)
| SReturnVoid.

(* a function whose body is a single return statement *)
Record fundef := { fn_params : list string; fn_body : expr }.
Definition ftable := list (string * fundef).

Record state := { locals : list (string * Z); fields : list (string * Z); arrays : list (string * list Z) }.

Fixpoint lookup {A} (k : string) (l : list (string * A)) : option A :=
  match l with
  | [] => None
  | (k', v) :: r => if String.eqb k k' then Some v else lookup k r
  end.
Fixpoint update {A} (k : string) (v : A) (l : list (string * A)) : list (string * A) :=
  match l with
  | [] => [(k, v)]
  | (k', v') :: r => if String.eqb k k' then (k, v) :: r else (k', v') :: update k v r
  end.

Definition nth_z (l : list Z) (i : Z) : option Z :=
  if (i <? 0) then None else nth_error l (Z.to_nat i).
Fixpoint set_nth (l : list Z) (i : nat) (v : Z) : option (list Z) :=
  match l, i with
  | [], _ => None
  | _ :: r, O => Some (v :: r)
  | h :: r, S j => match set_nth r j v with Some r' => Some (h :: r') | None => None end
  end.
Definition set_z (l : list Z) (i : Z) (v : Z) : option (list Z) :=
  if (i <? 0) then None else set_nth l (Z.to_nat i) v.

Definition bind {A B} (o : option A) (f : A -> option B) : option B :=
  match o with Some a => f a | None => None end.

Section Eval.
Variable ft : ftable.
Variable cs : list (string * Z).

(* d bounds the depth of calls *)
Fixpoint eval (d : nat) (st : state) (e : expr) {struct d} : option Z :=
  match d with
  | O => None
  | S d' =>
    (fix ev (e : expr) : option Z :=
       match e with
       | EInt z => Some z
       | EVar x => lookup x (locals st)
       | EField f => lookup f (fields st)
       | EElem a i => bind (ev i) (fun iz => bind (lookup a (arrays st)) (fun l => nth_z l iz))
       | ELen a => bind (lookup a (arrays st)) (fun l => Some (Z.of_nat (List.length l)))
       | EConst c => lookup c cs
       | ECast t e1 => bind (ev e1) (fun z => Some (conv t z))
       | EUn o t e1 => bind (ev e1) (fun z => unop_sem o t z)
       | EBin o t e1 e2 => bind (ev e1) (fun a => bind (ev e2) (fun b => binop_sem o t a b))
       | EAndAlso e1 e2 => bind (ev e1) (fun a => if a =? 0 then Some 0 else bind (ev e2) (fun b => Some (b2z (negb (b =? 0)))))
       | EOrElse e1 e2 => bind (ev e1) (fun a => if a =? 0 then bind (ev e2) (fun b => Some (b2z (negb (b =? 0)))) else Some 1)
       | ECond c e1 e2 => bind (ev c) (fun cz => if cz =? 0 then ev e2 else ev e1)
       | ECall0 f =>
           match lookup f ft with
           | Some {| fn_params := []; fn_body := b |} =>
               eval d' {| locals := []; fields := []; arrays := [] |} b
           | _ => None
           end
       | ECall1 f e1 =>
           bind (ev e1) (fun a =>
           match lookup f ft with
           | Some {| fn_params := [p]; fn_body := b |} =>
               eval d' {| locals := [(p, a)]; fields := []; arrays := [] |} b
           | _ => None
           end)
       | ECall2 f e1 e2 =>
           bind (ev e1) (fun a => bind (ev e2) (fun b =>
           match lookup f ft with
           | Some {| fn_params := [p; q]; fn_body := body |} =>
               eval d' {| locals := [(p, a); (q, b)]; fields := []; arrays := [] |} body
           | _ => None
           end))
       end) e
  end.

Inductive outcome := ONormal (st : state) | OReturn (st : state) (v : option Z) | OFault | OFuel.

Definition set_local (st : state) (x : string) (v : Z) : state :=
  {| locals := update x v (locals st); fields := fields st; arrays := arrays st |}.
Definition set_field (st : state) (f : string) (v : Z) : state :=
  {| locals := locals st; fields := update f v (fields st); arrays := arrays st |}.
Definition set_array (st : state) (a : string) (l : list Z) : state :=
  {| locals := locals st; fields := fields st; arrays := update a l (arrays st) |}.

(* n iterations of a counting loop from k *)
Fixpoint iter_range (n : nat) (k : Z) (body : Z -> state -> outcome) (st : state) : outcome :=
  match n with
  | O => ONormal st
  | S n' => match body k st with
            | ONormal st' => iter_range n' (k + 1) body st'
            | o => o
            end
  end.

Definition call_depth : nat := 40.

Fixpoint exec (fuel : nat) (st : state) (s : stmt) {struct fuel} : outcome :=
  match fuel with
  | O => OFuel
  | S f =>
    match s with
    | SSkip => ONormal st
    | SSeq a b => match exec f st a with ONormal st' => exec f st' b | o => o end
    | SLocal x e => match eval call_depth st e with Some v => ONormal (set_local st x v) | None => OFault end
    | SSetField x e => match eval call_depth st e with Some v => ONormal (set_field st x v) | None => OFault end
    | SSetElem a i e =>
        match eval call_depth st i, eval call_depth st e, lookup a (arrays st) with
        | Some iz, Some v, Some l => match set_z l iz v with Some l' => ONormal (set_array st a l') | None => OFault end
        | _, _, _ => OFault
        end
    | SIf c a b => match eval call_depth st c with
                   | Some cz => if cz =? 0 then exec f st b else exec f st a
                   | None => OFault
                   end
    | SWhile c b => match eval call_depth st c with
                    | Some cz => if cz =? 0 then ONormal st
                                 else match exec f st b with ONormal st' => exec f st' (SWhile c b) | o => o end
                    | None => OFault
                    end
    | SForRange i t lo hi b =>
        match eval call_depth st lo, eval call_depth st hi with
        | Some lz, Some hz =>
            if (tmax t <? hz) || (lz <? tmin t) then OFault
            else iter_range (Z.to_nat (hz - lz)) lz (fun k st' => exec f (set_local st' i k) b) st
        | _, _ => OFault
        end
    | SReturn e => match eval call_depth st e with Some v => OReturn st (Some v) | None => OFault end
    | SReturnVoid => OReturn st None
    end
  end.

(* the constants of a class: each defined by an expression over the earlier ones *)
End Eval.

Fixpoint build_consts (ft : ftable) (defs : list (string * expr)) (cs : list (string * Z)) : option (list (string * Z)) :=
  match defs with
  | [] => Some cs
  | (c, e) :: r =>
      match eval ft cs call_depth {| locals := []; fields := []; arrays := [] |} e with
      | Some v => build_consts ft r (cs ++ [(c, v)])
      | None => None
      end
  end.

(* a translated member function: its value parameters, every local it declares (in order of declaration; the
   interpreter gives each a slot up front so that the shape of the environment does not change while the body runs -
   C++ scoping guarantees none is read before its declaration has run, and the translator only accepts declarations
   with an initialiser), and its body *)
Record method := { m_params : list string; m_locals : list string; m_body : stmt }.

Definition init_locals (m : method) (args : list Z) : list (string * Z) :=
  combine (m_params m) args ++ map (fun x => (x, 0)) (m_locals m).

Definition run_fuel : nat := 100.

(* run a method on an object whose scalar members are flds and whose array members are arrs *)
Definition run (ft : ftable) (cs : list (string * Z)) (m : method) (args : list Z)
               (flds : list (string * Z)) (arrs : list (string * list Z)) : outcome :=
  exec ft cs run_fuel {| locals := init_locals m args; fields := flds; arrays := arrs |} (m_body m).

Definition call1 (ft : ftable) (f : string) (a : Z) : option Z :=
  eval ft [] call_depth {| locals := []; fields := []; arrays := [] |} (ECall1 f (EInt a)).
Definition call2 (ft : ftable) (f : string) (a b : Z) : option Z :=
  eval ft [] call_depth {| locals := []; fields := []; arrays := [] |} (ECall2 f (EInt a) (EInt b)).
