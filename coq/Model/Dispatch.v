(* State ids and dispatch: LowerT/UpperT/FindImpl of shared/type_list.hpp and the CS_ recursion of
   structure/composite_sub_1.{hpp,inl}, composite_sub_2.inl and forward.hpp (LHalfCS / RHalfCS).
   Definitions only; proofs are in Proofs/DispatchProofs.v. *)
From Coq Require Import List Arith Bool.
Import ListNotations.

Section D.
Variable T : Type.

(* LowerT<NHalf, NIndex, Ts...> / UpperT<NHalf, NIndex, Ts...> as written *)
Fixpoint lower (half idx : nat) (l : list T) : list T :=
  match l with
  | [] => []
  | x :: r => let lt := lower half (S idx) r in if idx <? half then x :: lt else lt
  end.
Fixpoint upper (half idx : nat) (l : list T) : list T :=
  match l with
  | [] => []
  | x :: r => if idx <? half then upper half (S idx) r else x :: r
  end.

(* CS_<NN, Args, NP, TL_<Ts...>>::wideX(control, prong): which leaf runs, and with which STATE_ID.
   L_PRONG = NP, R_PRONG = NP + sizeof...(Ts) / 2; a single-state list ignores the prong. *)
Fixpoint dispatch (fuel : nat) (nn np : nat) (l : list T) (prong : nat) : option (nat * T) :=
  match l with
  | [] => None
  | [x] => Some (nn, x)
  | _ => match fuel with O => None | S f =>
      let h := length l / 2 in
      if prong <? np + h
      then dispatch f nn np (lower h 0 l) prong
      else dispatch f (nn + h) (np + h) (upper h 0 l) prong end
  end.

(* FindImpl<N, T, Ts...>: index of the first occurrence, INVALID_LONG when absent *)
Variable eqb : T -> T -> bool.
Fixpoint find_impl (k : nat) (x : T) (l : list T) : nat :=
  match l with
  | [] => 255
  | y :: r => if eqb x y then k else find_impl (S k) x r
  end.
Definition state_id (l : list T) (x : T) : nat := find_impl 0 x l.
End D.
