(* The machine proper: R_ (root_0.inl), RV_ (root_1.inl), RP_ (root_2.inl), C_ (composite.inl),
   CS_ dispatch (through Model/Dispatch.v), S_ (state_1.inl, state_2.inl), the controls
   (control_0..4) and FullControlT::updatePlan (control_3.inl), over CoreT (core.hpp).
   User callbacks are an oracle: given everything observed so far it returns the actions the
   callback performs through its control. Every callback delivery, every action with its result and
   every logger record is appended to the trace (newest first).
   Definitions only; proofs are in Proofs/Machine*.v. *)
From Coq Require Import List Arith Bool NArith.
From FFSM2 Require Import Model.TaskList Model.BitArray Model.Plan Model.Ancestors Model.Dispatch
                          Model.Bits Model.BitStream.
Import ListNotations.

Inductive who := Root | St (k : nat).
Inductive logmode := LOff | LOn | LVerbose.
Inductive ckind := KConst | KPlan | KFull | KGuard.

Record config := {
  c_n : nat;                       (* number of states *)
  c_head : bool;                   (* Root<Head, ...> (true) or PeerRoot<...> (false) *)
  c_manual : bool;                 (* ManualActivation *)
  c_limit : nat;                   (* SUBSTITUTION_LIMIT *)
  c_cap : nat;                     (* TASK_CAPACITY *)
  c_payload : bool;                (* PayloadT<...> configured *)
  c_inj_root : nat;                (* injected bases of the root head *)
  c_inj_state : nat;               (* injected bases of every state *)
  c_plans : bool;                  (* FFSM2_ENABLE_PLANS *)
  c_serial : bool;                 (* FFSM2_ENABLE_SERIALIZATION *)
  c_history : bool;                (* FFSM2_ENABLE_TRANSITION_HISTORY *)
  c_log : logmode;                 (* FFSM2_ENABLE_LOG_INTERFACE / _VERBOSE_DEBUG_LOG *)
  c_def_root : method -> bool;     (* does the root head class define the callback itself *)
  c_def_state : method -> bool     (* do the state classes define the callback themselves *)
}.

Section M.
Variable P : Type.                 (* the payload type: the model never looks inside *)

(* ---- TransitionT ---- *)
Record transition := { t_origin : nat; t_dest : nat; t_pay : option P }.
Definition t_empty : transition := {| t_origin := INVALID; t_dest := INVALID; t_pay := None |}.
Definition t_valid (t : transition) : bool := negb (t_dest t =? INVALID).          (* operator bool *)
Definition t_clear (t : transition) : transition :=                                 (* clear(): destination only *)
  {| t_origin := t_origin t; t_dest := INVALID; t_pay := t_pay t |}.
Definition t_to (d : nat) : transition := {| t_origin := INVALID; t_dest := d; t_pay := None |}.
Definition is_some {A} (o : option A) : bool := match o with Some _ => true | None => false end.
(* operator!= : origin, destination, (method, always NONE) and payloadSet; payload bytes are not compared *)
Definition t_neq (a b : transition) : bool :=
  negb (t_origin a =? t_origin b) || negb (t_dest a =? t_dest b) || negb (Bool.eqb (is_some (t_pay a)) (is_some (t_pay b))).

(* ---- CoreT ---- *)
Record core := {
  active : nat; requested : nat;                  (* Registry *)
  request : transition;
  previous : transition;                          (* previousTransition *)
  plan : plan_data P;
  logger : bool                                   (* a logger is attached *)
}.
Definition set_active (c : core) v := {| active := v; requested := requested c; request := request c; previous := previous c; plan := plan c; logger := logger c |}.
Definition set_requested (c : core) v := {| active := active c; requested := v; request := request c; previous := previous c; plan := plan c; logger := logger c |}.
Definition set_request (c : core) v := {| active := active c; requested := requested c; request := v; previous := previous c; plan := plan c; logger := logger c |}.
Definition set_previous (c : core) v := {| active := active c; requested := requested c; request := request c; previous := v; plan := plan c; logger := logger c |}.
Definition set_plan (c : core) v := {| active := active c; requested := requested c; request := request c; previous := previous c; plan := v; logger := logger c |}.
Definition set_logger (c : core) v := {| active := active c; requested := requested c; request := request c; previous := previous c; plan := plan c; logger := v |}.

(* ---- what a callback can see and do ---- *)
Record view := {
  v_kind : ckind;
  v_id : nat;                       (* control.stateId() *)
  v_act : list bool;                (* control.isActive(k), k < n *)
  v_req : transition;               (* control.request() *)
  v_cur : transition;               (* control.currentTransition()   (not for ConstControl) *)
  v_pend : transition;              (* control.pendingTransition()   (GuardControl only) *)
  v_plan : list (task P)            (* control.plan()                (not for ConstControl; plans enabled) *)
}.

Inductive action :=
| AChange (d : nat) | AChangeWith (d : nat) (p : P) | ACancel
| ASucceed (s : option nat) | AFail (s : option nat)                       (* None: the calling state itself *)
| APlanAppend (o d : nat) | APlanAppendWith (o d : nat) (p : P) | APlanClear | APlanRemoveAt (k : nat).
Inductive result := ROk | RFull | RIgnored | RSeen (ts : list (task P)).

Inductive log_record :=
| LMethod (sid : nat) (m : method)
| LTransition (o d : nat)
| LTaskStatus (sid : nat) (succeeded : bool)
| LCancelled (sid : nat).

Inductive event :=
| EvCb (w : who) (r : recipient) (m : method) (v : view)
| EvAct (a : action) (res : result)
| EvLog (l : log_record).

Definition oracle := list event -> who -> recipient -> method -> view -> list action.

Record mstate := { co : core; tr : list event }.
Definition emit (e : event) (s : mstate) : mstate := {| co := co s; tr := e :: tr s |}.
Definition upd_core (f : core -> core) (s : mstate) : mstate := {| co := f (co s); tr := tr s |}.

(* control-local state: _currentTransition, _pendingTransition, _taskStatus, _cancelled *)
Record ctl := { k_kind : ckind; k_cur : transition; k_pend : transition; k_status : tstatus; k_cancelled : bool }.
Definition mk_ctl kind cur pend := {| k_kind := kind; k_cur := cur; k_pend := pend; k_status := SNone; k_cancelled := false |}.
Definition set_status (k : ctl) st := {| k_kind := k_kind k; k_cur := k_cur k; k_pend := k_pend k; k_status := st; k_cancelled := k_cancelled k |}.
Definition set_cancelled (k : ctl) b := {| k_kind := k_kind k; k_cur := k_cur k; k_pend := k_pend k; k_status := k_status k; k_cancelled := b |}.

Section WithConfig.
Variable cfg : config.
Variable orc : oracle.
Let n := c_n cfg.
Let cap := c_cap cfg.
Let nN := N.of_nat n.

Definition id_of (w : who) : nat := match w with Root => INVALID | St k => k end.
Definition inj_of (w : who) : nat := match w with Root => c_inj_root cfg | St _ => c_inj_state cfg end.
Definition exists_who (w : who) : bool := match w with Root => c_head cfg | St _ => true end.
Definition defines (w : who) (m : method) : bool := match w with Root => c_def_root cfg m | St _ => c_def_state cfg m end.

Definition log_compiled : bool := match c_log cfg with LOff => false | _ => true end.
(* FFSM2_LOG_STATE_METHOD: does S_<id>::deepX emit a method record (given an attached logger) *)
Definition logs (w : who) (m : method) : bool :=
  match c_log cfg with
  | LOff => false
  | LVerbose => true
  | LOn => exists_who w &&
           (match m with MPreReact | MReact | MPostReact | MQuery => true | _ => false end
            || negb (inj_of w =? 0) || defines w m)
  end.
(* does user code run for that recipient: injected bases define every callback, the class itself per config *)
Definition delivers (w : who) (r : recipient) (m : method) : bool :=
  match r with Inj _ => true | Own => defines w m end.

Definition log_rec (l : log_record) (s : mstate) : mstate :=
  if log_compiled && logger (co s) then emit (EvLog l) s else s.

(* Registry::isActive(stateId) (ControlT) and the direct comparison (ConstControlT, R_) *)
Definition registry_is_active (c : core) (k : nat) : bool := active c =? k.
Definition direct_is_active (c : core) (k : nat) : bool := active c =? k.

Definition mk_view (origin : nat) (k : ctl) (c : core) : view :=
  {| v_kind := k_kind k; v_id := origin;
     v_act := map (match k_kind k with KConst => direct_is_active c | _ => registry_is_active c end) (seq 0 n);
     v_req := request c; v_cur := k_cur k; v_pend := k_pend k;
     v_plan := match k_kind k with KConst => [] | _ => if c_plans cfg then plan_tasks P cap (plan c) else [] end |}.

Definition can_change (kind : ckind) : bool := match kind with KFull | KGuard => true | _ => false end.
Definition can_plan (kind : ckind) : bool := match kind with KConst => false | _ => c_plans cfg end.

(* one action through a control whose _originId is [origin] *)
Definition perform (origin : nat) (a : action) (sk : mstate * ctl) : mstate * ctl * result :=
  let '(s, k) := sk in
  match a with
  | AChange d =>
      if can_change (k_kind k) then
        let s1 := upd_core (fun c => set_request c {| t_origin := origin; t_dest := d; t_pay := None |}) s in
        (log_rec (LTransition origin d) s1, k, ROk)
      else (s, k, RIgnored)
  | AChangeWith d p =>
      if can_change (k_kind k) && c_payload cfg then
        let s1 := upd_core (fun c => set_request c {| t_origin := origin; t_dest := d; t_pay := Some p |}) s in
        (log_rec (LTransition origin d) s1, k, ROk)
      else (s, k, RIgnored)
  | ACancel =>
      match k_kind k with
      | KGuard => (log_rec (LCancelled origin) s, set_cancelled k true, ROk)
      | _ => (s, k, RIgnored)
      end
  | ASucceed so =>
      let sid := match so with None => origin | Some x => x end in
      if can_change (k_kind k) && c_plans cfg && negb (sid =? INVALID) then
        let s1 := upd_core (fun c => set_plan c (pd_with_succ P (plan c) (ba_set (pd_succ (plan c)) (N.of_nat sid)))) s in
        (log_rec (LTaskStatus sid true) s1, set_status k SSuccess, ROk)
      else (s, k, RIgnored)
  | AFail so =>
      let sid := match so with None => origin | Some x => x end in
      if can_change (k_kind k) && c_plans cfg && negb (sid =? INVALID) then
        let s1 := upd_core (fun c => set_plan c (pd_with_fail P (plan c) (ba_set (pd_fail (plan c)) (N.of_nat sid)))) s in
        (log_rec (LTaskStatus sid false) s1, set_status k SFailure, ROk)
      else (s, k, RIgnored)
  | APlanAppend o d =>
      if can_plan (k_kind k) then
        let '(pd, ok) := plan_append P cap (plan (co s)) o d in
        (upd_core (fun c => set_plan c pd) s, k, if ok then ROk else RFull)
      else (s, k, RIgnored)
  | APlanAppendWith o d p =>
      if can_plan (k_kind k) && c_payload cfg then
        let '(pd, ok) := plan_append_with P cap (plan (co s)) o d p in
        (upd_core (fun c => set_plan c pd) s, k, if ok then ROk else RFull)
      else (s, k, RIgnored)
  | APlanClear =>
      if can_plan (k_kind k) then
        (upd_core (fun c => set_plan c (plan_clear P cap n (plan c))) s, k, ROk)
      else (s, k, RIgnored)
  | APlanRemoveAt i =>
      if can_plan (k_kind k) then
        let '(pd, seen) := plan_remove_at P cap (plan (co s)) i in
        (upd_core (fun c => set_plan c pd) s, k, RSeen seen)
      else (s, k, RIgnored)
  end.

Definition perform_all (origin : nat) (acts : list action) (sk : mstate * ctl) : mstate * ctl :=
  fold_left (fun sk a => let '(s1, k1, res) := perform origin a sk in (emit (EvAct a res) s1, k1)) acts sk.

(* one user callback: record what it sees, ask the oracle, do what it says *)
Definition invoke (w : who) (r : recipient) (m : method) (sk : mstate * ctl) : mstate * ctl :=
  let '(s, k) := sk in
  let v := mk_view (id_of w) k (co s) in
  let acts := orc (tr s) w r m v in
  perform_all (id_of w) acts (emit (EvCb w r m v) s, k).

(* S_<id, Args, Head>::deepX: method record, then (origin scoped to the state) the injected bases and the
   state's own callback in the order of Model/Ancestors.v. For the head-less root only the verbose record. *)
Definition deliver (w : who) (m : method) (sk : mstate * ctl) : mstate * ctl :=
  let '(s, k) := sk in
  let s1 := if logs w m then log_rec (LMethod (id_of w) m) s else s in
  if exists_who w then
    fold_left (fun sk r => if delivers w r m then invoke w r m sk else sk) (deep_order m (inj_of w)) (s1, k)
  else (s1, k).

(* SubStates::wideX(control, prong): the CS_ halving decides which S_ runs *)
Definition leaf (prong : nat) : who :=
  match dispatch nat n 0 0 (seq 0 n) prong with Some (_, x) => St x | None => St 0 end.

(* deepEntryGuard / deepExitGuard of S_: did this call newly cancel *)
Definition deliver_guard (w : who) (m : method) (sk : mstate * ctl) : mstate * ctl * bool :=
  let before := k_cancelled (snd sk) in
  let '(s1, k1) := deliver w m sk in
  (s1, k1, negb before && k_cancelled k1).

(* ---- plan data helpers on the machine state ---- *)
Definition upd_plan (f : plan_data P -> plan_data P) (s : mstate) : mstate := upd_core (fun c => set_plan c (f (plan c))) s.

(* C_::deepPreUpdate/deepUpdate/deepPreReact/deepReact (post = false) and deepPostUpdate/deepPostReact (post = true),
   inside a ScopedRegion that resets _taskStatus at the end *)
Definition region_phase (m : method) (post : bool) (sk : mstate * ctl) : mstate * ctl :=
  let a := active (co (fst sk)) in
  let '(s2, k2) :=
    if post then
      let '(s1, k1) := deliver (leaf a) m sk in
      let s1 := upd_plan (fun d => pd_with_statuses P d (pd_head_status d) (st_or (pd_sub_status d) (k_status k1))) s1 in
      let '(s2, k2) := deliver Root m (s1, k1) in
      (upd_plan (fun d => pd_with_statuses P d (st_or (pd_head_status d) (if c_head cfg then k_status k2 else SNone)) (pd_sub_status d)) s2, k2)
    else
      let '(s1, k1) := deliver Root m sk in
      let s1 := upd_plan (fun d => pd_with_statuses P d (st_or (pd_head_status d) (if c_head cfg then k_status k1 else SNone)) (pd_sub_status d)) s1 in
      let '(s2, k2) := deliver (leaf a) m (s1, k1) in
      (upd_plan (fun d => pd_with_statuses P d (pd_head_status d) (st_or (pd_sub_status d) (k_status k2))) s2, k2) in
  (s2, set_status k2 SNone).

(* FullControlT::updatePlan, the SUCCESS scan:
     for (it = p.begin(); it && isActive(it->origin); ++it) if (tasksSuccesses.get(it->origin)) { fire; it.remove(); } *)
Fixpoint plan_scan (fuel : nat) (curr next : nat) (to_clear : ba) (s : mstate) : mstate * ba :=
  match fuel with
  | O => (s, to_clear)
  | S f =>
    if curr <? cap then
      let t := task_at P (plan (co s)) curr in
      if registry_is_active (co s) (tk_origin t) then
        let '(s1, tc1) :=
          if ba_get (pd_succ (plan (co s))) (N.of_nat (tk_origin t)) then
            (* Origin origin{*this, it->origin}; changeWith(destination, *payload) or changeTo(destination) *)
            let s1 := upd_core (fun c => set_request c {| t_origin := tk_origin t; t_dest := tk_dest t; t_pay := tk_payload t |}) s in
            let s1 := log_rec (LTransition (tk_origin t) (tk_dest t)) s1 in
            let '(s1, tc1) :=
              if tk_origin t =? tk_dest t                                           (* cyclic() *)
              then (upd_plan (fun d => pd_with_succ P d (ba_clear (pd_succ d) (N.of_nat (tk_origin t)))) s1, to_clear)
              else (s1, ba_clear to_clear (N.of_nat (tk_origin t))) in
            (upd_plan (fun d => plan_remove P cap d curr) s1, tc1)                   (* it.remove() *)
          else (s, to_clear) in
        (* ++it *)
        plan_scan f next (it_next P cap (plan (co s1)) next) tc1 s1
      else (s, to_clear)
    else (s, to_clear)
  end.

Definition update_plan (status : tstatus) (sk : mstate * ctl) : mstate * ctl :=
  let '(s, k) := sk in
  match status with
  | SFailure =>
      let '(s1, k1) := deliver Root MPlanFailed (s, set_status k SFailure) in
      (upd_plan (plan_clear P cap n) s1, k1)
  | SSuccess =>
      if plan_nonempty P cap (plan (co s)) then
        let c := first (pd_pl (plan (co s))) in
        let '(s1, tc) := plan_scan (S cap) c (it_next P cap (plan (co s)) c) (ba_set_all nN (ba_init nN)) s in
        (upd_plan (fun d => pd_with_succ P d (ba_and_assign (pd_succ d) tc)) s1, k)
      else
        let '(s1, k1) := deliver Root MPlanSucceeded (s, set_status k SSuccess) in
        (upd_plan (plan_clear P cap n) s1, k1)
  | SNone => (s, k)
  end.

(* S_::deepUpdatePlans *)
Definition state_plan_status (c : core) (a : nat) : tstatus :=
  if ba_get (pd_fail (plan c)) (N.of_nat a) then SFailure
  else if ba_get (pd_succ (plan c)) (N.of_nat a) then SSuccess else SNone.

(* C_::deepUpdatePlans *)
Definition deep_update_plans (sk : mstate * ctl) : mstate * ctl :=
  let c := co (fst sk) in
  let st := st_or (pd_sub_status (plan c)) (state_plan_status c (id_of (leaf (active c)))) in
  if st_bool st && pd_exists (plan c) then update_plan st sk else sk.

(* ---- requests ---- *)
(* R_::applyRequest *)
Definition apply_request (cur : transition) (d : nat) (s : mstate) : mstate * bool :=
  if t_neq cur (t_to d) then (upd_core (fun c => set_requested c d) s, true) else (s, false).

(* R_::cancelledByGuards: deepForwardExitGuard(active) || deepForwardEntryGuard(requested) *)
Definition cancelled_by_guards (cur pend : transition) (s : mstate) : mstate * bool :=
  let k := mk_ctl KGuard cur pend in
  let '(s1, k1, c1) := deliver_guard (leaf (active (co s))) MExitGuard (s, k) in
  if c1 then (s1, true)
  else let '(s2, _, c2) := deliver_guard (leaf (requested (co s1))) MEntryGuard (s1, k1) in (s2, c2).

(* R_::cancelledByEntryGuards: C_::deepEntryGuard = HeadState::deepEntryGuard || wideEntryGuard(requested) *)
Definition cancelled_by_entry_guards (cur pend : transition) (s : mstate) : mstate * bool :=
  let k := mk_ctl KGuard cur pend in
  let '(s1, k1, c1) := deliver_guard Root MEntryGuard (s, k) in
  if c1 then (s1, true)
  else let '(s2, _, c2) := deliver_guard (leaf (requested (co s1))) MEntryGuard (s1, k1) in (s2, c2).

(* S_::deepExit: callbacks, then planData.clearTaskStatus(STATE_ID) *)
Definition state_exit (w : who) (k : ctl) (s : mstate) : mstate :=
  let '(s1, _) := deliver w MExit (s, k) in
  if exists_who w then upd_plan (fun d => pd_clear_task_status P d (id_of w)) s1 else s1.

(* C_::deepChangeToRequested *)
Definition deep_change_to_requested (cur : transition) (s : mstate) : mstate :=
  let k := mk_ctl KPlan cur t_empty in
  let c := co s in
  if negb (requested c =? active c) then
    let s1 := state_exit (leaf (active c)) k s in
    let s2 := upd_core (fun c1 => set_requested (set_active c1 (requested c1)) INVALID) s1 in
    fst (deliver (leaf (active (co s2))) MEnter (s2, k))
  else
    let s1 := upd_core (fun c1 => set_requested c1 INVALID) s in
    fst (deliver (leaf (active (co s1))) MReenter (s1, k)).

(* C_::deepEnter *)
Definition deep_enter (cur : transition) (s : mstate) : mstate :=
  let k := mk_ctl KPlan cur t_empty in
  let s1 := upd_core (fun c => set_requested (set_active c (requested c)) INVALID) s in
  let '(s2, k2) := deliver Root MEnter (s1, k) in
  fst (deliver (leaf (active (co s2))) MEnter (s2, k2)).

(* C_::deepExit *)
Definition deep_exit (s : mstate) : mstate :=
  let k := mk_ctl KPlan t_empty t_empty in
  let s1 := state_exit (leaf (active (co s))) k s in
  let s2 := state_exit Root k s1 in
  let s3 := upd_core (fun c => set_active c INVALID) s2 in
  if c_plans cfg then upd_plan (plan_clear P cap n) s3 else s3.

(* the substitution loop of R_::processTransitions *)
Fixpoint transitions_loop (fuel : nat) (cur : transition) (s : mstate) : mstate * transition :=
  match fuel with
  | O => (s, cur)
  | S f =>
    if t_valid (request (co s)) then
      let '(s1, applied) := apply_request cur (t_dest (request (co s))) s in
      if applied then
        let pend := request (co s1) in
        let s2 := upd_core (fun c => set_request c (t_clear (request c))) s1 in
        let '(s3, cancelled) := cancelled_by_guards cur pend s2 in
        if cancelled
        then transitions_loop f cur (upd_core (fun c => set_requested c (t_dest cur)) s3)
        else transitions_loop f pend s3
      else transitions_loop f cur (upd_core (fun c => set_request c (t_clear (request c))) s1)
    else (s, cur)
  end.

(* R_::processTransitions *)
Definition process_transitions (s : mstate) : mstate * transition :=
  let '(s1, cur) := transitions_loop (c_limit cfg) t_empty s in
  let s2 := if t_valid cur then deep_change_to_requested cur s1 else s1 in
  (upd_core (fun c => set_requested c INVALID) s2, cur).

(* R_::processRequest *)
Definition process_request (s : mstate) : mstate :=
  let '(s1, cur) := if t_valid (request (co s)) then process_transitions s else (s, t_empty) in
  if c_history cfg then upd_core (fun c => set_previous c cur) s1 else s1.

(* the redirection loop of R_::initialEnter *)
Fixpoint initial_loop (fuel : nat) (cur : transition) (s : mstate) : mstate * transition :=
  match fuel with
  | O => (s, cur)
  | S f =>
    if t_valid (request (co s)) then
      let '(s1, applied) := apply_request cur (t_dest (request (co s))) s in
      if applied then
        let pend := request (co s1) in
        let s2 := upd_core (fun c => set_request c (t_clear (request c))) s1 in
        let '(s3, cancelled) := cancelled_by_entry_guards cur pend s2 in
        if cancelled
        then initial_loop f cur (upd_core (fun c => set_requested c (if t_valid cur then t_dest cur else 0)) s3)
        else initial_loop f pend s3
      else initial_loop f cur (upd_core (fun c => set_request c (t_clear (request c))) s1)
    else (s, cur)
  end.

(* R_::initialEnter *)
Definition initial_enter (s : mstate) : mstate :=
  let '(s1, _) := apply_request t_empty 0 s in
  let '(s2, _) := cancelled_by_entry_guards t_empty t_empty s1 in
  let '(s3, cur) := initial_loop (c_limit cfg) t_empty s2 in
  let s4 := if c_history cfg then upd_core (fun c => set_previous c cur) s3 else s3 in
  let s5 := deep_enter cur s4 in
  upd_core (fun c => set_requested c INVALID) s5.

(* R_::finalExit *)
Definition final_exit (s : mstate) : mstate :=
  let s1 := deep_exit s in
  upd_core (fun c =>
    let c1 := set_request (set_requested (set_active c INVALID) INVALID) (t_clear (request c)) in
    let c2 := if c_plans cfg then set_plan c1 (pd_clear P (plan c1)) else c1 in
    if c_history cfg then set_previous c2 (t_clear (previous c2)) else c2) s1.

(* R_::update / R_::react *)
Definition cycle (mpre mmid mpost : method) (s : mstate) : mstate :=
  let k := mk_ctl KFull t_empty t_empty in
  let sk := region_phase mpre false (s, k) in
  let sk := region_phase mmid false sk in
  let sk := region_phase mpost true sk in
  let '(s1, _) := if c_plans cfg then deep_update_plans sk else sk in
  let s2 := if c_plans cfg then upd_plan (pd_clear_region_statuses P) s1 else s1 in
  process_request s2.
Definition update (s : mstate) : mstate := cycle MPreUpdate MUpdate MPostUpdate s.
Definition react (s : mstate) : mstate := cycle MPreReact MReact MPostReact s.

(* R_::query: C_::deepQuery = HeadState::deepQuery; wideQuery(active) *)
Definition query (s : mstate) : mstate :=
  let k := mk_ctl KConst t_empty t_empty in
  let '(s1, k1) := deliver Root MQuery (s, k) in
  fst (deliver (leaf (active (co s1))) MQuery (s1, k1)).

(* R_::changeTo / RP_::changeWith, immediate forms *)
Definition change_to (d : nat) (p : option P) (s : mstate) : mstate :=
  log_rec (LTransition INVALID d)
    (upd_core (fun c => set_request c {| t_origin := INVALID; t_dest := d; t_pay := p |}) s).
Definition immediate_change_to (d : nat) (p : option P) (s : mstate) : mstate := process_request (change_to d p s).

(* R_::succeed / R_::fail *)
Definition api_succeed (sid : nat) (s : mstate) : mstate :=
  log_rec (LTaskStatus sid true) (upd_plan (fun d => pd_with_succ P d (ba_set (pd_succ d) (N.of_nat sid))) s).
Definition api_fail (sid : nat) (s : mstate) : mstate :=
  log_rec (LTaskStatus sid false) (upd_plan (fun d => pd_with_fail P d (ba_set (pd_fail d) (N.of_nat sid))) s).

(* R_::replayTransition *)
Definition replay_transition (d : nat) (s : mstate) : mstate * bool :=
  if negb (d =? INVALID) then
    let s0 := upd_core (fun c => set_previous c (t_clear (previous c))) s in
    let '(s1, _) := apply_request t_empty d s0 in
    let s2 := upd_core (fun c => set_previous c (t_to d)) s1 in
    let s3 := deep_change_to_requested t_empty s2 in
    (upd_core (fun c => set_requested c INVALID) s3, true)
  else (s, false).

(* RV_<Manual>::replayEnter *)
Definition replay_enter (d : nat) (s : mstate) : mstate :=
  let '(s1, _) := apply_request t_empty d s in
  let s2 := upd_core (fun c => set_previous c (t_to d)) s1 in
  let s3 := deep_enter t_empty s2 in
  upd_core (fun c => set_requested c INVALID) s3.

(* ---- serialization ---- *)
Definition width_bits : N := bitWidth nN.                       (* CI_::WIDTH_BITS = bitWidth(WIDTH) *)
Definition serial_bits : N := 1 + width_bits.                    (* RF_::SERIAL_BITS *)
Definition machine_is_active (c : core) : bool := negb (active c =? INVALID).

(* RV_::save: WriteStream over a cleared buffer; write<1>(activity) [; write<WIDTH_BITS>(registry.active)] *)
Definition save (c : core) : bytes :=
  let buf := buffer_clear serial_bits in
  if c_manual cfg && negb (machine_is_active c) then fst (write buf 0 1 0)
  else
    let '(b1, c1) := write buf 0 1 1 in
    fst (write b1 c1 width_bits (N.of_nat (active c))).

(* R_::load *)
Definition base_load (buf : bytes) (cursor : N) (s : mstate) : mstate :=
  let s1 := upd_core (fun c => set_requested c INVALID) s in
  let '(v, _) := read buf cursor width_bits in
  let s2 := upd_core (fun c => set_requested c (N.to_nat v)) s1 in
  let s3 := upd_core (fun c =>
    let c1 := set_request c (t_clear (request c)) in
    let c2 := if c_plans cfg then set_plan c1 (pd_clear P (plan c1)) else c1 in
    if c_history cfg then set_previous c2 (t_clear (previous c2)) else c2) s2 in
  deep_change_to_requested t_empty s3.
(* RV_<Manual>::loadEnter *)
Definition load_enter (buf : bytes) (cursor : N) (s : mstate) : mstate :=
  let '(v, _) := read buf cursor width_bits in
  let s1 := upd_core (fun c => set_requested c (N.to_nat v)) s in
  deep_enter t_empty s1.
(* RV_::load *)
Definition load (buf : bytes) (s : mstate) : mstate :=
  let '(flag, c1) := read buf 0 1 in
  if c_manual cfg then
    if negb (flag =? 0)%N then
      if machine_is_active (co s) then base_load buf c1 s else load_enter buf c1 s
    else if machine_is_active (co s) then final_exit s else s
  else
    if negb (flag =? 0)%N then base_load buf c1 s else s.

(* ---- the public API, one operation at a time ---- *)
Inductive api_op :=
| OEnter | OExit | OUpdate | OReact | OQuery
| OChange (d : nat) | OChangeWith (d : nat) (p : P) | OImmChange (d : nat) | OImmChangeWith (d : nat) (p : P)
| OSucceed (sid : nat) | OFail (sid : nat)
| OPlanAppend (o d : nat) | OPlanAppendWith (o d : nat) (p : P) | OPlanClear | OPlanRemoveAt (k : nat)
| OLoad (buf : bytes)
| OReplayEnter (d : nat) | OReplayTransition (d : nat)
| OAttachLogger (on : bool).

(* the value an operation returns to its caller, where it returns one *)
Inductive api_ret := RetNone | RetBool (b : bool) | RetSeen (ts : list (task P)).

Definition api_plan_op (a : action) (s : mstate) : mstate * api_ret :=
  let '(s1, _, res) := perform INVALID a (s, mk_ctl KPlan t_empty t_empty) in
  (s1, match res with ROk => RetBool true | RFull => RetBool false | RIgnored => RetNone | RSeen ts => RetSeen ts end).

Definition step (s : mstate) (op : api_op) : mstate * api_ret :=
  match op with
  | OEnter => (initial_enter s, RetNone)
  | OExit => (final_exit s, RetNone)
  | OUpdate => (update s, RetNone)
  | OReact => (react s, RetNone)
  | OQuery => (query s, RetNone)
  | OChange d => (change_to d None s, RetNone)
  | OChangeWith d p => (change_to d (Some p) s, RetNone)
  | OImmChange d => (immediate_change_to d None s, RetNone)
  | OImmChangeWith d p => (immediate_change_to d (Some p) s, RetNone)
  | OSucceed sid => (api_succeed sid s, RetNone)
  | OFail sid => (api_fail sid s, RetNone)
  | OPlanAppend o d => api_plan_op (APlanAppend o d) s
  | OPlanAppendWith o d p => api_plan_op (APlanAppendWith o d p) s
  | OPlanClear => api_plan_op APlanClear s
  | OPlanRemoveAt k => api_plan_op (APlanRemoveAt k) s
  | OLoad buf => (load buf s, RetNone)
  | OReplayEnter d => (replay_enter d s, RetNone)
  | OReplayTransition d => let '(s1, b) := replay_transition d s in (s1, RetBool b)
  | OAttachLogger on => (upd_core (fun c => set_logger c on) s, RetNone)
  end.

(* construction: CoreT's member initialisers, then (automatic activation) initialEnter() *)
Definition core_init (with_logger : bool) : core :=
  {| active := INVALID; requested := INVALID; request := t_empty; previous := t_empty;
     plan := pd_init P cap n; logger := with_logger |}.
Definition construct (with_logger : bool) : mstate :=
  let s := {| co := core_init with_logger; tr := [] |} in
  if c_manual cfg then s else initial_enter s.
(* destruction: (automatic activation) finalExit() *)
Definition destroy (s : mstate) : mstate := if c_manual cfg then s else final_exit s.

Definition run_from (s : mstate) (ops : list api_op) : mstate := fold_left (fun s op => fst (step s op)) ops s.
Definition run (with_logger : bool) (ops : list api_op) : mstate := run_from (construct with_logger) ops.

(* what the instance itself reports between API calls *)
Record observation := {
  o_active : nat;                   (* activeStateId() *)
  o_on : bool;                      (* isActive() *)
  o_act : list bool;                (* isActive(k), k < n *)
  o_request : transition;
  o_prev : transition;              (* previousTransition() *)
  o_plan : list (task P);           (* plan() *)
  o_first : option (task P);        (* plan().first(), when the plan is non-empty *)
  o_last : option (task P);         (* plan().last() *)
  o_ser : bytes                     (* save() *)
}.
Definition observe (c : core) : observation :=
  {| o_active := active c; o_on := machine_is_active c;
     o_act := map (direct_is_active c) (seq 0 n);
     o_request := request c; o_prev := previous c;
     o_plan := if c_plans cfg then plan_tasks P cap (plan c) else [];
     o_first := if c_plans cfg && plan_nonempty P cap (plan c) then Some (plan_first P (plan c)) else None;
     o_last := if c_plans cfg && plan_nonempty P cap (plan c) then Some (plan_last P (plan c)) else None;
     o_ser := if c_serial cfg then save c else [] |}.
End WithConfig.
End M.
