(* Several instances of one machine type, as the correspondence harness drives them: construction,
   destruction, copy construction, save-from-one/load-into-another and the single-instance API addressed
   to instance i. The global log interleaves the instances' events in the order they happen. *)
From Coq Require Import List Arith Bool.
From FFSM2 Require Import Model.TaskList Model.Plan Model.Ancestors Model.BitStream Model.Machine.
Import ListNotations.

Section W.
Variable P : Type.
Variable cfg : config.
Variable orc_of : nat -> oracle P.                (* the callbacks of instance i *)

Inductive wop :=
| WConstruct (i : nat) (with_logger : bool)
| WDestroy (i : nat)
| WCopy (i j : nat)                               (* instance i := copy-constructed from instance j *)
| WLoadFrom (i j : nat)                           (* j.save(buffer); i.load(buffer) *)
| WOp (i : nat) (op : api_op P).

Inductive gevent :=
| GBegin (op : wop)
| GEv (i : nat) (e : event P)
| GEnd (op : wop) (ret : api_ret P)
| GObs (i : nat) (o : observation P).

Record world := { insts : list (option (mstate P)); glog : list gevent }.   (* glog newest first *)

Definition get_inst (w : world) (i : nat) : option (mstate P) := nth i (insts w) None.
Fixpoint set_nth {A} (l : list A) (i : nat) (v : A) : list A :=
  match l, i with [], _ => [] | _ :: t, O => v :: t | h :: t, S j => h :: set_nth t j v end.

(* CoreT's copy constructor: every member is copied (Generated/InitFacts.v checks the initialiser list) *)
Definition copy_core (c : core P) : core P :=
  {| active := active P c; requested := requested P c; request := request P c; previous := previous P c;
     plan := plan P c; logger := logger P c |}.

(* the events an operation appended to instance i's trace, oldest first *)
Definition new_events (before after : list (event P)) : list (event P) :=
  rev (firstn (length after - length before) after).

Definition finish (w : world) (i : nat) (op : wop) (before : list (event P)) (s' : option (mstate P)) (ret : api_ret P) (log0 : list gevent) : world :=
  let evs := match s' with Some s1 => new_events before (tr P s1) | None => [] end in
  let log1 := GEnd op ret :: (rev (map (GEv i) evs) ++ log0) in
  let log2 := match s' with Some s1 => GObs i (observe P cfg (co P s1)) :: log1 | None => log1 end in
  {| insts := set_nth (insts w) i s'; glog := log2 |}.

Definition wstep (w : world) (op : wop) : world :=
  let log0 := GBegin op :: glog w in
  match op with
  | WConstruct i lg =>
      let s1 := construct P cfg (orc_of i) lg in
      finish w i op [] (Some s1) (RetNone P) log0
  | WDestroy i =>
      match get_inst w i with
      | Some s =>
          let s1 := destroy P cfg (orc_of i) s in
          (* the destructor's callbacks are logged, then the instance is gone *)
          let evs := new_events (tr P s) (tr P s1) in
          {| insts := set_nth (insts w) i None; glog := GEnd op (RetNone P) :: (rev (map (GEv i) evs) ++ log0) |}
      | None => {| insts := insts w; glog := GEnd op (RetNone P) :: log0 |}
      end
  | WCopy i j =>
      match get_inst w j with
      | Some sj => finish w i op [] (Some {| co := copy_core (co P sj); tr := [] |}) (RetNone P) log0
      | None => {| insts := insts w; glog := GEnd op (RetNone P) :: log0 |}
      end
  | WLoadFrom i j =>
      match get_inst w i, get_inst w j with
      | Some si, Some sj =>
          let buf := save P cfg (co P sj) in
          let s1 := load P cfg (orc_of i) buf si in
          finish w i op (tr P si) (Some s1) (RetNone P) log0
      | _, _ => {| insts := insts w; glog := GEnd op (RetNone P) :: log0 |}
      end
  | WOp i aop =>
      match get_inst w i with
      | Some s =>
          let '(s1, ret) := step P cfg (orc_of i) s aop in
          finish w i op (tr P s) (Some s1) ret log0
      | None => {| insts := insts w; glog := GEnd op (RetNone P) :: log0 |}
      end
  end.

Definition wrun (slots : nat) (ops : list wop) : world :=
  fold_left wstep ops {| insts := repeat None slots; glog := [] |}.
End W.
