(* PlanDataT, PlanT, PayloadPlanT and their iterators of development/ffsm2/detail/root/plan_data.{hpp,inl},
   plan_0.inl, plan_1.{hpp,inl}, plan_2.inl. The plan order is the doubly linked list held in
   taskLinks + tasksBounds over the slots of the TaskListT; everything is index-linked as in the C++.
   Definitions only; proofs are in Proofs/PlanLinksProofs.v and Proofs/PlanProofs.v. *)
From Coq Require Import List Arith Bool NArith.
From FFSM2 Require Import Model.TaskList Model.BitArray.
Import ListNotations.

(* ---- TaskStatus ---- *)
Inductive tstatus := SNone | SSuccess | SFailure.
Definition st_rank (s : tstatus) : nat := match s with SNone => 0 | SSuccess => 1 | SFailure => 2 end.
(* operator| / operator|= : the larger of the two results *)
Definition st_or (l r : tstatus) : tstatus := if st_rank r <? st_rank l then l else r.
Definition st_bool (s : tstatus) : bool := match s with SNone => false | _ => true end.

(* ---- taskLinks / tasksBounds ---- *)
Definition link := (nat * nat)%type.                       (* TaskLink{prev, next} *)
Definition dlink : link := (INVALID, INVALID).
Fixpoint lupd (l : list link) (i : nat) (f : link -> link) : list link :=
  match l, i with [], _ => [] | h :: t, O => f h :: t | h :: t, S j => h :: lupd t j f end.
Definition lget (l : list link) (i : nat) : link := nth i l dlink.

Record pl := { links : list link; first : nat; lastb : nat }.

Section PL.
Variable cap : nat.                                         (* TASK_CAPACITY *)

(* PlanT::linkTask, for index != INVALID *)
Definition link_task (p : pl) (idx : nat) : pl :=
  if first p =? INVALID then {| links := links p; first := idx; lastb := idx |}
  else {| links := lupd (lupd (links p) (lastb p) (fun l => (fst l, idx))) idx (fun l => (lastb p, snd l));
          first := first p; lastb := idx |}.

(* PlanT::remove, the link part *)
Definition unlink (p : pl) (idx : nat) : pl :=
  let l := lget (links p) idx in
  let pv := fst l in let nx := snd l in
  let '(ls1, f1) := if pv <? cap then (lupd (links p) pv (fun x => (fst x, nx)), first p) else (links p, nx) in
  let '(ls2, l2) := if nx <? cap then (lupd ls1 nx (fun x => (pv, snd x)), lastb p) else (ls1, pv) in
  {| links := lupd ls2 idx (fun _ => dlink); first := f1; lastb := l2 |}.
End PL.

Section PD.
Variable P : Type.
Variable cap : nat.                                         (* TASK_CAPACITY *)
Variable n : nat.                                           (* STATE_COUNT *)

Record plan_data := {
  pd_tasks : tl P;
  pd_pl : pl;                                               (* taskLinks + tasksBounds *)
  pd_succ : ba;                                             (* tasksSuccesses *)
  pd_fail : ba;                                             (* tasksFailures *)
  pd_exists : bool;                                         (* planExists *)
  pd_head_status : tstatus;
  pd_sub_status : tstatus
}.

Definition pd_with_tasks (d : plan_data) t := {| pd_tasks := t; pd_pl := pd_pl d; pd_succ := pd_succ d; pd_fail := pd_fail d; pd_exists := pd_exists d; pd_head_status := pd_head_status d; pd_sub_status := pd_sub_status d |}.
Definition pd_with_pl (d : plan_data) p := {| pd_tasks := pd_tasks d; pd_pl := p; pd_succ := pd_succ d; pd_fail := pd_fail d; pd_exists := pd_exists d; pd_head_status := pd_head_status d; pd_sub_status := pd_sub_status d |}.
Definition pd_with_succ (d : plan_data) b := {| pd_tasks := pd_tasks d; pd_pl := pd_pl d; pd_succ := b; pd_fail := pd_fail d; pd_exists := pd_exists d; pd_head_status := pd_head_status d; pd_sub_status := pd_sub_status d |}.
Definition pd_with_fail (d : plan_data) b := {| pd_tasks := pd_tasks d; pd_pl := pd_pl d; pd_succ := pd_succ d; pd_fail := b; pd_exists := pd_exists d; pd_head_status := pd_head_status d; pd_sub_status := pd_sub_status d |}.
Definition pd_with_exists (d : plan_data) b := {| pd_tasks := pd_tasks d; pd_pl := pd_pl d; pd_succ := pd_succ d; pd_fail := pd_fail d; pd_exists := b; pd_head_status := pd_head_status d; pd_sub_status := pd_sub_status d |}.
Definition pd_with_statuses (d : plan_data) h s := {| pd_tasks := pd_tasks d; pd_pl := pd_pl d; pd_succ := pd_succ d; pd_fail := pd_fail d; pd_exists := pd_exists d; pd_head_status := h; pd_sub_status := s |}.

(* a freshly constructed PlanDataT (all members carry initialisers after the planExists repair) *)
Definition pd_init : plan_data :=
  {| pd_tasks := tl_init P cap;
     pd_pl := {| links := repeat dlink cap; first := INVALID; lastb := INVALID |};
     pd_succ := ba_init (N.of_nat n); pd_fail := ba_init (N.of_nat n);
     pd_exists := false; pd_head_status := SNone; pd_sub_status := SNone |}.

(* one task as the plan's users see it *)
Record task := { tk_origin : nat; tk_dest : nat; tk_payload : option P }.
Definition task_at (d : plan_data) (i : nat) : task :=
  let s := TaskList.get P (t_items (pd_tasks d)) i in
  {| tk_origin := s_prev s; tk_dest := s_next s; tk_payload := s_pay s |}.

(* PlanT::linkTask(index): false for INVALID *)
Definition pd_link (d : plan_data) (idx : nat) : plan_data * bool :=
  if idx =? INVALID then (d, false) else (pd_with_pl d (link_task (pd_pl d) idx), true).

(* PlanT::append(origin, destination) *)
Definition plan_append (d : plan_data) (o dst : nat) : plan_data * bool :=
  if t_count (pd_tasks d) <? cap then
    let d1 := pd_with_exists d true in
    let '(t', idx) := emplace P cap (pd_tasks d1) o dst None in
    pd_link (pd_with_tasks d1 t') idx
  else (d, false).
(* PayloadPlanT::append(origin, destination, payload): no capacity test of its own, emplace reports INVALID *)
Definition plan_append_with (d : plan_data) (o dst : nat) (p : P) : plan_data * bool :=
  let d1 := pd_with_exists d true in
  let '(t', idx) := emplace P cap (pd_tasks d1) o dst (Some p) in
  pd_link (pd_with_tasks d1 t') idx.

(* PlanT::remove(index) *)
Definition plan_remove (d : plan_data) (idx : nat) : plan_data :=
  let d1 := pd_with_pl d (unlink cap (pd_pl d) idx) in
  pd_with_tasks d1 (remove P cap (pd_tasks d1) idx).

(* PlanT::clearTasks() *)
Fixpoint clear_loop (fuel : nat) (d : plan_data) (idx : nat) : plan_data :=
  match fuel with
  | O => d
  | S f => if idx =? INVALID then d else
           let nx := snd (lget (links (pd_pl d)) idx) in
           clear_loop f (plan_remove d idx) nx
  end.
Definition plan_clear_tasks (d : plan_data) : plan_data :=
  if first (pd_pl d) <? cap then
    let d1 := clear_loop (S cap) d (first (pd_pl d)) in
    pd_with_pl d1 {| links := links (pd_pl d1); first := INVALID; lastb := INVALID |}
  else d.

(* PlanT::clear(): clearTasks(), then clear both report bits of every state *)
Fixpoint clear_bits (k : nat) (b : ba) : ba :=
  match k with O => b | S k' => ba_clear (clear_bits k' b) (N.of_nat k') end.
Definition plan_clear (d : plan_data) : plan_data :=
  let d1 := plan_clear_tasks d in
  pd_with_fail (pd_with_succ d1 (clear_bits n (pd_succ d1))) (clear_bits n (pd_fail d1)).

(* PlanDataT::clear() *)
Definition pd_clear (d : plan_data) : plan_data :=
  {| pd_tasks := tl_clear P (pd_tasks d);
     pd_pl := {| links := map (fun _ => dlink) (links (pd_pl d)); first := INVALID; lastb := INVALID |};
     pd_succ := ba_clear_all (pd_succ d); pd_fail := ba_clear_all (pd_fail d);
     pd_exists := false; pd_head_status := SNone; pd_sub_status := SNone |}.

(* PlanDataT::clearTaskStatus(stateId) *)
Definition pd_clear_task_status (d : plan_data) (s : nat) : plan_data :=
  if s =? INVALID then d
  else pd_with_fail (pd_with_succ d (ba_clear (pd_succ d) (N.of_nat s))) (ba_clear (pd_fail d) (N.of_nat s)).
Definition pd_clear_region_statuses (d : plan_data) : plan_data := pd_with_statuses d SNone SNone.

(* explicit operator bool of PlanT / CPlanT *)
Definition plan_nonempty (d : plan_data) : bool := first (pd_pl d) <? cap.

(* Iterator: _curr = first, _next = next(); operator bool: _curr < CAPACITY; ++: _curr = _next, _next = next() *)
Definition it_next (d : plan_data) (curr : nat) : nat :=
  if curr <? cap then snd (lget (links (pd_pl d)) curr) else INVALID.
Fixpoint iter_indices (fuel : nat) (d : plan_data) (curr : nat) : list nat :=
  match fuel with
  | O => []
  | S f => if curr <? cap then curr :: iter_indices f d (it_next d curr) else []
  end.
Definition plan_indices (d : plan_data) : list nat := iter_indices (S cap) d (first (pd_pl d)).
Definition plan_tasks (d : plan_data) : list task := map (task_at d) (plan_indices d).
(* first() / last() *)
Definition plan_first (d : plan_data) : task := task_at d (first (pd_pl d)).
Definition plan_last (d : plan_data) : task := task_at d (lastb (pd_pl d)).

(* iterate to the k-th task and it.remove() it (the harness's removeAt); the iterator keeps walking with
   its cached _next; the result lists the tasks the iterator visited *)
Fixpoint remove_at_loop (fuel : nat) (d : plan_data) (curr next : nat) (k : option nat) (seen : list task)
  : plan_data * list task :=
  match fuel with
  | O => (d, seen)
  | S f => if curr <? cap then
             let t := task_at d curr in
             let hit := match k with Some O => true | _ => false end in
             let d1 := if hit then plan_remove d curr else d in
             let k' := match k with Some (S j) => Some j | _ => None end in
             remove_at_loop f d1 next (it_next d1 next) k' (seen ++ [t])
           else (d, seen)
  end.
Definition plan_remove_at (d : plan_data) (k : nat) : plan_data * list task :=
  let c := first (pd_pl d) in remove_at_loop (S cap) d c (it_next d c) (Some k) [].
End PD.

Arguments pd_tasks {P}. Arguments pd_pl {P}. Arguments pd_succ {P}. Arguments pd_fail {P}.
Arguments pd_exists {P}. Arguments pd_head_status {P}. Arguments pd_sub_status {P}.
Arguments Build_plan_data {P}. Arguments Build_task {P}.
Arguments tk_origin {P}. Arguments tk_dest {P}. Arguments tk_payload {P}.
