(* The scripted oracle used by the correspondence check: a callback table, first matching entry wins.
   Conditions are over what the callback can observe. The C++ harness implements the same table
   (harness/machine_harness.cpp); this is the model's side of it. Definitions only. *)
From Coq Require Import List Arith Bool.
From FFSM2 Require Import Model.TaskList Model.Plan Model.Ancestors Model.Machine.
Import ListNotations.

Section S.
Variable P : Type.

Inductive who_pat := WAny | WRoot | WAnyState | WState (k : nat).
Inductive rec_pat := RAny | ROwn | RInj (i : nat).

Record cond := {
  cd_occ : option nat;             (* this is the k-th delivery (0-based) of this callback to this recipient *)
  cd_mod : option (nat * nat);     (* occurrence mod m = r *)
  cd_pend : option nat;            (* pendingTransition().destination *)
  cd_cur : option nat;             (* currentTransition().destination *)
  cd_active : option nat           (* control.isActive(a) *)
}.
Record entry := { e_who : who_pat; e_rec : rec_pat; e_meth : option method; e_cond : cond; e_acts : list (action P) }.

Definition who_eqb (a b : who) : bool :=
  match a, b with Root, Root => true | St x, St y => x =? y | _, _ => false end.
Definition rec_eqb (a b : recipient) : bool :=
  match a, b with Own, Own => true | Inj x, Inj y => x =? y | _, _ => false end.
Definition method_code (m : method) : nat :=
  match m with
  | MEntryGuard => 0 | MEnter => 1 | MReenter => 2 | MPreUpdate => 3 | MUpdate => 4 | MPostUpdate => 5
  | MPreReact => 6 | MReact => 7 | MPostReact => 8 | MQuery => 9 | MExitGuard => 10 | MExit => 11
  | MPlanSucceeded => 12 | MPlanFailed => 13
  end.
Definition method_eqb (a b : method) : bool := method_code a =? method_code b.

Definition occurrences (tr : list (event P)) (w : who) (r : recipient) (m : method) : nat :=
  length (filter (fun e => match e with
                           | EvCb _ w' r' m' _ => who_eqb w w' && rec_eqb r r' && method_eqb m m'
                           | _ => false end) tr).

Definition who_matches (p : who_pat) (w : who) : bool :=
  match p, w with
  | WAny, _ => true | WRoot, Root => true | WAnyState, St _ => true | WState k, St j => k =? j | _, _ => false
  end.
Definition rec_matches (p : rec_pat) (r : recipient) : bool :=
  match p, r with RAny, _ => true | ROwn, Own => true | RInj i, Inj j => i =? j | _, _ => false end.
Definition opt_holds {A} (o : option A) (f : A -> bool) : bool := match o with None => true | Some x => f x end.

Definition cond_holds (c : cond) (occ : nat) (v : view P) : bool :=
  opt_holds (cd_occ c) (fun k => occ =? k) &&
  opt_holds (cd_mod c) (fun mr => match fst mr with O => false | S _ => occ mod (fst mr) =? snd mr end) &&
  opt_holds (cd_pend c) (fun d => match v_kind P v with KGuard => t_dest P (v_pend P v) =? d | _ => false end) &&
  opt_holds (cd_cur c) (fun d => match v_kind P v with KConst => false | _ => t_dest P (v_cur P v) =? d end) &&
  opt_holds (cd_active c) (fun a => nth a (v_act P v) false).

Definition entry_matches (e : entry) (occ : nat) (w : who) (r : recipient) (m : method) (v : view P) : bool :=
  who_matches (e_who e) w && rec_matches (e_rec e) r && opt_holds (e_meth e) (method_eqb m) && cond_holds (e_cond e) occ v.

Definition table_oracle (tab : list entry) : oracle P :=
  fun tr w r m v =>
    let occ := occurrences tr w r m in
    match find (fun e => entry_matches e occ w r m v) tab with
    | Some e => e_acts e
    | None => []
    end.
End S.
