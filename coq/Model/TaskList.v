(* TaskListT<Payload, CAPACITY> of development/ffsm2/detail/features/task_list.{hpp,inl}: a slot
   allocator with an intrusive free list. A slot's prev/next links alias the task's
   origin/destination (the union in TaskBase), exactly as in the C++.
   Definitions only; proofs are in Proofs/TaskListProofs.v. *)
From Coq Require Import List Arith Bool.
Import ListNotations.

(* ---- model: mirrors TaskListT<P,CAP>; indices are nat, INVALID = 255 ---- *)
Definition INVALID := 255.

Section TL.
Variable P : Type.
Record slot := { s_prev : nat; s_next : nat; s_pay : option P }.   (* prev/next alias origin/destination *)
Definition dslot := {| s_prev := INVALID; s_next := INVALID; s_pay := None |}.
Record tl := { t_head : nat; t_tail : nat; t_last : nat; t_count : nat; t_items : list slot }.

Fixpoint upd (l : list slot) (i : nat) (f : slot -> slot) : list slot :=
  match l, i with
  | [], _ => []
  | h :: t, O => f h :: t
  | h :: t, S j => h :: upd t j f
  end.
Definition get (l : list slot) (i : nat) := nth i l dslot.

Definition set_prev v (s : slot) := {| s_prev := v; s_next := s_next s; s_pay := s_pay s |}.
Definition set_links p n (s : slot) := {| s_prev := p; s_next := n; s_pay := s_pay s |}.

Variable cap : nat.

Definition emplace (t : tl) (o d : nat) (p : option P) : tl * nat :=
  if t_count t <? cap then
    let index := t_head t in
    let item := get (t_items t) index in
    let '(h, tlv, lst, its) :=
      if negb (t_head t =? t_tail t) then
        let nh := s_next item in
        (nh, t_tail t, t_last t, upd (t_items t) nh (set_prev INVALID))
      else if t_last t <? cap - 1 then
        let l := S (t_last t) in
        (l, l, l, upd (t_items t) l (set_links INVALID INVALID))
      else (INVALID, INVALID, cap, t_items t) in
    ({| t_head := h; t_tail := tlv; t_last := lst; t_count := S (t_count t);
        t_items := upd its index (fun _ => {| s_prev := o; s_next := d; s_pay := p |}) |}, index)
  else (t, INVALID).

Definition remove (t : tl) (i : nat) : tl :=
  if t_count t <? cap then
    let its := upd (t_items t) i (set_links INVALID (t_head t)) in
    let its := upd its (t_head t) (set_prev i) in
    {| t_head := i; t_tail := t_tail t; t_last := t_last t; t_count := pred (t_count t); t_items := its |}
  else
    {| t_head := i; t_tail := i; t_last := t_last t; t_count := pred (t_count t);
       t_items := upd (t_items t) i (set_links INVALID INVALID) |}.


(* TaskListT::clear(): only the four indices are reset, the items keep their stale contents *)
Definition tl_clear (t : tl) : tl :=
  {| t_head := 0; t_tail := 0; t_last := 0; t_count := 0; t_items := t_items t |}.
(* a freshly constructed list: Item _items[CAPACITY] {} *)
Definition tl_init : tl :=
  {| t_head := 0; t_tail := 0; t_last := 0; t_count := 0; t_items := repeat dslot cap |}.
End TL.

Arguments s_prev {P}. Arguments s_next {P}. Arguments s_pay {P}.
Arguments t_head {P}. Arguments t_tail {P}. Arguments t_last {P}. Arguments t_count {P}. Arguments t_items {P}.
Arguments Build_slot {P}. Arguments Build_tl {P}.
Arguments INVALID : simpl never.
