(* C04 for activation: R_::initialEnter (initial_enter of Model/Machine.v) evaluates the entry guards of the
   initial state once (the verdict of that evaluation is not used), then runs the redirection loop, which
   performs at most SUBSTITUTION_LIMIT rounds, and enters the destination of the last surviving redirection,
   or state 0 when none survived. The redirection loop is instrumented with the ghost list of its rounds,
   as Proofs/GuardProofs.v does for the substitution loop of processTransitions (same [round] record, same
   [last_survivor]). The bound is also stated on the trace: the number of deliveries of the root's own
   entryGuard during activation is at most 1 + SUBSTITUTION_LIMIT. *)
From Coq Require Import List Arith Bool NArith Lia.
From FFSM2 Require Import Model.TaskList Model.BitArray Model.Plan Model.Ancestors Model.Dispatch
                          Model.Bits Model.BitStream Model.Machine
                          Proofs.AncestorsProofs Proofs.MachineFrame Proofs.GuardProofs Proofs.MachinePlan Proofs.MachineLife.
Import ListNotations.

Arguments INVALID : simpl never.

Section A.
Variable P : Type.
Variable cfg : config.
Variable orc : oracle P.
Local Notation n := (c_n cfg).
Local Notation mstate := (mstate P).
Local Notation event := (event P).
Local Notation transition := (transition P).
Local Notation round := (round P).

(* ================================================================================================ *)
(* 1. the ghost-instrumented redirection loop                                                        *)
(* ================================================================================================ *)
Fixpoint initial_loop_g (fuel : nat) (cur : transition) (s : mstate) : mstate * transition * list round :=
  match fuel with
  | O => (s, cur, [])
  | S f =>
    if t_valid P (request P (co P s)) then
      let '(s1, applied) := apply_request P cur (t_dest P (request P (co P s))) s in
      if applied then
        let pend := request P (co P s1) in
        let s2 := upd_core P (fun c => set_request P c (t_clear P (request P c))) s1 in
        let '(s3, cancelled) := cancelled_by_entry_guards P cfg orc cur pend s2 in
        if cancelled
        then let '(s', cur', rs) := initial_loop_g f cur (upd_core P (fun c => set_requested P c (if t_valid P cur then t_dest P cur else 0)) s3) in
             (s', cur', {| r_pend := pend; r_cancelled := true; r_deduped := false |} :: rs)
        else let '(s', cur', rs) := initial_loop_g f pend s3 in
             (s', cur', {| r_pend := pend; r_cancelled := false; r_deduped := false |} :: rs)
      else let '(s', cur', rs) := initial_loop_g f cur (upd_core P (fun c => set_request P c (t_clear P (request P c))) s1) in
           (s', cur', {| r_pend := request P (co P s); r_cancelled := false; r_deduped := true |} :: rs)
    else (s, cur, [])
  end.

Definition iloop_state (fuel : nat) (cur : transition) (s : mstate) : mstate := fst (fst (initial_loop_g fuel cur s)).
Definition iloop_cur (fuel : nat) (cur : transition) (s : mstate) : transition := snd (fst (initial_loop_g fuel cur s)).
Definition iloop_rounds (fuel : nat) (cur : transition) (s : mstate) : list round := snd (initial_loop_g fuel cur s).

Lemma iloop_g_eta fuel cur s :
  initial_loop_g fuel cur s = (iloop_state fuel cur s, iloop_cur fuel cur s, iloop_rounds fuel cur s).
Proof. unfold iloop_state, iloop_cur, iloop_rounds. destruct (initial_loop_g fuel cur s) as [[s' c'] rs]. reflexivity. Qed.

(* erasing the ghost list gives back the model's loop *)
Theorem initial_loop_g_erase : forall fuel cur s,
  fst (initial_loop_g fuel cur s) = initial_loop P cfg orc fuel cur s.
Proof.
  induction fuel as [|f IH]; intros cur s; cbn [initial_loop_g initial_loop]; [reflexivity|].
  destruct (t_valid P (request P (co P s))); [|reflexivity].
  destruct (apply_request P cur (t_dest P (request P (co P s))) s) as [s1 applied].
  destruct applied.
  - destruct (cancelled_by_entry_guards P cfg orc cur (request P (co P s1)) _) as [s3 cancelled].
    destruct cancelled.
    + rewrite <- IH. destruct (initial_loop_g f cur _) as [[s' cur'] rs]. reflexivity.
    + rewrite <- IH. destruct (initial_loop_g f (request P (co P s1)) s3) as [[s' cur'] rs]. reflexivity.
  - rewrite <- IH. destruct (initial_loop_g f cur _) as [[s' cur'] rs]. reflexivity.
Qed.

Corollary iloop_erase fuel cur s :
  initial_loop P cfg orc fuel cur s = (iloop_state fuel cur s, iloop_cur fuel cur s).
Proof. rewrite <- initial_loop_g_erase, iloop_g_eta. reflexivity. Qed.

(* ================================================================================================ *)
(* 2. at most [fuel] rounds                                                                          *)
(* ================================================================================================ *)
Lemma initial_rounds_le_fuel : forall fuel cur s, length (iloop_rounds fuel cur s) <= fuel.
Proof.
  unfold iloop_rounds.
  induction fuel as [|f IH]; intros cur s; cbn [initial_loop_g]; [cbn; lia|].
  destruct (t_valid P (request P (co P s))); [|cbn; lia].
  destruct (apply_request P cur (t_dest P (request P (co P s))) s) as [s1 applied].
  destruct applied.
  - destruct (cancelled_by_entry_guards P cfg orc cur (request P (co P s1)) _) as [s3 cancelled].
    destruct cancelled.
    + specialize (IH cur (upd_core P (fun c => set_requested P c (if t_valid P cur then t_dest P cur else 0)) s3)).
      destruct (initial_loop_g f cur _) as [[s' cur'] rs]. cbn [snd length] in *. lia.
    + specialize (IH (request P (co P s1)) s3).
      destruct (initial_loop_g f _ s3) as [[s' cur'] rs]. cbn [snd length] in *. lia.
  - specialize (IH cur (upd_core P (fun c => set_request P c (t_clear P (request P c))) s1)).
    destruct (initial_loop_g f cur _) as [[s' cur'] rs]. cbn [snd length] in *. lia.
Qed.

Theorem initial_rounds_le_limit cur s : length (iloop_rounds (c_limit cfg) cur s) <= c_limit cfg.
Proof. apply initial_rounds_le_fuel. Qed.

(* every round consumed a valid request *)
Lemma initial_rounds_valid : forall fuel cur s,
  Forall (fun r => t_valid P (r_pend P r) = true) (iloop_rounds fuel cur s).
Proof.
  unfold iloop_rounds.
  induction fuel as [|f IH]; intros cur s; cbn [initial_loop_g]; [constructor|].
  destruct (t_valid P (request P (co P s))) eqn:Ev; [|constructor].
  unfold apply_request. destruct (t_neq P cur (t_to P (t_dest P (request P (co P s))))).
  - cbn [upd_core co set_requested request].
    destruct (cancelled_by_entry_guards P cfg orc cur (request P (co P s)) _) as [s3 cancelled].
    destruct cancelled.
    + specialize (IH cur (upd_core P (fun c => set_requested P c (if t_valid P cur then t_dest P cur else 0)) s3)).
      destruct (initial_loop_g f cur _) as [[s' cur'] rs]. cbn [snd] in *. constructor; [exact Ev|exact IH].
    + specialize (IH (request P (co P s)) s3).
      destruct (initial_loop_g f _ s3) as [[s' cur'] rs]. cbn [snd] in *. constructor; [exact Ev|exact IH].
  - specialize (IH cur (upd_core P (fun c => set_request P c (t_clear P (request P c))) s)).
    destruct (initial_loop_g f cur _) as [[s' cur'] rs]. cbn [snd] in *. constructor; [exact Ev|exact IH].
Qed.

(* ================================================================================================ *)
(* 3. the survivor                                                                                   *)
(* ================================================================================================ *)
Lemma initial_survivor_gen : forall fuel cur s, iloop_cur fuel cur s = survivor_from P cur (iloop_rounds fuel cur s).
Proof.
  unfold iloop_cur, iloop_rounds, survivor_from.
  induction fuel as [|f IH]; intros cur s; cbn [initial_loop_g]; [reflexivity|].
  destruct (t_valid P (request P (co P s))); [|reflexivity].
  destruct (apply_request P cur (t_dest P (request P (co P s))) s) as [s1 applied].
  destruct applied.
  - destruct (cancelled_by_entry_guards P cfg orc cur (request P (co P s1)) _) as [s3 cancelled].
    destruct cancelled.
    + specialize (IH cur (upd_core P (fun c => set_requested P c (if t_valid P cur then t_dest P cur else 0)) s3)).
      destruct (initial_loop_g f cur _) as [[s' cur'] rs]. cbn [fst snd fold_left] in *. exact IH.
    + specialize (IH (request P (co P s1)) s3).
      destruct (initial_loop_g f _ s3) as [[s' cur'] rs]. cbn [fst snd fold_left] in *. exact IH.
  - specialize (IH cur (upd_core P (fun c => set_request P c (t_clear P (request P c))) s1)).
    destruct (initial_loop_g f cur _) as [[s' cur'] rs]. cbn [fst snd fold_left] in *. exact IH.
Qed.

(* the [cur] the loop returns is the pending transition of the last round that was neither cancelled nor
   dropped by applyRequest, or the empty transition when there is none *)
Theorem initial_survivor_spec fuel s :
  iloop_cur fuel (t_empty P) s = last_survivor P (iloop_rounds fuel (t_empty P) s).
Proof. apply initial_survivor_gen. Qed.

(* ================================================================================================ *)
(* 4. activation, decomposed                                                                         *)
(* ================================================================================================ *)
(* the state in which the entry guards of the initial state are evaluated: registry.requested = 0 *)
Definition act_s1 (s : mstate) : mstate := upd_core P (fun c => set_requested P c 0) s.
(* after that ONE evaluation; its verdict (snd) is not looked at *)
Definition act_s2 (s : mstate) : mstate := fst (cancelled_by_entry_guards P cfg orc (t_empty P) (t_empty P) (act_s1 s)).
Definition act_rounds (s : mstate) : list round := iloop_rounds (c_limit cfg) (t_empty P) (act_s2 s).
Definition act_s3 (s : mstate) : mstate := iloop_state (c_limit cfg) (t_empty P) (act_s2 s).
Definition act_survivor (s : mstate) : transition := last_survivor P (act_rounds s).

Theorem initial_enter_unfold s :
  initial_enter P cfg orc s =
  let surv := act_survivor s in
  let s4 := if c_history cfg then upd_core P (fun c => set_previous P c surv) (act_s3 s) else act_s3 s in
  upd_core P (fun c => set_requested P c INVALID) (deep_enter P cfg orc surv s4).
Proof.
  unfold initial_enter, apply_request.
  assert (Ene : t_neq P (t_empty P) (t_to P 0) = true) by reflexivity. rewrite Ene.
  fold (act_s1 s).
  assert (E2 : cancelled_by_entry_guards P cfg orc (t_empty P) (t_empty P) (act_s1 s) =
               (act_s2 s, snd (cancelled_by_entry_guards P cfg orc (t_empty P) (t_empty P) (act_s1 s)))).
  { unfold act_s2. destruct (cancelled_by_entry_guards P cfg orc (t_empty P) (t_empty P) (act_s1 s)). reflexivity. }
  rewrite E2, iloop_erase, initial_survivor_spec. reflexivity.
Qed.

(* ---- counting what the bound is about: deliveries of the root's own entryGuard ---- *)
Definition is_rg (e : event) : bool := match e with EvCb _ Root Own MEntryGuard _ => true | _ => false end.
Definition rg_count (l : list event) : nat := length (filter is_rg l).
(* how many of them one evaluation of the entry guards produces: one, when there is a head that defines entryGuard *)
Definition rg_per_eval : nat := if c_head cfg && c_def_root cfg MEntryGuard then 1 else 0.
(* the rounds that evaluated the guards (the others were dropped by applyRequest before any guard ran) *)
Definition guarded (rs : list round) : nat := length (filter (fun r => negb (r_deduped P r)) rs).
Definition is_own (r : recipient) : bool := match r with Own => true | Inj _ => false end.

Lemma rg_count_app l2 l1 : rg_count (l2 ++ l1) = rg_count l2 + rg_count l1.
Proof. unfold rg_count. rewrite filter_app, app_length. reflexivity. Qed.

Lemma guarded_le rs : guarded rs <= length rs.
Proof. unfold guarded. induction rs as [|r rs IH]; cbn [filter length]; [lia|]. destruct (negb (r_deduped P r)); cbn [length]; lia. Qed.

Lemma rg_count_other w m a l : Forall (ev_ok P cfg a (fun w' _ m' => w' = w /\ m' = m)) l ->
  w <> Root \/ m <> MEntryGuard -> rg_count l = 0.
Proof.
  intros H Hne. unfold rg_count. induction H as [|e l He _ IH]; [reflexivity|]. cbn [filter].
  destruct (is_rg e) eqn:E; [|exact IH]. exfalso.
  destruct e as [w' r m' v| |]; try discriminate. destruct He as ((-> & ->) & _).
  destruct w; [|discriminate]. destruct r; [discriminate|]. destruct m; try discriminate.
  destruct Hne as [Hne|Hne]; apply Hne; reflexivity.
Qed.

Lemma rg_count_root a l : Forall (ev_ok P cfg a (fun w' _ m' => w' = Root /\ m' = MEntryGuard)) l ->
  rg_count l = length (filter is_own (cb_recs P l)).
Proof.
  intros H. unfold rg_count. induction H as [|e l He _ IH]; [reflexivity|].
  destruct e as [w' r m' v| |]; cbn [filter is_rg cb_recs]; try exact IH.
  destruct He as ((-> & ->) & _). rewrite filter_app, app_length, <- IH. cbn [filter is_own].
  destruct r; cbn [is_own length]; lia.
Qed.

Lemma own_injs w m xs : filter is_own (filter (fun r => delivers cfg w r m) (map Inj xs)) = [].
Proof. induction xs as [|x xs IH]; cbn [map filter delivers is_own]; [reflexivity|exact IH]. Qed.

Lemma rg_recipients : length (filter is_own (recipients cfg Root MEntryGuard)) = rg_per_eval.
Proof.
  unfold recipients, rg_per_eval. cbn [exists_who inj_of]. destruct (c_head cfg); [|reflexivity].
  rewrite (deep_order_pre MEntryGuard) by (unfold pre_side; tauto). unfold injs.
  rewrite !filter_app, own_injs. cbn [filter delivers defines app andb].
  destruct (c_def_root cfg MEntryGuard); reflexivity.
Qed.

Lemma leaf_is_state x : exists y, leaf cfg x = St y.
Proof. unfold leaf. destruct (dispatch nat n 0 0 (seq 0 n) x) as [[i y]|]; eexists; reflexivity. Qed.

Section Spec.
Variable PI : plan_data P -> Prop.
Hypothesis HPI : plan_inv_ok P cfg PI.
Hypothesis Hwf : wf_oracle P cfg orc.
Hypothesis Hcfg : wf_cfg cfg.
Local Notation fr := (fr P cfg PI).
Local Notation frr := (frr P cfg PI).
Local Notation RW := (RW P cfg).
Local Notation qev := (qev P cfg).
Local Notation quiet := (quiet P cfg).
Local Notation change := (change P cfg).
Local Notation deliv := (deliv P cfg).

(* activation: one evaluation of the initial entry guards, at most SUBSTITUTION_LIMIT redirection rounds, then
   the survivor's destination (or state 0) is entered *)
Theorem initial_enter_rounds s :
  active P (co P s) = INVALID -> RW (co P s) -> PI (plan P (co P s)) ->
  let rounds := act_rounds s in
  let surv := act_survivor s in
  let s' := initial_enter P cfg orc s in
  length rounds <= c_limit cfg /\
  Forall (fun r => t_valid P (r_pend P r) = true) rounds /\
  (t_valid P surv = true -> t_dest P surv < n) /\
  active P (co P s') = (if t_valid P surv then t_dest P surv else 0) /\
  active P (co P s') < n /\
  requested P (co P s') = INVALID /\
  previous P (co P s') = (if c_history cfg then surv else previous P (co P s)) /\
  exists l0 lr lc,
    tr P (act_s2 s) = l0 ++ tr P s /\ quiet INVALID l0 /\
    tr P (act_s3 s) = lr ++ tr P (act_s2 s) /\ quiet INVALID lr /\
    tr P s' = lc ++ tr P (act_s3 s) /\ change INVALID (active P (co P s')) lc.
Proof.
  intros Ha Hrw Hpi. cbv zeta.
  split; [apply initial_rounds_le_limit|]. split; [apply initial_rounds_valid|].
  rewrite initial_enter_unfold. cbv zeta.
  pose proof (cancelled_by_entry_guards_quiet P cfg orc PI HPI Hwf (t_empty P) (t_empty P) (act_s1 s)) as FG.
  fold (act_s2 s) in FG. change (active P (co P (act_s1 s))) with (active P (co P s)) in FG. rewrite Ha in FG.
  assert (R2 : RW (co P (act_s2 s))) by (apply (fr_rw _ _ _ _ _ _ FG); exact Hrw).
  pose proof (initial_loop_frr P cfg orc PI HPI Hwf (c_limit cfg) (t_empty P) (act_s2 s) R2) as HL.
  rewrite iloop_erase, initial_survivor_spec in HL. fold (act_s3 s) in HL. fold (act_rounds s) in HL. fold (act_survivor s) in HL.
  destruct HL as (F3 & R3 & C3).
  { unfold CurOK0. cbn [t_valid t_empty t_dest]. rewrite (fr_requested _ _ _ _ _ _ FG). reflexivity. }
  rewrite (fr_active _ _ _ _ _ _ FG) in F3. change (active P (co P (act_s1 s))) with (active P (co P s)) in F3. rewrite Ha in F3.
  set (surv := act_survivor s) in *.
  set (s4 := if c_history cfg then upd_core P (fun c => set_previous P c surv) (act_s3 s) else act_s3 s).
  assert (E4 : active P (co P s4) = INVALID /\ requested P (co P s4) = requested P (co P (act_s3 s)) /\ tr P s4 = tr P (act_s3 s) /\
               previous P (co P s4) = (if c_history cfg then surv else previous P (co P s))).
  { subst s4. destruct (c_history cfg); cbn [upd_core co set_previous active requested tr previous];
      (split; [rewrite (frr_active _ _ _ _ _ _ F3), (fr_active _ _ _ _ _ _ FG); exact Ha|]);
      (split; [reflexivity|]); (split; [reflexivity|]); [reflexivity|].
    rewrite (frr_previous _ _ _ _ _ _ F3), (fr_previous _ _ _ _ _ _ FG). reflexivity. }
  destruct E4 as (A4 & Q4 & T4 & P4).
  assert (Hreq : requested P (co P s4) = (if t_valid P surv then t_dest P surv else 0) /\ (t_valid P surv = true -> t_dest P surv < n)).
  { rewrite Q4. unfold CurOK0 in C3. destruct (t_valid P surv).
    - destruct C3 as [C3a C3b]. split; [exact C3b|intros _; exact C3a].
    - split; [exact C3|discriminate]. }
  destruct Hreq as [Hreq Hsv].
  assert (Hr : requested P (co P s4) < n).
  { rewrite Hreq. destruct (t_valid P surv); [apply Hsv; reflexivity|destruct Hcfg as (H & _); lia]. }
  pose proof (deep_enter_spec P cfg orc PI HPI Hwf surv s4 _ A4 eq_refl Hr) as H5. cbv zeta in H5.
  set (s5 := deep_enter P cfg orc surv s4) in *.
  destruct H5 as (A5 & Q5 & F5 & l5 & E5 & C5).
  destruct (frr_tr _ _ _ _ _ _ F3) as (l3 & E3 & H3). destruct (fr_tr _ _ _ _ _ _ FG) as (l2 & E2 & H2).
  cbn [upd_core co set_requested active requested previous tr].
  split; [exact Hsv|]. split; [rewrite A5; exact Hreq|]. split; [rewrite A5; exact Hr|]. split; [reflexivity|].
  split; [rewrite (frl_previous _ _ _ _ _ F5); exact P4|].
  exists l2, l3, l5.
  split; [exact E2|]. split; [exact H2|]. split; [exact E3|]. split; [exact H3|].
  split; [rewrite E5, T4; reflexivity|]. rewrite A5. exact C5.
Qed.

(* the active state after activation, alone *)
Corollary initial_enter_active s :
  active P (co P s) = INVALID -> RW (co P s) -> PI (plan P (co P s)) ->
  active P (co P (initial_enter P cfg orc s)) =
    (if t_valid P (act_survivor s) then t_dest P (act_survivor s) else 0).
Proof. intros Ha Hrw Hpi. exact (proj1 (proj2 (proj2 (proj2 (initial_enter_rounds s Ha Hrw Hpi))))). Qed.

(* no redirection requested (or every one cancelled): state 0 *)
Corollary initial_enter_default s :
  active P (co P s) = INVALID -> RW (co P s) -> PI (plan P (co P s)) ->
  Forall (fun r => survives P r = false) (act_rounds s) ->
  active P (co P (initial_enter P cfg orc s)) = 0.
Proof.
  intros Ha Hrw Hpi Hall. rewrite (initial_enter_active s Ha Hrw Hpi).
  unfold act_survivor, last_survivor. rewrite (survivor_from_none P _ _ Hall). reflexivity.
Qed.

(* ================================================================================================ *)
(* 5. the bound on the trace                                                                         *)
(* ================================================================================================ *)
Lemma deliver_guard_tr w m s k :
  let '(s', _, _) := deliver_guard P cfg orc w m (s, k) in
  exists l, tr P s' = l ++ tr P s /\ deliv w m (active P (co P s)) l.
Proof.
  unfold deliver_guard. cbn [snd].
  pose proof (deliver_fr P cfg orc PI HPI Hwf w m s k) as H. destruct (deliver P cfg orc w m (s, k)) as [s' k'].
  destruct H as (_ & _ & H). exact H.
Qed.

(* one evaluation of the entry guards delivers the root's own entryGuard once (when it exists) *)
Lemma entry_guards_rg cur pend s : exists l,
  tr P (fst (cancelled_by_entry_guards P cfg orc cur pend s)) = l ++ tr P s /\ rg_count l = rg_per_eval.
Proof.
  unfold cancelled_by_entry_guards.
  pose proof (deliver_guard_tr Root MEntryGuard s (mk_ctl P KGuard cur pend)) as H1.
  destruct (deliver_guard P cfg orc Root MEntryGuard _) as [[s1 k1] c1].
  destruct H1 as (l1 & E1 & [D1 R1]).
  assert (C1 : rg_count l1 = rg_per_eval) by (rewrite (rg_count_root _ _ D1), R1; exact rg_recipients).
  destruct c1; [exists l1; split; [exact E1|exact C1]|].
  destruct (leaf_is_state (requested P (co P s1))) as [y Ey]. rewrite Ey.
  pose proof (deliver_guard_tr (St y) MEntryGuard s1 k1) as H2.
  destruct (deliver_guard P cfg orc (St y) MEntryGuard _) as [[s2 k2] c2].
  destruct H2 as (l2 & E2 & [D2 _]). cbn [fst].
  exists (l2 ++ l1). split; [rewrite E2, E1, app_assoc; reflexivity|].
  rewrite rg_count_app, C1, (rg_count_other _ _ _ _ D2); [reflexivity|left; discriminate].
Qed.

Lemma iloop_rg : forall fuel cur s, exists l,
  tr P (iloop_state fuel cur s) = l ++ tr P s /\ rg_count l = rg_per_eval * guarded (iloop_rounds fuel cur s).
Proof.
  unfold iloop_state, iloop_rounds, guarded.
  induction fuel as [|f IH]; intros cur s; cbn [initial_loop_g].
  - exists []. split; [reflexivity|]. cbn. lia.
  - destruct (t_valid P (request P (co P s))); [|exists []; split; [reflexivity|cbn; lia]].
    unfold apply_request. destruct (t_neq P cur (t_to P (t_dest P (request P (co P s))))).
    + match goal with |- context [cancelled_by_entry_guards P cfg orc ?c ?p ?x] =>
        pose proof (entry_guards_rg c p x) as H; destruct (cancelled_by_entry_guards P cfg orc c p x) as [s3 cancelled] end.
      cbn [fst] in H. destruct H as (l1 & E1 & C1). cbn [upd_core tr] in E1.
      destruct cancelled.
      * specialize (IH cur (upd_core P (fun c => set_requested P c (if t_valid P cur then t_dest P cur else 0)) s3)).
        destruct (initial_loop_g f cur _) as [[s' cur'] rs]. cbn [fst snd] in *. destruct IH as (l2 & E2 & C2).
        cbn [upd_core tr] in E2. exists (l2 ++ l1). split; [rewrite E2, E1, app_assoc; reflexivity|].
        rewrite rg_count_app, C1, C2. cbn [filter r_deduped negb length]. lia.
      * specialize (IH (request P (co P (upd_core P (fun c => set_requested P c (t_dest P (request P (co P s)))) s))) s3).
        destruct (initial_loop_g f _ s3) as [[s' cur'] rs]. cbn [fst snd] in *. destruct IH as (l2 & E2 & C2).
        exists (l2 ++ l1). split; [rewrite E2, E1, app_assoc; reflexivity|].
        rewrite rg_count_app, C1, C2. cbn [filter r_deduped negb length]. lia.
    + specialize (IH cur (upd_core P (fun c => set_request P c (t_clear P (request P c))) s)).
      destruct (initial_loop_g f cur _) as [[s' cur'] rs]. cbn [fst snd] in *. destruct IH as (l2 & E2 & C2).
      cbn [upd_core tr] in E2. exists l2. split; [exact E2|].
      rewrite C2. cbn [filter r_deduped negb]. reflexivity.
Qed.

(* enter/exit/reenter deliveries consult no guard *)
Lemma change_rg a a' l : change a a' l -> rg_count l = 0.
Proof.
  intros C. destruct C as [_|l1 l2 _ _ _ [D1 _] [D2 _]|l _ _ [D _]|l1 l2 _ _ [D1 _] [D2 _]|l1 l2 _ _ [D1 _] [D2 _]];
    rewrite ?rg_count_app, ?(rg_count_other _ _ _ _ D1), ?(rg_count_other _ _ _ _ D2), ?(rg_count_other _ _ _ _ D);
    try reflexivity; right; discriminate.
Qed.

(* activation delivers the root's own entryGuard once for the initial state and once per redirection round that
   reached the guards: at most 1 + SUBSTITUTION_LIMIT times *)
Theorem initial_enter_guard_evals s :
  active P (co P s) = INVALID -> RW (co P s) -> PI (plan P (co P s)) ->
  exists l, tr P (initial_enter P cfg orc s) = l ++ tr P s /\
            rg_count l = rg_per_eval * (1 + guarded (act_rounds s)) /\
            rg_count l <= 1 + c_limit cfg.
Proof.
  intros Ha Hrw Hpi.
  destruct (initial_enter_rounds s Ha Hrw Hpi) as (Hlen & _ & _ & _ & _ & _ & _ & _ & _ & lc & _ & _ & _ & _ & Ec & Cc).
  destruct (entry_guards_rg (t_empty P) (t_empty P) (act_s1 s)) as (l0 & E0 & C0). fold (act_s2 s) in E0.
  change (tr P (act_s1 s)) with (tr P s) in E0.
  destruct (iloop_rg (c_limit cfg) (t_empty P) (act_s2 s)) as (lr & Er & Cr). fold (act_s3 s) in Er. fold (act_rounds s) in Cr.
  exists (lc ++ lr ++ l0).
  assert (E : rg_count (lc ++ lr ++ l0) = rg_per_eval * (1 + guarded (act_rounds s))).
  { rewrite !rg_count_app, (change_rg _ _ _ Cc), Cr, C0. lia. }
  split; [rewrite Ec, Er, E0, <- !app_assoc; reflexivity|]. split; [exact E|].
  rewrite E. pose proof (guarded_le (act_rounds s)) as Hg.
  unfold rg_per_eval. destruct (c_head cfg && c_def_root cfg MEntryGuard); lia.
Qed.

End Spec.
End A.

Print Assumptions initial_enter_rounds.
Print Assumptions initial_enter_guard_evals.
Print Assumptions initial_enter_unfold.
Print Assumptions initial_survivor_spec.
Print Assumptions initial_rounds_le_limit.

(* ================================================================================================ *)
(* 6. non-vacuity: the bound is reached                                                              *)
(* ================================================================================================ *)
Module ActivationExamples.
(* three states, a head that defines everything; every state's entryGuard redirects to the next state *)
Definition ex_cfg (limit : nat) : config :=
  {| c_n := 3; c_head := true; c_manual := true; c_limit := limit; c_cap := 4; c_payload := false;
     c_inj_root := 0; c_inj_state := 0; c_plans := false; c_serial := false; c_history := true; c_log := LOff;
     c_def_root := fun _ => true; c_def_state := fun _ => true |}.
Definition pp_orc : oracle unit := fun _ w r m _ =>
  match w, r, m with St k, Own, MEntryGuard => [AChange unit ((k + 1) mod 3)] | _, _, _ => [] end.
Definition s0 (limit : nat) : mstate unit := construct unit (ex_cfg limit) pp_orc false.
Definition dests (rs : list (round unit)) : list (nat * bool * bool) :=
  map (fun r => (t_dest unit (r_pend unit r), r_cancelled unit r, r_deduped unit r)) rs.

(* limit 2: the initial evaluation (state 0, redirects to 1), then two rounds (1 redirects to 2, 2 redirects to 0);
   state 2 is entered, the third redirection stays outstanding, the root's entryGuard ran 1 + 2 times *)
Example activation_hits_limit :
  dests (act_rounds unit (ex_cfg 2) pp_orc (s0 2)) = [(1, false, false); (2, false, false)] /\
  t_dest unit (act_survivor unit (ex_cfg 2) pp_orc (s0 2)) = 2 /\
  active unit (co unit (initial_enter unit (ex_cfg 2) pp_orc (s0 2))) = 2 /\
  t_dest unit (request unit (co unit (initial_enter unit (ex_cfg 2) pp_orc (s0 2)))) = 0 /\
  rg_count unit (tr unit (initial_enter unit (ex_cfg 2) pp_orc (s0 2))) = 3.
Proof. vm_compute. repeat split; reflexivity. Qed.

(* limit 0: no redirection is honoured, state 0 is entered after the single initial evaluation *)
Example activation_limit_zero :
  act_rounds unit (ex_cfg 0) pp_orc (s0 0) = [] /\
  active unit (co unit (initial_enter unit (ex_cfg 0) pp_orc (s0 0))) = 0 /\
  rg_count unit (tr unit (initial_enter unit (ex_cfg 0) pp_orc (s0 0))) = 1.
Proof. vm_compute. repeat split; reflexivity. Qed.
End ActivationExamples.
