From Coq Require Import List Arith Bool Lia FinFun.
From FFSM2 Require Import Model.Ancestors.
Import ListNotations.

Definition injs (from k : nat) : list recipient := map Inj (seq from k).

Lemma wide_pre m from k : first_then_rest m = true -> wide m from k = injs from k.
Proof. intros H. revert from. induction k as [|k IH]; intro from; cbn [wide]; [reflexivity|].
  rewrite H, IH. reflexivity. Qed.
Lemma wide_post m from k : first_then_rest m = false -> wide m from k = rev (injs from k).
Proof. intros H. revert from. induction k as [|k IH]; intro from; cbn [wide]; [reflexivity|].
  rewrite H, IH. unfold injs. cbn [seq map rev]. reflexivity. Qed.

Definition pre_side (m : method) : Prop :=
  m = MEntryGuard \/ m = MEnter \/ m = MReenter \/ m = MPreUpdate \/ m = MUpdate \/ m = MPreReact \/ m = MReact.
Definition post_side (m : method) : Prop := m = MExit \/ m = MPostUpdate \/ m = MPostReact.

(* I1..Ik then the state, for entryGuard, enter, reenter, preUpdate, update, preReact, react *)
Theorem deep_order_pre m k : pre_side m -> deep_order m k = injs 0 k ++ [Own].
Proof. intros H. unfold pre_side in H. repeat destruct H as [H|H]; subst m; cbn [deep_order wide_then_own];
  rewrite wide_pre by reflexivity; reflexivity. Qed.
(* the exact reverse, state first then Ik..I1, for exit, postUpdate, postReact *)
Theorem deep_order_post m k : post_side m -> deep_order m k = rev (injs 0 k ++ [Own]).
Proof. intros H. unfold post_side in H. repeat destruct H as [H|H]; subst m; cbn [deep_order wide_then_own];
  rewrite wide_post by reflexivity; rewrite rev_app_distr; reflexivity. Qed.
(* the two the property does not fix, recorded as the code has them *)
Theorem deep_order_exit_guard k : deep_order MExitGuard k = rev (injs 0 k) ++ [Own].
Proof. cbn [deep_order wide_then_own]. rewrite wide_post by reflexivity. reflexivity. Qed.
Theorem deep_order_query k : deep_order MQuery k = Own :: injs 0 k.
Proof. cbn [deep_order wide_then_own]. rewrite wide_pre by reflexivity. reflexivity. Qed.

(* every injection's callback and the state's own callback exactly once, for all twelve *)
Theorem deep_exactly_once m k : m <> MPlanSucceeded -> m <> MPlanFailed ->
  NoDup (deep_order m k) /\ (forall r, In r (deep_order m k) <-> r = Own \/ exists i, i < k /\ r = Inj i).
Proof.
  intros H1 H2.
  assert (Hin : forall r, In r (injs 0 k) <-> exists i, i < k /\ r = Inj i).
  { intro r. unfold injs. rewrite in_map_iff. split.
    - intros (i & <- & Hi). apply in_seq in Hi. exists i. split; [lia|reflexivity].
    - intros (i & Hi & ->). exists i. split; [reflexivity|apply in_seq; lia]. }
  assert (Hnd : NoDup (injs 0 k)).
  { unfold injs. apply Injective_map_NoDup; [intros a b E; inversion E; reflexivity|apply seq_NoDup]. }
  assert (Hown : ~ In Own (injs 0 k)) by (rewrite Hin; intros (i & _ & E); discriminate).
  assert (Base : NoDup (injs 0 k ++ [Own]) /\ (forall r, In r (injs 0 k ++ [Own]) <-> r = Own \/ exists i, i < k /\ r = Inj i)).
  { split.
    - 
      rewrite <- (rev_involutive (injs 0 k ++ [Own])). apply NoDup_rev. rewrite rev_app_distr. cbn [rev app].
      constructor; [rewrite <- in_rev; exact Hown|apply NoDup_rev; exact Hnd].
    - intro r. rewrite in_app_iff, Hin. cbn [In]. intuition. }
  destruct Base as [B1 B2].
  destruct m; try congruence.
  all: try (rewrite deep_order_pre by (unfold pre_side; tauto); split; [exact B1|exact B2]).
  all: try (rewrite deep_order_post by (unfold post_side; tauto); split; [apply NoDup_rev; exact B1|intro r; rewrite <- in_rev; apply B2]).
  - (* query *) rewrite deep_order_query. split; [constructor; assumption|].
    intro r. cbn [In]. rewrite Hin. intuition.
  - (* exitGuard *) rewrite deep_order_exit_guard. split.
    + rewrite <- (rev_involutive (rev (injs 0 k) ++ [Own])). apply NoDup_rev. rewrite rev_app_distr, rev_involutive. cbn [rev app].
      constructor; assumption.
    + intro r. rewrite in_app_iff, <- in_rev, Hin. cbn [In]. intuition.
Qed.
