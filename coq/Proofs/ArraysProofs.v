From Coq Require Import List Arith Bool Lia.
From FFSM2 Require Import Model.Arrays.
Import ListNotations.

Section ArrP.
Variable T : Type.
Variable dflt : T.
Local Notation aupd := (aupd T).
Local Notation sa_get := (sa_get T dflt).
Local Notation sa_set := (sa_set T).
Local Notation sa_fill := (sa_fill T).
Local Notation sa_clear := (sa_clear T dflt).
Local Notation sa_init := (sa_init T dflt).
Local Notation da := (da T).
Local Notation da_emplace := (da_emplace T).
Local Notation da_get := (da_get T dflt).
Local Notation da_clear := (da_clear T).
Local Notation da_iter := (da_iter T dflt).
Local Notation da_to_list := (da_to_list T dflt).
Local Notation da_init := (da_init T dflt).
Local Notation da_append := (da_append T).
Local Notation da_append_all := (da_append_all T dflt).

Lemma aupd_length l i v : length (aupd l i v) = length l.
Proof. revert i; induction l as [|h t IH]; intros [|i]; simpl; auto. Qed.
Lemma nth_aupd_same l i v : i < length l -> nth i (aupd l i v) dflt = v.
Proof. revert i; induction l as [|h t IH]; intros [|i] H; simpl in *; try lia; auto. apply IH; lia. Qed.
Lemma nth_aupd_other l i j v : i <> j -> nth j (aupd l i v) dflt = nth j l dflt.
Proof. revert i j; induction l as [|h t IH]; intros [|i] [|j] H; simpl in *; try congruence; auto. Qed.

(* ---- fixed array: index i returns the value last stored at i ---- *)
Theorem sa_get_set a i j v : i < length a -> sa_get (sa_set a i v) j = if i =? j then v else sa_get a j.
Proof.
  intros H. unfold Arrays.sa_get, Arrays.sa_set. destruct (i =? j) eqn:E.
  - apply Nat.eqb_eq in E. subst j. apply nth_aupd_same. exact H.
  - apply Nat.eqb_neq in E. apply nth_aupd_other. exact E.
Qed.
Theorem sa_set_length a i v : length (sa_set a i v) = length a.
Proof. apply aupd_length. Qed.
(* fill()/clear() overwrite every element *)
Theorem sa_fill_get a v j : j < length a -> sa_get (sa_fill a v) j = v.
Proof.
  unfold Arrays.sa_get, Arrays.sa_fill. revert j. induction a as [|h t IH]; intros [|j] H; cbn in *; try lia; auto.
  apply IH. lia.
Qed.
Theorem sa_fill_length a v : length (sa_fill a v) = length a.
Proof. apply map_length. Qed.
Theorem sa_clear_get a j : j < length a -> sa_get (sa_clear a) j = dflt.
Proof. apply sa_fill_get. Qed.
Theorem sa_init_get cap j : sa_get (sa_init cap) j = dflt.
Proof. unfold Arrays.sa_get, Arrays.sa_init. revert j. induction cap as [|c IH]; intros [|j]; cbn; auto. Qed.
(* range-for over the raw array visits each element once in index order: the list itself *)
Theorem sa_elements a : map (sa_get a) (seq 0 (length a)) = a.
Proof.
  unfold Arrays.sa_get. induction a as [|h t IH]; [reflexivity|]. cbn [length seq map nth]. f_equal.
  rewrite <- seq_shift, map_map. exact IH.
Qed.

(* ---- growable array ---- *)
Definition da_inv (cap : nat) (a : da) : Prop := da_count T a <= cap /\ length (da_items T a) = cap.
Definition da_abs (a : da) : list T := firstn (da_count T a) (da_items T a).

Lemma da_init_inv cap : da_inv cap (da_init cap) /\ da_abs (da_init cap) = [].
Proof. unfold da_inv, da_abs, Arrays.da_init. cbn. rewrite repeat_length. split; [lia|reflexivity]. Qed.

Lemma firstn_aupd_ge l i v k : k <= i -> firstn k (aupd l i v) = firstn k l.
Proof. revert i k; induction l as [|h t IH]; intros [|i] [|k] H; simpl in *; try lia; auto. f_equal. apply IH. lia. Qed.
Lemma firstn_S_aupd l i v : i < length l -> firstn (S i) (aupd l i v) = firstn i l ++ [v].
Proof. revert i; induction l as [|h t IH]; intros [|i] H; simpl in *; try lia; auto. f_equal. apply IH. lia. Qed.

(* emplace appends and returns the old count, up to the capacity *)
Theorem da_emplace_spec cap a v : da_inv cap a -> da_count T a < cap ->
  da_inv cap (fst (da_emplace a v)) /\ da_abs (fst (da_emplace a v)) = da_abs a ++ [v] /\
  snd (da_emplace a v) = da_count T a /\ da_count T (fst (da_emplace a v)) = S (da_count T a).
Proof.
  intros [Hc Hl] Hlt. unfold da_inv, da_abs, Arrays.da_emplace. cbn [fst snd da_count da_items].
  rewrite aupd_length. repeat split; try lia.
  apply firstn_S_aupd. lia.
Qed.
Theorem da_clear_spec cap a : da_inv cap a -> da_inv cap (da_clear a) /\ da_abs (da_clear a) = [].
Proof. intros [Hc Hl]. unfold da_inv, da_abs, Arrays.da_clear. cbn. split; [split; [lia|exact Hl]|reflexivity]. Qed.
Theorem da_get_abs a i : i < da_count T a -> da_get a i = nth i (da_abs a) dflt.
Proof.
  unfold Arrays.da_get, da_abs. generalize (da_count T a) (da_items T a). intros c l. revert i c.
  induction l as [|h t IH]; intros [|i] [|c] H; cbn in *; try lia; auto. apply IH. lia.
Qed.

(* iteration visits each live element once in index order (the uint8_t cursor does not wrap for count <= 255) *)
Lemma da_iter_spec a : forall fuel c, da_count T a <= 255 -> c <= da_count T a -> da_count T a - c < fuel ->
  da_iter fuel a c = map (da_get a) (seq c (da_count T a - c)).
Proof.
  induction fuel as [|f IH]; intros c H255 Hc Hf; [lia|]. cbn [Arrays.da_iter].
  destruct (c =? da_count T a) eqn:E.
  - apply Nat.eqb_eq in E. subst c. rewrite Nat.sub_diag. reflexivity.
  - apply Nat.eqb_neq in E. replace (da_count T a - c) with (S (da_count T a - S c)) by lia.
    cbn [seq map]. f_equal. rewrite Nat.mod_small by lia. replace (c + 1) with (S c) by lia.
    apply IH; lia.
Qed.
Lemma map_nth_seq_firstn : forall n (l : list T), n <= length l ->
  map (fun i : nat => nth i l dflt) (seq 0 n) = firstn n l.
Proof.
  induction n as [|n IH]; intros l Hle; [reflexivity|]. destruct l as [|h t]; [cbn in Hle; lia|].
  cbn [seq map firstn nth]. f_equal. rewrite <- seq_shift, map_map. apply IH. cbn in Hle; lia.
Qed.
Theorem da_to_list_spec cap a : da_inv cap a -> cap <= 255 -> da_to_list a = da_abs a.
Proof.
  intros [Hc Hl] H255. unfold Arrays.da_to_list. rewrite da_iter_spec by lia. rewrite Nat.sub_0_r.
  unfold da_abs, Arrays.da_get. apply map_nth_seq_firstn. lia.
Qed.

(* += of a whole array appends its elements in order, up to the capacity *)
Lemma da_append_list cap : forall l a, da_inv cap a -> da_count T a + length l <= cap ->
  da_inv cap (fold_left da_append l a) /\ da_abs (fold_left da_append l a) = da_abs a ++ l.
Proof.
  induction l as [|v l IH]; intros a Hi Hfit; cbn [fold_left].
  - rewrite app_nil_r. auto.
  - cbn [length] in Hfit. destruct (da_emplace_spec cap a v Hi ltac:(lia)) as (Hi' & Habs & _ & Hcnt).
    unfold Arrays.da_append at 2 4. destruct (IH (fst (da_emplace a v)) Hi' ltac:(lia)) as [H1 H2].
    split; [exact H1|]. rewrite H2, Habs, <- app_assoc. reflexivity.
Qed.
Theorem da_append_all_spec cap capo a o : da_inv cap a -> da_inv capo o -> capo <= 255 ->
  da_count T a + da_count T o <= cap ->
  da_inv cap (da_append_all a o) /\ da_abs (da_append_all a o) = da_abs a ++ da_abs o.
Proof.
  intros Ha Ho H255 Hfit. unfold Arrays.da_append_all. rewrite (da_to_list_spec capo o Ho H255).
  apply da_append_list; [exact Ha|]. unfold da_abs. rewrite firstn_length. destruct Ho. lia.
Qed.
End ArrP.
