From Coq Require Import List NArith Bool Lia Arith ZArith.
Require Import ZifyBool ZifyN ZifyNat.
From FFSM2 Require Import Model.BitArray.
Import ListNotations.
Ltac Zify.zify_post_hook ::= Z.div_mod_to_equations.
Local Open Scope N_scope.

Lemma testbit_shiftl1 k j : N.testbit (N.shiftl 1 k) j = (j =? k).
Proof.
  destruct (N.lt_ge_cases j k) as [L|L].
  - rewrite N.shiftl_spec_low by exact L. lia.
  - rewrite N.shiftl_spec_high' by exact L.
    destruct (N.eq_dec j k) as [->|Hne].
    + rewrite N.sub_diag. cbn. lia.
    + replace (j =? k) with false by lia. apply N.bits_above_log2. cbn. lia.
Qed.

Lemma land_mask_test x k : negb (N.land x (N.shiftl 1 k) =? 0) = N.testbit x k.
Proof.
  destruct (N.testbit x k) eqn:T.
  - apply negb_true_iff, N.eqb_neq. intro E.
    assert (H : N.testbit (N.land x (N.shiftl 1 k)) k = false) by (rewrite E; apply N.bits_0).
    rewrite N.land_spec, T, testbit_shiftl1, N.eqb_refl in H. discriminate.
  - apply negb_false_iff, N.eqb_eq. apply N.bits_inj. intro j. rewrite N.land_spec, N.bits_0, testbit_shiftl1.
    destruct (j =? k) eqn:E; [apply N.eqb_eq in E; subst; rewrite T; reflexivity|apply andb_false_r].
Qed.

Lemma get_bit b i : ba_get b i = ba_bit b i.
Proof. unfold ba_get, ba_bit, ba_mask. apply land_mask_test. Qed.

Lemma uget_uset_same b u f : (N.to_nat u < length b)%nat -> uget (uset b u f) u = f (uget b u).
Proof.
  unfold uget, uset. generalize (N.to_nat u) as i. clear u.
  intros i; revert i; induction b as [|h t IH]; intros [|i] H; simpl in *; try lia; auto. apply IH; lia.
Qed.
Lemma uget_uset_other b u v f : u <> v -> uget (uset b u f) v = uget b v.
Proof.
  unfold uget, uset. intros Hne. assert (N.to_nat u <> N.to_nat v) by lia.
  generalize dependent (N.to_nat v). generalize (N.to_nat u). clear. intros i j; revert i j.
  induction b as [|h t IH]; intros [|i] [|j] H; simpl in *; try congruence; auto.
Qed.
Lemma uset_length b u f : length (uset b u f) = length b.
Proof. unfold uset. generalize (N.to_nat u). intros i; revert i; induction b as [|h t IH]; intros [|i]; simpl; auto. Qed.

Section BA.
Variable cap : N.
Hypothesis cap_pos : 1 <= cap.

Definition wf (b : ba) : Prop := N.of_nat (length b) = ba_units cap /\ Forall (fun x => x < 256) b.
(* the abstraction: the set of indices below cap whose bit is set *)
Definition mem (b : ba) (i : N) : bool := (i <? cap) && ba_get b i.
(* invariant: the padding bits of the last unit are clear *)
Definition padding_zero (b : ba) : Prop := forall p, cap <= p -> ba_bit b p = false.

Lemma unit_in_range b i : wf b -> i < cap -> (N.to_nat (i / 8) < length b)%nat.
Proof. unfold wf, ba_units. intros [H _] Hi. lia. Qed.

Lemma Forall_uset b u f : Forall (fun x => x < 256) b -> (forall x, x < 256 -> f x < 256) ->
  Forall (fun x => x < 256) (uset b u f).
Proof.
  unfold uset. generalize (N.to_nat u). intros i H Hf. revert i.
  induction H as [|h t Hh Ht IH]; intros [|i]; cbn; constructor; auto.
Qed.

Lemma lor_lt256 x y : x < 256 -> y < 256 -> N.lor x y < 256.
Proof.
  intros Hx Hy. destruct (N.eq_dec (N.lor x y) 0) as [->|Hn]; [lia|].
  change 256 with (2 ^ 8). apply N.log2_lt_pow2; [lia|]. rewrite N.log2_lor.
  apply N.max_lub_lt.
  - destruct (N.eq_dec x 0) as [->|Hx0]; [cbn; lia|]. apply N.log2_lt_pow2; [lia|exact Hx].
  - destruct (N.eq_dec y 0) as [->|Hy0]; [cbn; lia|]. apply N.log2_lt_pow2; [lia|exact Hy].
Qed.
Lemma land_le_l x y : N.land x y <= x.
Proof.
  destruct (N.eq_dec (N.land x y) 0) as [->|Hn]; [lia|].
  apply N.le_ngt. intro H.
  (* N.land x y = x - N.ldiff x y *)
  pose proof (N.sub_nocarry_ldiff x (N.land x y)) as S.
  assert (L : N.ldiff (N.land x y) x = 0).
  { apply N.bits_inj. intro j. rewrite N.ldiff_spec, N.land_spec, N.bits_0. destruct (N.testbit x j), (N.testbit y j); reflexivity. }
  specialize (S L). 
  assert (N.land x y <= x) by (apply N.ldiff_le; exact L). lia.
Qed.
Lemma land_lt256 x y : x < 256 -> N.land x y < 256.
Proof. intros H. pose proof (land_le_l x y). lia. Qed.
Lemma mask_lt256 i : ba_mask i < 256.
Proof.
  unfold ba_mask. rewrite N.shiftl_1_l. change 256 with (2 ^ 8). apply N.pow_lt_mono_r; lia.
Qed.

Lemma init_wf : wf (ba_init cap).
Proof.
  unfold wf, ba_init. rewrite repeat_length. split; [lia|].
  apply Forall_forall. intros x Hx. apply repeat_spec in Hx. subst. lia.
Qed.
Lemma set_wf b i : wf b -> wf (ba_set b i).
Proof. intros [Hl Hb]. split; [unfold ba_set; rewrite uset_length; exact Hl|].
  apply Forall_uset; [exact Hb|]. intros x Hx. apply lor_lt256; [exact Hx|apply mask_lt256]. Qed.
Lemma clear_wf b i : wf b -> wf (ba_clear b i).
Proof. intros [Hl Hb]. split; [unfold ba_clear; rewrite uset_length; exact Hl|].
  apply Forall_uset; [exact Hb|]. intros x Hx. apply land_lt256. exact Hx. Qed.

(* get after set: the bit written reads true, every other index is undisturbed *)
Theorem get_set b i j : wf b -> i < cap -> ba_get (ba_set b i) j = if i =? j then true else ba_get b j.
Proof.
  intros W Hi. rewrite !get_bit. unfold ba_bit, ba_set.
  destruct (N.eq_dec (i / 8) (j / 8)) as [E|E].
  - rewrite <- E. rewrite uget_uset_same by (apply unit_in_range; assumption).
    rewrite N.lor_spec. unfold ba_mask. rewrite testbit_shiftl1.
    destruct (i =? j) eqn:Eij.
    + apply N.eqb_eq in Eij. subst j. rewrite N.eqb_refl. apply orb_true_r.
    + apply N.eqb_neq in Eij. replace (j mod 8 =? i mod 8) with false by lia. apply orb_false_r.
  - rewrite uget_uset_other by exact E. replace (i =? j) with false by lia. reflexivity.
Qed.

Lemma testbit_255 k : N.testbit 255 k = (k <? 8).
Proof. change 255 with (N.ones 8). destruct (k <? 8) eqn:E.
  - apply N.ones_spec_low. lia. - apply N.ones_spec_high. lia. Qed.

Theorem get_clear b i j : wf b -> i < cap -> ba_get (ba_clear b i) j = if i =? j then false else ba_get b j.
Proof.
  intros W Hi. rewrite !get_bit. unfold ba_bit, ba_clear.
  destruct (N.eq_dec (i / 8) (j / 8)) as [E|E].
  - rewrite <- E. rewrite uget_uset_same by (apply unit_in_range; assumption).
    rewrite N.land_spec, N.lxor_spec. unfold ba_mask. rewrite testbit_shiftl1, testbit_255.
    replace (j mod 8 <? 8) with true by lia.
    destruct (i =? j) eqn:Eij.
    + apply N.eqb_eq in Eij. subst j. rewrite N.eqb_refl. apply andb_false_r.
    + apply N.eqb_neq in Eij. replace (j mod 8 =? i mod 8) with false by lia. apply andb_true_r.
  - rewrite uget_uset_other by exact E. replace (i =? j) with false by lia. reflexivity.
Qed.

Lemma uget_map_const (b : ba) c u : (N.to_nat u < length b)%nat -> uget (map (fun _ => c) b) u = c.
Proof. unfold uget. generalize (N.to_nat u). intros i; revert i. induction b as [|h t IH]; intros [|i] H; cbn in *; try lia; auto. apply IH; lia. Qed.
Lemma uget_out (b : ba) u : (length b <= N.to_nat u)%nat -> uget b u = 0.
Proof. unfold uget. intros H. apply nth_overflow. exact H. Qed.

Lemma bit_clear_all b p : ba_bit (ba_clear_all b) p = false.
Proof.
  unfold ba_bit, ba_clear_all. destruct (Nat.lt_ge_cases (N.to_nat (p / 8)) (length b)) as [L|L].
  - rewrite uget_map_const by exact L. apply N.bits_0.
  - rewrite uget_out by (rewrite map_length; exact L). apply N.bits_0.
Qed.
Theorem get_clear_all b j : ba_get (ba_clear_all b) j = false.
Proof. rewrite get_bit. apply bit_clear_all. Qed.

(* bit p after set(): exactly the bits below cap *)
Lemma bit_set_all b p : wf b -> ba_bit (ba_set_all cap b) p = (p <? cap).
Proof.
  intros [Hl Hb]. unfold ba_bit, ba_set_all.
  assert (Hu : 1 <= ba_units cap) by (unfold ba_units; lia).
  assert (Hlm : length (map (fun _ : N => 255) b) = length b) by apply map_length.
  destruct (N.eq_dec (ba_units cap - 1) (p / 8)) as [E|E].
  - rewrite <- E. rewrite uget_uset_same by (rewrite Hlm; lia).
    rewrite uget_map_const by lia. rewrite N.land_spec, testbit_255. unfold ba_last_mask.
    rewrite N.shiftr_spec by lia. rewrite testbit_255.
    unfold ba_units in *. replace (p mod 8 <? 8) with true by lia. cbn [andb]. lia.
  - rewrite uget_uset_other by exact E.
    destruct (Nat.lt_ge_cases (N.to_nat (p / 8)) (length b)) as [L|L].
    + rewrite uget_map_const by exact L. rewrite testbit_255. unfold ba_units in *. lia.
    + rewrite uget_out by (rewrite Hlm; exact L). rewrite N.bits_0. unfold ba_units in *. lia.
Qed.
Theorem get_set_all b j : wf b -> ba_get (ba_set_all cap b) j = (j <? cap).
Proof. intros W. rewrite get_bit. apply bit_set_all. exact W. Qed.

Lemma uget_and_assign b o u : length b = length o -> uget (ba_and_assign b o) u = N.land (uget b u) (uget o u).
Proof.
  unfold uget, ba_and_assign. generalize (N.to_nat u). intros i. revert o i.
  induction b as [|h t IH]; intros [|ho to] [|i] H; cbn in *; try discriminate; auto.
Qed.
Theorem get_and_assign b o j : length b = length o ->
  ba_get (ba_and_assign b o) j = ba_get b j && ba_get o j.
Proof. intros H. rewrite !get_bit. unfold ba_bit. rewrite uget_and_assign by exact H. apply N.land_spec. Qed.

(* ---- empty(): whole units are compared, so it needs the padding invariant ---- *)
Lemma empty_all_zero b : ba_empty b = true <-> forall u, uget b u = 0.
Proof.
  unfold ba_empty. rewrite forallb_forall. split.
  - intros H u. unfold uget. destruct (nth_in_or_default (N.to_nat u) b 0) as [I|D]; [|exact D].
    apply H in I. lia.
  - intros H x Hx. apply In_nth with (d := 0) in Hx. destruct Hx as (i & Hi & <-).
    specialize (H (N.of_nat i)). unfold uget in H. rewrite Nat2N.id in H. lia.
Qed.

Theorem empty_spec b : wf b -> padding_zero b ->
  (ba_empty b = true <-> forall i, i < cap -> ba_get b i = false).
Proof.
  intros W P. rewrite empty_all_zero. split.
  - intros H i _. rewrite get_bit. unfold ba_bit. rewrite H. apply N.bits_0.
  - intros H u. apply N.bits_inj. intro k. rewrite N.bits_0.
    destruct (N.lt_ge_cases k 8) as [Lk|Lk].
    + specialize (H (u * 8 + k)). specialize (P (u * 8 + k)).
      rewrite get_bit in H. unfold ba_bit in *.
      replace ((u * 8 + k) / 8) with u in * by lia. replace ((u * 8 + k) mod 8) with k in * by lia.
      destruct (N.lt_ge_cases (u * 8 + k) cap); auto.
    + destruct W as [Hl Hb].
      destruct (Nat.lt_ge_cases (N.to_nat u) (length b)) as [L|L]; [|rewrite uget_out by exact L; apply N.bits_0].
      assert (uget b u < 256). { rewrite Forall_forall in Hb. apply Hb. unfold uget. apply nth_In. exact L. }
      destruct (N.eq_dec (uget b u) 0) as [->|Hn]; [apply N.bits_0|].
      apply N.bits_above_log2. assert (N.log2 (uget b u) < 8) by (apply N.log2_lt_pow2; [lia|exact H0]). lia.
Qed.

(* the invariant is established by construction and kept by every operation with in-range indices *)
Lemma padding_init : padding_zero (ba_init cap).
Proof. intros p _. unfold ba_bit, ba_init, uget. 
  assert (H : forall k i, nth i (repeat 0 k) 0 = 0) by (induction k; intros [|i]; cbn; auto).
  rewrite H. apply N.bits_0. Qed.
Lemma padding_set b i : wf b -> i < cap -> padding_zero b -> padding_zero (ba_set b i).
Proof. intros W Hi P p Hp. rewrite <- get_bit, get_set by assumption. replace (i =? p) with false by lia. rewrite get_bit. apply P. exact Hp. Qed.
Lemma padding_clear b i : wf b -> i < cap -> padding_zero b -> padding_zero (ba_clear b i).
Proof. intros W Hi P p Hp. rewrite <- get_bit, get_clear by assumption. replace (i =? p) with false by lia. rewrite get_bit. apply P. exact Hp. Qed.
Lemma padding_clear_all b : padding_zero (ba_clear_all b).
Proof. intros p _. apply bit_clear_all. Qed.
Lemma padding_set_all b : wf b -> padding_zero (ba_set_all cap b).
Proof. intros W p Hp. rewrite bit_set_all by exact W. lia. Qed.
Lemma padding_and_assign b o : length b = length o -> padding_zero b -> padding_zero (ba_and_assign b o).
Proof. intros H P p Hp. rewrite <- get_bit, get_and_assign by exact H. rewrite get_bit, (P p Hp). reflexivity. Qed.

Lemma clear_all_wf b : wf b -> wf (ba_clear_all b).
Proof. intros [Hl Hb]. split; [unfold ba_clear_all; rewrite map_length; exact Hl|].
  apply Forall_forall. intros x Hx. apply in_map_iff in Hx. destruct Hx as (_ & <- & _). lia. Qed.
Lemma set_all_wf b : wf b -> wf (ba_set_all cap b).
Proof. intros [Hl Hb]. split; [unfold ba_set_all; rewrite uset_length, map_length; exact Hl|].
  apply Forall_uset.
  - apply Forall_forall. intros x Hx. apply in_map_iff in Hx. destruct Hx as (_ & <- & _). lia.
  - intros x Hx. apply land_lt256. exact Hx. Qed.
Lemma and_assign_wf b o : wf b -> length b = length o -> wf (ba_and_assign b o).
Proof.
  intros [Hl Hb] H. split.
  - unfold ba_and_assign. rewrite map_length, combine_length, <- H, Nat.min_id. exact Hl.
  - apply Forall_forall. intros x Hx. unfold ba_and_assign in Hx. apply in_map_iff in Hx.
    destruct Hx as ([a c] & <- & Hin). cbn. apply land_lt256.
    apply in_combine_l in Hin. rewrite Forall_forall in Hb. apply Hb. exact Hin.
Qed.
End BA.
