From Coq Require Import List NArith Bool Lia Arith ZArith.
Require Import ZifyBool ZifyN ZifyNat.
From FFSM2 Require Import Model.BitStream.
Import ListNotations.
Ltac Zify.zify_post_hook ::= Z.div_mod_to_equations.
Local Open Scope N_scope.

Lemma bget_bset_nat_same b i v : (i < length b)%nat -> nth i (bset_nat b i v) 0 = v.
Proof. revert i; induction b as [|h t IH]; intros [|i] H; simpl in *; try lia; auto. apply IH; lia. Qed.
Lemma bget_bset_nat_other b i j v : i <> j -> nth j (bset_nat b i v) 0 = nth j b 0.
Proof. revert i j; induction b as [|h t IH]; intros [|i] [|j] H; simpl in *; try congruence; auto. Qed.
Lemma bset_nat_length b i v : length (bset_nat b i v) = length b.
Proof. revert i; induction b as [|h t IH]; intros [|i]; simpl; auto. Qed.

Lemma shiftr3 c : N.shiftr c 3 = c / 8. Proof. rewrite N.shiftr_div_pow2. reflexivity. Qed.
Lemma land7 c : N.land c 7 = c mod 8. Proof. change 7 with (N.ones 3). rewrite N.land_ones. reflexivity. Qed.

(* the single-chunk specification, at the level of bits *)
Lemma write_chunk_spec buf c item w :
  0 < w -> c / 8 < N.of_nat (length buf) -> c + w < 256 ->
  let '(buf', c', item', w') := write_chunk buf c item w in
  let cw := N.min (8 - c mod 8) w in
  c' = c + cw /\ w' = w - cw /\ item' = N.shiftr item cw /\ length buf' = length buf /\
  forall p, getbit buf' p =
    if (c / 8 =? p / 8) then
      getbit buf p || ((c mod 8 <=? p mod 8) && N.testbit item (p mod 8 - c mod 8))
    else getbit buf p.
Proof.
  intros Hw Hc H256. unfold write_chunk. rewrite shiftr3, land7.
  split; [apply N.mod_small; lia|].
  repeat split; [unfold bset; apply bset_nat_length|].
  intro p. unfold getbit, bget, bset.
  destruct (c / 8 =? p / 8) eqn:E.
  - apply N.eqb_eq in E. rewrite <- E. rewrite bget_bset_nat_same by lia.
    assert (Hp : p mod 8 < 8) by (apply N.mod_lt; lia).
    change 256 with (2 ^ 8). rewrite N.mod_pow2_bits_low by exact Hp.
    rewrite N.lor_spec. f_equal.
    destruct (c mod 8 <=? p mod 8) eqn:L.
    + apply N.leb_le in L. rewrite N.shiftl_spec_high' by exact L. reflexivity.
    + apply N.leb_gt in L. rewrite N.shiftl_spec_low by exact L. reflexivity.
  - apply N.eqb_neq in E. rewrite bget_bset_nat_other; [reflexivity|]. intro H. apply E. lia.
Qed.

Lemma testbit_above item w q : item < 2 ^ w -> w <= q -> N.testbit item q = false.
Proof.
  intros H Hq. destruct (N.eq_dec item 0) as [->|Hn]; [apply N.bits_0|].
  apply N.bits_above_log2. apply N.log2_lt_pow2; [lia|].
  eapply N.lt_le_trans; [exact H|]. apply N.pow_le_mono_r; lia.
Qed.

Lemma shiftr_lt item w cw : item < 2 ^ w -> cw <= w -> N.shiftr item cw < 2 ^ (w - cw).
Proof.
  intros H Hc. rewrite N.shiftr_div_pow2.
  apply N.div_lt_upper_bound; [apply N.pow_nonzero; lia|].
  rewrite <- N.pow_add_r. replace (cw + (w - cw)) with w by lia. exact H.
Qed.

(* write<W>: the cursor advances by exactly W, the length is unchanged and every bit of the buffer
   afterwards is the old bit OR-ed with the item's bit at that offset *)
Lemma write_loop_spec : forall fuel buf c item w,
  (N.to_nat w <= fuel)%nat -> item < 2 ^ w -> c + w <= 8 * N.of_nat (length buf) -> c + w < 256 ->
  let '(buf', c') := write_loop fuel buf c item w in
  c' = c + w /\ length buf' = length buf /\
  forall p, getbit buf' p = getbit buf p || ((c <=? p) && N.testbit item (p - c)).
Proof.
  induction fuel as [|f IH]; intros buf c item w Hf Hi Hc H256.
  - cbn [write_loop]. assert (w = 0) by lia. subst w.
    repeat split; [lia|]. intro p.
    rewrite (testbit_above item 0 (p - c)) by (auto; lia).
    rewrite andb_false_r, orb_false_r. reflexivity.
  - cbn [write_loop]. destruct (w =? 0) eqn:Ew.
    + apply N.eqb_eq in Ew. subst w. repeat split; [lia|]. intro p.
      rewrite (testbit_above item 0 (p - c)) by (auto; lia).
      rewrite andb_false_r, orb_false_r. reflexivity.
    + apply N.eqb_neq in Ew.
      pose proof (write_chunk_spec buf c item w) as CS.
      destruct (write_chunk buf c item w) as [[[buf1 c1] item1] w1].
      specialize (CS ltac:(lia) ltac:(lia) H256).
      set (cw := N.min (8 - c mod 8) w) in *.
      destruct CS as (Hc1 & Hw1 & Hi1 & Hl1 & Hb1).
      assert (Hcw : 0 < cw <= w) by (unfold cw; lia).
      assert (Hcw8 : c mod 8 + cw <= 8) by (unfold cw; lia).
      specialize (IH buf1 c1 item1 w1).
      destruct (write_loop f buf1 c1 item1 w1) as [buf' c'].
      destruct IH as (Hc' & Hl' & Hb').
      { lia. } { subst item1 w1. apply shiftr_lt; [exact Hi|lia]. } { rewrite Hl1. lia. } { lia. }
      split; [lia|]. split; [congruence|].
      intro p. rewrite Hb', Hb1. subst item1 c1.
      rewrite N.shiftr_spec by lia.
      destruct (c / 8 =? p / 8) eqn:E.
      * apply N.eqb_eq in E.
        destruct (c mod 8 <=? p mod 8) eqn:L.
        -- apply N.leb_le in L.
           assert (Hcp : c <= p) by lia.
           replace (p mod 8 - c mod 8) with (p - c) by lia.
           replace (c <=? p) with true by lia. cbn [andb].
           destruct (c + cw <=? p) eqn:L2.
           ++ apply N.leb_le in L2. replace (p - (c + cw) + cw) with (p - c) by lia.
              cbn [andb]. destruct (getbit buf p), (N.testbit item (p - c)); reflexivity.
           ++ cbn [andb]. rewrite orb_false_r. reflexivity.
        -- apply N.leb_gt in L.
           replace (c <=? p) with false by lia.
           replace (c + cw <=? p) with false by lia.
           cbn [andb]. rewrite !orb_false_r. reflexivity.
      * apply N.eqb_neq in E.
        destruct (c + cw <=? p) eqn:L2.
        -- apply N.leb_le in L2. replace (c <=? p) with true by lia.
           replace (p - (c + cw) + cw) with (p - c) by lia. reflexivity.
        -- apply N.leb_gt in L2. cbn [andb]. rewrite orb_false_r.
           destruct (c <=? p) eqn:L3; [|cbn [andb]; rewrite orb_false_r; reflexivity].
           exfalso. apply N.leb_le in L3.
           apply E. lia.
Qed.

Lemma mask_ones cw : N.shiftl 1 cw - 1 = N.ones cw.
Proof. unfold N.ones. rewrite N.pred_sub. reflexivity. Qed.

(* read<W>: bit j of the result is buffer bit c+j, the cursor advances by exactly W *)
Lemma read_loop_spec : forall fuel buf c item icur w,
  (N.to_nat w <= fuel)%nat -> item < 2 ^ icur -> c + w < 256 ->
  let '(item', c') := read_loop fuel buf c item icur w in
  c' = c + w /\
  forall j, N.testbit item' j =
    if j <? icur then N.testbit item j
    else if j <? icur + w then getbit buf (c + (j - icur)) else false.
Proof.
  induction fuel as [|f IH]; intros buf c item icur w Hf Hi H256.
  - cbn [read_loop]. assert (w = 0) by lia. subst w. split; [lia|]. intro j.
    destruct (j <? icur) eqn:E; [reflexivity|]. apply N.ltb_ge in E.
    replace (j <? icur + 0) with false by lia. apply (testbit_above item icur j Hi E).
  - cbn [read_loop]. destruct (w =? 0) eqn:Ew.
    + apply N.eqb_eq in Ew. subst w. split; [lia|]. intro j.
      destruct (j <? icur) eqn:E; [reflexivity|]. apply N.ltb_ge in E.
      replace (j <? icur + 0) with false by lia. apply (testbit_above item icur j Hi E).
    + apply N.eqb_neq in Ew. unfold read_chunk. rewrite shiftr3, land7, mask_ones.
      set (cw := N.min (8 - c mod 8) w).
      assert (Hcw : 0 < cw <= w) by (unfold cw; lia).
      assert (Hcw8 : c mod 8 + cw <= 8) by (unfold cw; lia).
      replace ((c + cw) mod 256) with (c + cw) by (symmetry; apply N.mod_small; lia).
      set (chunk := N.land (N.shiftr (bget buf (c / 8)) (c mod 8)) (N.ones cw)).
      assert (Hchunk : forall q, N.testbit chunk q = (q <? cw) && getbit buf (c + q)).
      { intro q. unfold chunk. rewrite N.land_spec, N.shiftr_spec by lia.
        destruct (q <? cw) eqn:Eq.
        - apply N.ltb_lt in Eq. rewrite N.ones_spec_low by exact Eq. rewrite andb_true_r. cbn [andb].
          unfold getbit. replace ((c + q) / 8) with (c / 8) by lia. replace ((c + q) mod 8) with (q + c mod 8) by lia. reflexivity.
        - apply N.ltb_ge in Eq. rewrite N.ones_spec_high by exact Eq. rewrite andb_false_r. reflexivity. }
      assert (Hchunk_lt : chunk < 2 ^ cw).
      { unfold chunk. rewrite N.land_ones. apply N.mod_lt. apply N.pow_nonzero. lia. }
      specialize (IH buf (c + cw) (N.lor item (N.shiftl chunk icur)) (icur + cw) (w - cw)).
      destruct (read_loop f buf (c + cw) _ (icur + cw) (w - cw)) as [item' c'].
      destruct IH as (Hc' & Hb').
      { lia. }
      { destruct (N.eq_dec (N.lor item (N.shiftl chunk icur)) 0) as [E0|E0]; [rewrite E0; apply N.neq_0_lt_0, N.pow_nonzero; lia|].
        apply N.log2_lt_pow2; [lia|].
        rewrite N.log2_lor. apply N.max_lub_lt.
        - destruct (N.eq_dec item 0) as [->|Hn]; [cbn; lia|]. apply N.log2_lt_pow2 in Hi; lia.
        - destruct (N.eq_dec chunk 0) as [Ec|Ec]; [rewrite Ec, N.shiftl_0_l; cbn; lia|].
          rewrite N.log2_shiftl by exact Ec. apply N.log2_lt_pow2 in Hchunk_lt; lia. }
      { lia. }
      split; [lia|]. intro j. rewrite Hb'.
      rewrite N.lor_spec.
      destruct (j <? icur) eqn:E1.
      * apply N.ltb_lt in E1. replace (j <? icur + cw) with true by lia.
        rewrite N.shiftl_spec_low by exact E1. rewrite orb_false_r. reflexivity.
      * apply N.ltb_ge in E1. rewrite (testbit_above item icur j Hi E1). cbn [orb].
        rewrite N.shiftl_spec_high' by exact E1. rewrite Hchunk.
        destruct (j <? icur + cw) eqn:E2.
        -- apply N.ltb_lt in E2. replace (j - icur <? cw) with true by lia. cbn [andb].
           replace (j <? icur + w) with true by lia. reflexivity.
        -- apply N.ltb_ge in E2.
           destruct (j <? icur + w) eqn:E3.
           ++ apply N.ltb_lt in E3. replace (j <? icur + cw + (w - cw)) with true by lia.
              f_equal. lia.
           ++ apply N.ltb_ge in E3. replace (j <? icur + cw + (w - cw)) with false by lia. reflexivity.
Qed.

(* ---- round trip of one field, with the stream invariant "zeros at and past the cursor" ---- *)
Definition zeros_from (buf : bytes) (c : N) : Prop := forall p, c <= p -> getbit buf p = false.

Theorem write_read_roundtrip buf c w v :
  v < 2 ^ w -> c + w <= 8 * N.of_nat (length buf) -> c + w < 256 ->
  zeros_from buf c ->
  let '(buf', c') := write buf c w v in
  read buf' c w = (v, c + w) /\ c' = c + w /\ length buf' = length buf /\
  zeros_from buf' (c + w) /\                                   (* invariant preserved *)
  (forall p, p < c -> getbit buf' p = getbit buf p) /\          (* earlier fields untouched *)
  (forall j, j < w -> getbit buf' (c + j) = N.testbit v j).     (* packed, least significant bit first *)
Proof.
  intros Hv Hfit H256 Hz. unfold write.
  pose proof (write_loop_spec (N.to_nat w) buf c v w (le_n _) Hv Hfit H256) as W.
  destruct (write_loop (N.to_nat w) buf c v w) as [buf' c'].
  destruct W as (Hc' & Hl & Hb).
  pose proof (read_loop_spec (N.to_nat w) buf' c 0 0 w (le_n _)) as R.
  unfold read. destruct (read_loop (N.to_nat w) buf' c 0 0 w) as [item cr].
  destruct R as (Hcr & Hbits). { cbn; lia. } { exact H256. }
  split; [|split; [exact Hc'|split; [exact Hl|split; [|split]]]].
  - f_equal; [|exact Hcr]. apply N.bits_inj. intro j. rewrite Hbits.
    replace (j <? 0) with false by lia. rewrite N.add_0_l, N.sub_0_r.
    destruct (j <? w) eqn:E.
    + rewrite Hb. rewrite Hz by lia. cbn [orb]. replace (c <=? c + j) with true by lia. cbn [andb]. f_equal. lia.
    + apply N.ltb_ge in E. symmetry. apply (testbit_above v w j Hv E).
  - intros p Hp. rewrite Hb. rewrite Hz by lia. cbn [orb]. replace (c <=? p) with true by lia. cbn [andb].
    apply (testbit_above v w); [exact Hv|lia].
  - intros p Hp. rewrite Hb. replace (c <=? p) with false by lia. cbn [andb]. rewrite orb_false_r. reflexivity.
  - intros j Hj. rewrite Hb. rewrite Hz by lia. cbn [orb]. replace (c <=? c + j) with true by lia. cbn [andb]. f_equal. lia.
Qed.

(* a freshly cleared buffer is all zeros *)
Lemma bget_repeat0 k i : bget (repeat 0 k) i = 0.
Proof. unfold bget. generalize (N.to_nat i). induction k as [|k IH]; intros [|j]; cbn; auto. Qed.
Lemma buffer_clear_zeros bits : zeros_from (buffer_clear bits) 0.
Proof. intros p _. unfold getbit, buffer_clear. rewrite bget_repeat0. apply N.bits_0. Qed.
Lemma buffer_clear_length bits : N.of_nat (length (buffer_clear bits)) = (bits + 7) / 8.
Proof. unfold buffer_clear. rewrite repeat_length. lia. Qed.

(* ---- any sequence of fields that fits: what you write is what you read, in order ---- *)
Definition fields_ok (fs : list (N * N)) : Prop := Forall (fun f => 1 <= fst f <= 32 /\ snd f < 2 ^ fst f) fs.
Definition total_width (fs : list (N * N)) : N := fold_right (fun f a => fst f + a) 0 fs.

Theorem fields_roundtrip : forall fs buf c,
  fields_ok fs -> c + total_width fs <= 8 * N.of_nat (length buf) -> c + total_width fs < 256 ->
  zeros_from buf c ->
  let '(buf', c') := write_fields buf c fs in
  c' = c + total_width fs /\ length buf' = length buf /\ zeros_from buf' c' /\
  (forall p, p < c -> getbit buf' p = getbit buf p) /\
  read_fields buf' c (map fst fs) = (map snd fs, c').
Proof.
  induction fs as [|[w v] fs IH]; intros buf c Hok Hfit H256 Hz; cbn [write_fields].
  - cbn [total_width fold_right map read_fields]. rewrite N.add_0_r. repeat split; auto.
  - inversion Hok as [|x l [Hw Hv] Hok']; subst. cbn [fst snd] in *.
    cbn [total_width fold_right fst] in Hfit, H256. fold (total_width fs) in Hfit, H256.
    pose proof (write_read_roundtrip buf c w v Hv ltac:(lia) ltac:(lia) Hz) as RT.
    destruct (write buf c w v) as [b1 c1].
    destruct RT as (Hr & Hc1 & Hl1 & Hz1 & Hpre1 & Hbits1). subst c1.
    specialize (IH b1 (c + w) Hok' ltac:(rewrite Hl1; lia) ltac:(lia) Hz1).
    destruct (write_fields b1 (c + w) fs) as [b2 c2].
    destruct IH as (Hc2 & Hl2 & Hz2 & Hpre2 & Hrd).
    cbn [total_width fold_right fst]. fold (total_width fs).
    split; [lia|]. split; [congruence|]. split; [exact Hz2|]. split.
    + intros p Hp. rewrite Hpre2 by lia. apply Hpre1. exact Hp.
    + cbn [map fst snd read_fields].
      (* the first field reads back from b2 as it did from b1: its bits lie before c + w *)
      assert (Hsame : read b2 c w = read b1 c w).
      { unfold read.
        pose proof (read_loop_spec (N.to_nat w) b2 c 0 0 w (le_n _) ltac:(cbn; lia) ltac:(lia)) as R2.
        pose proof (read_loop_spec (N.to_nat w) b1 c 0 0 w (le_n _) ltac:(cbn; lia) ltac:(lia)) as R1.
        destruct (read_loop (N.to_nat w) b2 c 0 0 w) as [i2 k2].
        destruct (read_loop (N.to_nat w) b1 c 0 0 w) as [i1 k1].
        destruct R2 as (-> & B2). destruct R1 as (-> & B1). f_equal.
        apply N.bits_inj. intro j. rewrite B2, B1.
        replace (j <? 0) with false by lia. rewrite N.add_0_l, N.sub_0_r.
        destruct (j <? w) eqn:E; [|reflexivity]. apply N.ltb_lt in E. apply Hpre2. lia. }
      rewrite Hsame, Hr, Hrd. reflexivity.
Qed.
