From Coq Require Import List NArith Bool Lia Arith ZArith.
From FFSM2 Require Import Model.Bits.
Import ListNotations.
Local Open Scope N_scope.

Lemma chain_spec : forall fuel k v,
  k + N.of_nat fuel = 32 -> v < 2 ^ 32 -> (k = 0 \/ 2 ^ (k - 1) <= v) ->
  v < 2 ^ (chain fuel k v) /\ (chain fuel k v = 0 \/ 2 ^ (chain fuel k v - 1) <= v).
Proof.
  induction fuel as [|f IH]; intros k v Hk Hv Hlo; cbn [chain].
  - assert (k = 32) by lia. subst k. split; [exact Hv|right; destruct Hlo; [lia|assumption]].
  - destruct (N.shiftr v k =? 0) eqn:E.
    + apply N.eqb_eq in E. rewrite N.shiftr_div_pow2 in E.
      split; [|exact Hlo].
      apply N.div_small_iff in E; [exact E|apply N.pow_nonzero; lia].
    + apply N.eqb_neq in E. rewrite N.shiftr_div_pow2 in E.
      apply IH; [lia|exact Hv|]. right. replace (k + 1 - 1) with k by lia.
      apply N.le_ngt. intro H. apply E. apply N.div_small. exact H.
Qed.

(* bitWidth(v) is the exact bit length of v, for every 32-bit argument *)
Theorem bitWidth_spec v : v < 2 ^ 32 ->
  v < 2 ^ bitWidth v /\ (bitWidth v = 0 \/ 2 ^ (bitWidth v - 1) <= v).
Proof. intros H. apply chain_spec; [reflexivity|exact H|left; reflexivity]. Qed.

Lemma bitWidth_le_32 v : bitWidth v <= 32.
Proof.
  unfold bitWidth. assert (H : forall fuel k, k + N.of_nat fuel = 32 -> chain fuel k v <= 32).
  { induction fuel as [|f IH]; intros k Hk; cbn [chain]; [lia|].
    destruct (N.shiftr v k =? 0); [lia|apply IH; lia]. }
  apply H. reflexivity.
Qed.

Lemma bitWidth_mono_enough n k : n < 2 ^ 32 -> k < n -> k < 2 ^ bitWidth n.
Proof. intros Hn Hk. destruct (bitWidth_spec n Hn) as [H _]. lia. Qed.

(* the bit width derived for a state count suffices for every state index of that count *)
Corollary width_suffices n k : 1 <= n <= 255 -> k < n -> k < 2 ^ bitWidth n.
Proof. intros Hn Hk. apply bitWidth_mono_enough; [|exact Hk]. eapply N.le_lt_trans; [apply Hn|]. reflexivity. Qed.

Lemma bitWidth_small n : 1 <= n <= 255 -> 1 <= bitWidth n <= 8.
Proof.
  intros Hn. destruct (bitWidth_spec n) as [Hhi Hlo]; [lia|].
  split.
  - destruct (N.eq_dec (bitWidth n) 0) as [E|E]; [rewrite E in Hhi; cbn in Hhi; lia|lia].
  - destruct Hlo as [E|Hlo]; [lia|].
    destruct (N.le_gt_cases (bitWidth n) 8) as [L|L]; [exact L|exfalso].
    assert (2 ^ 8 <= 2 ^ (bitWidth n - 1)) by (apply N.pow_le_mono_r; lia).
    change (2 ^ 8) with 256 in *. lia.
Qed.
