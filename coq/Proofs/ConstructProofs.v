(* C17: construction does not depend on the prior contents of the memory the instance is constructed in, and a
   copy-constructed core equals the original. The C++ facts these rest on - every scalar member has an
   initialiser; CoreT's hand-written copy/move constructors name every member - are read off clang's AST of
   /repo's working tree on every run (tools/initfacts.py -> Generated/InitFacts.v). Here each field of the model's
   core is built the way C++ would build it: from its initialiser if the generated facts say it has one, from
   the (arbitrary) garbage the storage held otherwise; likewise a copy takes a member from the original if the
   copy constructor names it and default-initialises it otherwise. The theorems below are provable exactly when
   the generated lists are empty: if a member loses its initialiser, or a constructor drops a member, they fail. *)
From Coq Require Import List String Bool Arith.
From FFSM2 Require Import Model.TaskList Model.BitArray Model.Plan Model.Ancestors Model.Machine Model.Multi Generated.InitFacts.
Import ListNotations.

Definition has_init (name : string) : bool := negb (existsb (String.eqb name) uninitialised_fields).
Definition pick {A : Type} (name : string) (init garbage : A) : A := if has_init name then init else garbage.

Section C.
Variable P : Type.
Variable cfg : config.

Definition transition_over (g : transition P) : transition P :=
  {| t_origin := pick "TransitionBase::origin" INVALID (t_origin P g);
     t_dest := pick "TransitionBase::destination" INVALID (t_dest P g);
     t_pay := if pick "TransitionT::payloadSet" false (is_some (t_pay P g)) then t_pay P g else None |}.

Definition tl_over (g : tl P) : tl P :=
  {| t_head := pick "TaskListT::_vacantHead" 0 (t_head g); t_tail := pick "TaskListT::_vacantTail" 0 (t_tail g);
     t_last := pick "TaskListT::_last" 0 (t_last g); t_count := pick "TaskListT::_count" 0 (t_count g);
     t_items := pick "TaskListT::_items" (repeat (dslot P) (c_cap cfg)) (t_items g) |}.

Definition plan_over (g : plan_data P) : plan_data P :=
  let i := pd_init P (c_cap cfg) (c_n cfg) in
  {| pd_tasks := tl_over (pd_tasks g);
     pd_pl := {| links := if has_init "TaskLink::prev" && has_init "TaskLink::next" && has_init "StaticArrayT::_items" then links (pd_pl i) else links (pd_pl g);
                 first := pick "Bounds::first" INVALID (first (pd_pl g)); lastb := pick "Bounds::last" INVALID (lastb (pd_pl g)) |};
     pd_succ := pick "BitArrayT::_storage" (pd_succ i) (pd_succ g);
     pd_fail := pick "BitArrayT::_storage" (pd_fail i) (pd_fail g);
     pd_exists := pick "PlanDataT::planExists" false (pd_exists g);
     pd_head_status := pick "TaskStatus::result" SNone (pd_head_status g);
     pd_sub_status := pick "TaskStatus::result" SNone (pd_sub_status g) |}.

(* CoreT(context, logger): registry, request, planData, previousTransition from their member initialisers *)
Definition core_over (lg : bool) (g : core P) : core P :=
  {| active := pick "Registry::active" INVALID (active P g);
     requested := pick "Registry::requested" INVALID (requested P g);
     request := transition_over (request P g);
     previous := transition_over (previous P g);
     plan := plan_over (plan P g);
     logger := lg |}.

(* the hand-written copy constructor: a member it does not name is default-initialised instead of copied *)
Definition copied (name : string) : bool := negb (existsb (String.eqb name) copy_ctor_missing).
Definition moved (name : string) : bool := negb (existsb (String.eqb name) move_ctor_missing).
Definition copy_over (named : string -> bool) (c : core P) : core P :=
  let d := core_init P cfg false in
  {| active := if named "registry" then active P c else active P d;
     requested := if named "registry" then requested P c else requested P d;
     request := if named "request" then request P c else request P d;
     previous := if named "previousTransition" then previous P c else previous P d;
     plan := if named "planData" then plan P c else plan P d;
     logger := if named "logger" then logger P c else false |}.

(* the obligations: they hold by computation exactly when the generated lists are empty *)
Theorem construct_ignores_garbage : forall lg g, core_over lg g = core_init P cfg lg.
Proof. intros lg g. reflexivity. Qed.

Theorem construct_same_for_any_memory : forall lg g1 g2, core_over lg g1 = core_over lg g2.
Proof. intros lg g1 g2. rewrite !construct_ignores_garbage. reflexivity. Qed.

Theorem copy_ctor_is_identity : forall c, copy_over copied c = c.
Proof. intros [a r q p pl l]. reflexivity. Qed.
Theorem move_ctor_is_identity : forall c, copy_over moved c = c.
Proof. intros [a r q p pl l]. reflexivity. Qed.

(* a default-constructed SerialBuffer: its bytes come from the member initialiser, so it is the all-zero image (which load() reads as
   "inactive") whatever the memory held before *)
Definition buffer_over (g : BitStream.bytes) : BitStream.bytes := pick "StreamBufferT::_data" (BitStream.buffer_clear (serial_bits cfg)) g.
Theorem fresh_buffer_ignores_garbage : forall g, buffer_over g = BitStream.buffer_clear (serial_bits cfg).
Proof. intro g. reflexivity. Qed.

(* the catch-all: no scalar member of any record a machine is made of (tools/initfacts.py: RECORDS, minus the documented exemptions) is left
   without an initialiser - also the members the model has no field for *)
Theorem every_member_is_initialised : uninitialised_fields = [].
Proof. reflexivity. Qed.

(* ... which is what the multi-instance model assumes of a copy *)
Theorem copy_core_is_copy_ctor : forall c, copy_core P c = copy_over copied c.
Proof. intros [a r q p pl l]. reflexivity. Qed.

(* instances are independent: an operation addressed to instance i leaves every other slot alone *)
Variable orc_of : nat -> oracle P.
Lemma set_nth_other {A} (l : list A) i j v d : i <> j -> nth j (set_nth l i v) d = nth j l d.
Proof.
  revert i j. induction l as [|x l IH]; intros i j H; destruct i, j; cbn; try reflexivity; try congruence.
  apply IH. congruence.
Qed.
Definition addressed (op : wop P) : nat :=
  match op with WConstruct _ i _ | WDestroy _ i | WCopy _ i _ | WLoadFrom _ i _ | WOp _ i _ => i end.
Theorem instances_independent : forall w op j, addressed op <> j ->
  get_inst P (wstep P cfg orc_of w op) j = get_inst P w j.
Proof.
  intros w op j H. unfold get_inst, wstep.
  destruct op as [i lg|i|i k|i k|i aop]; cbn [addressed] in H; unfold finish.
  - cbn [insts]. apply set_nth_other. exact H.
  - destruct (get_inst P w i); cbn [insts]; [apply set_nth_other; exact H|reflexivity].
  - destruct (get_inst P w k); cbn [insts]; [apply set_nth_other; exact H|reflexivity].
  - destruct (get_inst P w i); [destruct (get_inst P w k)|]; cbn [insts]; [apply set_nth_other; exact H|reflexivity|reflexivity].
  - destruct (get_inst P w i); [destruct (step P cfg (orc_of i) m aop)|]; cbn [insts]; [apply set_nth_other; exact H|reflexivity].
Qed.

(* a copy starts from the original's core with an empty trace of its own: the same suffix of operations gives
   the same behaviour (run_from is a function of the core, the oracle and the operations) *)
Theorem copy_behaves_like_original : forall (orc : oracle P) c ops,
  co P (run_from P cfg orc {| co := copy_core P c; tr := [] |} ops) = co P (run_from P cfg orc {| co := c; tr := [] |} ops).
Proof. intros orc c ops. rewrite copy_core_is_copy_ctor, copy_ctor_is_identity. reflexivity. Qed.
End C.
