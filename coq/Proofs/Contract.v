(* The in-contract conditions of the API as executable booleans, so that the correspondence runner can confirm that
   every script it runs lies in the domain the theorems quantify over (Proofs/MachineLife.v: in_contract, ops_ok;
   Proofs/MachineFrame.v: wf_action / wf_oracle), and the proof that the scripted oracle (Model/Script.v) is a
   wf_oracle when the actions in its table are well formed. *)
From Coq Require Import List Arith Bool NArith Lia.
From FFSM2 Require Import Model.TaskList Model.BitArray Model.Plan Model.Ancestors Model.BitStream Model.Machine Model.Script Model.Multi
  Proofs.MachineFrame Proofs.MachineLife Proofs.SerialProofs.
Import ListNotations.

Section C.
Variable P : Type.
Variable cfg : config.
Local Notation n := (c_n cfg).

Definition wf_actionb (a : action P) : bool :=
  match a with
  | AChange _ d | AChangeWith _ d _ => d <? n
  | ASucceed _ (Some s) | AFail _ (Some s) => s <? n
  | APlanAppend _ o d | APlanAppendWith _ o d _ => (o <? n) && (d <? n)
  | _ => true
  end.
Lemma wf_actionb_spec a : wf_actionb a = true -> wf_action P cfg a.
Proof.
  destruct a as [d|d p| |[s|]|[s|]|o d|o d p| |k]; cbn [wf_actionb wf_action]; intro H; try exact I;
    try (apply Nat.ltb_lt; exact H).
  - apply andb_true_iff in H. destruct H as [H1 H2]. split; apply Nat.ltb_lt; assumption.
  - apply andb_true_iff in H. destruct H as [H1 H2]. split; apply Nat.ltb_lt; assumption.
Qed.

(* the scripted oracle of the correspondence check returns the actions of some table entry (or none) *)
Definition table_okb (tab : list (entry P)) : bool := forallb (fun e => forallb wf_actionb (e_acts P e)) tab.
Theorem table_oracle_wf tab : table_okb tab = true -> wf_oracle P cfg (table_oracle P tab).
Proof.
  intros H t w r m v. unfold table_oracle.
  destruct (find _ tab) as [e|] eqn:E; [|constructor].
  apply find_some in E. destruct E as [Hin _].
  unfold table_okb in H. rewrite forallb_forall in H. specialize (H e Hin).
  rewrite forallb_forall in H. apply Forall_forall. intros a Ha. apply wf_actionb_spec. apply H. exact Ha.
Qed.

Definition is_onb (s : mstate P) : bool := active P (co P s) <? n.
Definition is_offb (s : mstate P) : bool := active P (co P s) =? INVALID.
Definition buf_okb (buf : bytes) : bool :=
  let '(flag, c1) := read buf 0 1 in
  (if (flag =? 0)%N then true else N.to_nat (fst (read buf c1 (width_bits cfg))) <? n) &&
  (c_manual cfg || negb (flag =? 0)%N).

Definition in_contractb (s : mstate P) (op : api_op P) : bool :=
  match op with
  | OEnter _ => is_offb s
  | OExit _ | OUpdate _ | OReact _ | OQuery _ => is_onb s
  | OChange _ d | OChangeWith _ d _ | OImmChange _ d | OImmChangeWith _ d _ => is_onb s && (d <? n)
  | OSucceed _ sid | OFail _ sid => sid <? n
  | OPlanAppend _ o d | OPlanAppendWith _ o d _ => (o <? n) && (d <? n)
  | OPlanClear _ | OPlanRemoveAt _ _ => true
  | OLoad _ buf => buf_okb buf && (c_manual cfg || is_onb s)
  | OReplayEnter _ d => is_offb s && (d <? n)
  | OReplayTransition _ d => is_onb s && ((d <? n) || (d =? INVALID))
  | OAttachLogger _ _ => true
  end.

Lemma buf_okb_spec buf : buf_okb buf = true -> buf_ok cfg buf.
Proof.
  unfold buf_okb, buf_ok. destruct (read buf 0 1) as [flag c1]. intro H.
  apply andb_true_iff in H. destruct H as [H1 H2]. split.
  - intro Hf. destruct (flag =? 0)%N eqn:E; [apply N.eqb_eq in E; contradiction|]. apply Nat.ltb_lt. exact H1.
  - intro Hm. rewrite Hm in H2. cbn [orb] in H2. apply negb_true_iff, N.eqb_neq in H2. exact H2.
Qed.

Theorem in_contractb_spec s op : in_contractb s op = true -> in_contract P cfg s op.
Proof.
  unfold in_contractb, in_contract, is_onb, is_offb, is_on, is_off.
  destruct op; intro H;
    try solve [ repeat match goal with
                       | H : (_ && _) = true |- _ => apply andb_true_iff in H; destruct H
                       end;
                repeat split; first [apply Nat.ltb_lt; assumption | apply Nat.eqb_eq; assumption | exact I] ].
  - (* load *)
    apply andb_true_iff in H. destruct H as [H1 H2]. split; [apply buf_okb_spec; exact H1|].
    intro Hm. rewrite Hm in H2. cbn [orb] in H2. apply Nat.ltb_lt. exact H2.
  - (* replayTransition *)
    apply andb_true_iff in H. destruct H as [H1 H2]. split; [apply Nat.ltb_lt; exact H1|].
    apply orb_true_iff in H2. destruct H2 as [H2|H2]; [left; apply Nat.ltb_lt; exact H2|right; apply Nat.eqb_eq; exact H2].
Qed.

(* ---- several instances: the operations of the multi-instance driver ---- *)
Variable orc_of : nat -> oracle P.
Definition saver_okb (c : core P) : bool := (active P c <? n) || ((active P c =? INVALID) && c_manual cfg).
Definition wop_okb (w : world P) (op : wop P) : bool :=
  match op with
  | WConstruct _ i _ => match get_inst P w i with None => true | Some _ => false end
  | WDestroy _ i => match get_inst P w i with Some s => c_manual cfg || is_onb s | None => false end
  | WCopy _ i j => match get_inst P w i, get_inst P w j with None, Some _ => negb (i =? j) | _, _ => false end
  | WLoadFrom _ i j =>
      match get_inst P w i, get_inst P w j with
      | Some si, Some sj => saver_okb (co P sj) && (c_manual cfg || is_onb si)
      | _, _ => false
      end
  | WOp _ i op => match get_inst P w i with Some s => in_contractb s op | None => false end
  end.

(* index of the first operation of a script that is out of contract, if any *)
Fixpoint first_violation (k : nat) (w : world P) (ops : list (wop P)) : option nat :=
  match ops with
  | [] => None
  | op :: r => if wop_okb w op then first_violation (S k) (wstep P cfg orc_of w op) r else Some k
  end.

Lemma saver_okb_spec c : saver_okb c = true -> saver_ok P cfg c.
Proof.
  unfold saver_okb, saver_ok. intro H. apply orb_true_iff in H. destruct H as [H|H].
  - left. apply Nat.ltb_lt. exact H.
  - right. apply andb_true_iff in H. destruct H as [H1 H2]. split; [apply Nat.eqb_eq; exact H1|exact H2].
Qed.

(* a load from another instance is in contract in the sense of Proofs/MachineLife.v *)
Theorem load_from_in_contract si sj : 1 <= n <= 255 ->
  saver_okb (co P sj) = true -> (c_manual cfg || is_onb si) = true ->
  in_contract P cfg si (OLoad P (save P cfg (co P sj))).
Proof.
  intros Hn Hs Hl. cbn [in_contract]. split.
  - apply load_buffer_in_contract; [exact Hn|apply saver_okb_spec; exact Hs].
  - intro Hm. rewrite Hm in Hl. cbn [orb] in Hl. apply Nat.ltb_lt. exact Hl.
Qed.
End C.
