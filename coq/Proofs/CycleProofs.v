(* C05 (update/react cycle order), C06 (consistent control view), C07 (payloads travel intact), at function
   level, on top of the frame lemmas of Proofs/MachineFrame.v. In this order in the file:
     A. delivs: sequences of deliveries; cbs / expected_cbs: the callbacks they consist of.
     C. mk_view_fields, view_act_agrees_with_instance, invoke_view, view_spec (one delivery), kview;
        origin_spec_change / _change_with, invoke_origin, invoke_records_caller.
     B. region_phase_shape, cycle_shape (update_shape, react_shape), update_cycle_order, react_cycle_order,
        perform_const .. deliver_const, query_shape.
     D. change_to_spec, transitions_loop_step, guards_view, lifecycle_view, process_request_previous,
        plan_scan_fire_step; the payload invariant (Section Pay): process_request_pay, no_payload_invented.
     E. non-vacuity examples by vm_compute (Module Examples). *)
From Coq Require Import List Arith Bool NArith Lia.
From FFSM2 Require Import Model.TaskList Model.BitArray Model.Plan Model.Ancestors Model.Dispatch
                          Model.Bits Model.BitStream Model.Machine Model.Script
                          Proofs.DispatchProofs Proofs.MachineFrame.
Import ListNotations.

Arguments INVALID : simpl never.

Section C.
Variable P : Type.
Variable cfg : config.
Variable orc : oracle P.
Variable PI : plan_data P -> Prop.
Hypothesis HPI : plan_inv_ok P cfg PI.
Hypothesis Hwf : wf_oracle P cfg orc.

Local Notation n := (c_n cfg).
Local Notation cap := (c_cap cfg).
Local Notation mstate := (mstate P).
Local Notation core := (core P).
Local Notation event := (event P).
Local Notation action := (action P).
Local Notation ctl := (ctl P).
Local Notation transition := (transition P).
Local Notation view := (view P).
Local Notation fr := (fr P cfg PI).
Local Notation frT := (fr (fun _ => True)).
Local Notation deliv := (deliv P cfg).
Local Notation ev_ok := (ev_ok P cfg).
Local Notation deliver_fr := (deliver_fr P cfg orc PI HPI Hwf).
Local Notation invoke_fr := (invoke_fr P cfg orc PI HPI Hwf).
Local Notation fr_trans := (fr_trans P cfg PI).
Local Notation fr_weaken := (fr_weaken P cfg PI).
Local Notation fr_refl := (fr_refl P cfg PI).
Local Notation fr_upd_plan := (fr_upd_plan P cfg PI).
Local Notation fr_active := (fr_active P cfg PI).
Local Notation fr_requested := (fr_requested P cfg PI).
Local Notation fr_tr := (fr_tr P cfg PI).
Local Notation fr_rw := (fr_rw P cfg PI).
Local Notation fr_pi := (fr_pi P cfg PI).
Local Notation PI_statuses := (pio_statuses P cfg PI HPI).
Local Notation PI_succ_and := (pio_succ_and P cfg PI HPI).
Local Notation PI_clear := (pio_clear P cfg PI HPI).

Lemma fr_any (evp : event -> Prop) s s' : fr evp s s' -> frT s s'.
Proof. apply fr_weaken. intros e _. exact I. Qed.

(* ================================================================================================ *)
(* A. sequences of deliveries: the (who, method) list is oldest first, the events newest first        *)
(* ================================================================================================ *)
Inductive delivs (a : nat) : list (who * method) -> list event -> Prop :=
| ds_nil : delivs a [] []
| ds_cons w m ds l1 l2 : deliv w m a l1 -> delivs a ds l2 -> delivs a ((w, m) :: ds) (l2 ++ l1).

Lemma delivs_one a w m l : deliv w m a l -> delivs a [(w, m)] l.
Proof. intro H. change l with ([] ++ l). apply ds_cons; [exact H|apply ds_nil]. Qed.

Lemma delivs_app a ds1 ds2 l1 l2 :
  delivs a ds1 l1 -> delivs a ds2 l2 -> delivs a (ds1 ++ ds2) (l2 ++ l1).
Proof.
  intros H1 H2. induction H1 as [|w m ds la lb Hd Hds IH]; cbn [app].
  - rewrite app_nil_r. exact H2.
  - rewrite app_assoc. apply ds_cons; [exact Hd|exact IH].
Qed.

(* every event of a sequence of deliveries is a callback of one of the listed (who, method) pairs, seeing
   a as the active state, or not a callback at all *)
Lemma delivs_ev_ok a ds l : delivs a ds l -> Forall (ev_ok a (fun w _ m => In (w, m) ds)) l.
Proof.
  intro H. induction H as [|w m ds l1 l2 Hd Hds IH]; [constructor|].
  apply Forall_app. split.
  - eapply Forall_impl; [|exact IH]. intro e. apply ev_ok_weaken. intros w' _ m' Hin. right. exact Hin.
  - eapply Forall_impl; [|exact (proj1 Hd)]. intro e. apply ev_ok_weaken.
    intros w' _ m' (-> & ->). left. reflexivity.
Qed.

(* the callbacks among events, oldest first, as (who, recipient, method) *)
Fixpoint cbs (l : list event) : list (who * recipient * method) :=
  match l with
  | [] => []
  | EvCb _ w r m _ :: t => cbs t ++ [(w, r, m)]
  | _ :: t => cbs t
  end.

Lemma cbs_app l1 l2 : cbs (l1 ++ l2) = cbs l2 ++ cbs l1.
Proof.
  induction l1 as [|e l1 IH]; cbn [app cbs]; [rewrite app_nil_r; reflexivity|].
  destruct e; rewrite IH, ?app_assoc; reflexivity.
Qed.

Lemma deliv_cbs a w m l : deliv w m a l -> cbs l = map (fun r => (w, r, m)) (recipients cfg w m).
Proof.
  intros [Hev Hrec]. rewrite <- Hrec. clear Hrec.
  induction Hev as [|e l He _ IH]; [reflexivity|].
  destruct e as [w' r' m' v| |]; cbn [cbs cb_recs]; [|exact IH|exact IH].
  cbn [MachineFrame.ev_ok] in He. destruct He as ((-> & ->) & _).
  rewrite map_app, IH. reflexivity.
Qed.

(* exactly once, in order: the callbacks of a sequence of deliveries are, delivery by delivery, the
   recipients of the delivery order *)
Definition expected_cbs (ds : list (who * method)) : list (who * recipient * method) :=
  flat_map (fun wm => map (fun r => (fst wm, r, snd wm)) (recipients cfg (fst wm) (snd wm))) ds.

Lemma delivs_cbs a ds l : delivs a ds l -> cbs l = expected_cbs ds.
Proof.
  intro H. induction H as [|w m ds l1 l2 Hd Hds IH]; [reflexivity|].
  rewrite cbs_app. unfold expected_cbs. cbn [flat_map fst snd]. rewrite (deliv_cbs a w m l1 Hd).
  f_equal. exact IH.
Qed.

(* the root is absent when the machine has no head *)
Lemma recipients_root_headless m : c_head cfg = false -> recipients cfg Root m = [].
Proof. intro H. unfold recipients. cbn [exists_who]. rewrite H. reflexivity. Qed.

Lemma co_log_rec l s : co P (log_rec P cfg l s) = co P s.
Proof. unfold log_rec. destruct (log_compiled cfg && logger P (co P s)); reflexivity. Qed.

(* ================================================================================================ *)
(* C. C06: the view a callback gets through its control                                               *)
(* ================================================================================================ *)
(* the fields of the view, one by one: the control's own members are copied, the request is the core's at the
   moment of the call, the activity bits are the registry's *)
Lemma mk_view_fields origin k c :
  let v := mk_view P cfg origin k c in
  v_id P v = origin /\ v_kind P v = k_kind P k /\ v_cur P v = k_cur P k /\ v_pend P v = k_pend P k /\
  v_req P v = request P c /\ v_act P v = map (fun j => active P c =? j) (seq 0 n).
Proof.
  cbv zeta. unfold mk_view. cbn [v_id v_kind v_cur v_pend v_req v_act].
  repeat split. destruct (k_kind P k); reflexivity.
Qed.

(* isActive through any control (ConstControl compares directly, the others ask the registry) agrees with what
   the instance itself reports *)
Theorem view_act_agrees_with_instance origin k c :
  v_act P (mk_view P cfg origin k c) = o_act P (observe P cfg c).
Proof. unfold mk_view, observe. cbn [v_act o_act]. destruct (k_kind P k); reflexivity. Qed.

(* one callback: the EvCb carries exactly mk_view of the control and the core as they are at that moment;
   everything else the callback appends is action / log records *)
Theorem invoke_view w r m s k :
  let '(s', k') := invoke P cfg orc w r m (s, k) in
  same_ctl_but P k k' /\
  exists l, tr P s' = l ++ EvCb P w r m (mk_view P cfg (id_of w) k (co P s)) :: tr P s /\ Forall (noncb P) l.
Proof.
  pose proof (invoke_fr w r m s k) as H. destruct (invoke P cfg orc w r m (s, k)) as [s' k'].
  destruct H as (_ & K & H). split; assumption.
Qed.

(* what every callback event of one delivery to w through control k, while a is active, looks like *)
Definition cb_view (w : who) (k : ctl) (a : nat) (e : event) : Prop :=
  match e with
  | EvCb _ w' _ _ v =>
      w' = w /\ v_id P v = id_of w /\ v_act P v = act_bits cfg a /\
      v_kind P v = k_kind P k /\ v_cur P v = k_cur P k /\ v_pend P v = k_pend P k
  | _ => True
  end.

Lemma noncb_cb_view w k a e : noncb P e -> cb_view w k a e.
Proof. destruct e; cbn; intro H; auto; contradiction. Qed.

Lemma cb_view_same w k k' a e : same_ctl_but P k k' -> cb_view w k' a e -> cb_view w k a e.
Proof.
  intros (K1 & K2 & K3 & _). destruct e as [w' r m v| |]; cbn [cb_view]; auto.
  intros (E1 & E2 & E3 & E4 & E5 & E6). rewrite K1 in E4. rewrite K2 in E5. rewrite K3 in E6. auto 6.
Qed.

Lemma deliver_fold_view w m (rs : list recipient) : forall s k,
  let '(s', k') := fold_left (fun sk r => if delivers cfg w r m then invoke P cfg orc w r m sk else sk) rs (s, k) in
  exists l, tr P s' = l ++ tr P s /\ Forall (cb_view w k (active P (co P s))) l.
Proof.
  induction rs as [|r rs IH]; intros s k; cbn [fold_left].
  - exists []. split; [reflexivity|constructor].
  - destruct (delivers cfg w r m); [|apply IH].
    pose proof (invoke_fr w r m s k) as H1.
    destruct (invoke P cfg orc w r m (s, k)) as [s1 k1].
    destruct H1 as (F1 & K1 & l1 & E1 & N1).
    specialize (IH s1 k1).
    destruct (fold_left _ rs (s1, k1)) as [s' k'].
    destruct IH as (l2 & E2 & V2). rewrite (fr_active _ _ _ F1) in V2.
    exists (l2 ++ l1 ++ [EvCb P w r m (mk_view P cfg (id_of w) k (co P s))]). split.
    + rewrite E2, E1, <- !app_assoc. reflexivity.
    + apply Forall_app. split; [|apply Forall_app; split].
      * eapply Forall_impl; [|exact V2]. intro e. apply cb_view_same. exact K1.
      * eapply Forall_impl; [|exact N1]. intro e. apply noncb_cb_view.
      * constructor; [|constructor]. cbn [cb_view].
        split; [reflexivity|]. split; [reflexivity|]. split; [apply mk_view_act|]. repeat split.
Qed.

(* C06 for one delivery *)
Theorem view_spec w m s k :
  let '(s', k') := deliver P cfg orc w m (s, k) in
  same_ctl_but P k k' /\
  exists l, tr P s' = l ++ tr P s /\ deliv w m (active P (co P s)) l /\
            Forall (cb_view w k (active P (co P s))) l.
Proof.
  pose proof (deliver_fr w m s k) as H0. revert H0. unfold deliver.
  set (s1 := if logs cfg w m then log_rec P cfg (LMethod (id_of w) m) s else s).
  assert (F0 : fr (cb_view w k (active P (co P s))) s s1).
  { subst s1. destruct (logs cfg w m); [apply fr_log_rec; exact I|apply fr_refl]. }
  destruct (fr_tr _ _ _ F0) as (l0 & E0 & V0).
  destruct (exists_who cfg w).
  - pose proof (deliver_fold_view w m (deep_order m (inj_of cfg w)) s1 k) as H.
    destruct (fold_left _ _ (s1, k)) as [s' k'].
    intros (_ & K & l & E & D). split; [exact K|]. exists l. split; [exact E|]. split; [exact D|].
    destruct H as (l1 & E1 & V1). rewrite (fr_active _ _ _ F0) in V1.
    assert (l = l1 ++ l0) as ->.
    { rewrite E1, E0, app_assoc in E. apply app_inv_tail in E. congruence. }
    apply Forall_app. split; assumption.
  - intros (_ & K & l & E & D). split; [exact K|]. exists l. split; [exact E|]. split; [exact D|].
    assert (l = l0) as -> by (rewrite E0 in E; apply app_inv_tail in E; congruence).
    exact V0.
Qed.

(* the control-side part of the view alone (kind, currentTransition, pendingTransition) *)
Definition kview (k : ctl) (e : event) : Prop :=
  match e with
  | EvCb _ _ _ _ v => v_kind P v = k_kind P k /\ v_cur P v = k_cur P k /\ v_pend P v = k_pend P k
  | _ => True
  end.

Lemma cb_view_kview w k a e : cb_view w k a e -> kview k e.
Proof. destruct e; cbn; auto. intros (_ & _ & _ & H). exact H. Qed.

Lemma kview_same k k' e : same_ctl_but P k k' -> kview k' e -> kview k e.
Proof.
  intros (K1 & K2 & K3 & _). destruct e as [w' r m v| |]; cbn [kview]; auto.
  rewrite K1, K2, K3. auto.
Qed.

Lemma deliver_kview w m s k :
  let '(s', k') := deliver P cfg orc w m (s, k) in
  same_ctl_but P k k' /\ exists l, tr P s' = l ++ tr P s /\ Forall (kview k) l.
Proof.
  pose proof (view_spec w m s k) as H. destruct (deliver P cfg orc w m (s, k)) as [s' k'].
  destruct H as (K & l & E & _ & V). split; [exact K|]. exists l. split; [exact E|].
  eapply Forall_impl; [|exact V]. intro e. apply cb_view_kview.
Qed.

(* ---- who made the request ---- *)
Theorem origin_spec_change origin d s k : can_change (k_kind P k) = true ->
  let '(s', k', res) := perform P cfg origin (AChange P d) (s, k) in
  request P (co P s') = {| t_origin := origin; t_dest := d; t_pay := None |} /\ k' = k /\ res = ROk P.
Proof.
  intro Hc. unfold perform. rewrite Hc. rewrite co_log_rec. cbn [upd_core co set_request request]. auto.
Qed.

Theorem origin_spec_change_with origin d p s k : can_change (k_kind P k) = true -> c_payload cfg = true ->
  let '(s', k', res) := perform P cfg origin (AChangeWith P d p) (s, k) in
  request P (co P s') = {| t_origin := origin; t_dest := d; t_pay := Some p |} /\ k' = k /\ res = ROk P.
Proof.
  intros Hc Hp. unfold perform. rewrite Hc, Hp. cbn [andb]. rewrite co_log_rec. cbn [upd_core co set_request request]. auto.
Qed.

(* without the right control, or without a payload type, nothing happens *)
Theorem change_refused origin d s k : can_change (k_kind P k) = false ->
  perform P cfg origin (AChange P d) (s, k) = (s, k, RIgnored P).
Proof. intro Hc. unfold perform. rewrite Hc. reflexivity. Qed.

Theorem change_with_refused origin d p s k : can_change (k_kind P k) && c_payload cfg = false ->
  perform P cfg origin (AChangeWith P d p) (s, k) = (s, k, RIgnored P).
Proof. intro Hc. unfold perform. rewrite Hc. reflexivity. Qed.

(* a callback's actions go through a control whose origin is the calling state (255 for the root) *)
Theorem invoke_origin w r m s k :
  invoke P cfg orc w r m (s, k) =
  perform_all P cfg (id_of w)
    (orc (tr P s) w r m (mk_view P cfg (id_of w) k (co P s)))
    (emit P (EvCb P w r m (mk_view P cfg (id_of w) k (co P s))) s, k).
Proof. reflexivity. Qed.

(* so a callback that ends by requesting a transition leaves a request that names it *)
Theorem invoke_records_caller w r m s k acts d :
  can_change (k_kind P k) = true ->
  orc (tr P s) w r m (mk_view P cfg (id_of w) k (co P s)) = acts ++ [AChange P d] ->
  request P (co P (fst (invoke P cfg orc w r m (s, k)))) = {| t_origin := id_of w; t_dest := d; t_pay := None |}.
Proof.
  intros Hc Ho. rewrite invoke_origin, Ho. unfold perform_all. rewrite fold_left_app. cbn [fold_left].
  pose proof (perform_all_fr P cfg PI HPI (id_of w) acts
                (emit P (EvCb P w r m (mk_view P cfg (id_of w) k (co P s))) s) k) as H.
  unfold perform_all in H.
  destruct (fold_left _ acts _) as [s1 k1].
  destruct H as (_ & K1 & _).
  { pose proof (Hwf (tr P s) w r m (mk_view P cfg (id_of w) k (co P s))) as W. rewrite Ho in W.
    apply Forall_app in W. exact (proj1 W). }
  assert (Hc1 : can_change (k_kind P k1) = true) by (rewrite K1; exact Hc).
  pose proof (origin_spec_change (id_of w) d s1 k1 Hc1) as H.
  destruct (perform P cfg (id_of w) (AChange P d) (s1, k1)) as [[s2 k2] res]. cbn [fst emit co].
  exact (proj1 H).
Qed.

Theorem invoke_records_caller_with w r m s k acts d p :
  can_change (k_kind P k) = true -> c_payload cfg = true ->
  orc (tr P s) w r m (mk_view P cfg (id_of w) k (co P s)) = acts ++ [AChangeWith P d p] ->
  request P (co P (fst (invoke P cfg orc w r m (s, k)))) = {| t_origin := id_of w; t_dest := d; t_pay := Some p |}.
Proof.
  intros Hc Hp Ho. rewrite invoke_origin, Ho. unfold perform_all. rewrite fold_left_app. cbn [fold_left].
  pose proof (perform_all_fr P cfg PI HPI (id_of w) acts
                (emit P (EvCb P w r m (mk_view P cfg (id_of w) k (co P s))) s) k) as H.
  unfold perform_all in H.
  destruct (fold_left _ acts _) as [s1 k1].
  destruct H as (_ & K1 & _).
  { pose proof (Hwf (tr P s) w r m (mk_view P cfg (id_of w) k (co P s))) as W. rewrite Ho in W.
    apply Forall_app in W. exact (proj1 W). }
  assert (Hc1 : can_change (k_kind P k1) = true) by (rewrite K1; exact Hc).
  pose proof (origin_spec_change_with (id_of w) d p s1 k1 Hc1 Hp) as H.
  destruct (perform P cfg (id_of w) (AChangeWith P d p) (s1, k1)) as [[s2 k2] res]. cbn [fst emit co].
  exact (proj1 H).
Qed.

(* ================================================================================================ *)
(* B. C05: the update / react cycle                                                                   *)
(* ================================================================================================ *)
Lemma region_phase_shape m post s k a :
  active P (co P s) = a -> a < n ->
  let '(s', k') := region_phase P cfg orc m post (s, k) in
  frT s s' /\ same_ctl_but P k k' /\
  exists l, tr P s' = l ++ tr P s /\
            delivs a (if post then [(St a, m); (Root, m)] else [(Root, m); (St a, m)]) l.
Proof.
  intros Ha Han. unfold region_phase. cbn [fst]. rewrite Ha, (leaf_spec cfg a Han).
  destruct post.
  - pose proof (deliver_fr (St a) m s k) as H1.
    destruct (deliver P cfg orc (St a) m (s, k)) as [s1 k1]. destruct H1 as (F1 & K1 & l1 & E1 & D1).
    rewrite Ha in D1.
    set (s1' := upd_plan P _ s1).
    assert (F1' : frT s s1').
    { eapply fr_trans; [exact (fr_any _ _ _ F1)|]. apply fr_upd_plan. intros; apply PI_statuses; assumption. }
    pose proof (deliver_fr Root m s1' k1) as H2.
    destruct (deliver P cfg orc Root m (s1', k1)) as [s2 k2]. destruct H2 as (F2 & K2 & l2 & E2 & D2).
    rewrite (fr_active _ _ _ F1'), Ha in D2.
    split; [|split].
    + eapply fr_trans; [exact F1'|]. eapply fr_trans; [exact (fr_any _ _ _ F2)|].
      apply fr_upd_plan. intros; apply PI_statuses; assumption.
    + destruct K1 as (a1 & b1 & c1 & d1). destruct K2 as (a2 & b2 & c2 & d2).
      repeat split; cbn [set_status k_kind k_cur k_pend k_cancelled]; try congruence. auto.
    + exists (l2 ++ l1). split.
      * cbn [upd_plan upd_core tr]. rewrite E2. subst s1'. cbn [upd_plan upd_core tr]. rewrite E1, app_assoc. reflexivity.
      * apply (delivs_app a [(St a, m)] [(Root, m)]); apply delivs_one; assumption.
  - pose proof (deliver_fr Root m s k) as H1.
    destruct (deliver P cfg orc Root m (s, k)) as [s1 k1]. destruct H1 as (F1 & K1 & l1 & E1 & D1).
    rewrite Ha in D1.
    set (s1' := upd_plan P _ s1).
    assert (F1' : frT s s1').
    { eapply fr_trans; [exact (fr_any _ _ _ F1)|]. apply fr_upd_plan. intros; apply PI_statuses; assumption. }
    pose proof (deliver_fr (St a) m s1' k1) as H2.
    destruct (deliver P cfg orc (St a) m (s1', k1)) as [s2 k2]. destruct H2 as (F2 & K2 & l2 & E2 & D2).
    rewrite (fr_active _ _ _ F1'), Ha in D2.
    split; [|split].
    + eapply fr_trans; [exact F1'|]. eapply fr_trans; [exact (fr_any _ _ _ F2)|].
      apply fr_upd_plan. intros; apply PI_statuses; assumption.
    + destruct K1 as (a1 & b1 & c1 & d1). destruct K2 as (a2 & b2 & c2 & d2).
      repeat split; cbn [set_status k_kind k_cur k_pend k_cancelled]; try congruence. auto.
    + exists (l2 ++ l1). split.
      * cbn [upd_plan upd_core tr]. rewrite E2. subst s1'. cbn [upd_plan upd_core tr]. rewrite E1, app_assoc. reflexivity.
      * apply (delivs_app a [(Root, m)] [(St a, m)]); apply delivs_one; assumption.
Qed.

(* C06 for a phase: both deliveries go through the same control *)
Lemma region_phase_kview m post s k :
  let '(s', k') := region_phase P cfg orc m post (s, k) in
  same_ctl_but P k k' /\ exists l, tr P s' = l ++ tr P s /\ Forall (kview k) l.
Proof.
  unfold region_phase. cbn [fst]. set (a := active P (co P s)).
  destruct post.
  - pose proof (deliver_kview (leaf cfg a) m s k) as H1.
    destruct (deliver P cfg orc (leaf cfg a) m (s, k)) as [s1 k1]. destruct H1 as (K1 & l1 & E1 & V1).
    set (s1' := upd_plan P _ s1).
    pose proof (deliver_kview Root m s1' k1) as H2.
    destruct (deliver P cfg orc Root m (s1', k1)) as [s2 k2]. destruct H2 as (K2 & l2 & E2 & V2).
    split.
    + destruct K1 as (a1 & b1 & c1 & d1). destruct K2 as (a2 & b2 & c2 & d2).
      repeat split; cbn [set_status k_kind k_cur k_pend k_cancelled]; try congruence. auto.
    + exists (l2 ++ l1). split.
      * cbn [upd_plan upd_core tr]. rewrite E2. subst s1'. cbn [upd_plan upd_core tr]. rewrite E1, app_assoc. reflexivity.
      * apply Forall_app. split; [|exact V1]. eapply Forall_impl; [|exact V2]. intro e. apply kview_same. exact K1.
  - pose proof (deliver_kview Root m s k) as H1.
    destruct (deliver P cfg orc Root m (s, k)) as [s1 k1]. destruct H1 as (K1 & l1 & E1 & V1).
    set (s1' := upd_plan P _ s1).
    pose proof (deliver_kview (leaf cfg a) m s1' k1) as H2.
    destruct (deliver P cfg orc (leaf cfg a) m (s1', k1)) as [s2 k2]. destruct H2 as (K2 & l2 & E2 & V2).
    split.
    + destruct K1 as (a1 & b1 & c1 & d1). destruct K2 as (a2 & b2 & c2 & d2).
      repeat split; cbn [set_status k_kind k_cur k_pend k_cancelled]; try congruence. auto.
    + exists (l2 ++ l1). split.
      * cbn [upd_plan upd_core tr]. rewrite E2. subst s1'. cbn [upd_plan upd_core tr]. rewrite E1, app_assoc. reflexivity.
      * apply Forall_app. split; [|exact V1]. eapply Forall_impl; [|exact V2]. intro e. apply kview_same. exact K1.
Qed.

(* the plan step of a cycle: only planSucceeded / planFailed of the root *)
Definition plan_ev (a : nat) : event -> Prop :=
  ev_ok a (fun w _ m => w = Root /\ (m = MPlanSucceeded \/ m = MPlanFailed)).

Lemma plan_ev_quiet a e : plan_ev a e -> qev P cfg a e.
Proof. apply ev_ok_weaken. intros w _ m (_ & [-> | ->]); reflexivity. Qed.

Lemma update_plan_shape st s k : cap <= 255 -> PI (plan P (co P s)) ->
  let '(s', k') := update_plan P cfg orc st (s, k) in fr (plan_ev (active P (co P s))) s s'.
Proof.
  intros Hc Hpi. unfold update_plan. destruct st.
  - apply fr_refl.
  - destruct (plan_nonempty P cap (plan P (co P s))) eqn:Ene.
    + unfold plan_nonempty in Ene. destruct (plan_indices_first P cfg _ Ene) as [r Er].
      pose proof (plan_scan_fr P cfg PI HPI (S cap) (first (pd_pl (plan P (co P s))))
                    (it_next P cap (plan P (co P s)) (first (pd_pl (plan P (co P s)))))
                    (ba_set_all (N.of_nat n) (ba_init (N.of_nat n))) s Hc Hpi) as F.
      pose proof (plan_scan_tcmask P cfg (S cap) (first (pd_pl (plan P (co P s)))) (it_next P cap (plan P (co P s)) (first (pd_pl (plan P (co P s)))))
                    (ba_set_all (N.of_nat n) (ba_init (N.of_nat n))) s (tm_full cfg)) as Htc.
      destruct (plan_scan P cfg (S cap) _ _ _ s) as [s1 tc]. cbn [fst] in F. cbn [snd] in Htc.
      eapply fr_trans.
      * eapply fr_weaken; [|apply F]. { intro e. apply noncb_ev_ok. }
        right. exists [], r. split; [exact Er|]. exact (proj2 (pio_next P cfg PI HPI _ [] _ r Hpi Er)).
      * apply fr_upd_plan. intros; apply PI_succ_and; assumption.
    + pose proof (deliver_fr Root MPlanSucceeded s (set_status P k SSuccess)) as H.
      destruct (deliver P cfg orc Root MPlanSucceeded _) as [s1 k1]. destruct H as (F & _ & _).
      eapply fr_trans.
      * eapply fr_weaken; [|exact F]. intro e. apply ev_ok_weaken. intros w _ m (-> & ->). split; [reflexivity|left; reflexivity].
      * apply fr_upd_plan. intros; apply PI_clear; assumption.
  - pose proof (deliver_fr Root MPlanFailed s (set_status P k SFailure)) as H.
    destruct (deliver P cfg orc Root MPlanFailed _) as [s1 k1]. destruct H as (F & _ & _).
    eapply fr_trans.
    * eapply fr_weaken; [|exact F]. intro e. apply ev_ok_weaken. intros w _ m (-> & ->). split; [reflexivity|right; reflexivity].
    * apply fr_upd_plan. intros; apply PI_clear; assumption.
Qed.

Lemma deep_update_plans_shape s k : cap <= 255 -> PI (plan P (co P s)) ->
  let '(s', k') := deep_update_plans P cfg orc (s, k) in fr (plan_ev (active P (co P s))) s s'.
Proof.
  intros Hc Hpi. unfold deep_update_plans. cbn [fst].
  destruct (st_bool _ && pd_exists _).
  - apply (update_plan_shape _ s k Hc Hpi).
  - apply fr_refl.
Qed.

(* R_::update / R_::react: the three phases (six deliveries) first, then the plan step, then the request *)
Theorem cycle_shape mpre mmid mpost s a :
  cap <= 255 -> active P (co P s) = a -> a < n -> requested P (co P s) = INVALID ->
  RW P cfg (co P s) -> PI (plan P (co P s)) ->
  let s' := cycle P cfg orc mpre mmid mpost s in
  SInv P cfg PI s' /\ active P (co P s') < n /\ logger P (co P s') = logger P (co P s) /\
  exists l_proc l_plan l_phase,
    tr P s' = l_proc ++ l_plan ++ l_phase ++ tr P s /\
    delivs a [(Root, mpre); (St a, mpre); (Root, mmid); (St a, mmid); (St a, mpost); (Root, mpost)] l_phase /\
    Forall (kview (mk_ctl P KFull (t_empty P) (t_empty P))) l_phase /\
    Forall (plan_ev a) l_plan /\ (c_plans cfg = false -> l_plan = []) /\
    life_shape P cfg a (active P (co P s')) l_proc.
Proof.
  intros Hc Ha Han Hq Hrw Hpi. unfold cycle.
  set (k0 := mk_ctl P KFull (t_empty P) (t_empty P)).
  pose proof (region_phase_shape mpre false s k0 a Ha Han) as H1.
  pose proof (region_phase_kview mpre false s k0) as V1.
  destruct (region_phase P cfg orc mpre false _) as [s1 k1]. destruct H1 as (F1 & K1 & l1 & E1 & D1).
  destruct V1 as (_ & l1' & E1' & V1).
  assert (l1' = l1) as -> by (rewrite E1 in E1'; apply app_inv_tail in E1'; congruence). clear E1'.
  assert (A1 : active P (co P s1) = a) by (rewrite (fr_active _ _ _ F1); exact Ha).
  pose proof (region_phase_shape mmid false s1 k1 a A1 Han) as H2.
  pose proof (region_phase_kview mmid false s1 k1) as V2.
  destruct (region_phase P cfg orc mmid false _) as [s2 k2]. destruct H2 as (F2 & K2 & l2 & E2 & D2).
  destruct V2 as (_ & l2' & E2' & V2).
  assert (l2' = l2) as -> by (rewrite E2 in E2'; apply app_inv_tail in E2'; congruence). clear E2'.
  assert (A2 : active P (co P s2) = a) by (rewrite (fr_active _ _ _ F2); exact A1).
  pose proof (region_phase_shape mpost true s2 k2 a A2 Han) as H3.
  pose proof (region_phase_kview mpost true s2 k2) as V3.
  destruct (region_phase P cfg orc mpost true _) as [s3 k3]. destruct H3 as (F3 & _ & l3 & E3 & D3).
  destruct V3 as (_ & l3' & E3' & V3).
  assert (l3' = l3) as -> by (rewrite E3 in E3'; apply app_inv_tail in E3'; congruence). clear E3'.
  assert (A3 : active P (co P s3) = a) by (rewrite (fr_active _ _ _ F3); exact A2).
  assert (V : Forall (kview k0) (l3 ++ l2 ++ l1)).
  { apply Forall_app. split; [|apply Forall_app; split; [|exact V1]].
    - eapply Forall_impl; [|exact V3]. intro e. apply kview_same. eapply same_ctl_trans; eassumption.
    - eapply Forall_impl; [|exact V2]. intro e. apply kview_same. exact K1. }
  pose proof (fr_trans _ _ _ _ F1 (fr_trans _ _ _ _ F2 F3)) as F13.
  assert (T3 : tr P s3 = (l3 ++ l2 ++ l1) ++ tr P s) by (rewrite E3, E2, E1, <- !app_assoc; reflexivity).
  assert (D : delivs a [(Root, mpre); (St a, mpre); (Root, mmid); (St a, mmid); (St a, mpost); (Root, mpost)] (l3 ++ l2 ++ l1)).
  { rewrite app_assoc.
    apply (delivs_app a [(Root, mpre); (St a, mpre)] [(Root, mmid); (St a, mmid); (St a, mpost); (Root, mpost)]); [exact D1|].
    apply (delivs_app a [(Root, mmid); (St a, mmid)] [(St a, mpost); (Root, mpost)]); assumption. }
  (* the request, after any plan step *)
  assert (Fin : forall (Q : list event -> Prop) s5 l_plan,
     frT s3 s5 -> tr P s5 = l_plan ++ tr P s3 -> Forall (plan_ev a) l_plan -> Q l_plan ->
     let s' := process_request P cfg orc s5 in
     SInv P cfg PI s' /\ active P (co P s') < n /\ logger P (co P s') = logger P (co P s) /\
     exists l_proc l_plan l_phase,
       tr P s' = l_proc ++ l_plan ++ l_phase ++ tr P s /\
       delivs a [(Root, mpre); (St a, mpre); (Root, mmid); (St a, mmid); (St a, mpost); (Root, mpost)] l_phase /\
       Forall (kview (mk_ctl P KFull (t_empty P) (t_empty P))) l_phase /\
       Forall (plan_ev a) l_plan /\ Q l_plan /\
       life_shape P cfg a (active P (co P s')) l_proc).
  { intros Q s5 l_plan F5 T5 Hlp Hnp.
    pose proof (fr_trans _ _ _ _ F13 F5) as F15.
    assert (A5 : active P (co P s5) = a) by (rewrite (fr_active _ _ _ F15); exact Ha).
    assert (Q5 : requested P (co P s5) = INVALID) by (rewrite (fr_requested _ _ _ F15); exact Hq).
    pose proof (process_request_spec P cfg orc PI HPI Hwf s5 a Hc A5 Han Q5 (fr_rw _ _ _ F15 Hrw) (fr_pi _ _ _ F15 Hpi)) as H6.
    cbv zeta in H6. destruct H6 as (I6 & N6 & L6 & l6 & E6 & S6).
    cbv zeta.
    split; [exact I6|]. split; [exact N6|]. split; [rewrite L6; exact (MachineFrame.fr_logger P cfg PI _ _ _ F15)|].
    exists l6, l_plan, (l3 ++ l2 ++ l1).
    split; [rewrite E6, T5, T3; reflexivity|]. split; [exact D|]. split; [exact V|]. split; [exact Hlp|]. split; [exact Hnp|exact S6]. }
  (* the plan step *)
  destruct (c_plans cfg).
  - pose proof (deep_update_plans_shape s3 k3 Hc (fr_pi _ _ _ F13 Hpi)) as H4.
    destruct (deep_update_plans P cfg orc (s3, k3)) as [s4 k4]. rewrite A3 in H4.
    destruct (fr_tr _ _ _ H4) as (lp & Ep & Hlp).
    apply (Fin (fun l => true = false -> l = []) (upd_plan P (pd_clear_region_statuses P) s4) lp).
    + eapply fr_trans; [exact (fr_any _ _ _ H4)|]. apply fr_upd_plan. intros; apply PI_statuses; assumption.
    + exact Ep.
    + exact Hlp.
    + discriminate.
  - apply (Fin (fun l => false = false -> l = []) s3 []).
    + apply fr_refl.
    + reflexivity.
    + constructor.
    + reflexivity.
Qed.

Definition update_phases (a : nat) : list (who * method) :=
  [(Root, MPreUpdate); (St a, MPreUpdate); (Root, MUpdate); (St a, MUpdate); (St a, MPostUpdate); (Root, MPostUpdate)].
Definition react_phases (a : nat) : list (who * method) :=
  [(Root, MPreReact); (St a, MPreReact); (Root, MReact); (St a, MReact); (St a, MPostReact); (Root, MPostReact)].

Theorem update_shape s a :
  cap <= 255 -> active P (co P s) = a -> a < n -> requested P (co P s) = INVALID ->
  RW P cfg (co P s) -> PI (plan P (co P s)) ->
  let s' := update P cfg orc s in
  SInv P cfg PI s' /\ active P (co P s') < n /\ logger P (co P s') = logger P (co P s) /\
  exists l_proc l_plan l_phase,
    tr P s' = l_proc ++ l_plan ++ l_phase ++ tr P s /\
    delivs a (update_phases a) l_phase /\
    Forall (kview (mk_ctl P KFull (t_empty P) (t_empty P))) l_phase /\
    Forall (plan_ev a) l_plan /\ (c_plans cfg = false -> l_plan = []) /\
    life_shape P cfg a (active P (co P s')) l_proc.
Proof. exact (cycle_shape MPreUpdate MUpdate MPostUpdate s a). Qed.

Theorem react_shape s a :
  cap <= 255 -> active P (co P s) = a -> a < n -> requested P (co P s) = INVALID ->
  RW P cfg (co P s) -> PI (plan P (co P s)) ->
  let s' := react P cfg orc s in
  SInv P cfg PI s' /\ active P (co P s') < n /\ logger P (co P s') = logger P (co P s) /\
  exists l_proc l_plan l_phase,
    tr P s' = l_proc ++ l_plan ++ l_phase ++ tr P s /\
    delivs a (react_phases a) l_phase /\
    Forall (kview (mk_ctl P KFull (t_empty P) (t_empty P))) l_phase /\
    Forall (plan_ev a) l_plan /\ (c_plans cfg = false -> l_plan = []) /\
    life_shape P cfg a (active P (co P s')) l_proc.
Proof. exact (cycle_shape MPreReact MReact MPostReact s a). Qed.

(* ---- consequences ---- *)
(* the methods that belong to applying a transition *)
Definition is_transition_method (m : method) : bool :=
  match m with MEntryGuard | MExitGuard | MEnter | MExit | MReenter => true | _ => false end.

(* what a phase event looks like: a callback of the root or of the state active at the start, of one of the
   three phase methods, seeing that state as the active one; or a log / action record *)
Definition phase_ev (a : nat) (mpre mmid mpost : method) : event -> Prop :=
  ev_ok a (fun w _ m => (w = Root \/ w = St a) /\ (m = mpre \/ m = mmid \/ m = mpost)).

(* (iii) no callback of an inactive state *)
Lemma phase_events a mpre mmid mpost l :
  delivs a [(Root, mpre); (St a, mpre); (Root, mmid); (St a, mmid); (St a, mpost); (Root, mpost)] l ->
  Forall (phase_ev a mpre mmid mpost) l.
Proof.
  intro H. eapply Forall_impl; [|exact (delivs_ev_ok _ _ _ H)].
  intro e. apply ev_ok_weaken. intros w _ m Hin. cbn [In] in Hin.
  destruct Hin as [E|[E|[E|[E|[E|[E|[]]]]]]]; inversion E; subst; auto 6.
Qed.

(* (ii) anything that is not a phase event (in particular every guard / exit / enter / reenter callback) among
   the events appended by the call is newer than the whole of the phase *)
Lemma suffix_is_older (Q : event -> Prop) (l_rest l_phase x y : list event) (e : event) :
  Forall Q l_phase -> ~ Q e -> x ++ e :: y = l_rest ++ l_phase -> exists y', y = y' ++ l_phase.
Proof.
  intros HQ Hne E. destruct (app_eq_app _ _ _ _ E) as (l & [[E1 E2]|[E1 E2]]).
  - exfalso. apply Hne. rewrite E2 in HQ. apply Forall_app in HQ. destruct HQ as [_ HQ].
    inversion HQ; assumption.
  - destruct l as [|e' l'].
    + exfalso. apply Hne. cbn [app] in E2. rewrite <- E2 in HQ. inversion HQ; assumption.
    + cbn [app] in E2. inversion E2. exists l'. reflexivity.
Qed.

Lemma transition_cb_not_phase a mpre mmid mpost w r m v :
  is_transition_method mpre = false -> is_transition_method mmid = false -> is_transition_method mpost = false ->
  is_transition_method m = true -> ~ phase_ev a mpre mmid mpost (EvCb P w r m v).
Proof.
  intros H1 H2 H3 Hm (( _ & [E|[E|E]]) & _); subst m; congruence.
Qed.

(* C05 for update(), as one statement about the events the call appends *)
Theorem update_cycle_order s a :
  cap <= 255 -> active P (co P s) = a -> a < n -> requested P (co P s) = INVALID ->
  RW P cfg (co P s) -> PI (plan P (co P s)) ->
  exists l_rest l_phase,
    tr P (update P cfg orc s) = l_rest ++ l_phase ++ tr P s /\
    (* (i) exactly once, in this order, each recipient of each delivery *)
    cbs l_phase = expected_cbs (update_phases a) /\
    (* (iii) only the root and the state active at the start *)
    Forall (phase_ev a MPreUpdate MUpdate MPostUpdate) l_phase /\
    (* (ii) the phase is older than every guard / exit / enter / reenter callback of the call *)
    (forall x y w r m v, x ++ EvCb P w r m v :: y = l_rest ++ l_phase -> is_transition_method m = true ->
                         exists y', y = y' ++ l_phase) /\
    (* C06: all of them through the one FullControl of the call, no current or pending transition *)
    Forall (kview (mk_ctl P KFull (t_empty P) (t_empty P))) l_phase.
Proof.
  intros Hc Ha Han Hq Hrw Hpi.
  destruct (update_shape s a Hc Ha Han Hq Hrw Hpi) as (_ & _ & _ & l_proc & l_plan & l_phase & E & D & V & _).
  exists (l_proc ++ l_plan), l_phase.
  split; [rewrite E, <- app_assoc; reflexivity|].
  split; [exact (delivs_cbs _ _ _ D)|].
  pose proof (phase_events _ _ _ _ _ D) as Hph.
  split; [exact Hph|]. split; [|exact V].
  intros x y w r m v Ex Hm.
  apply (suffix_is_older _ _ _ _ _ _ Hph (transition_cb_not_phase a MPreUpdate MUpdate MPostUpdate w r m v eq_refl eq_refl eq_refl Hm) Ex).
Qed.

Theorem react_cycle_order s a :
  cap <= 255 -> active P (co P s) = a -> a < n -> requested P (co P s) = INVALID ->
  RW P cfg (co P s) -> PI (plan P (co P s)) ->
  exists l_rest l_phase,
    tr P (react P cfg orc s) = l_rest ++ l_phase ++ tr P s /\
    cbs l_phase = expected_cbs (react_phases a) /\
    Forall (phase_ev a MPreReact MReact MPostReact) l_phase /\
    (forall x y w r m v, x ++ EvCb P w r m v :: y = l_rest ++ l_phase -> is_transition_method m = true ->
                         exists y', y = y' ++ l_phase) /\
    (* C06: all of them through the one FullControl of the call, no current or pending transition *)
    Forall (kview (mk_ctl P KFull (t_empty P) (t_empty P))) l_phase.
Proof.
  intros Hc Ha Han Hq Hrw Hpi.
  destruct (react_shape s a Hc Ha Han Hq Hrw Hpi) as (_ & _ & _ & l_proc & l_plan & l_phase & E & D & V & _).
  exists (l_proc ++ l_plan), l_phase.
  split; [rewrite E, <- app_assoc; reflexivity|].
  split; [exact (delivs_cbs _ _ _ D)|].
  pose proof (phase_events _ _ _ _ _ D) as Hph.
  split; [exact Hph|]. split; [|exact V].
  intros x y w r m v Ex Hm.
  apply (suffix_is_older _ _ _ _ _ _ Hph (transition_cb_not_phase a MPreReact MReact MPostReact w r m v eq_refl eq_refl eq_refl Hm) Ex).
Qed.

(* ---- query: ConstControl can do nothing ---- *)

Lemma perform_const origin a s k : k_kind P k = KConst -> perform P cfg origin a (s, k) = (s, k, RIgnored P).
Proof.
  intro Hk. unfold perform, can_change, can_plan. rewrite Hk.
  destruct a as [d|d p| |so|so|o d|o d p| |i]; reflexivity.
Qed.

Lemma perform_all_const origin acts : forall s k, k_kind P k = KConst ->
  co P (fst (perform_all P cfg origin acts (s, k))) = co P s /\ snd (perform_all P cfg origin acts (s, k)) = k.
Proof.
  unfold perform_all. induction acts as [|a acts IH]; intros s k Hk; cbn [fold_left].
  - split; reflexivity.
  - rewrite (perform_const origin a s k Hk). exact (IH (emit P (EvAct P a (RIgnored P)) s) k Hk).
Qed.

Lemma invoke_const w r m s k : k_kind P k = KConst ->
  co P (fst (invoke P cfg orc w r m (s, k))) = co P s /\ snd (invoke P cfg orc w r m (s, k)) = k.
Proof.
  intro Hk. unfold invoke.
  exact (perform_all_const (id_of w) _ (emit P (EvCb P w r m (mk_view P cfg (id_of w) k (co P s))) s) k Hk).
Qed.

Lemma deliver_const w m s k : k_kind P k = KConst ->
  co P (fst (deliver P cfg orc w m (s, k))) = co P s /\ snd (deliver P cfg orc w m (s, k)) = k.
Proof.
  intro Hk. unfold deliver.
  set (s1 := if logs cfg w m then log_rec P cfg (LMethod (id_of w) m) s else s).
  assert (C1 : co P s1 = co P s) by (subst s1; destruct (logs cfg w m); [apply co_log_rec|reflexivity]).
  destruct (exists_who cfg w); [|split; [exact C1|reflexivity]].
  rewrite <- C1. generalize s1. clear C1 s1.
  induction (deep_order m (inj_of cfg w)) as [|r rs IH]; intro s1; cbn [fold_left].
  - split; reflexivity.
  - destruct (delivers cfg w r m); [|apply IH].
    pose proof (invoke_const w r m s1 k Hk) as [C K].
    destruct (invoke P cfg orc w r m (s1, k)) as [s2 k2]. cbn [fst snd] in C, K. subst k2.
    rewrite <- C. apply IH.
Qed.

Theorem query_shape s a :
  active P (co P s) = a -> a < n ->
  co P (query P cfg orc s) = co P s /\
  exists l, tr P (query P cfg orc s) = l ++ tr P s /\ delivs a [(Root, MQuery); (St a, MQuery)] l.
Proof.
  intros Ha Han. unfold query.
  pose proof (deliver_const Root MQuery s (mk_ctl P KConst (t_empty P) (t_empty P)) eq_refl) as [C1 K1].
  pose proof (deliver_fr Root MQuery s (mk_ctl P KConst (t_empty P) (t_empty P))) as H1.
  destruct (deliver P cfg orc Root MQuery _) as [s1 k1]. cbn [fst snd] in C1, K1. subst k1.
  destruct H1 as (_ & _ & l1 & E1 & D1). rewrite Ha in D1.
  rewrite C1, Ha, (leaf_spec cfg a Han).
  pose proof (deliver_const (St a) MQuery s1 (mk_ctl P KConst (t_empty P) (t_empty P)) eq_refl) as [C2 _].
  pose proof (deliver_fr (St a) MQuery s1 (mk_ctl P KConst (t_empty P) (t_empty P))) as H2.
  destruct (deliver P cfg orc (St a) MQuery _) as [s2 k2]. cbn [fst] in *.
  destruct H2 as (_ & _ & l2 & E2 & D2). rewrite C1, Ha in D2.
  split; [rewrite C2; exact C1|].
  exists (l2 ++ l1). split; [rewrite E2, E1, app_assoc; reflexivity|].
  apply (delivs_app a [(Root, MQuery)] [(St a, MQuery)]); apply delivs_one; assumption.
Qed.

(* ================================================================================================ *)
(* D. C07: transition records (payload included) are moved whole                                      *)
(* ================================================================================================ *)
(* (i) R_::changeTo / RP_::changeWith: the request is exactly what was asked, origin 255 *)
Theorem change_to_spec d p s :
  let s' := change_to P cfg d p s in
  request P (co P s') = {| t_origin := INVALID; t_dest := d; t_pay := p |} /\
  active P (co P s') = active P (co P s) /\ requested P (co P s') = requested P (co P s) /\
  previous P (co P s') = previous P (co P s) /\ plan P (co P s') = plan P (co P s).
Proof. cbv zeta. unfold change_to. rewrite co_log_rec. cbn [upd_core co set_request request active requested previous plan]. auto. Qed.

(* (ii), (iii) one round of the substitution loop: the guards get the outstanding request, whole, as their
   pendingTransition; when the round survives, the same record becomes the currentTransition *)
Theorem transitions_loop_step f cur s :
  t_valid P (request P (co P s)) = true ->
  t_neq P cur (t_to P (t_dest P (request P (co P s)))) = true ->
  transitions_loop P cfg orc (S f) cur s =
    let pend := request P (co P s) in
    let s2 := upd_core P (fun c => set_request P c (t_clear P (request P c)))
                (upd_core P (fun c => set_requested P c (t_dest P pend)) s) in
    let '(s3, cancelled) := cancelled_by_guards P cfg orc cur pend s2 in
    if cancelled then transitions_loop P cfg orc f cur (upd_core P (fun c => set_requested P c (t_dest P cur)) s3)
    else transitions_loop P cfg orc f pend s3.
Proof. intros Hv Hn. cbn [transitions_loop]. rewrite Hv. unfold apply_request. rewrite Hn. reflexivity. Qed.

Theorem transitions_loop_same f cur s :
  t_valid P (request P (co P s)) = true ->
  t_neq P cur (t_to P (t_dest P (request P (co P s)))) = false ->
  transitions_loop P cfg orc (S f) cur s =
    transitions_loop P cfg orc f cur (upd_core P (fun c => set_request P c (t_clear P (request P c))) s).
Proof. intros Hv Hn. cbn [transitions_loop]. rewrite Hv. unfold apply_request. rewrite Hn. reflexivity. Qed.

Theorem transitions_loop_done f cur s :
  t_valid P (request P (co P s)) = false -> transitions_loop P cfg orc f cur s = (s, cur).
Proof. intro Hv. destruct f; cbn [transitions_loop]; [reflexivity|]. rewrite Hv. reflexivity. Qed.

Lemma deliver_guard_kview w m s k :
  let '(s', k', _) := deliver_guard P cfg orc w m (s, k) in
  same_ctl_but P k k' /\ exists l, tr P s' = l ++ tr P s /\ Forall (kview k) l.
Proof.
  unfold deliver_guard. pose proof (deliver_kview w m s k) as H.
  destruct (deliver P cfg orc w m (s, k)) as [s' k']. exact H.
Qed.

(* every guard of the round sees v_cur = cur and v_pend = pend, through a GuardControl *)
Theorem guards_view cur pend s :
  exists l, tr P (fst (cancelled_by_guards P cfg orc cur pend s)) = l ++ tr P s /\
            Forall (kview (mk_ctl P KGuard cur pend)) l.
Proof.
  unfold cancelled_by_guards.
  pose proof (deliver_guard_kview (leaf cfg (active P (co P s))) MExitGuard s (mk_ctl P KGuard cur pend)) as H1.
  destruct (deliver_guard P cfg orc _ MExitGuard _) as [[s1 k1] c1].
  destruct H1 as (K1 & l1 & E1 & V1).
  destruct c1; [exists l1; split; assumption|].
  pose proof (deliver_guard_kview (leaf cfg (requested P (co P s1))) MEntryGuard s1 k1) as H2.
  destruct (deliver_guard P cfg orc _ MEntryGuard _) as [[s2 k2] c2].
  destruct H2 as (K2 & l2 & E2 & V2). cbn [fst].
  exists (l2 ++ l1). split; [rewrite E2, E1, app_assoc; reflexivity|].
  apply Forall_app. split; [|exact V1].
  eapply Forall_impl; [|exact V2]. intro e. apply kview_same. exact K1.
Qed.

Corollary guards_see_pending cur pend s w r m v :
  In (EvCb P w r m v) (tr P (fst (cancelled_by_guards P cfg orc cur pend s))) ->
  In (EvCb P w r m v) (tr P s) \/ (v_kind P v = KGuard /\ v_cur P v = cur /\ v_pend P v = pend).
Proof.
  destruct (guards_view cur pend s) as (l & E & V). rewrite E. intro Hin.
  apply in_app_or in Hin. destruct Hin as [Hin|Hin]; [right|left; exact Hin].
  rewrite Forall_forall in V. exact (V _ Hin).
Qed.

(* (iv) exit / enter / reenter see the surviving transition as currentTransition, through a PlanControl *)
Lemma state_exit_kview w k s :
  exists l, tr P (state_exit P cfg orc w k s) = l ++ tr P s /\ Forall (kview k) l.
Proof.
  unfold state_exit. pose proof (deliver_kview w MExit s k) as H.
  destruct (deliver P cfg orc w MExit (s, k)) as [s1 k1]. destruct H as (_ & l & E & V).
  exists l. split; [|exact V]. destruct (exists_who cfg w); exact E.
Qed.

Theorem lifecycle_view cur s :
  exists l, tr P (deep_change_to_requested P cfg orc cur s) = l ++ tr P s /\
            Forall (kview (mk_ctl P KPlan cur (t_empty P))) l.
Proof.
  unfold deep_change_to_requested.
  destruct (negb (requested P (co P s) =? active P (co P s))).
  - destruct (state_exit_kview (leaf cfg (active P (co P s))) (mk_ctl P KPlan cur (t_empty P)) s) as (l1 & E1 & V1).
    set (s1 := state_exit P cfg orc _ _ s) in *.
    set (s2 := upd_core P _ s1).
    pose proof (deliver_kview (leaf cfg (active P (co P s2))) MEnter s2 (mk_ctl P KPlan cur (t_empty P))) as H2.
    destruct (deliver P cfg orc _ MEnter _) as [s3 k3]. destruct H2 as (_ & l2 & E2 & V2). cbn [fst].
    exists (l2 ++ l1). split; [rewrite E2; subst s2; cbn [upd_core tr]; rewrite E1, app_assoc; reflexivity|].
    apply Forall_app. split; assumption.
  - set (s1 := upd_core P _ s).
    pose proof (deliver_kview (leaf cfg (active P (co P s1))) MReenter s1 (mk_ctl P KPlan cur (t_empty P))) as H2.
    destruct (deliver P cfg orc _ MReenter _) as [s3 k3]. destruct H2 as (_ & l2 & E2 & V2). cbn [fst].
    exists l2. split; [exact E2|exact V2].
Qed.

Corollary lifecycle_sees_current cur s w r m v :
  In (EvCb P w r m v) (tr P (deep_change_to_requested P cfg orc cur s)) ->
  In (EvCb P w r m v) (tr P s) \/ (v_kind P v = KPlan /\ v_cur P v = cur).
Proof.
  destruct (lifecycle_view cur s) as (l & E & V). rewrite E. intro Hin.
  apply in_app_or in Hin. destruct Hin as [Hin|Hin]; [right|left; exact Hin].
  rewrite Forall_forall in V. destruct (V _ Hin) as (A & B & _). split; assumption.
Qed.

(* (v) previousTransition is the survivor of the loop, whole *)
Theorem process_transitions_cur s :
  snd (process_transitions P cfg orc s) = snd (transitions_loop P cfg orc (c_limit cfg) (t_empty P) s).
Proof. unfold process_transitions. destruct (transitions_loop P cfg orc (c_limit cfg) (t_empty P) s) as [s1 cur]. reflexivity. Qed.

Theorem process_request_previous s : c_history cfg = true ->
  previous P (co P (process_request P cfg orc s)) =
  if t_valid P (request P (co P s)) then snd (transitions_loop P cfg orc (c_limit cfg) (t_empty P) s) else t_empty P.
Proof.
  intro Hh. unfold process_request. rewrite Hh.
  destruct (t_valid P (request P (co P s))).
  - rewrite <- process_transitions_cur. destruct (process_transitions P cfg orc s) as [s1 cur]. reflexivity.
  - reflexivity.
Qed.

Theorem process_request_previous_kept s : c_history cfg = false ->
  process_request P cfg orc s = fst (if t_valid P (request P (co P s)) then process_transitions P cfg orc s else (s, t_empty P)).
Proof.
  intro Hh. unfold process_request. rewrite Hh.
  destruct (if t_valid P (request P (co P s)) then process_transitions P cfg orc s else (s, t_empty P)). reflexivity.
Qed.

(* the lifecycle callbacks of process_transitions get the survivor *)
Theorem process_transitions_unfold s :
  process_transitions P cfg orc s =
  (upd_core P (fun c => set_requested P c INVALID)
     (if t_valid P (snd (transitions_loop P cfg orc (c_limit cfg) (t_empty P) s))
      then deep_change_to_requested P cfg orc (snd (transitions_loop P cfg orc (c_limit cfg) (t_empty P) s))
             (fst (transitions_loop P cfg orc (c_limit cfg) (t_empty P) s))
      else fst (transitions_loop P cfg orc (c_limit cfg) (t_empty P) s)),
   snd (transitions_loop P cfg orc (c_limit cfg) (t_empty P) s)).
Proof. unfold process_transitions. destruct (transitions_loop P cfg orc (c_limit cfg) (t_empty P) s) as [s1 cur]. reflexivity. Qed.

(* (vii) a plan task that fires issues its origin, destination and payload as the request *)
Theorem plan_scan_fire_step f curr next tc s :
  (curr <? cap) = true ->
  let t := task_at P (plan P (co P s)) curr in
  registry_is_active P (co P s) (tk_origin t) = true ->
  ba_get (pd_succ (plan P (co P s))) (N.of_nat (tk_origin t)) = true ->
  exists s1 tc1,
    plan_scan P cfg (S f) curr next tc s = plan_scan P cfg f next (it_next P cap (plan P (co P s1)) next) tc1 s1 /\
    request P (co P s1) = {| t_origin := tk_origin t; t_dest := tk_dest t; t_pay := tk_payload t |} /\
    tr P s1 = tr P (log_rec P cfg (LTransition (tk_origin t) (tk_dest t)) s).
Proof.
  intros Hc t Ha Hs. cbn [plan_scan]. rewrite Hc. fold t. rewrite Ha, Hs.
  set (s1 := log_rec P cfg (LTransition (tk_origin t) (tk_dest t))
               (upd_core P (fun c => set_request P c {| t_origin := tk_origin t; t_dest := tk_dest t; t_pay := tk_payload t |}) s)).
  assert (R1 : request P (co P s1) = {| t_origin := tk_origin t; t_dest := tk_dest t; t_pay := tk_payload t |}).
  { subst s1. rewrite co_log_rec. reflexivity. }
  assert (T1 : tr P s1 = tr P (log_rec P cfg (LTransition (tk_origin t) (tk_dest t)) s)).
  { subst s1. unfold log_rec. cbn [upd_core co logger set_request].
    destruct (log_compiled cfg && logger P (co P s)); reflexivity. }
  destruct (tk_origin t =? tk_dest t).
  - eexists. eexists. split; [reflexivity|]. split; [exact R1|exact T1].
  - eexists. eexists. split; [reflexivity|]. split; [exact R1|exact T1].
Qed.

(* (vi) no payload is invented: any property Q of payloads that holds of "no payload" and of every payload the
   callbacks pass to changeWith holds of every payload a callback can see during processRequest (request,
   currentTransition, pendingTransition) and of the one left in previousTransition, provided it holds of the
   outstanding request's. With Q := (fun o => o = None): no changeWith, no payload anywhere. *)
Section Pay.
Variable Q : option P -> Prop.
Hypothesis QN : Q None.

Definition act_pay (a : action) : Prop := match a with AChangeWith _ _ p => Q (Some p) | _ => True end.
Definition orc_pay : Prop := forall t w r m v, Forall act_pay (orc t w r m v).
Hypothesis HQ : orc_pay.

Definition req_pay (s : mstate) : Prop := Q (t_pay P (request P (co P s))).
Definition pay_ev (e : event) : Prop :=
  match e with
  | EvCb _ _ _ _ v => Q (t_pay P (v_req P v)) /\ Q (t_pay P (v_cur P v)) /\ Q (t_pay P (v_pend P v))
  | _ => True
  end.
Definition ext (s s' : mstate) : Prop := exists l, tr P s' = l ++ tr P s /\ Forall pay_ev l.

Lemma ext_refl s : ext s s.
Proof. exists []. split; [reflexivity|constructor]. Qed.
Lemma ext_same s s' : tr P s' = tr P s -> ext s s'.
Proof. intro E. exists []. split; [exact E|constructor]. Qed.
Lemma ext_trans s1 s2 s3 : ext s1 s2 -> ext s2 s3 -> ext s1 s3.
Proof.
  intros (l1 & E1 & V1) (l2 & E2 & V2). exists (l2 ++ l1).
  split; [rewrite E2, E1, app_assoc; reflexivity|apply Forall_app; split; assumption].
Qed.
Lemma noncb_pay_ev e : noncb P e -> pay_ev e.
Proof. destruct e; cbn; intro H; auto; contradiction. Qed.

Lemma perform_pay origin a s k : act_pay a -> req_pay s -> req_pay (fst (fst (perform P cfg origin a (s, k)))).
Proof.
  intros Ha H. unfold req_pay in *. unfold perform.
  destruct a as [d|d p| |so|so|o d|o d p| |i]; cbn [act_pay] in Ha.
  - destruct (can_change (k_kind P k)); cbn [fst]; [|exact H]. rewrite co_log_rec. exact QN.
  - destruct (can_change (k_kind P k) && c_payload cfg); cbn [fst]; [|exact H]. rewrite co_log_rec. exact Ha.
  - destruct (k_kind P k); cbn [fst]; try exact H. rewrite co_log_rec. exact H.
  - destruct (can_change (k_kind P k) && c_plans cfg && negb (_ =? INVALID)); cbn [fst]; [|exact H].
    rewrite co_log_rec. exact H.
  - destruct (can_change (k_kind P k) && c_plans cfg && negb (_ =? INVALID)); cbn [fst]; [|exact H].
    rewrite co_log_rec. exact H.
  - destruct (can_plan cfg (k_kind P k)); [|exact H].
    destruct (plan_append P cap (plan P (co P s)) o d) as [pd ok]. exact H.
  - destruct (can_plan cfg (k_kind P k) && c_payload cfg); [|exact H].
    destruct (plan_append_with P cap (plan P (co P s)) o d p) as [pd ok]. exact H.
  - destruct (can_plan cfg (k_kind P k)); exact H.
  - destruct (can_plan cfg (k_kind P k)); [|exact H].
    destruct (plan_remove_at P cap (plan P (co P s)) i) as [pd seen]. exact H.
Qed.

Lemma perform_all_pay origin acts : forall s k, Forall act_pay acts -> req_pay s ->
  req_pay (fst (perform_all P cfg origin acts (s, k))).
Proof.
  unfold perform_all. induction acts as [|a acts IH]; intros s k Ha H; cbn [fold_left]; [exact H|].
  inversion Ha as [|? ? Ha1 Ha2]; subst.
  pose proof (perform_pay origin a s k Ha1 H) as H1.
  destruct (perform P cfg origin a (s, k)) as [[s1 k1] res]. cbn [fst] in H1.
  apply IH; [exact Ha2|exact H1].
Qed.

Lemma invoke_pay w r m s k :
  req_pay s -> Q (t_pay P (k_cur P k)) -> Q (t_pay P (k_pend P k)) ->
  let '(s', k') := invoke P cfg orc w r m (s, k) in req_pay s' /\ same_ctl_but P k k' /\ ext s s'.
Proof.
  intros H Hcur Hpend.
  pose proof (perform_all_pay (id_of w) (orc (tr P s) w r m (mk_view P cfg (id_of w) k (co P s)))
                (emit P (EvCb P w r m (mk_view P cfg (id_of w) k (co P s))) s) k (HQ _ _ _ _ _) H) as H1.
  change (perform_all P cfg (id_of w) _ _) with (invoke P cfg orc w r m (s, k)) in H1.
  pose proof (invoke_fr w r m s k) as H2.
  destruct (invoke P cfg orc w r m (s, k)) as [s' k']. cbn [fst] in H1.
  destruct H2 as (_ & K & l & E & N).
  split; [exact H1|]. split; [exact K|].
  exists (l ++ [EvCb P w r m (mk_view P cfg (id_of w) k (co P s))]).
  split; [rewrite E, <- app_assoc; reflexivity|].
  apply Forall_app. split.
  - eapply Forall_impl; [|exact N]. intro e. apply noncb_pay_ev.
  - constructor; [|constructor]. cbn [pay_ev mk_view v_req v_cur v_pend]. auto.
Qed.

Lemma deliver_pay w m s k :
  req_pay s -> Q (t_pay P (k_cur P k)) -> Q (t_pay P (k_pend P k)) ->
  let '(s', k') := deliver P cfg orc w m (s, k) in req_pay s' /\ same_ctl_but P k k' /\ ext s s'.
Proof.
  intros H Hcur Hpend. unfold deliver.
  set (s1 := if logs cfg w m then log_rec P cfg (LMethod (id_of w) m) s else s).
  assert (H1 : req_pay s1 /\ ext s s1).
  { subst s1. destruct (logs cfg w m); [|split; [exact H|apply ext_refl]].
    split; [unfold req_pay; rewrite co_log_rec; exact H|].
    unfold log_rec. destruct (log_compiled cfg && logger P (co P s)); [|apply ext_refl].
    exists [EvLog P (LMethod (id_of w) m)]. split; [reflexivity|]. constructor; [exact I|constructor]. }
  destruct H1 as [R1 X1].
  destruct (exists_who cfg w); [|split; [exact R1|split; [apply same_ctl_refl|exact X1]]].
  assert (G : forall rs s0 k0, req_pay s0 -> Q (t_pay P (k_cur P k0)) -> Q (t_pay P (k_pend P k0)) ->
     let '(s', k') := fold_left (fun sk r => if delivers cfg w r m then invoke P cfg orc w r m sk else sk) rs (s0, k0) in
     req_pay s' /\ same_ctl_but P k0 k' /\ ext s0 s').
  { induction rs as [|r rs IH]; intros s0 k0 R0 C0 P0; cbn [fold_left].
    - split; [exact R0|]. split; [apply same_ctl_refl|apply ext_refl].
    - destruct (delivers cfg w r m); [|apply IH; assumption].
      pose proof (invoke_pay w r m s0 k0 R0 C0 P0) as Hi.
      destruct (invoke P cfg orc w r m (s0, k0)) as [s2 k2]. destruct Hi as (R2 & K2 & X2).
      assert (C2 : Q (t_pay P (k_cur P k2))) by (destruct K2 as (_ & -> & _); exact C0).
      assert (P2 : Q (t_pay P (k_pend P k2))) by (destruct K2 as (_ & _ & -> & _); exact P0).
      specialize (IH s2 k2 R2 C2 P2).
      destruct (fold_left _ rs (s2, k2)) as [s' k']. destruct IH as (R3 & K3 & X3).
      split; [exact R3|]. split; [eapply same_ctl_trans; eassumption|eapply ext_trans; eassumption]. }
  specialize (G (deep_order m (inj_of cfg w)) s1 k R1 Hcur Hpend).
  destruct (fold_left _ _ (s1, k)) as [s' k']. destruct G as (R & K & X).
  split; [exact R|]. split; [exact K|eapply ext_trans; eassumption].
Qed.

Lemma cancelled_by_guards_pay cur pend s :
  req_pay s -> Q (t_pay P cur) -> Q (t_pay P pend) ->
  req_pay (fst (cancelled_by_guards P cfg orc cur pend s)) /\ ext s (fst (cancelled_by_guards P cfg orc cur pend s)).
Proof.
  intros H Hcur Hpend. unfold cancelled_by_guards, deliver_guard. cbn [snd].
  pose proof (deliver_pay (leaf cfg (active P (co P s))) MExitGuard s (mk_ctl P KGuard cur pend) H Hcur Hpend) as H1.
  destruct (deliver P cfg orc _ MExitGuard _) as [s1 k1]. destruct H1 as (R1 & K1 & X1).
  destruct (negb (k_cancelled P (mk_ctl P KGuard cur pend)) && k_cancelled P k1); [split; assumption|].
  assert (C1 : Q (t_pay P (k_cur P k1))) by (destruct K1 as (_ & -> & _); exact Hcur).
  assert (P1 : Q (t_pay P (k_pend P k1))) by (destruct K1 as (_ & _ & -> & _); exact Hpend).
  pose proof (deliver_pay (leaf cfg (requested P (co P s1))) MEntryGuard s1 k1 R1 C1 P1) as H2.
  destruct (deliver P cfg orc _ MEntryGuard _) as [s2 k2]. destruct H2 as (R2 & K2 & X2). cbn [fst].
  split; [exact R2|eapply ext_trans; eassumption].
Qed.

Lemma transitions_loop_pay : forall fuel cur s,
  req_pay s -> Q (t_pay P cur) ->
  let '(s', cur') := transitions_loop P cfg orc fuel cur s in req_pay s' /\ Q (t_pay P cur') /\ ext s s'.
Proof.
  induction fuel as [|f IH]; intros cur s H Hcur; cbn [transitions_loop].
  - split; [exact H|]. split; [exact Hcur|apply ext_refl].
  - destruct (t_valid P (request P (co P s))); [|split; [exact H|split; [exact Hcur|apply ext_refl]]].
    unfold apply_request.
    destruct (t_neq P cur (t_to P (t_dest P (request P (co P s))))).
    + set (s1 := upd_core P (fun c => set_requested P c (t_dest P (request P (co P s)))) s).
      set (s2 := upd_core P (fun c => set_request P c (t_clear P (request P c))) s1).
      assert (R2 : req_pay s2) by exact H.
      assert (Hp : Q (t_pay P (request P (co P s1)))) by exact H.
      destruct (cancelled_by_guards_pay cur (request P (co P s1)) s2 R2 Hcur Hp) as [R3 X3].
      destruct (cancelled_by_guards P cfg orc cur (request P (co P s1)) s2) as [s3 cancelled]. cbn [fst] in R3, X3.
      destruct cancelled.
      * specialize (IH cur (upd_core P (fun c => set_requested P c (t_dest P cur)) s3) R3 Hcur).
        destruct (transitions_loop P cfg orc f cur _) as [s' cur']. destruct IH as (R5 & C5 & X5).
        split; [exact R5|]. split; [exact C5|]. eapply ext_trans; [exact X3|exact X5].
      * specialize (IH (request P (co P s1)) s3 R3 Hp).
        destruct (transitions_loop P cfg orc f _ s3) as [s' cur']. destruct IH as (R5 & C5 & X5).
        split; [exact R5|]. split; [exact C5|]. eapply ext_trans; [exact X3|exact X5].
    + set (s1 := upd_core P (fun c => set_request P c (t_clear P (request P c))) s).
      assert (R1 : req_pay s1) by exact H.
      specialize (IH cur s1 R1 Hcur).
      destruct (transitions_loop P cfg orc f cur s1) as [s' cur']. exact IH.
Qed.

Lemma deep_change_to_requested_pay cur s :
  req_pay s -> Q (t_pay P cur) ->
  req_pay (deep_change_to_requested P cfg orc cur s) /\ ext s (deep_change_to_requested P cfg orc cur s).
Proof.
  intros H Hcur. unfold deep_change_to_requested.
  destruct (negb (requested P (co P s) =? active P (co P s))).
  - unfold state_exit.
    pose proof (deliver_pay (leaf cfg (active P (co P s))) MExit s (mk_ctl P KPlan cur (t_empty P)) H Hcur QN) as H1.
    destruct (deliver P cfg orc _ MExit _) as [s1 k1]. destruct H1 as (R1 & _ & X1).
    set (s1' := if exists_who cfg (leaf cfg (active P (co P s))) then upd_plan P _ s1 else s1).
    assert (H1' : req_pay s1' /\ ext s s1').
    { subst s1'. destruct (exists_who cfg _); split; assumption. }
    destruct H1' as [R1' X1'].
    set (s2 := upd_core P _ s1').
    assert (R2 : req_pay s2) by exact R1'.
    pose proof (deliver_pay (leaf cfg (active P (co P s2))) MEnter s2 (mk_ctl P KPlan cur (t_empty P)) R2 Hcur QN) as H3.
    destruct (deliver P cfg orc _ MEnter _) as [s3 k3]. destruct H3 as (R3 & _ & X3). cbn [fst].
    split; [exact R3|]. eapply ext_trans; [exact X1'|exact X3].
  - set (s1 := upd_core P _ s).
    assert (R1 : req_pay s1) by exact H.
    pose proof (deliver_pay (leaf cfg (active P (co P s1))) MReenter s1 (mk_ctl P KPlan cur (t_empty P)) R1 Hcur QN) as H3.
    destruct (deliver P cfg orc _ MReenter _) as [s3 k3]. destruct H3 as (R3 & _ & X3). cbn [fst].
    split; [exact R3|exact X3].
Qed.

Theorem process_request_pay s :
  req_pay s ->
  let s' := process_request P cfg orc s in
  req_pay s' /\ (c_history cfg = true -> Q (t_pay P (previous P (co P s')))) /\ ext s s'.
Proof.
  intro H. cbv zeta. unfold process_request.
  assert (Main : let '(s1, cur) := if t_valid P (request P (co P s)) then process_transitions P cfg orc s else (s, t_empty P) in
                 req_pay s1 /\ Q (t_pay P cur) /\ ext s s1).
  { destruct (t_valid P (request P (co P s))); [|split; [exact H|split; [exact QN|apply ext_refl]]].
    unfold process_transitions.
    pose proof (transitions_loop_pay (c_limit cfg) (t_empty P) s H QN) as H1.
    destruct (transitions_loop P cfg orc (c_limit cfg) (t_empty P) s) as [s1 cur]. destruct H1 as (R1 & C1 & X1).
    destruct (t_valid P cur).
    - destruct (deep_change_to_requested_pay cur s1 R1 C1) as [R2 X2].
      split; [exact R2|]. split; [exact C1|]. eapply ext_trans; [exact X1|exact X2].
    - split; [exact R1|]. split; [exact C1|exact X1]. }
  destruct (if t_valid P (request P (co P s)) then process_transitions P cfg orc s else (s, t_empty P)) as [s1 cur].
  destruct Main as (R1 & C1 & X1).
  destruct (c_history cfg).
  - split; [exact R1|]. split; [intros _; exact C1|exact X1].
  - split; [exact R1|]. split; [discriminate|exact X1].
Qed.
End Pay.

(* the special case named in C07: with no changeWith in the callbacks and no payload in the outstanding request,
   nobody sees a payload and none is left behind *)
Definition no_change_with : Prop :=
  forall t w r m v a, In a (orc t w r m v) -> match a with AChangeWith _ _ _ => False | _ => True end.

Theorem no_payload_invented s :
  no_change_with -> t_pay P (request P (co P s)) = None ->
  let s' := process_request P cfg orc s in
  t_pay P (request P (co P s')) = None /\
  (c_history cfg = true -> t_pay P (previous P (co P s')) = None) /\
  exists l, tr P s' = l ++ tr P s /\
    forall w r m v, In (EvCb P w r m v) l ->
      t_pay P (v_req P v) = None /\ t_pay P (v_cur P v) = None /\ t_pay P (v_pend P v) = None.
Proof.
  intros Hn Hr.
  assert (HQ : orc_pay (fun o => o = None)).
  { intros t w r m v. apply Forall_forall. intros a Hin. specialize (Hn t w r m v a Hin).
    destruct a; cbn [act_pay]; auto. contradiction. }
  destruct (process_request_pay (fun o => o = None) eq_refl HQ s Hr) as (R & Hp & l & E & V).
  cbv zeta. split; [exact R|]. split; [exact Hp|]. exists l. split; [exact E|].
  intros w r m v Hin. rewrite Forall_forall in V. exact (V _ Hin).
Qed.

(* and the API form: immediateChangeTo(d) without payload *)
Corollary immediate_change_no_payload d s :
  no_change_with ->
  let s' := immediate_change_to P cfg orc d None s in
  (c_history cfg = true -> t_pay P (previous P (co P s')) = None) /\
  exists l, tr P s' = l ++ tr P (change_to P cfg d None s) /\
    forall w r m v, In (EvCb P w r m v) l ->
      t_pay P (v_req P v) = None /\ t_pay P (v_cur P v) = None /\ t_pay P (v_pend P v) = None.
Proof.
  intro Hn. cbv zeta. unfold immediate_change_to.
  assert (Hr : t_pay P (request P (co P (change_to P cfg d None s))) = None).
  { destruct (change_to_spec d None s) as (-> & _). reflexivity. }
  destruct (no_payload_invented (change_to P cfg d None s) Hn Hr) as (_ & Hp & H). split; assumption.
Qed.

End C.


(* ================================================================================================ *)
(* E. non-vacuity: concrete machines, by computation                                                  *)
(* ================================================================================================ *)
Module Examples.
Definition ecfg : config :=
  {| c_n := 3; c_head := true; c_manual := false; c_limit := 4; c_cap := 4; c_payload := true;
     c_inj_root := 0; c_inj_state := 0; c_plans := true; c_serial := false; c_history := true;
     c_log := LOff; c_def_root := fun _ => true; c_def_state := fun _ => true |}.
Definition no_cond : cond := {| cd_occ := None; cd_mod := None; cd_pend := None; cd_cur := None; cd_active := None |}.
(* state 0's preUpdate asks for state 1 with payload 42; state 1's query tries to change to 2 *)
Definition etab : list (entry nat) :=
  [ {| e_who := WState 0; e_rec := ROwn; e_meth := Some MPreUpdate; e_cond := no_cond; e_acts := [AChangeWith nat 1 42] |};
    {| e_who := WState 1; e_rec := ROwn; e_meth := Some MQuery; e_cond := no_cond; e_acts := [AChange nat 2] |} ].
Definition eorc : oracle nat := table_oracle nat etab.

(* the oracle is in contract *)
Lemma eorc_wf : wf_oracle nat ecfg eorc.
Proof.
  intros t w r m v. unfold eorc, table_oracle, etab. cbn [find].
  destruct (entry_matches nat _ _ w r m v); cbn [e_acts].
  - constructor; [cbn; lia|constructor].
  - destruct (entry_matches nat _ _ w r m v); cbn [e_acts]; [|constructor].
    constructor; [cbn; lia|constructor].
Qed.

Definition s0 : mstate nat := construct nat ecfg eorc false.     (* automatic activation: state 0 is entered *)
Definition s1 : mstate nat := update nat ecfg eorc s0.
(* what a call appended *)
Definition appended (before after : mstate nat) : list (event nat) :=
  firstn (length (tr nat after) - length (tr nat before)) (tr nat after).
Definition views_of (w : who) (m : method) (l : list (event nat)) : list (view nat) :=
  flat_map (fun e => match e with
                     | EvCb _ w' _ m' v => if who_eqb w w' && method_eqb m m' then [v] else []
                     | _ => [] end) l.

Example ex_start : active nat (co nat s0) = 0 /\ requested nat (co nat s0) = INVALID.
Proof. vm_compute. split; reflexivity. Qed.

(* C05: the six phase callbacks, root first on the way in and last on the way out, all before the guards,
   the exit and the enter of the transition that preUpdate requested *)
Example ex_update_order :
  cbs nat (appended s0 s1) =
  [ (Root, Own, MPreUpdate); (St 0, Own, MPreUpdate); (Root, Own, MUpdate); (St 0, Own, MUpdate);
    (St 0, Own, MPostUpdate); (Root, Own, MPostUpdate);
    (St 0, Own, MExitGuard); (St 1, Own, MEntryGuard); (St 0, Own, MExit); (St 1, Own, MEnter) ].
Proof. vm_compute. reflexivity. Qed.

Example ex_update_phase_is_expected :
  firstn 6 (cbs nat (appended s0 s1)) = expected_cbs ecfg (update_phases 0).
Proof. vm_compute. reflexivity. Qed.

(* C06: during the phases of that update every callback sees state 0 as the active one, the request made by
   preUpdate shows up in the view of the very next callback, with the caller as its origin *)
Example ex_views_active :
  map (v_act nat) (views_of (St 0) MPostUpdate (appended s0 s1)) = [[true; false; false]] /\
  map (v_req nat) (views_of Root MUpdate (appended s0 s1)) = [{| t_origin := 0; t_dest := 1; t_pay := Some 42 |}] /\
  map (v_req nat) (views_of (St 0) MPreUpdate (appended s0 s1)) = [t_empty nat].
Proof. vm_compute. repeat split; reflexivity. Qed.

(* C07: payload 42 given to changeWith arrives in entryGuard's pendingTransition, in enter's currentTransition and in
   previousTransition, together with origin and destination *)
Example ex_payload_travels :
  map (v_pend nat) (views_of (St 1) MEntryGuard (appended s0 s1)) = [{| t_origin := 0; t_dest := 1; t_pay := Some 42 |}] /\
  map (v_pend nat) (views_of (St 0) MExitGuard (appended s0 s1)) = [{| t_origin := 0; t_dest := 1; t_pay := Some 42 |}] /\
  map (v_cur nat) (views_of (St 1) MEnter (appended s0 s1)) = [{| t_origin := 0; t_dest := 1; t_pay := Some 42 |}] /\
  map (v_cur nat) (views_of (St 0) MExit (appended s0 s1)) = [{| t_origin := 0; t_dest := 1; t_pay := Some 42 |}] /\
  previous nat (co nat s1) = {| t_origin := 0; t_dest := 1; t_pay := Some 42 |} /\
  active nat (co nat s1) = 1.
Proof. vm_compute. repeat split; reflexivity. Qed.

(* the API form: changeWith(2, 7) from outside, then the next update carries it the same way, origin 255 *)
Definition s2 : mstate nat := update nat ecfg eorc (change_to nat ecfg 2 (Some 7) s1).
Example ex_api_payload_travels :
  map (v_pend nat) (views_of (St 2) MEntryGuard (appended s1 s2)) = [{| t_origin := INVALID; t_dest := 2; t_pay := Some 7 |}] /\
  map (v_cur nat) (views_of (St 2) MEnter (appended s1 s2)) = [{| t_origin := INVALID; t_dest := 2; t_pay := Some 7 |}] /\
  previous nat (co nat s2) = {| t_origin := INVALID; t_dest := 2; t_pay := Some 7 |}.
Proof. vm_compute. repeat split; reflexivity. Qed.

(* query: root then the active state, and a ConstControl changes nothing although state 1's query tries *)
Definition s1q : mstate nat := query nat ecfg eorc s1.
Example ex_query :
  cbs nat (appended s1 s1q) = [(Root, Own, MQuery); (St 1, Own, MQuery)] /\
  co nat s1q = co nat s1 /\
  In (EvAct nat (AChange nat 2) (RIgnored nat)) (appended s1 s1q).
Proof. vm_compute. split; [reflexivity|]. split; [reflexivity|]. left. reflexivity. Qed.

(* a machine without a head: no root callbacks at all *)
Definition hcfg : config :=
  {| c_n := 3; c_head := false; c_manual := false; c_limit := 4; c_cap := 4; c_payload := true;
     c_inj_root := 0; c_inj_state := 0; c_plans := true; c_serial := false; c_history := true;
     c_log := LOff; c_def_root := fun _ => true; c_def_state := fun _ => true |}.
Definition h0 : mstate nat := construct nat hcfg eorc false.
Example ex_headless :
  cbs nat (tr nat (react nat hcfg eorc h0)) =
  [ (St 0, Own, MEntryGuard); (St 0, Own, MEnter); (St 0, Own, MPreReact); (St 0, Own, MReact); (St 0, Own, MPostReact) ] /\
  expected_cbs hcfg (react_phases 0) = [ (St 0, Own, MPreReact); (St 0, Own, MReact); (St 0, Own, MPostReact) ].
Proof. vm_compute. split; reflexivity. Qed.

(* injected bases: each delivery reaches the bases and the state itself once, in the order of the method *)
Definition icfg : config :=
  {| c_n := 2; c_head := true; c_manual := false; c_limit := 4; c_cap := 4; c_payload := false;
     c_inj_root := 1; c_inj_state := 2; c_plans := false; c_serial := false; c_history := false;
     c_log := LOff; c_def_root := fun _ => true; c_def_state := fun _ => true |}.
Definition i0 : mstate nat := construct nat icfg eorc false.
Definition i1 : mstate nat := update nat icfg eorc i0.
Example ex_injected :
  cbs nat (appended i0 i1) = expected_cbs icfg (update_phases 0) /\
  expected_cbs icfg (update_phases 0) =
  [ (Root, Inj 0, MPreUpdate); (Root, Own, MPreUpdate);
    (St 0, Inj 0, MPreUpdate); (St 0, Inj 1, MPreUpdate); (St 0, Own, MPreUpdate);
    (Root, Inj 0, MUpdate); (Root, Own, MUpdate);
    (St 0, Inj 0, MUpdate); (St 0, Inj 1, MUpdate); (St 0, Own, MUpdate);
    (St 0, Own, MPostUpdate); (St 0, Inj 1, MPostUpdate); (St 0, Inj 0, MPostUpdate);
    (Root, Own, MPostUpdate); (Root, Inj 0, MPostUpdate) ].
Proof. vm_compute. split; reflexivity. Qed.
End Examples.

Print Assumptions region_phase_shape.
Print Assumptions cycle_shape.
Print Assumptions update_cycle_order.
Print Assumptions react_cycle_order.
Print Assumptions query_shape.
Print Assumptions view_spec.
Print Assumptions view_act_agrees_with_instance.
Print Assumptions invoke_records_caller_with.
Print Assumptions transitions_loop_step.
Print Assumptions guards_see_pending.
Print Assumptions lifecycle_sees_current.
Print Assumptions process_request_previous.
Print Assumptions process_request_pay.
Print Assumptions no_payload_invented.
Print Assumptions immediate_change_no_payload.
Print Assumptions plan_scan_fire_step.
Print Assumptions Examples.ex_payload_travels.
Print Assumptions Examples.ex_injected.
