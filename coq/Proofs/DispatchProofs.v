From Coq Require Import List Arith Bool Lia.
From FFSM2 Require Import Model.Dispatch.
Import ListNotations.

Section D.
Variable T : Type.
Variable d : T.
Local Notation lower := (lower T).
Local Notation upper := (upper T).
Local Notation dispatch := (dispatch T).

Lemma lower_firstn : forall l half idx, lower half idx l = firstn (half - idx) l.
Proof.
  induction l as [|x r IH]; intros half idx; cbn [Dispatch.lower]; [rewrite firstn_nil; reflexivity|].
  rewrite IH. destruct (idx <? half) eqn:E.
  - apply Nat.ltb_lt in E. replace (half - idx) with (S (half - S idx)) by lia. reflexivity.
  - apply Nat.ltb_ge in E. replace (half - idx) with 0 by lia. replace (half - S idx) with 0 by lia. reflexivity.
Qed.
Lemma upper_skipn : forall l half idx, upper half idx l = skipn (half - idx) l.
Proof.
  induction l as [|x r IH]; intros half idx; cbn [Dispatch.upper]; [rewrite skipn_nil; reflexivity|].
  destruct (idx <? half) eqn:E.
  - apply Nat.ltb_lt in E. rewrite IH. replace (half - idx) with (S (half - S idx)) by lia. reflexivity.
  - apply Nat.ltb_ge in E. replace (half - idx) with 0 by lia. reflexivity.
Qed.

(* the two halves partition the list in order, whatever its length *)
Lemma halves_partition l : lower (length l / 2) 0 l ++ upper (length l / 2) 0 l = l.
Proof. rewrite lower_firstn, upper_skipn, Nat.sub_0_r. apply firstn_skipn. Qed.

(* for every list and every k below its length, dispatching prong k reaches the k-th element, and the
   leaf that runs carries STATE_ID = k (offsets nn, np make the statement inductive) *)
Theorem dispatch_spec : forall fuel l nn np k,
  length l <= fuel -> k < length l ->
  dispatch fuel nn np l (np + k) = Some (nn + k, nth k l d).
Proof.
  induction fuel as [|f IH]; intros l nn np k Hf Hk; [lia|].
  destruct l as [|x [|y r]]; [cbn in Hk; lia| |].
  - cbn in Hk. assert (k = 0) by lia. subst. cbn. rewrite Nat.add_0_r. reflexivity.
  - cbn [Dispatch.dispatch]. set (l := x :: y :: r) in *. set (h := length l / 2).
    assert (Hl : 2 <= length l) by (subst l; cbn; lia).
    assert (Hh : 1 <= h /\ h < length l).
    { subst h. split; [apply Nat.div_le_lower_bound; lia|apply Nat.div_lt; lia]. }
    rewrite lower_firstn, upper_skipn, !Nat.sub_0_r.
    destruct (np + k <? np + h) eqn:E.
    + apply Nat.ltb_lt in E. assert (k < h) by lia.
      rewrite (IH (firstn h l) nn np k).
      * f_equal. f_equal. rewrite <- (firstn_skipn h l) at 2. rewrite app_nth1; [reflexivity|]. rewrite firstn_length. lia.
      * rewrite firstn_length. subst l. cbn [length] in *. lia.
      * rewrite firstn_length. lia.
    + apply Nat.ltb_ge in E. assert (h <= k) by lia.
      replace (np + k) with ((np + h) + (k - h)) by lia.
      rewrite (IH (skipn h l) (nn + h) (np + h) (k - h)).
      * f_equal. f_equal; [lia|]. rewrite <- (firstn_skipn h l) at 2. rewrite app_nth2; rewrite firstn_length; [|lia].
        f_equal. lia.
      * rewrite skipn_length. subst l. cbn [length] in *. lia.
      * rewrite skipn_length. lia.
Qed.

Corollary dispatch_root l k : k < length l -> dispatch (length l) 0 0 l k = Some (k, nth k l d).
Proof. intros H. apply (dispatch_spec (length l) l 0 0 k (le_n _) H). Qed.

(* an out-of-range prong (e.g. INVALID) lands on the last state, as in the C++ (no bounds check) *)
Lemma dispatch_total : forall fuel l nn np prong, l <> [] -> length l <= fuel ->
  exists r, dispatch fuel nn np l prong = Some r.
Proof.
  induction fuel as [|f IH]; intros l nn np prong Hne Hf.
  - destruct l; [congruence|cbn in Hf; lia].
  - destruct l as [|x [|y r]]; [congruence|eexists; reflexivity|].
    cbn [Dispatch.dispatch]. set (l := x :: y :: r) in *. set (h := length l / 2).
    assert (Hl : 2 <= length l) by (subst l; cbn; lia).
    assert (Hh : 1 <= h /\ h < length l).
    { subst h. split; [apply Nat.div_le_lower_bound; lia|apply Nat.div_lt; lia]. }
    rewrite lower_firstn, upper_skipn, !Nat.sub_0_r.
    destruct (prong <? np + h); apply IH.
    + intro E. apply (f_equal (@length T)) in E. rewrite firstn_length in E. cbn [length] in E. lia.
    + rewrite firstn_length. subst l. cbn [length] in *. lia.
    + intro E. apply (f_equal (@length T)) in E. rewrite skipn_length in E. cbn [length] in E. lia.
    + rewrite skipn_length. subst l. cbn [length] in *. lia.
Qed.

(* stateId<T>(): the zero-based position in the declaration *)
Variable eqb : T -> T -> bool.
Hypothesis eqb_spec : forall x y, eqb x y = true <-> x = y.
Local Notation find_impl := (find_impl T eqb).

Lemma find_impl_spec : forall l k0 k, NoDup l -> k < length l -> find_impl k0 (nth k l d) l = k0 + k.
Proof.
  induction l as [|y r IH]; intros k0 k Hnd Hk; [cbn in Hk; lia|].
  apply NoDup_cons_iff in Hnd. destruct Hnd as [Hy Hnd].
  destruct k as [|k]; cbn [nth Dispatch.find_impl].
  - replace (eqb y y) with true by (symmetry; apply eqb_spec; reflexivity). lia.
  - cbn [length] in Hk. destruct (eqb (nth k r d) y) eqn:E.
    + apply eqb_spec in E. exfalso. apply Hy. rewrite <- E. apply nth_In. lia.
    + rewrite IH by (auto; lia). lia.
Qed.
Theorem state_id_spec l k : NoDup l -> k < length l -> state_id T eqb l (nth k l d) = k.
Proof. intros. unfold state_id. rewrite find_impl_spec by assumption. reflexivity. Qed.
Lemma find_impl_absent : forall l k0 x, ~ In x l -> find_impl k0 x l = 255.
Proof.
  induction l as [|y r IH]; intros k0 x Hn; [reflexivity|]. cbn [Dispatch.find_impl].
  destruct (eqb x y) eqn:E; [apply eqb_spec in E; subst; exfalso; apply Hn; left; reflexivity|].
  apply IH. intro H. apply Hn. right. exact H.
Qed.
End D.
