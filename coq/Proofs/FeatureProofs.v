(* C19: enabling a feature that a program does not use never changes that program's observable behaviour.
   The compile-time switches c_serial (FFSM2_ENABLE_SERIALIZATION), c_history (FFSM2_ENABLE_TRANSITION_HISTORY)
   and c_plans (FFSM2_ENABLE_PLANS) of Model/Machine.v, each compared on and off for a program (oracle + API
   operations) that stays away from the feature; the log switch is Proofs/LogProofs.v, whose technique
   (a projection that commutes with every model function, bottom-up) is used throughout.
   (1) Serialization: no model function reads c_serial; only [observe] does, and only for o_ser
       (serial_step, serial_run, serial_run_rets, serial_observe).
   (2) Transition history: [strip_h] (forget previousTransition) commutes with every model function, the
       right-hand side compiled without history; operations other than replayEnter/replayTransition
       (history_step, history_run, history_run_rets, history_run_on_off, history_irrelevant, history_observe).
   (3) Plans, for a program whose callbacks perform no plan action ([no_plan_oracle]) and whose client calls no plan
       operation ([no_plan_op]), given TASK_CAPACITY <= 255:
       - from the plan data as constructed the run with plans compiled in IS the run with plans compiled out,
         plan data included (plans_step, plans_run_from, plans_run, plans_run_observe);
       - from any idle plan data ([PlanIdle]) it stays idle, and everything but the plan data is as with
         plans compiled out, whatever plan data that side carries (plans_step_idle, plans_run_from_idle,
         plans_off_plan_data_irrelevant); deepUpdatePlans does nothing (deep_update_plans_idle).
   (4) All 2^3 x 3 combinations of (plans, serial, history, log mode) with any logger attachment:
       features_transparent, features_irrelevant, features_irrelevant_observable. *)
From Coq Require Import List Arith Bool NArith Lia.
From FFSM2 Require Import Model.TaskList Model.BitArray Model.Plan Model.Ancestors Model.Dispatch
                          Model.Bits Model.BitStream Model.Machine Model.Script Proofs.LogProofs.
Import ListNotations.

(* the values the API calls return, one per operation *)
Fixpoint rets_from (P : Type) (cfg : config) (orc : oracle P) (s : mstate P) (ops : list (api_op P)) : list (api_ret P) :=
  match ops with
  | [] => []
  | op :: ops' => snd (step P cfg orc s op) :: rets_from P cfg orc (fst (step P cfg orc s op)) ops'
  end.
Definition run_rets (P : Type) (cfg : config) (orc : oracle P) (lg : bool) (ops : list (api_op P)) : list (api_ret P) :=
  rets_from P cfg orc (construct P cfg orc lg) ops.


(* ================= (1) serialization ================= *)
Definition with_serial (c : config) (b : bool) : config :=
  {| c_n := c_n c; c_head := c_head c; c_manual := c_manual c; c_limit := c_limit c; c_cap := c_cap c;
     c_payload := c_payload c; c_inj_root := c_inj_root c; c_inj_state := c_inj_state c;
     c_plans := c_plans c; c_serial := b; c_history := c_history c; c_log := c_log c;
     c_def_root := c_def_root c; c_def_state := c_def_state c |}.

Lemma fold_left_ext {A B} (F G : A -> B -> A) :
  (forall x b, F x b = G x b) -> forall l x, fold_left F l x = fold_left G l x.
Proof. intros H l. induction l as [|b l IH]; intros x; cbn [fold_left]; [reflexivity|]. rewrite H. apply IH. Qed.

(* destruct the scrutinee of an innermost match of the goal (both sides read the same after rewriting) *)
Ltac no_match x := lazymatch x with context [match _ with _ => _ end] => fail | _ => idtac end.
Ltac split_match :=
  match goal with
  | |- context [match ?x with _ => _ end] => no_match x; destruct x
  end.

Section Serial.
Variable P : Type.
Variable cfg : config.
Variable b : bool.
Local Notation cfgS := (with_serial cfg b).
Variable orc : oracle P.

Ltac cfgnorm :=
  change (c_n cfgS) with (c_n cfg); change (c_head cfgS) with (c_head cfg);
  change (c_manual cfgS) with (c_manual cfg); change (c_limit cfgS) with (c_limit cfg);
  change (c_cap cfgS) with (c_cap cfg); change (c_payload cfgS) with (c_payload cfg);
  change (c_plans cfgS) with (c_plans cfg); change (c_history cfgS) with (c_history cfg);
  change (can_plan cfgS) with (can_plan cfg); change (exists_who cfgS) with (exists_who cfg);
  change (delivers cfgS) with (delivers cfg); change (inj_of cfgS) with (inj_of cfg);
  change (logs cfgS) with (logs cfg); change (log_rec P cfgS) with (log_rec P cfg);
  change (leaf cfgS) with (leaf cfg); change (mk_view P cfgS) with (mk_view P cfg);
  change (width_bits cfgS) with (width_bits cfg); change (perform P cfgS) with (perform P cfg).

Lemma ser_perform_all origin acts sk : perform_all P cfgS origin acts sk = perform_all P cfg origin acts sk.
Proof. reflexivity. Qed.

Lemma ser_invoke w r m sk : invoke P cfgS orc w r m sk = invoke P cfg orc w r m sk.
Proof. reflexivity. Qed.

Lemma ser_deliver w m sk : deliver P cfgS orc w m sk = deliver P cfg orc w m sk.
Proof. reflexivity. Qed.
Lemma ser_deliver_guard w m sk : deliver_guard P cfgS orc w m sk = deliver_guard P cfg orc w m sk.
Proof. reflexivity. Qed.
Lemma ser_region_phase m post sk : region_phase P cfgS orc m post sk = region_phase P cfg orc m post sk.
Proof. reflexivity. Qed.

Lemma ser_plan_scan fuel curr next tc s : plan_scan P cfgS fuel curr next tc s = plan_scan P cfg fuel curr next tc s.
Proof. reflexivity. Qed.
Lemma ser_update_plan st sk : update_plan P cfgS orc st sk = update_plan P cfg orc st sk.
Proof. reflexivity. Qed.
Lemma ser_deep_update_plans sk : deep_update_plans P cfgS orc sk = deep_update_plans P cfg orc sk.
Proof. reflexivity. Qed.
Lemma ser_cancelled_by_guards cur pend s : cancelled_by_guards P cfgS orc cur pend s = cancelled_by_guards P cfg orc cur pend s.
Proof. reflexivity. Qed.
Lemma ser_cancelled_by_entry_guards cur pend s : cancelled_by_entry_guards P cfgS orc cur pend s = cancelled_by_entry_guards P cfg orc cur pend s.
Proof. reflexivity. Qed.
Lemma ser_state_exit w k s : state_exit P cfgS orc w k s = state_exit P cfg orc w k s.
Proof. reflexivity. Qed.
Lemma ser_deep_enter cur s : deep_enter P cfgS orc cur s = deep_enter P cfg orc cur s.
Proof. reflexivity. Qed.
Lemma ser_transitions_loop fuel cur s : transitions_loop P cfgS orc fuel cur s = transitions_loop P cfg orc fuel cur s.
Proof. reflexivity. Qed.
Lemma ser_initial_loop fuel cur s : initial_loop P cfgS orc fuel cur s = initial_loop P cfg orc fuel cur s.
Proof. reflexivity. Qed.
Lemma ser_initial_enter s : initial_enter P cfgS orc s = initial_enter P cfg orc s.
Proof. reflexivity. Qed.

Hint Rewrite ser_deliver ser_deliver_guard ser_region_phase ser_plan_scan ser_update_plan ser_deep_update_plans
  ser_cancelled_by_guards ser_cancelled_by_entry_guards ser_state_exit ser_deep_enter ser_transitions_loop
  ser_initial_loop ser_initial_enter : ser.
Ltac ser_go := cfgnorm; repeat (autorewrite with ser; try split_match); try reflexivity.

Lemma ser_deep_change_to_requested cur s :
  deep_change_to_requested P cfgS orc cur s = deep_change_to_requested P cfg orc cur s.
Proof. unfold deep_change_to_requested. ser_go. Qed.
Hint Rewrite ser_deep_change_to_requested : ser.
Lemma ser_deep_exit s : deep_exit P cfgS orc s = deep_exit P cfg orc s.
Proof. unfold deep_exit. ser_go. Qed.
Hint Rewrite ser_deep_exit : ser.
Lemma ser_process_transitions s : process_transitions P cfgS orc s = process_transitions P cfg orc s.
Proof. unfold process_transitions. ser_go. Qed.
Hint Rewrite ser_process_transitions : ser.
Lemma ser_process_request s : process_request P cfgS orc s = process_request P cfg orc s.
Proof. unfold process_request. ser_go. Qed.
Hint Rewrite ser_process_request : ser.
Lemma ser_final_exit s : final_exit P cfgS orc s = final_exit P cfg orc s.
Proof. unfold final_exit. ser_go. Qed.
Hint Rewrite ser_final_exit : ser.
Lemma ser_cycle m1 m2 m3 s : cycle P cfgS orc m1 m2 m3 s = cycle P cfg orc m1 m2 m3 s.
Proof. unfold cycle. ser_go. Qed.
Lemma ser_update s : update P cfgS orc s = update P cfg orc s.
Proof. apply ser_cycle. Qed.
Lemma ser_react s : react P cfgS orc s = react P cfg orc s.
Proof. apply ser_cycle. Qed.
Lemma ser_query s : query P cfgS orc s = query P cfg orc s.
Proof. unfold query. ser_go. Qed.
Lemma ser_immediate_change_to d p s : immediate_change_to P cfgS orc d p s = immediate_change_to P cfg orc d p s.
Proof. unfold immediate_change_to. change (change_to P cfgS) with (change_to P cfg). ser_go. Qed.
Lemma ser_replay_transition d s : replay_transition P cfgS orc d s = replay_transition P cfg orc d s.
Proof. unfold replay_transition. ser_go. Qed.
Lemma ser_replay_enter d s : replay_enter P cfgS orc d s = replay_enter P cfg orc d s.
Proof. unfold replay_enter. ser_go. Qed.
Lemma ser_base_load buf cu s : base_load P cfgS orc buf cu s = base_load P cfg orc buf cu s.
Proof. unfold base_load. ser_go. Qed.
Lemma ser_load_enter buf cu s : load_enter P cfgS orc buf cu s = load_enter P cfg orc buf cu s.
Proof. unfold load_enter. ser_go. Qed.
Hint Rewrite ser_base_load ser_load_enter : ser.
Lemma ser_load buf s : load P cfgS orc buf s = load P cfg orc buf s.
Proof. unfold load. ser_go. Qed.
Lemma ser_api_plan_op a s : api_plan_op P cfgS a s = api_plan_op P cfg a s.
Proof. reflexivity. Qed.

Theorem serial_step s op : step P cfgS orc s op = step P cfg orc s op.
Proof.
  destruct op; cbn [step];
    rewrite ?ser_initial_enter, ?ser_final_exit, ?ser_query, ?ser_immediate_change_to, ?ser_load,
      ?ser_replay_enter, ?ser_replay_transition, ?ser_api_plan_op, ?ser_update, ?ser_react; reflexivity.
Qed.

Theorem serial_run_from ops : forall s, run_from P cfgS orc s ops = run_from P cfg orc s ops.
Proof.
  unfold run_from. induction ops as [|op ops IH]; intros s; cbn [fold_left]; [reflexivity|].
  rewrite serial_step. apply IH.
Qed.

Theorem serial_construct lg : construct P cfgS orc lg = construct P cfg orc lg.
Proof. unfold construct. cbn zeta. cfgnorm. rewrite ser_initial_enter. reflexivity. Qed.

Theorem serial_run lg ops : run P cfgS orc lg ops = run P cfg orc lg ops.
Proof. unfold run. rewrite serial_construct. apply serial_run_from. Qed.

Theorem serial_rets_from ops : forall s, rets_from P cfgS orc s ops = rets_from P cfg orc s ops.
Proof.
  induction ops as [|op ops IH]; intros s; cbn [rets_from]; [reflexivity|].
  rewrite serial_step, IH. reflexivity.
Qed.

Theorem serial_run_rets lg ops : run_rets P cfgS orc lg ops = run_rets P cfg orc lg ops.
Proof. unfold run_rets. rewrite serial_construct. apply serial_rets_from. Qed.

Theorem serial_destroy s : destroy P cfgS orc s = destroy P cfg orc s.
Proof. unfold destroy. cfgnorm. rewrite ser_final_exit. reflexivity. Qed.

(* the observation differs in the serialized bytes only *)
Theorem serial_observe c :
  observe P cfgS c =
  {| o_active := o_active P (observe P cfg c); o_on := o_on P (observe P cfg c); o_act := o_act P (observe P cfg c);
     o_request := o_request P (observe P cfg c); o_prev := o_prev P (observe P cfg c);
     o_plan := o_plan P (observe P cfg c); o_first := o_first P (observe P cfg c); o_last := o_last P (observe P cfg c);
     o_ser := if b then save P cfg c else [] |}.
Proof. reflexivity. Qed.
End Serial.
(* ================= (2) transition history ================= *)
Definition with_history (c : config) (b : bool) : config :=
  {| c_n := c_n c; c_head := c_head c; c_manual := c_manual c; c_limit := c_limit c; c_cap := c_cap c;
     c_payload := c_payload c; c_inj_root := c_inj_root c; c_inj_state := c_inj_state c;
     c_plans := c_plans c; c_serial := c_serial c; c_history := b; c_log := c_log c;
     c_def_root := c_def_root c; c_def_state := c_def_state c |}.

Lemma with_history_same c : with_history c (c_history c) = c.
Proof. destruct c; reflexivity. Qed.

Section History.
Variable P : Type.

(* forget previousTransition; the trace is untouched *)
Definition strip_h (s : mstate P) : mstate P := upd_core P (fun c => set_previous P c (t_empty P)) s.
Definition hP {A} (p : mstate P * A) : mstate P * A := (strip_h (fst p), snd p).
Definition h3 {A B} (p : mstate P * A * B) : mstate P * A * B := (hP (fst p), snd p).

(* a program that does not use the history API *)
Definition no_history_op (op : api_op P) : Prop :=
  match op with OReplayEnter _ _ | OReplayTransition _ _ => False | _ => True end.

Lemma strip_h_idem s : strip_h (strip_h s) = strip_h s.
Proof. reflexivity. Qed.
Lemma tr_strip_h s : tr P (strip_h s) = tr P s.
Proof. reflexivity. Qed.
Lemma active_strip_h s : active P (co P (strip_h s)) = active P (co P s).
Proof. reflexivity. Qed.
Lemma requested_strip_h s : requested P (co P (strip_h s)) = requested P (co P s).
Proof. reflexivity. Qed.
Lemma request_strip_h s : request P (co P (strip_h s)) = request P (co P s).
Proof. reflexivity. Qed.
Lemma plan_strip_h s : plan P (co P (strip_h s)) = plan P (co P s).
Proof. reflexivity. Qed.
Lemma logger_strip_h s : logger P (co P (strip_h s)) = logger P (co P s).
Proof. reflexivity. Qed.
Lemma previous_strip_h s : previous P (co P (strip_h s)) = t_empty P.
Proof. reflexivity. Qed.
Lemma ria_strip_h s : registry_is_active P (co P (strip_h s)) = registry_is_active P (co P s).
Proof. reflexivity. Qed.
Lemma mia_strip_h s : machine_is_active P (co P (strip_h s)) = machine_is_active P (co P s).
Proof. reflexivity. Qed.
Lemma sps_strip_h s : state_plan_status P (co P (strip_h s)) = state_plan_status P (co P s).
Proof. reflexivity. Qed.
Lemma emit_strip_h e s : emit P e (strip_h s) = strip_h (emit P e s).
Proof. reflexivity. Qed.
Lemma upd_core_strip_h f s :
  (forall c, set_previous P (f c) (t_empty P) = f (set_previous P c (t_empty P))) ->
  upd_core P f (strip_h s) = strip_h (upd_core P f s).
Proof. intros H. unfold strip_h, upd_core. cbn [co tr]. rewrite H. reflexivity. Qed.
Lemma upd_plan_strip_h g s : upd_plan P g (strip_h s) = strip_h (upd_plan P g s).
Proof. reflexivity. Qed.
(* whatever is written to previousTransition is forgotten *)
Lemma strip_h_set_previous f s :
  (forall c, set_previous P (f c) (t_empty P) = set_previous P c (t_empty P)) ->
  strip_h (upd_core P f s) = strip_h s.
Proof. intros H. unfold strip_h, upd_core. cbn [co tr]. rewrite H. reflexivity. Qed.
Lemma hP_pair {A} s (a : A) : hP (s, a) = (strip_h s, a).
Proof. reflexivity. Qed.
Lemma h3_pair {A B} s (a : A) (b : B) : h3 (s, a, b) = (strip_h s, a, b).
Proof. reflexivity. Qed.
Lemma fst_hP {A} (p : mstate P * A) : fst (hP p) = strip_h (fst p).
Proof. reflexivity. Qed.
Lemma snd_hP {A} (p : mstate P * A) : snd (hP p) = snd p.
Proof. reflexivity. Qed.

(* left-hand sides run under [cfg]; right-hand sides under the same configuration compiled without the
   transition history, from the state with previousTransition forgotten *)
Section WithCfg.
Variable cfg : config.
Local Notation cfgH := (with_history cfg false).
Variable orc : oracle P.

Ltac cfgnorm :=
  change (c_n cfgH) with (c_n cfg); change (c_head cfgH) with (c_head cfg);
  change (c_manual cfgH) with (c_manual cfg); change (c_limit cfgH) with (c_limit cfg);
  change (c_cap cfgH) with (c_cap cfg); change (c_payload cfgH) with (c_payload cfg);
  change (c_plans cfgH) with (c_plans cfg); change (c_history cfgH) with false;
  change (can_plan cfgH) with (can_plan cfg); change (exists_who cfgH) with (exists_who cfg);
  change (delivers cfgH) with (delivers cfg); change (inj_of cfgH) with (inj_of cfg);
  change (logs cfgH) with (logs cfg); change (log_rec P cfgH) with (log_rec P cfg);
  change (leaf cfgH) with (leaf cfg); change (mk_view P cfgH) with (mk_view P cfg);
  change (width_bits cfgH) with (width_bits cfg); change (log_compiled cfgH) with (log_compiled cfg);
  cbn iota.

Lemma log_rec_strip_h l s : log_rec P cfg l (strip_h s) = strip_h (log_rec P cfg l s).
Proof. unfold log_rec. rewrite logger_strip_h. destruct (log_compiled cfg && logger P (co P s)); reflexivity. Qed.

Lemma mk_view_strip_h o k s : mk_view P cfg o k (co P (strip_h s)) = mk_view P cfg o k (co P s).
Proof. reflexivity. Qed.

Hint Rewrite tr_strip_h active_strip_h requested_strip_h request_strip_h plan_strip_h logger_strip_h
  ria_strip_h mia_strip_h sps_strip_h emit_strip_h upd_plan_strip_h log_rec_strip_h mk_view_strip_h
  @hP_pair @h3_pair @fst_hP @snd_hP : hh.
Hint Rewrite upd_core_strip_h using (intros; reflexivity) : hh.

Ltac h_split :=
  match goal with
  | |- context [match hP ?x with _ => _ end] => no_match x; destruct x
  | |- context [match h3 ?x with _ => _ end] => no_match x; destruct x as [[? ?] ?]
  | |- context [match ?x with _ => _ end] => no_match x; destruct x
  end.
Ltac h_go := cfgnorm; repeat (autorewrite with hh; cbn beta iota; try h_split); try reflexivity.

Lemma h_perform origin a s k :
  perform P cfgH origin a (strip_h s, k) = h3 (perform P cfg origin a (s, k)).
Proof.
  destruct a as [d|d p| |so|so|o d|o d p| |i]; cbn [perform]; h_go.
Qed.

Lemma h_perform_all origin acts sk :
  perform_all P cfgH origin acts (hP sk) = hP (perform_all P cfg origin acts sk).
Proof.
  unfold perform_all. symmetry. apply fold_commute. intros [s k] a.
  rewrite hP_pair, h_perform. destruct (perform P cfg origin a (s, k)) as [[s1 k1] res]. reflexivity.
Qed.

Lemma h_invoke w r m s k : invoke P cfgH orc w r m (strip_h s, k) = hP (invoke P cfg orc w r m (s, k)).
Proof.
  unfold invoke. cfgnorm. autorewrite with hh. rewrite <- h_perform_all. reflexivity.
Qed.

Lemma h_deliver w m s k : deliver P cfgH orc w m (strip_h s, k) = hP (deliver P cfg orc w m (s, k)).
Proof.
  unfold deliver. cfgnorm.
  assert (E : (if logs cfg w m then log_rec P cfg (LMethod (id_of w) m) (strip_h s) else strip_h s) =
              strip_h (if logs cfg w m then log_rec P cfg (LMethod (id_of w) m) s else s)).
  { destruct (logs cfg w m); [apply log_rec_strip_h|reflexivity]. }
  rewrite E. destruct (exists_who cfg w); [|reflexivity].
  rewrite <- hP_pair. symmetry. apply fold_commute. intros [x kx] r.
  destruct (delivers cfg w r m); [|reflexivity]. rewrite hP_pair, h_invoke. reflexivity.
Qed.

Lemma h_deliver_guard w m s k :
  deliver_guard P cfgH orc w m (strip_h s, k) = h3 (deliver_guard P cfg orc w m (s, k)).
Proof.
  unfold deliver_guard. rewrite h_deliver. cbn [snd].
  destruct (deliver P cfg orc w m (s, k)) as [s1 k1]. reflexivity.
Qed.
Hint Rewrite h_deliver h_deliver_guard : hh.

Lemma h_region_phase m post s k :
  region_phase P cfgH orc m post (strip_h s, k) = hP (region_phase P cfg orc m post (s, k)).
Proof. unfold region_phase. cbn [fst snd]. h_go. Qed.

Lemma h_plan_scan : forall fuel curr next tc s,
  plan_scan P cfgH fuel curr next tc (strip_h s) = hP (plan_scan P cfg fuel curr next tc s).
Proof.
  induction fuel as [|f IH]; intros curr next tc s; cbn [plan_scan]; [reflexivity|].
  h_go; rewrite IH; reflexivity.
Qed.
Hint Rewrite h_region_phase h_plan_scan : hh.

Lemma h_update_plan status s k :
  update_plan P cfgH orc status (strip_h s, k) = hP (update_plan P cfg orc status (s, k)).
Proof. unfold update_plan. h_go. Qed.
Hint Rewrite h_update_plan : hh.

Lemma h_deep_update_plans s k :
  deep_update_plans P cfgH orc (strip_h s, k) = hP (deep_update_plans P cfg orc (s, k)).
Proof. unfold deep_update_plans. cbn [fst snd]. h_go. Qed.

Lemma h_apply_request cur d s : apply_request P cur d (strip_h s) = hP (apply_request P cur d s).
Proof. unfold apply_request. h_go. Qed.
Hint Rewrite h_deep_update_plans h_apply_request : hh.

Lemma h_cancelled_by_guards cur pend s :
  cancelled_by_guards P cfgH orc cur pend (strip_h s) = hP (cancelled_by_guards P cfg orc cur pend s).
Proof. unfold cancelled_by_guards. h_go. Qed.
Lemma h_cancelled_by_entry_guards cur pend s :
  cancelled_by_entry_guards P cfgH orc cur pend (strip_h s) = hP (cancelled_by_entry_guards P cfg orc cur pend s).
Proof. unfold cancelled_by_entry_guards. h_go. Qed.
Lemma h_state_exit w k s : state_exit P cfgH orc w k (strip_h s) = strip_h (state_exit P cfg orc w k s).
Proof. unfold state_exit. h_go. Qed.
Hint Rewrite h_cancelled_by_guards h_cancelled_by_entry_guards h_state_exit : hh.

Lemma h_deep_change_to_requested cur s :
  deep_change_to_requested P cfgH orc cur (strip_h s) = strip_h (deep_change_to_requested P cfg orc cur s).
Proof. unfold deep_change_to_requested. cbn zeta. h_go. Qed.
Lemma h_deep_enter cur s : deep_enter P cfgH orc cur (strip_h s) = strip_h (deep_enter P cfg orc cur s).
Proof. unfold deep_enter. cbn zeta. h_go. Qed.
Lemma h_deep_exit s : deep_exit P cfgH orc (strip_h s) = strip_h (deep_exit P cfg orc s).
Proof. unfold deep_exit. cbn zeta. h_go. Qed.
Hint Rewrite h_deep_change_to_requested h_deep_enter h_deep_exit : hh.

Lemma h_transitions_loop : forall fuel cur s,
  transitions_loop P cfgH orc fuel cur (strip_h s) = hP (transitions_loop P cfg orc fuel cur s).
Proof.
  induction fuel as [|f IH]; intros cur s; cbn [transitions_loop]; [reflexivity|].
  h_go; rewrite IH; reflexivity.
Qed.
Lemma h_initial_loop : forall fuel cur s,
  initial_loop P cfgH orc fuel cur (strip_h s) = hP (initial_loop P cfg orc fuel cur s).
Proof.
  induction fuel as [|f IH]; intros cur s; cbn [initial_loop]; [reflexivity|].
  h_go; rewrite IH; reflexivity.
Qed.
Hint Rewrite h_transitions_loop h_initial_loop : hh.

Lemma h_process_transitions s :
  process_transitions P cfgH orc (strip_h s) = hP (process_transitions P cfg orc s).
Proof. unfold process_transitions. h_go. Qed.
Hint Rewrite h_process_transitions : hh.

Lemma h_process_request s : process_request P cfgH orc (strip_h s) = strip_h (process_request P cfg orc s).
Proof. unfold process_request. h_go. Qed.
Hint Rewrite h_process_request : hh.

Lemma h_initial_enter s : initial_enter P cfgH orc (strip_h s) = strip_h (initial_enter P cfg orc s).
Proof.
  unfold initial_enter. h_go.
  (* history on: deepEnter runs with previousTransition already written, which it never reads *)
  rewrite <- !upd_core_strip_h by reflexivity. rewrite <- !h_deep_enter. reflexivity.
Qed.

Lemma h_final_exit s : final_exit P cfgH orc (strip_h s) = strip_h (final_exit P cfg orc s).
Proof. unfold final_exit. cbn zeta. h_go. Qed.
Hint Rewrite h_initial_enter h_final_exit : hh.

Lemma h_region_phase_p m post sk :
  region_phase P cfgH orc m post (hP sk) = hP (region_phase P cfg orc m post sk).
Proof. destruct sk as [s k]. apply h_region_phase. Qed.
Lemma h_deep_update_plans_p sk : deep_update_plans P cfgH orc (hP sk) = hP (deep_update_plans P cfg orc sk).
Proof. destruct sk as [s k]. apply h_deep_update_plans. Qed.

Lemma h_cycle m1 m2 m3 s : cycle P cfgH orc m1 m2 m3 (strip_h s) = strip_h (cycle P cfg orc m1 m2 m3 s).
Proof.
  unfold cycle. cbn zeta. cfgnorm. rewrite h_region_phase, !h_region_phase_p.
  set (sk := region_phase P cfg orc m3 true _).
  destruct (c_plans cfg).
  - rewrite h_deep_update_plans_p. destruct (deep_update_plans P cfg orc sk) as [s1 k1].
    rewrite hP_pair, upd_plan_strip_h. apply h_process_request.
  - destruct sk as [s1 k1]. rewrite hP_pair. apply h_process_request.
Qed.
Lemma h_update s : update P cfgH orc (strip_h s) = strip_h (update P cfg orc s).
Proof. apply h_cycle. Qed.
Lemma h_react s : react P cfgH orc (strip_h s) = strip_h (react P cfg orc s).
Proof. apply h_cycle. Qed.
Lemma h_query s : query P cfgH orc (strip_h s) = strip_h (query P cfg orc s).
Proof. unfold query. cbn zeta. h_go. Qed.
Lemma h_change_to d p s : change_to P cfgH d p (strip_h s) = strip_h (change_to P cfg d p s).
Proof. unfold change_to. h_go. Qed.
Hint Rewrite h_change_to : hh.
Lemma h_immediate_change_to d p s :
  immediate_change_to P cfgH orc d p (strip_h s) = strip_h (immediate_change_to P cfg orc d p s).
Proof. unfold immediate_change_to. h_go. Qed.
Lemma h_api_succeed sid s : api_succeed P cfgH sid (strip_h s) = strip_h (api_succeed P cfg sid s).
Proof. unfold api_succeed. h_go. Qed.
Lemma h_api_fail sid s : api_fail P cfgH sid (strip_h s) = strip_h (api_fail P cfg sid s).
Proof. unfold api_fail. h_go. Qed.
Lemma h_base_load buf cu s : base_load P cfgH orc buf cu (strip_h s) = strip_h (base_load P cfg orc buf cu s).
Proof.
  unfold base_load. cbn zeta. h_go; rewrite <- !h_deep_change_to_requested; reflexivity.
Qed.
Lemma h_load_enter buf cu s : load_enter P cfgH orc buf cu (strip_h s) = strip_h (load_enter P cfg orc buf cu s).
Proof. unfold load_enter. h_go. Qed.
Hint Rewrite h_base_load h_load_enter : hh.
Lemma h_load buf s : load P cfgH orc buf (strip_h s) = strip_h (load P cfg orc buf s).
Proof. unfold load. h_go. Qed.
Lemma h_api_plan_op a s : api_plan_op P cfgH a (strip_h s) = hP (api_plan_op P cfg a s).
Proof.
  unfold api_plan_op. rewrite h_perform.
  destruct (perform P cfg INVALID a _) as [[s1 k1] res]. reflexivity.
Qed.

(* one API operation that is not part of the history API *)
Lemma h_step s op : no_history_op op ->
  step P cfgH orc (strip_h s) op = hP (step P cfg orc s op).
Proof.
  intros Hop. destruct op; cbn [no_history_op] in Hop; try contradiction; cbn [step];
    rewrite ?h_initial_enter, ?h_final_exit, ?h_update, ?h_react, ?h_query, ?h_change_to,
      ?h_immediate_change_to, ?h_api_succeed, ?h_api_fail, ?h_load, ?h_api_plan_op; reflexivity.
Qed.

Lemma h_run_from : forall ops s, Forall no_history_op ops ->
  run_from P cfgH orc (strip_h s) ops = strip_h (run_from P cfg orc s ops).
Proof.
  unfold run_from. induction ops as [|op ops IH]; intros s Hops; cbn [fold_left]; [reflexivity|].
  inversion Hops as [|? ? Hop Hrest]; subst.
  rewrite (h_step s op Hop), fst_hP. apply IH. exact Hrest.
Qed.

Lemma h_construct lg : construct P cfgH orc lg = strip_h (construct P cfg orc lg).
Proof.
  unfold construct. cbn zeta. cfgnorm. destruct (c_manual cfg); [reflexivity|].
  rewrite <- h_initial_enter. reflexivity.
Qed.

Lemma h_destroy s : destroy P cfgH orc (strip_h s) = strip_h (destroy P cfg orc s).
Proof. unfold destroy. cfgnorm. destruct (c_manual cfg); [reflexivity|apply h_final_exit]. Qed.

End WithCfg.
End History.

Arguments hP {P A}.
Arguments h3 {P A B}.

(* C19, transition history, general form: a run under any configuration, with previousTransition forgotten, IS
   the run under the same configuration compiled without the transition history *)
Theorem history_step : forall P cfg orc s op, no_history_op P op ->
  strip_h P (fst (step P cfg orc s op)) = fst (step P (with_history cfg false) orc (strip_h P s) op) /\
  snd (step P cfg orc s op) = snd (step P (with_history cfg false) orc (strip_h P s) op).
Proof. intros P cfg orc s op Hop. rewrite (h_step P cfg orc s op Hop). split; reflexivity. Qed.

Theorem history_run_from : forall P cfg orc ops s, Forall (no_history_op P) ops ->
  strip_h P (run_from P cfg orc s ops) = run_from P (with_history cfg false) orc (strip_h P s) ops.
Proof. intros P cfg orc ops s H. symmetry. apply h_run_from. exact H. Qed.

Theorem history_construct : forall P cfg orc lg,
  strip_h P (construct P cfg orc lg) = construct P (with_history cfg false) orc lg.
Proof. intros. symmetry. apply h_construct. Qed.

Theorem history_run : forall P cfg orc lg ops, Forall (no_history_op P) ops ->
  strip_h P (run P cfg orc lg ops) = run P (with_history cfg false) orc lg ops.
Proof.
  intros P cfg orc lg ops H. unfold run. rewrite (history_run_from P cfg orc ops _ H), history_construct. reflexivity.
Qed.

Theorem history_rets_from : forall P cfg orc ops s, Forall (no_history_op P) ops ->
  rets_from P cfg orc s ops = rets_from P (with_history cfg false) orc (strip_h P s) ops.
Proof.
  intros P cfg orc. induction ops as [|op ops IH]; intros s H; cbn [rets_from]; [reflexivity|].
  inversion H as [|? ? Hop Hrest]; subst.
  destruct (history_step P cfg orc s op Hop) as [E1 E2]. rewrite <- E1, <- E2, <- IH by exact Hrest. reflexivity.
Qed.

Theorem history_run_rets : forall P cfg orc lg ops, Forall (no_history_op P) ops ->
  run_rets P cfg orc lg ops = run_rets P (with_history cfg false) orc lg ops.
Proof.
  intros P cfg orc lg ops H. unfold run_rets.
  rewrite (history_rets_from P cfg orc ops _ H), history_construct. reflexivity.
Qed.

(* compiled in against compiled out *)
Corollary history_run_on_off : forall P cfg orc lg ops, Forall (no_history_op P) ops ->
  strip_h P (run P (with_history cfg true) orc lg ops) = run P (with_history cfg false) orc lg ops.
Proof. intros P cfg orc lg ops H. exact (history_run P (with_history cfg true) orc lg ops H). Qed.

Corollary history_run_rets_on_off : forall P cfg orc lg ops, Forall (no_history_op P) ops ->
  run_rets P (with_history cfg true) orc lg ops = run_rets P (with_history cfg false) orc lg ops.
Proof. intros P cfg orc lg ops H. exact (history_run_rets P (with_history cfg true) orc lg ops H). Qed.

Corollary history_irrelevant : forall P cfg b1 b2 orc lg ops, Forall (no_history_op P) ops ->
  strip_h P (run P (with_history cfg b1) orc lg ops) = strip_h P (run P (with_history cfg b2) orc lg ops) /\
  run_rets P (with_history cfg b1) orc lg ops = run_rets P (with_history cfg b2) orc lg ops.
Proof.
  intros P cfg b1 b2 orc lg ops H. split.
  - rewrite (history_run P (with_history cfg b1) orc lg ops H), (history_run P (with_history cfg b2) orc lg ops H).
    reflexivity.
  - rewrite (history_run_rets P (with_history cfg b1) orc lg ops H),
      (history_run_rets P (with_history cfg b2) orc lg ops H). reflexivity.
Qed.

(* what that says field by field: same trace, same registry, request, plan data and logger *)
Lemma strip_h_fields P (s t : mstate P) : strip_h P s = t ->
  tr P s = tr P t /\ active P (co P s) = active P (co P t) /\ requested P (co P s) = requested P (co P t) /\
  request P (co P s) = request P (co P t) /\ plan P (co P s) = plan P (co P t) /\
  logger P (co P s) = logger P (co P t) /\ previous P (co P t) = t_empty P.
Proof. intros H. subst t. repeat split; reflexivity. Qed.

Corollary history_run_fields : forall P cfg orc lg ops, Forall (no_history_op P) ops ->
  let l := run P (with_history cfg true) orc lg ops in
  let r := run P (with_history cfg false) orc lg ops in
  tr P l = tr P r /\ active P (co P l) = active P (co P r) /\ requested P (co P l) = requested P (co P r) /\
  request P (co P l) = request P (co P r) /\ plan P (co P l) = plan P (co P r) /\
  logger P (co P l) = logger P (co P r) /\ previous P (co P r) = t_empty P.
Proof. intros P cfg orc lg ops H. apply strip_h_fields, history_run_on_off, H. Qed.

(* the instance's own report differs in previousTransition() only *)
Corollary history_observe : forall P cfg (s : mstate P),
  observe P (with_history cfg false) (co P (strip_h P s)) =
  let o := observe P cfg (co P s) in
  {| o_active := o_active P o; o_on := o_on P o; o_act := o_act P o; o_request := o_request P o;
     o_prev := t_empty P; o_plan := o_plan P o; o_first := o_first P o; o_last := o_last P o; o_ser := o_ser P o |}.
Proof. reflexivity. Qed.
(* ================= (3) plans ================= *)
Definition with_plans (c : config) (b : bool) : config :=
  {| c_n := c_n c; c_head := c_head c; c_manual := c_manual c; c_limit := c_limit c; c_cap := c_cap c;
     c_payload := c_payload c; c_inj_root := c_inj_root c; c_inj_state := c_inj_state c;
     c_plans := b; c_serial := c_serial c; c_history := c_history c; c_log := c_log c;
     c_def_root := c_def_root c; c_def_state := c_def_state c |}.

Lemma with_plans_same c : with_plans c (c_plans c) = c.
Proof. destruct c; reflexivity. Qed.

(* ---- bit arrays and plan data that were never written ---- *)
Lemma uset_nat_fix (f : N -> N) : forall b i, Forall (fun x => f x = x) b -> uset_nat b i f = b.
Proof.
  induction b as [|h t IH]; intros i H; [destruct i; reflexivity|].
  inversion H as [|? ? Hh Ht]; subst. destruct i as [|j]; cbn [uset_nat]; [rewrite Hh|rewrite IH by exact Ht]; reflexivity.
Qed.

Lemma Forall_repeat {A} (Q : A -> Prop) x k : Q x -> Forall Q (repeat x k).
Proof. intros H. induction k as [|k IH]; cbn [repeat]; constructor; assumption. Qed.

Lemma ba_clear_init cap i : ba_clear (ba_init cap) i = ba_init cap.
Proof. unfold ba_clear, uset, ba_init. apply uset_nat_fix, Forall_repeat. apply N.land_0_l. Qed.

Lemma clear_bits_init cap : forall k, clear_bits k (ba_init cap) = ba_init cap.
Proof. induction k as [|k IH]; cbn [clear_bits]; [reflexivity|]. rewrite IH. apply ba_clear_init. Qed.

Lemma map_const_repeat {A B} (y : B) (x : A) k : map (fun _ => x) (repeat y k) = repeat x k.
Proof. induction k as [|k IH]; cbn [repeat map]; [reflexivity|]. rewrite IH. reflexivity. Qed.

Lemma ba_clear_all_init cap : ba_clear_all (ba_init cap) = ba_init cap.
Proof. unfold ba_clear_all, ba_init. apply map_const_repeat. Qed.

Lemma INVALID_not_below cap : cap <= 255 -> (INVALID <? cap) = false.
Proof. intros H. apply Nat.ltb_ge. unfold INVALID. exact H. Qed.

Section PlanData.
Variable P : Type.
Variables cap n : nat.
Hypothesis Hcap : cap <= 255.

(* the plan data is idle: no plan exists, nothing is linked, no region status is pending *)
Definition PlanIdle (d : plan_data P) : Prop :=
  pd_exists d = false /\ pd_head_status d = SNone /\ pd_sub_status d = SNone /\ first (pd_pl d) = INVALID.

Lemma idle_plan_indices d : PlanIdle d -> plan_indices P cap d = [].
Proof.
  intros (_ & _ & _ & Hf). unfold plan_indices. rewrite Hf. cbn [iter_indices].
  rewrite (INVALID_not_below cap Hcap). reflexivity.
Qed.
Lemma idle_plan_tasks d : PlanIdle d -> plan_tasks P cap d = [].
Proof. intros H. unfold plan_tasks. rewrite (idle_plan_indices d H). reflexivity. Qed.
Lemma idle_plan_nonempty d : PlanIdle d -> plan_nonempty P cap d = false.
Proof. intros (_ & _ & _ & Hf). unfold plan_nonempty. rewrite Hf. apply INVALID_not_below, Hcap. Qed.

Local Notation pd0 := (pd_init P cap n).

Lemma pd0_idle : PlanIdle pd0.
Proof. repeat split. Qed.
Lemma pd0_tasks : plan_tasks P cap pd0 = [].
Proof. apply idle_plan_tasks, pd0_idle. Qed.
Lemma pd0_nonempty : plan_nonempty P cap pd0 = false.
Proof. apply idle_plan_nonempty, pd0_idle. Qed.
Lemma pd0_clear_task_status sid : pd_clear_task_status P pd0 sid = pd0.
Proof.
  unfold pd_clear_task_status. destruct (sid =? INVALID); [reflexivity|].
  unfold pd_with_fail, pd_with_succ, pd_init. cbn [pd_succ pd_fail pd_tasks pd_pl pd_exists pd_head_status pd_sub_status].
  rewrite ba_clear_init. reflexivity.
Qed.
Lemma pd0_plan_clear : plan_clear P cap n pd0 = pd0.
Proof.
  unfold plan_clear, plan_clear_tasks.
  change (first (pd_pl pd0)) with INVALID. rewrite (INVALID_not_below cap Hcap).
  unfold pd_with_fail, pd_with_succ, pd_init. cbn [pd_succ pd_fail pd_tasks pd_pl pd_exists pd_head_status pd_sub_status].
  rewrite clear_bits_init. reflexivity.
Qed.
Lemma pd0_pd_clear : pd_clear P pd0 = pd0.
Proof.
  unfold pd_clear, pd_init. cbn [pd_succ pd_fail pd_tasks pd_pl links].
  rewrite !ba_clear_all_init, map_const_repeat. reflexivity.
Qed.
End PlanData.

Section Plans.
Variable P : Type.

(* a callback that stays away from plans: no succeed()/fail(), no plan edits *)
Definition no_plan_action (a : action P) : Prop :=
  match a with AChange _ _ | AChangeWith _ _ _ | ACancel _ => True | _ => False end.
Definition no_plan_oracle (orc : oracle P) : Prop := forall t w r m v, Forall no_plan_action (orc t w r m v).
(* an API client that stays away from plans *)
Definition no_plan_op (op : api_op P) : Prop :=
  match op with
  | OSucceed _ _ | OFail _ _ | OPlanAppend _ _ _ | OPlanAppendWith _ _ _ _ | OPlanClear _ | OPlanRemoveAt _ _ => False
  | _ => True
  end.

(* equal in everything but the plan data *)
Definition same_but_plan (s s' : mstate P) : Prop :=
  active P (co P s) = active P (co P s') /\ requested P (co P s) = requested P (co P s') /\
  request P (co P s) = request P (co P s') /\ previous P (co P s) = previous P (co P s') /\
  logger P (co P s) = logger P (co P s') /\ tr P s = tr P s'.

Section WithCfg.
Variable cfg : config.
Hypothesis Hcap : c_cap cfg <= 255.
Local Notation pd0 := (pd_init P (c_cap cfg) (c_n cfg)).
Local Notation cfgP b := (with_plans cfg b).
Local Notation cfg0 := (with_plans cfg false).

(* the plan data as constructed; no task status reported through the control *)
Definition fresh (s : mstate P) : mstate P := upd_core P (fun c => set_plan P c pd0) s.
Definition calm (k : ctl P) : ctl P := set_status P k SNone.
Definition fP (p : mstate P * ctl P) : mstate P * ctl P := (fresh (fst p), calm (snd p)).
Definition f3 {A} (p : mstate P * ctl P * A) : mstate P * ctl P * A := (fP (fst p), snd p).
Definition fB {A} (p : mstate P * A) : mstate P * A := (fresh (fst p), snd p).

Lemma fresh_idem s : fresh (fresh s) = fresh s. Proof. reflexivity. Qed.
Lemma calm_idem k : calm (calm k) = calm k. Proof. reflexivity. Qed.
Lemma tr_fresh s : tr P (fresh s) = tr P s. Proof. reflexivity. Qed.
Lemma active_fresh s : active P (co P (fresh s)) = active P (co P s). Proof. reflexivity. Qed.
Lemma requested_fresh s : requested P (co P (fresh s)) = requested P (co P s). Proof. reflexivity. Qed.
Lemma request_fresh s : request P (co P (fresh s)) = request P (co P s). Proof. reflexivity. Qed.
Lemma previous_fresh s : previous P (co P (fresh s)) = previous P (co P s). Proof. reflexivity. Qed.
Lemma logger_fresh s : logger P (co P (fresh s)) = logger P (co P s). Proof. reflexivity. Qed.
Lemma plan_fresh s : plan P (co P (fresh s)) = pd0. Proof. reflexivity. Qed.
Lemma ria_fresh s : registry_is_active P (co P (fresh s)) = registry_is_active P (co P s). Proof. reflexivity. Qed.
Lemma mia_fresh s : machine_is_active P (co P (fresh s)) = machine_is_active P (co P s). Proof. reflexivity. Qed.
Lemma emit_fresh e s : emit P e (fresh s) = fresh (emit P e s). Proof. reflexivity. Qed.
Lemma upd_core_fresh f s :
  (forall c, set_plan P (f c) pd0 = f (set_plan P c pd0)) -> upd_core P f (fresh s) = fresh (upd_core P f s).
Proof. intros H. unfold fresh, upd_core. cbn [co tr]. rewrite H. reflexivity. Qed.
(* an update of the plan data that leaves the constructed plan data as it is *)
Lemma upd_plan_fresh g s : g pd0 = pd0 -> upd_plan P g (fresh s) = fresh s.
Proof. intros H. unfold upd_plan, fresh, upd_core. cbn [co tr plan set_plan active requested request previous logger]. rewrite H. reflexivity. Qed.
Lemma k_status_calm k : k_status P (calm k) = SNone. Proof. reflexivity. Qed.
Lemma k_kind_calm k : k_kind P (calm k) = k_kind P k. Proof. reflexivity. Qed.
Lemma k_cancelled_calm k : k_cancelled P (calm k) = k_cancelled P k. Proof. reflexivity. Qed.
Lemma set_cancelled_calm k b : set_cancelled P (calm k) b = calm (set_cancelled P k b). Proof. reflexivity. Qed.
Lemma set_status_none k : set_status P k SNone = calm k. Proof. reflexivity. Qed.
Lemma mk_ctl_calm kd a b : mk_ctl P kd a b = calm (mk_ctl P kd a b). Proof. reflexivity. Qed.
Lemma fP_pair s k : fP (s, k) = (fresh s, calm k). Proof. reflexivity. Qed.
Lemma f3_pair {A} s k (a : A) : f3 (s, k, a) = (fresh s, calm k, a). Proof. reflexivity. Qed.
Lemma fB_pair {A} s (a : A) : fB (s, a) = (fresh s, a). Proof. reflexivity. Qed.
Lemma fst_fP p : fst (fP p) = fresh (fst p). Proof. reflexivity. Qed.
Lemma snd_fP p : snd (fP p) = calm (snd p). Proof. reflexivity. Qed.
Lemma fst_fB {A} (p : mstate P * A) : fst (fB p) = fresh (fst p). Proof. reflexivity. Qed.
Lemma snd_fB {A} (p : mstate P * A) : snd (fB p) = snd p. Proof. reflexivity. Qed.

(* a state whose plan data is as constructed is its own [fresh] *)
Lemma fresh_eta s : plan P (co P s) = pd0 -> fresh s = s.
Proof. destruct s as [[a rq r pv pl lg] t]. cbn [co plan]. intros H. subst pl. reflexivity. Qed.

Ltac cfgnorm b :=
  change (c_n (cfgP b)) with (c_n cfg); change (c_head (cfgP b)) with (c_head cfg);
  change (c_manual (cfgP b)) with (c_manual cfg); change (c_limit (cfgP b)) with (c_limit cfg);
  change (c_cap (cfgP b)) with (c_cap cfg); change (c_payload (cfgP b)) with (c_payload cfg);
  change (c_plans (cfgP b)) with b; change (c_history (cfgP b)) with (c_history cfg);
  change (exists_who (cfgP b)) with (exists_who cfg);
  change (delivers (cfgP b)) with (delivers cfg); change (inj_of (cfgP b)) with (inj_of cfg);
  change (logs (cfgP b)) with (logs cfg); change (log_rec P (cfgP b)) with (log_rec P cfg);
  change (leaf (cfgP b)) with (leaf cfg);
  change (width_bits (cfgP b)) with (width_bits cfg); change (log_compiled (cfgP b)) with (log_compiled cfg);
  cbn iota.

Lemma log_rec_fresh l s : log_rec P cfg l (fresh s) = fresh (log_rec P cfg l s).
Proof. unfold log_rec. rewrite logger_fresh. destruct (log_compiled cfg && logger P (co P s)); reflexivity. Qed.

(* the views do not show an idle plan *)
Lemma p_mk_view b o k s : mk_view P (cfgP b) o (calm k) (co P (fresh s)) = mk_view P cfg0 o k (co P s).
Proof.
  unfold mk_view. cfgnorm b. cfgnorm false. rewrite plan_fresh, (pd0_tasks P _ (c_n cfg) Hcap).
  destruct b; reflexivity.
Qed.

Hint Rewrite fresh_idem calm_idem tr_fresh active_fresh requested_fresh request_fresh previous_fresh logger_fresh
  plan_fresh ria_fresh mia_fresh emit_fresh log_rec_fresh k_status_calm k_kind_calm k_cancelled_calm
  set_cancelled_calm set_status_none fP_pair @f3_pair @fB_pair fst_fP snd_fP @fst_fB @snd_fB : pp.
Hint Rewrite upd_core_fresh using (intros; reflexivity) : pp.

Ltac p_simp := repeat (progress (autorewrite with pp; cbn beta iota)).
Ltac p_norm b := cfgnorm b; cfgnorm false; p_simp.

(* ---- one action, a callback's actions ---- *)
Lemma p_perform b origin a s k : no_plan_action a ->
  perform P (cfgP b) origin a (fresh s, calm k) = f3 (perform P cfg0 origin a (fresh s, calm k)).
Proof.
  intros Ha. destruct a as [d|d p| |so|so|o d|o d p| |i]; cbn [no_plan_action] in Ha; try contradiction;
    cbn [perform]; p_norm b.
  - destruct (can_change (k_kind P k)); p_simp; reflexivity.
  - destruct (can_change (k_kind P k) && c_payload cfg); p_simp; reflexivity.
  - destruct (k_kind P k); p_simp; reflexivity.
Qed.

Lemma p_perform_all b origin : forall acts s k, Forall no_plan_action acts ->
  perform_all P (cfgP b) origin acts (fresh s, calm k) = fP (perform_all P cfg0 origin acts (fresh s, calm k)).
Proof.
  unfold perform_all. induction acts as [|a acts IH]; intros s k Hacts; cbn [fold_left]; [reflexivity|].
  inversion Hacts as [|? ? Ha Hrest]; subst.
  rewrite (p_perform b origin a s k Ha), (p_perform false origin a s k Ha).
  destruct (perform P cfg0 origin a (fresh s, calm k)) as [[s1 k1] res]. p_simp.
  apply IH. exact Hrest.
Qed.

Section WithOracle.
Variable orc : oracle P.
Hypothesis Horc : no_plan_oracle orc.

Lemma p_invoke b w r m s k :
  invoke P (cfgP b) orc w r m (fresh s, calm k) = fP (invoke P cfg0 orc w r m (fresh s, calm k)).
Proof.
  unfold invoke. rewrite (p_mk_view b), (p_mk_view false). p_simp. apply p_perform_all. apply Horc.
Qed.

Lemma p_deliver b w m s k :
  deliver P (cfgP b) orc w m (fresh s, calm k) = fP (deliver P cfg0 orc w m (fresh s, calm k)).
Proof.
  unfold deliver. p_norm b.
  assert (E : (if logs cfg w m then fresh (log_rec P cfg (LMethod (id_of w) m) s) else fresh s) =
              fresh (if logs cfg w m then log_rec P cfg (LMethod (id_of w) m) s else s)).
  { destruct (logs cfg w m); reflexivity. }
  rewrite E. set (s1 := if logs cfg w m then _ else _). clearbody s1.
  destruct (exists_who cfg w); [|reflexivity].
  generalize (deep_order m (inj_of cfg w)). intros rs. revert s1 k.
  induction rs as [|r rs IH]; intros s1 k; cbn [fold_left]; [reflexivity|].
  destruct (delivers cfg w r m); [|apply IH].
  rewrite (p_invoke b), (p_invoke false). destruct (invoke P cfg0 orc w r m (fresh s1, calm k)) as [s2 k2].
  p_simp. apply IH.
Qed.

Lemma p_deliver_guard b w m s k :
  deliver_guard P (cfgP b) orc w m (fresh s, calm k) = f3 (deliver_guard P cfg0 orc w m (fresh s, calm k)).
Proof.
  unfold deliver_guard. cbn [snd]. rewrite (p_deliver b), (p_deliver false).
  destruct (deliver P cfg0 orc w m (fresh s, calm k)) as [s1 k1]. p_simp. reflexivity.
Qed.

(* updates of the plan data that leave the constructed plan data as it is *)
Ltac pd0_side :=
  cbn beta;
  first [ reflexivity
        | apply pd0_clear_task_status
        | apply pd0_plan_clear; exact Hcap
        | destruct (c_head cfg); reflexivity ].
Hint Rewrite upd_plan_fresh using (solve [pd0_side]) : pp.

(* a call under [cfgP b] on the left and the same call under [cfg0] on the right: by the lemma [L] of the
   callee both give fresh, calm results *)
Ltac p_bind L b :=
  rewrite (L false); try rewrite (L b);
  match goal with
  | |- context [match fP ?D with _ => _ end] => destruct D as [? ?]
  | |- context [match f3 ?D with _ => _ end] => destruct D as [[? ?] ?]
  | |- context [match fB ?D with _ => _ end] => destruct D as [? ?]
  end; p_simp.

Lemma p_region_phase b m post s k :
  region_phase P (cfgP b) orc m post (fresh s, calm k) = fP (region_phase P cfg0 orc m post (fresh s, calm k)).
Proof.
  unfold region_phase. cbn [fst snd]. p_norm b. destruct post.
  - p_bind p_deliver b. p_bind p_deliver b. reflexivity.
  - p_bind p_deliver b. p_bind p_deliver b. reflexivity.
Qed.

(* (b) with an idle plan deepUpdatePlans does nothing *)
Lemma deep_update_plans_idle c (sk : mstate P * ctl P) :
  pd_exists (plan P (co P (fst sk))) = false -> deep_update_plans P c orc sk = sk.
Proof. intros H. unfold deep_update_plans. rewrite H, andb_false_r. reflexivity. Qed.

Lemma p_apply_request cur d s : apply_request P cur d (fresh s) = fB (apply_request P cur d s).
Proof. unfold apply_request. destruct (t_neq P cur (t_to P d)); p_simp; reflexivity. Qed.
Hint Rewrite p_apply_request : pp.

Lemma p_cancelled_by_guards b cur pend s :
  cancelled_by_guards P (cfgP b) orc cur pend (fresh s) = fB (cancelled_by_guards P cfg0 orc cur pend (fresh s)).
Proof.
  unfold cancelled_by_guards. rewrite mk_ctl_calm. p_norm b.
  p_bind p_deliver_guard b. destruct b0; [reflexivity|].
  p_bind p_deliver_guard b. reflexivity.
Qed.

Lemma p_cancelled_by_entry_guards b cur pend s :
  cancelled_by_entry_guards P (cfgP b) orc cur pend (fresh s) =
  fB (cancelled_by_entry_guards P cfg0 orc cur pend (fresh s)).
Proof.
  unfold cancelled_by_entry_guards. rewrite mk_ctl_calm. p_norm b.
  p_bind p_deliver_guard b. destruct b0; [reflexivity|].
  p_bind p_deliver_guard b. reflexivity.
Qed.

Lemma p_state_exit b w k s :
  state_exit P (cfgP b) orc w (calm k) (fresh s) = fresh (state_exit P cfg0 orc w (calm k) (fresh s)).
Proof.
  unfold state_exit. p_norm b. p_bind p_deliver b. destruct (exists_who cfg w); p_simp; reflexivity.
Qed.

Ltac head_of t := lazymatch t with ?f _ => head_of f | _ => t end.
Ltac is_state_call D :=
  let h := head_of D in
  lazymatch h with
  | @state_exit => idtac | @deep_change_to_requested => idtac | @deep_enter => idtac | @deep_exit => idtac
  | @process_request => idtac | @initial_enter => idtac | @final_exit => idtac | @cycle => idtac
  | @base_load => idtac | @load_enter => idtac
  end.
(* the same for a callee that returns a state *)
Ltac p_let L b :=
  rewrite (L false); try rewrite (L b);
  match goal with
  | |- context [fresh ?D] => is_state_call D; generalize D; intro
  end; p_simp.

Lemma p_deep_change_to_requested b cur s :
  deep_change_to_requested P (cfgP b) orc cur (fresh s) = fresh (deep_change_to_requested P cfg0 orc cur (fresh s)).
Proof.
  unfold deep_change_to_requested. cbn zeta. rewrite mk_ctl_calm. p_norm b.
  destruct (negb (requested P (co P s) =? active P (co P s))).
  - p_let p_state_exit b. rewrite (p_deliver false), (p_deliver b). p_simp. reflexivity.
  - rewrite (p_deliver false), (p_deliver b). p_simp. reflexivity.
Qed.

Lemma p_deep_enter b cur s :
  deep_enter P (cfgP b) orc cur (fresh s) = fresh (deep_enter P cfg0 orc cur (fresh s)).
Proof.
  unfold deep_enter. cbn zeta. rewrite mk_ctl_calm. p_norm b.
  p_bind p_deliver b. rewrite (p_deliver false), (p_deliver b). p_simp. reflexivity.
Qed.

Lemma p_deep_exit b s : deep_exit P (cfgP b) orc (fresh s) = fresh (deep_exit P cfg0 orc (fresh s)).
Proof.
  unfold deep_exit. cbn zeta. rewrite mk_ctl_calm. p_norm b.
  p_let p_state_exit b. p_let p_state_exit b. destruct b; p_simp; reflexivity.
Qed.

Lemma p_transitions_loop b : forall fuel cur s,
  transitions_loop P (cfgP b) orc fuel cur (fresh s) = fB (transitions_loop P cfg0 orc fuel cur (fresh s)).
Proof.
  induction fuel as [|f IH]; intros cur s; cbn [transitions_loop]; [reflexivity|]. p_norm b.
  destruct (t_valid P (request P (co P s))); [|reflexivity].
  destruct (apply_request P cur (t_dest P (request P (co P s))) s) as [s1 applied]. p_simp.
  destruct applied; [|apply IH].
  p_bind p_cancelled_by_guards b. destruct b0; apply IH.
Qed.

Lemma p_initial_loop b : forall fuel cur s,
  initial_loop P (cfgP b) orc fuel cur (fresh s) = fB (initial_loop P cfg0 orc fuel cur (fresh s)).
Proof.
  induction fuel as [|f IH]; intros cur s; cbn [initial_loop]; [reflexivity|]. p_norm b.
  destruct (t_valid P (request P (co P s))); [|reflexivity].
  destruct (apply_request P cur (t_dest P (request P (co P s))) s) as [s1 applied]. p_simp.
  destruct applied; [|apply IH].
  p_bind p_cancelled_by_entry_guards b. destruct b0; apply IH.
Qed.

Lemma p_process_transitions b s :
  process_transitions P (cfgP b) orc (fresh s) = fB (process_transitions P cfg0 orc (fresh s)).
Proof.
  unfold process_transitions. p_norm b. p_bind p_transitions_loop b.
  destruct (t_valid P t); [|reflexivity]. p_let p_deep_change_to_requested b. reflexivity.
Qed.

Lemma p_process_request b s :
  process_request P (cfgP b) orc (fresh s) = fresh (process_request P cfg0 orc (fresh s)).
Proof.
  unfold process_request. p_norm b.
  destruct (t_valid P (request P (co P s))).
  - p_bind p_process_transitions b. destruct (c_history cfg); p_simp; reflexivity.
  - destruct (c_history cfg); p_simp; reflexivity.
Qed.

Lemma p_initial_enter b s : initial_enter P (cfgP b) orc (fresh s) = fresh (initial_enter P cfg0 orc (fresh s)).
Proof.
  unfold initial_enter. p_norm b.
  destruct (apply_request P (t_empty P) 0 s) as [s1 b1]. p_simp.
  p_bind p_cancelled_by_entry_guards b. p_bind p_initial_loop b.
  destruct (c_history cfg); p_simp; p_let p_deep_enter b; reflexivity.
Qed.

(* the clean-up of finalExit and load on the constructed plan data *)
Lemma p_reset_core (b : bool) s :
  upd_core P (fun c : core P =>
    let c1 := set_request P (set_requested P (set_active P c INVALID) INVALID) (t_clear P (request P c)) in
    let c2 := if b then set_plan P c1 (pd_clear P (plan P c1)) else c1 in
    if c_history cfg then set_previous P c2 (t_clear P (previous P c2)) else c2) (fresh s) =
  fresh (upd_core P (fun c : core P =>
    let c1 := set_request P (set_requested P (set_active P c INVALID) INVALID) (t_clear P (request P c)) in
    if c_history cfg then set_previous P c1 (t_clear P (previous P c1)) else c1) s).
Proof.
  unfold fresh, upd_core. cbn [co tr]. f_equal.
  destruct b, (c_history cfg); cbn [plan set_plan set_request set_requested set_active set_previous
    active requested request previous logger]; rewrite ?pd0_pd_clear; reflexivity.
Qed.

Lemma p_final_exit b s : final_exit P (cfgP b) orc (fresh s) = fresh (final_exit P cfg0 orc (fresh s)).
Proof.
  unfold final_exit. p_norm b. p_let p_deep_exit b.
  rewrite (p_reset_core b), (p_reset_core false). reflexivity.
Qed.

Lemma p_cycle b m1 m2 m3 s :
  cycle P (cfgP b) orc m1 m2 m3 (fresh s) = fresh (cycle P cfg0 orc m1 m2 m3 (fresh s)).
Proof.
  unfold cycle. cbn zeta. rewrite mk_ctl_calm. p_norm b.
  rewrite (p_region_phase false m1), (p_region_phase b m1).
  destruct (region_phase P cfg0 orc m1 false _) as [s1 k1]. p_simp.
  rewrite (p_region_phase false m2), (p_region_phase b m2).
  destruct (region_phase P cfg0 orc m2 false _) as [s2 k2]. p_simp.
  rewrite (p_region_phase false m3), (p_region_phase b m3).
  destruct (region_phase P cfg0 orc m3 true _) as [s3 k3]. p_simp.
  destruct b.
  - rewrite deep_update_plans_idle by reflexivity. p_simp. apply p_process_request.
  - apply p_process_request.
Qed.
Lemma p_update b s : update P (cfgP b) orc (fresh s) = fresh (update P cfg0 orc (fresh s)).
Proof. apply p_cycle. Qed.
Lemma p_react b s : react P (cfgP b) orc (fresh s) = fresh (react P cfg0 orc (fresh s)).
Proof. apply p_cycle. Qed.

Lemma p_query b s : query P (cfgP b) orc (fresh s) = fresh (query P cfg0 orc (fresh s)).
Proof.
  unfold query. cbn zeta. rewrite mk_ctl_calm. p_norm b.
  p_bind p_deliver b. rewrite (p_deliver false), (p_deliver b). p_simp. reflexivity.
Qed.

Lemma p_change_to b d p s : change_to P (cfgP b) d p (fresh s) = fresh (change_to P cfg0 d p (fresh s)).
Proof. unfold change_to. p_norm b. reflexivity. Qed.

Lemma p_immediate_change_to b d p s :
  immediate_change_to P (cfgP b) orc d p (fresh s) = fresh (immediate_change_to P cfg0 orc d p (fresh s)).
Proof.
  unfold immediate_change_to. rewrite (p_change_to false), (p_change_to b).
  generalize (change_to P cfg0 d p (fresh s)). intros s1. apply p_process_request.
Qed.

Lemma p_replay_transition b d s :
  replay_transition P (cfgP b) orc d (fresh s) = fB (replay_transition P cfg0 orc d (fresh s)).
Proof.
  unfold replay_transition. destruct (negb (d =? INVALID)); [|reflexivity]. p_norm b.
  destruct (apply_request P (t_empty P) d _) as [s1 b1]. p_simp.
  p_let p_deep_change_to_requested b. reflexivity.
Qed.

Lemma p_replay_enter b d s :
  replay_enter P (cfgP b) orc d (fresh s) = fresh (replay_enter P cfg0 orc d (fresh s)).
Proof.
  unfold replay_enter. p_norm b.
  destruct (apply_request P (t_empty P) d s) as [s1 b1]. p_simp.
  p_let p_deep_enter b. reflexivity.
Qed.

Lemma p_load_core (b : bool) s :
  upd_core P (fun c : core P =>
    let c1 := set_request P c (t_clear P (request P c)) in
    let c2 := if b then set_plan P c1 (pd_clear P (plan P c1)) else c1 in
    if c_history cfg then set_previous P c2 (t_clear P (previous P c2)) else c2) (fresh s) =
  fresh (upd_core P (fun c : core P =>
    let c1 := set_request P c (t_clear P (request P c)) in
    if c_history cfg then set_previous P c1 (t_clear P (previous P c1)) else c1) s).
Proof.
  unfold fresh, upd_core. cbn [co tr]. f_equal.
  destruct b, (c_history cfg); cbn [plan set_plan set_request set_requested set_active set_previous
    active requested request previous logger]; rewrite ?pd0_pd_clear; reflexivity.
Qed.

Lemma p_base_load b buf cu s :
  base_load P (cfgP b) orc buf cu (fresh s) = fresh (base_load P cfg0 orc buf cu (fresh s)).
Proof.
  unfold base_load. p_norm b. destruct (read buf cu (width_bits cfg)) as [v c1]. p_simp.
  rewrite (p_load_core b), (p_load_core false). apply p_deep_change_to_requested.
Qed.

Lemma p_load_enter b buf cu s :
  load_enter P (cfgP b) orc buf cu (fresh s) = fresh (load_enter P cfg0 orc buf cu (fresh s)).
Proof.
  unfold load_enter. p_norm b. destruct (read buf cu (width_bits cfg)) as [v c1]. p_simp.
  apply p_deep_enter.
Qed.

Lemma p_load b buf s : load P (cfgP b) orc buf (fresh s) = fresh (load P cfg0 orc buf (fresh s)).
Proof.
  unfold load. p_norm b. destruct (read buf 0 1) as [flag c1].
  destruct (c_manual cfg), (negb (flag =? 0)%N), (machine_is_active P (co P s));
    auto using p_base_load, p_load_enter, p_final_exit.
Qed.

(* one API operation that is not a plan operation *)
Lemma p_step b s op : no_plan_op op ->
  step P (cfgP b) orc (fresh s) op = fB (step P cfg0 orc (fresh s) op).
Proof.
  intros Hop. destruct op; cbn [no_plan_op] in Hop; try contradiction; cbn [step];
    rewrite ?(p_initial_enter b), ?(p_final_exit b), ?(p_update b), ?(p_react b), ?(p_query b), ?(p_change_to b),
      ?(p_immediate_change_to b), ?(p_load b), ?(p_replay_enter b); try reflexivity.
  - rewrite (p_replay_transition b). destruct (replay_transition P cfg0 orc d (fresh s)) as [s1 r]. reflexivity.
Qed.

Lemma p_run_from b : forall ops s, Forall no_plan_op ops ->
  run_from P (cfgP b) orc (fresh s) ops = fresh (run_from P cfg0 orc (fresh s) ops).
Proof.
  unfold run_from. induction ops as [|op ops IH]; intros s Hops; cbn [fold_left]; [reflexivity|].
  inversion Hops as [|? ? Hop Hrest]; subst.
  rewrite (p_step false s op Hop), (p_step b s op Hop). rewrite !fst_fB. apply IH. exact Hrest.
Qed.

Lemma p_rets_from b : forall ops s, Forall no_plan_op ops ->
  rets_from P (cfgP b) orc (fresh s) ops = rets_from P cfg0 orc (fresh s) ops.
Proof.
  induction ops as [|op ops IH]; intros s Hops; cbn [rets_from]; [reflexivity|].
  inversion Hops as [|? ? Hop Hrest]; subst.
  rewrite (p_step false s op Hop), (p_step b s op Hop). rewrite !fst_fB, !snd_fB.
  rewrite IH by exact Hrest. reflexivity.
Qed.

Lemma p_construct b lg : construct P (cfgP b) orc lg = fresh (construct P cfg0 orc lg).
Proof.
  unfold construct. cbn zeta. p_norm b.
  set (S0 := {| co := core_init P cfg0 lg; tr := [] |}).
  change {| co := core_init P (cfgP b) lg; tr := [] |} with (fresh S0).
  destruct (c_manual cfg); [reflexivity|].
  rewrite (p_initial_enter b). apply f_equal. apply f_equal. reflexivity.
Qed.

Lemma p_destroy b s : destroy P (cfgP b) orc (fresh s) = fresh (destroy P cfg0 orc (fresh s)).
Proof. unfold destroy. p_norm b. destruct (c_manual cfg); [reflexivity|apply p_final_exit]. Qed.

(* ---- the general case: any idle plan data on the side with plans compiled in, any plan data at all on the side
   without. Left: [cfgP b] from a state whose plan data is idle if b = true; right: [cfg0] from the same
   state with the plan data replaced by the constructed one. ---- *)
Definition Gd (b : bool) (d : plan_data P) : Prop := b = true -> PlanIdle P d.
Definition GS (b : bool) (s : mstate P) : Prop := Gd b (plan P (co P s)).
Definition GP (b : bool) (sk : mstate P * ctl P) : Prop := GS b (fst sk) /\ k_status P (snd sk) = SNone.

Lemma fresh_upd_plan g s : fresh (upd_plan P g s) = fresh s. Proof. reflexivity. Qed.
Hint Rewrite fresh_upd_plan : pp.

Lemma GS_fresh b s : GS b (fresh s).
Proof. intros _. apply pd0_idle. Qed.
Lemma GS_emit b e s : GS b s -> GS b (emit P e s).
Proof. intros H. exact H. Qed.
Lemma GS_log_rec b l s : GS b s -> GS b (log_rec P cfg l s).
Proof. intros H. unfold log_rec. destruct (log_compiled cfg && logger P (co P s)); exact H. Qed.
Lemma GS_upd_core b f s : (forall c, plan P (f c) = plan P c) -> GS b s -> GS b (upd_core P f s).
Proof. intros Hf H. unfold GS, upd_core. cbn [co]. rewrite Hf. exact H. Qed.
Lemma GS_upd_plan b g s : (forall d, PlanIdle P d -> PlanIdle P (g d)) -> GS b s -> GS b (upd_plan P g s).
Proof. intros Hg H Hb. apply Hg, H, Hb. Qed.

Lemma idle_statuses d h u : h = SNone -> u = SNone -> PlanIdle P d -> PlanIdle P (pd_with_statuses P d h u).
Proof. intros -> -> (H1 & H2 & H3 & H4). repeat split; assumption. Qed.
Lemma idle_clear_task_status d sid : PlanIdle P d -> PlanIdle P (pd_clear_task_status P d sid).
Proof. intros H. unfold pd_clear_task_status. destruct (sid =? INVALID); exact H. Qed.
Lemma idle_plan_clear d : PlanIdle P d -> PlanIdle P (plan_clear P (c_cap cfg) (c_n cfg) d).
Proof.
  intros H. unfold plan_clear, plan_clear_tasks. destruct H as (H1 & H2 & H3 & H4).
  rewrite H4, (INVALID_not_below _ Hcap). repeat split; assumption.
Qed.
Lemma idle_pd_clear d : PlanIdle P (pd_clear P d).
Proof. repeat split. Qed.

Lemma g_mk_view b o k s : GS b s -> mk_view P (cfgP b) o k (co P s) = mk_view P cfg0 o k (co P s).
Proof.
  intros H. unfold mk_view. cfgnorm b. cfgnorm false. destruct b; [|reflexivity].
  rewrite (idle_plan_tasks P _ Hcap _ (H eq_refl)). destruct (k_kind P k); reflexivity.
Qed.

Lemma calm_eta k : k_status P k = SNone -> calm k = k.
Proof. destruct k as [kd cu pe st ca]. cbn [k_status]. intros ->. reflexivity. Qed.

Lemma g_perform b origin a s k : no_plan_action a -> GP b (s, k) ->
  f3 (perform P (cfgP b) origin a (s, k)) = perform P cfg0 origin a (fresh s, calm k) /\
  GP b (fst (perform P (cfgP b) origin a (s, k))).
Proof.
  intros Ha [HS HK]. cbn [fst snd] in HS, HK.
  destruct a as [d|d p| |so|so|o d|o d p| |i]; cbn [no_plan_action] in Ha; try contradiction;
    cbn [perform]; p_norm b.
  - destruct (can_change (k_kind P k)); p_simp; (split; [reflexivity|]); split; cbn [fst snd]; auto.
    apply GS_log_rec, GS_upd_core; auto.
  - destruct (can_change (k_kind P k) && c_payload cfg); p_simp; (split; [reflexivity|]); split; cbn [fst snd]; auto.
    apply GS_log_rec, GS_upd_core; auto.
  - destruct (k_kind P k); p_simp; (split; [reflexivity|]); split; cbn [fst snd]; auto.
    apply GS_log_rec; auto.
Qed.

Lemma g_perform_all b origin : forall acts s k, Forall no_plan_action acts -> GP b (s, k) ->
  fP (perform_all P (cfgP b) origin acts (s, k)) = perform_all P cfg0 origin acts (fresh s, calm k) /\
  GP b (perform_all P (cfgP b) origin acts (s, k)).
Proof.
  unfold perform_all. induction acts as [|a acts IH]; intros s k Hacts HG; cbn [fold_left]; [split; [reflexivity|exact HG]|].
  inversion Hacts as [|? ? Ha Hrest]; subst.
  destruct (g_perform b origin a s k Ha HG) as [E I]. rewrite <- E.
  destruct (perform P (cfgP b) origin a (s, k)) as [[s1 k1] res]. p_simp. cbn [fst] in I.
  apply IH; [exact Hrest|]. destruct I as [I1 I2]. split; assumption.
Qed.

Lemma g_invoke b w r m s k : GP b (s, k) ->
  fP (invoke P (cfgP b) orc w r m (s, k)) = invoke P cfg0 orc w r m (fresh s, calm k) /\
  GP b (invoke P (cfgP b) orc w r m (s, k)).
Proof.
  intros HG. unfold invoke. rewrite (g_mk_view b _ k s (proj1 HG)), (p_mk_view false). p_simp.
  apply g_perform_all; [apply Horc|]. destruct HG as [I1 I2]. split; assumption.
Qed.

Lemma g_deliver b w m s k : GP b (s, k) ->
  fP (deliver P (cfgP b) orc w m (s, k)) = deliver P cfg0 orc w m (fresh s, calm k) /\
  GP b (deliver P (cfgP b) orc w m (s, k)).
Proof.
  intros HG. unfold deliver. p_norm b.
  assert (E : (if logs cfg w m then fresh (log_rec P cfg (LMethod (id_of w) m) s) else fresh s) =
              fresh (if logs cfg w m then log_rec P cfg (LMethod (id_of w) m) s else s)).
  { destruct (logs cfg w m); reflexivity. }
  rewrite E.
  assert (HG1 : GP b (if logs cfg w m then log_rec P cfg (LMethod (id_of w) m) s else s, k)).
  { destruct HG as [I1 I2]. split; [|exact I2]. cbn [fst]. destruct (logs cfg w m); [apply GS_log_rec|]; exact I1. }
  remember (if logs cfg w m then log_rec P cfg (LMethod (id_of w) m) s else s) as s1 eqn:Es1.
  clear HG E Es1.
  destruct (exists_who cfg w); [|split; [reflexivity|exact HG1]].
  generalize (deep_order m (inj_of cfg w)). intros rs. revert s1 k HG1.
  induction rs as [|r rs IH]; intros s1 k HG1; cbn [fold_left]; [split; [reflexivity|exact HG1]|].
  destruct (delivers cfg w r m); [|apply IH; exact HG1].
  destruct (g_invoke b w r m s1 k HG1) as [E I]. rewrite <- E.
  destruct (invoke P (cfgP b) orc w r m (s1, k)) as [s2 k2]. p_simp. apply IH. exact I.
Qed.

Lemma g_deliver_guard b w m s k : GP b (s, k) ->
  f3 (deliver_guard P (cfgP b) orc w m (s, k)) = deliver_guard P cfg0 orc w m (fresh s, calm k) /\
  GP b (fst (deliver_guard P (cfgP b) orc w m (s, k))).
Proof.
  intros HG. unfold deliver_guard. cbn [snd]. destruct (g_deliver b w m s k HG) as [E I]. rewrite <- E.
  destruct (deliver P (cfgP b) orc w m (s, k)) as [s1 k1]. p_simp. split; [reflexivity|exact I].
Qed.

Ltac p_simp_in H := repeat (progress (autorewrite with pp in H; cbn beta iota in H)).
(* [L] : fP (f (cfgP b) x) = f cfg0 x' /\ GP b (f (cfgP b) x), an instance of the callee's lemma whose
   right-hand call occurs in the goal: name the callee's result and keep what is known of it *)
Tactic Notation "g_bind" constr(L) "as" ident(I) :=
  let E := fresh "E" in
  destruct L as [E I]; p_simp_in E; rewrite <- E; clear E;
  match type of I with
  | GP _ (fst ?D) => destruct D as [[? ?] ?]
  | GP _ ?D => destruct D as [? ?]
  | GS _ (fst ?D) => destruct D as [? ?]
  | GS _ ?D => revert I; generalize D; intros ? I
  end; unfold GP in I; cbn [fst snd] in I; p_simp.

Lemma GP_intro b s k : GS b s -> k_status P k = SNone -> GP b (s, k).
Proof. intros H1 H2. split; assumption. Qed.

(* the region statuses stay NONE *)
Ltac idle_st :=
  let d := fresh "d" in let Hd := fresh "Hd" in
  let H2 := fresh "H" in let H3 := fresh "H" in
  intros d Hd; apply idle_statuses; [| |exact Hd]; destruct Hd as (_ & H2 & H3 & _); rewrite ?H2, ?H3;
  try destruct (c_head cfg); reflexivity.

Lemma g_region_phase b m post s k : GP b (s, k) ->
  fP (region_phase P (cfgP b) orc m post (s, k)) = region_phase P cfg0 orc m post (fresh s, calm k) /\
  GP b (region_phase P (cfgP b) orc m post (s, k)).
Proof.
  intros HG. unfold region_phase. cbn [fst snd]. p_norm b. destruct post.
  - g_bind (g_deliver b (leaf cfg (active P (co P s))) m s k HG) as HI. destruct HI as [I1 I2].
    rewrite I2.
    match goal with |- context [deliver P (cfgP b) orc Root m (?x, ?y)] =>
      assert (HG1 : GP b (x, y)) by (apply GP_intro; [apply GS_upd_plan; [idle_st|exact I1]|exact I2]);
      g_bind (g_deliver b Root m x y HG1) as HJ end.
    destruct HJ as [J1 J2]. rewrite J2.
    split; [reflexivity|]. apply GP_intro; [|reflexivity]. apply GS_upd_plan; [idle_st|exact J1].
  - g_bind (g_deliver b Root m s k HG) as HI. destruct HI as [I1 I2].
    rewrite I2.
    match goal with |- context [deliver P (cfgP b) orc ?w m (?x, ?y)] =>
      assert (HG1 : GP b (x, y)) by (apply GP_intro; [apply GS_upd_plan; [idle_st|exact I1]|exact I2]);
      g_bind (g_deliver b w m x y HG1) as HJ end.
    destruct HJ as [J1 J2]. rewrite J2.
    split; [reflexivity|]. apply GP_intro; [|reflexivity]. apply GS_upd_plan; [idle_st|exact J1].
Qed.

Lemma GS_apply_request b cur d s : GS b s -> GS b (fst (apply_request P cur d s)).
Proof. intros H. unfold apply_request. destruct (t_neq P cur (t_to P d)); exact H. Qed.

Lemma g_cancelled_by_guards b cur pend s : GS b s ->
  fB (cancelled_by_guards P (cfgP b) orc cur pend s) = cancelled_by_guards P cfg0 orc cur pend (fresh s) /\
  GS b (fst (cancelled_by_guards P (cfgP b) orc cur pend s)).
Proof.
  intros HS. unfold cancelled_by_guards. rewrite mk_ctl_calm. p_norm b.
  g_bind (g_deliver_guard b (leaf cfg (active P (co P s))) MExitGuard s (calm (mk_ctl P KGuard cur pend))
            (GP_intro b s (calm (mk_ctl P KGuard cur pend)) HS eq_refl)) as HI.
  destruct HI as [I1 I2]. destruct b0; [split; [reflexivity|exact I1]|].
  match goal with |- context [deliver_guard P (cfgP b) orc ?w MEntryGuard (?x, ?y)] =>
    g_bind (g_deliver_guard b w MEntryGuard x y (GP_intro b x y I1 I2)) as HJ end.
  destruct HJ as [J1 J2]. split; [reflexivity|exact J1].
Qed.

Lemma g_cancelled_by_entry_guards b cur pend s : GS b s ->
  fB (cancelled_by_entry_guards P (cfgP b) orc cur pend s) = cancelled_by_entry_guards P cfg0 orc cur pend (fresh s) /\
  GS b (fst (cancelled_by_entry_guards P (cfgP b) orc cur pend s)).
Proof.
  intros HS. unfold cancelled_by_entry_guards. rewrite mk_ctl_calm. p_norm b.
  g_bind (g_deliver_guard b Root MEntryGuard s (calm (mk_ctl P KGuard cur pend))
            (GP_intro b s (calm (mk_ctl P KGuard cur pend)) HS eq_refl)) as HI.
  destruct HI as [I1 I2]. destruct b0; [split; [reflexivity|exact I1]|].
  match goal with |- context [deliver_guard P (cfgP b) orc ?w MEntryGuard (?x, ?y)] =>
    g_bind (g_deliver_guard b w MEntryGuard x y (GP_intro b x y I1 I2)) as HJ end.
  destruct HJ as [J1 J2]. split; [reflexivity|exact J1].
Qed.

Lemma g_state_exit b w k s : GP b (s, k) ->
  fresh (state_exit P (cfgP b) orc w k s) = state_exit P cfg0 orc w (calm k) (fresh s) /\
  GS b (state_exit P (cfgP b) orc w k s).
Proof.
  intros HG. unfold state_exit. p_norm b. g_bind (g_deliver b w MExit s k HG) as HI. destruct HI as [I1 I2].
  destruct (exists_who cfg w); p_simp; (split; [reflexivity|]); [|exact I1].
  apply GS_upd_plan; [|exact I1]. intros d. apply idle_clear_task_status.
Qed.

Lemma g_deep_change_to_requested b cur s : GS b s ->
  fresh (deep_change_to_requested P (cfgP b) orc cur s) = deep_change_to_requested P cfg0 orc cur (fresh s) /\
  GS b (deep_change_to_requested P (cfgP b) orc cur s).
Proof.
  intros HS. unfold deep_change_to_requested. cbn zeta. rewrite mk_ctl_calm. p_norm b.
  set (k0 := mk_ctl P KPlan cur (t_empty P)).
  destruct (negb (requested P (co P s) =? active P (co P s))).
  - g_bind (g_state_exit b (leaf cfg (active P (co P s))) (calm k0) s (GP_intro b s (calm k0) HS eq_refl)) as HI.
    match goal with |- context [deliver P (cfgP b) orc ?w MEnter (?x, (calm k0))] =>
      assert (HG1 : GP b (x, (calm k0))) by (apply GP_intro; [apply GS_upd_core; [reflexivity|exact HI]|reflexivity]);
      destruct (g_deliver b w MEnter x (calm k0) HG1) as [E J] end.
    p_simp_in E. rewrite <- E. p_simp. split; [reflexivity|apply J].
  - match goal with |- context [deliver P (cfgP b) orc ?w MReenter (?x, (calm k0))] =>
      assert (HG1 : GP b (x, (calm k0))) by (apply GP_intro; [apply GS_upd_core; [reflexivity|exact HS]|reflexivity]);
      destruct (g_deliver b w MReenter x (calm k0) HG1) as [E J] end.
    p_simp_in E. rewrite <- E. p_simp. split; [reflexivity|apply J].
Qed.

Lemma g_deep_enter b cur s : GS b s ->
  fresh (deep_enter P (cfgP b) orc cur s) = deep_enter P cfg0 orc cur (fresh s) /\
  GS b (deep_enter P (cfgP b) orc cur s).
Proof.
  intros HS. unfold deep_enter. cbn zeta. rewrite mk_ctl_calm. p_norm b.
  set (k0 := mk_ctl P KPlan cur (t_empty P)).
  match goal with |- context [deliver P (cfgP b) orc Root MEnter (?x, (calm k0))] =>
    assert (HG1 : GP b (x, (calm k0))) by (apply GP_intro; [apply GS_upd_core; [reflexivity|exact HS]|reflexivity]);
    g_bind (g_deliver b Root MEnter x (calm k0) HG1) as HI end.
  destruct HI as [I1 I2].
  match goal with |- context [deliver P (cfgP b) orc ?w MEnter (?x, ?y)] =>
    destruct (g_deliver b w MEnter x y (GP_intro b x y I1 I2)) as [E J] end.
  p_simp_in E. rewrite <- E. p_simp. split; [reflexivity|apply J].
Qed.

Lemma g_deep_exit b s : GS b s ->
  fresh (deep_exit P (cfgP b) orc s) = deep_exit P cfg0 orc (fresh s) /\ GS b (deep_exit P (cfgP b) orc s).
Proof.
  intros HS. unfold deep_exit. cbn zeta. rewrite mk_ctl_calm. p_norm b.
  set (k0 := mk_ctl P KPlan (t_empty P) (t_empty P)).
  g_bind (g_state_exit b (leaf cfg (active P (co P s))) (calm k0) s (GP_intro b s (calm k0) HS eq_refl)) as HI.
  match goal with |- context [state_exit P (cfgP b) orc Root (calm k0) ?x] =>
    g_bind (g_state_exit b Root (calm k0) x (GP_intro b x (calm k0) HI eq_refl)) as HJ end.
  destruct b; p_simp; (split; [reflexivity|]).
  - apply GS_upd_plan; [intros d; apply idle_plan_clear|]. apply GS_upd_core; [reflexivity|exact HJ].
  - apply GS_upd_core; [reflexivity|exact HJ].
Qed.

Lemma g_transitions_loop b : forall fuel cur s, GS b s ->
  fB (transitions_loop P (cfgP b) orc fuel cur s) = transitions_loop P cfg0 orc fuel cur (fresh s) /\
  GS b (fst (transitions_loop P (cfgP b) orc fuel cur s)).
Proof.
  induction fuel as [|f IH]; intros cur s HS; cbn [transitions_loop]; [split; [reflexivity|exact HS]|]. p_norm b.
  destruct (t_valid P (request P (co P s))); [|split; [reflexivity|exact HS]].
  pose proof (GS_apply_request b cur (t_dest P (request P (co P s))) s HS) as HA.
  destruct (apply_request P cur (t_dest P (request P (co P s))) s) as [s1 applied]. cbn [fst] in HA. p_simp.
  destruct applied.
  - match goal with |- context [cancelled_by_guards P (cfgP b) orc cur ?pe ?x] =>
      assert (HS1 : GS b x) by (apply GS_upd_core; [reflexivity|exact HA]);
      g_bind (g_cancelled_by_guards b cur pe x HS1) as HI end.
    destruct b0; apply IH; [apply GS_upd_core; [reflexivity|exact HI]|exact HI].
  - apply IH. apply GS_upd_core; [reflexivity|exact HA].
Qed.

Lemma g_initial_loop b : forall fuel cur s, GS b s ->
  fB (initial_loop P (cfgP b) orc fuel cur s) = initial_loop P cfg0 orc fuel cur (fresh s) /\
  GS b (fst (initial_loop P (cfgP b) orc fuel cur s)).
Proof.
  induction fuel as [|f IH]; intros cur s HS; cbn [initial_loop]; [split; [reflexivity|exact HS]|]. p_norm b.
  destruct (t_valid P (request P (co P s))); [|split; [reflexivity|exact HS]].
  pose proof (GS_apply_request b cur (t_dest P (request P (co P s))) s HS) as HA.
  destruct (apply_request P cur (t_dest P (request P (co P s))) s) as [s1 applied]. cbn [fst] in HA. p_simp.
  destruct applied.
  - match goal with |- context [cancelled_by_entry_guards P (cfgP b) orc cur ?pe ?x] =>
      assert (HS1 : GS b x) by (apply GS_upd_core; [reflexivity|exact HA]);
      g_bind (g_cancelled_by_entry_guards b cur pe x HS1) as HI end.
    destruct b0; apply IH; [apply GS_upd_core; [reflexivity|exact HI]|exact HI].
  - apply IH. apply GS_upd_core; [reflexivity|exact HA].
Qed.

Lemma g_process_transitions b s : GS b s ->
  fB (process_transitions P (cfgP b) orc s) = process_transitions P cfg0 orc (fresh s) /\
  GS b (fst (process_transitions P (cfgP b) orc s)).
Proof.
  intros HS. unfold process_transitions. p_norm b.
  g_bind (g_transitions_loop b (c_limit cfg) (t_empty P) s HS) as HI.
  destruct (t_valid P t).
  - g_bind (g_deep_change_to_requested b t m HI) as HJ. split; [reflexivity|].
    apply GS_upd_core; [reflexivity|exact HJ].
  - split; [reflexivity|]. apply GS_upd_core; [reflexivity|exact HI].
Qed.

Lemma g_process_request b s : GS b s ->
  fresh (process_request P (cfgP b) orc s) = process_request P cfg0 orc (fresh s) /\
  GS b (process_request P (cfgP b) orc s).
Proof.
  intros HS. unfold process_request. p_norm b.
  destruct (t_valid P (request P (co P s))).
  - g_bind (g_process_transitions b s HS) as HI.
    destruct (c_history cfg); p_simp; (split; [reflexivity|]); [apply GS_upd_core; [reflexivity|]|]; exact HI.
  - destruct (c_history cfg); p_simp; (split; [reflexivity|]); [apply GS_upd_core; [reflexivity|]|]; exact HS.
Qed.

Lemma g_initial_enter b s : GS b s ->
  fresh (initial_enter P (cfgP b) orc s) = initial_enter P cfg0 orc (fresh s) /\
  GS b (initial_enter P (cfgP b) orc s).
Proof.
  intros HS. unfold initial_enter. p_norm b.
  pose proof (GS_apply_request b (t_empty P) 0 s HS) as HA.
  destruct (apply_request P (t_empty P) 0 s) as [s1 b1]. cbn [fst] in HA. p_simp.
  g_bind (g_cancelled_by_entry_guards b (t_empty P) (t_empty P) s1 HA) as HI.
  g_bind (g_initial_loop b (c_limit cfg) (t_empty P) m HI) as HJ.
  destruct (c_history cfg); p_simp.
  - match goal with |- context [deep_enter P (cfgP b) orc t ?x] =>
      assert (HS1 : GS b x) by (apply GS_upd_core; [reflexivity|exact HJ]);
      g_bind (g_deep_enter b t x HS1) as HK end.
    split; [reflexivity|]. apply GS_upd_core; [reflexivity|exact HK].
  - g_bind (g_deep_enter b t m0 HJ) as HK.
    split; [reflexivity|]. apply GS_upd_core; [reflexivity|exact HK].
Qed.

Lemma g_final_exit b s : GS b s ->
  fresh (final_exit P (cfgP b) orc s) = final_exit P cfg0 orc (fresh s) /\ GS b (final_exit P (cfgP b) orc s).
Proof.
  intros HS. unfold final_exit. p_norm b. g_bind (g_deep_exit b s HS) as HI.
  rewrite (p_reset_core false). split.
  - unfold fresh, upd_core. cbn [co tr]. f_equal.
    destruct b, (c_history cfg); reflexivity.
  - intros Hb. subst b. unfold upd_core. cbn [co]. destruct (c_history cfg); apply idle_pd_clear.
Qed.

Lemma g_cycle b m1 m2 m3 s : GS b s ->
  fresh (cycle P (cfgP b) orc m1 m2 m3 s) = cycle P cfg0 orc m1 m2 m3 (fresh s) /\
  GS b (cycle P (cfgP b) orc m1 m2 m3 s).
Proof.
  intros HS. unfold cycle. cbn zeta. rewrite mk_ctl_calm. p_norm b.
  set (k0 := mk_ctl P KFull (t_empty P) (t_empty P)).
  destruct (g_region_phase b m1 false s (calm k0) (GP_intro b s (calm k0) HS eq_refl)) as [E1 I1].
  p_simp_in E1. rewrite <- E1. clear E1.
  destruct (region_phase P (cfgP b) orc m1 false (s, calm k0)) as [s1 k1].
  destruct (g_region_phase b m2 false s1 k1 I1) as [E2 I2]. rewrite fP_pair. rewrite <- E2. clear E2.
  destruct (region_phase P (cfgP b) orc m2 false (s1, k1)) as [s2 k2].
  destruct (g_region_phase b m3 true s2 k2 I2) as [E3 I3]. rewrite fP_pair. rewrite <- E3. clear E3.
  destruct (region_phase P (cfgP b) orc m3 true (s2, k2)) as [s3 k3]. p_simp.
  destruct I3 as [J1 J2]. cbn [fst snd] in J1, J2.
  destruct b.
  - rewrite deep_update_plans_idle by (cbn [fst]; apply (J1 eq_refl)).
    assert (HS3 : GS true (upd_plan P (pd_clear_region_statuses P) s3)).
    { apply GS_upd_plan; [|exact J1]. intros d (H1 & H2 & H3 & H4). repeat split; assumption. }
    destruct (g_process_request true _ HS3) as [E4 I4]. p_simp_in E4. split; [exact E4|exact I4].
  - apply g_process_request. exact J1.
Qed.

Lemma g_query b s : GS b s ->
  fresh (query P (cfgP b) orc s) = query P cfg0 orc (fresh s) /\ GS b (query P (cfgP b) orc s).
Proof.
  intros HS. unfold query. cbn zeta. rewrite mk_ctl_calm. p_norm b.
  set (k0 := mk_ctl P KConst (t_empty P) (t_empty P)).
  g_bind (g_deliver b Root MQuery s (calm k0) (GP_intro b s (calm k0) HS eq_refl)) as HI. destruct HI as [I1 I2].
  match goal with |- context [deliver P (cfgP b) orc ?w MQuery (?x, ?y)] =>
    destruct (g_deliver b w MQuery x y (GP_intro b x y I1 I2)) as [E J] end.
  p_simp_in E. rewrite <- E. p_simp. split; [reflexivity|apply J].
Qed.

Lemma g_change_to b d p s : GS b s ->
  fresh (change_to P (cfgP b) d p s) = change_to P cfg0 d p (fresh s) /\ GS b (change_to P (cfgP b) d p s).
Proof.
  intros HS. unfold change_to. p_norm b. split; [reflexivity|].
  apply GS_log_rec, GS_upd_core; [reflexivity|exact HS].
Qed.

Lemma g_immediate_change_to b d p s : GS b s ->
  fresh (immediate_change_to P (cfgP b) orc d p s) = immediate_change_to P cfg0 orc d p (fresh s) /\
  GS b (immediate_change_to P (cfgP b) orc d p s).
Proof.
  intros HS. unfold immediate_change_to. g_bind (g_change_to b d p s HS) as HI. apply g_process_request. exact HI.
Qed.

Lemma g_replay_transition b d s : GS b s ->
  fB (replay_transition P (cfgP b) orc d s) = replay_transition P cfg0 orc d (fresh s) /\
  GS b (fst (replay_transition P (cfgP b) orc d s)).
Proof.
  intros HS. unfold replay_transition. destruct (negb (d =? INVALID)); [|split; [reflexivity|exact HS]]. p_norm b.
  match goal with |- context [apply_request P (t_empty P) d ?x] =>
    assert (HS0 : GS b x) by (apply GS_upd_core; [reflexivity|exact HS]);
    pose proof (GS_apply_request b (t_empty P) d x HS0) as HA;
    destruct (apply_request P (t_empty P) d x) as [s1 b1] end.
  cbn [fst] in HA. p_simp.
  match goal with |- context [deep_change_to_requested P (cfgP b) orc (t_empty P) ?x] =>
    assert (HS1 : GS b x) by (apply GS_upd_core; [reflexivity|exact HA]);
    g_bind (g_deep_change_to_requested b (t_empty P) x HS1) as HI end.
  split; [reflexivity|]. apply GS_upd_core; [reflexivity|exact HI].
Qed.

Lemma g_replay_enter b d s : GS b s ->
  fresh (replay_enter P (cfgP b) orc d s) = replay_enter P cfg0 orc d (fresh s) /\
  GS b (replay_enter P (cfgP b) orc d s).
Proof.
  intros HS. unfold replay_enter. p_norm b.
  pose proof (GS_apply_request b (t_empty P) d s HS) as HA.
  destruct (apply_request P (t_empty P) d s) as [s1 b1]. cbn [fst] in HA. p_simp.
  match goal with |- context [deep_enter P (cfgP b) orc (t_empty P) ?x] =>
    assert (HS1 : GS b x) by (apply GS_upd_core; [reflexivity|exact HA]);
    g_bind (g_deep_enter b (t_empty P) x HS1) as HI end.
  split; [reflexivity|]. apply GS_upd_core; [reflexivity|exact HI].
Qed.

Lemma g_base_load b buf cu s : GS b s ->
  fresh (base_load P (cfgP b) orc buf cu s) = base_load P cfg0 orc buf cu (fresh s) /\
  GS b (base_load P (cfgP b) orc buf cu s).
Proof.
  intros HS. unfold base_load. p_norm b. destruct (read buf cu (width_bits cfg)) as [v c1]. p_simp.
  rewrite (p_load_core false).
  match goal with |- context [deep_change_to_requested P (cfgP b) orc (t_empty P) ?x] =>
    assert (HS1 : GS b x) end.
  { intros Hb. subst b. unfold upd_core. cbn [co]. destruct (c_history cfg); apply idle_pd_clear. }
  match goal with |- context [deep_change_to_requested P (cfgP b) orc (t_empty P) ?x] =>
    destruct (g_deep_change_to_requested b (t_empty P) x HS1) as [E J] end.
  split; [|exact J]. rewrite E. apply f_equal.
  unfold fresh, upd_core. cbn [co tr]. f_equal. destruct b, (c_history cfg); reflexivity.
Qed.

Lemma g_load_enter b buf cu s : GS b s ->
  fresh (load_enter P (cfgP b) orc buf cu s) = load_enter P cfg0 orc buf cu (fresh s) /\
  GS b (load_enter P (cfgP b) orc buf cu s).
Proof.
  intros HS. unfold load_enter. p_norm b. destruct (read buf cu (width_bits cfg)) as [v c1]. p_simp.
  match goal with |- context [deep_enter P (cfgP b) orc (t_empty P) ?x] =>
    assert (HS1 : GS b x) by (apply GS_upd_core; [reflexivity|exact HS]);
    destruct (g_deep_enter b (t_empty P) x HS1) as [E J] end.
  p_simp_in E. split; [exact E|exact J].
Qed.

Lemma g_load b buf s : GS b s ->
  fresh (load P (cfgP b) orc buf s) = load P cfg0 orc buf (fresh s) /\ GS b (load P (cfgP b) orc buf s).
Proof.
  intros HS. unfold load. p_norm b. destruct (read buf 0 1) as [flag c1].
  destruct (c_manual cfg), (negb (flag =? 0)%N), (machine_is_active P (co P s));
    auto using g_base_load, g_load_enter, g_final_exit.
Qed.

(* one API operation that is not a plan operation *)
Lemma g_step b s op : no_plan_op op -> GS b s ->
  fB (step P (cfgP b) orc s op) = step P cfg0 orc (fresh s) op /\ GS b (fst (step P (cfgP b) orc s op)).
Proof.
  intros Hop HS. destruct op; cbn [no_plan_op] in Hop; try contradiction; cbn [step fst].
  - destruct (g_initial_enter b s HS) as [E J]. rewrite <- E. split; [reflexivity|exact J].
  - destruct (g_final_exit b s HS) as [E J]. rewrite <- E. split; [reflexivity|exact J].
  - destruct (g_cycle b MPreUpdate MUpdate MPostUpdate s HS) as [E J]. unfold update. rewrite <- E. split; [reflexivity|exact J].
  - destruct (g_cycle b MPreReact MReact MPostReact s HS) as [E J]. unfold react. rewrite <- E. split; [reflexivity|exact J].
  - destruct (g_query b s HS) as [E J]. rewrite <- E. split; [reflexivity|exact J].
  - destruct (g_change_to b d None s HS) as [E J]. rewrite <- E. split; [reflexivity|exact J].
  - destruct (g_change_to b d (Some p) s HS) as [E J]. rewrite <- E. split; [reflexivity|exact J].
  - destruct (g_immediate_change_to b d None s HS) as [E J]. rewrite <- E. split; [reflexivity|exact J].
  - destruct (g_immediate_change_to b d (Some p) s HS) as [E J]. rewrite <- E. split; [reflexivity|exact J].
  - destruct (g_load b buf s HS) as [E J]. rewrite <- E. split; [reflexivity|exact J].
  - destruct (g_replay_enter b d s HS) as [E J]. rewrite <- E. split; [reflexivity|exact J].
  - destruct (g_replay_transition b d s HS) as [E J]. rewrite <- E.
    destruct (replay_transition P (cfgP b) orc d s) as [s1 r]. split; [reflexivity|exact J].
  - split; [reflexivity|]. apply GS_upd_core; [reflexivity|exact HS].
Qed.

Lemma g_run_from b : forall ops s, Forall no_plan_op ops -> GS b s ->
  fresh (run_from P (cfgP b) orc s ops) = run_from P cfg0 orc (fresh s) ops /\
  rets_from P (cfgP b) orc s ops = rets_from P cfg0 orc (fresh s) ops /\
  GS b (run_from P (cfgP b) orc s ops).
Proof.
  unfold run_from. induction ops as [|op ops IH]; intros s Hops HS; cbn [fold_left rets_from]; [split; [reflexivity|split; [reflexivity|exact HS]]|].
  inversion Hops as [|? ? Hop Hrest]; subst.
  destruct (g_step b s op Hop HS) as [E J]. rewrite <- E. rewrite fst_fB, snd_fB.
  destruct (IH (fst (step P (cfgP b) orc s op)) Hrest J) as (E1 & E2 & E3).
  rewrite E1, E2. split; [reflexivity|split; [reflexivity|exact E3]].
Qed.

End WithOracle.

End WithCfg.
End Plans.

Arguments fresh {P}.
Arguments fB {P} cfg {A}.

(* C19, plans: from plan data as constructed, a program that performs no plan action and no plan operation runs
   identically with plans compiled in and compiled out, and leaves the plan data exactly as constructed *)
Theorem plans_step : forall P cfg orc, c_cap cfg <= 255 -> no_plan_oracle P orc ->
  forall s op, no_plan_op P op -> plan P (co P s) = pd_init P (c_cap cfg) (c_n cfg) ->
  step P (with_plans cfg true) orc s op = step P (with_plans cfg false) orc s op /\
  plan P (co P (fst (step P (with_plans cfg true) orc s op))) = pd_init P (c_cap cfg) (c_n cfg).
Proof.
  intros P cfg orc Hcap Horc s op Hop Hs.
  rewrite <- (fresh_eta P cfg s Hs).
  rewrite (p_step P cfg Hcap orc Horc true s op Hop), <- (p_step P cfg Hcap orc Horc false s op Hop).
  split; [reflexivity|].
  rewrite (p_step P cfg Hcap orc Horc false s op Hop). reflexivity.
Qed.

Theorem plans_run_from : forall P cfg orc, c_cap cfg <= 255 -> no_plan_oracle P orc ->
  forall ops s, Forall (no_plan_op P) ops -> plan P (co P s) = pd_init P (c_cap cfg) (c_n cfg) ->
  run_from P (with_plans cfg true) orc s ops = run_from P (with_plans cfg false) orc s ops /\
  rets_from P (with_plans cfg true) orc s ops = rets_from P (with_plans cfg false) orc s ops /\
  plan P (co P (run_from P (with_plans cfg true) orc s ops)) = pd_init P (c_cap cfg) (c_n cfg).
Proof.
  intros P cfg orc Hcap Horc ops s Hops Hs.
  rewrite <- (fresh_eta P cfg s Hs).
  rewrite (p_run_from P cfg Hcap orc Horc true ops s Hops),
    <- (p_run_from P cfg Hcap orc Horc false ops s Hops).
  split; [reflexivity|]. split; [apply p_rets_from; assumption|].
  rewrite (p_run_from P cfg Hcap orc Horc false ops s Hops). reflexivity.
Qed.

Theorem plans_construct : forall P cfg orc, c_cap cfg <= 255 -> no_plan_oracle P orc -> forall lg,
  construct P (with_plans cfg true) orc lg = construct P (with_plans cfg false) orc lg /\
  plan P (co P (construct P (with_plans cfg true) orc lg)) = pd_init P (c_cap cfg) (c_n cfg).
Proof.
  intros P cfg orc Hcap Horc lg.
  rewrite (p_construct P cfg Hcap orc Horc true lg), <- (p_construct P cfg Hcap orc Horc false lg).
  split; [reflexivity|]. rewrite (p_construct P cfg Hcap orc Horc false lg). reflexivity.
Qed.

Theorem plans_run : forall P cfg orc, c_cap cfg <= 255 -> no_plan_oracle P orc ->
  forall lg ops, Forall (no_plan_op P) ops ->
  run P (with_plans cfg true) orc lg ops = run P (with_plans cfg false) orc lg ops /\
  run_rets P (with_plans cfg true) orc lg ops = run_rets P (with_plans cfg false) orc lg ops /\
  plan P (co P (run P (with_plans cfg true) orc lg ops)) = pd_init P (c_cap cfg) (c_n cfg).
Proof.
  intros P cfg orc Hcap Horc lg ops Hops. unfold run, run_rets.
  destruct (plans_construct P cfg orc Hcap Horc lg) as [Ec Hc].
  destruct (plans_run_from P cfg orc Hcap Horc ops _ Hops Hc) as (E1 & E2 & E3).
  rewrite <- Ec. auto.
Qed.

(* (a) the plan data stays idle; (c) everything but the plan data is the same (in fact the plan data too) *)
Corollary plans_run_idle : forall P cfg orc, c_cap cfg <= 255 -> no_plan_oracle P orc ->
  forall lg ops, Forall (no_plan_op P) ops ->
  PlanIdle P (plan P (co P (run P (with_plans cfg true) orc lg ops))).
Proof.
  intros P cfg orc Hcap Horc lg ops Hops.
  destruct (plans_run P cfg orc Hcap Horc lg ops Hops) as (_ & _ & E). rewrite E. apply pd0_idle.
Qed.

Lemma same_but_plan_refl P (s : mstate P) : same_but_plan P s s.
Proof. repeat split. Qed.

Corollary plans_run_same_but_plan : forall P cfg orc, c_cap cfg <= 255 -> no_plan_oracle P orc ->
  forall lg ops, Forall (no_plan_op P) ops ->
  same_but_plan P (run P (with_plans cfg true) orc lg ops) (run P (with_plans cfg false) orc lg ops).
Proof.
  intros P cfg orc Hcap Horc lg ops Hops.
  destruct (plans_run P cfg orc Hcap Horc lg ops Hops) as (E & _ & _). rewrite E. apply same_but_plan_refl.
Qed.

(* what the instance reports between API calls is the same as well *)
Theorem plans_observe : forall P cfg (c : core P), c_cap cfg <= 255 ->
  plan P c = pd_init P (c_cap cfg) (c_n cfg) ->
  observe P (with_plans cfg true) c = observe P (with_plans cfg false) c.
Proof.
  intros P cfg c Hcap Hc. unfold observe.
  change (c_plans (with_plans cfg true)) with true. change (c_plans (with_plans cfg false)) with false.
  change (c_cap (with_plans cfg true)) with (c_cap cfg). change (c_n (with_plans cfg true)) with (c_n cfg).
  cbn [andb]. rewrite Hc, (pd0_tasks P _ _ Hcap), (pd0_nonempty P _ _ Hcap). reflexivity.
Qed.

Corollary plans_run_observe : forall P cfg orc, c_cap cfg <= 255 -> no_plan_oracle P orc ->
  forall lg ops, Forall (no_plan_op P) ops ->
  observe P (with_plans cfg true) (co P (run P (with_plans cfg true) orc lg ops)) =
  observe P (with_plans cfg false) (co P (run P (with_plans cfg false) orc lg ops)).
Proof.
  intros P cfg orc Hcap Horc lg ops Hops.
  destruct (plans_run P cfg orc Hcap Horc lg ops Hops) as (E & _ & Hp). rewrite <- E.
  apply plans_observe; assumption.
Qed.

(* equal in everything but the plan data = equal once the plan data is overwritten *)
Lemma same_but_plan_fresh P cfg (s s' : mstate P) : same_but_plan P s s' <-> fresh cfg s = fresh cfg s'.
Proof.
  split.
  - intros (H1 & H2 & H3 & H4 & H5 & H6).
    destruct s as [[a rq r pv pl lg] t], s' as [[a' rq' r' pv' pl' lg'] t']. cbn in *. subst. reflexivity.
  - intros H. repeat split.
    + exact (f_equal (fun x => active P (co P x)) H).
    + exact (f_equal (fun x => requested P (co P x)) H).
    + exact (f_equal (fun x => request P (co P x)) H).
    + exact (f_equal (fun x => previous P (co P x)) H).
    + exact (f_equal (fun x => logger P (co P x)) H).
    + exact (f_equal (tr P) H).
Qed.

(* C19, plans, from any idle plan data: with plans compiled in, a program that performs no plan action and no
   plan operation keeps the plan data idle, and does everything else exactly as with plans compiled out,
   whatever plan data the latter carries *)
Theorem plans_step_idle : forall P cfg orc, c_cap cfg <= 255 -> no_plan_oracle P orc ->
  forall s s' op, no_plan_op P op -> PlanIdle P (plan P (co P s)) -> same_but_plan P s s' ->
  same_but_plan P (fst (step P (with_plans cfg true) orc s op)) (fst (step P (with_plans cfg false) orc s' op)) /\
  snd (step P (with_plans cfg true) orc s op) = snd (step P (with_plans cfg false) orc s' op) /\
  PlanIdle P (plan P (co P (fst (step P (with_plans cfg true) orc s op)))).
Proof.
  intros P cfg orc Hcap Horc s s' op Hop Hidle Hsame.
  destruct (g_step P cfg Hcap orc Horc true s op Hop (fun _ => Hidle)) as [E1 I1].
  destruct (g_step P cfg Hcap orc Horc false s' op Hop (fun H => False_ind _ (Bool.diff_false_true H))) as [E2 _].
  apply (same_but_plan_fresh P cfg) in Hsame. rewrite <- Hsame in E2.
  split; [|split].
  - apply (same_but_plan_fresh P cfg).
    exact (eq_trans (f_equal fst E1) (eq_sym (f_equal fst E2))).
  - exact (eq_trans (f_equal snd E1) (eq_sym (f_equal snd E2))).
  - exact (I1 eq_refl).
Qed.

Theorem plans_run_from_idle : forall P cfg orc, c_cap cfg <= 255 -> no_plan_oracle P orc ->
  forall ops s s', Forall (no_plan_op P) ops -> PlanIdle P (plan P (co P s)) -> same_but_plan P s s' ->
  same_but_plan P (run_from P (with_plans cfg true) orc s ops) (run_from P (with_plans cfg false) orc s' ops) /\
  rets_from P (with_plans cfg true) orc s ops = rets_from P (with_plans cfg false) orc s' ops /\
  PlanIdle P (plan P (co P (run_from P (with_plans cfg true) orc s ops))).
Proof.
  intros P cfg orc Hcap Horc ops s s' Hops Hidle Hsame.
  destruct (g_run_from P cfg Hcap orc Horc true ops s Hops (fun _ => Hidle)) as (E1 & R1 & I1).
  destruct (g_run_from P cfg Hcap orc Horc false ops s' Hops (fun H => False_ind _ (Bool.diff_false_true H)))
    as (E2 & R2 & _).
  apply (same_but_plan_fresh P cfg) in Hsame. rewrite <- Hsame in E2, R2.
  split; [|split].
  - apply (same_but_plan_fresh P cfg). rewrite E1, E2. reflexivity.
  - rewrite R1, R2. reflexivity.
  - exact (I1 eq_refl).
Qed.

(* with plans compiled out the plan data is dead weight: what it holds never matters *)
Corollary plans_off_plan_data_irrelevant : forall P cfg orc, c_cap cfg <= 255 -> no_plan_oracle P orc ->
  forall ops s s', Forall (no_plan_op P) ops -> same_but_plan P s s' ->
  same_but_plan P (run_from P (with_plans cfg false) orc s ops) (run_from P (with_plans cfg false) orc s' ops) /\
  rets_from P (with_plans cfg false) orc s ops = rets_from P (with_plans cfg false) orc s' ops.
Proof.
  intros P cfg orc Hcap Horc ops s s' Hops Hsame.
  destruct (g_run_from P cfg Hcap orc Horc false ops s Hops (fun H => False_ind _ (Bool.diff_false_true H)))
    as (E1 & R1 & _).
  destruct (g_run_from P cfg Hcap orc Horc false ops s' Hops (fun H => False_ind _ (Bool.diff_false_true H)))
    as (E2 & R2 & _).
  apply (same_but_plan_fresh P cfg) in Hsame. rewrite <- Hsame in E2, R2.
  split.
  - apply (same_but_plan_fresh P cfg). rewrite E1, E2. reflexivity.
  - rewrite R1, R2. reflexivity.
Qed.

(* ================= (4) all four switches together ================= *)
(* [cfg] with the four feature switches set: plans, serialization, transition history, log mode *)
Definition with_features (cfg : config) (pl sr h : bool) (lm : logmode) : config :=
  with_plans (with_serial (with_history (with_log cfg lm) h) sr) pl.

(* a program that uses none of the three features; the logger may be attached and detached at will *)
Definition featureless_op (P : Type) (op : api_op P) : Prop := no_history_op P op /\ no_plan_op P op.

Lemma featureless_detach P ops : Forall (featureless_op P) ops ->
  Forall (no_history_op P) (map (detach_op P) ops) /\ Forall (no_plan_op P) (map (detach_op P) ops).
Proof.
  induction ops as [|op ops IH]; intros H; cbn [map]; [split; constructor|].
  inversion H as [|? ? [Hh Hp] Hrest]; subst. destruct (IH Hrest) as [IH1 IH2].
  split; constructor; try assumption; destruct op; cbn in *; tauto.
Qed.

Lemma rets_log_transparent_gen : forall P cfg lm orc orc', log_blind P orc orc' -> forall ops s,
  rets_from P cfg orc' s ops = rets_from P (with_log cfg lm) orc (strip P s) (map (detach_op P) ops).
Proof.
  intros P cfg lm orc orc' Hb. induction ops as [|op ops IH]; intros s; cbn [rets_from map]; [reflexivity|].
  destruct (step_log_transparent_gen P cfg lm orc orc' Hb s op) as [E1 E2].
  rewrite <- E1, <- E2, <- IH. reflexivity.
Qed.

Lemma run_rets_log_transparent_gen : forall P cfg lm orc orc', log_blind P orc orc' -> forall lg ops,
  run_rets P cfg orc' lg ops = run_rets P (with_log cfg lm) orc false (map (detach_op P) ops).
Proof.
  intros P cfg lm orc orc' Hb lg ops. unfold run_rets.
  rewrite (rets_log_transparent_gen P cfg lm orc orc' Hb), (construct_log_transparent_gen P cfg lm orc orc' Hb).
  reflexivity.
Qed.

(* the run without a logger, with none of the features compiled in *)
Definition bare_run (P : Type) (cfg : config) (orc : oracle P) (ops : list (api_op P)) : mstate P :=
  run P (with_features cfg false false false LOff) orc false (map (detach_op P) ops).
Definition bare_rets (P : Type) (cfg : config) (orc : oracle P) (ops : list (api_op P)) : list (api_ret P) :=
  run_rets P (with_features cfg false false false LOff) orc false (map (detach_op P) ops).

Theorem features_transparent : forall P cfg orc orc', c_cap cfg <= 255 ->
  log_blind P orc orc' -> no_plan_oracle P orc ->
  forall ops, Forall (featureless_op P) ops -> forall pl sr h lm lg,
  strip_h P (strip P (run P (with_features cfg pl sr h lm) orc' lg ops)) = bare_run P cfg orc ops /\
  run_rets P (with_features cfg pl sr h lm) orc' lg ops = bare_rets P cfg orc ops.
Proof.
  intros P cfg orc orc' Hcap Hb Horc ops Hops pl sr h lm lg.
  destruct (featureless_detach P ops Hops) as [Hh Hp].
  set (ops' := map (detach_op P) ops) in *.
  set (X := with_history (with_log cfg LOff) false).
  assert (Hplans :
    run P (with_plans X pl) orc false ops' = run P (with_plans X false) orc false ops' /\
    run_rets P (with_plans X pl) orc false ops' = run_rets P (with_plans X false) orc false ops').
  { destruct pl; [|split; reflexivity].
    destruct (plans_run P X orc Hcap Horc false ops' Hp) as (E1 & E2 & _). split; assumption. }
  destruct Hplans as [Ep1 Ep2].
  unfold bare_run, bare_rets, with_features. fold ops'. split.
  - (* log *)
    rewrite (run_log_transparent_gen P _ LOff orc orc' Hb lg ops). fold ops'.
    (* serialization *)
    change (with_log (with_plans (with_serial (with_history (with_log cfg lm) h) sr) pl) LOff)
      with (with_serial (with_plans (with_history (with_log cfg LOff) h) pl) sr).
    rewrite serial_run.
    (* history *)
    rewrite (history_run P _ orc false ops' Hh).
    change (with_history (with_plans (with_history (with_log cfg LOff) h) pl) false) with (with_plans X pl).
    (* plans *)
    rewrite Ep1.
    change (with_plans (with_serial (with_history (with_log cfg LOff) false) false) false)
      with (with_serial (with_plans X false) false).
    rewrite serial_run. reflexivity.
  - rewrite (run_rets_log_transparent_gen P _ LOff orc orc' Hb lg ops). fold ops'.
    change (with_log (with_plans (with_serial (with_history (with_log cfg lm) h) sr) pl) LOff)
      with (with_serial (with_plans (with_history (with_log cfg LOff) h) pl) sr).
    rewrite serial_run_rets.
    rewrite (history_run_rets P _ orc false ops' Hh).
    change (with_history (with_plans (with_history (with_log cfg LOff) h) pl) false) with (with_plans X pl).
    rewrite Ep2.
    change (with_plans (with_serial (with_history (with_log cfg LOff) false) false) false)
      with (with_serial (with_plans X false) false).
    rewrite serial_run_rets. reflexivity.
Qed.

(* C19: for a program that uses none of the features, any two choices of the four switches, with any logger
   attachment, give the same run up to the logger's records and previousTransition, and the same API returns *)
Corollary features_irrelevant : forall P cfg orc orc', c_cap cfg <= 255 ->
  log_blind P orc orc' -> no_plan_oracle P orc ->
  forall ops, Forall (featureless_op P) ops -> forall pl1 sr1 h1 lm1 lg1 pl2 sr2 h2 lm2 lg2,
  strip_h P (strip P (run P (with_features cfg pl1 sr1 h1 lm1) orc' lg1 ops)) =
  strip_h P (strip P (run P (with_features cfg pl2 sr2 h2 lm2) orc' lg2 ops)) /\
  run_rets P (with_features cfg pl1 sr1 h1 lm1) orc' lg1 ops = run_rets P (with_features cfg pl2 sr2 h2 lm2) orc' lg2 ops.
Proof.
  intros P cfg orc orc' Hcap Hb Horc ops Hops pl1 sr1 h1 lm1 lg1 pl2 sr2 h2 lm2 lg2.
  destruct (features_transparent P cfg orc orc' Hcap Hb Horc ops Hops pl1 sr1 h1 lm1 lg1) as [A1 B1].
  destruct (features_transparent P cfg orc orc' Hcap Hb Horc ops Hops pl2 sr2 h2 lm2 lg2) as [A2 B2].
  rewrite A1, A2, B1, B2. split; reflexivity.
Qed.

Lemma with_features_same cfg : with_features cfg (c_plans cfg) (c_serial cfg) (c_history cfg) (c_log cfg) = cfg.
Proof. destruct cfg; reflexivity. Qed.

Lemma stripped_fields P (s t : mstate P) : strip_h P (strip P s) = strip_h P (strip P t) ->
  erase P (tr P s) = erase P (tr P t) /\ active P (co P s) = active P (co P t) /\
  requested P (co P s) = requested P (co P t) /\ request P (co P s) = request P (co P t) /\
  plan P (co P s) = plan P (co P t).
Proof.
  intros H. repeat split.
  - exact (f_equal (tr P) H).
  - exact (f_equal (fun x => active P (co P x)) H).
  - exact (f_equal (fun x => requested P (co P x)) H).
  - exact (f_equal (fun x => request P (co P x)) H).
  - exact (f_equal (fun x => plan P (co P x)) H).
Qed.

(* the same for a configuration [cfg1] and any configuration that differs from it in the four switches only:
   the callbacks delivered (with the views they saw), the actions performed (with their results), the active
   state, the pending request, the plan data and every value returned by the API are the same *)
Corollary features_irrelevant_observable : forall P cfg1 orc orc', c_cap cfg1 <= 255 ->
  log_blind P orc orc' -> no_plan_oracle P orc ->
  forall ops, Forall (featureless_op P) ops -> forall pl sr h lm lg1 lg2,
  let cfg2 := with_features cfg1 pl sr h lm in
  let l := run P cfg1 orc' lg1 ops in
  let r := run P cfg2 orc' lg2 ops in
  erase P (tr P l) = erase P (tr P r) /\ active P (co P l) = active P (co P r) /\
  requested P (co P l) = requested P (co P r) /\ request P (co P l) = request P (co P r) /\
  plan P (co P l) = plan P (co P r) /\
  run_rets P cfg1 orc' lg1 ops = run_rets P cfg2 orc' lg2 ops.
Proof.
  intros P cfg1 orc orc' Hcap Hb Horc ops Hops pl sr h lm lg1 lg2 cfg2 l r.
  destruct (features_irrelevant P cfg1 orc orc' Hcap Hb Horc ops Hops
              (c_plans cfg1) (c_serial cfg1) (c_history cfg1) (c_log cfg1) lg1 pl sr h lm lg2) as [A B].
  rewrite with_features_same in A, B.
  destruct (stripped_fields P l r A) as (F1 & F2 & F3 & F4 & F5). repeat split; assumption.
Qed.

Print Assumptions serial_step.
Print Assumptions serial_run.
Print Assumptions serial_run_rets.
Print Assumptions serial_observe.
Print Assumptions history_step.
Print Assumptions history_run.
Print Assumptions history_run_rets.
Print Assumptions history_run_on_off.
Print Assumptions history_irrelevant.
Print Assumptions history_run_fields.
Print Assumptions history_observe.
Print Assumptions plans_step.
Print Assumptions plans_run_from.
Print Assumptions plans_run.
Print Assumptions plans_run_idle.
Print Assumptions plans_run_same_but_plan.
Print Assumptions plans_run_observe.
Print Assumptions plans_step_idle.
Print Assumptions plans_run_from_idle.
Print Assumptions plans_off_plan_data_irrelevant.
Print Assumptions features_transparent.
Print Assumptions features_irrelevant.
Print Assumptions features_irrelevant_observable.
