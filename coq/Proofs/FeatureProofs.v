(* C19: enabling a feature that a program does not use never changes that program's observable behaviour.
   The compile-time switches c_serial (FFSM2_ENABLE_SERIALIZATION), c_history (FFSM2_ENABLE_TRANSITION_HISTORY)
   and c_plans (FFSM2_ENABLE_PLANS) of Model/Machine.v, each compared on and off for a program (oracle + API
   operations) that stays away from the feature; the log switch is Proofs/LogProofs.v.
   (1) Serialization: no model function reads c_serial; only [observe] does, and only for o_ser
       (serial_step, serial_run, serial_observe).
   (2) Transition history: [strip_h] (forget previousTransition) commutes with every model function, the
       right-hand side compiled without history (history_step, history_run, history_run_on_off).
   (3) Plans: from the freshly constructed plan data, a program that issues no plan action and no plan
       operation leaves the plan data untouched and runs identically with plans compiled in or out
       (plans_step, plans_run, plans_run_same_but_plan, plans_observe).
   (4) All 2^3 x 3 combinations of (plans, serial, history, log mode): features_irrelevant. *)
From Coq Require Import List Arith Bool NArith Lia.
From FFSM2 Require Import Model.TaskList Model.BitArray Model.Plan Model.Ancestors Model.Dispatch
                          Model.Bits Model.BitStream Model.Machine Model.Script Proofs.LogProofs.
Import ListNotations.

Definition with_serial (c : config) (b : bool) : config :=
  {| c_n := c_n c; c_head := c_head c; c_manual := c_manual c; c_limit := c_limit c; c_cap := c_cap c;
     c_payload := c_payload c; c_inj_root := c_inj_root c; c_inj_state := c_inj_state c;
     c_plans := c_plans c; c_serial := b; c_history := c_history c; c_log := c_log c;
     c_def_root := c_def_root c; c_def_state := c_def_state c |}.

Lemma fold_left_ext {A B} (F G : A -> B -> A) :
  (forall x b, F x b = G x b) -> forall l x, fold_left F l x = fold_left G l x.
Proof. intros H l. induction l as [|b l IH]; intros x; cbn [fold_left]; [reflexivity|]. rewrite H. apply IH. Qed.

(* destruct the scrutinee of some match of the goal (both sides read the same after rewriting) *)
Ltac split_match :=
  match goal with
  | |- context [match ?x with _ => _ end] => destruct x
  end.

Section Serial.
Variable P : Type.
Variable cfg : config.
Variable b : bool.
Local Notation cfgS := (with_serial cfg b).
Variable orc : oracle P.

Ltac cfgnorm :=
  change (c_n cfgS) with (c_n cfg); change (c_head cfgS) with (c_head cfg);
  change (c_manual cfgS) with (c_manual cfg); change (c_limit cfgS) with (c_limit cfg);
  change (c_cap cfgS) with (c_cap cfg); change (c_payload cfgS) with (c_payload cfg);
  change (c_plans cfgS) with (c_plans cfg); change (c_history cfgS) with (c_history cfg);
  change (can_plan cfgS) with (can_plan cfg); change (exists_who cfgS) with (exists_who cfg);
  change (delivers cfgS) with (delivers cfg); change (inj_of cfgS) with (inj_of cfg);
  change (logs cfgS) with (logs cfg); change (log_rec P cfgS) with (log_rec P cfg);
  change (leaf cfgS) with (leaf cfg); change (mk_view P cfgS) with (mk_view P cfg);
  change (width_bits cfgS) with (width_bits cfg); change (perform P cfgS) with (perform P cfg).

Lemma ser_perform_all origin acts sk : perform_all P cfgS origin acts sk = perform_all P cfg origin acts sk.
Proof. reflexivity. Qed.

Lemma ser_invoke w r m sk : invoke P cfgS orc w r m sk = invoke P cfg orc w r m sk.
Proof. reflexivity. Qed.

Lemma ser_deliver w m sk : deliver P cfgS orc w m sk = deliver P cfg orc w m sk.
Proof. reflexivity. Qed.
Lemma ser_deliver_guard w m sk : deliver_guard P cfgS orc w m sk = deliver_guard P cfg orc w m sk.
Proof. reflexivity. Qed.
Lemma ser_region_phase m post sk : region_phase P cfgS orc m post sk = region_phase P cfg orc m post sk.
Proof. reflexivity. Qed.

Lemma ser_plan_scan fuel curr next tc s : plan_scan P cfgS fuel curr next tc s = plan_scan P cfg fuel curr next tc s.
Proof. reflexivity. Qed.
Lemma ser_update_plan st sk : update_plan P cfgS orc st sk = update_plan P cfg orc st sk.
Proof. reflexivity. Qed.
Lemma ser_deep_update_plans sk : deep_update_plans P cfgS orc sk = deep_update_plans P cfg orc sk.
Proof. reflexivity. Qed.
Lemma ser_cancelled_by_guards cur pend s : cancelled_by_guards P cfgS orc cur pend s = cancelled_by_guards P cfg orc cur pend s.
Proof. reflexivity. Qed.
Lemma ser_cancelled_by_entry_guards cur pend s : cancelled_by_entry_guards P cfgS orc cur pend s = cancelled_by_entry_guards P cfg orc cur pend s.
Proof. reflexivity. Qed.
Lemma ser_state_exit w k s : state_exit P cfgS orc w k s = state_exit P cfg orc w k s.
Proof. reflexivity. Qed.
Lemma ser_deep_enter cur s : deep_enter P cfgS orc cur s = deep_enter P cfg orc cur s.
Proof. reflexivity. Qed.
Lemma ser_transitions_loop fuel cur s : transitions_loop P cfgS orc fuel cur s = transitions_loop P cfg orc fuel cur s.
Proof. reflexivity. Qed.
Lemma ser_initial_loop fuel cur s : initial_loop P cfgS orc fuel cur s = initial_loop P cfg orc fuel cur s.
Proof. reflexivity. Qed.
Lemma ser_initial_enter s : initial_enter P cfgS orc s = initial_enter P cfg orc s.
Proof. reflexivity. Qed.

Hint Rewrite ser_deliver ser_deliver_guard ser_region_phase ser_plan_scan ser_update_plan ser_deep_update_plans
  ser_cancelled_by_guards ser_cancelled_by_entry_guards ser_state_exit ser_deep_enter ser_transitions_loop
  ser_initial_loop ser_initial_enter : ser.
Ltac ser_go := cfgnorm; repeat (autorewrite with ser; try split_match); try reflexivity.

Lemma ser_deep_change_to_requested cur s :
  deep_change_to_requested P cfgS orc cur s = deep_change_to_requested P cfg orc cur s.
Proof. unfold deep_change_to_requested. ser_go. Qed.
Hint Rewrite ser_deep_change_to_requested : ser.
Lemma ser_deep_exit s : deep_exit P cfgS orc s = deep_exit P cfg orc s.
Proof. unfold deep_exit. ser_go. Qed.
Hint Rewrite ser_deep_exit : ser.
Lemma ser_process_transitions s : process_transitions P cfgS orc s = process_transitions P cfg orc s.
Proof. unfold process_transitions. ser_go. Qed.
Hint Rewrite ser_process_transitions : ser.
Lemma ser_process_request s : process_request P cfgS orc s = process_request P cfg orc s.
Proof. unfold process_request. ser_go. Qed.
Hint Rewrite ser_process_request : ser.
Lemma ser_final_exit s : final_exit P cfgS orc s = final_exit P cfg orc s.
Proof. unfold final_exit. ser_go. Qed.
Hint Rewrite ser_final_exit : ser.
Lemma ser_cycle m1 m2 m3 s : cycle P cfgS orc m1 m2 m3 s = cycle P cfg orc m1 m2 m3 s.
Proof. unfold cycle. ser_go. Qed.
Lemma ser_update s : update P cfgS orc s = update P cfg orc s.
Proof. apply ser_cycle. Qed.
Lemma ser_react s : react P cfgS orc s = react P cfg orc s.
Proof. apply ser_cycle. Qed.
Lemma ser_query s : query P cfgS orc s = query P cfg orc s.
Proof. unfold query. ser_go. Qed.
Lemma ser_immediate_change_to d p s : immediate_change_to P cfgS orc d p s = immediate_change_to P cfg orc d p s.
Proof. unfold immediate_change_to. change (change_to P cfgS) with (change_to P cfg). ser_go. Qed.
Lemma ser_replay_transition d s : replay_transition P cfgS orc d s = replay_transition P cfg orc d s.
Proof. unfold replay_transition. ser_go. Qed.
Lemma ser_replay_enter d s : replay_enter P cfgS orc d s = replay_enter P cfg orc d s.
Proof. unfold replay_enter. ser_go. Qed.
Lemma ser_base_load buf cu s : base_load P cfgS orc buf cu s = base_load P cfg orc buf cu s.
Proof. unfold base_load. ser_go. Qed.
Lemma ser_load_enter buf cu s : load_enter P cfgS orc buf cu s = load_enter P cfg orc buf cu s.
Proof. unfold load_enter. ser_go. Qed.
Hint Rewrite ser_base_load ser_load_enter : ser.
Lemma ser_load buf s : load P cfgS orc buf s = load P cfg orc buf s.
Proof. unfold load. ser_go. Qed.
Lemma ser_api_plan_op a s : api_plan_op P cfgS a s = api_plan_op P cfg a s.
Proof. reflexivity. Qed.

Theorem serial_step s op : step P cfgS orc s op = step P cfg orc s op.
Proof.
  destruct op; cbn [step];
    rewrite ?ser_initial_enter, ?ser_final_exit, ?ser_query, ?ser_immediate_change_to, ?ser_load,
      ?ser_replay_enter, ?ser_replay_transition, ?ser_api_plan_op, ?ser_update, ?ser_react; reflexivity.
Time Qed.

Theorem serial_run_from ops : forall s, run_from P cfgS orc s ops = run_from P cfg orc s ops.
Proof.
  unfold run_from. induction ops as [|op ops IH]; intros s; cbn [fold_left]; [reflexivity|].
  rewrite serial_step. apply IH.
Qed.

Theorem serial_construct lg : construct P cfgS orc lg = construct P cfg orc lg.
Proof. unfold construct. cbn zeta. cfgnorm. rewrite ser_initial_enter. reflexivity. Qed.

Theorem serial_run lg ops : run P cfgS orc lg ops = run P cfg orc lg ops.
Proof. unfold run. rewrite serial_construct. apply serial_run_from. Qed.

Theorem serial_destroy s : destroy P cfgS orc s = destroy P cfg orc s.
Proof. unfold destroy. cfgnorm. rewrite ser_final_exit. reflexivity. Qed.

(* the observation differs in the serialized bytes only *)
Theorem serial_observe c :
  observe P cfgS c =
  {| o_active := o_active P (observe P cfg c); o_on := o_on P (observe P cfg c); o_act := o_act P (observe P cfg c);
     o_request := o_request P (observe P cfg c); o_prev := o_prev P (observe P cfg c);
     o_plan := o_plan P (observe P cfg c); o_first := o_first P (observe P cfg c); o_last := o_last P (observe P cfg c);
     o_ser := if b then save P cfg c else [] |}.
Proof. reflexivity. Qed.
End Serial.
