(* Request processing, exactly: R_::processRequest / processTransitions / applyRequest / cancelledByGuards
   (process_request, process_transitions, transitions_loop, apply_request, cancelled_by_guards of
   Model/Machine.v). The substitution loop is instrumented with a ghost list of the rounds it ran; every
   statement about C02 (last surviving request wins, applied only when processed), C03 (guards) and C04
   (substitution limit) is a statement about that list. Built on Proofs/MachineFrame.v. *)
From Coq Require Import List Arith Bool NArith Lia.
From FFSM2 Require Import Model.TaskList Model.BitArray Model.Plan Model.Ancestors Model.Dispatch
                          Model.Bits Model.BitStream Model.Machine Model.Script
                          Proofs.DispatchProofs Proofs.MachineFrame.
Import ListNotations.

Arguments INVALID : simpl never.

Section G.
Variable P : Type.
Variable cfg : config.
Variable orc : oracle P.
Local Notation n := (c_n cfg).
Local Notation cap := (c_cap cfg).
Local Notation mstate := (mstate P).
Local Notation core := (core P).
Local Notation event := (event P).
Local Notation action := (action P).
Local Notation ctl := (ctl P).
Local Notation transition := (transition P).
Local Notation view := (view P).

(* ================================================================================================ *)
(* 1. the ghost-instrumented loop                                                                    *)
(* ================================================================================================ *)

(* one iteration of the substitution loop: the request it consumed, whether the guards cancelled it, and
   whether applyRequest dropped it without running any guard *)
Record round := { r_pend : transition; r_cancelled : bool; r_deduped : bool }.

Fixpoint transitions_loop_g (fuel : nat) (cur : transition) (s : mstate) : mstate * transition * list round :=
  match fuel with
  | O => (s, cur, [])
  | S f =>
    if t_valid P (request P (co P s)) then
      let '(s1, applied) := apply_request P cur (t_dest P (request P (co P s))) s in
      if applied then
        let pend := request P (co P s1) in
        let s2 := upd_core P (fun c => set_request P c (t_clear P (request P c))) s1 in
        let '(s3, cancelled) := cancelled_by_guards P cfg orc cur pend s2 in
        if cancelled
        then let '(s', cur', rs) := transitions_loop_g f cur (upd_core P (fun c => set_requested P c (t_dest P cur)) s3) in
             (s', cur', {| r_pend := pend; r_cancelled := true; r_deduped := false |} :: rs)
        else let '(s', cur', rs) := transitions_loop_g f pend s3 in
             (s', cur', {| r_pend := pend; r_cancelled := false; r_deduped := false |} :: rs)
      else let '(s', cur', rs) := transitions_loop_g f cur (upd_core P (fun c => set_request P c (t_clear P (request P c))) s1) in
           (s', cur', {| r_pend := request P (co P s); r_cancelled := false; r_deduped := true |} :: rs)
    else (s, cur, [])
  end.

Definition loop_state (fuel : nat) (cur : transition) (s : mstate) : mstate := fst (fst (transitions_loop_g fuel cur s)).
Definition loop_cur (fuel : nat) (cur : transition) (s : mstate) : transition := snd (fst (transitions_loop_g fuel cur s)).
Definition loop_rounds (fuel : nat) (cur : transition) (s : mstate) : list round := snd (transitions_loop_g fuel cur s).

Lemma loop_g_eta fuel cur s :
  transitions_loop_g fuel cur s = (loop_state fuel cur s, loop_cur fuel cur s, loop_rounds fuel cur s).
Proof. unfold loop_state, loop_cur, loop_rounds. destruct (transitions_loop_g fuel cur s) as [[s' c'] rs]. reflexivity. Qed.

Theorem transitions_loop_g_erase : forall fuel cur s,
  fst (transitions_loop_g fuel cur s) = transitions_loop P cfg orc fuel cur s.
Proof.
  induction fuel as [|f IH]; intros cur s; cbn [transitions_loop_g transitions_loop]; [reflexivity|].
  destruct (t_valid P (request P (co P s))); [|reflexivity].
  destruct (apply_request P cur (t_dest P (request P (co P s))) s) as [s1 applied].
  destruct applied.
  - destruct (cancelled_by_guards P cfg orc cur (request P (co P s1)) _) as [s3 cancelled].
    destruct cancelled.
    + rewrite <- IH. destruct (transitions_loop_g f cur _) as [[s' cur'] rs]. reflexivity.
    + rewrite <- IH. destruct (transitions_loop_g f (request P (co P s1)) s3) as [[s' cur'] rs]. reflexivity.
  - rewrite <- IH. destruct (transitions_loop_g f cur _) as [[s' cur'] rs]. reflexivity.
Qed.

Corollary loop_erase fuel cur s :
  transitions_loop P cfg orc fuel cur s = (loop_state fuel cur s, loop_cur fuel cur s).
Proof. rewrite <- transitions_loop_g_erase, loop_g_eta. reflexivity. Qed.

(* ================================================================================================ *)
(* 2. at most [fuel] rounds                                                                          *)
(* ================================================================================================ *)
Lemma rounds_le_fuel : forall fuel cur s, length (loop_rounds fuel cur s) <= fuel.
Proof.
  unfold loop_rounds.
  induction fuel as [|f IH]; intros cur s; cbn [transitions_loop_g]; [cbn; lia|].
  destruct (t_valid P (request P (co P s))); [|cbn; lia].
  destruct (apply_request P cur (t_dest P (request P (co P s))) s) as [s1 applied].
  destruct applied.
  - destruct (cancelled_by_guards P cfg orc cur (request P (co P s1)) _) as [s3 cancelled].
    destruct cancelled.
    + specialize (IH cur (upd_core P (fun c => set_requested P c (t_dest P cur)) s3)).
      destruct (transitions_loop_g f cur _) as [[s' cur'] rs]. cbn [snd length] in *. lia.
    + specialize (IH (request P (co P s1)) s3).
      destruct (transitions_loop_g f _ s3) as [[s' cur'] rs]. cbn [snd length] in *. lia.
  - specialize (IH cur (upd_core P (fun c => set_request P c (t_clear P (request P c))) s1)).
    destruct (transitions_loop_g f cur _) as [[s' cur'] rs]. cbn [snd length] in *. lia.
Qed.

Theorem rounds_le_limit cur s : length (loop_rounds (c_limit cfg) cur s) <= c_limit cfg.
Proof. apply rounds_le_fuel. Qed.

(* ================================================================================================ *)
(* 3. the survivor                                                                                   *)
(* ================================================================================================ *)
Definition survives (r : round) : bool := negb (r_cancelled r) && negb (r_deduped r).
Definition survivor_from (cur : transition) (rs : list round) : transition :=
  fold_left (fun c r => if survives r then r_pend r else c) rs cur.
Definition last_survivor (rs : list round) : transition := survivor_from (t_empty P) rs.

(* survivor_from is what its name says *)
Lemma survivor_from_char cur rs :
  (Forall (fun r => survives r = false) rs /\ survivor_from cur rs = cur) \/
  (exists l1 r l2, rs = l1 ++ r :: l2 /\ survives r = true /\ Forall (fun r' => survives r' = false) l2 /\
                   survivor_from cur rs = r_pend r).
Proof.
  unfold survivor_from.
  induction rs as [|x l IH] using rev_ind.
  - left. split; [constructor|reflexivity].
  - rewrite fold_left_app. cbn [fold_left].
    destruct (survives x) eqn:Ex.
    + right. exists l, x, []. split; [reflexivity|]. split; [exact Ex|]. split; [constructor|reflexivity].
    + destruct IH as [[Hall E]|(l1 & r & l2 & E & Hr & Hl2 & Es)].
      * left. split; [|exact E]. apply Forall_app. split; [exact Hall|]. constructor; [exact Ex|constructor].
      * right. exists l1, r, (l2 ++ [x]). split; [rewrite E, <- app_assoc; reflexivity|].
        split; [exact Hr|]. split; [|exact Es].
        apply Forall_app. split; [exact Hl2|]. constructor; [exact Ex|constructor].
Qed.

Lemma survivor_from_none cur rs : Forall (fun r => survives r = false) rs -> survivor_from cur rs = cur.
Proof.
  unfold survivor_from. revert cur. induction rs as [|r rs IH]; intros cur H; cbn [fold_left]; [reflexivity|].
  inversion H as [|? ? Hr Hrs]; subst. rewrite Hr. apply IH. exact Hrs.
Qed.

Lemma survivor_gen : forall fuel cur s, loop_cur fuel cur s = survivor_from cur (loop_rounds fuel cur s).
Proof.
  unfold loop_cur, loop_rounds, survivor_from.
  induction fuel as [|f IH]; intros cur s; cbn [transitions_loop_g]; [reflexivity|].
  destruct (t_valid P (request P (co P s))); [|reflexivity].
  destruct (apply_request P cur (t_dest P (request P (co P s))) s) as [s1 applied].
  destruct applied.
  - destruct (cancelled_by_guards P cfg orc cur (request P (co P s1)) _) as [s3 cancelled].
    destruct cancelled.
    + specialize (IH cur (upd_core P (fun c => set_requested P c (t_dest P cur)) s3)).
      destruct (transitions_loop_g f cur _) as [[s' cur'] rs]. cbn [fst snd fold_left] in *. exact IH.
    + specialize (IH (request P (co P s1)) s3).
      destruct (transitions_loop_g f _ s3) as [[s' cur'] rs]. cbn [fst snd fold_left] in *. exact IH.
  - specialize (IH cur (upd_core P (fun c => set_request P c (t_clear P (request P c))) s1)).
    destruct (transitions_loop_g f cur _) as [[s' cur'] rs]. cbn [fst snd fold_left] in *. exact IH.
Qed.

Theorem survivor_spec fuel s : loop_cur fuel (t_empty P) s = last_survivor (loop_rounds fuel (t_empty P) s).
Proof. apply survivor_gen. Qed.

Corollary all_cancelled_no_survivor rs :
  Forall (fun r => r_cancelled r = true) rs -> t_valid P (last_survivor rs) = false.
Proof.
  intro H. unfold last_survivor. rewrite survivor_from_none; [reflexivity|].
  eapply Forall_impl; [|exact H]. intros r Hr. unfold survives. rewrite Hr. reflexivity.
Qed.

(* a valid survivor is the request of a round that ran its guards and was not cancelled *)
Corollary survivor_is_round rs :
  t_valid P (last_survivor rs) = true ->
  exists l1 r l2, rs = l1 ++ r :: l2 /\ r_cancelled r = false /\ r_deduped r = false /\
                  Forall (fun r' => survives r' = false) l2 /\ last_survivor rs = r_pend r.
Proof.
  intro Hv. unfold last_survivor in *.
  destruct (survivor_from_char (t_empty P) rs) as [[_ E]|(l1 & r & l2 & E & Hr & Hl2 & Es)].
  - rewrite E in Hv. discriminate.
  - exists l1, r, l2. unfold survives in Hr. apply andb_true_iff in Hr. destruct Hr as [Hc Hd].
    apply negb_true_iff in Hc. apply negb_true_iff in Hd. auto.
Qed.

(* ================================================================================================ *)
(* 4a. what one delivery does to the control and to the request, read off the events it appends      *)
(* ================================================================================================ *)
Definition is_cancel_ok (e : event) : bool :=
  match e with EvAct _ (ACancel _) (ROk _) => true | _ => false end.
Definition has_cancel (l : list event) : bool := existsb is_cancel_ok l.

(* what a callback sees of the transitions: current (the survivor so far), pending, and the control's kind *)
Definition gview (kd : ckind) (cur pend : transition) (e : event) : Prop :=
  match e with EvCb _ _ _ _ v => v_cur P v = cur /\ v_pend P v = pend /\ v_kind P v = kd | _ => True end.

(* the request after a stretch of events, replayed oldest first: a callback sets the origin, a successful
   change/changeWith writes the request *)
Definition replay1 (e : event) (st : nat * transition) : nat * transition :=
  match e with
  | EvCb _ _ _ _ v => (v_id P v, snd st)
  | EvAct _ (AChange _ d) (ROk _) => (fst st, {| t_origin := fst st; t_dest := d; t_pay := None |})
  | EvAct _ (AChangeWith _ d p) (ROk _) => (fst st, {| t_origin := fst st; t_dest := d; t_pay := Some p |})
  | _ => st
  end.
Definition replay (l : list event) (st : nat * transition) : nat * transition := fold_right replay1 st l.

Lemma replay_app l2 l1 st : replay (l2 ++ l1) st = replay l2 (replay l1 st).
Proof. unfold replay. apply fold_right_app. Qed.

Lemma has_cancel_app l2 l1 : has_cancel (l2 ++ l1) = has_cancel l2 || has_cancel l1.
Proof. unfold has_cancel. apply existsb_app. Qed.

Definition is_log (e : event) : Prop := match e with EvLog _ _ => True | _ => False end.

Lemma log_rec_tr r s : co P (log_rec P cfg r s) = co P s /\
  (tr P (log_rec P cfg r s) = tr P s \/ tr P (log_rec P cfg r s) = EvLog P r :: tr P s).
Proof. unfold log_rec. destruct (log_compiled cfg && logger P (co P s)); cbn [emit co tr]; auto. Qed.

(* one action: trace *)
Lemma perform_tr origin a s k :
  let '(s', _, _) := perform P cfg origin a (s, k) in
  exists l0, tr P s' = l0 ++ tr P s /\ Forall is_log l0.
Proof.
  assert (Hnil : forall s0 : mstate, tr P s0 = tr P s -> exists l0, tr P s0 = l0 ++ tr P s /\ Forall is_log l0)
    by (intros s0 E; exists []; split; [exact E|constructor]).
  assert (Hlog : forall r (s0 : mstate), tr P s0 = tr P s ->
            exists l0, tr P (log_rec P cfg r s0) = l0 ++ tr P s /\ Forall is_log l0).
  { intros r s0 E. destruct (log_rec_tr r s0) as [_ [E1|E1]]; rewrite E1, E.
    - exists []. split; [reflexivity|constructor].
    - exists [EvLog P r]. split; [reflexivity|constructor; [exact I|constructor]]. }
  unfold perform.
  destruct a as [d|d p| |so|so|o d|o d p| |i].
  - destruct (can_change (k_kind P k)); [apply Hlog; reflexivity|(apply Hnil; reflexivity)].
  - destruct (can_change (k_kind P k) && c_payload cfg); [apply Hlog; reflexivity|(apply Hnil; reflexivity)].
  - destruct (k_kind P k); try (apply Hnil; reflexivity). apply Hlog; reflexivity.
  - destruct (can_change (k_kind P k) && c_plans cfg && negb (_ =? INVALID)); [apply Hlog; reflexivity|(apply Hnil; reflexivity)].
  - destruct (can_change (k_kind P k) && c_plans cfg && negb (_ =? INVALID)); [apply Hlog; reflexivity|(apply Hnil; reflexivity)].
  - destruct (can_plan cfg (k_kind P k)); [|(apply Hnil; reflexivity)].
    destruct (plan_append P cap (plan P (co P s)) o d) as [pd ok]. (apply Hnil; reflexivity).
  - destruct (can_plan cfg (k_kind P k) && c_payload cfg); [|(apply Hnil; reflexivity)].
    destruct (plan_append_with P cap (plan P (co P s)) o d p) as [pd ok]. (apply Hnil; reflexivity).
  - destruct (can_plan cfg (k_kind P k)); (apply Hnil; reflexivity).
  - destruct (can_plan cfg (k_kind P k)); [|(apply Hnil; reflexivity)].
    destruct (plan_remove_at P cap (plan P (co P s)) i) as [pd seen]. (apply Hnil; reflexivity).
Qed.

(* one action: the control. _cancelled is set by cancelPendingTransition() of a guard control only *)
Lemma perform_ctl origin a s k :
  let '(_, k', res) := perform P cfg origin a (s, k) in
  k_kind P k' = k_kind P k /\ k_cur P k' = k_cur P k /\ k_pend P k' = k_pend P k /\
  k_cancelled P k' = k_cancelled P k || is_cancel_ok (EvAct P a res).
Proof.
  assert (Hsame : forall b, b = false -> k_kind P k = k_kind P k /\ k_cur P k = k_cur P k /\ k_pend P k = k_pend P k /\
                    k_cancelled P k = k_cancelled P k || b)
    by (intros b ->; rewrite orb_false_r; auto).
  unfold perform.
  destruct a as [d|d p| |so|so|o d|o d p| |i].
  - destruct (can_change (k_kind P k)); apply Hsame; reflexivity.
  - destruct (can_change (k_kind P k) && c_payload cfg); apply Hsame; reflexivity.
  - destruct (k_kind P k) eqn:Ek; cbn [set_cancelled k_kind k_cur k_pend k_cancelled is_cancel_ok];
      rewrite ?orb_true_r, ?orb_false_r; repeat split; auto.
  - destruct (can_change (k_kind P k) && c_plans cfg && negb (_ =? INVALID)); [|apply Hsame; reflexivity].
    cbn [set_status k_kind k_cur k_pend k_cancelled is_cancel_ok]. rewrite orb_false_r. repeat split; auto.
  - destruct (can_change (k_kind P k) && c_plans cfg && negb (_ =? INVALID)); [|apply Hsame; reflexivity].
    cbn [set_status k_kind k_cur k_pend k_cancelled is_cancel_ok]. rewrite orb_false_r. repeat split; auto.
  - destruct (can_plan cfg (k_kind P k)); [|apply Hsame; reflexivity].
    destruct (plan_append P cap (plan P (co P s)) o d) as [pd ok]. apply Hsame; reflexivity.
  - destruct (can_plan cfg (k_kind P k) && c_payload cfg); [|apply Hsame; reflexivity].
    destruct (plan_append_with P cap (plan P (co P s)) o d p) as [pd ok]. apply Hsame; reflexivity.
  - destruct (can_plan cfg (k_kind P k)); apply Hsame; reflexivity.
  - destruct (can_plan cfg (k_kind P k)); [|apply Hsame; reflexivity].
    destruct (plan_remove_at P cap (plan P (co P s)) i) as [pd seen]. apply Hsame; reflexivity.
Qed.

(* one action: the request. Written by a successful change/changeWith only, with the control's origin *)
Lemma perform_req origin a s k :
  let '(s', _, res) := perform P cfg origin a (s, k) in
  replay1 (EvAct P a res) (origin, request P (co P s)) = (origin, request P (co P s')) /\
  (can_change (k_kind P k) = false -> request P (co P s') = request P (co P s)).
Proof.
  assert (Hco : forall r (s0 : mstate), request P (co P (log_rec P cfg r s0)) = request P (co P s0))
    by (intros r s0; rewrite (proj1 (log_rec_tr r s0)); reflexivity).
  unfold perform.
  destruct a as [d|d p| |so|so|o d|o d p| |i].
  - destruct (can_change (k_kind P k)) eqn:Ec; [|split; reflexivity].
    rewrite Hco. cbn [upd_core co set_request request replay1 fst]. split; [reflexivity|discriminate].
  - destruct (can_change (k_kind P k)) eqn:Ec; cbn [andb]; [|split; reflexivity].
    destruct (c_payload cfg); [|split; reflexivity].
    rewrite Hco. cbn [upd_core co set_request request replay1 fst]. split; [reflexivity|discriminate].
  - destruct (k_kind P k); try (split; reflexivity). rewrite Hco. split; reflexivity.
  - destruct (can_change (k_kind P k) && c_plans cfg && negb (_ =? INVALID)); [|split; reflexivity].
    rewrite Hco. split; reflexivity.
  - destruct (can_change (k_kind P k) && c_plans cfg && negb (_ =? INVALID)); [|split; reflexivity].
    rewrite Hco. split; reflexivity.
  - destruct (can_plan cfg (k_kind P k)); [|split; reflexivity].
    destruct (plan_append P cap (plan P (co P s)) o d) as [pd ok]. destruct ok; split; reflexivity.
  - destruct (can_plan cfg (k_kind P k) && c_payload cfg); [|split; reflexivity].
    destruct (plan_append_with P cap (plan P (co P s)) o d p) as [pd ok]. destruct ok; split; reflexivity.
  - destruct (can_plan cfg (k_kind P k)); split; reflexivity.
  - destruct (can_plan cfg (k_kind P k)); [|split; reflexivity].
    destruct (plan_remove_at P cap (plan P (co P s)) i) as [pd seen]. split; reflexivity.
Qed.

(* a stretch of execution under one control: the events appended, and what they say about the control *)
Record dstep (s : mstate) (k : ctl) (l : list event) (s' : mstate) (k' : ctl) : Prop := {
  ds_tr : tr P s' = l ++ tr P s;
  ds_kind : k_kind P k' = k_kind P k;
  ds_cur : k_cur P k' = k_cur P k;
  ds_pend : k_pend P k' = k_pend P k;
  ds_canc : k_cancelled P k' = k_cancelled P k || has_cancel l;
  ds_views : Forall (gview (k_kind P k) (k_cur P k) (k_pend P k)) l;
  ds_ro : can_change (k_kind P k) = false -> request P (co P s') = request P (co P s)
}.

Lemma dstep_refl s k : dstep s k [] s k.
Proof. constructor; auto. cbn. rewrite orb_false_r. reflexivity. Qed.

Lemma dstep_trans s k l1 s1 k1 l2 s2 k2 : dstep s k l1 s1 k1 -> dstep s1 k1 l2 s2 k2 -> dstep s k (l2 ++ l1) s2 k2.
Proof.
  intros [T1 K1 C1 P1 X1 V1 R1] [T2 K2 C2 P2 X2 V2 R2].
  rewrite K1, C1, P1 in V2. rewrite K1 in R2.
  constructor; try congruence.
  - rewrite T2, T1, app_assoc. reflexivity.
  - rewrite X2, X1, has_cancel_app.
    destruct (k_cancelled P k), (has_cancel l1), (has_cancel l2); reflexivity.
  - apply Forall_app. split; assumption.
  - intro H. rewrite (R2 H). apply R1. exact H.
Qed.

Lemma logs_inert l : Forall is_log l ->
  has_cancel l = false /\ Forall (noncb P) l /\ (forall kd c p, Forall (gview kd c p) l) /\ (forall st, replay l st = st).
Proof.
  induction 1 as [|e l He _ (IH1 & IH2 & IH3 & IH4)].
  - split; [reflexivity|]. split; [constructor|]. split; [constructor|reflexivity].
  - destruct e as [w r m v|a res|lr]; cbn [is_log] in He; try contradiction.
    split; [exact IH1|]. split; [constructor; [exact I|exact IH2]|].
    split; [intros; constructor; [exact I|apply IH3]|].
    intro st. unfold replay in *. cbn [fold_right replay1]. apply IH4.
Qed.

Lemma perform_ds origin a s k :
  let '(s1, k1, res) := perform P cfg origin a (s, k) in
  exists l, dstep s k l (emit P (EvAct P a res) s1) k1 /\ Forall (noncb P) l /\
            replay l (origin, request P (co P s)) = (origin, request P (co P s1)).
Proof.
  pose proof (perform_tr origin a s k) as HT.
  pose proof (perform_ctl origin a s k) as HK.
  pose proof (perform_req origin a s k) as HR.
  destruct (perform P cfg origin a (s, k)) as [[s1 k1] res].
  destruct HT as (l0 & T0 & L0). destruct HK as (K1 & C1 & P1 & X1). destruct HR as (R1 & RO).
  destruct (logs_inert l0 L0) as (I1 & I2 & I3 & I4).
  exists (EvAct P a res :: l0). split; [|split].
  - constructor; auto.
    + cbn [emit tr]. rewrite T0. reflexivity.
    + rewrite X1. unfold has_cancel in *. cbn [existsb]. rewrite I1, orb_false_r. reflexivity.
    + constructor; [exact I|apply I3].
  - constructor; [exact I|exact I2].
  - unfold replay in *. cbn [fold_right]. rewrite I4. exact R1.
Qed.

Lemma perform_all_ds origin acts : forall s k,
  let '(s', k') := perform_all P cfg origin acts (s, k) in
  exists l, dstep s k l s' k' /\ Forall (noncb P) l /\
            replay l (origin, request P (co P s)) = (origin, request P (co P s')).
Proof.
  unfold perform_all.
  induction acts as [|a acts IH]; intros s k; cbn [fold_left].
  - exists []. split; [apply dstep_refl|]. split; [constructor|reflexivity].
  - pose proof (perform_ds origin a s k) as H1.
    destruct (perform P cfg origin a (s, k)) as [[s1 k1] res].
    destruct H1 as (l1 & D1 & N1 & R1).
    specialize (IH (emit P (EvAct P a res) s1) k1).
    destruct (fold_left _ acts _) as [s' k'].
    destruct IH as (l2 & D2 & N2 & R2).
    exists (l2 ++ l1). split; [eapply dstep_trans; eassumption|]. split; [apply Forall_app; split; assumption|].
    rewrite replay_app, R1. exact R2.
Qed.

Lemma invoke_ds w r m s k :
  let '(s', k') := invoke P cfg orc w r m (s, k) in
  exists l, dstep s k l s' k' /\ (forall o, replay l (o, request P (co P s)) = (id_of w, request P (co P s'))) /\
            exists la, l = la ++ [EvCb P w r m (mk_view P cfg (id_of w) k (co P s))] /\ Forall (noncb P) la.
Proof.
  unfold invoke.
  set (v := mk_view P cfg (id_of w) k (co P s)).
  pose proof (perform_all_ds (id_of w) (orc (tr P s) w r m v) (emit P (EvCb P w r m v) s) k) as H.
  destruct (perform_all P cfg (id_of w) _ _) as [s' k'].
  destruct H as (la & D & N & R).
  exists (la ++ [EvCb P w r m v]). split; [|split].
  - eapply dstep_trans; [|exact D].
    constructor; auto.
    + cbn. rewrite orb_false_r. reflexivity.
    + constructor; [|constructor]. subst v. cbn [gview mk_view v_cur v_pend v_kind]. auto.
  - intro o. rewrite replay_app. unfold replay at 2. cbn [fold_right replay1 snd].
    subst v. cbn [mk_view v_id]. exact R.
  - exists la. split; [reflexivity|exact N].
Qed.

(* the request after a stretch that starts with a callback (or is empty) does not depend on the origin before it *)
Definition rstep (s : mstate) (l : list event) (s' : mstate) : Prop :=
  forall o, exists o', replay l (o, request P (co P s)) = (o', request P (co P s')).

Lemma rstep_refl s : rstep s [] s.
Proof. intro o. exists o. reflexivity. Qed.
Lemma rstep_trans s l1 s1 l2 s2 : rstep s l1 s1 -> rstep s1 l2 s2 -> rstep s (l2 ++ l1) s2.
Proof. intros H1 H2 o. destruct (H1 o) as (o1 & E1). destruct (H2 o1) as (o2 & E2). exists o2. rewrite replay_app, E1. exact E2. Qed.

Lemma deliver_fold_ds w m (rs : list recipient) : forall s k,
  let '(s', k') := fold_left (fun sk r => if delivers cfg w r m then invoke P cfg orc w r m sk else sk) rs (s, k) in
  exists l, dstep s k l s' k' /\ rstep s l s'.
Proof.
  induction rs as [|r rs IH]; intros s k; cbn [fold_left].
  - exists []. split; [apply dstep_refl|apply rstep_refl].
  - destruct (delivers cfg w r m).
    + pose proof (invoke_ds w r m s k) as H1.
      destruct (invoke P cfg orc w r m (s, k)) as [s1 k1].
      destruct H1 as (l1 & D1 & R1 & _).
      specialize (IH s1 k1).
      destruct (fold_left _ rs (s1, k1)) as [s' k'].
      destruct IH as (l2 & D2 & R2).
      exists (l2 ++ l1). split; [eapply dstep_trans; eassumption|].
      eapply rstep_trans; [|exact R2]. intro o. exists (id_of w). apply R1.
    + apply IH.
Qed.

(* deliver_views (and more): every callback of one delivery sees the control's current and pending
   transitions and kind; the control comes out cancelled iff it went in cancelled or some callback of the
   delivery cancelled; the request afterwards is the replay of the delivery's events *)
Lemma deliver_ds w m s k :
  let '(s', k') := deliver P cfg orc w m (s, k) in
  exists l, dstep s k l s' k' /\ rstep s l s'.
Proof.
  unfold deliver.
  set (s1 := if logs cfg w m then log_rec P cfg (LMethod (id_of w) m) s else s).
  assert (D0 : exists l0, dstep s k l0 s1 k /\ rstep s l0 s1).
  { assert (Hs : co P s1 = co P s /\ (tr P s1 = tr P s \/ tr P s1 = EvLog P (LMethod (id_of w) m) :: tr P s)).
    { subst s1. destruct (logs cfg w m); [apply log_rec_tr|auto]. }
    destruct Hs as [Ec [Et|Et]].
    - exists []. split; [|intro o; exists o; rewrite Ec; reflexivity].
      constructor; auto; [cbn; rewrite orb_false_r; reflexivity|rewrite Ec; reflexivity].
    - exists [EvLog P (LMethod (id_of w) m)]. split; [|intro o; exists o; rewrite Ec; reflexivity].
      constructor; auto; [cbn; rewrite orb_false_r; reflexivity|constructor; [exact I|constructor]|rewrite Ec; reflexivity]. }
  destruct D0 as (l0 & D0 & R0).
  destruct (exists_who cfg w).
  - pose proof (deliver_fold_ds w m (deep_order m (inj_of cfg w)) s1 k) as H.
    destruct (fold_left _ _ (s1, k)) as [s' k'].
    destruct H as (l1 & D1 & R1).
    exists (l1 ++ l0). split; [eapply dstep_trans; eassumption|eapply rstep_trans; eassumption].
  - exists l0. split; assumption.
Qed.

Theorem deliver_views w m s k :
  let '(s', k') := deliver P cfg orc w m (s, k) in
  exists l, tr P s' = l ++ tr P s /\
    Forall (fun e => match e with
                     | EvCb _ _ _ _ v => v_cur P v = k_cur P k /\ v_pend P v = k_pend P k /\ v_kind P v = k_kind P k
                     | _ => True end) l.
Proof.
  pose proof (deliver_ds w m s k) as H. destruct (deliver P cfg orc w m (s, k)) as [s' k'].
  destruct H as (l & D & _). exists l. split; [exact (ds_tr _ _ _ _ _ D)|exact (ds_views _ _ _ _ _ D)].
Qed.

(* ================================================================================================ *)
(* 4b. one round of guards, exactly                                                                  *)
(* ================================================================================================ *)
Variable PI : plan_data P -> Prop.
Hypothesis HPI : plan_inv_ok P cfg PI.
Hypothesis Hwf : wf_oracle P cfg orc.
Local Notation fr := (fr P cfg PI).
Local Notation frr := (frr P cfg PI).
Local Notation deliv := (deliv P cfg).
Local Notation qev := (qev P cfg).
Local Notation quiet := (quiet P cfg).
Local Notation RW := (RW P cfg).
Local Notation CurOK := (CurOK P cfg).
Local Notation deliver_fr := (deliver_fr P cfg orc PI HPI Hwf).
Local Notation cancelled_by_guards_quiet := (cancelled_by_guards_quiet P cfg orc PI HPI Hwf).
Local Notation transitions_loop_frr := (transitions_loop_frr P cfg orc PI HPI Hwf).
Local Notation deep_change_to_requested_spec := (deep_change_to_requested_spec P cfg orc PI HPI Hwf).

Lemma same_tail (l1 l2 t : list event) : l1 ++ t = l2 ++ t -> l1 = l2.
Proof. apply app_inv_tail. Qed.

(* deepEntryGuard / deepExitGuard through a control that is not cancelled yet: the returned flag is
   "some callback of this delivery called cancelPendingTransition()" *)
Lemma deliver_guard_exact w m s k : k_cancelled P k = false ->
  let '(s', k', c) := deliver_guard P cfg orc w m (s, k) in
  exists l, dstep s k l s' k' /\ rstep s l s' /\ deliv w m (active P (co P s)) l /\
            active P (co P s') = active P (co P s) /\ requested P (co P s') = requested P (co P s) /\
            c = has_cancel l /\ k_cancelled P k' = has_cancel l.
Proof.
  intro Hk. unfold deliver_guard. cbn [snd]. rewrite Hk.
  pose proof (deliver_fr w m s k) as HF. pose proof (deliver_ds w m s k) as HD.
  destruct (deliver P cfg orc w m (s, k)) as [s' k'].
  destruct HF as (F & _ & l & E & Dl). destruct HD as (l' & D & R).
  assert (l' = l) as -> by (apply (same_tail _ _ (tr P s)); rewrite <- E; symmetry; exact (ds_tr _ _ _ _ _ D)).
  exists l. split; [exact D|]. split; [exact R|]. split; [exact Dl|].
  split; [exact (fr_active _ _ _ _ _ _ F)|]. split; [exact (fr_requested _ _ _ _ _ _ F)|].
  rewrite (ds_canc _ _ _ _ _ D), Hk. split; reflexivity.
Qed.

(* the events of one round of guards while a is active, towards d: the exit guard of a, then, unless a
   callback of it cancelled, the entry guard of d; every callback sees cur as currentTransition() and pend
   as pendingTransition(); the round is cancelled iff some callback cancelled *)
Definition guard_round (a d : nat) (cur pend : transition) (cancelled : bool) (l : list event) : Prop :=
  exists lx le, l = le ++ lx /\
    deliv (leaf cfg a) MExitGuard a lx /\
    (if has_cancel lx then le = [] else deliv (leaf cfg d) MEntryGuard a le) /\
    Forall (gview KGuard cur pend) l /\
    cancelled = has_cancel l.

Lemma cancelled_by_guards_exact cur pend s :
  let '(s', c) := cancelled_by_guards P cfg orc cur pend s in
  exists l, tr P s' = l ++ tr P s /\
            guard_round (active P (co P s)) (requested P (co P s)) cur pend c l /\ rstep s l s'.
Proof.
  unfold cancelled_by_guards.
  pose proof (deliver_guard_exact (leaf cfg (active P (co P s))) MExitGuard s (mk_ctl P KGuard cur pend) eq_refl) as H1.
  destruct (deliver_guard P cfg orc (leaf cfg (active P (co P s))) MExitGuard _) as [[s1 k1] c1].
  destruct H1 as (lx & D1 & R1 & Dl1 & A1 & Q1 & C1 & K1).
  cbn [mk_ctl k_kind k_cur k_pend] in D1.
  destruct c1.
  - exists lx. split; [exact (ds_tr _ _ _ _ _ D1)|]. split; [|exact R1].
    exists lx, []. split; [reflexivity|]. split; [exact Dl1|]. rewrite <- C1.
    split; [reflexivity|]. split; [|reflexivity]. exact (ds_views _ _ _ _ _ D1).
  - rewrite <- C1 in K1.
    pose proof (deliver_guard_exact (leaf cfg (requested P (co P s1))) MEntryGuard s1 k1 K1) as H2.
    destruct (deliver_guard P cfg orc (leaf cfg (requested P (co P s1))) MEntryGuard _) as [[s2 k2] c2].
    destruct H2 as (le & D2 & R2 & Dl2 & A2 & Q2 & C2 & K2).
    rewrite Q1, A1 in Dl2.
    pose proof (dstep_trans _ _ _ _ _ _ _ _ D1 D2) as D.
    exists (le ++ lx). split; [exact (ds_tr _ _ _ _ _ D)|]. split; [|eapply rstep_trans; eassumption].
    exists lx, le. split; [reflexivity|]. split; [exact Dl1|]. rewrite <- C1.
    split; [exact Dl2|]. split; [exact (ds_views _ _ _ _ _ D)|].
    rewrite has_cancel_app, <- C1, orb_false_r. exact C2.
Qed.

(* ================================================================================================ *)
(* 4c. the rounds' events                                                                            *)
(* ================================================================================================ *)
(* the request the next round consumes is the one the callbacks of this round's guards left behind *)
Definition next_pend (lr : list event) (pend : transition) (rs : list round) : Prop :=
  match rs with
  | [] => True
  | r' :: _ => forall o, r_pend r' = snd (replay lr (o, t_clear P pend))
  end.

(* a: the active state (it does not change during the loop); the transition index is the survivor so far.
   Events are newest first, so later rounds are in front. *)
Inductive rounds_shape (a : nat) : transition -> list round -> list event -> Prop :=
| rs_nil cur : rounds_shape a cur [] []
| rs_dedup cur pend :
    t_valid P pend = true ->
    t_neq P cur (t_to P (t_dest P pend)) = false ->
    rounds_shape a cur [{| r_pend := pend; r_cancelled := false; r_deduped := true |}] []
| rs_guard cur pend c rs lr l :
    t_valid P pend = true ->
    t_neq P cur (t_to P (t_dest P pend)) = true ->
    guard_round a (t_dest P pend) cur pend c lr ->
    next_pend lr pend rs ->
    rounds_shape a (if c then cur else pend) rs l ->
    rounds_shape a cur ({| r_pend := pend; r_cancelled := c; r_deduped := false |} :: rs) (l ++ lr).

Lemma loop_g_invalid fuel cur s : t_valid P (request P (co P s)) = false ->
  transitions_loop_g fuel cur s = (s, cur, []).
Proof. intro H. destruct fuel; cbn [transitions_loop_g]; [reflexivity|]. rewrite H. reflexivity. Qed.

(* the first round consumes the request outstanding at loop entry *)
Theorem round_pend_is_request fuel cur s r rs :
  loop_rounds fuel cur s = r :: rs -> r_pend r = request P (co P s) /\ t_valid P (request P (co P s)) = true.
Proof.
  unfold loop_rounds. destruct fuel as [|f]; cbn [transitions_loop_g]; [discriminate|].
  destruct (t_valid P (request P (co P s))) eqn:Ev; [|discriminate].
  unfold apply_request.
  destruct (t_neq P cur (t_to P (t_dest P (request P (co P s))))).
  - cbn [upd_core co set_requested request].
    destruct (cancelled_by_guards P cfg orc cur (request P (co P s)) _) as [s3 cancelled].
    destruct cancelled.
    + destruct (transitions_loop_g f cur _) as [[s' cur'] rs']. cbn [snd]. intro E. inversion E. auto.
    + destruct (transitions_loop_g f _ s3) as [[s' cur'] rs']. cbn [snd]. intro E. inversion E. auto.
  - destruct (transitions_loop_g f cur _) as [[s' cur'] rs']. cbn [snd]. intro E. inversion E. auto.
Qed.

Theorem round_events : forall fuel cur s,
  let '(s', _, rs) := transitions_loop_g fuel cur s in
  exists l, tr P s' = l ++ tr P s /\ rounds_shape (active P (co P s)) cur rs l /\
            active P (co P s') = active P (co P s).
Proof.
  induction fuel as [|f IH]; intros cur s; cbn [transitions_loop_g].
  - exists []. split; [reflexivity|]. split; [constructor|reflexivity].
  - destruct (t_valid P (request P (co P s))) eqn:Ev;
      [|exists []; split; [reflexivity|]; split; [constructor|reflexivity]].
    unfold apply_request.
    destruct (t_neq P cur (t_to P (t_dest P (request P (co P s))))) eqn:Ene.
    + set (pend := request P (co P s)).
      set (s1 := upd_core P (fun c => set_requested P c (t_dest P pend)) s).
      change (request P (co P s1)) with pend.
      set (s2 := upd_core P (fun c => set_request P c (t_clear P (request P c))) s1).
      pose proof (cancelled_by_guards_exact cur pend s2) as HG.
      pose proof (cancelled_by_guards_quiet cur pend s2) as FG.
      destruct (cancelled_by_guards P cfg orc cur pend s2) as [s3 cancelled]. cbn [fst] in FG.
      destruct HG as (lr & Er & Gr & Rr).
      change (active P (co P s2)) with (active P (co P s)) in Gr, FG.
      change (requested P (co P s2)) with (t_dest P pend) in Gr.
      change (tr P s2) with (tr P s) in Er.
      assert (A3 : active P (co P s3) = active P (co P s)) by exact (fr_active _ _ _ _ _ _ FG).
      assert (Hnext : forall f' c' s4 r' rs', request P (co P s4) = request P (co P s3) ->
                loop_rounds f' c' s4 = r' :: rs' -> forall o, r_pend r' = snd (replay lr (o, t_clear P pend))).
      { intros f' c' s4 r' rs' E4 El o. destruct (round_pend_is_request _ _ _ _ _ El) as [-> _].
        destruct (Rr o) as (o' & Eo). change (request P (co P s2)) with (t_clear P pend) in Eo.
        rewrite Eo, E4. reflexivity. }
      destruct cancelled.
      * set (s4 := upd_core P (fun c => set_requested P c (t_dest P cur)) s3).
        specialize (IH cur s4). specialize (Hnext f cur s4).
        unfold loop_rounds in Hnext.
        destruct (transitions_loop_g f cur s4) as [[s' cur'] rs]. cbn [snd] in Hnext.
        destruct IH as (l & El & Sh & A').
        change (active P (co P s4)) with (active P (co P s3)) in Sh, A'. rewrite A3 in Sh, A'.
        change (tr P s4) with (tr P s3) in El.
        exists (l ++ lr). split; [rewrite El, Er, app_assoc; reflexivity|]. split; [|exact A'].
        apply rs_guard; auto.
        destruct rs as [|r' rs']; cbn [next_pend]; [exact I|]. apply (Hnext r' rs'); reflexivity.
      * specialize (IH pend s3). specialize (Hnext f pend s3).
        unfold loop_rounds in Hnext.
        destruct (transitions_loop_g f pend s3) as [[s' cur'] rs]. cbn [snd] in Hnext.
        destruct IH as (l & El & Sh & A'). rewrite A3 in Sh, A'.
        exists (l ++ lr). split; [rewrite El, Er, app_assoc; reflexivity|]. split; [|exact A'].
        apply rs_guard; auto.
        destruct rs as [|r' rs']; cbn [next_pend]; [exact I|]. apply (Hnext r' rs'); reflexivity.
    + set (s1 := upd_core P (fun c => set_request P c (t_clear P (request P c))) s).
      rewrite (loop_g_invalid f cur s1) by reflexivity.
      exists []. split; [reflexivity|]. split; [|reflexivity].
      apply rs_dedup; assumption.
Qed.

Corollary round_events_proj fuel cur s :
  exists l, tr P (loop_state fuel cur s) = l ++ tr P s /\
            rounds_shape (active P (co P s)) cur (loop_rounds fuel cur s) l /\
            active P (co P (loop_state fuel cur s)) = active P (co P s).
Proof. pose proof (round_events fuel cur s) as H. rewrite loop_g_eta in H. exact H. Qed.

(* ================================================================================================ *)
(* 5. a request made inside a guard gets a fresh round; the cancelled flag                           *)
(* ================================================================================================ *)
(* one unfolding of the loop when the request is applied *)
Lemma loop_rounds_step f cur s :
  t_valid P (request P (co P s)) = true ->
  t_neq P cur (t_to P (t_dest P (request P (co P s)))) = true ->
  let pend := request P (co P s) in
  let s2 := upd_core P (fun c => set_request P c (t_clear P (request P c)))
              (upd_core P (fun c => set_requested P c (t_dest P pend)) s) in
  let s3 := fst (cancelled_by_guards P cfg orc cur pend s2) in
  let c := snd (cancelled_by_guards P cfg orc cur pend s2) in
  loop_rounds (S f) cur s =
    {| r_pend := pend; r_cancelled := c; r_deduped := false |} ::
    loop_rounds f (if c then cur else pend)
                  (if c then upd_core P (fun c0 => set_requested P c0 (t_dest P cur)) s3 else s3).
Proof.
  intros Ev Ene. cbv zeta. unfold loop_rounds. cbn [transitions_loop_g]. rewrite Ev.
  unfold apply_request. rewrite Ene. cbn [upd_core co set_requested request].
  destruct (cancelled_by_guards P cfg orc cur (request P (co P s)) _) as [s3 c]. cbn [fst snd].
  destruct c.
  - destruct (transitions_loop_g f cur _) as [[s' cur'] rs]. reflexivity.
  - destruct (transitions_loop_g f _ s3) as [[s' cur'] rs]. reflexivity.
Qed.

(* the next round (when there is one) consumes exactly the request that is outstanding when this round's
   guards have finished; the request was cleared before they started, so it was written by a
   change/changeWith of one of this round's guard callbacks (see next_pend in rounds_shape for the same
   statement over the events) *)
Theorem fresh_round f cur s r' rs' :
  t_valid P (request P (co P s)) = true ->
  t_neq P cur (t_to P (t_dest P (request P (co P s)))) = true ->
  let pend := request P (co P s) in
  let s2 := upd_core P (fun c => set_request P c (t_clear P (request P c)))
              (upd_core P (fun c => set_requested P c (t_dest P pend)) s) in
  let s3 := fst (cancelled_by_guards P cfg orc cur pend s2) in
  let c := snd (cancelled_by_guards P cfg orc cur pend s2) in
  loop_rounds (S f) cur s = {| r_pend := pend; r_cancelled := c; r_deduped := false |} :: r' :: rs' ->
  t_valid P (request P (co P s2)) = false /\ r_pend r' = request P (co P s3) /\ t_valid P (request P (co P s3)) = true.
Proof.
  intros Ev Ene. cbv zeta. rewrite (loop_rounds_step f cur s Ev Ene). cbv zeta. intro E.
  split; [reflexivity|].
  injection E as E.
  destruct (round_pend_is_request _ _ _ _ _ E) as [E1 E2].
  destruct (snd (cancelled_by_guards P cfg orc cur (request P (co P s)) _)); split; assumption.
Qed.

Lemma has_cancel_In l : has_cancel l = true <-> In (EvAct P (ACancel P) (ROk P)) l.
Proof.
  unfold has_cancel. rewrite existsb_exists. split.
  - intros (e & Hin & He). destruct e as [w r m v|a res|lr]; cbn [is_cancel_ok] in He; try discriminate.
    destruct a; try discriminate. destruct res; try discriminate. exact Hin.
  - intro Hin. exists (EvAct P (ACancel P) (ROk P)). split; [exact Hin|reflexivity].
Qed.

Theorem round_cancelled_iff a d cur pend c l :
  guard_round a d cur pend c l -> (c = true <-> In (EvAct P (ACancel P) (ROk P)) l).
Proof. intros (lx & le & _ & _ & _ & _ & ->). apply has_cancel_In. Qed.

Corollary cancelled_has_event a d cur pend l :
  guard_round a d cur pend true l -> In (EvAct P (ACancel P) (ROk P)) l.
Proof. intro G. apply (round_cancelled_iff _ _ _ _ _ _ G). reflexivity. Qed.

Corollary no_cancel_event_not_cancelled a d cur pend c l :
  guard_round a d cur pend c l -> ~ In (EvAct P (ACancel P) (ROk P)) l -> c = false.
Proof. intros G Hn. destruct c; [|reflexivity]. exfalso. apply Hn. apply (round_cancelled_iff _ _ _ _ _ _ G). reflexivity. Qed.

(* short circuit: when a callback of the exit guard cancels, no entry guard runs *)
Corollary exit_cancel_short_circuit a d cur pend c l :
  guard_round a d cur pend c l ->
  exists lx le, l = le ++ lx /\ deliv (leaf cfg a) MExitGuard a lx /\
                (In (EvAct P (ACancel P) (ROk P)) lx -> le = [] /\ c = true) /\
                (~ In (EvAct P (ACancel P) (ROk P)) lx -> deliv (leaf cfg d) MEntryGuard a le).
Proof.
  intros (lx & le & E & Dx & De & _ & C). exists lx, le. split; [exact E|]. split; [exact Dx|]. split.
  - intro Hin. apply has_cancel_In in Hin. rewrite Hin in De. split; [exact De|].
    rewrite C, E, has_cancel_app, Hin, orb_true_r. reflexivity.
  - intro Hn. destruct (has_cancel lx) eqn:Eh; [|exact De]. exfalso. apply Hn, has_cancel_In. exact Eh.
Qed.

(* ================================================================================================ *)
(* 6. processRequest, exactly                                                                        *)
(* ================================================================================================ *)
Lemma loop_invalid fuel cur s : t_valid P (request P (co P s)) = false ->
  loop_state fuel cur s = s /\ loop_cur fuel cur s = cur /\ loop_rounds fuel cur s = [].
Proof. intro H. unfold loop_state, loop_cur, loop_rounds. rewrite (loop_g_invalid fuel cur s H). auto. Qed.

(* the left-over request: when the loop ends with a request outstanding it has run out of rounds *)
Lemma leftover_full : forall fuel cur s,
  t_valid P (request P (co P (loop_state fuel cur s))) = true -> length (loop_rounds fuel cur s) = fuel.
Proof.
  unfold loop_state, loop_rounds.
  induction fuel as [|f IH]; intros cur s; cbn [transitions_loop_g]; [reflexivity|].
  destruct (t_valid P (request P (co P s))) eqn:Ev; [|cbn [fst snd]; intro H; rewrite H in Ev; discriminate].
  destruct (apply_request P cur (t_dest P (request P (co P s))) s) as [s1 applied].
  destruct applied.
  - destruct (cancelled_by_guards P cfg orc cur (request P (co P s1)) _) as [s3 cancelled].
    destruct cancelled.
    + specialize (IH cur (upd_core P (fun c => set_requested P c (t_dest P cur)) s3)).
      destruct (transitions_loop_g f cur _) as [[s' cur'] rs]. cbn [fst snd length] in *. intro H. rewrite (IH H). reflexivity.
    + specialize (IH (request P (co P s1)) s3).
      destruct (transitions_loop_g f _ s3) as [[s' cur'] rs]. cbn [fst snd length] in *. intro H. rewrite (IH H). reflexivity.
  - specialize (IH cur (upd_core P (fun c => set_request P c (t_clear P (request P c))) s1)).
    destruct (transitions_loop_g f cur _) as [[s' cur'] rs]. cbn [fst snd length] in *. intro H. rewrite (IH H). reflexivity.
Qed.

(* applying the survivor: the callbacks see it as currentTransition() (with its payload) through a
   PlanControl, and cannot touch the request *)
Lemma state_exit_ds w k s : can_change (k_kind P k) = false ->
  exists l, tr P (state_exit P cfg orc w k s) = l ++ tr P s /\
            Forall (gview (k_kind P k) (k_cur P k) (k_pend P k)) l /\
            request P (co P (state_exit P cfg orc w k s)) = request P (co P s).
Proof.
  intro Hk. unfold state_exit.
  pose proof (deliver_ds w MExit s k) as H. destruct (deliver P cfg orc w MExit (s, k)) as [s1 k1].
  destruct H as (l & D & _). exists l.
  destruct (exists_who cfg w); cbn [upd_plan upd_core tr co set_plan request];
    (split; [exact (ds_tr _ _ _ _ _ D)|]; split; [exact (ds_views _ _ _ _ _ D)|exact (ds_ro _ _ _ _ _ D Hk)]).
Qed.

Lemma deep_change_ds cur s :
  let s' := deep_change_to_requested P cfg orc cur s in
  exists l, tr P s' = l ++ tr P s /\ Forall (gview KPlan cur (t_empty P)) l /\
            request P (co P s') = request P (co P s).
Proof.
  cbv zeta. unfold deep_change_to_requested.
  set (k := mk_ctl P KPlan cur (t_empty P)).
  destruct (negb (requested P (co P s) =? active P (co P s))).
  - destruct (state_exit_ds (leaf cfg (active P (co P s))) k s eq_refl) as (l1 & E1 & V1 & R1).
    set (s1 := state_exit P cfg orc (leaf cfg (active P (co P s))) k s) in *.
    set (s2 := upd_core P (fun c1 => set_requested P (set_active P c1 (requested P c1)) INVALID) s1).
    pose proof (deliver_ds (leaf cfg (active P (co P s2))) MEnter s2 k) as H2.
    destruct (deliver P cfg orc (leaf cfg (active P (co P s2))) MEnter (s2, k)) as [s3 k3]. cbn [fst].
    destruct H2 as (l2 & D2 & _).
    exists (l2 ++ l1). split; [|split].
    + rewrite (ds_tr _ _ _ _ _ D2). subst s2. cbn [upd_core tr]. rewrite E1, app_assoc. reflexivity.
    + apply Forall_app. split; [exact (ds_views _ _ _ _ _ D2)|exact V1].
    + rewrite (ds_ro _ _ _ _ _ D2 eq_refl). subst s2. cbn [upd_core co set_requested set_active request]. exact R1.
  - set (s1 := upd_core P (fun c1 => set_requested P c1 INVALID) s).
    pose proof (deliver_ds (leaf cfg (active P (co P s1))) MReenter s1 k) as H2.
    destruct (deliver P cfg orc (leaf cfg (active P (co P s1))) MReenter (s1, k)) as [s3 k3]. cbn [fst].
    destruct H2 as (l2 & D2 & _).
    exists l2. split; [exact (ds_tr _ _ _ _ _ D2)|]. split; [exact (ds_views _ _ _ _ _ D2)|].
    rewrite (ds_ro _ _ _ _ _ D2 eq_refl). reflexivity.
Qed.

(* no request: processRequest only (with transition history) clears previousTransition *)
Theorem process_request_no_request s :
  t_valid P (request P (co P s)) = false ->
  process_request P cfg orc s =
    if c_history cfg then upd_core P (fun c => set_previous P c (t_empty P)) s else s.
Proof. intro H. unfold process_request. rewrite H. reflexivity. Qed.

(* C02 + C03 + C04 in one statement. rounds: what the substitution loop did; surv: the last request whose
   guards ran and did not cancel. *)
Theorem process_request_exact s a :
  active P (co P s) = a -> a < n -> requested P (co P s) = INVALID -> RW (co P s) -> PI (plan P (co P s)) ->
  let s1 := loop_state (c_limit cfg) (t_empty P) s in
  let rounds := loop_rounds (c_limit cfg) (t_empty P) s in
  let surv := last_survivor rounds in
  let s' := process_request P cfg orc s in
  exists lr,
    tr P s1 = lr ++ tr P s /\ rounds_shape a (t_empty P) rounds lr /\ quiet a lr /\
    requested P (co P s') = INVALID /\
    request P (co P s') = request P (co P s1) /\
    previous P (co P s') = (if c_history cfg then surv else previous P (co P s)) /\
    logger P (co P s') = logger P (co P s) /\ RW (co P s') /\ PI (plan P (co P s')) /\
    (if t_valid P surv
     then t_dest P surv < n /\ active P (co P s') = t_dest P surv /\
          exists lc, tr P s' = lc ++ lr ++ tr P s /\ change P cfg a (t_dest P surv) lc /\
                     Forall (gview KPlan surv (t_empty P)) lc
     else active P (co P s') = a /\ tr P s' = lr ++ tr P s).
Proof.
  intros Ha Han Hq Hrw Hpi. cbv zeta.
  destruct (round_events_proj (c_limit cfg) (t_empty P) s) as (lr & Er & Sh & A1). rewrite Ha in Sh, A1.
  pose proof (transitions_loop_frr (c_limit cfg) (t_empty P) s Hrw) as HF. rewrite loop_erase in HF.
  destruct HF as (F1 & R1 & C1); [intro Hv; discriminate|]. rewrite Ha in F1.
  assert (Q : quiet a lr).
  { destruct (frr_tr _ _ _ _ _ _ F1) as (lq & Eq & Hq1).
    assert (lq = lr) as <- by (apply (same_tail _ _ (tr P s)); rewrite <- Eq; exact Er). exact Hq1. }
  rewrite survivor_spec in C1.
  exists lr. split; [exact Er|]. split; [exact Sh|]. split; [exact Q|].
  unfold process_request.
  assert (Main :
    let '(s2, cur) := if t_valid P (request P (co P s)) then process_transitions P cfg orc s else (s, t_empty P) in
    cur = last_survivor (loop_rounds (c_limit cfg) (t_empty P) s) /\
    requested P (co P s2) = INVALID /\
    request P (co P s2) = request P (co P (loop_state (c_limit cfg) (t_empty P) s)) /\
    previous P (co P s2) = previous P (co P s) /\
    logger P (co P s2) = logger P (co P s) /\ RW (co P s2) /\ PI (plan P (co P s2)) /\
    (if t_valid P (last_survivor (loop_rounds (c_limit cfg) (t_empty P) s))
     then t_dest P (last_survivor (loop_rounds (c_limit cfg) (t_empty P) s)) < n /\
          active P (co P s2) = t_dest P (last_survivor (loop_rounds (c_limit cfg) (t_empty P) s)) /\
          exists lc, tr P s2 = lc ++ lr ++ tr P s /\
                     change P cfg a (t_dest P (last_survivor (loop_rounds (c_limit cfg) (t_empty P) s))) lc /\
                     Forall (gview KPlan (last_survivor (loop_rounds (c_limit cfg) (t_empty P) s)) (t_empty P)) lc
     else active P (co P s2) = a /\ tr P s2 = lr ++ tr P s)).
  { destruct (t_valid P (request P (co P s))) eqn:Ev.
    - unfold process_transitions. rewrite loop_erase, survivor_spec.
      set (s1 := loop_state (c_limit cfg) (t_empty P) s) in *.
      set (surv := last_survivor (loop_rounds (c_limit cfg) (t_empty P) s)) in *.
      destruct (t_valid P surv) eqn:Evs.
      + destruct (C1 Evs) as [Hd Hreq].
        pose proof (deep_change_to_requested_spec surv s1 a (t_dest P surv)) as H2. cbv zeta in H2.
        destruct H2 as (A2 & Q2 & F2 & lc & Ec & Ch); auto.
        pose proof (deep_change_ds surv s1) as H3. cbv zeta in H3. destruct H3 as (lc' & Ec' & V & Rq).
        assert (lc' = lc) as -> by (apply (same_tail _ _ (tr P s1)); rewrite <- Ec'; exact Ec).
        set (s2 := deep_change_to_requested P cfg orc surv s1) in *.
        cbn [upd_core co set_requested active requested request previous logger plan tr].
        split; [reflexivity|]. split; [reflexivity|]. split; [exact Rq|].
        split; [rewrite (frl_previous _ _ _ _ _ F2); exact (frr_previous _ _ _ _ _ _ F1)|].
        split; [rewrite (frl_logger _ _ _ _ _ F2); exact (frr_logger _ _ _ _ _ _ F1)|].
        split; [exact (frl_rw _ _ _ _ _ F2 R1)|].
        split; [exact (frl_pi _ _ _ _ _ F2 (frr_pi _ _ _ _ _ _ F1 Hpi))|].
        split; [exact Hd|]. split; [exact A2|].
        exists lc. split; [rewrite Ec, Er; reflexivity|]. split; [exact Ch|exact V].
      + cbn [upd_core co set_requested active requested request previous logger plan tr].
        split; [reflexivity|]. split; [reflexivity|]. split; [reflexivity|].
        split; [exact (frr_previous _ _ _ _ _ _ F1)|]. split; [exact (frr_logger _ _ _ _ _ _ F1)|].
        split; [exact R1|]. split; [exact (frr_pi _ _ _ _ _ _ F1 Hpi)|].
        split; [exact A1|exact Er].
    - destruct (loop_invalid (c_limit cfg) (t_empty P) s Ev) as (E1 & _ & E3).
      rewrite E1 in *. rewrite E3 in *.
      change (last_survivor []) with (t_empty P).
      change (t_valid P (t_empty P)) with false. cbv iota.
      assert (lr = []) as -> by (apply (same_tail _ _ (tr P s)); symmetry; exact Er).
      repeat split; auto. }
  destruct (if t_valid P (request P (co P s)) then process_transitions P cfg orc s else (s, t_empty P)) as [s2 cur].
  destruct Main as (-> & M1 & M2 & M3 & M4 & M5 & M6 & M7).
  destruct (c_history cfg).
  - cbn [upd_core co set_previous active requested request previous logger plan tr].
    split; [exact M1|]. split; [exact M2|]. split; [reflexivity|]. split; [exact M4|].
    split; [exact M5|]. split; [exact M6|exact M7].
  - split; [exact M1|]. split; [exact M2|]. split; [exact M3|]. split; [exact M4|].
    split; [exact M5|]. split; [exact M6|exact M7].
Qed.

(* ---- readable corollaries ---- *)
Section Corollaries.
Variable s : mstate.
Variable a : nat.
Hypothesis Ha : active P (co P s) = a.
Hypothesis Han : a < n.
Hypothesis Hq : requested P (co P s) = INVALID.
Hypothesis Hrw : RW (co P s).
Hypothesis Hpi : PI (plan P (co P s)).
Local Notation s1 := (loop_state (c_limit cfg) (t_empty P) s).
Local Notation rounds := (loop_rounds (c_limit cfg) (t_empty P) s).
Local Notation surv := (last_survivor rounds).
Local Notation s' := (process_request P cfg orc s).

(* C02: the last surviving request wins; C03: when every round was cancelled nothing is applied *)
Corollary process_request_active : active P (co P s') = if t_valid P surv then t_dest P surv else a.
Proof.
  destruct (process_request_exact s a Ha Han Hq Hrw Hpi) as (lr & _ & _ & _ & _ & _ & _ & _ & _ & _ & H).
  destruct (t_valid P surv); [exact (proj1 (proj2 H))|exact (proj1 H)].
Qed.

Corollary last_survivor_wins : t_valid P surv = true -> active P (co P s') = t_dest P surv.
Proof. intro H. rewrite process_request_active, H. reflexivity. Qed.

Corollary no_survivor_stays : t_valid P surv = false ->
  active P (co P s') = a /\ exists lr, tr P s' = lr ++ tr P s /\ quiet a lr /\ rounds_shape a (t_empty P) rounds lr.
Proof.
  intro Hv. destruct (process_request_exact s a Ha Han Hq Hrw Hpi) as (lr & _ & Sh & Q & _ & _ & _ & _ & _ & _ & H).
  rewrite Hv in H. destruct H as [A T]. split; [exact A|]. exists lr. auto.
Qed.

Corollary all_cancelled_stays : Forall (fun r => r_cancelled r = true) rounds -> active P (co P s') = a.
Proof. intro H. apply no_survivor_stays. apply all_cancelled_no_survivor. exact H. Qed.

(* C03: a transition whose guards cancelled is not applied (unless it is also the survivor's destination) *)
Corollary cancelled_never_entered d : t_valid P surv = true -> t_dest P surv <> d -> active P (co P s') <> d.
Proof. intros Hv Hd. rewrite (last_survivor_wins Hv). exact Hd. Qed.

(* the transition that is applied went through its guards, uncancelled *)
Corollary applied_passed_guards : t_valid P surv = true ->
  exists l1 r l2, rounds = l1 ++ r :: l2 /\ r_pend r = surv /\ r_cancelled r = false /\ r_deduped r = false /\
                  Forall (fun r' => survives r' = false) l2.
Proof.
  intro Hv. destruct (survivor_is_round rounds Hv) as (l1 & r & l2 & E & Hc & Hd & Hl & Es).
  exists l1, r, l2. split; [exact E|]. split; [symmetry; exact Es|]. auto.
Qed.

(* C11, first clause *)
Corollary previous_is_survivor : c_history cfg = true -> previous P (co P s') = surv.
Proof.
  intro Hh. destruct (process_request_exact s a Ha Han Hq Hrw Hpi) as (lr & _ & _ & _ & _ & _ & Hp & _).
  rewrite Hh in Hp. exact Hp.
Qed.

(* C04: the request left over when the rounds run out is still there, untouched by the apply phase, and no
   round was run for it: exactly c_limit rounds consumed the requests before it *)
Corollary leftover_untouched :
  requested P (co P s') = INVALID /\
  request P (co P s') = request P (co P s1) /\
  length rounds <= c_limit cfg /\
  (t_valid P (request P (co P s')) = true -> length rounds = c_limit cfg).
Proof.
  destruct (process_request_exact s a Ha Han Hq Hrw Hpi) as (lr & _ & _ & _ & Hr & Hreq & _).
  split; [exact Hr|]. split; [exact Hreq|]. split; [apply rounds_le_limit|].
  rewrite Hreq. apply leftover_full.
Qed.

(* the only enter() that runs is the survivor's destination's *)
Corollary enter_only_survivor : n <= 255 ->
  exists l, tr P s' = l ++ tr P s /\
    Forall (fun e => match e with
                     | EvCb _ w _ MEnter _ => t_valid P surv = true /\ w = St (t_dest P surv)
                     | _ => True end) l.
Proof.
  intro Hn.
  destruct (process_request_exact s a Ha Han Hq Hrw Hpi) as (lr & _ & _ & Q & _ & _ & _ & _ & _ & _ & H).
  assert (QL : Forall (fun e : event => match e with
                     | EvCb _ w _ MEnter _ => t_valid P surv = true /\ w = St (t_dest P surv)
                     | _ => True end) lr).
  { eapply Forall_impl; [|exact Q]. intros e He. destruct e as [w r m v| |]; auto.
    destruct m; auto. cbn in He. destruct He as [He _]. discriminate. }
  destruct (t_valid P surv) eqn:Ev.
  - destruct H as (Hd & _ & lc & Et & Ch & _).
    exists (lc ++ lr). split; [rewrite Et, app_assoc; reflexivity|]. apply Forall_app. split; [|exact QL].
    assert (NotEnter : forall w0 m0 a0 l0, m0 <> MEnter -> deliv w0 m0 a0 l0 ->
              Forall (fun e : event => match e with
                     | EvCb _ w _ MEnter _ => true = true /\ w = St (t_dest P surv)
                     | _ => True end) l0).
    { intros w0 m0 a0 l0 Hm [Hf _]. eapply Forall_impl; [|exact Hf]. intros e He.
      destruct e as [w r m v| |]; auto. destruct m; auto. cbn in He. destruct He as ((_ & Em) & _).
      exfalso. apply Hm. symmetry. exact Em. }
    destruct Ch as [E|l1 l2 Hne Ha' Hr' D1 D2|l E Ha' D|l1 l2 E Hr' D1 D2|l1 l2 Ha' E D1 D2].
    + constructor.
    + apply Forall_app. split; [|apply (NotEnter _ MExit _ _ ltac:(discriminate) D1)].
      destruct D2 as [Hf _]. eapply Forall_impl; [|exact Hf]. intros e He.
      destruct e as [w r m v| |]; auto. destruct m; auto. cbn in He. destruct He as ((Ew & _) & _). auto.
    + apply (NotEnter _ MReenter _ _ ltac:(discriminate) D).
    + exfalso. unfold INVALID in *. lia.
    + exfalso. unfold INVALID in *. lia.
  - destruct H as [_ Et]. exists lr. split; [exact Et|exact QL].
Qed.

End Corollaries.

(* the first round of processRequest's loop is never deduplicated *)
Lemma first_round_not_deduped pend : t_valid P pend = true -> t_neq P (t_empty P) (t_to P (t_dest P pend)) = true.
Proof.
  unfold t_valid, t_neq. cbn [t_empty t_to t_origin t_dest t_pay]. intro H.
  rewrite (Nat.eqb_sym INVALID (t_dest P pend)), H, orb_true_r. reflexivity.
Qed.

(* ================================================================================================ *)
(* 7. a request is only recorded                                                                     *)
(* ================================================================================================ *)
Theorem change_to_lazy d p s :
  co P (change_to P cfg d p s) = set_request P (co P s) {| t_origin := INVALID; t_dest := d; t_pay := p |} /\
  (tr P (change_to P cfg d p s) = tr P s \/
   tr P (change_to P cfg d p s) = EvLog P (LTransition INVALID d) :: tr P s).
Proof.
  unfold change_to.
  destruct (log_rec_tr (LTransition INVALID d)
              (upd_core P (fun c => set_request P c {| t_origin := INVALID; t_dest := d; t_pay := p |}) s)) as [Ec Et].
  rewrite Ec. split; [reflexivity|exact Et].
Qed.

Theorem request_is_lazy d p s :
  let s' := change_to P cfg d p s in
  active P (co P s') = active P (co P s) /\ requested P (co P s') = requested P (co P s) /\
  previous P (co P s') = previous P (co P s) /\ plan P (co P s') = plan P (co P s) /\
  logger P (co P s') = logger P (co P s) /\
  request P (co P s') = {| t_origin := INVALID; t_dest := d; t_pay := p |} /\
  exists l, tr P s' = l ++ tr P s /\ length l <= 1 /\ Forall is_log l.
Proof.
  cbv zeta. destruct (change_to_lazy d p s) as [Ec Et]. rewrite Ec.
  cbn [set_request active requested previous plan logger request].
  repeat (split; [reflexivity|]).
  destruct Et as [Et|Et]; rewrite Et.
  - exists []. split; [reflexivity|]. split; [cbn; lia|constructor].
  - exists [EvLog P (LTransition INVALID d)]. split; [reflexivity|]. split; [cbn; lia|constructor; [exact I|constructor]].
Qed.

(* a later request overwrites an earlier one *)
Theorem request_overwrites d1 p1 d2 p2 s :
  co P (change_to P cfg d2 p2 (change_to P cfg d1 p1 s)) = co P (change_to P cfg d2 p2 s).
Proof.
  rewrite (proj1 (change_to_lazy d2 p2 _)), (proj1 (change_to_lazy d1 p1 s)), (proj1 (change_to_lazy d2 p2 s)).
  reflexivity.
Qed.

(* the same through a control: changeTo / changeWith from a callback *)
Theorem perform_change_lazy origin d s k :
  perform P cfg origin (AChange P d) (s, k) =
    if can_change (k_kind P k)
    then (log_rec P cfg (LTransition origin d)
            (upd_core P (fun c => set_request P c {| t_origin := origin; t_dest := d; t_pay := None |}) s), k, ROk P)
    else (s, k, RIgnored P).
Proof. reflexivity. Qed.

Theorem perform_change_with_lazy origin d p s k :
  perform P cfg origin (AChangeWith P d p) (s, k) =
    if can_change (k_kind P k) && c_payload cfg
    then (log_rec P cfg (LTransition origin d)
            (upd_core P (fun c => set_request P c {| t_origin := origin; t_dest := d; t_pay := Some p |}) s), k, ROk P)
    else (s, k, RIgnored P).
Proof. reflexivity. Qed.

Theorem action_request_is_lazy origin a0 s k :
  wf_action P cfg a0 ->
  let '(s', k', res) := perform P cfg origin a0 (s, k) in
  active P (co P s') = active P (co P s) /\ requested P (co P s') = requested P (co P s) /\
  previous P (co P s') = previous P (co P s) /\ logger P (co P s') = logger P (co P s) /\
  (exists l, tr P s' = l ++ tr P s /\ Forall is_log l) /\
  request P (co P s') =
    match a0, res with
    | AChange _ d, ROk _ => {| t_origin := origin; t_dest := d; t_pay := None |}
    | AChangeWith _ d p, ROk _ => {| t_origin := origin; t_dest := d; t_pay := Some p |}
    | _, _ => request P (co P s)
    end.
Proof.
  intro Hw.
  pose proof (perform_fr P cfg PI HPI origin a0 s k Hw) as HF.
  pose proof (perform_tr origin a0 s k) as HT.
  pose proof (perform_req origin a0 s k) as HR.
  destruct (perform P cfg origin a0 (s, k)) as [[s' k'] res].
  destruct HF as [F _]. destruct HR as [R _].
  split; [exact (fr_active _ _ _ _ _ _ F)|]. split; [exact (fr_requested _ _ _ _ _ _ F)|].
  split; [exact (fr_previous _ _ _ _ _ _ F)|]. split; [exact (fr_logger _ _ _ _ _ _ F)|].
  split; [exact HT|].
  destruct a0; destruct res; cbn [replay1 fst] in R; inversion R; reflexivity.
Qed.

(* ---- reading rounds_shape ---- *)
(* a successful change/changeWith *)
Definition is_change_ok (e : event) : bool :=
  match e with EvAct _ (AChange _ _) (ROk _) | EvAct _ (AChangeWith _ _ _) (ROk _) => true | _ => false end.

Lemma replay_no_change l : forall st, existsb is_change_ok l = false -> snd (replay l st) = snd st.
Proof.
  unfold replay. induction l as [|e l IH]; intros st H; cbn [fold_right existsb] in *; [reflexivity|].
  apply orb_false_iff in H. destruct H as [He Hl]. specialize (IH st Hl).
  destruct e as [w r m v|a0 res|lr]; cbn [replay1 snd]; try exact IH.
  destruct a0; try exact IH; destruct res; try exact IH; discriminate.
Qed.

(* the request after a stretch is the newest successful change in it, with the id of the callback it was made from *)
Lemma replay_last_change l2 e l1 st : existsb is_change_ok l2 = false -> is_change_ok e = true ->
  snd (replay (l2 ++ e :: l1) st) =
    match e with
    | EvAct _ (AChange _ d) _ => {| t_origin := fst (replay l1 st); t_dest := d; t_pay := None |}
    | EvAct _ (AChangeWith _ d p) _ => {| t_origin := fst (replay l1 st); t_dest := d; t_pay := Some p |}
    | _ => snd st
    end.
Proof.
  intros H2 He. rewrite replay_app, (replay_no_change l2 _ H2).
  unfold replay. cbn [fold_right].
  destruct e as [w r m v|a0 res|lr]; cbn [is_change_ok] in He; try discriminate.
  destruct a0; try discriminate; destruct res; try discriminate; reflexivity.
Qed.

Lemma replay_origin la w r m v lb st : Forall (noncb P) la ->
  fst (replay (la ++ EvCb P w r m v :: lb) st) = v_id P v.
Proof.
  intro H. rewrite replay_app. unfold replay at 2. cbn [fold_right replay1].
  generalize (fold_right replay1 st lb). intro st'.
  induction H as [|e la He _ IH]; [reflexivity|].
  unfold replay in *. cbn [app fold_right].
  destruct e as [w' r' m' v'|a0 res|lr]; cbn [noncb] in He; try contradiction; cbn [replay1 fst].
  - destruct a0; try exact IH; destruct res; exact IH.
  - exact IH.
Qed.

Lemma rounds_shape_valid a cur rs l : rounds_shape a cur rs l -> Forall (fun r => t_valid P (r_pend r) = true) rs.
Proof. induction 1 as [cur|cur pend Hv Hn|cur pend c rs lr l Hv Hn G Np Sh IH]; repeat constructor; auto. Qed.

(* processRequest's first round always runs its guards *)
Lemma first_round_guarded a r rs l : rounds_shape a (t_empty P) (r :: rs) l -> r_deduped r = false.
Proof.
  intro H. inversion H as [|cur pend Hv Hn|cur pend c rs0 lr l0 Hv Hn G Np Sh]; [|reflexivity].
  rewrite (first_round_not_deduped pend Hv) in Hn. discriminate.
Qed.

(* a deduplicated round ends the loop *)
Lemma dedup_is_last a cur rs l : rounds_shape a cur rs l ->
  forall l1 r l2, rs = l1 ++ r :: l2 -> r_deduped r = true -> l2 = [].
Proof.
  induction 1 as [cur|cur pend Hv Hn|cur pend c rs lr l Hv Hn G Np Sh IH]; intros l1 r l2 E Hd.
  - destruct l1; discriminate.
  - destruct l1 as [|x l1]; [injection E as _ E; symmetry; exact E|].
    injection E as _ E. destruct l1; discriminate.
  - destruct l1 as [|x l1].
    + injection E as E _. rewrite <- E in Hd. discriminate.
    + injection E as _ E. exact (IH l1 r l2 E Hd).
Qed.

(* no successful change/changeWith inside a round's guards: it is the last round *)
Lemma no_redirect_last_round lr pend rs :
  next_pend lr pend rs -> Forall (fun r => t_valid P (r_pend r) = true) rs ->
  existsb is_change_ok lr = false -> rs = [].
Proof.
  intros Np Hv Hn. destruct rs as [|r' rs']; [reflexivity|]. exfalso.
  cbn [next_pend] in Np. specialize (Np 0). rewrite (replay_no_change lr _ Hn) in Np. cbn [snd] in Np.
  inversion Hv as [|? ? Hr _]. rewrite Np in Hr. discriminate.
Qed.

End G.

(* ================================================================================================ *)
(* 8. non-vacuity: concrete machines                                                                 *)
(* ================================================================================================ *)
Module GuardExamples.
(* three states A = 0, B = 1, C = 2 without a root head, automatic activation, transition history *)
Definition ex_cfg (limit : nat) : config :=
  {| c_n := 3; c_head := false; c_manual := false; c_limit := limit; c_cap := 4; c_payload := false;
     c_inj_root := 0; c_inj_state := 0; c_plans := false; c_serial := false; c_history := true; c_log := LOff;
     c_def_root := fun _ => false; c_def_state := fun _ => true |}.

Definition summary (r : round unit) : nat * nat * bool * bool :=
  (t_origin unit (r_pend unit r), t_dest unit (r_pend unit r), r_cancelled unit r, r_deduped unit r).
(* the callbacks of a trace, oldest first: who, method, currentTransition().destination, pendingTransition().destination *)
Definition cbs (l : list (event unit)) : list (who * method * nat * nat) :=
  rev (flat_map (fun e => match e with
                          | EvCb _ w _ m v => [(w, m, t_dest unit (v_cur unit v), t_dest unit (v_pend unit v))]
                          | _ => [] end) l).

(* (i) the F1 history: B.entryGuard requests C (and does not cancel), C.entryGuard cancels; immediateChangeTo(B) *)
Definition f1_orc : oracle unit := fun _ w _ m _ =>
  match w, m with St 1, MEntryGuard => [AChange unit 2] | St 2, MEntryGuard => [ACancel unit] | _, _ => [] end.
Definition f1_s0 : mstate unit := change_to unit (ex_cfg 4) 1 None (construct unit (ex_cfg 4) f1_orc false).
Definition f1_final : mstate unit := process_request unit (ex_cfg 4) f1_orc f1_s0.

Example f1_orc_wf limit : wf_oracle unit (ex_cfg limit) f1_orc.
Proof.
  intros t w r m v. unfold f1_orc. destruct w as [|[|[|[|k]]]]; destruct m; repeat constructor.
Qed.

Example f1_is_immediate_change :
  f1_final = fst (step unit (ex_cfg 4) f1_orc (construct unit (ex_cfg 4) f1_orc false) (OImmChange unit 1)).
Proof. unfold f1_final, f1_s0. cbn [step fst]. unfold immediate_change_to. reflexivity. Qed.

Example f1_rounds :
  map summary (loop_rounds unit (ex_cfg 4) f1_orc 4 (t_empty unit) f1_s0) = [(255, 1, false, false); (1, 2, true, false)].
Proof. vm_compute. reflexivity. Qed.

Example f1_ends_in_B :
  active unit (co unit f1_final) = 1 /\ requested unit (co unit f1_final) = INVALID /\
  previous unit (co unit f1_final) = {| t_origin := INVALID; t_dest := 1; t_pay := None |} /\
  t_valid unit (request unit (co unit f1_final)) = false.
Proof. vm_compute. repeat split; reflexivity. Qed.

Example f1_callbacks :
  cbs (tr unit f1_final) =
    [(St 0, MEntryGuard, 255, 255); (St 0, MEnter, 255, 255);          (* construction *)
     (St 0, MExitGuard, 255, 1); (St 1, MEntryGuard, 255, 1);          (* round 1: A -> B passes, B's guard requests C *)
     (St 0, MExitGuard, 1, 2); (St 2, MEntryGuard, 1, 2);              (* round 2: current B, pending C; cancelled *)
     (St 0, MExit, 1, 255); (St 1, MEnter, 1, 255)].                   (* falls back to B; C.enter never runs *)
Proof. vm_compute. reflexivity. Qed.

Example f1_C_never_entered :
  existsb (fun e => match e with EvCb _ (St 2) _ MEnter _ => true | _ => false end) (tr unit f1_final) = false.
Proof. vm_compute. reflexivity. Qed.

(* (ii) ping-pong: every entry guard redirects to the other state; the substitution limit ends it *)
Definition pp_orc : oracle unit := fun _ w _ m _ =>
  match w, m with St 1, MEntryGuard => [AChange unit 2] | St 2, MEntryGuard => [AChange unit 1] | _, _ => [] end.
Definition pp_s0 (limit : nat) : mstate unit :=
  change_to unit (ex_cfg limit) 1 None (construct unit (ex_cfg limit) pp_orc false).
Definition pp_final (limit : nat) : mstate unit := process_request unit (ex_cfg limit) pp_orc (pp_s0 limit).
Definition pp_rounds (limit : nat) : list (round unit) :=
  loop_rounds unit (ex_cfg limit) pp_orc limit (t_empty unit) (pp_s0 limit).

Example pp_orc_wf limit : wf_oracle unit (ex_cfg limit) pp_orc.
Proof.
  intros t w r m v. unfold pp_orc. destruct w as [|[|[|[|k]]]]; destruct m; repeat constructor.
Qed.

Example pp_limit_1 :
  map summary (pp_rounds 1) = [(255, 1, false, false)] /\
  active unit (co unit (pp_final 1)) = 1 /\
  request unit (co unit (pp_final 1)) = {| t_origin := 1; t_dest := 2; t_pay := None |}.
Proof. vm_compute. repeat split; reflexivity. Qed.

Example pp_limit_2 :
  map summary (pp_rounds 2) = [(255, 1, false, false); (1, 2, false, false)] /\
  active unit (co unit (pp_final 2)) = 2 /\
  request unit (co unit (pp_final 2)) = {| t_origin := 2; t_dest := 1; t_pay := None |}.
Proof. vm_compute. repeat split; reflexivity. Qed.

Example pp_limit_4 :
  map summary (pp_rounds 4) = [(255, 1, false, false); (1, 2, false, false); (2, 1, false, false); (1, 2, false, false)] /\
  active unit (co unit (pp_final 4)) = 2 /\
  request unit (co unit (pp_final 4)) = {| t_origin := 2; t_dest := 1; t_pay := None |}.
Proof. vm_compute. repeat split; reflexivity. Qed.

Example pp_exactly_limit_rounds : map (fun l => length (pp_rounds l)) [1; 2; 4] = [1; 2; 4].
Proof. vm_compute. reflexivity. Qed.

(* the left-over request is a value like any other: it may well equal the pend of an earlier round; what C04
   says is that no round ran for it (leftover_untouched), not that the value is new *)
Example pp_leftover_value_may_repeat :
  In (request unit (co unit (pp_final 4))) (map (r_pend unit) (pp_rounds 4)).
Proof. vm_compute. right. right. left. reflexivity. Qed.

(* (iii) deduplication: the accepted transition is the API's "-> B" (no origin, no payload); B.entryGuard asks
   for B again: applyRequest drops that request, no guard runs for it, the loop ends *)
Definition dd_orc : oracle unit := fun _ w _ m _ =>
  match w, m with St 1, MEntryGuard => [AChange unit 1] | _, _ => [] end.
Definition dd_s0 : mstate unit := change_to unit (ex_cfg 4) 1 None (construct unit (ex_cfg 4) dd_orc false).
Definition dd_final : mstate unit := process_request unit (ex_cfg 4) dd_orc dd_s0.

Example dd_rounds :
  map summary (loop_rounds unit (ex_cfg 4) dd_orc 4 (t_empty unit) dd_s0) = [(255, 1, false, false); (1, 1, false, true)] /\
  active unit (co unit dd_final) = 1 /\ t_valid unit (request unit (co unit dd_final)) = false /\
  cbs (tr unit dd_final) =
    [(St 0, MEntryGuard, 255, 255); (St 0, MEnter, 255, 255);
     (St 0, MExitGuard, 255, 1); (St 1, MEntryGuard, 255, 1);
     (St 0, MExit, 1, 255); (St 1, MEnter, 1, 255)].
Proof. vm_compute. repeat split; reflexivity. Qed.
End GuardExamples.

Print Assumptions transitions_loop_g_erase.
Print Assumptions rounds_le_limit.
Print Assumptions survivor_spec.
Print Assumptions deliver_views.
Print Assumptions round_events.
Print Assumptions fresh_round.
Print Assumptions no_redirect_last_round.
Print Assumptions dedup_is_last.
Print Assumptions replay_last_change.
Print Assumptions round_pend_is_request.
Print Assumptions round_cancelled_iff.
Print Assumptions process_request_exact.
Print Assumptions leftover_untouched.
Print Assumptions enter_only_survivor.
Print Assumptions cancelled_never_entered.
Print Assumptions request_is_lazy.
Print Assumptions action_request_is_lazy.
Print Assumptions request_overwrites.
Print Assumptions GuardExamples.f1_callbacks.
Print Assumptions GuardExamples.pp_limit_4.
Print Assumptions GuardExamples.dd_rounds.
