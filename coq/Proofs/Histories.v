(* Whole histories. The statements of Proofs/MachineTop.v, CycleProofs.v, GuardProofs.v, PlanStep.v are made for one
   call on a [Ready] state. This file lifts them to *every call of every in-contract API history from construction*:
   [at_every_call] says that wherever a history is cut (ops = pre ++ op :: post), the state before [op] satisfies the
   invariant, [op] is in contract there, the state is [Ready] when the machine is active, and the run up to and
   including [op] is one [step] from the run of [pre]. The corollaries below specialise it per operation, so that the
   property files can state "for every history, at every update()/react()/immediateChangeTo()/query() in it ...". *)
From Coq Require Import List Arith Bool NArith Lia.
From FFSM2 Require Import Model.TaskList Model.BitArray Model.Plan Model.Ancestors Model.Machine
  Proofs.MachineFrame Proofs.PlanProofs Proofs.MachinePlan Proofs.MachineLife Proofs.GuardProofs Proofs.CycleProofs
  Proofs.PlanStep Proofs.SerialProofs Proofs.MachineTop Proofs.ActivationRounds.
Import ListNotations.

Arguments INVALID : simpl never.

Section H.
Variable P : Type.
Variable cfg : config.
Variable orc : oracle P.
Hypothesis Hcfg : wf_cfg cfg.
Hypothesis Hwf : wf_oracle P cfg orc.

Let HPI : plan_inv_ok P cfg (PIc P cfg) := PIc_ok P cfg (proj1 (proj2 Hcfg)).
Let Hcap : c_cap cfg <= 255 := proj2 (proj1 (proj2 Hcfg)).

Lemma run_from_app s pre post :
  run_from P cfg orc s (pre ++ post) = run_from P cfg orc (run_from P cfg orc s pre) post.
Proof. unfold run_from. apply fold_left_app. Qed.

Lemma run_app lg pre post :
  run P cfg orc lg (pre ++ post) = run_from P cfg orc (run P cfg orc lg pre) post.
Proof. unfold run. apply run_from_app. Qed.

Lemma run_snoc lg pre op :
  run P cfg orc lg (pre ++ [op]) = fst (step P cfg orc (run P cfg orc lg pre) op).
Proof. rewrite run_app. reflexivity. Qed.

Lemma ops_ok_app : forall pre post s,
  ops_ok P cfg orc s (pre ++ post) <->
  ops_ok P cfg orc s pre /\ ops_ok P cfg orc (run_from P cfg orc s pre) post.
Proof.
  induction pre as [|op pre IH]; intros post s; cbn [app ops_ok run_from fold_left].
  - tauto.
  - rewrite IH. unfold run_from. tauto.
Qed.

(* cut a history anywhere *)
Theorem at_every_call lg pre op post :
  ops_ok P cfg orc (construct P cfg orc lg) (pre ++ op :: post) ->
  let s := run P cfg orc lg pre in
  Inv P cfg s /\
  in_contract P cfg s op /\
  (is_on P cfg s -> Ready P cfg s (active P (co P s))) /\
  run P cfg orc lg (pre ++ [op]) = fst (step P cfg orc s op) /\
  ops_ok P cfg orc (construct P cfg orc lg) pre.
Proof.
  intro Hok. apply ops_ok_app in Hok. destruct Hok as [Hpre Hrest]. cbn [ops_ok] in Hrest. destruct Hrest as [Hc _].
  cbv zeta. destruct (reachable_ready P cfg orc Hcfg Hwf lg pre Hpre) as [I R].
  split; [exact I|]. split; [exact Hc|]. split; [exact R|]. split; [apply run_snoc|exact Hpre].
Qed.

(* the trace only grows: what a prefix of the history produced stays, oldest last *)
Lemma step_extends s op : Inv P cfg s -> in_contract P cfg s op ->
  exists l, tr P (fst (step P cfg orc s op)) = l ++ tr P s.
Proof.
  intros I Hc. pose proof (step_spec P cfg orc (PIc P cfg) HPI Hwf Hcfg s op I Hc) as H. cbv zeta in H.
  destruct H as (_ & l & E & _). exists l. exact E.
Qed.

Theorem trace_monotone lg pre post :
  ops_ok P cfg orc (construct P cfg orc lg) (pre ++ post) ->
  exists l, tr P (run P cfg orc lg (pre ++ post)) = l ++ tr P (run P cfg orc lg pre).
Proof.
  revert pre. induction post as [|op post IH]; intros pre Hok.
  - exists []. rewrite app_nil_r. reflexivity.
  - replace (pre ++ op :: post) with ((pre ++ [op]) ++ post) in * by (rewrite <- app_assoc; reflexivity).
    destruct (IH (pre ++ [op]) Hok) as (l1 & E1).
    assert (Hok' : ops_ok P cfg orc (construct P cfg orc lg) (pre ++ op :: post ++ [])).
    { rewrite app_nil_r. rewrite <- app_assoc in Hok. exact Hok. }
    rewrite app_nil_r in Hok'.
    pose proof (at_every_call lg pre op post Hok') as H. cbv zeta in H. destruct H as (I & Hc & _ & Es & _).
    destruct (step_extends _ op I Hc) as (l2 & E2).
    exists (l1 ++ l2). rewrite E1, Es, E2. apply app_assoc.
Qed.

(* ---- update() / react(), anywhere in any history (C02, C05) ---- *)
Definition is_cycle_op (op : api_op P) : option (method * method * method) :=
  match op with
  | OUpdate _ => Some (MPreUpdate, MUpdate, MPostUpdate)
  | OReact _ => Some (MPreReact, MReact, MPostReact)
  | _ => None
  end.

Theorem every_cycle_of_every_history lg pre op post mpre mmid mpost :
  ops_ok P cfg orc (construct P cfg orc lg) (pre ++ op :: post) ->
  is_cycle_op op = Some (mpre, mmid, mpost) ->
  let s := run P cfg orc lg pre in
  let a := active P (co P s) in
  let s' := run P cfg orc lg (pre ++ [op]) in
  a < c_n cfg /\
  Inv P cfg s' /\
  active P (co P s') < c_n cfg /\
  exists l_proc l_plan l_phase,
    tr P s' = l_proc ++ l_plan ++ l_phase ++ tr P s /\
    delivs P cfg a [(Root, mpre); (St a, mpre); (Root, mmid); (St a, mmid); (St a, mpost); (Root, mpost)] l_phase /\
    Forall (kview P (mk_ctl P KFull (t_empty P) (t_empty P))) l_phase /\
    Forall (plan_ev P cfg a) l_plan /\
    (c_plans cfg = false -> l_plan = []) /\
    life_shape P cfg a (active P (co P s')) l_proc.
Proof.
  intros Hok Hop. pose proof (at_every_call lg pre op post Hok) as H. cbv zeta in H |- *.
  destruct H as (I & Hc & R & Es & _).
  assert (Hon : is_on P cfg (run P cfg orc lg pre)).
  { destruct op; cbn [is_cycle_op] in Hop; try discriminate; exact Hc. }
  assert (Hstep : fst (step P cfg orc (run P cfg orc lg pre) op) = cycle P cfg orc mpre mmid mpost (run P cfg orc lg pre)).
  { destruct op; cbn [is_cycle_op] in Hop; try discriminate; inversion Hop; subst; reflexivity. }
  destruct (R Hon) as (_ & Han & Hq & Hrw & Hpi).
  pose proof (cycle_shape P cfg orc (PIc P cfg) HPI Hwf mpre mmid mpost (run P cfg orc lg pre) _ Hcap eq_refl Han Hq Hrw Hpi) as C.
  cbv zeta in C. rewrite Es, Hstep. destruct C as (I' & A' & _ & l1 & l2 & l3 & E & D & K & Pl & Pe & L).
  split; [exact Han|]. split; [exact I'|]. split; [exact A'|].
  exists l1, l2, l3. repeat split; assumption.
Qed.

(* ---- request processing at immediateChangeTo()/immediateChangeWith(), anywhere in any history (C02-C04) ---- *)
Theorem every_immediate_change_of_every_history lg pre d p post :
  let op := match p with None => OImmChange P d | Some x => OImmChangeWith P d x end in
  ops_ok P cfg orc (construct P cfg orc lg) (pre ++ op :: post) ->
  let s := run P cfg orc lg pre in
  let a := active P (co P s) in
  let s0 := change_to P cfg d p s in
  let rounds := loop_rounds P cfg orc (c_limit cfg) (t_empty P) s0 in
  let surv := last_survivor P rounds in
  let s' := run P cfg orc lg (pre ++ [op]) in
  a < c_n cfg /\ d < c_n cfg /\
  length rounds <= c_limit cfg /\
  Inv P cfg s' /\
  (if t_valid P surv
   then active P (co P s') = t_dest P surv /\ t_dest P surv < c_n cfg
   else active P (co P s') = a).
Proof.
  intros op Hok. pose proof (at_every_call lg pre op post Hok) as H. cbv zeta in H |- *.
  destruct H as (I & Hc & R & Es & _).
  assert (Hon : is_on P cfg (run P cfg orc lg pre) /\ d < c_n cfg).
  { subst op. destruct p; exact Hc. }
  destruct Hon as [Hon Hd].
  assert (Hstep : fst (step P cfg orc (run P cfg orc lg pre) op) =
                  process_request P cfg orc (change_to P cfg d p (run P cfg orc lg pre))).
  { subst op. destruct p; reflexivity. }
  destruct (R Hon) as (_ & Han & Hq & Hrw & Hpi).
  pose proof (C02_lazy := request_is_lazy P cfg d p (run P cfg orc lg pre)). cbv zeta in C02_lazy.
  destruct C02_lazy as (La & Lq & _ & Lp & _ & Lr & _).
  assert (R0 : Ready P cfg (change_to P cfg d p (run P cfg orc lg pre)) (active P (co P (run P cfg orc lg pre)))).
  { split; [exact La|]. split; [exact Han|]. split; [rewrite Lq; exact Hq|]. split.
    - unfold RW. rewrite Lr. cbn [t_dest]. intros _. exact Hd.
    - rewrite Lp. exact Hpi. }
  pose proof (process_request_top P cfg orc Hcfg Hwf _ _ R0) as T. cbv zeta in T.
  destruct T as (lr & _ & _ & _ & Hlen & _ & _ & _ & _ & I' & Hs).
  rewrite Es, Hstep. split; [exact Han|]. split; [exact Hd|]. split; [exact Hlen|]. split; [exact I'|].
  destruct (t_valid P _).
  - destruct Hs as (Hdn & Ha & _). split; assumption.
  - destruct Hs as (Ha & _). exact Ha.
Qed.

(* ---- query(), anywhere in any history (C05) ---- *)
Theorem every_query_of_every_history lg pre post :
  ops_ok P cfg orc (construct P cfg orc lg) (pre ++ OQuery P :: post) ->
  let s := run P cfg orc lg pre in
  let a := active P (co P s) in
  let s' := run P cfg orc lg (pre ++ [OQuery P]) in
  co P s' = co P s /\
  exists l, tr P s' = l ++ tr P s /\ delivs P cfg a [(Root, MQuery); (St a, MQuery)] l.
Proof.
  intro Hok. pose proof (at_every_call lg pre (OQuery P) post Hok) as H. cbv zeta in H |- *.
  destruct H as (I & Hc & R & Es & _). rewrite Es. cbn [step fst].
  exact (query_shape P cfg orc (PIc P cfg) HPI Hwf (run P cfg orc lg pre) _ eq_refl Hc).
Qed.

(* ---- requests made from outside never act at once, anywhere in any history (C02) ---- *)
Theorem every_change_of_every_history lg pre d p post :
  let op := match p with None => OChange P d | Some x => OChangeWith P d x end in
  ops_ok P cfg orc (construct P cfg orc lg) (pre ++ op :: post) ->
  let s := run P cfg orc lg pre in
  let s' := run P cfg orc lg (pre ++ [op]) in
  active P (co P s') = active P (co P s) /\
  plan P (co P s') = plan P (co P s) /\
  previous P (co P s') = previous P (co P s) /\
  request P (co P s') = {| t_origin := INVALID; t_dest := d; t_pay := p |} /\
  exists l, tr P s' = l ++ tr P s /\ length l <= 1 /\ Forall (GuardProofs.is_log P) l.
Proof.
  intros op Hok. pose proof (at_every_call lg pre op post Hok) as H. cbv zeta in H |- *.
  destruct H as (_ & _ & _ & Es & _). rewrite Es.
  assert (Hstep : fst (step P cfg orc (run P cfg orc lg pre) op) = change_to P cfg d p (run P cfg orc lg pre)).
  { subst op. destruct p; reflexivity. }
  rewrite Hstep. pose proof (request_is_lazy P cfg d p (run P cfg orc lg pre)) as L. cbv zeta in L.
  destruct L as (La & _ & Lprev & Lp & _ & Lr & Ll). repeat split; assumption.
Qed.

(* ---- every processing step of every history starts from a Ready state (C02, C03, C04, C07, C11) ----
   update()/react() process requests exactly once, at their end, from a state s5 reached by callbacks that applied no
   transition; immediateChangeTo()/immediateChangeWith() process right after storing their request. In both cases s5 is
   Ready, so every statement made about [process_request] on Ready states - the exact description of the guard rounds
   and their survivor (C02/C03), the bound and the left-over (C04), the payload carried along (C07), the previous
   transition (C11) - holds for every processing step of every in-contract history. *)
Definition is_processing_op (op : api_op P) : bool :=
  match op with OUpdate _ | OReact _ | OImmChange _ _ | OImmChangeWith _ _ _ => true | _ => false end.

Theorem every_processing_step_of_every_history lg pre op post :
  ops_ok P cfg orc (construct P cfg orc lg) (pre ++ op :: post) ->
  is_processing_op op = true ->
  let s := run P cfg orc lg pre in
  let a := active P (co P s) in
  exists s5,
    Ready P cfg s5 a /\
    run P cfg orc lg (pre ++ [op]) = process_request P cfg orc s5 /\
    exists l, tr P s5 = l ++ tr P s /\ quiet P cfg a l.
Proof.
  intros Hok Hop. pose proof (at_every_call lg pre op post Hok) as H. cbv zeta in H |- *.
  destruct H as (I & Hc & R & Es & _). rewrite Es.
  destruct op; cbn [is_processing_op] in Hop; try discriminate; cbn [step fst in_contract] in *.
  - (* update *)
    destruct (cycle_processes_last P cfg orc Hcfg Hwf MPreUpdate MUpdate MPostUpdate _ _ eq_refl eq_refl eq_refl (R Hc)) as (s5 & E & R5 & L).
    exists s5. split; [exact R5|]. split; [exact E|exact L].
  - (* react *)
    destruct (cycle_processes_last P cfg orc Hcfg Hwf MPreReact MReact MPostReact _ _ eq_refl eq_refl eq_refl (R Hc)) as (s5 & E & R5 & L).
    exists s5. split; [exact R5|]. split; [exact E|exact L].
  - (* immediateChangeTo *)
    destruct Hc as [Hon Hd]. destruct (R Hon) as (_ & Han & Hq & Hrw & Hpi).
    pose proof (request_is_lazy P cfg d None (run P cfg orc lg pre)) as L. cbv zeta in L.
    destruct L as (La & Lq & _ & Lp & _ & Lr & (l & El & _ & Fl)).
    exists (change_to P cfg d None (run P cfg orc lg pre)). split; [|split; [reflexivity|]].
    + split; [exact La|]. split; [exact Han|]. split; [rewrite Lq; exact Hq|]. split.
      * unfold RW. rewrite Lr. cbn [t_dest]. intros _. exact Hd.
      * rewrite Lp. exact Hpi.
    + exists l. split; [exact El|]. eapply Forall_impl; [|exact Fl].
      intros e He. destruct e; cbn in He |- *; try contradiction; exact Logic.I.
  - (* immediateChangeWith *)
    destruct Hc as [Hon Hd]. destruct (R Hon) as (_ & Han & Hq & Hrw & Hpi).
    pose proof (request_is_lazy P cfg d (Some p) (run P cfg orc lg pre)) as L. cbv zeta in L.
    destruct L as (La & Lq & _ & Lp & _ & Lr & (l & El & _ & Fl)).
    exists (change_to P cfg d (Some p) (run P cfg orc lg pre)). split; [|split; [reflexivity|]].
    + split; [exact La|]. split; [exact Han|]. split; [rewrite Lq; exact Hq|]. split.
      * unfold RW. rewrite Lr. cbn [t_dest]. intros _. exact Hd.
      * rewrite Lp. exact Hpi.
    + exists l. split; [exact El|]. eapply Forall_impl; [|exact Fl].
      intros e He. destruct e; cbn in He |- *; try contradiction; exact Logic.I.
Qed.

End H.

(* ============================================================================================================
   C11 over whole histories: a replica fed with the authority's previousTransition() follows it step by step.
   The authority runs any in-contract history of enter/exit/update/react/changeTo/changeWith/immediateChange*/
   succeed/fail/plan edits/query/logger changes under callbacks [orc]; after every call the replica - a second
   instance of the same configuration whose own callbacks [orc'] are arbitrary (they may request, cancel, edit
   plans: none of it matters) - is driven only by
        replayEnter(previous.destination, or 0 when the initial entry was not redirected)   after enter(),
        replayTransition(previous.destination) when previousTransition() is set              after a processing call,
        exit()                                                                               after exit().
   Then after every call the replica's active state equals the authority's, and the replica's trace consists of
   enter/exit/reenter callbacks (and what they do) only - no guard is ever consulted on it. *)
Section Replica.
Variable P : Type.
Variable cfg : config.
Variable orc orc' : oracle P.
Hypothesis Hcfg : wf_cfg cfg.
Hypothesis Hwf : wf_oracle P cfg orc.
Hypothesis Hwf' : wf_oracle P cfg orc'.
Hypothesis Hhist : c_history cfg = true.

Let HPI : plan_inv_ok P cfg (PIc P cfg) := PIc_ok P cfg (proj1 (proj2 Hcfg)).
Let Hcap : c_cap cfg <= 255 := proj2 (proj1 (proj2 Hcfg)).

Definition auth_op (op : api_op P) : Prop :=
  match op with OLoad _ _ | OReplayEnter _ _ | OReplayTransition _ _ => False | _ => True end.

(* what the replica's owner does after the authority performed [op] and reached [s'] *)
Definition mirror (op : api_op P) (s' : mstate P) (r : mstate P) : mstate P :=
  match op with
  | OUpdate _ | OReact _ | OImmChange _ _ | OImmChangeWith _ _ _ => feed P cfg orc' (previous P (co P s')) r
  | OEnter _ => replay_enter P cfg orc' (if t_valid P (previous P (co P s')) then t_dest P (previous P (co P s')) else 0) r
  | OExit _ => final_exit P cfg orc' r
  | _ => r
  end.

Fixpoint follow (s r : mstate P) (ops : list (api_op P)) : mstate P * mstate P :=
  match ops with
  | [] => (s, r)
  | op :: rest => let s' := fst (step P cfg orc s op) in follow s' (mirror op s' r) rest
  end.

Lemma co_log_rec l (s : mstate P) : co P (log_rec P cfg l s) = co P s.
Proof. unfold log_rec. destruct (log_compiled cfg && logger P (co P s)); reflexivity. Qed.

(* the calls that process no request leave the active state alone *)
Lemma quiet_op_active s op :
  Inv P cfg s -> in_contract P cfg s op -> auth_op op ->
  match op with OUpdate _ | OReact _ | OImmChange _ _ | OImmChangeWith _ _ _ | OEnter _ | OExit _ => True
  | _ => active P (co P (fst (step P cfg orc s op))) = active P (co P s) end.
Proof.
  intros I Hc Ha.
  destruct op; cbn [step fst auth_op] in *; try exact Logic.I; try contradiction.
  - (* query *)
    destruct (query_shape P cfg orc (PIc P cfg) HPI Hwf s _ eq_refl Hc) as [E _]. rewrite E. reflexivity.
  - unfold change_to. rewrite co_log_rec. reflexivity.
  - unfold change_to. rewrite co_log_rec. reflexivity.
  - unfold api_succeed. rewrite co_log_rec. reflexivity.
  - unfold api_fail. rewrite co_log_rec. reflexivity.
  - unfold api_plan_op.
    pose proof (perform_fr P cfg (PIc P cfg) HPI INVALID (APlanAppend P o d) s (mk_ctl P KPlan (t_empty P) (t_empty P)) Hc) as H.
    destruct (perform P cfg INVALID (APlanAppend P o d) _) as [[s1 k1] res]. destruct H as [F _]. cbn [fst].
    exact (fr_active _ _ _ _ _ _ F).
  - unfold api_plan_op.
    pose proof (perform_fr P cfg (PIc P cfg) HPI INVALID (APlanAppendWith P o d p) s (mk_ctl P KPlan (t_empty P) (t_empty P)) Hc) as H.
    destruct (perform P cfg INVALID (APlanAppendWith P o d p) _) as [[s1 k1] res]. destruct H as [F _]. cbn [fst].
    exact (fr_active _ _ _ _ _ _ F).
  - unfold api_plan_op.
    pose proof (perform_fr P cfg (PIc P cfg) HPI INVALID (APlanClear P) s (mk_ctl P KPlan (t_empty P) (t_empty P)) Logic.I) as H.
    destruct (perform P cfg INVALID (APlanClear P) _) as [[s1 k1] res]. destruct H as [F _]. cbn [fst].
    exact (fr_active _ _ _ _ _ _ F).
  - unfold api_plan_op.
    pose proof (perform_fr P cfg (PIc P cfg) HPI INVALID (APlanRemoveAt P k) s (mk_ctl P KPlan (t_empty P) (t_empty P)) Logic.I) as H.
    destruct (perform P cfg INVALID (APlanRemoveAt P k) _) as [[s1 k1] res]. destruct H as [F _]. cbn [fst].
    exact (fr_active _ _ _ _ _ _ F).
  - reflexivity.
Qed.

Definition lifecycle_only (l : list (event P)) : Prop := Forall (only_life P) l.

(* one call of the authority, mirrored *)
Lemma follow_step s r op :
  Inv P cfg s -> SInv P cfg (PIc P cfg) r -> active P (co P r) = active P (co P s) ->
  in_contract P cfg s op -> auth_op op ->
  let s' := fst (step P cfg orc s op) in
  let r' := mirror op s' r in
  Inv P cfg s' /\ SInv P cfg (PIc P cfg) r' /\ active P (co P r') = active P (co P s') /\
  exists l, tr P r' = l ++ tr P r /\ lifecycle_only l.
Proof.
  intros I Ir Ea Hc Ha. cbv zeta.
  pose proof (step_spec P cfg orc (PIc P cfg) HPI Hwf Hcfg s op I Hc) as St. cbv zeta in St. destruct St as (I' & _).
  split; [exact I'|].
  pose proof (quiet_op_active s op I Hc Ha) as Q.
  assert (Hnil : forall r0 : mstate P, exists l, tr P r0 = l ++ tr P r0 /\ lifecycle_only l).
  { intro r0. exists []. split; [reflexivity|constructor]. }
  destruct op; cbn [mirror auth_op] in *; try contradiction;
    try (split; [exact Ir|]; split; [rewrite Q; exact Ea|apply Hnil]).
  - (* enter *)
    cbn [step fst] in *. unfold is_off in Hc. destruct I as (Hq & Hact & Hrw & Hpi).
    pose proof (initial_enter_rounds P cfg orc (PIc P cfg) HPI Hwf Hcfg s Hc Hrw Hpi) as R. cbv zeta in R.
    destruct R as (_ & _ & Hsd & A & An & _ & Pv & _). rewrite Hhist in Pv. rewrite Pv, A.
    assert (Hd : (if t_valid P (act_survivor P cfg orc s) then t_dest P (act_survivor P cfg orc s) else 0) < c_n cfg).
    { rewrite <- A. exact An. }
    assert (Hroff : active P (co P r) = INVALID) by (rewrite Ea; exact Hc).
    pose proof (replay_enter_spec P cfg orc' (PIc P cfg) HPI Hwf' Hcfg _ r Ir Hroff Hd) as H. cbv zeta in H.
    destruct H as (Ir' & Ar' & _ & l & El & C).
    split; [exact Ir'|]. split; [exact Ar'|]. exists l. split; [exact El|exact (change_only_life P cfg _ _ _ C)].
  - (* exit *)
    cbn [step fst] in *. unfold is_on in Hc.
    pose proof (final_exit_spec P cfg orc (PIc P cfg) HPI Hwf s _ eq_refl Hc (proj2 (proj2 (proj2 I)))) as H. cbv zeta in H.
    destruct H as (_ & A & _).
    assert (Hron : active P (co P r) < c_n cfg) by (rewrite Ea; exact Hc).
    pose proof (final_exit_spec P cfg orc' (PIc P cfg) HPI Hwf' r _ eq_refl Hron (proj2 (proj2 (proj2 Ir)))) as H. cbv zeta in H.
    destruct H as (Ir' & Ar' & _ & l & El & C).
    split; [exact Ir'|]. split; [rewrite Ar', A; reflexivity|]. exists l. split; [exact El|exact (change_only_life P cfg _ _ _ C)].
  - (* update *)
    cbn [step fst] in *. unfold update.
    destruct (cycle_processes_last P cfg orc Hcfg Hwf MPreUpdate MUpdate MPostUpdate s _ eq_refl eq_refl eq_refl (Inv_Ready P cfg s I Hc)) as (s5 & E & R5 & _).
    rewrite E. pose proof (replica_in_sync P cfg orc Hcfg Hwf orc' Hwf' s5 _ r R5 Hhist Ir Ea) as H. cbv zeta in H.
    destruct H as (A & Ir' & l & El & Fl). split; [exact Ir'|]. split; [exact A|]. exists l. split; [exact El|exact Fl].
  - (* react *)
    cbn [step fst] in *. unfold react.
    destruct (cycle_processes_last P cfg orc Hcfg Hwf MPreReact MReact MPostReact s _ eq_refl eq_refl eq_refl (Inv_Ready P cfg s I Hc)) as (s5 & E & R5 & _).
    rewrite E. pose proof (replica_in_sync P cfg orc Hcfg Hwf orc' Hwf' s5 _ r R5 Hhist Ir Ea) as H. cbv zeta in H.
    destruct H as (A & Ir' & l & El & Fl). split; [exact Ir'|]. split; [exact A|]. exists l. split; [exact El|exact Fl].
  - (* immediateChangeTo *)
    cbn [step fst] in *. unfold immediate_change_to. destruct Hc as [Hon Hd].
    assert (R0 : Ready P cfg (change_to P cfg d None s) (active P (co P s))).
    { pose proof (request_is_lazy P cfg d None s) as L. cbv zeta in L. destruct L as (La & Lq & _ & Lp & _ & Lr & _).
      destruct I as (Hq & Hact & Hrw & Hpi).
      split; [exact La|]. split; [exact Hon|]. split; [rewrite Lq; exact Hq|]. split.
      - unfold RW. rewrite Lr. cbn [t_dest]. intros _. exact Hd.
      - rewrite Lp. exact Hpi. }
    pose proof (replica_in_sync P cfg orc Hcfg Hwf orc' Hwf' _ _ r R0 Hhist Ir Ea) as H. cbv zeta in H.
    destruct H as (A & Ir' & l & El & Fl). split; [exact Ir'|]. split; [exact A|]. exists l. split; [exact El|exact Fl].
  - (* immediateChangeWith *)
    cbn [step fst] in *. unfold immediate_change_to. destruct Hc as [Hon Hd].
    assert (R0 : Ready P cfg (change_to P cfg d (Some p) s) (active P (co P s))).
    { pose proof (request_is_lazy P cfg d (Some p) s) as L. cbv zeta in L. destruct L as (La & Lq & _ & Lp & _ & Lr & _).
      destruct I as (Hq & Hact & Hrw & Hpi).
      split; [exact La|]. split; [exact Hon|]. split; [rewrite Lq; exact Hq|]. split.
      - unfold RW. rewrite Lr. cbn [t_dest]. intros _. exact Hd.
      - rewrite Lp. exact Hpi. }
    pose proof (replica_in_sync P cfg orc Hcfg Hwf orc' Hwf' _ _ r R0 Hhist Ir Ea) as H. cbv zeta in H.
    destruct H as (A & Ir' & l & El & Fl). split; [exact Ir'|]. split; [exact A|]. exists l. split; [exact El|exact Fl].
Qed.

Lemma lifecycle_only_app l1 l2 : lifecycle_only l1 -> lifecycle_only l2 -> lifecycle_only (l1 ++ l2).
Proof. intros H1 H2. apply Forall_app. split; assumption. Qed.

(* every history of the authority, from any pair of states in which the two instances agree *)
Theorem replica_follows_from : forall ops s r,
  Inv P cfg s -> SInv P cfg (PIc P cfg) r -> active P (co P r) = active P (co P s) ->
  ops_ok P cfg orc s ops -> Forall auth_op ops ->
  let '(s', r') := follow s r ops in
  s' = run_from P cfg orc s ops /\
  Inv P cfg s' /\ SInv P cfg (PIc P cfg) r' /\ active P (co P r') = active P (co P s') /\
  exists l, tr P r' = l ++ tr P r /\ lifecycle_only l.
Proof.
  induction ops as [|op ops IH]; intros s r I Ir Ea Hok Hau; cbn [follow].
  - split; [reflexivity|]. split; [exact I|]. split; [exact Ir|]. split; [exact Ea|]. exists []. split; [reflexivity|constructor].
  - destruct Hok as [Hc Hok]. inversion Hau as [|? ? Ha Hau']; subst.
    pose proof (follow_step s r op I Ir Ea Hc Ha) as H. cbv zeta in H. destruct H as (I1 & Ir1 & Ea1 & l1 & El1 & Fl1).
    specialize (IH _ _ I1 Ir1 Ea1 Hok Hau').
    destruct (follow (fst (step P cfg orc s op)) (mirror op (fst (step P cfg orc s op)) r) ops) as [s' r'].
    destruct IH as (Es & I' & Ir' & Ea' & l2 & El2 & Fl2).
    split; [exact Es|]. split; [exact I'|]. split; [exact Ir'|]. split; [exact Ea'|].
    exists (l2 ++ l1). split; [rewrite El2, El1; apply app_assoc|apply lifecycle_only_app; assumption].
Qed.

(* ... in particular from construction: both instances constructed inactive (manual activation), or constructed
   active in the same state *)
Theorem replica_follows_every_history lg lg' ops :
  active P (co P (construct P cfg orc' lg')) = active P (co P (construct P cfg orc lg)) ->
  ops_ok P cfg orc (construct P cfg orc lg) ops -> Forall auth_op ops ->
  let '(s', r') := follow (construct P cfg orc lg) (construct P cfg orc' lg') ops in
  s' = run P cfg orc lg ops /\
  active P (co P r') = active P (co P s') /\
  exists l, tr P r' = l ++ tr P (construct P cfg orc' lg') /\ lifecycle_only l.
Proof.
  intros Ea Hok Hau.
  pose proof (construct_spec P cfg orc (PIc P cfg) HPI Hwf Hcfg lg) as C1. cbv zeta in C1. destruct C1 as (I1 & _).
  pose proof (construct_spec P cfg orc' (PIc P cfg) HPI Hwf' Hcfg lg') as C2. cbv zeta in C2. destruct C2 as (I2 & _).
  pose proof (replica_follows_from ops _ _ I1 I2 Ea Hok Hau) as H.
  destruct (follow (construct P cfg orc lg) (construct P cfg orc' lg') ops) as [s' r'].
  destruct H as (Es & _ & _ & A & L). split; [exact Es|]. split; [exact A|exact L].
Qed.

(* manual activation: both are constructed inactive, whatever the callbacks *)
Corollary replica_follows_manual lg lg' ops :
  c_manual cfg = true ->
  ops_ok P cfg orc (construct P cfg orc lg) ops -> Forall auth_op ops ->
  let '(s', r') := follow (construct P cfg orc lg) (construct P cfg orc' lg') ops in
  s' = run P cfg orc lg ops /\ active P (co P r') = active P (co P s') /\
  exists l, tr P r' = l ++ tr P (construct P cfg orc' lg') /\ lifecycle_only l.
Proof.
  intros Hm. apply replica_follows_every_history. unfold construct. rewrite Hm. reflexivity.
Qed.

End Replica.

(* ============================================================================================================
   C12 over whole histories: whatever two in-contract histories the saver and the loader have behind them,
   load(save(saver)) leaves the loader with the saver's activity by exactly the lifecycle change needed. *)
Section SaveLoad.
Variable P : Type.
Variable cfg : config.
Variable orc orc' : oracle P.
Hypothesis Hcfg : wf_cfg cfg.
Hypothesis Hwf : wf_oracle P cfg orc.
Hypothesis Hwf' : wf_oracle P cfg orc'.

Let HPI : plan_inv_ok P cfg (PIc P cfg) := PIc_ok P cfg (proj1 (proj2 Hcfg)).

Lemma reachable_saver_ok lg ops :
  ops_ok P cfg orc (construct P cfg orc lg) ops ->
  (c_manual cfg = false -> is_on P cfg (run P cfg orc lg ops)) ->
  saver_ok P cfg (co P (run P cfg orc lg ops)).
Proof.
  intros Hok Hauto. destruct (reachable_ready P cfg orc Hcfg Hwf lg ops Hok) as [(_ & Hact & _) _].
  unfold saver_ok. destruct Hact as [Hoff|Hon]; [|left; exact Hon].
  destruct (c_manual cfg) eqn:Em.
  - right. split; [exact Hoff|reflexivity].
  - left. exact (Hauto eq_refl).
Qed.

Theorem load_roundtrip_between_histories lg lg' ops ops' :
  ops_ok P cfg orc (construct P cfg orc lg) ops ->
  ops_ok P cfg orc' (construct P cfg orc' lg') ops' ->
  (c_manual cfg = false -> is_on P cfg (run P cfg orc lg ops)) ->
  (c_manual cfg = false -> is_on P cfg (run P cfg orc' lg' ops')) ->
  let saver := run P cfg orc lg ops in
  let loader := run P cfg orc' lg' ops' in
  let loader' := load P cfg orc' (save P cfg (co P saver)) loader in
  active P (co P loader') = active P (co P saver) /\
  Inv P cfg loader' /\
  exists l, tr P loader' = l ++ tr P loader /\
            change P cfg (active P (co P loader)) (active P (co P saver)) l /\ Forall (only_life P) l.
Proof.
  intros Hok Hok' Ha Ha'. cbv zeta.
  destruct (reachable_ready P cfg orc' Hcfg Hwf' lg' ops' Hok') as [I' _].
  pose proof (reachable_saver_ok lg ops Hok Ha) as Hs.
  pose proof (load_roundtrip P cfg orc' (PIc P cfg) HPI Hwf' Hcfg (co P (run P cfg orc lg ops)) _ I' Hs Ha') as H.
  cbv zeta in H. destruct H as (I2 & A & _ & l & El & C).
  split; [exact A|]. split; [exact I2|]. exists l. split; [exact El|]. split; [exact C|exact (change_only_life P cfg _ _ _ C)].
Qed.

End SaveLoad.

(* ============================================================================================================
   C06 / C01 over whole histories: every callback delivered anywhere in any in-contract history sees its own id and
   an isActive() table that names exactly one state (the one whose enter() ran last) or none. *)
Section Views.
Variable P : Type.
Variable cfg : config.
Variable orc : oracle P.
Hypothesis Hcfg : wf_cfg cfg.
Hypothesis Hwf : wf_oracle P cfg orc.

Let HPI : plan_inv_ok P cfg (PIc P cfg) := PIc_ok P cfg (proj1 (proj2 Hcfg)).

Definition view_ok (e : event P) : Prop :=
  match e with
  | EvCb _ w r m v => v_id P v = id_of w /\ exists a, v_act P v = act_bits cfg a
  | _ => True
  end.

Lemma ev_ok_view_ok a Q e : ev_ok P cfg a Q e -> view_ok e.
Proof. destruct e; cbn; auto. intros (_ & Hi & Ha). split; [exact Hi|]. exists a. exact Ha. Qed.

Lemma deliv_view_ok w m a l : deliv P cfg w m a l -> Forall view_ok l.
Proof. intros [H _]. eapply Forall_impl; [|exact H]. intro e. apply ev_ok_view_ok. Qed.

Lemma change_view_ok a a' l : change P cfg a a' l -> Forall view_ok l.
Proof.
  intros C. destruct C as [_|l1 l2 _ _ _ D1 D2|l _ _ D|l1 l2 _ _ D1 D2|l1 l2 _ _ D1 D2];
    [constructor| | | | ]; try (apply Forall_app; split); eauto using deliv_view_ok.
Qed.

Lemma life_shape_view_ok a a' l : life_shape P cfg a a' l -> Forall view_ok l.
Proof.
  intros (lc & lq & -> & Q & C). apply Forall_app. split; [exact (change_view_ok _ _ _ C)|].
  eapply Forall_impl; [|exact Q]. intro e. apply ev_ok_view_ok.
Qed.

Lemma life_chain_view_ok a0 a l : life_chain P cfg a0 a l -> Forall view_ok l.
Proof.
  induction 1 as [|a a1 a2 l1 l2 _ IH S]; [constructor|].
  apply Forall_app. split; [exact (life_shape_view_ok _ _ _ S)|exact IH].
Qed.

Theorem every_view_of_every_history lg ops :
  ops_ok P cfg orc (construct P cfg orc lg) ops ->
  Forall view_ok (tr P (run P cfg orc lg ops)).
Proof.
  intro Hok. pose proof (run_life P cfg orc (PIc P cfg) HPI Hwf Hcfg lg ops Hok) as H. cbv zeta in H.
  destruct H as [_ C]. exact (life_chain_view_ok _ _ _ C).
Qed.

End Views.
