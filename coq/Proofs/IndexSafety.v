(* C18, model level: no out-of-bounds index on any in-contract history.
   The containers of Model/*.v are written over [list] with total accessors ([nth i l d] reads, [upd]-style
   writes that ignore an out-of-range index). In the C++ these are raw array accesses. Here every operation
   gets a *checked* twin in the option monad (None as soon as one index is outside the array it addresses:
   reads go through [nth_error], writes through [updc] which fails for i >= length l), and for every twin
     (1) erasure:  op_c x = Some r -> r = op x          (the twin computes the same thing), and
     (2) safety:   invariant + in-contract precondition -> op_c x = Some (op x)   (hence <> None),
   so the totalisation of the model is never exercised. *)
From Coq Require Import List Arith Bool Lia NArith ZArith.
Require Import ZifyBool ZifyN ZifyNat.
From FFSM2 Require Import Model.TaskList Model.BitArray Model.BitStream Model.Arrays Model.Plan Model.Machine.
From FFSM2 Require Import Proofs.TaskListProofs Proofs.PlanProofs Proofs.BitArrayProofs Proofs.BitStreamProofs
                          Proofs.ArraysProofs Proofs.MachineFrame Proofs.MachinePlan.
Import ListNotations.
Ltac Zify.zify_post_hook ::= Z.div_mod_to_equations.

Arguments INVALID : simpl never.

(* ------------------------------------------------------------------------------------------ *)
(* 0. the option monad, checked read, checked write                                            *)
(* ------------------------------------------------------------------------------------------ *)
Definition obind {A B : Type} (o : option A) (f : A -> option B) : option B :=
  match o with Some a => f a | None => None end.
Notation "x <- a ;; b" := (obind a (fun x => b)) (at level 61, a at next level, right associativity).

Section Chk.
Context {A : Type}.
(* checked read: None when i >= length l *)
Definition getc (l : list A) (i : nat) : option A := nth_error l i.
(* checked write: None when i >= length l *)
Fixpoint updc (l : list A) (i : nat) (f : A -> A) : option (list A) :=
  match l, i with
  | [], _ => None
  | h :: t, O => Some (f h :: t)
  | h :: t, S j => match updc t j f with Some t' => Some (h :: t') | None => None end
  end.

Lemma getc_spec (d : A) l i : getc l i = if i <? length l then Some (nth i l d) else None.
Proof.
  unfold getc. destruct (i <? length l) eqn:E.
  - apply Nat.ltb_lt in E. apply nth_error_nth'. exact E.
  - apply Nat.ltb_ge in E. apply nth_error_None. exact E.
Qed.
Lemma getc_none l i : getc l i = None <-> length l <= i.
Proof. apply nth_error_None. Qed.
Lemma updc_none l i f : updc l i f = None <-> length l <= i.
Proof.
  revert i; induction l as [|h t IH]; intros [|i]; cbn [updc length].
  - split; [lia|reflexivity].
  - split; [lia|reflexivity].
  - split; [discriminate|lia].
  - specialize (IH i). destruct (updc t i f); split; try discriminate; try lia; intros; try reflexivity.
    + exfalso. assert (length t <= i) by lia. apply IH in H0. discriminate.
    + apply le_n_S. apply IH. reflexivity.
Qed.
Lemma updc_length l i f l' : updc l i f = Some l' -> length l' = length l.
Proof.
  revert i l'; induction l as [|h t IH]; intros [|i] l' H; cbn [updc] in H; try discriminate.
  - inversion H; reflexivity.
  - destruct (updc t i f) as [t'|] eqn:E; [|discriminate]. inversion H; subst. cbn [length]. f_equal. exact (IH i t' E).
Qed.
End Chk.

(* each container's own total write is what the checked write computes, when it computes anything *)
Ltac updc_spec_tac l :=
  let i := fresh "i" in let h := fresh "h" in let t := fresh "t" in let IH := fresh "IH" in
  intro i; revert i; induction l as [|h t IH]; intros [|i]; cbn [updc length]; try reflexivity;
  rewrite IH; change (S i <? S (length t)) with (i <? length t); destruct (i <? length t); reflexivity.

Lemma updc_tl (P : Type) (l : list (slot P)) f : forall i,
  updc l i f = if i <? length l then Some (TaskList.upd P l i f) else None.
Proof. updc_spec_tac l. Qed.
Lemma updc_links (l : list link) f : forall i,
  updc l i f = if i <? length l then Some (lupd l i f) else None.
Proof. updc_spec_tac l. Qed.
Lemma updc_units (l : ba) f : forall i,
  updc l i f = if i <? length l then Some (uset_nat l i f) else None.
Proof. updc_spec_tac l. Qed.
Lemma updc_bytes (l : bytes) v : forall i,
  updc l i (fun _ => v) = if i <? length l then Some (bset_nat l i v) else None.
Proof. updc_spec_tac l. Qed.
Lemma updc_arr (T : Type) (l : list T) v : forall i,
  updc l i (fun _ => v) = if i <? length l then Some (aupd T l i v) else None.
Proof. updc_spec_tac l. Qed.

Lemma ltb_true a b : a < b -> (a <? b) = true.
Proof. intro H. apply Nat.ltb_lt. exact H. Qed.

(* ------------------------------------------------------------------------------------------ *)
(* a. TaskListT                                                                                *)
(* ------------------------------------------------------------------------------------------ *)
Section TLS.
Variable P : Type.
Variable cap : nat.
Local Notation slot := (slot P).
Local Notation tl := (tl P).
Local Notation tget := (TaskList.get P).
Local Notation tupd := (TaskList.upd P).
Local Notation set_prev := (set_prev P).
Local Notation set_links := (set_links P).
Local Notation dslot := (dslot P).
Local Notation FL := (FL P cap).

Definition emplace_c (t : tl) (o d : nat) (p : option P) : option (tl * nat) :=
  if t_count t <? cap then
    let index := t_head t in
    item <- getc (t_items t) index ;;
    r <- (if negb (t_head t =? t_tail t) then
            let nh := s_next item in
            its <- updc (t_items t) nh (set_prev INVALID) ;;
            Some (nh, t_tail t, t_last t, its)
          else if t_last t <? cap - 1 then
            let l := S (t_last t) in
            its <- updc (t_items t) l (set_links INVALID INVALID) ;;
            Some (l, l, l, its)
          else Some (INVALID, INVALID, cap, t_items t)) ;;
    let '(h, tlv, lst, its) := r in
    its' <- updc its index (fun _ => {| s_prev := o; s_next := d; s_pay := p |}) ;;
    Some ({| t_head := h; t_tail := tlv; t_last := lst; t_count := S (t_count t); t_items := its' |}, index)
  else Some (t, INVALID).

Definition remove_c (t : tl) (i : nat) : option tl :=
  if t_count t <? cap then
    its <- updc (t_items t) i (set_links INVALID (t_head t)) ;;
    its <- updc its (t_head t) (set_prev i) ;;
    Some {| t_head := i; t_tail := t_tail t; t_last := t_last t; t_count := pred (t_count t); t_items := its |}
  else
    its <- updc (t_items t) i (set_links INVALID INVALID) ;;
    Some {| t_head := i; t_tail := i; t_last := t_last t; t_count := pred (t_count t); t_items := its |}.

(* (1) erasure *)
Theorem emplace_c_erase t o d p r : emplace_c t o d p = Some r -> r = emplace P cap t o d p.
Proof.
  unfold emplace_c, emplace. destruct (t_count t <? cap); [|intro H; inversion H; reflexivity].
  rewrite (getc_spec dslot). fold (tget (t_items t) (t_head t)).
  destruct (t_head t <? length (t_items t)); cbn [obind]; [|discriminate].
  destruct (negb (t_head t =? t_tail t)).
  - rewrite updc_tl. destruct (_ <? length (t_items t)); cbn [obind]; [|discriminate].
    rewrite updc_tl. destruct (_ <? length _); cbn [obind]; [|discriminate].
    intro H; inversion H; reflexivity.
  - destruct (t_last t <? cap - 1).
    + rewrite updc_tl. destruct (_ <? length (t_items t)); cbn [obind]; [|discriminate].
      rewrite updc_tl. destruct (_ <? length _); cbn [obind]; [|discriminate].
      intro H; inversion H; reflexivity.
    + cbn [obind]. rewrite updc_tl. destruct (_ <? length _); cbn [obind]; [|discriminate].
      intro H; inversion H; reflexivity.
Qed.

Theorem remove_c_erase t i r : remove_c t i = Some r -> r = remove P cap t i.
Proof.
  unfold remove_c, remove. destruct (t_count t <? cap).
  - rewrite updc_tl. destruct (_ <? length (t_items t)); cbn [obind]; [|discriminate].
    rewrite updc_tl. destruct (_ <? length _); cbn [obind]; [|discriminate].
    intro H; inversion H; reflexivity.
  - rewrite updc_tl. destruct (_ <? length (t_items t)); cbn [obind]; [|discriminate].
    intro H; inversion H; reflexivity.
Qed.

(* the index facts the invariant provides *)
Lemma FL_vac_nonempty t vac occ : FL t vac occ -> t_count t < cap -> vac <> [].
Proof.
  intros F Hlt E. subst vac. pose proof (fl_full _ _ _ _ _ F eq_refl) as Hl.
  pose proof (fl_count _ _ _ _ _ F) as Hc. unfold used in Hc. rewrite Hl, Nat.ltb_irrefl in Hc. cbn [length] in Hc. lia.
Qed.
Lemma FL_vac_lt_cap t vac occ v : FL t vac occ -> In v vac -> v < cap.
Proof.
  intros F Hv. pose proof (fl_vac_lt _ _ _ _ _ F v Hv) as H1.
  pose proof (used_le P cap t (fl_last _ _ _ _ _ F)). lia.
Qed.
(* the head of the free list is a slot whenever the list is not full *)
Lemma FL_head_lt t vac occ : FL t vac occ -> t_count t < cap -> t_head t < cap.
Proof.
  intros F Hlt. pose proof (FL_vac_nonempty t vac occ F Hlt) as Hne.
  destruct vac as [|v0 rest]; [congruence|].
  rewrite (fl_head _ _ _ _ _ F). cbn [hd]. apply (FL_vac_lt_cap t _ occ v0 F). left. reflexivity.
Qed.
(* ... and when it is not the only vacant slot, its next-link is the next vacant slot *)
Lemma FL_next_lt t vac occ : FL t vac occ -> t_count t < cap -> t_head t <> t_tail t ->
  s_next (tget (t_items t) (t_head t)) < cap.
Proof.
  intros F Hlt Hne. pose proof (FL_vac_nonempty t vac occ F Hlt) as Hv.
  destruct vac as [|v0 [|v1 rest]]; [congruence| |].
  - exfalso. apply Hne. rewrite (fl_head _ _ _ _ _ F), (fl_tail _ _ _ _ _ F). reflexivity.
  - pose proof (fl_chain _ _ _ _ _ F) as Hc. cbn [chain] in Hc. destruct Hc as [Hn _].
    rewrite (fl_head _ _ _ _ _ F). cbn [hd]. rewrite Hn.
    apply (FL_vac_lt_cap t _ occ v1 F). right. left. reflexivity.
Qed.
Lemma FL_occ_lt t vac occ i : FL t vac occ -> In i (map fst occ) -> i < cap.
Proof.
  intros F Hin. apply in_map_iff in Hin. destruct Hin as [[k s] [Hk Hks]]. cbn [fst] in Hk. subst k.
  destruct (fl_occ_sub _ _ _ _ _ F i s Hks) as (H1 & _ & _).
  pose proof (used_le P cap t (fl_last _ _ _ _ _ F)). lia.
Qed.

(* (2) safety *)
Theorem emplace_c_safe t vac occ o d p : FL t vac occ -> emplace_c t o d p = Some (emplace P cap t o d p).
Proof.
  intros F. pose proof (fl_len _ _ _ _ _ F) as Hlen.
  unfold emplace_c, emplace. destruct (t_count t <? cap) eqn:Ec; [|reflexivity].
  apply Nat.ltb_lt in Ec.
  pose proof (FL_head_lt t vac occ F Ec) as Hh.
  rewrite (getc_spec dslot). fold (tget (t_items t) (t_head t)).
  rewrite Hlen, (ltb_true _ _ Hh). cbn [obind].
  destruct (negb (t_head t =? t_tail t)) eqn:Eht.
  - apply negb_true_iff, Nat.eqb_neq in Eht.
    pose proof (FL_next_lt t vac occ F Ec Eht) as Hn.
    rewrite updc_tl, Hlen, (ltb_true _ _ Hn). cbn [obind].
    rewrite updc_tl, upd_length, Hlen, (ltb_true _ _ Hh). reflexivity.
  - destruct (t_last t <? cap - 1) eqn:Eg.
    + apply Nat.ltb_lt in Eg.
      rewrite updc_tl, Hlen, (ltb_true (S (t_last t)) cap) by lia. cbn [obind].
      rewrite updc_tl, upd_length, Hlen, (ltb_true _ _ Hh). reflexivity.
    + cbn [obind]. rewrite updc_tl, Hlen, (ltb_true _ _ Hh). reflexivity.
Qed.

Theorem remove_c_safe t vac occ i : FL t vac occ -> In i (map fst occ) -> remove_c t i = Some (remove P cap t i).
Proof.
  intros F Hin. pose proof (fl_len _ _ _ _ _ F) as Hlen.
  pose proof (FL_occ_lt t vac occ i F Hin) as Hi.
  unfold remove_c, remove. destruct (t_count t <? cap) eqn:Ec.
  - apply Nat.ltb_lt in Ec. pose proof (FL_head_lt t vac occ F Ec) as Hh.
    rewrite updc_tl, Hlen, (ltb_true _ _ Hi). cbn [obind].
    rewrite updc_tl, upd_length, Hlen, (ltb_true _ _ Hh). reflexivity.
  - rewrite updc_tl, Hlen, (ltb_true _ _ Hi). reflexivity.
Qed.

Corollary emplace_c_total t vac occ o d p : FL t vac occ -> emplace_c t o d p <> None.
Proof. intros F. rewrite (emplace_c_safe t vac occ o d p F). discriminate. Qed.
Corollary remove_c_total t vac occ i : FL t vac occ -> In i (map fst occ) -> remove_c t i <> None.
Proof. intros F Hin. rewrite (remove_c_safe t vac occ i F Hin). discriminate. Qed.
End TLS.

(* ------------------------------------------------------------------------------------------ *)
(* c. BitArrayT                                                                                *)
(* ------------------------------------------------------------------------------------------ *)
Section BAS.
Local Open Scope N_scope.
Variable cap : N.
Hypothesis cap_pos : 1 <= cap.
Local Notation wf := (BitArrayProofs.wf cap).

Definition ugetc (b : ba) (u : N) : option N := getc b (N.to_nat u).
Definition usetc (b : ba) (u : N) (f : N -> N) : option ba := updc b (N.to_nat u) f.

Definition ba_get_c (b : ba) (i : N) : option bool :=
  x <- ugetc b (i / 8) ;; Some (negb (N.land x (ba_mask i) =? 0)).
Definition ba_set_c (b : ba) (i : N) : option ba := usetc b (i / 8) (fun x => N.lor x (ba_mask i)).
Definition ba_clear_c (b : ba) (i : N) : option ba := usetc b (i / 8) (fun x => N.land x (N.lxor 255 (ba_mask i))).
Definition ba_set_all_c (b : ba) : option ba :=
  usetc (map (fun _ => 255) b) (ba_units cap - 1) (fun x => N.land x (ba_last_mask cap)).
(* PlanT::clear(): both report bits of every state id below k *)
Fixpoint clear_bits_c (k : nat) (b : ba) : option ba :=
  match k with O => Some b | S k' => b' <- clear_bits_c k' b ;; ba_clear_c b' (N.of_nat k') end.

Lemma ugetc_spec b u : ugetc b u = if (N.to_nat u <? length b)%nat then Some (uget b u) else None.
Proof. unfold ugetc, uget. apply getc_spec. Qed.
Lemma usetc_spec b u f : usetc b u f = if (N.to_nat u <? length b)%nat then Some (uset b u f) else None.
Proof. unfold usetc, uset. apply updc_units. Qed.

(* (1) erasure *)
Theorem ba_get_c_erase b i r : ba_get_c b i = Some r -> r = ba_get b i.
Proof.
  unfold ba_get_c, ba_get. rewrite ugetc_spec. destruct (_ <? _)%nat; cbn [obind]; [|discriminate].
  intro H; inversion H; reflexivity.
Qed.
Theorem ba_set_c_erase b i r : ba_set_c b i = Some r -> r = ba_set b i.
Proof.
  unfold ba_set_c, ba_set. rewrite usetc_spec. destruct (_ <? _)%nat; [|discriminate]. intro H; inversion H; reflexivity.
Qed.
Theorem ba_clear_c_erase b i r : ba_clear_c b i = Some r -> r = ba_clear b i.
Proof.
  unfold ba_clear_c, ba_clear. rewrite usetc_spec. destruct (_ <? _)%nat; [|discriminate]. intro H; inversion H; reflexivity.
Qed.
Theorem ba_set_all_c_erase b r : ba_set_all_c b = Some r -> r = ba_set_all cap b.
Proof.
  unfold ba_set_all_c, ba_set_all. rewrite usetc_spec. destruct (_ <? _)%nat; [|discriminate]. intro H; inversion H; reflexivity.
Qed.
Theorem clear_bits_c_erase : forall k b r, clear_bits_c k b = Some r -> r = clear_bits k b.
Proof.
  induction k as [|k IH]; intros b r H; cbn [clear_bits_c clear_bits] in *.
  - inversion H; reflexivity.
  - destruct (clear_bits_c k b) as [b'|] eqn:E; cbn [obind] in H; [|discriminate].
    rewrite <- (IH b b' E). apply ba_clear_c_erase. exact H.
Qed.

(* (2) safety: unit index i / 8 < UNIT_COUNT for every bit index i < CAPACITY *)
Theorem ba_get_c_safe b i : wf b -> i < cap -> ba_get_c b i = Some (ba_get b i).
Proof.
  intros W Hi. unfold ba_get_c, ba_get. rewrite ugetc_spec.
  rewrite (ltb_true _ _ (unit_in_range cap cap_pos b i W Hi)). reflexivity.
Qed.
Theorem ba_set_c_safe b i : wf b -> i < cap -> ba_set_c b i = Some (ba_set b i).
Proof.
  intros W Hi. unfold ba_set_c, ba_set. rewrite usetc_spec.
  rewrite (ltb_true _ _ (unit_in_range cap cap_pos b i W Hi)). reflexivity.
Qed.
Theorem ba_clear_c_safe b i : wf b -> i < cap -> ba_clear_c b i = Some (ba_clear b i).
Proof.
  intros W Hi. unfold ba_clear_c, ba_clear. rewrite usetc_spec.
  rewrite (ltb_true _ _ (unit_in_range cap cap_pos b i W Hi)). reflexivity.
Qed.
(* set(): the last unit UNIT_COUNT - 1 exists *)
Theorem ba_set_all_c_safe b : wf b -> ba_set_all_c b = Some (ba_set_all cap b).
Proof.
  intros [Hl _]. unfold ba_set_all_c, ba_set_all. rewrite usetc_spec, map_length.
  replace (N.to_nat (ba_units cap - 1) <? length b)%nat with true; [reflexivity|].
  symmetry. apply Nat.ltb_lt. unfold ba_units in *. lia.
Qed.
Lemma clear_bits_wf : forall k b, wf b -> wf (clear_bits k b).
Proof. induction k as [|k IH]; intros b W; cbn [clear_bits]; [exact W|]. apply (clear_wf cap cap_pos). apply IH. exact W. Qed.
Theorem clear_bits_c_safe : forall k b, wf b -> N.of_nat k <= cap -> clear_bits_c k b = Some (clear_bits k b).
Proof.
  induction k as [|k IH]; intros b W Hk; cbn [clear_bits_c clear_bits]; [reflexivity|].
  rewrite IH by (try exact W; lia). cbn [obind].
  apply ba_clear_c_safe; [apply clear_bits_wf; exact W|lia].
Qed.

Corollary ba_get_c_total b i : wf b -> i < cap -> ba_get_c b i <> None.
Proof. intros W Hi. rewrite (ba_get_c_safe b i W Hi). discriminate. Qed.
Corollary ba_set_c_total b i : wf b -> i < cap -> ba_set_c b i <> None.
Proof. intros W Hi. rewrite (ba_set_c_safe b i W Hi). discriminate. Qed.
Corollary ba_clear_c_total b i : wf b -> i < cap -> ba_clear_c b i <> None.
Proof. intros W Hi. rewrite (ba_clear_c_safe b i W Hi). discriminate. Qed.
Corollary ba_set_all_c_total b : wf b -> ba_set_all_c b <> None.
Proof. intros W. rewrite (ba_set_all_c_safe b W). discriminate. Qed.

(* the bound is tight: the first index past the storage is refused by the checked twin *)
Lemma ba_get_c_oob b i : wf b -> ba_units cap * 8 <= i -> ba_get_c b i = None.
Proof.
  intros [Hl _] Hi. unfold ba_get_c. rewrite ugetc_spec.
  replace (N.to_nat (i / 8) <? length b)%nat with false; [reflexivity|].
  symmetry. apply Nat.ltb_ge. unfold ba_units in *. lia.
Qed.
End BAS.

(* ------------------------------------------------------------------------------------------ *)
(* b. the plan: taskLinks + tasksBounds, PlanT and its iterator                                *)
(* ------------------------------------------------------------------------------------------ *)
Section PLS.
Variable cap : nat.
Local Notation PInv := (PInv cap).

Definition link_task_c (p : pl) (idx : nat) : option pl :=
  if first p =? INVALID then Some {| links := links p; first := idx; lastb := idx |}
  else
    ls <- updc (links p) (lastb p) (fun l => (fst l, idx)) ;;
    ls <- updc ls idx (fun l => (lastb p, snd l)) ;;
    Some {| links := ls; first := first p; lastb := idx |}.

Definition unlink_c (p : pl) (idx : nat) : option pl :=
  l <- getc (links p) idx ;;
  let pv := fst l in let nx := snd l in
  r1 <- (if pv <? cap then ls <- updc (links p) pv (fun x => (fst x, nx)) ;; Some (ls, first p)
         else Some (links p, nx)) ;;
  let '(ls1, f1) := r1 in
  r2 <- (if nx <? cap then ls <- updc ls1 nx (fun x => (pv, snd x)) ;; Some (ls, lastb p)
         else Some (ls1, pv)) ;;
  let '(ls2, l2) := r2 in
  ls3 <- updc ls2 idx (fun _ => dlink) ;;
  Some {| links := ls3; first := f1; lastb := l2 |}.

Theorem link_task_c_erase p idx r : link_task_c p idx = Some r -> r = link_task p idx.
Proof.
  unfold link_task_c, link_task. destruct (first p =? INVALID); [intro H; inversion H; reflexivity|].
  rewrite updc_links. destruct (_ <? length (links p)); cbn [obind]; [|discriminate].
  rewrite updc_links. destruct (_ <? length _); cbn [obind]; [|discriminate].
  intro H; inversion H; reflexivity.
Qed.

Theorem unlink_c_erase p idx r : unlink_c p idx = Some r -> r = unlink cap p idx.
Proof.
  unfold unlink_c, unlink. rewrite (getc_spec dlink). fold (lget (links p) idx).
  destruct (idx <? length (links p)); cbn [obind]; [|discriminate].
  destruct (fst (lget (links p) idx) <? cap).
  - rewrite updc_links. destruct (_ <? length (links p)); cbn [obind]; [|discriminate].
    destruct (snd (lget (links p) idx) <? cap).
    + rewrite updc_links. destruct (_ <? length _); cbn [obind]; [|discriminate].
      rewrite updc_links. destruct (_ <? length _); cbn [obind]; [|discriminate].
      intro H; inversion H; reflexivity.
    + cbn [obind]. rewrite updc_links. destruct (_ <? length _); cbn [obind]; [|discriminate].
      intro H; inversion H; reflexivity.
  - cbn [obind]. destruct (snd (lget (links p) idx) <? cap).
    + rewrite updc_links. destruct (_ <? length _); cbn [obind]; [|discriminate].
      rewrite updc_links. destruct (_ <? length _); cbn [obind]; [|discriminate].
      intro H; inversion H; reflexivity.
    + cbn [obind]. rewrite updc_links. destruct (_ <? length _); cbn [obind]; [|discriminate].
      intro H; inversion H; reflexivity.
Qed.

(* linkTask: bounds.last is a linked task (hence a slot) whenever the plan is not empty *)
Theorem link_task_c_safe p order idx : PInv p order -> idx < cap -> link_task_c p idx = Some (link_task p idx).
Proof.
  intros HP Hi. pose proof (pi_len _ _ _ HP) as Hlen.
  unfold link_task_c, link_task. destruct (first p =? INVALID) eqn:Ef; [reflexivity|].
  apply Nat.eqb_neq in Ef.
  assert (Hl : lastb p < cap).
  { rewrite (pi_last _ _ _ HP). destruct order as [|a rest].
    - exfalso. apply Ef. rewrite (pi_first _ _ _ HP). reflexivity.
    - apply (pi_lt _ _ _ HP). apply last_in. }
  rewrite updc_links, Hlen, (ltb_true _ _ Hl). cbn [obind].
  rewrite updc_links, lupd_length, Hlen, (ltb_true _ _ Hi). reflexivity.
Qed.

(* remove: the neighbours' links are written under the library's own  prev < CAPACITY / next < CAPACITY  tests *)
Theorem unlink_c_safe p idx : length (links p) = cap -> idx < cap -> unlink_c p idx = Some (unlink cap p idx).
Proof.
  intros Hlen Hi. unfold unlink_c, unlink. rewrite (getc_spec dlink). fold (lget (links p) idx).
  rewrite Hlen, (ltb_true _ _ Hi). cbn [obind].
  destruct (fst (lget (links p) idx) <? cap) eqn:E1.
  - rewrite updc_links, Hlen, E1. cbn [obind].
    destruct (snd (lget (links p) idx) <? cap) eqn:E2.
    + rewrite updc_links, lupd_length, Hlen, E2. cbn [obind].
      rewrite updc_links, !lupd_length, Hlen, (ltb_true _ _ Hi). reflexivity.
    + cbn [obind]. rewrite updc_links, !lupd_length, Hlen, (ltb_true _ _ Hi). reflexivity.
  - cbn [obind]. destruct (snd (lget (links p) idx) <? cap) eqn:E2.
    + rewrite updc_links, Hlen, E2. cbn [obind].
      rewrite updc_links, !lupd_length, Hlen, (ltb_true _ _ Hi). reflexivity.
    + cbn [obind]. rewrite updc_links, Hlen, (ltb_true _ _ Hi). reflexivity.
Qed.
End PLS.

Fixpoint mapc {A B : Type} (f : A -> option B) (l : list A) : option (list B) :=
  match l with [] => Some [] | x :: r => y <- f x ;; ys <- mapc f r ;; Some (y :: ys) end.
Lemma mapc_erase {A B : Type} (f : A -> option B) (g : A -> B) :
  (forall x y, f x = Some y -> y = g x) -> forall l r, mapc f l = Some r -> r = map g l.
Proof.
  intros Hf. induction l as [|x l IH]; intros r H; cbn [mapc map] in *; [inversion H; reflexivity|].
  destruct (f x) as [y|] eqn:E; cbn [obind] in H; [|discriminate].
  destruct (mapc f l) as [ys|] eqn:E2; cbn [obind] in H; [|discriminate].
  inversion H; subst. rewrite (Hf x y E), (IH ys eq_refl). reflexivity.
Qed.
Lemma mapc_safe {A B : Type} (f : A -> option B) (g : A -> B) l :
  (forall x, In x l -> f x = Some (g x)) -> mapc f l = Some (map g l).
Proof.
  induction l as [|x l IH]; intros H; cbn [mapc map]; [reflexivity|].
  rewrite (H x (or_introl eq_refl)). cbn [obind]. rewrite IH by (intros y Hy; apply H; right; exact Hy). reflexivity.
Qed.

Section PDS.
Variable P : Type.
Variable cap : nat.
Variable n : nat.
Local Notation plan_data := (plan_data P).
Local Notation task := (task P).
Local Notation tget := (TaskList.get P).
Local Notation PlanInv := (PlanInv P cap).
Local Notation nN := (N.of_nat n).

Definition task_at_c (d : plan_data) (i : nat) : option task :=
  s <- getc (t_items (pd_tasks d)) i ;;
  Some {| tk_origin := s_prev s; tk_dest := s_next s; tk_payload := s_pay s |}.

Definition pd_link_c (d : plan_data) (idx : nat) : option (plan_data * bool) :=
  if idx =? INVALID then Some (d, false)
  else p <- link_task_c (pd_pl d) idx ;; Some (pd_with_pl P d p, true).

Definition plan_append_c (d : plan_data) (o dst : nat) : option (plan_data * bool) :=
  if t_count (pd_tasks d) <? cap then
    let d1 := pd_with_exists P d true in
    r <- emplace_c P cap (pd_tasks d1) o dst None ;;
    let '(t', idx) := r in
    pd_link_c (pd_with_tasks P d1 t') idx
  else Some (d, false).

Definition plan_append_with_c (d : plan_data) (o dst : nat) (p : P) : option (plan_data * bool) :=
  let d1 := pd_with_exists P d true in
  r <- emplace_c P cap (pd_tasks d1) o dst (Some p) ;;
  let '(t', idx) := r in
  pd_link_c (pd_with_tasks P d1 t') idx.

Definition plan_remove_c (d : plan_data) (idx : nat) : option plan_data :=
  p <- unlink_c cap (pd_pl d) idx ;;
  let d1 := pd_with_pl P d p in
  t <- remove_c P cap (pd_tasks d1) idx ;;
  Some (pd_with_tasks P d1 t).

Fixpoint clear_loop_c (fuel : nat) (d : plan_data) (idx : nat) : option plan_data :=
  match fuel with
  | O => Some d
  | S f => if idx =? INVALID then Some d else
           l <- getc (links (pd_pl d)) idx ;;
           let nx := snd l in
           d' <- plan_remove_c d idx ;;
           clear_loop_c f d' nx
  end.
Definition plan_clear_tasks_c (d : plan_data) : option plan_data :=
  if first (pd_pl d) <? cap then
    d1 <- clear_loop_c (S cap) d (first (pd_pl d)) ;;
    Some (pd_with_pl P d1 {| links := links (pd_pl d1); first := INVALID; lastb := INVALID |})
  else Some d.
Definition plan_clear_c (d : plan_data) : option plan_data :=
  d1 <- plan_clear_tasks_c d ;;
  bs <- clear_bits_c n (pd_succ d1) ;;
  bf <- clear_bits_c n (pd_fail d1) ;;
  Some (pd_with_fail P (pd_with_succ P d1 bs) bf).

Definition it_next_c (d : plan_data) (curr : nat) : option nat :=
  if curr <? cap then l <- getc (links (pd_pl d)) curr ;; Some (snd l) else Some INVALID.
Fixpoint iter_indices_c (fuel : nat) (d : plan_data) (curr : nat) : option (list nat) :=
  match fuel with
  | O => Some []
  | S f => if curr <? cap then
             nx <- it_next_c d curr ;; r <- iter_indices_c f d nx ;; Some (curr :: r)
           else Some []
  end.
Definition plan_indices_c (d : plan_data) : option (list nat) := iter_indices_c (S cap) d (first (pd_pl d)).
Definition plan_tasks_c (d : plan_data) : option (list task) :=
  is <- plan_indices_c d ;; mapc (task_at_c d) is.
Definition plan_first_c (d : plan_data) : option task := task_at_c d (first (pd_pl d)).
Definition plan_last_c (d : plan_data) : option task := task_at_c d (lastb (pd_pl d)).

Fixpoint remove_at_loop_c (fuel : nat) (d : plan_data) (curr next : nat) (k : option nat) (seen : list task)
  : option (plan_data * list task) :=
  match fuel with
  | O => Some (d, seen)
  | S f => if curr <? cap then
             t <- task_at_c d curr ;;
             let hit := match k with Some O => true | _ => false end in
             d1 <- (if hit then plan_remove_c d curr else Some d) ;;
             let k' := match k with Some (S j) => Some j | _ => None end in
             nn <- it_next_c d1 next ;;
             remove_at_loop_c f d1 next nn k' (seen ++ [t])
           else Some (d, seen)
  end.
Definition plan_remove_at_c (d : plan_data) (k : nat) : option (plan_data * list task) :=
  let c := first (pd_pl d) in
  nx <- it_next_c d c ;; remove_at_loop_c (S cap) d c nx (Some k) [].

(* ---- (1) erasure ---- *)
Theorem task_at_c_erase d i r : task_at_c d i = Some r -> r = task_at P d i.
Proof.
  unfold task_at_c, task_at. rewrite (getc_spec (dslot P)). fold (tget (t_items (pd_tasks d)) i).
  destruct (_ <? _); cbn [obind]; [|discriminate]. intro H; inversion H; reflexivity.
Qed.
Theorem pd_link_c_erase d idx r : pd_link_c d idx = Some r -> r = pd_link P d idx.
Proof.
  unfold pd_link_c, pd_link. destruct (idx =? INVALID); [intro H; inversion H; reflexivity|].
  destruct (link_task_c (pd_pl d) idx) as [p|] eqn:E; cbn [obind]; [|discriminate].
  apply link_task_c_erase in E. subst p. intro H; inversion H; reflexivity.
Qed.
Theorem plan_append_c_erase d o dst r : plan_append_c d o dst = Some r -> r = plan_append P cap d o dst.
Proof.
  unfold plan_append_c, plan_append. destruct (_ <? cap); [|intro H; inversion H; reflexivity].
  destruct (emplace_c P cap _ o dst None) as [[t' idx]|] eqn:E; cbn [obind]; [|discriminate].
  apply emplace_c_erase in E. rewrite <- E. apply pd_link_c_erase.
Qed.
Theorem plan_append_with_c_erase d o dst p r :
  plan_append_with_c d o dst p = Some r -> r = plan_append_with P cap d o dst p.
Proof.
  unfold plan_append_with_c, plan_append_with.
  destruct (emplace_c P cap _ o dst (Some p)) as [[t' idx]|] eqn:E; cbn [obind]; [|discriminate].
  apply emplace_c_erase in E. rewrite <- E. apply pd_link_c_erase.
Qed.
Theorem plan_remove_c_erase d idx r : plan_remove_c d idx = Some r -> r = plan_remove P cap d idx.
Proof.
  unfold plan_remove_c, plan_remove.
  destruct (unlink_c cap (pd_pl d) idx) as [p|] eqn:E; cbn [obind]; [|discriminate].
  apply unlink_c_erase in E. subst p.
  destruct (remove_c P cap _ idx) as [t|] eqn:E2; cbn [obind]; [|discriminate].
  apply remove_c_erase in E2. subst t. intro H; inversion H; reflexivity.
Qed.
Theorem clear_loop_c_erase : forall fuel d idx r, clear_loop_c fuel d idx = Some r -> r = clear_loop P cap fuel d idx.
Proof.
  induction fuel as [|f IH]; intros d idx r H; cbn [clear_loop_c clear_loop] in *; [inversion H; reflexivity|].
  destruct (idx =? INVALID); [inversion H; reflexivity|].
  rewrite (getc_spec dlink) in H. fold (lget (links (pd_pl d)) idx) in H.
  destruct (idx <? _); cbn [obind] in H; [|discriminate].
  destruct (plan_remove_c d idx) as [d'|] eqn:E; cbn [obind] in H; [|discriminate].
  apply plan_remove_c_erase in E. subst d'. apply IH. exact H.
Qed.
Theorem plan_clear_tasks_c_erase d r : plan_clear_tasks_c d = Some r -> r = plan_clear_tasks P cap d.
Proof.
  unfold plan_clear_tasks_c, plan_clear_tasks. destruct (_ <? cap); [|intro H; inversion H; reflexivity].
  destruct (clear_loop_c (S cap) d _) as [d1|] eqn:E; cbn [obind]; [|discriminate].
  apply clear_loop_c_erase in E. subst d1. intro H; inversion H; reflexivity.
Qed.
Theorem plan_clear_c_erase d r : plan_clear_c d = Some r -> r = plan_clear P cap n d.
Proof.
  unfold plan_clear_c, plan_clear.
  destruct (plan_clear_tasks_c d) as [d1|] eqn:E; cbn [obind]; [|discriminate].
  apply plan_clear_tasks_c_erase in E. subst d1.
  destruct (clear_bits_c n (pd_succ _)) as [bs|] eqn:E1; cbn [obind]; [|discriminate].
  destruct (clear_bits_c n (pd_fail _)) as [bf|] eqn:E2; cbn [obind]; [|discriminate].
  apply clear_bits_c_erase in E1, E2. subst bs bf. intro H; inversion H; reflexivity.
Qed.
Theorem it_next_c_erase d curr r : it_next_c d curr = Some r -> r = it_next P cap d curr.
Proof.
  unfold it_next_c, it_next. destruct (curr <? cap); [|intro H; inversion H; reflexivity].
  rewrite (getc_spec dlink). fold (lget (links (pd_pl d)) curr).
  destruct (_ <? _); cbn [obind]; [|discriminate]. intro H; inversion H; reflexivity.
Qed.
Theorem iter_indices_c_erase : forall fuel d curr r,
  iter_indices_c fuel d curr = Some r -> r = iter_indices P cap fuel d curr.
Proof.
  induction fuel as [|f IH]; intros d curr r H; cbn [iter_indices_c iter_indices] in *; [inversion H; reflexivity|].
  destruct (curr <? cap); [|inversion H; reflexivity].
  destruct (it_next_c d curr) as [nx|] eqn:E; cbn [obind] in H; [|discriminate].
  apply it_next_c_erase in E. subst nx.
  destruct (iter_indices_c f d _) as [r'|] eqn:E2; cbn [obind] in H; [|discriminate].
  apply IH in E2. subst r'. inversion H; reflexivity.
Qed.
Theorem plan_tasks_c_erase d r : plan_tasks_c d = Some r -> r = plan_tasks P cap d.
Proof.
  unfold plan_tasks_c, plan_tasks, plan_indices_c, plan_indices.
  destruct (iter_indices_c (S cap) d _) as [is|] eqn:E; cbn [obind]; [|discriminate].
  apply iter_indices_c_erase in E. subst is. apply mapc_erase. intros x y. apply task_at_c_erase.
Qed.
Theorem remove_at_loop_c_erase : forall fuel d curr next k seen r,
  remove_at_loop_c fuel d curr next k seen = Some r -> r = remove_at_loop P cap fuel d curr next k seen.
Proof.
  induction fuel as [|f IH]; intros d curr next k seen r H; cbn [remove_at_loop_c remove_at_loop] in *;
    [inversion H; reflexivity|].
  destruct (curr <? cap); [|inversion H; reflexivity].
  destruct (task_at_c d curr) as [t|] eqn:Et; cbn [obind] in H; [|discriminate].
  apply task_at_c_erase in Et. subst t.
  destruct k as [[|j]|].
  - destruct (plan_remove_c d curr) as [d1|] eqn:E; cbn [obind] in H; [|discriminate].
    apply plan_remove_c_erase in E. subst d1.
    destruct (it_next_c _ next) as [nn|] eqn:En; cbn [obind] in H; [|discriminate].
    apply it_next_c_erase in En. subst nn. apply IH. exact H.
  - cbn [obind] in H.
    destruct (it_next_c _ next) as [nn|] eqn:En; cbn [obind] in H; [|discriminate].
    apply it_next_c_erase in En. subst nn. apply IH. exact H.
  - cbn [obind] in H.
    destruct (it_next_c _ next) as [nn|] eqn:En; cbn [obind] in H; [|discriminate].
    apply it_next_c_erase in En. subst nn. apply IH. exact H.
Qed.
Theorem plan_remove_at_c_erase d k r : plan_remove_at_c d k = Some r -> r = plan_remove_at P cap d k.
Proof.
  unfold plan_remove_at_c, plan_remove_at.
  destruct (it_next_c d _) as [nx|] eqn:E; cbn [obind]; [|discriminate].
  apply it_next_c_erase in E. subst nx. apply remove_at_loop_c_erase.
Qed.

(* ---- (2) safety ---- *)
Lemma PlanInv_items_length d order : PlanInv d order -> length (t_items (pd_tasks d)) = cap.
Proof. intros [(vac & occ & F & _) _]. exact (fl_len _ _ _ _ _ F). Qed.

(* a task is read from a slot of the task list *)
Lemma task_at_c_lt d i : length (t_items (pd_tasks d)) = cap -> i < cap -> task_at_c d i = Some (task_at P d i).
Proof.
  intros Hlen Hi. unfold task_at_c, task_at. rewrite (getc_spec (dslot P)). fold (tget (t_items (pd_tasks d)) i).
  rewrite Hlen, (ltb_true _ _ Hi). reflexivity.
Qed.
Theorem task_at_c_safe d order i : PlanInv d order -> In i order -> task_at_c d i = Some (task_at P d i).
Proof.
  intros H Hi. apply task_at_c_lt; [exact (PlanInv_items_length d order H)|exact (PlanInv_lt P cap d order i H Hi)].
Qed.

(* the iterator follows a link only under its own  _curr < CAPACITY  test *)
Lemma it_next_c_len d curr : length (links (pd_pl d)) = cap -> it_next_c d curr = Some (it_next P cap d curr).
Proof.
  intros Hlen. unfold it_next_c, it_next. destruct (curr <? cap) eqn:E; [|reflexivity].
  rewrite (getc_spec dlink). fold (lget (links (pd_pl d)) curr). rewrite Hlen, E. reflexivity.
Qed.
Theorem it_next_c_safe d order curr : PlanInv d order -> it_next_c d curr = Some (it_next P cap d curr).
Proof. intros H. apply it_next_c_len. exact (PlanInv_links_length P cap d order H). Qed.

Lemma iter_indices_c_len d : length (links (pd_pl d)) = cap -> forall fuel curr,
  iter_indices_c fuel d curr = Some (iter_indices P cap fuel d curr).
Proof.
  intros Hlen. induction fuel as [|f IH]; intros curr; cbn [iter_indices_c iter_indices]; [reflexivity|].
  destruct (curr <? cap); [|reflexivity].
  rewrite (it_next_c_len d curr Hlen). cbn [obind]. rewrite IH. reflexivity.
Qed.
Theorem plan_tasks_c_safe d order : PlanInv d order -> plan_tasks_c d = Some (plan_tasks P cap d).
Proof.
  intros H. unfold plan_tasks_c, plan_tasks, plan_indices_c, plan_indices.
  rewrite (iter_indices_c_len d (PlanInv_links_length P cap d order H)). cbn [obind].
  fold (plan_indices P cap d). rewrite (plan_indices_spec P cap d order H).
  apply mapc_safe. intros i Hi. exact (task_at_c_safe d order i H Hi).
Qed.
(* first() / last() are in contract on a non-empty plan only *)
Theorem plan_first_last_c_safe d order : PlanInv d order -> order <> [] ->
  plan_first_c d = Some (plan_first P d) /\ plan_last_c d = Some (plan_last P d).
Proof.
  intros H Hne. destruct order as [|a r]; [congruence|].
  unfold plan_first_c, plan_last_c, plan_first, plan_last.
  rewrite (pi_first _ _ _ (pv_links _ _ _ _ H)), (pi_last _ _ _ (pv_links _ _ _ _ H)). split.
  - apply (task_at_c_safe d _ _ H). left. reflexivity.
  - apply (task_at_c_safe d _ _ H). apply last_in.
Qed.

Theorem plan_remove_c_safe d order idx : PlanInv d order -> In idx order ->
  plan_remove_c d idx = Some (plan_remove P cap d idx).
Proof.
  intros H Hin. pose proof (PlanInv_lt P cap d order idx H Hin) as Hi.
  unfold plan_remove_c, plan_remove.
  rewrite (unlink_c_safe cap (pd_pl d) idx (PlanInv_links_length P cap d order H) Hi). cbn [obind].
  destruct H as [(vac & occ & F & Hdom) _]. cbn [pd_tasks pd_with_pl].
  rewrite (remove_c_safe P cap (pd_tasks d) vac occ idx F (proj1 (Hdom idx) Hin)). reflexivity.
Qed.

Lemma pd_link_c_safe d order idx : PInv cap (pd_pl d) order -> idx < cap \/ idx = INVALID ->
  pd_link_c d idx = Some (pd_link P d idx).
Proof.
  intros HP Hi. unfold pd_link_c, pd_link. destruct (idx =? INVALID) eqn:E; [reflexivity|].
  apply Nat.eqb_neq in E. destruct Hi as [Hi|Hi]; [|contradiction].
  rewrite (link_task_c_safe cap (pd_pl d) order idx HP Hi). reflexivity.
Qed.

(* append, at any fill level: a full plan is refused before any slot is addressed *)
Theorem plan_append_c_safe d order o dst : PlanInv d order ->
  plan_append_c d o dst = Some (plan_append P cap d o dst).
Proof.
  intros H. destruct (PlanInv_count P cap d order H) as [Hcnt _].
  unfold plan_append_c, plan_append. destruct (t_count (pd_tasks d) <? cap) eqn:Ec; [|reflexivity].
  apply Nat.ltb_lt in Ec. destruct H as [(vac & occ & F & Hdom) HP].
  cbn [pd_tasks pd_with_exists].
  rewrite (emplace_c_safe P cap (pd_tasks d) vac occ o dst None F). cbn [obind].
  destruct (emplace_FL P cap _ vac occ o dst None F Ec) as (v0 & rest & _ & Hs & Hv0 & _).
  destruct (emplace P cap (pd_tasks d) o dst None) as [t' idx]. cbn [snd] in Hs. subst idx.
  apply (pd_link_c_safe _ order); [exact HP|left; exact Hv0].
Qed.
Theorem plan_append_with_c_safe d order o dst p : PlanInv d order ->
  plan_append_with_c d o dst p = Some (plan_append_with P cap d o dst p).
Proof.
  intros H. destruct (PlanInv_count P cap d order H) as [Hcnt Hle].
  unfold plan_append_with_c, plan_append_with. destruct H as [(vac & occ & F & Hdom) HP].
  cbn [pd_tasks pd_with_exists].
  rewrite (emplace_c_safe P cap (pd_tasks d) vac occ o dst (Some p) F). cbn [obind].
  destruct (Nat.lt_ge_cases (t_count (pd_tasks d)) cap) as [Ec|Ec].
  - destruct (emplace_FL P cap _ vac occ o dst (Some p) F Ec) as (v0 & rest & _ & Hs & Hv0 & _).
    destruct (emplace P cap (pd_tasks d) o dst (Some p)) as [t' idx]. cbn [snd] in Hs. subst idx.
    apply (pd_link_c_safe _ order); [exact HP|left; exact Hv0].
  - rewrite (emplace_full P cap _ vac occ o dst (Some p) F) by lia.
    apply (pd_link_c_safe _ order); [exact HP|right; reflexivity].
Qed.

Lemma clear_loop_c_safe : forall order fuel d, PlanInv d order ->
  clear_loop_c fuel d (hd INVALID order) = Some (clear_loop P cap fuel d (hd INVALID order)).
Proof.
  induction order as [|a r IH]; intros fuel d H.
  - destruct fuel as [|f]; cbn [clear_loop_c clear_loop hd]; [reflexivity|]. rewrite Nat.eqb_refl. reflexivity.
  - destruct fuel as [|f]; cbn [clear_loop_c clear_loop hd]; [reflexivity|].
    pose proof (PlanInv_cap P cap _ _ H) as Hc.
    assert (Ha : a < cap) by (apply (PlanInv_lt P cap d _ a H); left; reflexivity).
    replace (a =? INVALID) with false by (symmetry; apply Nat.eqb_neq; unfold INVALID; lia).
    rewrite (getc_spec dlink). fold (lget (links (pd_pl d)) a).
    rewrite (PlanInv_links_length P cap d _ H), (ltb_true _ _ Ha). cbn [obind].
    rewrite (plan_remove_c_safe d (a :: r) a H (or_introl eq_refl)). cbn [obind].
    rewrite (PInv_next cap (pd_pl d) [] a r (pv_links _ _ _ _ H)).
    destruct (plan_remove_spec P cap d [] a r H) as (H' & _). cbn [app] in H'.
    apply IH. exact H'.
Qed.
Theorem plan_clear_tasks_c_safe d order : PlanInv d order ->
  plan_clear_tasks_c d = Some (plan_clear_tasks P cap d).
Proof.
  intros H. unfold plan_clear_tasks_c, plan_clear_tasks. destruct (first (pd_pl d) <? cap); [|reflexivity].
  rewrite (pi_first _ _ _ (pv_links _ _ _ _ H)). rewrite (clear_loop_c_safe order (S cap) d H). reflexivity.
Qed.
Theorem plan_clear_c_safe d order : PlanInv d order -> (1 <= nN)%N ->
  BitArrayProofs.wf nN (pd_succ d) -> BitArrayProofs.wf nN (pd_fail d) ->
  plan_clear_c d = Some (plan_clear P cap n d).
Proof.
  intros H Hn Ws Wf. unfold plan_clear_c, plan_clear.
  rewrite (plan_clear_tasks_c_safe d order H). cbn [obind].
  destruct (plan_clear_tasks_spec P cap d order H) as (_ & _ & (A & B & _) & _).
  rewrite A, B.
  rewrite (clear_bits_c_safe nN Hn n (pd_succ d) Ws (N.le_refl _)). cbn [obind].
  rewrite (clear_bits_c_safe nN Hn n (pd_fail d) Wf (N.le_refl _)). reflexivity.
Qed.

(* removal through the iterator: every step of the walk, including the steps after it.remove() *)
Lemma remove_at_loop_c_safe : forall rest pre fuel d k seen, PlanInv d (pre ++ rest) ->
  remove_at_loop_c fuel d (hd INVALID rest) (hd INVALID (List.tl rest)) k seen =
  Some (remove_at_loop P cap fuel d (hd INVALID rest) (hd INVALID (List.tl rest)) k seen).
Proof.
  induction rest as [|a r IH]; intros pre fuel d k seen H.
  - pose proof (PlanInv_cap P cap _ _ H) as Hc.
    destruct fuel as [|f]; cbn [remove_at_loop_c remove_at_loop hd]; [reflexivity|].
    replace (INVALID <? cap) with false; [reflexivity|]. symmetry. apply Nat.ltb_ge. unfold INVALID. lia.
  - destruct fuel as [|f]; cbn [remove_at_loop_c remove_at_loop hd List.tl]; [reflexivity|].
    assert (Hin : In a (pre ++ a :: r)) by (apply in_or_app; right; left; reflexivity).
    assert (Ha : a < cap) by (exact (PlanInv_lt P cap d _ a H Hin)).
    rewrite (ltb_true _ _ Ha). rewrite (task_at_c_safe d _ a H Hin). cbn [obind].
    assert (H' : PlanInv d ((pre ++ [a]) ++ r)) by (rewrite <- app_assoc; exact H).
    destruct k as [[|j]|].
    + rewrite (plan_remove_c_safe d _ a H Hin). cbn [obind].
      destruct (plan_remove_spec P cap d pre a r H) as (H1 & _).
      rewrite (it_next_c_safe _ _ _ H1). cbn [obind].
      rewrite (it_next_spec P cap _ pre r H1). apply (IH pre). exact H1.
    + cbn [obind]. rewrite (it_next_c_safe _ _ _ H). cbn [obind].
      rewrite (it_next_spec P cap d (pre ++ [a]) r H'). apply (IH (pre ++ [a])). exact H'.
    + cbn [obind]. rewrite (it_next_c_safe _ _ _ H). cbn [obind].
      rewrite (it_next_spec P cap d (pre ++ [a]) r H'). apply (IH (pre ++ [a])). exact H'.
Qed.
Theorem plan_remove_at_c_safe d order k : PlanInv d order ->
  plan_remove_at_c d k = Some (plan_remove_at P cap d k).
Proof.
  intros H. unfold plan_remove_at_c, plan_remove_at. cbv zeta.
  rewrite (it_next_c_safe _ _ _ H). cbn [obind].
  rewrite (pi_first _ _ _ (pv_links _ _ _ _ H)). rewrite (it_next_spec P cap d [] order H).
  apply (remove_at_loop_c_safe order []). exact H.
Qed.

Corollary plan_remove_c_total d order idx : PlanInv d order -> In idx order -> plan_remove_c d idx <> None.
Proof. intros H Hi. rewrite (plan_remove_c_safe d order idx H Hi). discriminate. Qed.
Corollary plan_append_c_total d order o dst : PlanInv d order -> plan_append_c d o dst <> None.
Proof. intros H. rewrite (plan_append_c_safe d order o dst H). discriminate. Qed.
Corollary plan_append_with_c_total d order o dst p : PlanInv d order -> plan_append_with_c d o dst p <> None.
Proof. intros H. rewrite (plan_append_with_c_safe d order o dst p H). discriminate. Qed.
Corollary plan_clear_tasks_c_total d order : PlanInv d order -> plan_clear_tasks_c d <> None.
Proof. intros H. rewrite (plan_clear_tasks_c_safe d order H). discriminate. Qed.
Corollary plan_tasks_c_total d order : PlanInv d order -> plan_tasks_c d <> None.
Proof. intros H. rewrite (plan_tasks_c_safe d order H). discriminate. Qed.
Corollary plan_remove_at_c_total d order k : PlanInv d order -> plan_remove_at_c d k <> None.
Proof. intros H. rewrite (plan_remove_at_c_safe d order k H). discriminate. Qed.
End PDS.

(* ------------------------------------------------------------------------------------------ *)
(* d. bit streams                                                                              *)
(* ------------------------------------------------------------------------------------------ *)
Section BSS.
Local Open Scope N_scope.

Definition bgetc (b : bytes) (i : N) : option N := getc b (N.to_nat i).
Definition bsetc (b : bytes) (i : N) (v : N) : option bytes := updc b (N.to_nat i) (fun _ => v).

Definition write_chunk_c (buf : bytes) (cursor item width : N) : option (bytes * N * N * N) :=
  let byteIndex := N.shiftr cursor 3 in
  let start := N.land cursor 7 in
  let dataw := 8 - start in
  let cw := N.min dataw width in
  let chunk := N.shiftl item start in
  old <- bgetc buf byteIndex ;;
  let byte' := (N.lor old chunk) mod 256 in
  buf' <- bsetc buf byteIndex byte' ;;
  Some (buf', (cursor + cw) mod 256, N.shiftr item cw, width - cw).

Fixpoint write_loop_c (fuel : nat) (buf : bytes) (cursor item width : N) : option (bytes * N) :=
  match fuel with
  | O => Some (buf, cursor)
  | S f => if width =? 0 then Some (buf, cursor) else
           r <- write_chunk_c buf cursor item width ;;
           let '(buf', c', i', w') := r in
           write_loop_c f buf' c' i' w'
  end.
Definition write_c (buf : bytes) (cursor width item : N) : option (bytes * N) :=
  write_loop_c (N.to_nat width) buf cursor item width.

Definition read_chunk_c (buf : bytes) (cursor item icur width : N) : option (N * N * N * N) :=
  let byteIndex := N.shiftr cursor 3 in
  let start := N.land cursor 7 in
  let dataw := 8 - start in
  let cw := N.min dataw width in
  let mask := N.shiftl 1 cw - 1 in
  byte <- bgetc buf byteIndex ;;
  let chunk := N.land (N.shiftr byte start) mask in
  let ichunk := N.shiftl chunk icur in
  Some ((cursor + cw) mod 256, N.lor item ichunk, icur + cw, width - cw).

Fixpoint read_loop_c (fuel : nat) (buf : bytes) (cursor item icur width : N) : option (N * N) :=
  match fuel with
  | O => Some (item, cursor)
  | S f => if width =? 0 then Some (item, cursor) else
           r <- read_chunk_c buf cursor item icur width ;;
           let '(c', i', ic', w') := r in
           read_loop_c f buf c' i' ic' w'
  end.
Definition read_c (buf : bytes) (cursor width : N) : option (N * N) :=
  read_loop_c (N.to_nat width) buf cursor 0 0 width.

Lemma bgetc_spec b i : bgetc b i = if (N.to_nat i <? length b)%nat then Some (bget b i) else None.
Proof. unfold bgetc, bget. apply getc_spec. Qed.
Lemma bsetc_spec b i v : bsetc b i v = if (N.to_nat i <? length b)%nat then Some (bset b i v) else None.
Proof. unfold bsetc, bset. apply updc_bytes. Qed.

(* (1) erasure *)
Theorem write_chunk_c_erase buf c item w r : write_chunk_c buf c item w = Some r -> r = write_chunk buf c item w.
Proof.
  unfold write_chunk_c, write_chunk. rewrite bgetc_spec. destruct (_ <? _)%nat eqn:E; cbn [obind]; [|discriminate].
  rewrite bsetc_spec, E. cbn [obind]. intro H; inversion H; reflexivity.
Qed.
Theorem write_loop_c_erase : forall fuel buf c item w r,
  write_loop_c fuel buf c item w = Some r -> r = write_loop fuel buf c item w.
Proof.
  induction fuel as [|f IH]; intros buf c item w r H; cbn [write_loop_c write_loop] in *; [inversion H; reflexivity|].
  destruct (w =? 0); [inversion H; reflexivity|].
  destruct (write_chunk_c buf c item w) as [[[[b1 c1] i1] w1]|] eqn:E; cbn [obind] in H; [|discriminate].
  apply write_chunk_c_erase in E. rewrite <- E. apply IH. exact H.
Qed.
Theorem write_c_erase buf c w item r : write_c buf c w item = Some r -> r = write buf c w item.
Proof. apply write_loop_c_erase. Qed.
Theorem read_chunk_c_erase buf c item icur w r :
  read_chunk_c buf c item icur w = Some r -> r = read_chunk buf c item icur w.
Proof.
  unfold read_chunk_c, read_chunk. rewrite bgetc_spec. destruct (_ <? _)%nat; cbn [obind]; [|discriminate].
  intro H; inversion H; reflexivity.
Qed.
Theorem read_loop_c_erase : forall fuel buf c item icur w r,
  read_loop_c fuel buf c item icur w = Some r -> r = read_loop fuel buf c item icur w.
Proof.
  induction fuel as [|f IH]; intros buf c item icur w r H; cbn [read_loop_c read_loop] in *; [inversion H; reflexivity|].
  destruct (w =? 0); [inversion H; reflexivity|].
  destruct (read_chunk_c buf c item icur w) as [[[[c1 i1] ic1] w1]|] eqn:E; cbn [obind] in H; [|discriminate].
  apply read_chunk_c_erase in E. rewrite <- E. apply IH. exact H.
Qed.
Theorem read_c_erase buf c w r : read_c buf c w = Some r -> r = read buf c w.
Proof. apply read_loop_c_erase. Qed.

(* the byte index of one chunk *)
Lemma byte_index_lt (len : nat) c w : 0 < w -> c + w <= 8 * N.of_nat len -> (N.to_nat (N.shiftr c 3) < len)%nat.
Proof. intros Hw Hc. rewrite shiftr3. lia. Qed.

(* (2) safety. The hypothesis is the stream's own contract (the field fits into the buffer); the uint8_t
   cursor is allowed to wrap here: wrapping only moves the cursor down, so the index stays in range. *)
Theorem write_chunk_c_safe buf c item w : 0 < w -> c + w <= 8 * N.of_nat (length buf) ->
  write_chunk_c buf c item w = Some (write_chunk buf c item w).
Proof.
  intros Hw Hc. unfold write_chunk_c, write_chunk.
  pose proof (byte_index_lt (length buf) c w Hw Hc) as Hi.
  rewrite bgetc_spec, (ltb_true _ _ Hi). cbn [obind]. rewrite bsetc_spec, (ltb_true _ _ Hi). reflexivity.
Qed.
Theorem read_chunk_c_safe buf c item icur w : 0 < w -> c + w <= 8 * N.of_nat (length buf) ->
  read_chunk_c buf c item icur w = Some (read_chunk buf c item icur w).
Proof.
  intros Hw Hc. unfold read_chunk_c, read_chunk.
  pose proof (byte_index_lt (length buf) c w Hw Hc) as Hi.
  rewrite bgetc_spec, (ltb_true _ _ Hi). reflexivity.
Qed.

Lemma chunk_step_fits (len c w : N) : 0 < w -> c + w <= 8 * len ->
  let cw := N.min (8 - N.land c 7) w in (c + cw) mod 256 + (w - cw) <= 8 * len.
Proof. intros Hw Hc cw. subst cw. rewrite land7. lia. Qed.

Theorem write_loop_c_safe : forall fuel buf c item w, c + w <= 8 * N.of_nat (length buf) ->
  write_loop_c fuel buf c item w = Some (write_loop fuel buf c item w).
Proof.
  induction fuel as [|f IH]; intros buf c item w Hc; cbn [write_loop_c write_loop]; [reflexivity|].
  destruct (w =? 0) eqn:Ew; [reflexivity|]. apply N.eqb_neq in Ew.
  assert (Hw : 0 < w) by lia.
  rewrite (write_chunk_c_safe buf c item w Hw Hc). cbn [obind].
  pose proof (chunk_step_fits (N.of_nat (length buf)) c w Hw Hc) as Hs. cbv zeta in Hs.
  unfold write_chunk. apply IH. unfold bset. rewrite bset_nat_length. exact Hs.
Qed.
Theorem write_c_safe buf c w item : c + w <= 8 * N.of_nat (length buf) -> write_c buf c w item = Some (write buf c w item).
Proof. apply write_loop_c_safe. Qed.

Theorem read_loop_c_safe : forall fuel buf c item icur w, c + w <= 8 * N.of_nat (length buf) ->
  read_loop_c fuel buf c item icur w = Some (read_loop fuel buf c item icur w).
Proof.
  induction fuel as [|f IH]; intros buf c item icur w Hc; cbn [read_loop_c read_loop]; [reflexivity|].
  destruct (w =? 0) eqn:Ew; [reflexivity|]. apply N.eqb_neq in Ew.
  assert (Hw : 0 < w) by lia.
  rewrite (read_chunk_c_safe buf c item icur w Hw Hc). cbn [obind].
  pose proof (chunk_step_fits (N.of_nat (length buf)) c w Hw Hc) as Hs. cbv zeta in Hs.
  unfold read_chunk. apply IH. exact Hs.
Qed.
Theorem read_c_safe buf c w : c + w <= 8 * N.of_nat (length buf) -> read_c buf c w = Some (read buf c w).
Proof. apply read_loop_c_safe. Qed.

Corollary write_c_total buf c w item : c + w <= 8 * N.of_nat (length buf) -> write_c buf c w item <> None.
Proof. intro H. rewrite (write_c_safe buf c w item H). discriminate. Qed.
Corollary read_c_total buf c w : c + w <= 8 * N.of_nat (length buf) -> read_c buf c w <> None.
Proof. intro H. rewrite (read_c_safe buf c w H). discriminate. Qed.

(* the uint8_t cursor: below 256 bits nothing wraps, the cursor returned is exactly c + w *)
Theorem write_cursor_no_wrap : forall fuel buf c item w, (N.to_nat w <= fuel)%nat -> c + w < 256 ->
  snd (write_loop fuel buf c item w) = c + w.
Proof.
  induction fuel as [|f IH]; intros buf c item w Hf H256; cbn [write_loop].
  - cbn [snd]. lia.
  - destruct (w =? 0) eqn:Ew; [cbn [snd]; lia|]. apply N.eqb_neq in Ew.
    unfold write_chunk. rewrite land7. rewrite IH.
    + rewrite N.mod_small by lia. lia.
    + lia.
    + rewrite N.mod_small by lia. lia.
Qed.
Theorem read_cursor_no_wrap : forall fuel buf c item icur w, (N.to_nat w <= fuel)%nat -> c + w < 256 ->
  snd (read_loop fuel buf c item icur w) = c + w.
Proof.
  induction fuel as [|f IH]; intros buf c item icur w Hf H256; cbn [read_loop].
  - cbn [snd]. lia.
  - destruct (w =? 0) eqn:Ew; [cbn [snd]; lia|]. apply N.eqb_neq in Ew.
    unfold read_chunk. rewrite land7. rewrite IH.
    + rewrite N.mod_small by lia. lia.
    + lia.
    + rewrite N.mod_small by lia. lia.
Qed.
Corollary cursor_no_wrap buf c w item : c + w < 256 ->
  snd (write buf c w item) = c + w /\ snd (read buf c w) = c + w.
Proof.
  intro H. split; [apply write_cursor_no_wrap|apply read_cursor_no_wrap]; auto.
Qed.
End BSS.

(* ------------------------------------------------------------------------------------------ *)
(* e. StaticArrayT / DynamicArrayT and the array iterator                                      *)
(* ------------------------------------------------------------------------------------------ *)
Fixpoint foldc {A B : Type} (f : A -> B -> option A) (l : list B) (a : A) : option A :=
  match l with [] => Some a | x :: r => a' <- f a x ;; foldc f r a' end.

Section ARS.
Variable T : Type.
Variable dflt : T.
Local Notation sa := (sa T).
Local Notation da := (da T).
Local Notation da_inv := (da_inv T).

Definition sa_get_c (a : sa) (i : nat) : option T := getc a i.
Definition sa_set_c (a : sa) (i : nat) (v : T) : option sa := updc a i (fun _ => v).
Definition da_emplace_c (a : da) (v : T) : option (da * nat) :=
  its <- updc (da_items T a) (da_count T a) (fun _ => v) ;;
  Some ({| da_count := S (da_count T a); da_items := its |}, da_count T a).
Definition da_get_c (a : da) (i : nat) : option T := getc (da_items T a) i.
Definition da_append_c (a : da) (v : T) : option da := r <- da_emplace_c a v ;; Some (fst r).
Fixpoint da_iter_c (fuel : nat) (a : da) (cursor : nat) : option (list T) :=
  match fuel with
  | O => Some []
  | S f => if cursor =? da_count T a then Some [] else
           x <- da_get_c a cursor ;; r <- da_iter_c f a ((cursor + 1) mod 256) ;; Some (x :: r)
  end.
Definition da_to_list_c (a : da) : option (list T) := da_iter_c 256 a 0.
Definition da_append_all_c (a o : da) : option da := l <- da_to_list_c o ;; foldc da_append_c l a.

(* (1) erasure *)
Theorem sa_get_c_erase a i r : sa_get_c a i = Some r -> r = sa_get T dflt a i.
Proof.
  unfold sa_get_c, sa_get. rewrite (getc_spec dflt). destruct (_ <? _); [|discriminate]. intro H; inversion H; reflexivity.
Qed.
Theorem sa_set_c_erase a i v r : sa_set_c a i v = Some r -> r = sa_set T a i v.
Proof.
  unfold sa_set_c, sa_set. rewrite updc_arr. destruct (_ <? _); [|discriminate]. intro H; inversion H; reflexivity.
Qed.
Theorem da_emplace_c_erase a v r : da_emplace_c a v = Some r -> r = da_emplace T a v.
Proof.
  unfold da_emplace_c, da_emplace. rewrite updc_arr. destruct (_ <? _); cbn [obind]; [|discriminate].
  intro H; inversion H; reflexivity.
Qed.
Theorem da_get_c_erase a i r : da_get_c a i = Some r -> r = da_get T dflt a i.
Proof.
  unfold da_get_c, da_get. rewrite (getc_spec dflt). destruct (_ <? _); [|discriminate]. intro H; inversion H; reflexivity.
Qed.
Theorem da_append_c_erase a v r : da_append_c a v = Some r -> r = da_append T a v.
Proof.
  unfold da_append_c, da_append. destruct (da_emplace_c a v) as [x|] eqn:E; cbn [obind]; [|discriminate].
  apply da_emplace_c_erase in E. subst x. intro H; inversion H; reflexivity.
Qed.
Theorem da_iter_c_erase : forall fuel a c r, da_iter_c fuel a c = Some r -> r = da_iter T dflt fuel a c.
Proof.
  induction fuel as [|f IH]; intros a c r H; cbn [da_iter_c da_iter] in *; [inversion H; reflexivity|].
  destruct (c =? da_count T a); [inversion H; reflexivity|].
  destruct (da_get_c a c) as [x|] eqn:E; cbn [obind] in H; [|discriminate].
  apply da_get_c_erase in E. subst x.
  destruct (da_iter_c f a _) as [r'|] eqn:E2; cbn [obind] in H; [|discriminate].
  apply IH in E2. subst r'. inversion H; reflexivity.
Qed.
Theorem da_to_list_c_erase a r : da_to_list_c a = Some r -> r = da_to_list T dflt a.
Proof. apply da_iter_c_erase. Qed.
Lemma foldc_append_erase : forall l a r, foldc da_append_c l a = Some r -> r = fold_left (da_append T) l a.
Proof.
  induction l as [|x l IH]; intros a r H; cbn [foldc fold_left] in *; [inversion H; reflexivity|].
  destruct (da_append_c a x) as [a'|] eqn:E; cbn [obind] in H; [|discriminate].
  apply da_append_c_erase in E. subst a'. apply IH. exact H.
Qed.
Theorem da_append_all_c_erase a o r : da_append_all_c a o = Some r -> r = da_append_all T dflt a o.
Proof.
  unfold da_append_all_c, da_append_all. destruct (da_to_list_c o) as [l|] eqn:E; cbn [obind]; [|discriminate].
  apply da_to_list_c_erase in E. subst l. apply foldc_append_erase.
Qed.

(* (2) safety *)
Theorem sa_get_c_safe cap (a : sa) i : length a = cap -> i < cap -> sa_get_c a i = Some (sa_get T dflt a i).
Proof. intros Hl Hi. unfold sa_get_c, sa_get. rewrite (getc_spec dflt), Hl, (ltb_true _ _ Hi). reflexivity. Qed.
Theorem sa_set_c_safe cap (a : sa) i v : length a = cap -> i < cap -> sa_set_c a i v = Some (sa_set T a i v).
Proof. intros Hl Hi. unfold sa_set_c, sa_set. rewrite updc_arr, Hl, (ltb_true _ _ Hi). reflexivity. Qed.
(* emplace writes slot _count, which exists exactly when the array is not full (the library's assert) *)
Theorem da_emplace_c_safe cap a v : da_inv cap a -> da_count T a < cap -> da_emplace_c a v = Some (da_emplace T a v).
Proof.
  intros [_ Hl] Hlt. unfold da_emplace_c, da_emplace. rewrite updc_arr, Hl, (ltb_true _ _ Hlt). reflexivity.
Qed.
Theorem da_emplace_c_full cap a v : da_inv cap a -> da_count T a = cap -> da_emplace_c a v = None.
Proof.
  intros [_ Hl] He. unfold da_emplace_c. rewrite updc_arr, Hl, He, Nat.ltb_irrefl. reflexivity.
Qed.
Theorem da_get_c_safe cap a i : da_inv cap a -> i < da_count T a -> da_get_c a i = Some (da_get T dflt a i).
Proof.
  intros [Hc Hl] Hi. unfold da_get_c, da_get. rewrite (getc_spec dflt), Hl, (ltb_true i cap) by lia. reflexivity.
Qed.
Theorem da_append_c_safe cap a v : da_inv cap a -> da_count T a < cap -> da_append_c a v = Some (da_append T a v).
Proof. intros Hi Hlt. unfold da_append_c, da_append. rewrite (da_emplace_c_safe cap a v Hi Hlt). reflexivity. Qed.
(* iteration reads indices below _count only; the uint8_t cursor does not wrap for CAPACITY <= 255 *)
Theorem da_iter_c_safe cap a : da_inv cap a -> cap <= 255 -> forall fuel c, c <= da_count T a ->
  da_iter_c fuel a c = Some (da_iter T dflt fuel a c).
Proof.
  intros Hi H255. induction fuel as [|f IH]; intros c Hc; cbn [da_iter_c da_iter]; [reflexivity|].
  destruct (c =? da_count T a) eqn:E; [reflexivity|]. apply Nat.eqb_neq in E.
  rewrite (da_get_c_safe cap a c Hi) by lia. cbn [obind].
  destruct Hi as [Hcnt Hl]. rewrite Nat.mod_small by lia. rewrite IH by lia. reflexivity.
Qed.
Theorem da_to_list_c_safe cap a : da_inv cap a -> cap <= 255 -> da_to_list_c a = Some (da_to_list T dflt a).
Proof. intros Hi H255. apply (da_iter_c_safe cap a Hi H255). lia. Qed.
Lemma foldc_append_safe cap : forall l a, da_inv cap a -> da_count T a + length l <= cap ->
  foldc da_append_c l a = Some (fold_left (da_append T) l a).
Proof.
  induction l as [|x l IH]; intros a Hi Hfit; cbn [foldc fold_left]; [reflexivity|]. cbn [length] in Hfit.
  rewrite (da_append_c_safe cap a x Hi) by lia. cbn [obind].
  destruct (da_emplace_spec T cap a x Hi ltac:(lia)) as (Hi' & _ & _ & Hcnt).
  apply IH; [exact Hi'|]. unfold da_append. lia.
Qed.
Theorem da_append_all_c_safe cap capo a o : da_inv cap a -> da_inv capo o -> capo <= 255 ->
  da_count T a + da_count T o <= cap -> da_append_all_c a o = Some (da_append_all T dflt a o).
Proof.
  intros Ha Ho H255 Hfit. unfold da_append_all_c, da_append_all.
  rewrite (da_to_list_c_safe capo o Ho H255). cbn [obind].
  apply (foldc_append_safe cap); [exact Ha|].
  rewrite (da_to_list_spec T dflt capo o Ho H255). unfold da_abs. rewrite firstn_length. destruct Ho. lia.
Qed.
End ARS.

(* ------------------------------------------------------------------------------------------ *)
(* f. the machine: state ids that index the per-state bit arrays                               *)
(* ------------------------------------------------------------------------------------------ *)
Section MS.
Variable P : Type.
Variable cfg : config.
Local Notation n := (c_n cfg).
Local Notation cap := (c_cap cfg).
Local Notation nN := (N.of_nat n).
Local Notation wfb := (BitArrayProofs.wf nN).

(* where a control's _originId comes from: the root (INVALID) or the active leaf *)
Lemma id_of_root : id_of Root = INVALID.
Proof. reflexivity. Qed.
Lemma id_of_leaf_lt a : a < n -> id_of (leaf cfg a) < n.
Proof. intro H. rewrite (leaf_spec cfg a H). exact H. Qed.

(* the state id whose report bit succeed()/fail() sets *)
Definition status_sid (origin : nat) (a : action P) : option nat :=
  match a with
  | ASucceed _ so | AFail _ so => Some (match so with None => origin | Some x => x end)
  | _ => None
  end.

(* succeed()/fail() through a control: the bit index is a state id, or the call is refused (the root's
   INVALID origin is filtered by the  sid != INVALID  test) *)
Theorem perform_status_sid origin a s k sid :
  wf_action P cfg a -> origin < n \/ origin = INVALID -> status_sid origin a = Some sid ->
  sid < n \/ perform P cfg origin a (s, k) = (s, k, RIgnored P).
Proof.
  intros Hwf Ho Hs. destruct a as [d|d p| |so|so|o d|o d p| |i]; cbn [status_sid] in Hs; try discriminate;
    inversion Hs as [Hsid]; clear Hs; cbn [wf_action] in Hwf.
  - destruct so as [x|]; [left; exact Hwf|].
    destruct Ho as [Ho|Ho]; [left; exact Ho|]. right. subst sid.
    unfold perform. rewrite Ho, Nat.eqb_refl. cbn [negb]. rewrite andb_false_r. reflexivity.
  - destruct so as [x|]; [left; exact Hwf|].
    destruct Ho as [Ho|Ho]; [left; exact Ho|]. right. subst sid.
    unfold perform. rewrite Ho, Nat.eqb_refl. cbn [negb]. rewrite andb_false_r. reflexivity.
Qed.

Lemma sid_bit_lt sid : sid < n -> (N.of_nat sid < nN)%N.
Proof. lia. Qed.

Theorem perform_status_bits_safe origin a s k sid :
  wf_action P cfg a -> origin < n \/ origin = INVALID -> status_sid origin a = Some sid -> 1 <= n ->
  perform P cfg origin a (s, k) = (s, k, RIgnored P) \/
  (forall b, wfb b -> ba_set_c b (N.of_nat sid) = Some (ba_set b (N.of_nat sid))).
Proof.
  intros Hwf Ho Hs Hn. destruct (perform_status_sid origin a s k sid Hwf Ho Hs) as [Hlt|Hr]; [right|left; exact Hr].
  intros b W. apply (ba_set_c_safe nN); [lia|exact W|apply sid_bit_lt; exact Hlt].
Qed.

(* FullControlT::updatePlan and S_::deepUpdatePlans index the report bits by a task's origin / a state id *)
Theorem plan_task_ids d i : PIc P cfg d -> In i (plan_indices P cap d) ->
  i < cap /\ tk_origin (task_at P d i) < n /\ tk_dest (task_at P d i) < n.
Proof.
  intros (order & HI & F) Hin. rewrite (plan_indices_spec P cap d order HI) in Hin.
  rewrite Forall_forall in F. destruct (F i Hin) as [H1 H2].
  split; [exact (PlanInv_lt P cap d order i HI Hin)|split; assumption].
Qed.
Corollary plan_task_bits_safe d i b : PIc P cfg d -> In i (plan_indices P cap d) -> 1 <= n -> wfb b ->
  let o := N.of_nat (tk_origin (task_at P d i)) in
  task_at_c P d i = Some (task_at P d i) /\
  ba_get_c b o = Some (ba_get b o) /\ ba_clear_c b o = Some (ba_clear b o).
Proof.
  intros HP Hin Hn W o. destruct (plan_task_ids d i HP Hin) as (Hi & Ho & _).
  assert (Hob : (o < nN)%N) by (subst o; lia).
  destruct HP as (order & HI & _). split; [|split].
  - apply (task_at_c_lt P cap); [exact (PlanInv_items_length P cap d order HI)|exact Hi].
  - apply (ba_get_c_safe nN); [lia|exact W|exact Hob].
  - apply (ba_clear_c_safe nN); [lia|exact W|exact Hob].
Qed.
Corollary state_bits_safe a b : a < n -> wfb b ->
  ba_get_c b (N.of_nat a) = Some (ba_get b (N.of_nat a)) /\
  ba_set_c b (N.of_nat a) = Some (ba_set b (N.of_nat a)) /\
  ba_clear_c b (N.of_nat a) = Some (ba_clear b (N.of_nat a)).
Proof.
  intros Ha W. assert (Hn : (1 <= nN)%N) by lia. assert (Hb : (N.of_nat a < nN)%N) by lia.
  split; [|split]; [apply (ba_get_c_safe nN)|apply (ba_set_c_safe nN)|apply (ba_clear_c_safe nN)]; assumption.
Qed.
(* the report arrays stay well-formed: construction and every write keep UNIT_COUNT units *)
Lemma report_bits_wf : 1 <= n ->
  wfb (pd_succ (pd_init P cap n)) /\ wfb (pd_fail (pd_init P cap n)) /\
  (forall b i, wfb b -> wfb (ba_set b i)) /\ (forall b i, wfb b -> wfb (ba_clear b i)) /\
  (forall b o, wfb b -> length b = length o -> wfb (ba_and_assign b o)) /\
  (forall b, wfb b -> wfb (ba_clear_all b)) /\ (forall b, wfb b -> wfb (ba_set_all nN b)).
Proof.
  intro Hn. assert (HN : (1 <= nN)%N) by lia. cbn [pd_init pd_succ pd_fail].
  split; [exact (init_wf nN HN)|]. split; [exact (init_wf nN HN)|].
  split; [intros b i; exact (set_wf nN HN b i)|]. split; [intros b i; exact (clear_wf nN HN b i)|].
  split; [intros b o; exact (and_assign_wf nN HN b o)|].
  split; [intros b; exact (clear_all_wf nN HN b)|intros b; exact (set_all_wf nN HN b)].
Qed.
End MS.

(* ------------------------------------------------------------------------------------------ *)
(* the twins are not vacuously total: just outside the contract they do refuse                 *)
(* ------------------------------------------------------------------------------------------ *)
Example remove_c_refuses_oob : remove_c unit 2 (tl_init unit 2) 2 = None.
Proof. vm_compute. reflexivity. Qed.
Example unlink_c_refuses_oob :
  unlink_c 2 {| links := repeat dlink 2; first := INVALID; lastb := INVALID |} 2 = None.
Proof. vm_compute. reflexivity. Qed.
(* first()/last() on an empty plan address slot INVALID: the library's contract (a non-empty plan) is needed *)
Example plan_first_c_empty_refused : plan_first_c unit (pd_init unit 2 1) = None.
Proof. vm_compute. reflexivity. Qed.
Example ba_set_c_refuses_oob : ba_set_c (ba_init 3) 8 = None.
Proof. vm_compute. reflexivity. Qed.
(* a field that does not fit into the buffer runs off its end *)
Example write_c_refuses_overflow : write_c [0%N] 4 8 255 = None.
Proof. vm_compute. reflexivity. Qed.
Example read_c_refuses_overflow : read_c [0%N] 4 8 = None.
Proof. vm_compute. reflexivity. Qed.
Example da_emplace_c_refuses_full : da_emplace_c nat {| da_count := 2; da_items := [7; 8] |} 9 = None.
Proof. vm_compute. reflexivity. Qed.

(* ------------------------------------------------------------------------------------------ *)
Print Assumptions emplace_c_erase.
Print Assumptions remove_c_erase.
Print Assumptions emplace_c_safe.
Print Assumptions remove_c_safe.
Print Assumptions link_task_c_safe.
Print Assumptions unlink_c_safe.
Print Assumptions plan_append_c_safe.
Print Assumptions plan_append_with_c_safe.
Print Assumptions plan_remove_c_safe.
Print Assumptions plan_clear_tasks_c_safe.
Print Assumptions plan_clear_c_safe.
Print Assumptions plan_tasks_c_safe.
Print Assumptions plan_first_last_c_safe.
Print Assumptions plan_remove_at_c_safe.
Print Assumptions plan_remove_at_c_erase.
Print Assumptions plan_clear_c_erase.
Print Assumptions plan_tasks_c_erase.
Print Assumptions ba_get_c_safe.
Print Assumptions ba_set_c_safe.
Print Assumptions ba_clear_c_safe.
Print Assumptions ba_set_all_c_safe.
Print Assumptions clear_bits_c_safe.
Print Assumptions ba_get_c_oob.
Print Assumptions write_c_safe.
Print Assumptions read_c_safe.
Print Assumptions write_c_erase.
Print Assumptions read_c_erase.
Print Assumptions cursor_no_wrap.
Print Assumptions da_emplace_c_safe.
Print Assumptions da_emplace_c_full.
Print Assumptions da_to_list_c_safe.
Print Assumptions da_append_all_c_safe.
Print Assumptions da_append_all_c_erase.
Print Assumptions sa_get_c_safe.
Print Assumptions sa_set_c_safe.
Print Assumptions perform_status_sid.
Print Assumptions perform_status_bits_safe.
Print Assumptions plan_task_bits_safe.
Print Assumptions state_bits_safe.
Print Assumptions report_bits_wf.
