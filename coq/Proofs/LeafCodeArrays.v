(* BitArrayT<N> of /repo's current bit_array.inl, as translated (Generated/LeafCode.v): the whole-array operations set(), clear(), empty(),
   operator&, operator&= (loops: two generic lemmas about counting loops over an array of bytes, one for loops that rewrite element k
   in iteration k, one for loops that return at the first element failing a test), the single-bit operations for the index type the
   library uses (uint8_t), and everything again for the second index class (256 <= N <= 65535: Index = uint16_t, from BitArrayT<300>).
   Every theorem: for all capacities of the class, all storage contents, all indices in range, the translated body runs without fault
   and computes the function of Model/BitArray.v. *)
From Coq Require Import List ZArith NArith Bool String Lia ZifyBool.
From FFSM2 Require Import Model.Cxx Model.Bits Model.BitArray Model.BitStream Generated.LeafCode
                          Proofs.BitsProofs Proofs.BitArrayProofs Proofs.BitStreamProofs Proofs.LeafTactics Proofs.LeafConsts Proofs.LeafLoops Proofs.LeafCodeProofs.
Import ListNotations.
Local Open Scope string_scope.
Local Open Scope Z_scope.

Theorem src_BitArray_clear_all cap b : 1 <= cap <= 255 -> Forall (fun x => (x < 256)%N) b -> Z.of_nat (List.length b) = (cap + 7) / 8 ->
  result (run leaf_ftable (ba_consts cap) BitArrayT_13__clear [] [] (ba_obj b)) = Some (None, [], ba_obj (ba_clear_all b)).
Proof.
  intros Hcap Hb Hlen. unfold run, init_locals, run_fuel, ba_obj.
  cbn [m_body m_params m_locals BitArrayT_13__clear combine map app].
  change 100%nat with (S 99). rewrite exec_forrange.
  cbn -[exec iter_range Z.of_nat Z.to_nat zs Z.sub Z.ltb]. rewrite zs_length.
  match goal with |- context[if ?c then OFault else _] => replace c with false by (symmetry; lia) end.
  match goal with |- context[iter_range ?nn ?kk ?bd ?st] =>
    assert (HU : forall k v l, 0 <= k < Z.of_nat (List.length l) ->
                 bd k (ba_state "unit#i" v l) = ONormal (ba_state "unit#i" k (uset l (Z.to_N k) (fun _ => 0%N))));
    [|destruct (iter_range_upd bd (ba_state "unit#i") (fun _ _ => 0%N) HU nn kk 0 b) as [v' E]] end.
  - intros k v l Hk. unfold ba_state. sym_exec.
    change 0 with (Z.of_N 0) at 1. rewrite set_z_zs by lia. norm_state. reflexivity.
  - lia.
  - lia.
  - unfold ba_state in E at 1. rewrite E. cbn [result fields arrays ba_state].
    replace (Z.to_nat (Z.of_nat (Datatypes.length b) - 0)) with (List.length b) by lia.
    change (Z.to_N 0) with 0%N. rewrite upd_range_const_all. reflexivity.
Qed.


(* ---------- more lifting rules (constants on the right) ---------- *)
Lemma Zadd_of_N_pos a p : Z.of_N a + Zpos p = Z.of_N (a + Npos p).  Proof. rewrite N2Z.inj_add. reflexivity. Qed.
Lemma Zmul_of_N_pos a p : Z.of_N a * Zpos p = Z.of_N (a * Npos p).  Proof. rewrite N2Z.inj_mul. reflexivity. Qed.
Lemma Zshiftr_pos_of_N p k : Z.shiftr (Zpos p) (Z.of_N k) = Z.of_N (N.shiftr (Npos p) k).
Proof. exact (Zshiftr_of_N (Npos p) k). Qed.
Ltac liftN2 := rewrite ?Zadd_of_N_pos, ?Zmul_of_N_pos, ?Zshiftr_pos_of_N.

Lemma map_zs_255 (b : list N) : zs (map (fun _ => 255%N) b) = map (fun _ => 255) (zs b).
Proof. unfold zs. rewrite !map_map. reflexivity. Qed.

(* set(): every unit = UINT8_MAX, then the padding bits of the last unit are cleared *)
Theorem src_BitArray_set_all capN b : (1 <= capN <= 255)%N -> Forall (fun x => (x < 256)%N) b -> N.of_nat (List.length b) = ((capN + 7) / 8)%N ->
  result (run leaf_ftable (ba_consts (Z.of_N capN)) BitArrayT_13__set [] [] (ba_obj b)) = Some (None, [], ba_obj (ba_set_all capN b)).
Proof.
  intros Hcap Hb Hlen. unfold run, init_locals, run_fuel, ba_obj.
  cbn [m_body m_params m_locals BitArrayT_13__set combine map app].
  change 100%nat with (S (S 98)). rewrite exec_seq, exec_forrange.
  cbn -[exec iter_range Z.of_nat Z.to_nat zs Z.sub Z.ltb Z.div Z.add Z.of_N]. rewrite zs_length.
  match goal with |- context[if ?c then OFault else _] => replace c with false by (symmetry; lia) end.
  match goal with |- context[iter_range ?nn ?kk ?bd ?st] =>
    assert (HU : forall k v l, 0 <= k < Z.of_nat (List.length l) ->
                 bd k (ba_state "unit#i" v l) = ONormal (ba_state "unit#i" k (uset l (Z.to_N k) (fun _ => 255%N))));
    [|destruct (iter_range_upd bd (ba_state "unit#i") (fun _ _ => 255%N) HU nn kk 0 b) as [v' E]] end.
  - intros k v l Hk. unfold ba_state. sym_exec.
    change 255 with (Z.of_N 255) at 1. rewrite set_z_zs by lia. norm_state. reflexivity.
  - lia.
  - lia.
  - unfold ba_state in E at 1. rewrite E. clear E HU.
    replace (Z.to_nat (Z.of_nat (Datatypes.length b) - 0)) with (List.length b) by lia.
    change (Z.to_N 0) with 0%N. rewrite upd_range_const_all. unfold ba_state, ba_consts.
    set (m := map (fun _ : N => 255%N) b).
    assert (Hm : Forall (fun x => (x < 256)%N) m) by (unfold m; clear; induction b; constructor; [lia|assumption]).
    assert (Hml : List.length m = List.length b) by (unfold m; apply map_length).
    assert (Hu : (1 <= (capN + 7) / 8 <= 32)%N) by lia.
    repeat (progress (sym_exec; liftN2)).
    unfold ba_set_all, ba_units, ba_last_mask. fold m.
    erewrite uset_ext_at; [reflexivity|cbn beta; reflexivity].
Qed.

(* empty(): false at the first non-zero unit *)
Theorem src_BitArray_empty cap b : 1 <= cap <= 255 -> Forall (fun x => (x < 256)%N) b -> Z.of_nat (List.length b) = (cap + 7) / 8 ->
  result (run leaf_ftable (ba_consts cap) BitArrayT_13__empty [] [] (ba_obj b)) = Some (Some (b2z (ba_empty b)), [], ba_obj b).
Proof.
  intros Hcap Hb Hlen. unfold run, init_locals, run_fuel, ba_obj.
  cbn [m_body m_params m_locals BitArrayT_13__empty combine map app].
  change 100%nat with (S (S 98)). rewrite exec_seq, exec_forrange.
  cbn -[exec iter_range Z.of_nat Z.to_nat zs Z.sub Z.ltb Z.div Z.add Z.of_N]. rewrite zs_length.
  match goal with |- context[if ?c then OFault else _] => replace c with false by (symmetry; lia) end.
  match goal with |- context[iter_range ?nn ?kk ?bd ?st] =>
    assert (HF : forall k v, 0 <= k < Z.of_nat (List.length b) ->
                 bd k (ba_state "unit#i" v b) = if (uget b (Z.to_N k) =? 0)%N then ONormal (ba_state "unit#i" k b) else OReturn (ba_state "unit#i" k b) (Some 0));
    [|destruct (iter_range_find1 bd (ba_state "unit#i") (fun _ x => (x =? 0)%N) b HF nn kk 0) as [v' E]] end.
  - intros k v Hk. unfold ba_state. sym_exec.
    destruct (uget b (Z.to_N k) =? 0)%N; cbn [negb b2z Z.eqb]; norm_state; reflexivity.
  - lia.
  - lia.
  - unfold ba_state in E at 1. rewrite E. clear E HF.
    replace (Z.to_nat (Z.of_nat (Datatypes.length b) - 0)) with (List.length b) by lia.
    change (Z.to_N 0) with 0%N. pose proof (all_range_forallb (fun x => (x =? 0)%N) b []) as A. cbn [app List.length N.of_nat] in A. rewrite A.
    unfold ba_empty. destruct (forallb (fun x : N => (x =? 0)%N) b); [|reflexivity].
    rewrite exec_return. cbn. reflexivity.
Qed.

(* ---------- operator&= and operator& : two arrays of the same capacity ---------- *)
Definition ba2_state (ix : string) (o : list N) (v : Z) (l : list N) : state :=
  {| locals := [(ix, v)]; fields := []; arrays := [("_storage", zs l); ("other._storage", zs o)] |}.
Definition ba2_obj (b o : list N) : list (string * list Z) := [("_storage", zs b); ("other._storage", zs o)].

Lemma uget_and_assign' : forall b o j, List.length b = List.length o -> uget (ba_and_assign b o) j = N.land (uget b j) (uget o j).
Proof.
  unfold uget, ba_and_assign. intros b o j. generalize (N.to_nat j) as k. revert o.
  induction b as [|h t IH]; intros [|h' t'] k H; cbn in H; try lia; [destruct k; reflexivity|].
  destruct k as [|k]; cbn; [reflexivity|]. apply IH. lia.
Qed.
Lemma and_assign_length b o : List.length b = List.length o -> List.length (ba_and_assign b o) = List.length b.
Proof. intros H. unfold ba_and_assign. rewrite map_length, combine_length. lia. Qed.

Lemma upd_range_and_all b o : List.length b = List.length o ->
  upd_range (fun k x => N.land x (uget o k)) b 0 (List.length b) = ba_and_assign b o.
Proof.
  intros Hl. apply nth_ext with (d := 0%N) (d' := 0%N); [rewrite upd_range_length, and_assign_length by exact Hl; reflexivity|].
  intros j Hj. rewrite upd_range_length in Hj.
  assert (E : forall x : list N, nth j x 0%N = uget x (N.of_nat j)) by (intro x; unfold uget; rewrite Nat2N.id; reflexivity).
  rewrite !E. rewrite upd_range_get by (cbn; lia).
  destruct (N.leb_spec 0 (N.of_nat j)); [|lia]. destruct (N.ltb_spec (N.of_nat j) (0 + N.of_nat (Datatypes.length b))); [|lia]. cbn [andb].
  rewrite uget_and_assign' by exact Hl. reflexivity.
Qed.

Lemma Forall_uset' (x : list N) k f : Forall (fun y => (y < 256)%N) x -> (forall y, (y < 256)%N -> (f y < 256)%N) -> Forall (fun y => (y < 256)%N) (uset x k f).
Proof.
  unfold uset. generalize (N.to_nat k) as i. intros i H Hf. revert i.
  induction H as [|h t Hh Ht IH]; intros [|i]; cbn; constructor; auto.
Qed.

Theorem src_BitArray_and_assign cap b o : 1 <= cap <= 255 -> Forall (fun x => (x < 256)%N) b -> Forall (fun x => (x < 256)%N) o ->
  Z.of_nat (List.length b) = (cap + 7) / 8 -> List.length o = List.length b ->
  result (run leaf_ftable (ba_consts cap) BitArrayT_13__op_and_assign [] [] (ba2_obj b o)) = Some (None, [], ba2_obj (ba_and_assign b o) o).
Proof.
  intros Hcap Hb Ho Hlen Hlo. unfold run, init_locals, run_fuel, ba2_obj.
  cbn [m_body m_params m_locals BitArrayT_13__op_and_assign combine map app].
  change 100%nat with (S 99). rewrite exec_forrange. unfold ba_consts.
  cbn -[exec iter_range Z.of_nat Z.to_nat zs Z.sub Z.ltb Z.div Z.add Z.of_N conv]. rewrite !conv_id by (discriminate || (cbn; lia)).
  match goal with |- context[if ?c then OFault else _] => replace c with false by (symmetry; cbn; lia) end.
  match goal with |- context[iter_range ?nn ?kk ?bd ?st] =>
    assert (HU : forall k v x, (Forall (fun y => (y < 256)%N) x /\ List.length x = List.length b) -> 0 <= k < Z.of_nat (List.length x) ->
                 bd k (ba2_state "i" o v x) = ONormal (ba2_state "i" o k (uset x (Z.to_N k) ((fun j y => N.land y (uget o j)) (Z.to_N k)))));
    [|destruct (iter_range_upd_inv bd (ba2_state "i" o) (fun j y => N.land y (uget o j)) (fun x => Forall (fun y => (y < 256)%N) x /\ List.length x = List.length b)) with (n := nn) (k := kk) (v := 0) (x := b) as [v' E]] end.
  - intros k v x [Hx Hxl] Hk. unfold ba2_state. rewrite <- (Z2N.id k) by lia. set (kn := Z.to_N k). rewrite N2Z.id.
    assert (Z.of_N kn < Z.of_nat (List.length x)) by (unfold kn; lia).
    sym_exec. norm_state. erewrite uset_ext_at; [reflexivity|cbn beta; first [reflexivity|apply N.land_comm]].
  - intros k x [Hx Hxl]. split; [apply Forall_uset'; [exact Hx|]|rewrite uset_length; exact Hxl].
    intros y Hy. pose proof (Nland_le y (uget o k)). lia.
  - exact HU.
  - split; [exact Hb|reflexivity].
  - lia.
  - lia.
  - unfold ba2_state in E at 1. rewrite E. clear E HU.
    replace (Z.to_nat ((cap + 7) / 8 - 0)) with (List.length b) by lia.
    change (Z.to_N 0) with 0%N. rewrite upd_range_and_all by lia. reflexivity.
Qed.

Lemma all_range_and : forall b o pre preo, List.length pre = List.length preo -> List.length b = List.length o ->
  all_range (fun k x => negb (N.land x (uget (preo ++ o)%list k) =? 0)%N) (pre ++ b)%list (N.of_nat (List.length pre)) (List.length b)
  = forallb (fun q => negb (N.land (fst q) (snd q) =? 0)%N) (combine b o).
Proof.
  induction b as [|h t IH]; intros [|h' t'] pre preo Hp Hl; cbn in Hl; try lia; cbn [all_range forallb List.length combine]; [reflexivity|].
  unfold uget at 1 2. rewrite Nat2N.id, app_nth2 by lia. rewrite Hp at 2. rewrite app_nth2 by lia. rewrite Hp, !Nat.sub_diag. cbn [nth fst snd]. f_equal.
  replace (pre ++ h :: t)%list with ((pre ++ [h]) ++ t)%list by (rewrite <- app_assoc; reflexivity).
  replace (preo ++ h' :: t')%list with ((preo ++ [h']) ++ t')%list by (rewrite <- app_assoc; reflexivity).
  replace (N.of_nat (Datatypes.length preo) + 1)%N with (N.of_nat (Datatypes.length (pre ++ [h])%list)) by (rewrite app_length; cbn; lia).
  apply IH; [rewrite !app_length; cbn; lia|lia].
Qed.

(* operator& as written: every unit has a common bit *)
Theorem src_BitArray_and cap b o : 1 <= cap <= 255 -> Forall (fun x => (x < 256)%N) b -> Forall (fun x => (x < 256)%N) o ->
  Z.of_nat (List.length b) = (cap + 7) / 8 -> List.length o = List.length b ->
  result (run leaf_ftable (ba_consts cap) BitArrayT_13__op_and [] [] (ba2_obj b o)) = Some (Some (b2z (ba_and b o)), [], ba2_obj b o).
Proof.
  intros Hcap Hb Ho Hlen Hlo. unfold run, init_locals, run_fuel, ba2_obj.
  cbn [m_body m_params m_locals BitArrayT_13__op_and combine map app].
  change 100%nat with (S (S 98)). rewrite exec_seq, exec_forrange. unfold ba_consts.
  cbn -[exec iter_range Z.of_nat Z.to_nat zs Z.sub Z.ltb Z.div Z.add Z.of_N conv]. rewrite !conv_id by (discriminate || (cbn; lia)).
  match goal with |- context[if ?c then OFault else _] => replace c with false by (symmetry; cbn; lia) end.
  match goal with |- context[iter_range ?nn ?kk ?bd ?st] =>
    assert (HF : forall k v, 0 <= k < Z.of_nat (List.length b) ->
                 bd k (ba2_state "i" o v b) = if negb (N.land (uget b (Z.to_N k)) (uget o (Z.to_N k)) =? 0)%N then ONormal (ba2_state "i" o k b) else OReturn (ba2_state "i" o k b) (Some 0));
    [|destruct (iter_range_find1 bd (ba2_state "i" o) (fun j x => negb (N.land x (uget o j) =? 0)%N) b HF nn kk 0) as [v' E]] end.
  - intros k v Hk. unfold ba2_state. rewrite <- (Z2N.id k) by lia. set (kn := Z.to_N k). rewrite N2Z.id.
    assert (Z.of_N kn < Z.of_nat (List.length b)) by (unfold kn; lia).
    sym_exec. rewrite ?(N.land_comm (uget o kn) (uget b kn)).
    destruct (N.land (uget b kn) (uget o kn) =? 0)%N; cbn [negb b2z Z.eqb]; norm_state; reflexivity.
  - lia.
  - lia.
  - unfold ba2_state in E at 1. rewrite E. clear E HF.
    replace (Z.to_nat ((cap + 7) / 8 - 0)) with (List.length b) by lia.
    change (Z.to_N 0) with 0%N. pose proof (all_range_and b o [] [] eq_refl (eq_sym Hlo)) as A. cbn [app List.length N.of_nat] in A. rewrite A.
    unfold ba_and. destruct (forallb _ (combine b o)); [|reflexivity].
    rewrite exec_return. cbn. reflexivity.
Qed.

(* the index type the library itself uses (StateID = uint8_t) *)
Theorem src_BitArray_get_u8 cap b n : 1 <= cap <= 255 -> Forall (fun x => (x < 256)%N) b -> Z.of_nat (List.length b) = (cap + 7) / 8 -> Z.of_N n < cap ->
  result (run leaf_ftable (ba_consts cap) BitArrayT_13__get_u8 [Z.of_N n] [] [("_storage", zs b)])
  = Some (Some (b2z (ba_get b n)), [], [("_storage", zs b)]).
Proof.
  intros Hcap Hb Hlen Hi. unfold run, ba_consts.
  pose proof (shiftr3 n) as Hs3. pose proof (land7 n) as Hl7.       (* in case the source shifts and masks instead of dividing *)
  sym_exec. rewrite ?shiftr3, ?land7.
  reflexivity.
Qed.

Theorem src_BitArray_set_u8 cap b n : 1 <= cap <= 255 -> Forall (fun x => (x < 256)%N) b -> Z.of_nat (List.length b) = (cap + 7) / 8 -> Z.of_N n < cap ->
  result (run leaf_ftable (ba_consts cap) BitArrayT_13__set_u8 [Z.of_N n] [] [("_storage", zs b)])
  = Some (None, [], [("_storage", zs (ba_set b n))]).
Proof.
  intros Hcap Hb Hlen Hi. unfold run, ba_consts.
  pose proof (shiftr3 n) as Hs3. pose proof (land7 n) as Hl7.
  sym_exec. rewrite ?shiftr3, ?land7. fin_uset.
Qed.

Theorem src_BitArray_clear_u8 cap b n : 1 <= cap <= 255 -> Forall (fun x => (x < 256)%N) b -> Z.of_nat (List.length b) = (cap + 7) / 8 -> Z.of_N n < cap ->
  result (run leaf_ftable (ba_consts cap) BitArrayT_13__clear_u8 [Z.of_N n] [] [("_storage", zs b)])
  = Some (None, [], [("_storage", zs (ba_clear b n))]).
Proof.
  intros Hcap Hb Hlen Hi. unfold run, ba_consts.
  pose proof (shiftr3 n) as Hs3. pose proof (land7 n) as Hl7.
  sym_exec. rewrite ?shiftr3, ?land7. fin_uset.
  all: try (apply ldiff_byte; pose proof (uget_lt256 b (n / 8) Hb); lia).
Qed.


(* BitArrayT<N> for 256 <= N <= 65535: Index = uint16_t *)
Theorem src_BitArray16_get cap b n : 256 <= cap <= 65535 -> Forall (fun x => (x < 256)%N) b -> Z.of_nat (List.length b) = (cap + 7) / 8 -> Z.of_N n < cap ->
  result (run leaf_ftable (ba_consts cap) BitArrayT_300__get_u32 [Z.of_N n] [] [("_storage", zs b)])
  = Some (Some (b2z (ba_get b n)), [], [("_storage", zs b)]).
Proof.
  intros Hcap Hb Hlen Hi. unfold run, ba_consts.
  pose proof (shiftr3 n) as Hs3. pose proof (land7 n) as Hl7.       (* in case the source shifts and masks instead of dividing *)
  sym_exec. rewrite ?shiftr3, ?land7.
  reflexivity.
Qed.

Theorem src_BitArray16_set cap b n : 256 <= cap <= 65535 -> Forall (fun x => (x < 256)%N) b -> Z.of_nat (List.length b) = (cap + 7) / 8 -> Z.of_N n < cap ->
  result (run leaf_ftable (ba_consts cap) BitArrayT_300__set_u32 [Z.of_N n] [] [("_storage", zs b)])
  = Some (None, [], [("_storage", zs (ba_set b n))]).
Proof.
  intros Hcap Hb Hlen Hi. unfold run, ba_consts.
  pose proof (shiftr3 n) as Hs3. pose proof (land7 n) as Hl7.
  sym_exec. rewrite ?shiftr3, ?land7. fin_uset.
Qed.

Theorem src_BitArray16_clear cap b n : 256 <= cap <= 65535 -> Forall (fun x => (x < 256)%N) b -> Z.of_nat (List.length b) = (cap + 7) / 8 -> Z.of_N n < cap ->
  result (run leaf_ftable (ba_consts cap) BitArrayT_300__clear_u32 [Z.of_N n] [] [("_storage", zs b)])
  = Some (None, [], [("_storage", zs (ba_clear b n))]).
Proof.
  intros Hcap Hb Hlen Hi. unfold run, ba_consts.
  pose proof (shiftr3 n) as Hs3. pose proof (land7 n) as Hl7.
  sym_exec. rewrite ?shiftr3, ?land7. fin_uset.
  all: try (apply ldiff_byte; pose proof (uget_lt256 b (n / 8) Hb); lia).
Qed.


Definition ba16_consts_defs := BitArrayT_300_consts.
Theorem src_BitArray16_consts cap : 256 <= cap <= 65535 ->
  build_consts leaf_ftable ba16_consts_defs (ncapacity cap) = Some (ba_consts cap).
Proof.
  intros Hcap. unfold build_consts, ba16_consts_defs, BitArrayT_300_consts, ba_consts, ncapacity.
  sym_exec.
  rewrite Z.quot_div_nonneg by lia.
  replace (cap + 8 - 1) with (cap + 7) by lia. reflexivity.
Qed.
Theorem src_BitArray16_clear_all cap b : 256 <= cap <= 65535 -> Forall (fun x => (x < 256)%N) b -> Z.of_nat (List.length b) = (cap + 7) / 8 ->
  result (run leaf_ftable (ba_consts cap) BitArrayT_300__clear [] [] (ba_obj b)) = Some (None, [], ba_obj (ba_clear_all b)).
Proof.
  intros Hcap Hb Hlen. unfold run, init_locals, run_fuel, ba_obj.
  cbn [m_body m_params m_locals BitArrayT_300__clear combine map app].
  change 100%nat with (S 99). rewrite exec_forrange.
  cbn -[exec iter_range Z.of_nat Z.to_nat zs Z.sub Z.ltb]. rewrite zs_length.
  match goal with |- context[if ?c then OFault else _] => replace c with false by (symmetry; lia) end.
  match goal with |- context[iter_range ?nn ?kk ?bd ?st] =>
    assert (HU : forall k v l, 0 <= k < Z.of_nat (List.length l) ->
                 bd k (ba_state "unit#i" v l) = ONormal (ba_state "unit#i" k (uset l (Z.to_N k) (fun _ => 0%N))));
    [|destruct (iter_range_upd bd (ba_state "unit#i") (fun _ _ => 0%N) HU nn kk 0 b) as [v' E]] end.
  - intros k v l Hk. unfold ba_state. sym_exec.
    change 0 with (Z.of_N 0) at 1. rewrite set_z_zs by lia. norm_state. reflexivity.
  - lia.
  - lia.
  - unfold ba_state in E at 1. rewrite E. cbn [result fields arrays ba_state].
    replace (Z.to_nat (Z.of_nat (Datatypes.length b) - 0)) with (List.length b) by lia.
    change (Z.to_N 0) with 0%N. rewrite upd_range_const_all. reflexivity.
Qed.



Theorem src_BitArray16_set_all capN b : (256 <= capN <= 65535)%N -> Forall (fun x => (x < 256)%N) b -> N.of_nat (List.length b) = ((capN + 7) / 8)%N ->
  result (run leaf_ftable (ba_consts (Z.of_N capN)) BitArrayT_300__set [] [] (ba_obj b)) = Some (None, [], ba_obj (ba_set_all capN b)).
Proof.
  intros Hcap Hb Hlen. unfold run, init_locals, run_fuel, ba_obj.
  cbn [m_body m_params m_locals BitArrayT_300__set combine map app].
  change 100%nat with (S (S 98)). rewrite exec_seq, exec_forrange.
  cbn -[exec iter_range Z.of_nat Z.to_nat zs Z.sub Z.ltb Z.div Z.add Z.of_N]. rewrite zs_length.
  match goal with |- context[if ?c then OFault else _] => replace c with false by (symmetry; lia) end.
  match goal with |- context[iter_range ?nn ?kk ?bd ?st] =>
    assert (HU : forall k v l, 0 <= k < Z.of_nat (List.length l) ->
                 bd k (ba_state "unit#i" v l) = ONormal (ba_state "unit#i" k (uset l (Z.to_N k) (fun _ => 255%N))));
    [|destruct (iter_range_upd bd (ba_state "unit#i") (fun _ _ => 255%N) HU nn kk 0 b) as [v' E]] end.
  - intros k v l Hk. unfold ba_state. sym_exec.
    change 255 with (Z.of_N 255) at 1. rewrite set_z_zs by lia. norm_state. reflexivity.
  - lia.
  - lia.
  - unfold ba_state in E at 1. rewrite E. clear E HU.
    replace (Z.to_nat (Z.of_nat (Datatypes.length b) - 0)) with (List.length b) by lia.
    change (Z.to_N 0) with 0%N. rewrite upd_range_const_all. unfold ba_state, ba_consts.
    set (m := map (fun _ : N => 255%N) b).
    assert (Hm : Forall (fun x => (x < 256)%N) m) by (unfold m; clear; induction b; constructor; [lia|assumption]).
    assert (Hml : List.length m = List.length b) by (unfold m; apply map_length).
    assert (Hu : (1 <= (capN + 7) / 8 <= 8192)%N) by lia.
    repeat (progress (sym_exec; liftN2)).
    unfold ba_set_all, ba_units, ba_last_mask. fold m.
    erewrite uset_ext_at; [reflexivity|cbn beta; reflexivity].
Qed.


Theorem src_BitArray16_empty cap b : 256 <= cap <= 65535 -> Forall (fun x => (x < 256)%N) b -> Z.of_nat (List.length b) = (cap + 7) / 8 ->
  result (run leaf_ftable (ba_consts cap) BitArrayT_300__empty [] [] (ba_obj b)) = Some (Some (b2z (ba_empty b)), [], ba_obj b).
Proof.
  intros Hcap Hb Hlen. unfold run, init_locals, run_fuel, ba_obj.
  cbn [m_body m_params m_locals BitArrayT_300__empty combine map app].
  change 100%nat with (S (S 98)). rewrite exec_seq, exec_forrange.
  cbn -[exec iter_range Z.of_nat Z.to_nat zs Z.sub Z.ltb Z.div Z.add Z.of_N]. rewrite zs_length.
  match goal with |- context[if ?c then OFault else _] => replace c with false by (symmetry; lia) end.
  match goal with |- context[iter_range ?nn ?kk ?bd ?st] =>
    assert (HF : forall k v, 0 <= k < Z.of_nat (List.length b) ->
                 bd k (ba_state "unit#i" v b) = if (uget b (Z.to_N k) =? 0)%N then ONormal (ba_state "unit#i" k b) else OReturn (ba_state "unit#i" k b) (Some 0));
    [|destruct (iter_range_find1 bd (ba_state "unit#i") (fun _ x => (x =? 0)%N) b HF nn kk 0) as [v' E]] end.
  - intros k v Hk. unfold ba_state. sym_exec.
    destruct (uget b (Z.to_N k) =? 0)%N; cbn [negb b2z Z.eqb]; norm_state; reflexivity.
  - lia.
  - lia.
  - unfold ba_state in E at 1. rewrite E. clear E HF.
    replace (Z.to_nat (Z.of_nat (Datatypes.length b) - 0)) with (List.length b) by lia.
    change (Z.to_N 0) with 0%N. pose proof (all_range_forallb (fun x => (x =? 0)%N) b []) as A. cbn [app List.length N.of_nat] in A. rewrite A.
    unfold ba_empty. destruct (forallb (fun x : N => (x =? 0)%N) b); [|reflexivity].
    rewrite exec_return. cbn. reflexivity.
Qed.


Theorem src_BitArray16_and_assign cap b o : 256 <= cap <= 65535 -> Forall (fun x => (x < 256)%N) b -> Forall (fun x => (x < 256)%N) o ->
  Z.of_nat (List.length b) = (cap + 7) / 8 -> List.length o = List.length b ->
  result (run leaf_ftable (ba_consts cap) BitArrayT_300__op_and_assign [] [] (ba2_obj b o)) = Some (None, [], ba2_obj (ba_and_assign b o) o).
Proof.
  intros Hcap Hb Ho Hlen Hlo. unfold run, init_locals, run_fuel, ba2_obj.
  cbn [m_body m_params m_locals BitArrayT_300__op_and_assign combine map app].
  change 100%nat with (S 99). rewrite exec_forrange. unfold ba_consts.
  cbn -[exec iter_range Z.of_nat Z.to_nat zs Z.sub Z.ltb Z.div Z.add Z.of_N conv]. rewrite !conv_id by (discriminate || (cbn; lia)).
  match goal with |- context[if ?c then OFault else _] => replace c with false by (symmetry; cbn; lia) end.
  match goal with |- context[iter_range ?nn ?kk ?bd ?st] =>
    assert (HU : forall k v x, (Forall (fun y => (y < 256)%N) x /\ List.length x = List.length b) -> 0 <= k < Z.of_nat (List.length x) ->
                 bd k (ba2_state "i" o v x) = ONormal (ba2_state "i" o k (uset x (Z.to_N k) ((fun j y => N.land y (uget o j)) (Z.to_N k)))));
    [|destruct (iter_range_upd_inv bd (ba2_state "i" o) (fun j y => N.land y (uget o j)) (fun x => Forall (fun y => (y < 256)%N) x /\ List.length x = List.length b)) with (n := nn) (k := kk) (v := 0) (x := b) as [v' E]] end.
  - intros k v x [Hx Hxl] Hk. unfold ba2_state. rewrite <- (Z2N.id k) by lia. set (kn := Z.to_N k). rewrite N2Z.id.
    assert (Z.of_N kn < Z.of_nat (List.length x)) by (unfold kn; lia).
    sym_exec. norm_state. erewrite uset_ext_at; [reflexivity|cbn beta; first [reflexivity|apply N.land_comm]].
  - intros k x [Hx Hxl]. split; [apply Forall_uset'; [exact Hx|]|rewrite uset_length; exact Hxl].
    intros y Hy. pose proof (Nland_le y (uget o k)). lia.
  - exact HU.
  - split; [exact Hb|reflexivity].
  - lia.
  - lia.
  - unfold ba2_state in E at 1. rewrite E. clear E HU.
    replace (Z.to_nat ((cap + 7) / 8 - 0)) with (List.length b) by lia.
    change (Z.to_N 0) with 0%N. rewrite upd_range_and_all by lia. reflexivity.
Qed.


Theorem src_BitArray16_and cap b o : 256 <= cap <= 65535 -> Forall (fun x => (x < 256)%N) b -> Forall (fun x => (x < 256)%N) o ->
  Z.of_nat (List.length b) = (cap + 7) / 8 -> List.length o = List.length b ->
  result (run leaf_ftable (ba_consts cap) BitArrayT_300__op_and [] [] (ba2_obj b o)) = Some (Some (b2z (ba_and b o)), [], ba2_obj b o).
Proof.
  intros Hcap Hb Ho Hlen Hlo. unfold run, init_locals, run_fuel, ba2_obj.
  cbn [m_body m_params m_locals BitArrayT_300__op_and combine map app].
  change 100%nat with (S (S 98)). rewrite exec_seq, exec_forrange. unfold ba_consts.
  cbn -[exec iter_range Z.of_nat Z.to_nat zs Z.sub Z.ltb Z.div Z.add Z.of_N conv]. rewrite !conv_id by (discriminate || (cbn; lia)).
  match goal with |- context[if ?c then OFault else _] => replace c with false by (symmetry; cbn; lia) end.
  match goal with |- context[iter_range ?nn ?kk ?bd ?st] =>
    assert (HF : forall k v, 0 <= k < Z.of_nat (List.length b) ->
                 bd k (ba2_state "i" o v b) = if negb (N.land (uget b (Z.to_N k)) (uget o (Z.to_N k)) =? 0)%N then ONormal (ba2_state "i" o k b) else OReturn (ba2_state "i" o k b) (Some 0));
    [|destruct (iter_range_find1 bd (ba2_state "i" o) (fun j x => negb (N.land x (uget o j) =? 0)%N) b HF nn kk 0) as [v' E]] end.
  - intros k v Hk. unfold ba2_state. rewrite <- (Z2N.id k) by lia. set (kn := Z.to_N k). rewrite N2Z.id.
    assert (Z.of_N kn < Z.of_nat (List.length b)) by (unfold kn; lia).
    sym_exec. rewrite ?(N.land_comm (uget o kn) (uget b kn)).
    destruct (N.land (uget b kn) (uget o kn) =? 0)%N; cbn [negb b2z Z.eqb]; norm_state; reflexivity.
  - lia.
  - lia.
  - unfold ba2_state in E at 1. rewrite E. clear E HF.
    replace (Z.to_nat ((cap + 7) / 8 - 0)) with (List.length b) by lia.
    change (Z.to_N 0) with 0%N. pose proof (all_range_and b o [] [] eq_refl (eq_sym Hlo)) as A. cbn [app List.length N.of_nat] in A. rewrite A.
    unfold ba_and. destruct (forallb _ (combine b o)); [|reflexivity].
    rewrite exec_return. cbn. reflexivity.
Qed.
