(* bitWidth() of /repo's current utility.hpp, as translated (Generated/LeafCode.v): the exact bit length, hence the model's bitWidth, for every 32-bit argument. *)
From Coq Require Import List ZArith NArith Bool String Lia ZifyBool.
From FFSM2 Require Import Model.Cxx Model.Bits Model.BitArray Model.BitStream Generated.LeafCode
                          Proofs.BitsProofs Proofs.BitArrayProofs Proofs.BitStreamProofs Proofs.LeafTactics.
Import ListNotations.
Local Open Scope string_scope.
Local Open Scope Z_scope.

(* ---------- utility.hpp: bitWidth ---------- *)
Ltac Zify.zify_post_hook ::= Z.div_mod_to_equations.

Ltac sym_eval := cbn -[Z.shiftr Z.shiftl Z.land Z.lor Z.lxor Z.lnot].

(* the exact bit length *)
Definition bw_spec (v r : Z) : Prop := (v = 0 /\ r = 0) \/ (1 <= r <= 32 /\ 2 ^ (r - 1) <= v < 2 ^ r).

Lemma bw_spec_unique v r1 r2 : bw_spec v r1 -> bw_spec v r2 -> r1 = r2.
Proof.
  intros [[H1 E1]|[R1 H1]] [[H2 E2]|[R2 H2]]; try lia.
  destruct (Z.lt_trichotomy r1 r2) as [L|[E|L]]; [exfalso|exact E|exfalso].
  - assert (2 ^ r1 <= 2 ^ (r2 - 1)) by (apply Z.pow_le_mono_r; lia). lia.
  - assert (2 ^ r2 <= 2 ^ (r1 - 1)) by (apply Z.pow_le_mono_r; lia). lia.
Qed.

Lemma shiftr_eqb0 v k : 0 <= v -> 0 <= k -> (Z.shiftr v k =? 0) = (v <? 2 ^ k).
Proof.
  intros Hv Hk. rewrite Z.shiftr_div_pow2 by exact Hk.
  assert (0 < 2 ^ k) by (apply Z.pow_pos_nonneg; lia).
  destruct (v <? 2 ^ k) eqn:E.
  - apply Z.eqb_eq. apply Z.div_small. lia.
  - apply Z.eqb_neq. intro D. apply Z.div_small_iff in D; lia.
Qed.

Ltac chain_step :=
  match goal with
  | |- context[if b2z ?c =? 0 then _ else _] => destruct c eqn:?; cbn [b2z Z.eqb]
  end.

Theorem src_bitWidth_spec v : 0 <= v < 2 ^ 32 ->
  exists r, call1 leaf_ftable "bitWidth_u32" v = Some r /\ bw_spec v r.
Proof.
  (* written to survive rewrites of the function: any chain or recursion of tests of the forms v >> k == 0, v < c, v <= c is accepted *)
  intros Hv. unfold call1. sym_eval.
  rewrite ?Z.shiftr_shiftr by lia. sym_eval.
  rewrite ?shiftr_eqb0 by lia. cbn [Z.pow Z.pow_pos Pos.iter Z.mul Pos.mul].
  repeat chain_step.
  all: try (exfalso; lia).            (* branches the range of v excludes (a recursive formulation is unfolded further than 32 levels) *)
  all: sym_eval; eexists; (split; [reflexivity|]); unfold bw_spec; cbn [Z.pow Z.pow_pos Pos.iter Z.mul Pos.mul Z.sub Z.add Z.opp Z.pos_sub Pos.pred_double Pos.succ Pos.add]; lia.
Qed.

(* ... hence the source's bitWidth is the model's, for every 32-bit argument *)
Lemma model_bitWidth_spec v : 0 <= v < 2 ^ 32 -> bw_spec v (Z.of_N (bitWidth (Z.to_N v))).
Proof.
  intros Hv. destruct (bitWidth_spec (Z.to_N v)) as [Hhi Hlo]; [change (2 ^ 32)%N with (Z.to_N (2 ^ 32)); lia|].
  pose proof (bitWidth_le_32 (Z.to_N v)) as H32.
  set (r := bitWidth (Z.to_N v)) in *. unfold bw_spec.
  destruct (N.eq_dec r 0) as [E|E].
  - left. rewrite E in *. cbn in Hhi. lia.
  - right. destruct Hlo as [Hlo|Hlo]; [contradiction|]. split; [lia|].
    assert (Z.of_N (2 ^ r) = 2 ^ Z.of_N r) by apply N2Z.inj_pow.
    assert (Z.of_N (2 ^ (r - 1)) = 2 ^ (Z.of_N r - 1)) by (rewrite N2Z.inj_pow; f_equal; lia).
    lia.
Qed.

Theorem src_bitWidth v : 0 <= v < 2 ^ 32 ->
  call1 leaf_ftable "bitWidth_u32" v = Some (Z.of_N (bitWidth (Z.to_N v))).
Proof.
  intros Hv. destruct (src_bitWidth_spec v Hv) as [r [E S]]. rewrite E. f_equal.
  exact (bw_spec_unique v _ _ S (model_bitWidth_spec v Hv)).
Qed.
