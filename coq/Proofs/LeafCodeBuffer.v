(* StreamBufferT<N> of /repo's current bit_stream.{hpp,inl}, as translated: BYTE_COUNT = ceil(N / 8), operator== and operator!= are
   byte-wise equality and its negation over the whole buffer. *)
From Coq Require Import List ZArith NArith Bool String Lia ZifyBool.
From FFSM2 Require Import Model.Cxx Model.Bits Model.BitArray Model.BitStream Generated.LeafCode
                          Proofs.BitsProofs Proofs.BitArrayProofs Proofs.BitStreamProofs Proofs.LeafTactics Proofs.LeafLoops.
Import ListNotations.
Local Open Scope string_scope.
Local Open Scope Z_scope.

(* ---------- StreamBufferT<N>: BYTE_COUNT and operator== / operator!= ---------- *)
Definition sb_consts (bits : Z) : list (string * Z) :=
  [("NBitCapacity", bits); ("BIT_CAPACITY", bits); ("BYTE_COUNT", (bits + 7) / 8)].
Definition nbitcapacity (bits : Z) : list (string * Z) := [("NBitCapacity", bits)].

Theorem src_StreamBuffer_consts bits : 1 <= bits <= 255 ->
  build_consts leaf_ftable StreamBufferT_100_consts (nbitcapacity bits) = Some (sb_consts bits).
Proof.
  intros Hb. unfold build_consts, StreamBufferT_100_consts, sb_consts, nbitcapacity.
  sym_exec.
  rewrite Z.quot_div_nonneg by lia.
  replace (bits + 8 - 1) with (bits + 7) by lia. reflexivity.
Qed.

Definition bytes_eqb (b o : list N) : bool := forallb (fun q => (fst q =? snd q)%N) (combine b o).
Lemma bytes_eqb_spec : forall b o, List.length b = List.length o -> (bytes_eqb b o = true <-> b = o).
Proof.
  unfold bytes_eqb. induction b as [|h t IH]; intros [|h' t'] Hl; cbn in Hl; try lia; cbn [combine forallb fst snd]; [tauto|].
  rewrite andb_true_iff, N.eqb_eq, IH by lia. split; [intros [-> ->]; reflexivity|intros E; injection E; auto].
Qed.

Lemma all_range_eq : forall b o pre preo, List.length pre = List.length preo -> List.length b = List.length o ->
  all_range (fun k x => (x =? uget (preo ++ o)%list k)%N) (pre ++ b)%list (N.of_nat (List.length pre)) (List.length b) = bytes_eqb b o.
Proof.
  unfold bytes_eqb.
  induction b as [|h t IH]; intros [|h' t'] pre preo Hp Hl; cbn in Hl; try lia; cbn [all_range forallb List.length combine]; [reflexivity|].
  unfold uget at 1 2. rewrite Nat2N.id, app_nth2 by lia. rewrite Hp at 2. rewrite app_nth2 by lia. rewrite Hp, !Nat.sub_diag. cbn [nth fst snd]. f_equal.
  replace (pre ++ h :: t)%list with ((pre ++ [h]) ++ t)%list by (rewrite <- app_assoc; reflexivity).
  replace (preo ++ h' :: t')%list with ((preo ++ [h']) ++ t')%list by (rewrite <- app_assoc; reflexivity).
  replace (N.of_nat (Datatypes.length preo) + 1)%N with (N.of_nat (Datatypes.length (pre ++ [h])%list)) by (rewrite app_length; cbn; lia).
  apply IH; [rewrite !app_length; cbn; lia|lia].
Qed.

Definition sb_state (o : list N) (v : Z) (l : list N) : state :=
  {| locals := [("i", v)]; fields := []; arrays := [("_data", zs l); ("buffer._data", zs o)] |}.
Definition sb_obj (b o : list N) : list (string * list Z) := [("_data", zs b); ("buffer._data", zs o)].

Ltac sb_cmp M rv final :=
  intros Hbits Hb Ho Hlen Hlo; unfold run, init_locals, run_fuel, sb_obj;
  cbn [m_body m_params m_locals M combine map app];
  change 100%nat with (S (S 98)); rewrite exec_seq, exec_forrange; unfold sb_consts;
  cbn -[exec iter_range Z.of_nat Z.to_nat zs Z.sub Z.ltb Z.div Z.add Z.of_N conv]; rewrite !conv_id by (discriminate || (cbn; lia));
  match goal with |- context[if ?c then OFault else _] => replace c with false by (symmetry; cbn; lia) end.

Theorem src_StreamBuffer_eq bits b o : 1 <= bits <= 255 -> Forall (fun x => (x < 256)%N) b -> Forall (fun x => (x < 256)%N) o ->
  Z.of_nat (List.length b) = (bits + 7) / 8 -> List.length o = List.length b ->
  result (run leaf_ftable (sb_consts bits) StreamBufferT_100__op_eq [] [] (sb_obj b o)) = Some (Some (b2z (bytes_eqb b o)), [], sb_obj b o).
Proof.
  sb_cmp StreamBufferT_100__op_eq 0 1.
  match goal with |- context[iter_range ?nn ?kk ?bd ?st] =>
    assert (HF : forall k v, 0 <= k < Z.of_nat (List.length b) ->
                 bd k (sb_state o v b) = if (uget b (Z.to_N k) =? uget o (Z.to_N k))%N then ONormal (sb_state o k b) else OReturn (sb_state o k b) (Some 0));
    [|destruct (iter_range_find_r bd (sb_state o) (fun j x => (x =? uget o j)%N) 0 b HF nn kk 0) as [v' E]] end.
  - intros k v Hk. unfold sb_state. rewrite <- (Z2N.id k) by lia. set (kn := Z.to_N k). rewrite N2Z.id.
    assert (Z.of_N kn < Z.of_nat (List.length b)) by (unfold kn; lia).
    sym_exec.
    destruct (uget b kn =? uget o kn)%N; cbn [negb b2z Z.eqb]; norm_state; reflexivity.
  - lia.
  - lia.
  - unfold sb_state in E at 1. rewrite E. clear E HF.
    replace (Z.to_nat ((bits + 7) / 8 - 0)) with (List.length b) by lia.
    change (Z.to_N 0) with 0%N. pose proof (all_range_eq b o [] [] eq_refl (eq_sym Hlo)) as A. cbn [app List.length N.of_nat] in A. rewrite A.
    destruct (bytes_eqb b o); [|reflexivity].
    rewrite exec_return. cbn. reflexivity.
Qed.

Theorem src_StreamBuffer_ne bits b o : 1 <= bits <= 255 -> Forall (fun x => (x < 256)%N) b -> Forall (fun x => (x < 256)%N) o ->
  Z.of_nat (List.length b) = (bits + 7) / 8 -> List.length o = List.length b ->
  result (run leaf_ftable (sb_consts bits) StreamBufferT_100__op_ne [] [] (sb_obj b o)) = Some (Some (b2z (negb (bytes_eqb b o))), [], sb_obj b o).
Proof.
  sb_cmp StreamBufferT_100__op_ne 1 0.
  match goal with |- context[iter_range ?nn ?kk ?bd ?st] =>
    assert (HF : forall k v, 0 <= k < Z.of_nat (List.length b) ->
                 bd k (sb_state o v b) = if (uget b (Z.to_N k) =? uget o (Z.to_N k))%N then ONormal (sb_state o k b) else OReturn (sb_state o k b) (Some 1));
    [|destruct (iter_range_find_r bd (sb_state o) (fun j x => (x =? uget o j)%N) 1 b HF nn kk 0) as [v' E]] end.
  - intros k v Hk. unfold sb_state. rewrite <- (Z2N.id k) by lia. set (kn := Z.to_N k). rewrite N2Z.id.
    assert (Z.of_N kn < Z.of_nat (List.length b)) by (unfold kn; lia).
    sym_exec.
    destruct (uget b kn =? uget o kn)%N; cbn [negb b2z Z.eqb]; norm_state; reflexivity.
  - lia.
  - lia.
  - unfold sb_state in E at 1. rewrite E. clear E HF.
    replace (Z.to_nat ((bits + 7) / 8 - 0)) with (List.length b) by lia.
    change (Z.to_N 0) with 0%N. pose proof (all_range_eq b o [] [] eq_refl (eq_sym Hlo)) as A. cbn [app List.length N.of_nat] in A. rewrite A.
    destruct (bytes_eqb b o); [|reflexivity].
    rewrite exec_return. cbn. reflexivity.
Qed.
