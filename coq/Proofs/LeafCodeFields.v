(* Sequences of fields through the translated stream code: write<W> calls for arbitrary widths (each dispatched to the item type UBitWidth<W> selects),
   then read<W> calls - the translated code as a whole is the model's write_fields / read_fields, so the round-trip theorem of Proofs/BitStreamProofs.v
   is a theorem about /repo's bit_stream.inl. *)
From Coq Require Import List ZArith NArith Bool String Lia ZifyBool.
From FFSM2 Require Import Model.Cxx Model.Bits Model.BitArray Model.BitStream Generated.LeafCode
                          Proofs.BitsProofs Proofs.BitArrayProofs Proofs.BitStreamProofs Proofs.LeafTactics Proofs.LeafCodeStream Proofs.LeafCodeWide.
Import ListNotations.
Local Open Scope string_scope.
Local Open Scope Z_scope.

(* the member template instantiated for a width: UBitWidth<W> is uint8_t up to 8, uint16_t up to 16, uint32_t up to 32 *)
Definition wmethod (W : N) : method :=
  if (W <=? 8)%N then BitWriteStreamT_100__write_5 else if (W <=? 16)%N then BitWriteStreamT_100__write_12 else BitWriteStreamT_100__write_20.
Definition rmethod (W : N) : method :=
  if (W <=? 8)%N then BitReadStreamT_100__read_5 else if (W <=? 16)%N then BitReadStreamT_100__read_12 else BitReadStreamT_100__read_20.

Lemma zs_inv b : map Z.to_N (zs b) = b.
Proof. unfold zs. rewrite map_map. rewrite <- (map_id b) at 2. apply map_ext. intro a. apply N2Z.id. Qed.

Definition st_decode (r : option (option Z * list (string * Z) * list (string * list Z))) : option (option Z * N * list N) :=
  match r with
  | Some (v, [(_, c)], [(_, l)]) => Some (v, Z.to_N c, map Z.to_N l)
  | _ => None
  end.
Lemma st_decode_ok v c b : st_decode (Some (v, cursor_fld c, stream_obj b)) = Some (v, c, b).
Proof. unfold st_decode, cursor_fld, stream_obj. rewrite N2Z.id, zs_inv. reflexivity. Qed.

Lemma st_decode_lit v c b : st_decode (Some (v, [("_cursor", Z.of_N c)], [("_buffer._data", zs b)])) = Some (v, c, b).
Proof. exact (st_decode_ok v c b). Qed.

Definition src_write1 (cb : N * list N) (f : N * N) : option (N * list N) :=
  let '(c, buf) := cb in let '(w, v) := f in
  match st_decode (result (run leaf_ftable (width_const w) (wmethod w) [Z.of_N v] (cursor_fld c) (stream_obj buf))) with
  | Some (_, c', b') => Some (c', b') | None => None end.
Fixpoint src_write_fields (cb : N * list N) (fs : list (N * N)) : option (N * list N) :=
  match fs with [] => Some cb | f :: r => match src_write1 cb f with Some cb' => src_write_fields cb' r | None => None end end.

Definition src_read1 (c : N) (buf : list N) (w : N) : option (N * N) :=
  match st_decode (result (run leaf_ftable (width_const w) (rmethod w) [] (cursor_fld c) (stream_obj buf))) with
  | Some (Some v, c', _) => Some (Z.to_N v, c') | _ => None end.
Fixpoint src_read_fields (c : N) (buf : list N) (ws : list N) : option (list N * N) :=
  match ws with
  | [] => Some ([], c)
  | w :: r => match src_read1 c buf w with
              | Some (v, c') => match src_read_fields c' buf r with Some (vs, c'') => Some (v :: vs, c'') | None => None end
              | None => None end
  end.

Local Open Scope N_scope.

Lemma write_loop_Forall : forall fuel buf c item w, Forall (fun x => x < 256) buf ->
  Forall (fun x => x < 256) (fst (write_loop fuel buf c item w)).
Proof.
  induction fuel as [|f IH]; intros buf c item w Hb; cbn [write_loop]; [exact Hb|].
  destruct (w =? 0); [exact Hb|]. unfold write_chunk. cbv beta iota zeta.
  apply IH. apply Forall_bset; [exact Hb|]. apply N.mod_lt. lia.
Qed.

Lemma write_fields_Forall : forall fs buf c, Forall (fun x => x < 256) buf -> Forall (fun x => x < 256) (fst (write_fields buf c fs)).
Proof.
  induction fs as [|[w v] fs IH]; intros buf c Hb; cbn [write_fields]; [exact Hb|].
  unfold write. pose proof (write_loop_Forall (N.to_nat w) buf c v w Hb) as F.
  destruct (write_loop (N.to_nat w) buf c v w) as [b1 c1]. cbn [fst] in F. apply IH. exact F.
Qed.

Lemma pow_le_bound w k : w <= k -> 2 ^ w <= 2 ^ k.
Proof. intros H. apply N.pow_le_mono_r; lia. Qed.

Lemma src_write1_model c buf w v :
  1 <= w <= 32 -> v < 2 ^ w -> c < 256 -> Forall (fun x => x < 256) buf ->
  c + w <= 8 * N.of_nat (List.length buf) -> (List.length buf <= 32)%nat ->
  src_write1 (c, buf) (w, v) = Some (let '(b', c') := write buf c w v in (c', b')).
Proof.
  intros Hw Hv Hc Hb Hfit Hlen. unfold src_write1, wmethod, width_const, cursor_fld, stream_obj.
  destruct (N.leb_spec w 8) as [H8|H8]; [|destruct (N.leb_spec w 16) as [H16|H16]].
  - assert (v < 256) by (apply N.lt_le_trans with (2 ^ w); [exact Hv|change 256 with (2 ^ 8); apply pow_le_bound; lia]).
    rewrite (src_write8 w v c buf) by (assumption || lia).
    destruct (write buf c w v) as [b' c']. rewrite (st_decode_lit None c' b'). reflexivity.
  - assert (v < 65536) by (apply N.lt_le_trans with (2 ^ w); [exact Hv|change 65536 with (2 ^ 16); apply pow_le_bound; lia]).
    rewrite (src_write16 w v c buf) by (assumption || lia).
    destruct (write buf c w v) as [b' c']. rewrite (st_decode_lit None c' b'). reflexivity.
  - assert (v < 4294967296) by (apply N.lt_le_trans with (2 ^ w); [exact Hv|change 4294967296 with (2 ^ 32); apply pow_le_bound; lia]).
    rewrite (src_write32 w v c buf) by (assumption || lia).
    destruct (write buf c w v) as [b' c']. rewrite (st_decode_lit None c' b'). reflexivity.
Qed.

Lemma src_read1_model c buf w :
  1 <= w <= 32 -> c < 256 -> Forall (fun x => x < 256) buf ->
  c + w <= 8 * N.of_nat (List.length buf) -> (List.length buf <= 32)%nat ->
  src_read1 c buf w = Some (read buf c w).
Proof.
  intros Hw Hc Hb Hfit Hlen. unfold src_read1, rmethod.
  destruct (N.leb_spec w 8) as [H8|H8]; [|destruct (N.leb_spec w 16) as [H16|H16]].
  - rewrite (src_read8 w c buf) by (assumption || lia). destruct (read buf c w) as [v c']. rewrite (st_decode_ok (Some (Z.of_N v)) c' buf), N2Z.id. reflexivity.
  - rewrite (src_read16 w c buf) by (assumption || lia). destruct (read buf c w) as [v c']. rewrite (st_decode_ok (Some (Z.of_N v)) c' buf), N2Z.id. reflexivity.
  - rewrite (src_read32 w c buf) by (assumption || lia). destruct (read buf c w) as [v c']. rewrite (st_decode_ok (Some (Z.of_N v)) c' buf), N2Z.id. reflexivity.
Qed.

(* any sequence of fields that fits: the translated write<W> calls are the model's write_fields *)
Theorem src_write_fields_model : forall fs buf c,
  fields_ok fs -> Forall (fun x => x < 256) buf -> c + total_width fs <= 8 * N.of_nat (List.length buf) -> c + total_width fs < 256 -> (List.length buf <= 32)%nat ->
  src_write_fields (c, buf) fs = Some (let '(b', c') := write_fields buf c fs in (c', b')).
Proof.
  induction fs as [|[w v] fs IH]; intros buf c Hok Hb Hfit H256 Hlen; cbn [src_write_fields write_fields]; [reflexivity|].
  inversion Hok as [|x l [Hw Hv] Hok']; subst. cbn [fst snd total_width fold_right] in *.
  rewrite src_write1_model by (try assumption; lia).
  pose proof (write_loop_spec (N.to_nat w) buf c v w ltac:(lia) Hv ltac:(lia) ltac:(lia)) as S.
  pose proof (write_loop_Forall (N.to_nat w) buf c v w Hb) as F.
  unfold write. destruct (write_loop (N.to_nat w) buf c v w) as [b' c'] eqn:E. cbn [fst] in F.
  destruct S as (Sc & Sl & _). subst c'.
  apply IH; [exact Hok'|exact F|rewrite Sl; unfold total_width in *; lia|unfold total_width in *; lia|rewrite Sl; exact Hlen].
Qed.

(* ... and the translated read<W> calls are the model's read_fields *)
Lemma read_cursor buf c w : c + w < 256 -> snd (read buf c w) = c + w.
Proof.
  intros H256. unfold read.
  pose proof (read_loop_spec (N.to_nat w) buf c 0 0 w ltac:(lia) ltac:(cbn; lia) H256) as S.
  destruct (read_loop (N.to_nat w) buf c 0 0 w) as [v c']. destruct S as [S _]. exact S.
Qed.

Theorem src_read_fields_model : forall ws buf c,
  Forall (fun w => 1 <= w <= 32) ws -> Forall (fun x => x < 256) buf ->
  c + fold_right N.add 0 ws <= 8 * N.of_nat (List.length buf) -> c + fold_right N.add 0 ws < 256 -> (List.length buf <= 32)%nat ->
  src_read_fields c buf ws = Some (read_fields buf c ws).
Proof.
  induction ws as [|w ws IH]; intros buf c Hws Hb Hfit H256 Hlen; cbn [src_read_fields read_fields]; [reflexivity|].
  inversion Hws as [|x l Hw Hws']; subst. cbn [fold_right] in *.
  rewrite src_read1_model by (try assumption; lia).
  pose proof (read_cursor buf c w ltac:(lia)) as Hc'.
  destruct (read buf c w) as [v c']. cbn [snd] in Hc'. subst c'.
  rewrite IH by (try assumption; lia).
  destruct (read_fields buf (c + w) ws) as [vs c'']. reflexivity.
Qed.

(* the round trip, through the translated code only: write any fitting field sequence into a cleared buffer, read the same widths back *)
Theorem src_fields_roundtrip : forall fs bits,
  fields_ok fs -> 1 <= bits <= 255 -> total_width fs <= bits ->
  exists buf', src_write_fields (0, buffer_clear bits) fs = Some (total_width fs, buf') /\
               src_read_fields 0 buf' (map fst fs) = Some (map snd fs, total_width fs).
Proof.
  intros fs bits Hok Hbits Hfit.
  pose proof (buffer_clear_length bits) as Hlen. pose proof (buffer_clear_zeros bits) as Hz.
  assert (Hb : Forall (fun x => x < 256) (buffer_clear bits)) by (unfold buffer_clear; apply Forall_forall; intros x Hx; apply repeat_spec in Hx; subst; lia).
  assert (Hl32 : (List.length (buffer_clear bits) <= 32)%nat) by lia.
  assert (Hfit8 : 0 + total_width fs <= 8 * N.of_nat (List.length (buffer_clear bits))) by (rewrite Hlen; lia).
  pose proof (fields_roundtrip fs (buffer_clear bits) 0 Hok Hfit8 ltac:(lia) Hz) as R.
  pose proof (src_write_fields_model fs (buffer_clear bits) 0 Hok Hb Hfit8 ltac:(lia) Hl32) as W.
  destruct (write_fields (buffer_clear bits) 0 fs) as [b' c'] eqn:E.
  destruct R as (Rc & Rl & Rz & Rp & Rr). rewrite N.add_0_l in Rc. subst c'.
  exists b'. split; [exact W|].
  assert (Hb' : Forall (fun x => x < 256) b') by (pose proof (write_fields_Forall fs (buffer_clear bits) 0 Hb) as FF; rewrite E in FF; exact FF).
  rewrite src_read_fields_model; [rewrite Rr; reflexivity| |exact Hb'| | |].
  - clear - Hok. induction Hok as [|[w v] l [Hw _] _ IH]; cbn [map fst]; constructor; auto.
  - assert (T : fold_right N.add 0 (map fst fs) = total_width fs) by (unfold total_width; clear; induction fs as [|[w v] fs IH]; cbn; [reflexivity|rewrite IH; reflexivity]).
    rewrite T, Rl. lia.
  - assert (T : fold_right N.add 0 (map fst fs) = total_width fs) by (unfold total_width; clear; induction fs as [|[w v] fs IH]; cbn; [reflexivity|rewrite IH; reflexivity]).
    rewrite T. lia.
  - rewrite Rl. exact Hl32.
Qed.
