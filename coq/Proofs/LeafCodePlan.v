(* PlanT<Args>::linkTask(index) / remove(index) / append(origin, destination) of /repo's current plan_1.inl, as translated (Generated/LeafCode.v): the member
   functions of the sub-objects they call - TaskListT::emplace / remove / count, StaticArrayT::operator[] - are inlined by the translator at the call site, running
   in the sub-object (`_planData.tasks`, `_planData.taskLinks`), so the term is the whole of what the call executes.  Proved equal to Model/Plan.v's pd_link,
   plan_remove and plan_append on every plan data whose task list meets the preconditions that follow from the free-list invariant and whose links stay in range.
   This file: the representation of the object, the tactics, linkTask and the emptiness test; remove and append are in LeafCodePlanRemove.v / LeafCodePlanAppend.v
   (the two long symbolic runs, in files of their own so that they are checked in parallel); the invariant that discharges the preconditions in LeafCodePlanInv.v. *)
From Coq Require Import List ZArith NArith Bool String Lia ZifyBool Arith.
From FFSM2 Require Import Model.Cxx Model.TaskList Model.BitArray Model.Plan Generated.LeafCode Proofs.TaskListProofs Proofs.LeafTactics Proofs.LeafCodeTaskList.
Import ListNotations.
Local Open Scope string_scope.
Local Open Scope Z_scope.

Definition pl_consts (cap : nat) : list (string * Z) :=
  [("TASK_CAPACITY", Z.of_nat cap); ("StaticArrayT::CAPACITY", Z.of_nat cap); ("TaskListT::INVALID", 255);
   ("_planData.tasks::NCapacity", Z.of_nat cap); ("_planData.tasks::CAPACITY", Z.of_nat cap); ("_planData.tasks::INVALID", 255)].

Lemma map_fst_lupd (l : list link) i f : (i < List.length l)%nat -> map fst (lupd l i f) = lset (map fst l) i (fst (f (lget l i))).
Proof.
  unfold lget. revert i. induction l as [|h t IH]; intros [|i] H; cbn in *; try lia; [reflexivity|]. f_equal. apply IH. lia.
Qed.
Lemma map_snd_lupd (l : list link) i f : (i < List.length l)%nat -> map snd (lupd l i f) = lset (map snd l) i (snd (f (lget l i))).
Proof.
  unfold lget. revert i. induction l as [|h t IH]; intros [|i] H; cbn in *; try lia; [reflexivity|]. f_equal. apply IH. lia.
Qed.
Lemma lupd_len (l : list link) i f : List.length (lupd l i f) = List.length l.
Proof. revert i; induction l as [|h t IH]; intros [|i]; cbn; auto. Qed.
Lemma nth_map_fst (l : list link) i : nth i (map fst l) 0%nat = fst (nth i l (0%nat, 0%nat)).
Proof. apply (map_nth fst l (0%nat, 0%nat)). Qed.
Lemma nth_map_fst_lget (l : list link) i : (i < List.length l)%nat -> nth i (map fst l) 0%nat = fst (lget l i).
Proof. intros H. unfold lget. rewrite nth_indep with (d' := fst dlink) by (rewrite map_length; exact H). apply map_nth. Qed.
Lemma nth_map_snd_lget (l : list link) i : (i < List.length l)%nat -> nth i (map snd l) 0%nat = snd (lget l i).
Proof. intros H. unfold lget. rewrite nth_indep with (d' := snd dlink) by (rewrite map_length; exact H). apply map_nth. Qed.

Lemma nth_lset (l : list nat) i j v : nth i (lset l j v) 0%nat = if ((i =? j) && (j <? List.length l))%nat then v else nth i l 0%nat.
Proof.
  revert i j. induction l as [|h t IH]; intros i j; cbn [lset List.length].
  - destruct j; cbn; rewrite ?andb_false_r; destruct i; reflexivity.
  - destruct j as [|j]; destruct i as [|i]; cbn [nth lset]; try reflexivity. rewrite IH. reflexivity.
Qed.
(* a write of the value already read at i leaves the value at i *)
Lemma nth_lset_val (l : list nat) i j : nth i (lset l j (nth i l 0%nat)) 0%nat = nth i l 0%nat.
Proof. rewrite nth_lset. destruct ((i =? j) && (j <? List.length l))%nat; reflexivity. Qed.

Section PlanState.
Variable P : Type.
(* the part of PlanDataT these member functions touch: tasks, taskLinks, tasksBounds (through PlanT::_bounds), planExists *)
Definition pd_fields (d : plan_data P) : list (string * Z) :=
  [("_planData.tasks._vacantHead", Z.of_nat (t_head (pd_tasks d))); ("_planData.tasks._vacantTail", Z.of_nat (t_tail (pd_tasks d)));
   ("_planData.tasks._last", Z.of_nat (t_last (pd_tasks d))); ("_planData.tasks._count", Z.of_nat (t_count (pd_tasks d)));
   ("_planData.planExists", b2z (pd_exists d));
   ("_bounds.first", Z.of_nat (first (pd_pl d))); ("_bounds.last", Z.of_nat (lastb (pd_pl d)))].
Definition pd_arrays (d : plan_data P) : list (string * list Z) :=
  [("_planData.tasks._items.origin", zn (map s_prev (t_items (pd_tasks d)))); ("_planData.tasks._items.destination", zn (map s_next (t_items (pd_tasks d))));
   ("_planData.taskLinks._items.prev", zn (map fst (links (pd_pl d)))); ("_planData.taskLinks._items.next", zn (map snd (links (pd_pl d))))].

(* every link field holds a Long *)
Definition links_ok (l : list link) : Prop := forall i, (i < List.length l)%nat -> (fst (lget l i) <= 255 /\ snd (lget l i) <= 255)%nat.

(* what linkTask needs: the slot is inside the links array, and a non-empty plan's last task is *)
Definition link_pre (cap : nat) (p : pl) (idx : nat) : Prop :=
  (1 <= cap <= 255)%nat /\ List.length (links p) = cap /\ (idx <= 255)%nat /\ (first p <= 255)%nat /\ (lastb p <= 255)%nat /\
  (idx <> INVALID -> (idx < cap)%nat /\ (first p <> INVALID -> (lastb p < cap)%nat)).

Definition unlink_pre (cap : nat) (p : pl) (idx : nat) : Prop :=
  List.length (links p) = cap /\ links_ok (links p) /\ (first p <= 255)%nat /\ (lastb p <= 255)%nat.

Definition append_pre (cap : nat) (d : plan_data P) : Prop :=
  emplace_pre cap (pd_tasks d) /\ List.length (links (pd_pl d)) = cap /\ (first (pd_pl d) <= 255)%nat /\ (lastb (pd_pl d) <= 255)%nat /\ (first (pd_pl d) <> INVALID -> (lastb (pd_pl d) < cap)%nat).

End PlanState.
Arguments pd_fields {P} d.
Arguments pd_arrays {P} d.
Arguments append_pre {P} cap d.

Ltac cond_eq :=
  match goal with
  | |- context[if b2z (?a =? ?b) =? 0 then _ else _] => destruct (Z.eqb_spec a b); cbn [b2z Z.eqb]; try (exfalso; lia)
  end.
Ltac pl_exec :=
  repeat (sym_exec || cond_step || cond_eq || (progress rewrite ?Nat2Z.id) || (rewrite nth_map_get by lia) || (rewrite nth_map_fst_lget by lia) || (rewrite nth_map_snd_lget by lia)
          || (rewrite set_z_zn' by (rewrite ?lset_length; lia)) || (rewrite nth_z_zn by (rewrite ?lset_length; lia))).

(* both sides in the same form: every link field read as nth of the per-field list, every lupd as lset on the per-field lists *)
Ltac norm_links :=
  repeat (progress (rewrite ?map_fst_lupd, ?map_snd_lupd by (rewrite ?lupd_len; lia); cbn [fst snd])
          || match goal with
             | |- context[fst (lget ?L ?i)] => rewrite <- (nth_map_fst_lget L i) by (rewrite ?lupd_len; lia)
             | |- context[snd (lget ?L ?i)] => rewrite <- (nth_map_snd_lget L i) by (rewrite ?lupd_len; lia)
             end);
  rewrite ?lset_same.
Ltac fin_pl :=
  norm_state; rewrite ?Nat2Z.id; unfold pd_fields, pd_arrays;
  cbn [pd_with_pl pd_with_tasks pd_with_exists pd_tasks pd_pl pd_exists links first lastb t_head t_tail t_last t_count t_items];
  norm_links; close_tl.

Ltac pl_exec' :=
  repeat (sym_exec || (progress rewrite ?Nat2Z.id) || (rewrite nth_map_get by lia) || (rewrite nth_lset_val)
          || (rewrite set_z_zn' by (rewrite ?lset_length; lia)) || (rewrite nth_z_zn by (rewrite ?lset_length; lia)) || cond_any || cond_step || cond_eq).
Ltac fin_pl' R :=
  norm_state; rewrite ?Nat2Z.id; subst R; unfold pd_fields, pd_arrays;
  cbn [pd_with_pl pd_with_tasks pd_with_exists pd_tasks pd_pl pd_exists links first lastb t_head t_tail t_last t_count t_items fst snd dlink];
  repeat match goal with |- context[Z.to_nat (Z.of_nat ?x + 1)] => replace (Z.to_nat (Z.of_nat x + 1)) with (S x) by lia end;
  change (Pos.to_nat 255) with INVALID; norm_upd; norm_links; close_tl.

Section PlanCode.
Variable P : Type.
Theorem src_Plan_linkTask cap (d : plan_data P) idx : link_pre cap (pd_pl d) idx ->
  result (run leaf_ftable (pl_consts cap) PlanT__linkTask [Z.of_nat idx] (pd_fields d) (pd_arrays d))
  = let '(d', b) := pd_link P d idx in Some (Some (b2z b), pd_fields d', pd_arrays d').
Proof.
  intros (Hcap & Hlen & Hi & Hf & Hl & Hpre).
  assert (Hlf : List.length (map fst (links (pd_pl d))) = cap) by (rewrite map_length; exact Hlen).
  assert (Hls : List.length (map snd (links (pd_pl d))) = cap) by (rewrite map_length; exact Hlen).
  remember (pd_link P d idx) as R eqn:HR. unfold run, pl_consts, pd_fields at 1, pd_arrays at 1.
  unfold pd_link in HR. unfold INVALID in *. destruct (Nat.eqb_spec idx 255) as [He|Hne].
  - subst R. pl_exec. reflexivity.
  - destruct (Hpre Hne) as [Hic Hlast]. unfold link_task in HR. unfold INVALID in *.
    destruct (Nat.eqb_spec (first (pd_pl d)) 255) as [Hfe|Hfn].
    + subst R. pl_exec. fin_pl.
    + specialize (Hlast Hfn). subst R. pl_exec. fin_pl.
Qed.


(* explicit operator bool(): the emptiness test *)
Theorem src_Plan_nonempty cap (d : plan_data P) : (cap <= 255)%nat -> (first (pd_pl d) <= 255)%nat ->
  result (run leaf_ftable (pl_consts cap) PlanT__operator_bool [] (pd_fields d) (pd_arrays d))
  = Some (Some (b2z (plan_nonempty P cap d)), pd_fields d, pd_arrays d).
Proof.
  intros Hcap Hf. unfold run, pl_consts, pd_fields at 1, pd_arrays at 1, plan_nonempty.
  destruct (Nat.ltb_spec (first (pd_pl d)) cap) as [H|H]; sym_exec;
    match goal with |- context[(?a <? ?b)%Z] => destruct (Z.ltb_spec a b); try lia; reflexivity end.
Qed.
End PlanCode.
Print Assumptions src_Plan_linkTask.
Print Assumptions src_Plan_nonempty.
