(* PlanT<Args>::change(origin, destination) - the public entry point: its body is `return append(origin, destination);`, which the translator inlines (and with it
   emplace and linkTask), so this is the whole of what a call of plan.change(o, d) executes.  Same statement and proof as src_Plan_append. *)
From Coq Require Import List ZArith NArith Bool String Lia ZifyBool Arith.
From FFSM2 Require Import Model.Cxx Model.TaskList Model.BitArray Model.Plan Generated.LeafCode Proofs.TaskListProofs Proofs.LeafTactics Proofs.LeafCodeTaskList Proofs.LeafCodePlan.
Import ListNotations.
Local Open Scope string_scope.
Local Open Scope Z_scope.

Section PlanChange.
Variable P : Type.
Theorem src_Plan_change cap (d : plan_data P) o dst : append_pre cap d -> (o <= 255)%nat -> (dst <= 255)%nat ->
  result (run leaf_ftable (pl_consts cap) PlanT__change [Z.of_nat o; Z.of_nat dst] (pd_fields d) (pd_arrays d))
  = let '(d', b) := plan_append P cap d o dst in Some (Some (b2z b), pd_fields d', pd_arrays d').
Proof.
  intros ((Hcap & Hlen & Hcnt & Hh & Ht & Hl & Hpre) & Hll & Hf & Hlb & Hlast) Ho Hd.
  assert (Hlp : List.length (map s_prev (t_items (pd_tasks d))) = cap) by (rewrite map_length; exact Hlen).
  assert (Hln : List.length (map s_next (t_items (pd_tasks d))) = cap) by (rewrite map_length; exact Hlen).
  assert (Hlf : List.length (map fst (links (pd_pl d))) = cap) by (rewrite map_length; exact Hll).
  assert (Hls : List.length (map snd (links (pd_pl d))) = cap) by (rewrite map_length; exact Hll).
  remember (plan_append P cap d o dst) as R eqn:HR. unfold run, pl_consts, pd_fields at 1, pd_arrays at 1.
  unfold plan_append, emplace, pd_link, link_task in HR. cbn [pd_with_exists pd_with_tasks pd_with_pl pd_tasks pd_pl pd_exists] in HR. unfold INVALID in *.
  destruct (Nat.ltb_spec (t_count (pd_tasks d)) cap) as [Hlt|Hge].
  - destruct (Hpre Hlt) as [Hhd Hnx].
    assert (E255 : (t_head (pd_tasks d) =? 255)%nat = false) by (apply Nat.eqb_neq; lia).
    (* the run splits where the code branches (the common prefix is executed once); at each leaf the model's conditions are decided by the facts collected *)
    pl_exec'.
    all: repeat match type of HR with
         | context[if (?a <? ?b)%nat then _ else _] => destruct (Nat.ltb_spec a b); try (exfalso; lia)
         | context[if negb (?a =? ?b)%nat then _ else _] => destruct (Nat.eqb_spec a b); cbn [negb] in HR; try (exfalso; lia)
         end.
    all: cbv beta iota zeta in HR; rewrite E255 in HR.
    all: repeat match type of HR with
         | context[if (?a =? ?b)%nat then _ else _] => destruct (Nat.eqb_spec a b); try (exfalso; lia)
         end.
    all: fin_pl' R.
  - pl_exec'; fin_pl' R.
Qed.

End PlanChange.
Print Assumptions src_Plan_change.
