(* The preconditions of Proofs/LeafCodePlan.v follow from the plan invariant PlanInv of Proofs/PlanProofs.v, which pd_init establishes and every plan operation
   preserves: so on every plan data any history of plan operations reaches, the translated PlanT::append / remove never index outside tasks / taskLinks and compute
   the model's plan_append / plan_remove - to which plan_append_spec / plan_remove_spec (capacity exact, order preserved, slots recycled) apply. *)
From Coq Require Import List ZArith NArith Bool String Lia ZifyBool Arith.
From FFSM2 Require Import Model.Cxx Model.TaskList Model.BitArray Model.Plan Generated.LeafCode Proofs.TaskListProofs Proofs.PlanProofs
                          Proofs.LeafTactics Proofs.LeafCodeTaskList Proofs.LeafCodePlan Proofs.LeafCodePlanRemove Proofs.LeafCodePlanAppend Proofs.LeafCodePlanChange.
Import ListNotations.

Lemma dchain_ok cap ls : (cap <= 255)%nat -> forall order pv, (pv <= 255)%nat -> (forall i, In i order -> (i < cap)%nat) -> dchain ls pv order ->
  forall a, In a order -> (fst (lget ls a) <= 255 /\ snd (lget ls a) <= 255)%nat.
Proof.
  intros Hc. induction order as [|b rest IH]; intros pv Hpv Hlt Hch a Hin; [destruct Hin|].
  cbn [dchain] in Hch. destruct Hch as [E Hrest]. destruct Hin as [->|Hin].
  - rewrite E. cbn [fst snd]. split; [exact Hpv|]. destruct rest as [|c r]; cbn [hd]; [unfold INVALID; lia|].
    specialize (Hlt c (or_intror (or_introl eq_refl))). lia.
  - apply (IH b); try assumption.
    + specialize (Hlt b (or_introl eq_refl)). lia.
    + intros i Hi. apply Hlt. right. exact Hi.
Qed.

Lemma PInv_links_ok cap p order : (1 <= cap <= 255)%nat -> PInv cap p order -> links_ok (links p).
Proof.
  intros Hc [pi_len0 pi_nodup0 pi_lt0 pi_chain0 pi_first0 pi_last0 pi_free0] i Hi.
  destruct (in_dec Nat.eq_dec i order) as [Hin|Hnin].
  - apply (dchain_ok cap (links p) ltac:(lia) order INVALID); try assumption. unfold INVALID; lia.
  - rewrite pi_free0 by (try assumption; lia). unfold dlink, INVALID. cbn. lia.
Qed.

Lemma PInv_bounds cap p order : (1 <= cap <= 255)%nat -> PInv cap p order ->
  (first p <= 255)%nat /\ (lastb p <= 255)%nat /\ (first p <> INVALID -> (lastb p < cap)%nat).
Proof.
  intros Hc [pi_len0 pi_nodup0 pi_lt0 pi_chain0 pi_first0 pi_last0 pi_free0].
  destruct order as [|a r].
  - cbn in pi_first0, pi_last0. rewrite pi_first0, pi_last0. unfold INVALID. repeat split; try lia.
  - assert (Hl : In (last (a :: r) INVALID) (a :: r)).
    { destruct (@exists_last nat (a :: r) ltac:(discriminate)) as (l' & x & E). rewrite E, last_last. apply in_or_app. right. left. reflexivity. }
    pose proof (pi_lt0 _ Hl) as H1. pose proof (pi_lt0 a (or_introl eq_refl)) as H2. cbn [hd] in pi_first0.
    rewrite pi_first0, pi_last0. repeat split; lia.
Qed.

Section PlanOnInvariant.
Variable P : Type.

Theorem src_Plan_append_inv cap (d : plan_data P) order o dst : PlanInv P cap d order -> (o <= 255)%nat -> (dst <= 255)%nat ->
  result (run leaf_ftable (pl_consts cap) PlanT__append [Z.of_nat o; Z.of_nat dst] (pd_fields d) (pd_arrays d))
  = let '(d', b) := plan_append P cap d o dst in Some (Some (b2z b), pd_fields d', pd_arrays d').
Proof.
  intros I Ho Hd. pose proof (PlanInv_cap P cap d order I) as Hc.
  destruct (pv_fl P cap d order I) as (vac & occ & F & _). pose proof (pv_links P cap d order I) as L.
  destruct (PInv_bounds cap _ _ Hc L) as (Hf & Hl & Hlast).
  apply src_Plan_append; try assumption.
  split; [exact (FL_emplace_pre cap _ vac occ F)|]. split; [exact (pi_len cap _ _ L)|]. repeat split; assumption.
Qed.

(* the public entry point plan.change(origin, destination) *)
Theorem src_Plan_change_inv cap (d : plan_data P) order o dst : PlanInv P cap d order -> (o <= 255)%nat -> (dst <= 255)%nat ->
  result (run leaf_ftable (pl_consts cap) PlanT__change [Z.of_nat o; Z.of_nat dst] (pd_fields d) (pd_arrays d))
  = let '(d', b) := plan_append P cap d o dst in Some (Some (b2z b), pd_fields d', pd_arrays d').
Proof.
  intros I Ho Hd. pose proof (PlanInv_cap P cap d order I) as Hc.
  destruct (pv_fl P cap d order I) as (vac & occ & F & _). pose proof (pv_links P cap d order I) as L.
  destruct (PInv_bounds cap _ _ Hc L) as (Hf & Hl & Hlast).
  apply src_Plan_change; try assumption.
  split; [exact (FL_emplace_pre cap _ vac occ F)|]. split; [exact (pi_len cap _ _ L)|]. repeat split; assumption.
Qed.

Theorem src_Plan_remove_inv cap (d : plan_data P) l1 x l2 : PlanInv P cap d (l1 ++ x :: l2) ->
  result (run leaf_ftable (pl_consts cap) PlanT__remove [Z.of_nat x] (pd_fields d) (pd_arrays d))
  = Some (None, pd_fields (plan_remove P cap d x), pd_arrays (plan_remove P cap d x)).
Proof.
  intros I. pose proof (PlanInv_cap P cap d _ I) as Hc.
  destruct (pv_fl P cap d _ I) as (vac & occ & F & Hocc). pose proof (pv_links P cap d _ I) as L.
  destruct (PInv_bounds cap _ _ Hc L) as (Hf & Hl & Hlast).
  apply src_Plan_remove.
  - apply (FL_remove_pre cap _ vac occ x F). apply Hocc. apply in_or_app. right. left. reflexivity.
  - split; [exact (pi_len cap _ _ L)|]. split; [exact (PInv_links_ok cap _ _ Hc L)|]. split; assumption.
Qed.

Theorem src_Plan_nonempty_inv cap (d : plan_data P) order : PlanInv P cap d order ->
  result (run leaf_ftable (pl_consts cap) PlanT__operator_bool [] (pd_fields d) (pd_arrays d))
  = Some (Some (b2z (negb (List.length order =? 0)%nat)), pd_fields d, pd_arrays d).
Proof.
  intros I. pose proof (PlanInv_cap P cap d order I) as Hc. pose proof (pv_links P cap d order I) as L.
  destruct (PInv_bounds cap _ _ Hc L) as (Hf & _).
  rewrite src_Plan_nonempty by (try assumption; lia). rewrite (plan_nonempty_spec P cap d order I). reflexivity.
Qed.

(* ---------- whole histories: any sequence of append / remove-a-task-of-the-plan, run through the translated bodies ---------- *)
Variable cap : nat.
Inductive sop := SAppend (o dst : nat) | SRemove (slot : nat).
Definition pobj : Type := (list (string * Z) * list (string * list Z))%type.
Definition pobj_of (d : plan_data P) : pobj := (pd_fields d, pd_arrays d).
(* one operation on the object, by running the translated member function: the new object and what the call returned; None = the run faulted *)
Definition src_pstep (ob : pobj) (op : sop) : option (pobj * option Z) :=
  let '(f, a) := ob in
  match (match op with
         | SAppend o dst => result (run leaf_ftable (pl_consts cap) PlanT__append [Z.of_nat o; Z.of_nat dst] f a)
         | SRemove x => result (run leaf_ftable (pl_consts cap) PlanT__remove [Z.of_nat x] f a)
         end) with
  | Some (v, f', a') => Some ((f', a'), v)
  | None => None
  end.
Fixpoint src_prun (ob : pobj) (ops : list sop) : option (pobj * list (option Z)) :=
  match ops with
  | [] => Some (ob, [])
  | op :: r => match src_pstep ob op with
               | Some (ob', v) => match src_prun ob' r with Some (ob'', vs) => Some (ob'', v :: vs) | None => None end
               | None => None
               end
  end.
(* the same history in the model *)
Definition m_pstep (d : plan_data P) (op : sop) : plan_data P * option Z :=
  match op with
  | SAppend o dst => let '(d', b) := plan_append P cap d o dst in (d', Some (b2z b))
  | SRemove x => (plan_remove P cap d x, None)
  end.
Fixpoint m_prun (d : plan_data P) (ops : list sop) : plan_data P * list (option Z) :=
  match ops with
  | [] => (d, [])
  | op :: r => let '(d', v) := m_pstep d op in let '(d'', vs) := m_prun d' r in (d'', v :: vs)
  end.
(* in contract: state identifiers fit a StateID, and only tasks that are in the plan are removed *)
Fixpoint pops_ok (d : plan_data P) (ops : list sop) : Prop :=
  match ops with
  | [] => True
  | SAppend o dst :: r => (o <= 255)%nat /\ (dst <= 255)%nat /\ pops_ok (fst (plan_append P cap d o dst)) r
  | SRemove x :: r => In x (plan_indices P cap d) /\ pops_ok (plan_remove P cap d x) r
  end.

Lemma src_prun_gen : forall ops d order, PlanInv P cap d order -> pops_ok d ops ->
  src_prun (pobj_of d) ops = Some (pobj_of (fst (m_prun d ops)), snd (m_prun d ops)) /\ exists order', PlanInv P cap (fst (m_prun d ops)) order'.
Proof.
  induction ops as [|op ops IH]; intros d order I Hok; [split; [reflexivity|exists order; exact I]|].
  destruct op as [o dst|x]; cbn [pops_ok] in Hok.
  - destruct Hok as (Ho & Hd & Hok).
    pose proof (src_Plan_append_inv cap d order o dst I Ho Hd) as E.
    pose proof (plan_append_spec P cap d order o dst I) as S.
    cbn [src_prun m_prun m_pstep src_pstep pobj_of]. rewrite E.
    destruct (plan_append P cap d o dst) as [d' b] eqn:EA. cbn [fst] in Hok.
    assert (I' : exists order', PlanInv P cap d' order').
    { destruct (Nat.ltb (List.length order) cap).
      - destruct S as (i & d2 & E2 & _ & I2 & _). inversion E2; subst. eexists; exact I2.
      - inversion S; subst. exists order; exact I. }
    destruct I' as [order' I']. destruct (IH d' order' I' Hok) as [R Iend].
    change (pd_fields d', pd_arrays d') with (pobj_of d'). rewrite R.
    destruct (m_prun d' ops) as [d'' vs]. cbn [fst snd]. split; [reflexivity|exact Iend].
  - destruct Hok as (Hin & Hok). rewrite (plan_indices_spec P cap d order I) in Hin.
    destruct (in_split _ _ Hin) as (l1 & l2 & ->).
    pose proof (src_Plan_remove_inv cap d l1 x l2 I) as E.
    destruct (plan_remove_spec P cap d l1 x l2 I) as (I' & _).
    cbn [src_prun m_prun m_pstep src_pstep pobj_of]. rewrite E.
    destruct (IH _ _ I' Hok) as [R Iend].
    change (pd_fields (plan_remove P cap d x), pd_arrays (plan_remove P cap d x)) with (pobj_of (plan_remove P cap d x)). rewrite R.
    destruct (m_prun (plan_remove P cap d x) ops) as [d'' vs]. cbn [fst snd]. split; [reflexivity|exact Iend].
Qed.

(* from a freshly constructed PlanDataT: every in-contract history, executed by the translated member functions, never faults, returns what the model returns
   and leaves the object the model leaves - which satisfies the plan invariant, so plan_append_spec / plan_remove_spec / capacity_restored describe it *)
Theorem src_Plan_every_history n (ops : list sop) : (1 <= cap <= 255)%nat -> pops_ok (pd_init P cap n) ops ->
  src_prun (pobj_of (pd_init P cap n)) ops = Some (pobj_of (fst (m_prun (pd_init P cap n) ops)), snd (m_prun (pd_init P cap n) ops))
  /\ exists order, PlanInv P cap (fst (m_prun (pd_init P cap n) ops)) order.
Proof. intros Hc Hok. exact (src_prun_gen ops _ [] (pd_init_inv P cap n Hc) Hok). Qed.
End PlanOnInvariant.
Print Assumptions src_Plan_every_history.
Print Assumptions src_Plan_append_inv.
Print Assumptions src_Plan_change_inv.
Print Assumptions src_Plan_remove_inv.
Print Assumptions src_Plan_nonempty_inv.
