(* PlanT<Args>::remove(index) of /repo's current plan_1.inl, as translated: the task is unlinked from the plan order (both neighbours or the bounds), its link
   cleared, then TaskListT::remove (inlined) returns the slot to the free list - proved equal to Model/Plan.v's plan_remove. *)
From Coq Require Import List ZArith NArith Bool String Lia ZifyBool Arith.
From FFSM2 Require Import Model.Cxx Model.TaskList Model.BitArray Model.Plan Generated.LeafCode Proofs.TaskListProofs Proofs.LeafTactics Proofs.LeafCodeTaskList Proofs.LeafCodePlan.
Import ListNotations.
Local Open Scope string_scope.
Local Open Scope Z_scope.

Section PlanRemove.
Variable P : Type.
Theorem src_Plan_remove cap (d : plan_data P) idx : remove_pre cap (pd_tasks d) idx -> unlink_pre cap (pd_pl d) idx ->
  result (run leaf_ftable (pl_consts cap) PlanT__remove [Z.of_nat idx] (pd_fields d) (pd_arrays d))
  = Some (None, pd_fields (plan_remove P cap d idx), pd_arrays (plan_remove P cap d idx)).
Proof.
  intros (Hcap & Hlen & Hi & Hcnt & Hh & Ht & Hl & Hhd) (Hll & Hok & Hf & Hlb).
  assert (Hlp : List.length (map s_prev (t_items (pd_tasks d))) = cap) by (rewrite map_length; exact Hlen).
  assert (Hln : List.length (map s_next (t_items (pd_tasks d))) = cap) by (rewrite map_length; exact Hlen).
  assert (Hlf : List.length (map fst (links (pd_pl d))) = cap) by (rewrite map_length; exact Hll).
  assert (Hls : List.length (map snd (links (pd_pl d))) = cap) by (rewrite map_length; exact Hll).
  assert (Hokf : forall i, (i < cap)%nat -> (nth i (map fst (links (pd_pl d))) 0 <= 255)%nat).
  { intros i Hic. rewrite nth_map_fst_lget by lia. apply Hok. lia. }
  assert (Hoks : forall i, (i < cap)%nat -> (nth i (map snd (links (pd_pl d))) 0 <= 255)%nat).
  { intros i Hic. rewrite nth_map_snd_lget by lia. apply Hok. lia. }
  pose proof (Hokf idx Hi) as Hpv. pose proof (Hoks idx Hi) as Hnx.
  remember (plan_remove P cap d idx) as R eqn:HR. unfold run, pl_consts, pd_fields at 1, pd_arrays at 1.
  unfold plan_remove, unlink, remove in HR. cbn [pd_with_pl pd_tasks pd_pl] in HR.
  rewrite <- (nth_map_fst_lget _ idx), <- (nth_map_snd_lget _ idx) in HR by lia.
  pl_exec'.
  all: repeat match type of HR with context[if (?a <? ?b)%nat then _ else _] => destruct (Nat.ltb_spec a b); try (exfalso; lia) end.
  all: cbn [fst snd] in HR; fin_pl' R.
Qed.


End PlanRemove.
Print Assumptions src_Plan_remove.
