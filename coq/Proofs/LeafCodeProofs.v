(* BitArrayT<N>::get/set/clear(index) of /repo's current bit_array.inl, as translated (Generated/LeafCode.v), N <= 255: for every capacity, storage content and
   index in range the translated body runs without fault and computes Model/BitArray.v's ba_get / ba_set / ba_clear.  (Whole-array operations and the second
   index class: LeafCodeArrays.v; bit width: LeafCodeBits.v; bit streams: LeafCodeStream.v, LeafCodeWide.v, LeafCodeBuffer.v.) *)
From Coq Require Import List ZArith NArith Bool String Lia ZifyBool.
From FFSM2 Require Import Model.Cxx Model.Bits Model.BitArray Model.BitStream Generated.LeafCode
                          Proofs.BitsProofs Proofs.BitArrayProofs Proofs.BitStreamProofs Proofs.LeafTactics Proofs.LeafConsts.
Import ListNotations.
Local Open Scope string_scope.
Local Open Scope Z_scope.

Theorem src_BitArray_get cap b n : 1 <= cap <= 255 -> Forall (fun x => (x < 256)%N) b -> Z.of_nat (List.length b) = (cap + 7) / 8 -> Z.of_N n < cap ->
  result (run leaf_ftable (ba_consts cap) BitArrayT_13__get_u32 [Z.of_N n] [] [("_storage", zs b)])
  = Some (Some (b2z (ba_get b n)), [], [("_storage", zs b)]).
Proof.
  intros Hcap Hb Hlen Hi. unfold run, ba_consts.
  pose proof (shiftr3 n) as Hs3. pose proof (land7 n) as Hl7.       (* in case the source shifts and masks instead of dividing *)
  sym_exec. rewrite ?shiftr3, ?land7.
  reflexivity.
Qed.

Ltac fin_uset := unfold ba_set, ba_clear, ba_mask; erewrite uset_ext_at; [reflexivity|cbn beta; try reflexivity].

Theorem src_BitArray_set cap b n : 1 <= cap <= 255 -> Forall (fun x => (x < 256)%N) b -> Z.of_nat (List.length b) = (cap + 7) / 8 -> Z.of_N n < cap ->
  result (run leaf_ftable (ba_consts cap) BitArrayT_13__set_u32 [Z.of_N n] [] [("_storage", zs b)])
  = Some (None, [], [("_storage", zs (ba_set b n))]).
Proof.
  intros Hcap Hb Hlen Hi. unfold run, ba_consts.
  pose proof (shiftr3 n) as Hs3. pose proof (land7 n) as Hl7.
  sym_exec. rewrite ?shiftr3, ?land7. fin_uset.
Qed.

Theorem src_BitArray_clear cap b n : 1 <= cap <= 255 -> Forall (fun x => (x < 256)%N) b -> Z.of_nat (List.length b) = (cap + 7) / 8 -> Z.of_N n < cap ->
  result (run leaf_ftable (ba_consts cap) BitArrayT_13__clear_u32 [Z.of_N n] [] [("_storage", zs b)])
  = Some (None, [], [("_storage", zs (ba_clear b n))]).
Proof.
  intros Hcap Hb Hlen Hi. unfold run, ba_consts.
  pose proof (shiftr3 n) as Hs3. pose proof (land7 n) as Hl7.
  sym_exec. rewrite ?shiftr3, ?land7. fin_uset.
  all: try (apply ldiff_byte; pose proof (uget_lt256 b (n / 8) Hb); lia).
Qed.

