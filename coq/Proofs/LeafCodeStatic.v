(* StaticArrayT<uint8_t, N>::fill / clear / empty of /repo's current array.{hpp,inl}, as translated (Generated/LeafCode.v) - the one item type whose filler value is
   not T{} (filler<Short>() = INVALID_SHORT = 255): fill(v) stores v everywhere, clear() is fill(255) (the member call inlined, filler<Item>() followed into its
   specialisation), empty() answers whether every item is 255.  For every capacity and content. *)
From Coq Require Import List ZArith NArith Bool String Lia ZifyBool.
From FFSM2 Require Import Model.Cxx Model.Bits Model.BitArray Model.BitStream Model.Arrays Generated.LeafCode
                          Proofs.BitsProofs Proofs.BitArrayProofs Proofs.BitStreamProofs Proofs.LeafTactics Proofs.LeafLoops.
Import ListNotations.
Local Open Scope string_scope.
Local Open Scope Z_scope.

Definition sa_obj (a : list N) : list (string * list Z) := [("_items", zs a)].
Definition sa_consts (cap : Z) : list (string * Z) := [("NCapacity", cap); ("CAPACITY", cap)].
Definition sa_state (x : Z) (v : Z) (l : list N) : state :=
  {| locals := [("filler", x); ("item#i", v)]; fields := []; arrays := [("_items", zs l)] |}.

Definition sa_state_i (x : Z) (v : Z) (l : list N) : state :=
  {| locals := [("filler", x); ("i", v)]; fields := []; arrays := [("_items", zs l)] |}.

(* the same loop written with an index: Index i = 0; while (i < CAPACITY) { _items[i] = filler; ++i; } (the translator's counting loop over a one-byte counter) *)
Lemma sa_fill_loop_i cap f (x : N) (a : list N) v0 : (x < 256)%N -> 1 <= cap <= 255 -> Z.of_nat (List.length a) = cap ->
  exists v', exec leaf_ftable (sa_consts cap) (S (S f)) (sa_state_i (Z.of_N x) v0 a)
                  (SForRange "i" TU8 (ECast TU8 (EInt 0)) (ECast TS32 (EConst "CAPACITY")) (SSetElem "_items" (EVar "i") (EVar "filler")))
             = ONormal (sa_state_i (Z.of_N x) v' (map (fun _ => x) a)).
Proof.
  intros Hx Hcap Hlen. rewrite exec_forrange. unfold sa_state_i, sa_consts.
  cbn -[exec iter_range Z.of_nat Z.to_nat zs Z.sub Z.ltb Z.div Z.add Z.of_N conv]. repeat conv_step.
  match goal with |- context[if ?c then OFault else _] => replace c with false by (symmetry; cbn; lia) end.
  match goal with |- context[iter_range ?nn ?kk ?bd ?st] =>
    assert (HU : forall k v l, 0 <= k < Z.of_nat (List.length l) ->
                 bd k (sa_state_i (Z.of_N x) v l) = ONormal (sa_state_i (Z.of_N x) k (uset l (Z.to_N k) (fun _ => x))));
    [|destruct (iter_range_upd bd (sa_state_i (Z.of_N x)) (fun _ _ => x) HU nn kk v0 a) as [v' E]] end.
  - intros k v l Hk. unfold sa_state_i. sym_exec. norm_state. reflexivity.
  - lia.
  - lia.
  - exists v'. unfold sa_state_i in E at 1. rewrite E.
    replace (Z.to_nat (cap - 0)) with (List.length a) by lia.
    change (Z.to_N 0) with 0%N. rewrite upd_range_const_all. reflexivity.
Qed.

(* the loop of fill(), shared by fill() and (inlined) by clear() *)
Lemma sa_fill_loop cs f (x : N) (a : list N) v0 : (x < 256)%N -> (Z.of_nat (List.length a) <= 255) ->
  exists v', exec leaf_ftable cs (S (S f)) (sa_state (Z.of_N x) v0 a)
                  (SForRange "item#i" TU64 (EInt 0) (ELen "_items") (SSetElem "_items" (EVar "item#i") (EVar "filler")))
             = ONormal (sa_state (Z.of_N x) v' (map (fun _ => x) a)).
Proof.
  intros Hx Hlen. rewrite exec_forrange. unfold sa_state.
  cbn -[exec iter_range Z.of_nat Z.to_nat zs Z.sub Z.ltb Z.div Z.add Z.of_N]. rewrite zs_length.
  match goal with |- context[if ?c then OFault else _] => replace c with false by (symmetry; lia) end.
  match goal with |- context[iter_range ?nn ?kk ?bd ?st] =>
    assert (HU : forall k v l, 0 <= k < Z.of_nat (List.length l) ->
                 bd k (sa_state (Z.of_N x) v l) = ONormal (sa_state (Z.of_N x) k (uset l (Z.to_N k) (fun _ => x))));
    [|destruct (iter_range_upd bd (sa_state (Z.of_N x)) (fun _ _ => x) HU nn kk v0 a) as [v' E]] end.
  - intros k v l Hk. unfold sa_state. sym_exec. norm_state. reflexivity.
  - lia.
  - lia.
  - exists v'. unfold sa_state in E at 1. rewrite E.
    replace (Z.to_nat (Z.of_nat (Datatypes.length a) - 0)) with (List.length a) by lia.
    change (Z.to_N 0) with 0%N. rewrite upd_range_const_all. reflexivity.
Qed.

Theorem src_StaticArray_fill cap (a : list N) (x : N) : 1 <= cap <= 255 -> Z.of_nat (List.length a) = cap -> (x < 256)%N ->
  result (run leaf_ftable (sa_consts cap) StaticArrayT_u8_5__fill [Z.of_N x] [] (sa_obj a)) = Some (None, [], sa_obj (sa_fill N a x)).
Proof.
  intros Hcap Hlen Hx. unfold run, init_locals, run_fuel, sa_obj.
  cbn [m_body m_params m_locals StaticArrayT_u8_5__fill combine map app].
  change 100%nat with (S (S 98)).
  first [ destruct (sa_fill_loop (sa_consts cap) 98 x a 0 Hx ltac:(lia)) as [v' E]; unfold sa_state in E at 1; rewrite E; reflexivity
        | destruct (sa_fill_loop_i cap 98 x a 0 Hx Hcap Hlen) as [v' E]; unfold sa_state_i in E at 1; rewrite E; reflexivity ].
Qed.

(* clear(): fill(filler<Item>()), and filler<uint8_t>() is 255 *)
Theorem src_StaticArray_clear cap (a : list N) : 1 <= cap <= 255 -> Z.of_nat (List.length a) = cap ->
  result (run leaf_ftable (sa_consts cap) StaticArrayT_u8_5__clear [] [] (sa_obj a)) = Some (None, [], sa_obj (sa_clear N 255%N a)).
Proof.
  intros Hcap Hlen. unfold run, init_locals, run_fuel, sa_obj.
  cbn [m_body m_params m_locals StaticArrayT_u8_5__clear combine map app].
  change 100%nat with (S (S (S 97))). rewrite exec_seq, exec_local.
  cbn -[exec]. norm_state.
  first [ destruct (sa_fill_loop (sa_consts cap) 97 255%N a 0 ltac:(lia) ltac:(lia)) as [v' E]; unfold sa_state in E at 1;
          change (Z.of_N 255) with 255 in E; rewrite E; reflexivity
        | destruct (sa_fill_loop_i cap 97 255%N a 0 ltac:(lia) Hcap Hlen) as [v' E]; unfold sa_state_i in E at 1;
          change (Z.of_N 255) with 255 in E; rewrite E; reflexivity ].
Qed.

(* empty(): every item holds the filler value *)
Theorem src_StaticArray_empty cap (a : list N) : 1 <= cap <= 255 -> Z.of_nat (List.length a) = cap -> Forall (fun x => (x < 256)%N) a ->
  result (run leaf_ftable (sa_consts cap) StaticArrayT_u8_5__empty [] [] (sa_obj a))
  = Some (Some (b2z (forallb (fun x => (x =? 255)%N) a)), [], sa_obj a).
Proof.
  intros Hcap Hlen Ha. unfold run, init_locals, run_fuel, sa_obj.
  cbn [m_body m_params m_locals StaticArrayT_u8_5__empty combine map app].
  change 100%nat with (S (S 98)). rewrite exec_seq.
  (* the loop variable is whatever the source calls it (range-for: a hidden index; counted while: its counter) *)
  lazymatch goal with |- context[SForRange ?v _ _ _ _] =>
    pose (mk := fun (vv : Z) (l : list N) => {| locals := [(v, vv)]; fields := []; arrays := [("_items", zs l)] |}) end.
  rewrite exec_forrange. unfold sa_consts.
  cbn -[exec iter_range Z.of_nat Z.to_nat zs Z.sub Z.ltb Z.div Z.add Z.of_N conv mk]. repeat conv_step. rewrite ?zs_length.
  match goal with |- context[if ?c then OFault else _] => replace c with false by first [symmetry; lia | symmetry; cbn; lia] end.
  match goal with |- context[iter_range ?nn ?kk ?bd ?st] =>
    assert (HF : forall k v, 0 <= k < Z.of_nat (List.length a) ->
                 bd k (mk v a) = if (uget a (Z.to_N k) =? 255)%N then ONormal (mk k a) else OReturn (mk k a) (Some 0));
    [|destruct (iter_range_find1 bd mk (fun _ x => (x =? 255)%N) a HF nn kk 0) as [v' E]] end.
  - intros k v Hk. unfold mk. sym_exec.
    replace (Z.of_N (uget a (Z.to_N k)) =? 255) with (uget a (Z.to_N k) =? 255)%N
      by (destruct (N.eqb_spec (uget a (Z.to_N k)) 255); lia).
    destruct (uget a (Z.to_N k) =? 255)%N; cbn [negb b2z Z.eqb]; norm_state; reflexivity.
  - lia.
  - lia.
  - unfold mk in E at 1. rewrite E. clear E HF.
    match goal with |- context[Z.to_nat (?h - 0)] => replace (Z.to_nat (h - 0)) with (List.length a) by lia end.
    change (Z.to_N 0) with 0%N. pose proof (all_range_forallb (fun x => (x =? 255)%N) a []) as A. cbn [app List.length N.of_nat] in A. rewrite A.
    destruct (forallb (fun x : N => (x =? 255)%N) a); [|reflexivity].
    rewrite exec_return. cbn. reflexivity.
Qed.
Print Assumptions src_StaticArray_fill.
Print Assumptions src_StaticArray_clear.
Print Assumptions src_StaticArray_empty.
