(* TaskListT<void, N>::clear() / emplace(origin, destination) / remove(i) of /repo's current task_list.inl, as translated (Generated/LeafCode.v; the array of items as one
   array per field, prev/next sharing storage with origin/destination as the union in TaskBase says, the placement new as the constructor's member initialisers):
   on every list that satisfies the free-list invariant FL of Proofs/TaskListProofs.v - i.e. every list any sequence of operations reaches (TaskListRun.v) - the
   translated body runs without fault (every index inside the array) and computes Model/TaskList.v's function, for every capacity up to 255. *)
From Coq Require Import List ZArith NArith Bool String Lia ZifyBool Arith.
From FFSM2 Require Import Model.Cxx Model.TaskList Generated.LeafCode Proofs.TaskListProofs Proofs.LeafTactics.
Import ListNotations.
Local Open Scope string_scope.
Local Open Scope Z_scope.

(* ---------- TaskListT<void, N>: clear(), emplace(origin, destination), remove(i) ---------- *)
Definition zn (l : list nat) : list Z := map Z.of_nat l.
Definition tl_consts (cap : nat) : list (string * Z) := [("NCapacity", Z.of_nat cap); ("CAPACITY", Z.of_nat cap); ("INVALID", 255)].
Definition tl_fields {P} (t : tl P) : list (string * Z) :=
  [("_vacantHead", Z.of_nat (t_head t)); ("_vacantTail", Z.of_nat (t_tail t)); ("_last", Z.of_nat (t_last t)); ("_count", Z.of_nat (t_count t))].
(* the array of items as one array per field; prev/next share storage with origin/destination *)
Definition tl_arrays {P} (t : tl P) : list (string * list Z) :=
  [("_items.origin", zn (map s_prev (t_items t))); ("_items.destination", zn (map s_next (t_items t)))].

Lemma nth_z_zn l u : 0 <= u < Z.of_nat (List.length l) -> nth_z (zn l) u = Some (Z.of_nat (nth (Z.to_nat u) l 0%nat)).
Proof.
  intros H. unfold nth_z, zn. destruct (Z.ltb_spec u 0); [lia|].
  rewrite nth_error_map. rewrite (nth_error_nth' l 0%nat) by lia. reflexivity.
Qed.
Fixpoint lset (l : list nat) (i : nat) (v : nat) : list nat :=
  match l, i with [], _ => [] | _ :: t, O => v :: t | h :: t, S j => h :: lset t j v end.
Lemma set_z_zn l u v : 0 <= u < Z.of_nat (List.length l) -> set_z (zn l) u (Z.of_nat v) = Some (zn (lset l (Z.to_nat u) v)).
Proof.
  intros H. unfold set_z, zn. destruct (Z.ltb_spec u 0); [lia|].
  assert (L : (Z.to_nat u < List.length l)%nat) by lia. clear H H0. revert L. generalize (Z.to_nat u) as k.
  induction l as [|h t IH]; intros k L; [cbn in L; lia|].
  destruct k as [|k]; cbn; [reflexivity|]. rewrite IH by (cbn in L; lia). reflexivity.
Qed.
Lemma set_z_zn' l u v : 0 <= u < Z.of_nat (List.length l) -> 0 <= v -> set_z (zn l) u v = Some (zn (lset l (Z.to_nat u) (Z.to_nat v))).
Proof. intros Hu Hv. rewrite <- (Z2Nat.id v Hv) at 1. apply set_z_zn. exact Hu. Qed.
Lemma lset_length l i v : List.length (lset l i v) = List.length l.
Proof. revert i; induction l as [|h t IH]; intros [|i]; cbn; auto. Qed.

Theorem src_TaskList_clear (P : Type) cap (t : tl P) :
  result (run leaf_ftable (tl_consts cap) TaskListT_void_5__clear [] (tl_fields t) (tl_arrays t))
  = Some (None, tl_fields (tl_clear P t), tl_arrays (tl_clear P t)).
Proof. reflexivity. Qed.

Lemma map_field_upd {P} (g : slot P -> nat) (l : list (slot P)) i f : (i < List.length l)%nat ->
  map g (upd P l i f) = lset (map g l) i (g (f (get P l i))).
Proof.
  unfold get. revert i. induction l as [|h t IH]; intros [|i] H; cbn in *; try lia; [reflexivity|].
  f_equal. apply IH. lia.
Qed.
Lemma lset_same l i : lset l i (nth i l 0%nat) = l.
Proof. revert i; induction l as [|h t IH]; intros [|i]; cbn; try reflexivity. f_equal. apply IH. Qed.
Lemma nth_map_get {P} (g : slot P -> nat) (l : list (slot P)) i : (i < List.length l)%nat -> nth i (map g l) 0%nat = g (get P l i).
Proof. intros H. unfold get. rewrite nth_indep with (d' := g (dslot P)) by (rewrite map_length; exact H). apply map_nth. Qed.

(* what remove() needs to stay inside the array (consequences of the free-list invariant FL of Proofs/TaskListProofs.v) *)
Definition remove_pre {P} (cap : nat) (t : tl P) (i : nat) : Prop :=
  (1 <= cap <= 255)%nat /\ List.length (t_items t) = cap /\ (i < cap)%nat /\ (1 <= t_count t <= cap)%nat /\
  (t_head t <= 255)%nat /\ (t_tail t <= 255)%nat /\ (t_last t <= 255)%nat /\ ((t_count t < cap)%nat -> (t_head t < cap)%nat).

Lemma upd_len {P} (l : list (slot P)) i f : List.length (upd P l i f) = List.length l.
Proof. revert i; induction l as [|h t IH]; intros [|i]; cbn; auto. Qed.
(* the model's slot updates, field by field *)
Ltac norm_upd :=
  repeat (rewrite map_field_upd by (rewrite ?upd_len; lia); cbn [s_prev s_next s_pay set_prev set_links];
          repeat match goal with
          | |- context[lset (map ?g ?l) ?i (?g (get _ ?l ?i))] =>
              rewrite <- (nth_map_get g l i) by (rewrite ?upd_len; lia); rewrite lset_same
          end).
Ltac close_tl := repeat (f_equal; try lia).
Ltac fin_tl R :=
  norm_state; rewrite ?Nat2Z.id; subst R; unfold tl_fields, tl_arrays; cbn [t_head t_tail t_last t_count t_items];
  repeat match goal with |- context[Z.to_nat (Z.of_nat ?x + 1)] => replace (Z.to_nat (Z.of_nat x + 1)) with (S x) by lia end;
  change (Pos.to_nat 255) with INVALID; norm_upd; close_tl.

Ltac cond_step :=
  match goal with
  | |- context[if b2z (?a <? ?b) =? 0 then _ else _] => destruct (Z.ltb_spec a b); cbn [b2z Z.eqb]; try (exfalso; lia)
  | |- context[if b2z (negb (?a =? ?b)) =? 0 then _ else _] => destruct (Z.eqb_spec a b); cbn [b2z Z.eqb negb]; try (exfalso; lia)
  end.
(* a condition of any shape (negations, early-return forms): split on the innermost comparison *)
Ltac cond_any :=
  match goal with
  | |- context[if ?c =? 0 then _ else _] =>
      match c with
      | context[(?a <? ?b)] => destruct (Z.ltb_spec a b); cbn [b2z Z.eqb negb]; try (exfalso; lia)
      | context[(?a <=? ?b)] => destruct (Z.leb_spec a b); cbn [b2z Z.eqb negb]; try (exfalso; lia)
      | context[(?a =? ?b)] => lazymatch a with context[b2z] => fail | _ => destruct (Z.eqb_spec a b); cbn [b2z Z.eqb negb]; try (exfalso; lia) end
      end
  end.
Ltac tl_exec :=
  repeat (sym_exec || cond_any || cond_step || (progress rewrite ?Nat2Z.id) || (rewrite nth_map_get by lia) || (rewrite set_z_zn' by (rewrite ?lset_length; lia)) || (rewrite nth_z_zn by (rewrite ?lset_length; lia))).

Theorem src_TaskList_remove {P} cap (t : tl P) i : remove_pre cap t i ->
  result (run leaf_ftable (tl_consts cap) TaskListT_void_5__remove [Z.of_nat i] (tl_fields t) (tl_arrays t))
  = Some (None, tl_fields (remove P cap t i), tl_arrays (remove P cap t i)).
Proof.
  intros (Hcap & Hlen & Hi & Hcnt & Hh & Ht & Hl & Hhd).
  assert (Hlp : List.length (map s_prev (t_items t)) = cap) by (rewrite map_length; exact Hlen).
  assert (Hln : List.length (map s_next (t_items t)) = cap) by (rewrite map_length; exact Hlen).
  remember (remove P cap t i) as R eqn:HR. unfold run, tl_consts, tl_fields at 1, tl_arrays at 1.
  unfold remove in HR. destruct (Nat.ltb_spec (t_count t) cap) as [Hlt|Hge].
  - specialize (Hhd Hlt). tl_exec. norm_state. rewrite ?Nat2Z.id. change (Pos.to_nat 255) with INVALID. subst R.
    unfold tl_fields, tl_arrays. cbn [t_head t_tail t_last t_count t_items].
    norm_upd. close_tl.
  - tl_exec. norm_state. rewrite ?Nat2Z.id. change (Pos.to_nat 255) with INVALID. subst R.
    unfold tl_fields, tl_arrays. cbn [t_head t_tail t_last t_count t_items].
    norm_upd. close_tl.
Qed.

(* what emplace() needs to stay inside the array (consequences of the free-list invariant FL) *)
Definition emplace_pre {P} (cap : nat) (t : tl P) : Prop :=
  (1 <= cap <= 255)%nat /\ List.length (t_items t) = cap /\ (t_count t <= cap)%nat /\
  (t_head t <= 255)%nat /\ (t_tail t <= 255)%nat /\ (t_last t <= 255)%nat /\
  ((t_count t < cap)%nat -> (t_head t < cap)%nat /\ (t_head t <> t_tail t -> (s_next (get P (t_items t) (t_head t)) < cap)%nat)).

Theorem src_TaskList_emplace {P} cap (t : tl P) o d (p : option P) : emplace_pre cap t -> (o <= 255)%nat -> (d <= 255)%nat ->
  result (run leaf_ftable (tl_consts cap) TaskListT_void_5__emplace_u8_u8 [Z.of_nat o; Z.of_nat d] (tl_fields t) (tl_arrays t))
  = let '(t', r) := emplace P cap t o d p in Some (Some (Z.of_nat r), tl_fields t', tl_arrays t').
Proof.
  intros (Hcap & Hlen & Hcnt & Hh & Ht & Hl & Hpre) Ho Hd.
  assert (Hlp : List.length (map s_prev (t_items t)) = cap) by (rewrite map_length; exact Hlen).
  assert (Hln : List.length (map s_next (t_items t)) = cap) by (rewrite map_length; exact Hlen).
  remember (emplace P cap t o d p) as R eqn:HR. unfold run, tl_consts, tl_fields at 1, tl_arrays at 1.
  unfold emplace in HR. destruct (Nat.ltb_spec (t_count t) cap) as [Hlt|Hge].
  - destruct (Hpre Hlt) as [Hhd Hnx].
    destruct (Nat.eqb_spec (t_head t) (t_tail t)) as [Heq|Hne]; cbn [negb] in HR.
    + destruct (Nat.ltb_spec (t_last t) (cap - 1)) as [Hll|Hlg].
      * tl_exec; fin_tl R.
      * tl_exec; fin_tl R.
    + specialize (Hnx Hne). tl_exec; fin_tl R.
  - tl_exec; fin_tl R.
Qed.

(* ---------- the preconditions follow from the free-list invariant that every reachable list satisfies (Proofs/TaskListProofs.v, TaskListRun.v) ---------- *)
Lemma hd_last_bound cap (vac : list nat) : (cap <= 255)%nat -> (forall v, In v vac -> (v < cap)%nat) -> (hd INVALID vac <= 255)%nat /\ (last vac INVALID <= 255)%nat.
Proof.
  intros Hc Hv. split.
  - destruct vac as [|a r]; cbn; [unfold INVALID; lia|]. specialize (Hv a (or_introl eq_refl)). lia.
  - destruct vac as [|a r]; [cbn; unfold INVALID; lia|].
    assert (In (last (a :: r) INVALID) (a :: r)) by (apply (@exists_last nat) with (l := a :: r) in Hc as _ || idtac; destruct (@exists_last nat (a :: r) ltac:(discriminate)) as (l' & x & E); rewrite E, last_last; apply in_or_app; right; left; reflexivity).
    specialize (Hv _ H). lia.
Qed.

Lemma FL_emplace_pre {P} cap (t : tl P) vac occ : FL P cap t vac occ -> emplace_pre cap t.
Proof.
  intros [fl_len0 fl_cap0 fl_last0 fl_nodup0 fl_vac_lt0 fl_chain0 fl_head0 fl_tail0 fl_count0 fl_count_occ0 fl_full0 fl_occ_dom0 fl_occ_nodup0 fl_occ_sub0].
  pose proof (used_le P cap t fl_last0) as HU.
  assert (Hv : forall v, In v vac -> (v < cap)%nat) by (intros v Hin; specialize (fl_vac_lt0 v Hin); lia).
  destruct (hd_last_bound cap vac ltac:(lia) Hv) as [Hh Ht].
  assert (Hne0 : (t_count t < cap)%nat -> vac <> []).
  { intros Hlt E. subst vac. cbn in fl_count0. specialize (fl_full0 eq_refl). unfold used in fl_count0. rewrite fl_full0, Nat.ltb_irrefl in fl_count0. lia. }
  unfold emplace_pre. split; [lia|]. split; [exact fl_len0|]. split; [lia|]. split; [lia|]. split; [lia|]. split; [lia|].
  intros Hlt. specialize (Hne0 Hlt). destruct vac as [|a r]; [contradiction|]. split.
  - rewrite fl_head0. cbn. apply Hv. left. reflexivity.
  - intros Hne. destruct r as [|b r].
    + exfalso. apply Hne. rewrite fl_head0, fl_tail0. reflexivity.
    + rewrite fl_head0. cbn [hd]. cbn [chain] in fl_chain0. destruct fl_chain0 as [E _]. rewrite E. apply Hv. right. left. reflexivity.
Qed.

Lemma FL_remove_pre {P} cap (t : tl P) vac occ i : FL P cap t vac occ -> In i (map fst occ) -> remove_pre cap t i.
Proof.
  intros F Hin. pose proof (FL_emplace_pre cap t vac occ F) as (Hcap & Hlen & Hcnt & Hh & Ht & Hl & Hpre).
  destruct F as [fl_len0 fl_cap0 fl_last0 fl_nodup0 fl_vac_lt0 fl_chain0 fl_head0 fl_tail0 fl_count0 fl_count_occ0 fl_full0 fl_occ_dom0 fl_occ_nodup0 fl_occ_sub0].
  pose proof (used_le P cap t fl_last0) as HU.
  apply in_map_iff in Hin. destruct Hin as [[j s] [Ej Hin]]. cbn in Ej. subst j.
  destruct (fl_occ_sub0 i s Hin) as (Hi & _ & _).
  assert (1 <= t_count t)%nat by (rewrite fl_count_occ0; destruct occ; [destruct Hin|cbn; lia]).
  unfold remove_pre. split; [lia|]. split; [exact fl_len0|]. split; [lia|]. split; [lia|]. split; [lia|]. split; [lia|]. split; [lia|].
  intros Hlt. apply Hpre. exact Hlt.
Qed.

(* emplace and remove of the translated source on any list satisfying the invariant *)
Corollary src_TaskList_emplace_FL (P : Type) cap (t : tl P) vac occ o d (p : option P) : FL P cap t vac occ -> (o <= 255)%nat -> (d <= 255)%nat ->
  result (run leaf_ftable (tl_consts cap) TaskListT_void_5__emplace_u8_u8 [Z.of_nat o; Z.of_nat d] (tl_fields t) (tl_arrays t))
  = let '(t', r) := emplace P cap t o d p in Some (Some (Z.of_nat r), tl_fields t', tl_arrays t').
Proof. intros F. apply src_TaskList_emplace. exact (FL_emplace_pre cap t vac occ F). Qed.
Corollary src_TaskList_remove_FL (P : Type) cap (t : tl P) vac occ i : FL P cap t vac occ -> In i (map fst occ) ->
  result (run leaf_ftable (tl_consts cap) TaskListT_void_5__remove [Z.of_nat i] (tl_fields t) (tl_arrays t))
  = Some (None, tl_fields (remove P cap t i), tl_arrays (remove P cap t i)).
Proof. intros F Hin. apply src_TaskList_remove. exact (FL_remove_pre cap t vac occ i F Hin). Qed.

(* ---------- whole histories: any sequence of emplace / remove / clear, run through the translated bodies ---------- *)
From FFSM2 Require Import Proofs.TaskListRun.
Section Histories.
Variable P : Type.
Variable cap : nat.
Definition tl_obj : Type := (list (string * Z) * list (string * list Z))%type.
Definition obj_of (t : tl P) : tl_obj := (tl_fields t, tl_arrays t).
Definition keep (r : option (option Z * list (string * Z) * list (string * list Z))) : option tl_obj :=
  match r with Some (_, f, a) => Some (f, a) | None => None end.
(* one operation on the object, by running the translated member function; None = the run faulted *)
Definition src_step (ob : tl_obj) (op : tl_op P) : option tl_obj :=
  let '(f, a) := ob in
  match op with
  | OpEmplace _ o d _ => keep (result (run leaf_ftable (tl_consts cap) TaskListT_void_5__emplace_u8_u8 [Z.of_nat o; Z.of_nat d] f a))
  | OpRemove _ i => keep (result (run leaf_ftable (tl_consts cap) TaskListT_void_5__remove [Z.of_nat i] f a))
  | OpClear _ => keep (result (run leaf_ftable (tl_consts cap) TaskListT_void_5__clear [] f a))
  end.
Fixpoint src_run (ob : tl_obj) (ops : list (tl_op P)) : option tl_obj :=
  match ops with
  | [] => Some ob
  | op :: r => match src_step ob op with Some ob' => src_run ob' r | None => None end
  end.
Definition ids_ok (op : tl_op P) : Prop := match op with OpEmplace _ o d _ => (o <= 255 /\ d <= 255)%nat | _ => True end.

Lemma src_run_gen : forall ops t vac occ,
  FL P cap t vac occ -> ops_ok_from P cap ops t (map fst occ) -> Forall ids_ok ops ->
  src_run (obj_of t) ops = Some (obj_of (tl_run P cap ops t)).
Proof.
  induction ops as [|op ops IH]; intros t vac occ F Hok Hids; [reflexivity|].
  inversion Hids as [|? ? Hid Hids']; subst.
  destruct op as [o d p|i|]; cbn [ops_ok_from tl_run fold_left tl_step src_run src_step obj_of] in *.
  - destruct Hid as [Ho Hd].
    rewrite (src_TaskList_emplace_FL P cap t vac occ o d p F Ho Hd).
    destruct (Nat.lt_ge_cases (t_count t) cap) as [Hlt|Hge].
    + destruct (emplace_FL P cap t vac occ o d p F Hlt) as (v0 & rest & Hv & Hs & Hlt0 & Hni & vac' & F').
      destruct (emplace P cap t o d p) as [t' i] eqn:E. cbn [fst snd keep] in *. subst i.
      assert (Hne : (v0 =? INVALID)%nat = false).
      { apply Nat.eqb_neq. pose proof (fl_cap _ _ _ _ _ F). unfold INVALID. lia. }
      rewrite Hne in Hok. apply (IH t' vac' _ F'); assumption.
    + assert (Hc : t_count t = cap).
      { pose proof (fl_count _ _ _ _ _ F). pose proof (fl_last _ _ _ _ _ F). pose proof (fl_count_occ _ _ _ _ _ F).
        pose proof (used_le P cap t H0). lia. }
      rewrite (emplace_full P cap t vac occ o d p F Hc) in *. cbn [fst keep]. rewrite Nat.eqb_refl in Hok.
      apply (IH t vac occ F); assumption.
  - destruct Hok as [Hin Hok].
    rewrite (src_TaskList_remove_FL P cap t vac occ i F Hin). cbn [keep].
    apply (IH _ _ _ (remove_FL P cap t vac occ i F Hin)); [|assumption].
    rewrite map_fst_rem. exact Hok.
  - rewrite (src_TaskList_clear P cap t). cbn [keep].
    apply (IH _ _ _ (clear_FL P cap t vac occ F)); assumption.
Qed.

(* every in-contract history from a freshly constructed list: the translated code never faults and is, object for object, the model's run -
   to which tl_run_FL (the invariant) and emplace_all_spec (no leak, exact capacity) apply *)
Theorem src_TaskList_every_history ops : (1 <= cap <= 255)%nat -> tl_ops_ok P cap ops (tl_init P cap) -> Forall ids_ok ops ->
  src_run (obj_of (tl_init P cap)) ops = Some (obj_of (tl_run P cap ops (tl_init P cap))).
Proof.
  intros Hcap Hok Hids. apply (src_run_gen ops (tl_init P cap) [0%nat] []); [apply init_FL; exact Hcap|exact Hok|exact Hids].
Qed.
End Histories.
