(* The 16- and 32-bit item types of BitWriteStreamT<>::write<W>() / BitReadStreamT<>::read<W>() (W <= 16: uint16_t, W <= 32: uint32_t),
   as translated from /repo's current bit_stream.inl: the same statements as for W <= 8 in Proofs/LeafCodeProofs.v, the proof scripts
   are those of the 8-bit case with the bounds replaced (the translated bodies differ in the types operations are computed at:
   a uint32_t item is shifted at unsigned int and may wrap, the narrower ones are promoted to int). *)
From Coq Require Import List ZArith NArith Bool String Lia ZifyBool.
From FFSM2 Require Import Model.Cxx Model.Bits Model.BitArray Model.BitStream Generated.LeafCode
                          Proofs.BitsProofs Proofs.BitArrayProofs Proofs.BitStreamProofs Proofs.LeafTactics Proofs.LeafCodeStream.
Import ListNotations.
Local Open Scope string_scope.
Local Open Scope Z_scope.

Lemma lor_mod_mod x y k : (8 <= k)%N -> (N.lor x (y mod 2 ^ k) mod 256 = N.lor x y mod 256)%N.
Proof.
  intros Hk. change 256%N with (2 ^ 8)%N. rewrite <- !N.land_ones. rewrite !N.land_lor_distr_l. f_equal.
  rewrite <- N.land_assoc. f_equal. apply N.bits_inj. intro j. rewrite N.land_spec.
  destruct (N.ltb_spec j 8) as [L|G].
  - rewrite !N.ones_spec_low by lia. reflexivity.
  - rewrite (N.ones_spec_high 8) by exact G. apply andb_false_r.
Qed.

(* ---------- write<W>, W <= 16 (item type uint16_t) ---------- *)
Lemma write12_body g cs it0 bw ib w x1 x2 x3 x4 x5 c buf :
  Forall (fun x => (x < 256)%N) buf -> (ib < 65536)%N -> (w < 256)%N -> (c < 256)%N -> (N.to_nat (c / 8) < List.length buf)%nat ->
  exists y1 y2 y3 y4 y5,
  exec leaf_ftable cs (20 + g) (w8_state it0 bw ib w x1 x2 x3 x4 x5 c buf) (loop_body BitWriteStreamT_100__write_12)
  = let '(buf', c', ib', w') := write_chunk buf c ib w in
    ONormal (w8_state it0 bw ib' w' y1 y2 y3 y4 y5 c' buf').
Proof.
  intros Hb Hib Hw Hc Hidx. do 5 eexists. unfold w8_state, write_chunk.
  pose proof (shiftr3 c) as Hs3. pose proof (land7 c) as Hl7.
  sym_exec. norm_state.
  rewrite bset_uset. change 65536%N with (2 ^ 16)%N. change 4294967296%N with (2 ^ 32)%N. rewrite ?lor_mod_mod by lia.
  close_min.
Qed.

Lemma write12_loop : forall k g cs it0 bw ib w x1 x2 x3 x4 x5 c buf,
  (k <= g)%nat -> Forall (fun x => (x < 256)%N) buf -> (ib < 65536)%N -> (w <= N.of_nat k)%N -> (w < 256)%N -> (c < 256)%N ->
  (c + w <= 8 * N.of_nat (List.length buf))%N -> (List.length buf <= 32)%nat ->
  exists y1 y2 y3 y4 y5 ib',
  exec leaf_ftable cs (21 + g) (w8_state it0 bw ib w x1 x2 x3 x4 x5 c buf)
       (SWhile (loop_cond BitWriteStreamT_100__write_12) (loop_body BitWriteStreamT_100__write_12))
  = let '(buf', c') := write_loop k buf c ib w in
    ONormal (w8_state it0 bw ib' 0 y1 y2 y3 y4 y5 c' buf').
Proof.
  induction k as [|k IH]; intros g cs it0 bw ib w x1 x2 x3 x4 x5 c buf Hg Hb Hib Hw Hw8 Hc Hfit Hlen.
  - assert (w = 0%N) by lia. subst w. exists x1, x2, x3, x4, x5, ib.
    change (21 + g)%nat with (S (20 + g)). rewrite exec_while_unfold. reflexivity.
  - destruct (N.eqb_spec w 0) as [->|Hw0].
    + exists x1, x2, x3, x4, x5, ib. change (21 + g)%nat with (S (20 + g)). rewrite exec_while_unfold. reflexivity.
    + destruct g as [|g]; [lia|].
      change (21 + S g)%nat with (S (20 + S g)). rewrite exec_while_unfold.
      assert (Hcond : eval leaf_ftable cs call_depth (w8_state it0 bw ib w x1 x2 x3 x4 x5 c buf) (loop_cond BitWriteStreamT_100__write_12)
                      = Some 1).
      { unfold w8_state. cbn -[conv Z.of_N]. rewrite conv_bool_of_N. destruct (N.eqb_spec w 0); [contradiction|reflexivity]. }
      rewrite Hcond. cbn [Z.eqb].
      destruct (write12_body (S g) cs it0 bw ib w x1 x2 x3 x4 x5 c buf Hb Hib) as (y1 & y2 & y3 & y4 & y5 & E);
        [lia|exact Hc|lia|].
      rewrite E. cbn [write_loop]. rewrite (proj2 (N.eqb_neq w 0) Hw0).
      unfold write_chunk. cbv beta iota zeta.
      pose proof (land7 c) as Hl7. pose proof (N.mod_lt c 8 ltac:(lia)) as Hm8.
      set (cw := N.min (8 - N.land c 7) w) in *.
      assert (Hcw : (1 <= cw <= w /\ cw <= 8)%N) by (unfold cw; lia).
      change (20 + S g)%nat with (21 + g)%nat.
      apply IH.
      * lia.
      * apply Forall_bset; [exact Hb|]. apply N.mod_lt. lia.
      * pose proof (Nshiftr_le ib cw). lia.
      * lia.
      * lia.
      * apply N.mod_lt. lia.
      * rewrite bset_length. destruct (N.ltb_spec (c + cw) 256) as [L|G].
        -- rewrite N.mod_small by exact L. lia.
        -- assert (c + cw = 256)%N by lia. assert (w - cw = 0)%N by lia. replace ((c + cw) mod 256)%N with 0%N by (rewrite H; reflexivity). lia.
      * rewrite bset_length. exact Hlen.
Qed.


Theorem src_write16 W item c buf :
  (1 <= W <= 16)%N -> (item < 65536)%N -> (c < 256)%N -> Forall (fun x => (x < 256)%N) buf ->
  (c + W <= 8 * N.of_nat (List.length buf))%N -> (List.length buf <= 32)%nat ->
  result (run leaf_ftable [("NBitWidth", Z.of_N W)] BitWriteStreamT_100__write_12 [Z.of_N item]
              [("_cursor", Z.of_N c)] [("_buffer._data", zs buf)])
  = let '(buf', c') := write buf c W item in
    Some (None, [("_cursor", Z.of_N c')], [("_buffer._data", zs buf')]).
Proof.
  intros HW Hi Hc Hb Hfit Hlen. unfold run, init_locals, run_fuel.
  cbn [m_body m_params m_locals BitWriteStreamT_100__write_12 combine map app].
  match goal with |- context[SWhile ?c ?b] =>
    change (SWhile c b) with (SWhile (loop_cond BitWriteStreamT_100__write_12) (loop_body BitWriteStreamT_100__write_12)) end.
  remember (SWhile (loop_cond BitWriteStreamT_100__write_12) (loop_body BitWriteStreamT_100__write_12)) as LOOP eqn:HL.
  change 100%nat with (S (S (S (21 + 76)))).
  step_prefix. subst LOOP.
  change 97%nat with (21 + 76)%nat.
  destruct (write12_loop (N.to_nat W) 76 [("NBitWidth", Z.of_N W)] (Z.of_N item) (Z.of_N W) item W 0 0 0 0 0 c buf)
    as (y1 & y2 & y3 & y4 & y5 & ib' & E); try assumption; try lia.
  unfold w8_state in E. rewrite E. unfold write.
  destruct (write_loop (N.to_nat W) buf c item W) as [buf' c']. reflexivity.
Qed.


(* ---------- write<W>, W <= 32 (item type uint32_t) ---------- *)
Lemma write20_body g cs it0 bw ib w x1 x2 x3 x4 x5 c buf :
  Forall (fun x => (x < 256)%N) buf -> (ib < 4294967296)%N -> (w < 256)%N -> (c < 256)%N -> (N.to_nat (c / 8) < List.length buf)%nat ->
  exists y1 y2 y3 y4 y5,
  exec leaf_ftable cs (20 + g) (w8_state it0 bw ib w x1 x2 x3 x4 x5 c buf) (loop_body BitWriteStreamT_100__write_20)
  = let '(buf', c', ib', w') := write_chunk buf c ib w in
    ONormal (w8_state it0 bw ib' w' y1 y2 y3 y4 y5 c' buf').
Proof.
  intros Hb Hib Hw Hc Hidx. do 5 eexists. unfold w8_state, write_chunk.
  pose proof (shiftr3 c) as Hs3. pose proof (land7 c) as Hl7.
  sym_exec. norm_state.
  rewrite bset_uset. change 65536%N with (2 ^ 16)%N. change 4294967296%N with (2 ^ 32)%N. rewrite ?lor_mod_mod by lia.
  close_min.
Qed.

Lemma write20_loop : forall k g cs it0 bw ib w x1 x2 x3 x4 x5 c buf,
  (k <= g)%nat -> Forall (fun x => (x < 256)%N) buf -> (ib < 4294967296)%N -> (w <= N.of_nat k)%N -> (w < 256)%N -> (c < 256)%N ->
  (c + w <= 8 * N.of_nat (List.length buf))%N -> (List.length buf <= 32)%nat ->
  exists y1 y2 y3 y4 y5 ib',
  exec leaf_ftable cs (21 + g) (w8_state it0 bw ib w x1 x2 x3 x4 x5 c buf)
       (SWhile (loop_cond BitWriteStreamT_100__write_20) (loop_body BitWriteStreamT_100__write_20))
  = let '(buf', c') := write_loop k buf c ib w in
    ONormal (w8_state it0 bw ib' 0 y1 y2 y3 y4 y5 c' buf').
Proof.
  induction k as [|k IH]; intros g cs it0 bw ib w x1 x2 x3 x4 x5 c buf Hg Hb Hib Hw Hw8 Hc Hfit Hlen.
  - assert (w = 0%N) by lia. subst w. exists x1, x2, x3, x4, x5, ib.
    change (21 + g)%nat with (S (20 + g)). rewrite exec_while_unfold. reflexivity.
  - destruct (N.eqb_spec w 0) as [->|Hw0].
    + exists x1, x2, x3, x4, x5, ib. change (21 + g)%nat with (S (20 + g)). rewrite exec_while_unfold. reflexivity.
    + destruct g as [|g]; [lia|].
      change (21 + S g)%nat with (S (20 + S g)). rewrite exec_while_unfold.
      assert (Hcond : eval leaf_ftable cs call_depth (w8_state it0 bw ib w x1 x2 x3 x4 x5 c buf) (loop_cond BitWriteStreamT_100__write_20)
                      = Some 1).
      { unfold w8_state. cbn -[conv Z.of_N]. rewrite conv_bool_of_N. destruct (N.eqb_spec w 0); [contradiction|reflexivity]. }
      rewrite Hcond. cbn [Z.eqb].
      destruct (write20_body (S g) cs it0 bw ib w x1 x2 x3 x4 x5 c buf Hb Hib) as (y1 & y2 & y3 & y4 & y5 & E);
        [lia|exact Hc|lia|].
      rewrite E. cbn [write_loop]. rewrite (proj2 (N.eqb_neq w 0) Hw0).
      unfold write_chunk. cbv beta iota zeta.
      pose proof (land7 c) as Hl7. pose proof (N.mod_lt c 8 ltac:(lia)) as Hm8.
      set (cw := N.min (8 - N.land c 7) w) in *.
      assert (Hcw : (1 <= cw <= w /\ cw <= 8)%N) by (unfold cw; lia).
      change (20 + S g)%nat with (21 + g)%nat.
      apply IH.
      * lia.
      * apply Forall_bset; [exact Hb|]. apply N.mod_lt. lia.
      * pose proof (Nshiftr_le ib cw). lia.
      * lia.
      * lia.
      * apply N.mod_lt. lia.
      * rewrite bset_length. destruct (N.ltb_spec (c + cw) 256) as [L|G].
        -- rewrite N.mod_small by exact L. lia.
        -- assert (c + cw = 256)%N by lia. assert (w - cw = 0)%N by lia. replace ((c + cw) mod 256)%N with 0%N by (rewrite H; reflexivity). lia.
      * rewrite bset_length. exact Hlen.
Qed.


Theorem src_write32 W item c buf :
  (1 <= W <= 32)%N -> (item < 4294967296)%N -> (c < 256)%N -> Forall (fun x => (x < 256)%N) buf ->
  (c + W <= 8 * N.of_nat (List.length buf))%N -> (List.length buf <= 32)%nat ->
  result (run leaf_ftable [("NBitWidth", Z.of_N W)] BitWriteStreamT_100__write_20 [Z.of_N item]
              [("_cursor", Z.of_N c)] [("_buffer._data", zs buf)])
  = let '(buf', c') := write buf c W item in
    Some (None, [("_cursor", Z.of_N c')], [("_buffer._data", zs buf')]).
Proof.
  intros HW Hi Hc Hb Hfit Hlen. unfold run, init_locals, run_fuel.
  cbn [m_body m_params m_locals BitWriteStreamT_100__write_20 combine map app].
  match goal with |- context[SWhile ?c ?b] =>
    change (SWhile c b) with (SWhile (loop_cond BitWriteStreamT_100__write_20) (loop_body BitWriteStreamT_100__write_20)) end.
  remember (SWhile (loop_cond BitWriteStreamT_100__write_20) (loop_body BitWriteStreamT_100__write_20)) as LOOP eqn:HL.
  change 100%nat with (S (S (S (21 + 76)))).
  step_prefix. subst LOOP.
  change 97%nat with (21 + 76)%nat.
  destruct (write20_loop (N.to_nat W) 76 [("NBitWidth", Z.of_N W)] (Z.of_N item) (Z.of_N W) item W 0 0 0 0 0 c buf)
    as (y1 & y2 & y3 & y4 & y5 & ib' & E); try assumption; try lia.
  unfold w8_state in E. rewrite E. unfold write.
  destruct (write_loop (N.to_nat W) buf c item W) as [buf' c']. reflexivity.
Qed.


(* ---------- read<W>, W <= 16 (item type uint16_t) ---------- *)
Lemma read12_body g cs bw item icur w x1 x2 x3 x4 x5 x6 x7 c buf :
  Forall (fun x => (x < 256)%N) buf -> (item < 2 ^ icur)%N -> (icur + w <= 16)%N -> (1 <= w)%N -> (c < 256)%N -> (N.to_nat (c / 8) < List.length buf)%nat ->
  exists y1 y2 y3 y4 y5 y6 y7,
  exec leaf_ftable cs (20 + g) (r8_state bw item icur w x1 x2 x3 x4 x5 x6 x7 c buf) (loop_body BitReadStreamT_100__read_12)
  = let '(c', item', icur', w') := read_chunk buf c item icur w in
    ONormal (r8_state bw item' icur' w' y1 y2 y3 y4 y5 y6 y7 c' buf).
Proof.
  intros Hb Hitem Hfit Hw1 Hc Hidx. do 7 eexists. unfold r8_state, read_chunk.
  pose proof (shiftr3 c) as Hs3. pose proof (land7 c) as Hl7.
  pose proof (N.mod_lt c 8 ltac:(lia)) as Hm8.
  set (cw := N.min (8 - N.land c 7) w).
  assert (Hcw : (cw <= w /\ cw <= 8)%N) by (unfold cw; lia).
  assert (Hmask : (1 <= N.shiftl 1 cw <= 256)%N) by (apply (Nshiftl1_range cw 8); lia).
  assert (Hitem8 : (item < 65536)%N).
  { apply N.lt_le_trans with (2 ^ icur)%N; [exact Hitem|]. change 65536%N with (2 ^ 16)%N. apply N.pow_le_mono_r; lia. }
  set (chunk := N.land (N.shiftr (uget buf (N.shiftr c 3)) (N.land c 7)) (N.shiftl 1 cw - 1)).
  assert (Hchunk : (chunk < 2 ^ cw)%N).
  { unfold chunk. pose proof (Nland_range (N.shiftr (uget buf (N.shiftr c 3)) (N.land c 7)) (N.shiftl 1 cw - 1)) as [_ L].
    rewrite N.shiftl_1_l in *. assert (2 ^ cw <> 0)%N by (apply N.pow_nonzero; lia). lia. }
  assert (Hich : (N.shiftl chunk icur < 65536)%N).
  { apply N.lt_le_trans with (2 ^ (cw + icur))%N; [apply Nshiftl_bound; [exact Hchunk|lia]|].
    change 65536%N with (2 ^ 16)%N. apply N.pow_le_mono_r; lia. }
  unfold chunk, cw in *.
  sym_exec. norm_state. close_min.
Qed.

Lemma read12_loop : forall k g cs bw item icur w x1 x2 x3 x4 x5 x6 x7 c buf,
  (k <= g)%nat -> Forall (fun x => (x < 256)%N) buf -> (item < 2 ^ icur)%N -> (icur + w <= 16)%N -> (w <= N.of_nat k)%N -> (c < 256)%N ->
  (c + w <= 8 * N.of_nat (List.length buf))%N -> (List.length buf <= 32)%nat ->
  exists y1 y2 y3 y4 y5 y6 y7 icur',
  exec leaf_ftable cs (21 + g) (r8_state bw item icur w x1 x2 x3 x4 x5 x6 x7 c buf)
       (SWhile (loop_cond BitReadStreamT_100__read_12) (loop_body BitReadStreamT_100__read_12))
  = let '(item', c') := read_loop k buf c item icur w in
    ONormal (r8_state bw item' icur' 0 y1 y2 y3 y4 y5 y6 y7 c' buf).
Proof.
  induction k as [|k IH]; intros g cs bw item icur w x1 x2 x3 x4 x5 x6 x7 c buf Hg Hb Hitem Hfit8 Hw Hc Hfit Hlen.
  - assert (w = 0%N) by lia. subst w. exists x1, x2, x3, x4, x5, x6, x7, icur.
    change (21 + g)%nat with (S (20 + g)). rewrite exec_while_unfold. reflexivity.
  - destruct (N.eqb_spec w 0) as [->|Hw0].
    + exists x1, x2, x3, x4, x5, x6, x7, icur. change (21 + g)%nat with (S (20 + g)). rewrite exec_while_unfold. reflexivity.
    + destruct g as [|g]; [lia|].
      change (21 + S g)%nat with (S (20 + S g)). rewrite exec_while_unfold.
      assert (Hcond : eval leaf_ftable cs call_depth (r8_state bw item icur w x1 x2 x3 x4 x5 x6 x7 c buf) (loop_cond BitReadStreamT_100__read_12)
                      = Some 1).
      { unfold r8_state. cbn -[conv Z.of_N]. rewrite conv_bool_of_N. destruct (N.eqb_spec w 0); [contradiction|reflexivity]. }
      rewrite Hcond. cbn [Z.eqb].
      destruct (read12_body (S g) cs bw item icur w x1 x2 x3 x4 x5 x6 x7 c buf Hb Hitem Hfit8 ltac:(lia) Hc) as (y1 & y2 & y3 & y4 & y5 & y6 & y7 & E); [lia|].
      rewrite E. cbn [read_loop]. rewrite (proj2 (N.eqb_neq w 0) Hw0).
      unfold read_chunk. cbv beta iota zeta.
      pose proof (land7 c) as Hl7. pose proof (N.mod_lt c 8 ltac:(lia)) as Hm8.
      set (cw := N.min (8 - N.land c 7) w) in *.
      assert (Hcw : (1 <= cw <= w /\ cw <= 8)%N) by (unfold cw; lia).
      change (20 + S g)%nat with (21 + g)%nat.
      apply IH.
      * lia.
      * exact Hb.
      * (* the accumulated item stays below 2^(icur + cw) *)
        set (chunk := N.land (N.shiftr (bget buf (N.shiftr c 3)) (N.land c 7)) (N.shiftl 1 cw - 1)).
        assert (Hchunk : (chunk < 2 ^ cw)%N).
        { unfold chunk. pose proof (Nland_range (N.shiftr (bget buf (N.shiftr c 3)) (N.land c 7)) (N.shiftl 1 cw - 1)) as [_ L].
          rewrite N.shiftl_1_l in *. assert (2 ^ cw <> 0)%N by (apply N.pow_nonzero; lia). lia. }
        replace (icur + cw)%N with (cw + icur)%N by lia.
        apply Nlor_lt_pow2.
        -- apply N.lt_le_trans with (2 ^ icur)%N; [exact Hitem|apply N.pow_le_mono_r; lia].
        -- apply Nshiftl_bound; [exact Hchunk|lia].
      * lia.
      * lia.
      * apply N.mod_lt. lia.
      * destruct (N.ltb_spec (c + cw) 256) as [L|G].
        -- rewrite N.mod_small by exact L. lia.
        -- assert (c + cw = 256)%N by lia. assert (w - cw = 0)%N by lia. replace ((c + cw) mod 256)%N with 0%N by (rewrite H; reflexivity). lia.
      * exact Hlen.
Qed.

Theorem src_read16 W c buf :
  (1 <= W <= 16)%N -> (c < 256)%N -> Forall (fun x => (x < 256)%N) buf ->
  (c + W <= 8 * N.of_nat (List.length buf))%N -> (List.length buf <= 32)%nat ->
  result (run leaf_ftable (width_const W) BitReadStreamT_100__read_12 [] (cursor_fld c) (stream_obj buf))
  = let '(v, c') := read buf c W in Some (Some (Z.of_N v), cursor_fld c', stream_obj buf).
Proof.
  intros HW Hc Hb Hfit Hlen. unfold run, init_locals, run_fuel, width_const, cursor_fld, stream_obj.
  cbn [m_body m_params m_locals BitReadStreamT_100__read_12 combine map app].
  match goal with |- context[SWhile ?c ?b] =>
    change (SWhile c b) with (SWhile (loop_cond BitReadStreamT_100__read_12) (loop_body BitReadStreamT_100__read_12)) end.
  remember (SWhile (loop_cond BitReadStreamT_100__read_12) (loop_body BitReadStreamT_100__read_12)) as LOOP eqn:HL.
  repeat (rewrite exec_seq || rewrite exec_local
          || (progress cbn -[exec conv arith Z.shiftr Z.shiftl Z.land Z.lor Z.lxor Z.lnot Z.quot Z.rem Z.div Z.modulo Z.pow nth_z set_z zs Z.of_N Z.add Z.sub Z.opp Z.mul])
          || conv_step); norm_state.
  subst LOOP. change 96%nat with (21 + 75)%nat.
  destruct (read12_loop (N.to_nat W) 75 [("NBitWidth", Z.of_N W)] (Z.of_N W) 0 0 W 0 0 0 0 0 0 0 c buf)
    as (y1 & y2 & y3 & y4 & y5 & y6 & y7 & icur' & E); try assumption; try lia.
  unfold r8_state in E. change (Z.of_N 0) with 0 in E. rewrite E. unfold read.
  destruct (read_loop (N.to_nat W) buf c 0 0 W) as [v c'].
  rewrite exec_return. cbn. reflexivity.
Qed.



(* ---------- read<W>, W <= 32 (item type uint32_t) ---------- *)
Lemma read20_body g cs bw item icur w x1 x2 x3 x4 x5 x6 x7 c buf :
  Forall (fun x => (x < 256)%N) buf -> (item < 2 ^ icur)%N -> (icur + w <= 32)%N -> (1 <= w)%N -> (c < 256)%N -> (N.to_nat (c / 8) < List.length buf)%nat ->
  exists y1 y2 y3 y4 y5 y6 y7,
  exec leaf_ftable cs (20 + g) (r8_state bw item icur w x1 x2 x3 x4 x5 x6 x7 c buf) (loop_body BitReadStreamT_100__read_20)
  = let '(c', item', icur', w') := read_chunk buf c item icur w in
    ONormal (r8_state bw item' icur' w' y1 y2 y3 y4 y5 y6 y7 c' buf).
Proof.
  intros Hb Hitem Hfit Hw1 Hc Hidx. do 7 eexists. unfold r8_state, read_chunk.
  pose proof (shiftr3 c) as Hs3. pose proof (land7 c) as Hl7.
  pose proof (N.mod_lt c 8 ltac:(lia)) as Hm8.
  set (cw := N.min (8 - N.land c 7) w).
  assert (Hcw : (cw <= w /\ cw <= 8)%N) by (unfold cw; lia).
  assert (Hmask : (1 <= N.shiftl 1 cw <= 256)%N) by (apply (Nshiftl1_range cw 8); lia).
  assert (Hitem8 : (item < 4294967296)%N).
  { apply N.lt_le_trans with (2 ^ icur)%N; [exact Hitem|]. change 4294967296%N with (2 ^ 32)%N. apply N.pow_le_mono_r; lia. }
  set (chunk := N.land (N.shiftr (uget buf (N.shiftr c 3)) (N.land c 7)) (N.shiftl 1 cw - 1)).
  assert (Hchunk : (chunk < 2 ^ cw)%N).
  { unfold chunk. pose proof (Nland_range (N.shiftr (uget buf (N.shiftr c 3)) (N.land c 7)) (N.shiftl 1 cw - 1)) as [_ L].
    rewrite N.shiftl_1_l in *. assert (2 ^ cw <> 0)%N by (apply N.pow_nonzero; lia). lia. }
  assert (Hich : (N.shiftl chunk icur < 4294967296)%N).
  { apply N.lt_le_trans with (2 ^ (cw + icur))%N; [apply Nshiftl_bound; [exact Hchunk|lia]|].
    change 4294967296%N with (2 ^ 32)%N. apply N.pow_le_mono_r; lia. }
  unfold chunk, cw in *.
  sym_exec. norm_state. close_min.
Qed.

Lemma read20_loop : forall k g cs bw item icur w x1 x2 x3 x4 x5 x6 x7 c buf,
  (k <= g)%nat -> Forall (fun x => (x < 256)%N) buf -> (item < 2 ^ icur)%N -> (icur + w <= 32)%N -> (w <= N.of_nat k)%N -> (c < 256)%N ->
  (c + w <= 8 * N.of_nat (List.length buf))%N -> (List.length buf <= 32)%nat ->
  exists y1 y2 y3 y4 y5 y6 y7 icur',
  exec leaf_ftable cs (21 + g) (r8_state bw item icur w x1 x2 x3 x4 x5 x6 x7 c buf)
       (SWhile (loop_cond BitReadStreamT_100__read_20) (loop_body BitReadStreamT_100__read_20))
  = let '(item', c') := read_loop k buf c item icur w in
    ONormal (r8_state bw item' icur' 0 y1 y2 y3 y4 y5 y6 y7 c' buf).
Proof.
  induction k as [|k IH]; intros g cs bw item icur w x1 x2 x3 x4 x5 x6 x7 c buf Hg Hb Hitem Hfit8 Hw Hc Hfit Hlen.
  - assert (w = 0%N) by lia. subst w. exists x1, x2, x3, x4, x5, x6, x7, icur.
    change (21 + g)%nat with (S (20 + g)). rewrite exec_while_unfold. reflexivity.
  - destruct (N.eqb_spec w 0) as [->|Hw0].
    + exists x1, x2, x3, x4, x5, x6, x7, icur. change (21 + g)%nat with (S (20 + g)). rewrite exec_while_unfold. reflexivity.
    + destruct g as [|g]; [lia|].
      change (21 + S g)%nat with (S (20 + S g)). rewrite exec_while_unfold.
      assert (Hcond : eval leaf_ftable cs call_depth (r8_state bw item icur w x1 x2 x3 x4 x5 x6 x7 c buf) (loop_cond BitReadStreamT_100__read_20)
                      = Some 1).
      { unfold r8_state. cbn -[conv Z.of_N]. rewrite conv_bool_of_N. destruct (N.eqb_spec w 0); [contradiction|reflexivity]. }
      rewrite Hcond. cbn [Z.eqb].
      destruct (read20_body (S g) cs bw item icur w x1 x2 x3 x4 x5 x6 x7 c buf Hb Hitem Hfit8 ltac:(lia) Hc) as (y1 & y2 & y3 & y4 & y5 & y6 & y7 & E); [lia|].
      rewrite E. cbn [read_loop]. rewrite (proj2 (N.eqb_neq w 0) Hw0).
      unfold read_chunk. cbv beta iota zeta.
      pose proof (land7 c) as Hl7. pose proof (N.mod_lt c 8 ltac:(lia)) as Hm8.
      set (cw := N.min (8 - N.land c 7) w) in *.
      assert (Hcw : (1 <= cw <= w /\ cw <= 8)%N) by (unfold cw; lia).
      change (20 + S g)%nat with (21 + g)%nat.
      apply IH.
      * lia.
      * exact Hb.
      * (* the accumulated item stays below 2^(icur + cw) *)
        set (chunk := N.land (N.shiftr (bget buf (N.shiftr c 3)) (N.land c 7)) (N.shiftl 1 cw - 1)).
        assert (Hchunk : (chunk < 2 ^ cw)%N).
        { unfold chunk. pose proof (Nland_range (N.shiftr (bget buf (N.shiftr c 3)) (N.land c 7)) (N.shiftl 1 cw - 1)) as [_ L].
          rewrite N.shiftl_1_l in *. assert (2 ^ cw <> 0)%N by (apply N.pow_nonzero; lia). lia. }
        replace (icur + cw)%N with (cw + icur)%N by lia.
        apply Nlor_lt_pow2.
        -- apply N.lt_le_trans with (2 ^ icur)%N; [exact Hitem|apply N.pow_le_mono_r; lia].
        -- apply Nshiftl_bound; [exact Hchunk|lia].
      * lia.
      * lia.
      * apply N.mod_lt. lia.
      * destruct (N.ltb_spec (c + cw) 256) as [L|G].
        -- rewrite N.mod_small by exact L. lia.
        -- assert (c + cw = 256)%N by lia. assert (w - cw = 0)%N by lia. replace ((c + cw) mod 256)%N with 0%N by (rewrite H; reflexivity). lia.
      * exact Hlen.
Qed.

Theorem src_read32 W c buf :
  (1 <= W <= 32)%N -> (c < 256)%N -> Forall (fun x => (x < 256)%N) buf ->
  (c + W <= 8 * N.of_nat (List.length buf))%N -> (List.length buf <= 32)%nat ->
  result (run leaf_ftable (width_const W) BitReadStreamT_100__read_20 [] (cursor_fld c) (stream_obj buf))
  = let '(v, c') := read buf c W in Some (Some (Z.of_N v), cursor_fld c', stream_obj buf).
Proof.
  intros HW Hc Hb Hfit Hlen. unfold run, init_locals, run_fuel, width_const, cursor_fld, stream_obj.
  cbn [m_body m_params m_locals BitReadStreamT_100__read_20 combine map app].
  match goal with |- context[SWhile ?c ?b] =>
    change (SWhile c b) with (SWhile (loop_cond BitReadStreamT_100__read_20) (loop_body BitReadStreamT_100__read_20)) end.
  remember (SWhile (loop_cond BitReadStreamT_100__read_20) (loop_body BitReadStreamT_100__read_20)) as LOOP eqn:HL.
  repeat (rewrite exec_seq || rewrite exec_local
          || (progress cbn -[exec conv arith Z.shiftr Z.shiftl Z.land Z.lor Z.lxor Z.lnot Z.quot Z.rem Z.div Z.modulo Z.pow nth_z set_z zs Z.of_N Z.add Z.sub Z.opp Z.mul])
          || conv_step); norm_state.
  subst LOOP. change 96%nat with (21 + 75)%nat.
  destruct (read20_loop (N.to_nat W) 75 [("NBitWidth", Z.of_N W)] (Z.of_N W) 0 0 W 0 0 0 0 0 0 0 c buf)
    as (y1 & y2 & y3 & y4 & y5 & y6 & y7 & icur' & E); try assumption; try lia.
  unfold r8_state in E. change (Z.of_N 0) with 0 in E. rewrite E. unfold read.
  destruct (read_loop (N.to_nat W) buf c 0 0 W) as [v c'].
  rewrite exec_return. cbn. reflexivity.
Qed.


