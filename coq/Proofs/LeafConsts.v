(* The part of the source tie that the machine-level models rest on (C08, C09, C12): the static constants of BitArrayT<N>
   and contain(), as translated from /repo's current source (Generated/LeafCode.v), are the model's - UNIT_COUNT = ceil(N / 8) for
   every N up to 255.  Kept apart from Proofs/LeafCodeProofs.v (the function bodies) so that a rewrite of a function body does not
   touch the obligations of properties that only depend on these constants. *)
From Coq Require Import List ZArith NArith Bool String Lia ZifyBool.
From FFSM2 Require Import Model.Cxx Model.Bits Model.BitArray Model.BitStream Generated.LeafCode
                          Proofs.BitsProofs Proofs.BitArrayProofs Proofs.BitStreamProofs Proofs.LeafTactics.
Import ListNotations.
Local Open Scope string_scope.
Local Open Scope Z_scope.

Definition ba_consts (cap : Z) : list (string * Z) :=
  [("NCapacity", cap); ("CAPACITY", cap); ("UNIT_COUNT", (cap + 7) / 8)].
Definition ba_consts_defs := BitArrayT_13_consts.
Definition ncapacity (cap : Z) : list (string * Z) := [("NCapacity", cap)].
Definition contain_u8_fn : string := "contain_u8_s32".

(* ---------- the static constants of BitArrayT<N>: CAPACITY = N, UNIT_COUNT = contain(N, 8) = ceil(N / 8), for every N up to 255 ---------- *)
Theorem src_BitArray_consts cap : 1 <= cap <= 255 ->
  build_consts leaf_ftable ba_consts_defs (ncapacity cap) = Some (ba_consts cap).
Proof.
  intros Hcap. unfold build_consts, ba_consts_defs, BitArrayT_13_consts, ba_consts, ncapacity.
  sym_exec.
  rewrite Z.quot_div_nonneg by lia.
  replace (cap + 8 - 1) with (cap + 7) by lia. reflexivity.
Qed.

(* contain(x, to) of utility.hpp at the instantiation BitArrayT and StreamBufferT use *)
Theorem src_contain_u8 x t : 0 <= x <= 255 -> 1 <= t <= 255 ->
  call2 leaf_ftable contain_u8_fn x t = Some ((x + t - 1) / t).
Proof.
  intros Hx Ht. unfold call2, contain_u8_fn.
  assert (0 <= (x + t - 1) / t) by (apply Z.div_pos; lia).
  assert ((x + t - 1) / t <= 255) by (apply Z.div_le_upper_bound; [lia|nia]).
  assert (Hq : (x + t - 1) ÷ t = (x + t - 1) / t) by (apply Z.quot_div_nonneg; lia).
  sym_exec.
  destruct (Z.eqb_spec t 0) as [E|_]; [lia|]. cbn [bind]. rewrite Hq, conv_u8 by lia. reflexivity.
Qed.
