(* More fuel never changes a result: if a run ends with anything but "out of fuel", the same run with more fuel ends the same way.  (Expressions are evaluated
   with the fixed call depth, so only statements consume fuel.) *)
From Coq Require Import List ZArith Bool String Lia.
From FFSM2 Require Import Model.Cxx.
Import ListNotations.

Lemma iter_range_mono (b1 b2 : Z -> state -> outcome) :
  (forall k st o, b1 k st = o -> o <> OFuel -> b2 k st = o) ->
  forall n k st o, iter_range n k b1 st = o -> o <> OFuel -> iter_range n k b2 st = o.
Proof.
  intros H. induction n as [|n IH]; intros k st o E Ho; cbn [iter_range] in *; [exact E|].
  destruct (b1 k st) as [st'| | |] eqn:E1.
  - rewrite (H k st _ E1 ltac:(discriminate)). apply IH; assumption.
  - rewrite (H k st _ E1 ltac:(discriminate)). exact E.
  - rewrite (H k st _ E1 ltac:(discriminate)). exact E.
  - subst o. contradiction.
Qed.

(* one-step unfoldings (each checked on its own; the proof below only rewrites with them) *)
Lemma ex_skip ft cs f st : exec ft cs (S f) st SSkip = ONormal st. Proof. reflexivity. Qed.
Lemma ex_seq ft cs f st a b : exec ft cs (S f) st (SSeq a b) = match exec ft cs f st a with ONormal st' => exec ft cs f st' b | o => o end. Proof. reflexivity. Qed.
Lemma ex_local ft cs f st x e :
  exec ft cs (S f) st (SLocal x e) = match eval ft cs call_depth st e with Some v => ONormal (set_local st x v) | None => OFault end. Proof. reflexivity. Qed.
Lemma ex_setfield ft cs f st x e :
  exec ft cs (S f) st (SSetField x e) = match eval ft cs call_depth st e with Some v => ONormal (set_field st x v) | None => OFault end. Proof. reflexivity. Qed.
Lemma ex_setelem ft cs f st a i e :
  exec ft cs (S f) st (SSetElem a i e) =
  match eval ft cs call_depth st i, eval ft cs call_depth st e, lookup a (arrays st) with
  | Some iz, Some v, Some l => match set_z l iz v with Some l' => ONormal (set_array st a l') | None => OFault end
  | _, _, _ => OFault
  end. Proof. reflexivity. Qed.
Lemma ex_return ft cs f st e :
  exec ft cs (S f) st (SReturn e) = match eval ft cs call_depth st e with Some v => OReturn st (Some v) | None => OFault end. Proof. reflexivity. Qed.
Lemma ex_returnvoid ft cs f st : exec ft cs (S f) st SReturnVoid = OReturn st None. Proof. reflexivity. Qed.
Lemma ex_if ft cs f st c a b :
  exec ft cs (S f) st (SIf c a b) = match eval ft cs call_depth st c with Some cz => if (cz =? 0)%Z then exec ft cs f st b else exec ft cs f st a | None => OFault end.
Proof. reflexivity. Qed.
Lemma ex_while ft cs f st c b :
  exec ft cs (S f) st (SWhile c b) =
  match eval ft cs call_depth st c with
  | Some cz => if (cz =? 0)%Z then ONormal st else match exec ft cs f st b with ONormal st' => exec ft cs f st' (SWhile c b) | o => o end
  | None => OFault
  end.
Proof. reflexivity. Qed.
Lemma ex_for ft cs f st i t lo hi b :
  exec ft cs (S f) st (SForRange i t lo hi b) =
  match eval ft cs call_depth st lo, eval ft cs call_depth st hi with
  | Some lz, Some hz => if ((tmax t <? hz) || (lz <? tmin t))%Z then OFault
                        else iter_range (Z.to_nat (hz - lz)) lz (fun k st' => exec ft cs f (set_local st' i k) b) st
  | _, _ => OFault
  end.
Proof. reflexivity. Qed.

Lemma exec_fuel_mono ft cs : forall f st s o, exec ft cs f st s = o -> o <> OFuel -> forall n, exec ft cs (f + n) st s = o.
Proof.
  induction f as [|f IH]; intros st s o E Ho n.
  - destruct s; (change (OFuel = o) in E; subst o; contradiction).
  - change (S f + n)%nat with (S (f + n)). destruct s.
    + rewrite ex_skip in *. exact E.
    + rewrite ex_seq in *. destruct (exec ft cs f st s1) as [st'| | |] eqn:E1.
      * rewrite (IH st s1 _ E1 ltac:(discriminate) n). apply IH; assumption.
      * rewrite (IH st s1 _ E1 ltac:(discriminate) n). exact E.
      * rewrite (IH st s1 _ E1 ltac:(discriminate) n). exact E.
      * subst o. contradiction.
    + rewrite ex_local in *. exact E.
    + rewrite ex_setfield in *. exact E.
    + rewrite ex_setelem in *. exact E.
    + rewrite ex_if in *. destruct (eval ft cs call_depth st c) as [cz|]; [|exact E]. destruct (cz =? 0)%Z; apply IH; assumption.
    + rewrite ex_while in *. destruct (eval ft cs call_depth st c) as [cz|]; [|exact E]. destruct (cz =? 0)%Z; [exact E|].
      destruct (exec ft cs f st s) as [st'| | |] eqn:E1.
      * rewrite (IH st s _ E1 ltac:(discriminate) n). apply IH; assumption.
      * rewrite (IH st s _ E1 ltac:(discriminate) n). exact E.
      * rewrite (IH st s _ E1 ltac:(discriminate) n). exact E.
      * subst o. contradiction.
    + rewrite ex_for in *. destruct (eval ft cs call_depth st lo) as [lz|]; [|exact E]. destruct (eval ft cs call_depth st hi) as [hz|]; [|exact E].
      destruct ((tmax t <? hz) || (lz <? tmin t))%Z; [exact E|].
      apply (iter_range_mono (fun k st' => exec ft cs f (set_local st' i k) s)); [|exact E|exact Ho].
      intros k st0 o0 E0 Ho0. apply IH; assumption.
    + rewrite ex_return in *. exact E.
    + rewrite ex_returnvoid in *. exact E.
Qed.
Print Assumptions exec_fuel_mono.
