(* Generic facts about counting loops of the interpreter of Model/Cxx.v over an array of bytes: a loop whose k-th iteration rewrites element k,
   a loop that returns at the first element failing a test.  No statement about the code here. *)
From Coq Require Import List ZArith NArith Bool String Lia ZifyBool.
From FFSM2 Require Import Model.Cxx Model.Bits Model.BitArray Model.BitStream
                          Proofs.BitsProofs Proofs.BitArrayProofs Proofs.BitStreamProofs Proofs.LeafTactics.
Import ListNotations.
Local Open Scope string_scope.
Local Open Scope Z_scope.

(* ---------- counting loops over an array of bytes ---------- *)
Lemma exec_forrange ft cs f st i t lo hi b :
  exec ft cs (S f) st (SForRange i t lo hi b) =
  match eval ft cs call_depth st lo, eval ft cs call_depth st hi with
  | Some lz, Some hz =>
      if (tmax t <? hz) || (lz <? tmin t) then OFault
      else iter_range (Z.to_nat (hz - lz)) lz (fun k st' => exec ft cs f (set_local st' i k) b) st
  | _, _ => OFault
  end.
Proof. reflexivity. Qed.

Section Loops.
Variable body : Z -> state -> outcome.
Variable mk : Z -> list N -> state.

(* a loop whose k-th iteration rewrites element k *)
Variable g : N -> N -> N.
Fixpoint upd_range (l : list N) (k : N) (n : nat) : list N :=
  match n with O => l | S n' => upd_range (uset l k (g k)) (k + 1) n' end.

Hypothesis Hupd : forall k v l, 0 <= k < Z.of_nat (List.length l) ->
  body k (mk v l) = ONormal (mk k (uset l (Z.to_N k) (g (Z.to_N k)))).

Lemma iter_range_upd : forall n k v l, 0 <= k -> k + Z.of_nat n <= Z.of_nat (List.length l) ->
  exists v', iter_range n k body (mk v l) = ONormal (mk v' (upd_range l (Z.to_N k) n)).
Proof.
  induction n as [|n IH]; intros k v l Hk Hfit; cbn [iter_range upd_range]; [exists v; reflexivity|].
  rewrite Hupd by lia.
  destruct (IH (k + 1) k (uset l (Z.to_N k) (g (Z.to_N k)))) as [v' E]; [lia|rewrite uset_length; lia|].
  exists v'. rewrite E. replace (Z.to_N (k + 1)) with (Z.to_N k + 1)%N by lia. reflexivity.
Qed.

Lemma upd_range_length : forall n l k, List.length (upd_range l k n) = List.length l.
Proof. induction n as [|n IH]; intros l k; cbn [upd_range]; [reflexivity|]. rewrite IH, uset_length. reflexivity. Qed.

Lemma upd_range_get : forall n l k j, (N.to_nat k + n <= List.length l)%nat ->
  uget (upd_range l k n) j = if ((k <=? j) && (j <? k + N.of_nat n))%N then g j (uget l j) else uget l j.
Proof.
  induction n as [|n IH]; intros l k j Hfit; cbn [upd_range].
  - destruct (N.leb_spec k j); destruct (N.ltb_spec j (k + N.of_nat 0)); cbn; try reflexivity; lia.
  - rewrite IH by (rewrite uset_length; lia).
    destruct (N.eq_dec j k) as [->|Hne].
    + rewrite uget_uset_same by lia.
      destruct (N.leb_spec (k + 1) k); [lia|]. cbn [andb].
      destruct (N.leb_spec k k); [|lia]. destruct (N.ltb_spec k (k + N.of_nat (S n))); [|lia]. reflexivity.
    + rewrite uget_uset_other by (intro; apply Hne; symmetry; assumption).
      destruct (N.leb_spec (k + 1) j); destruct (N.leb_spec k j); destruct (N.ltb_spec j (k + 1 + N.of_nat n)); destruct (N.ltb_spec j (k + N.of_nat (S n))); cbn; try reflexivity; lia.
Qed.

(* a loop that leaves the array alone and returns 0 at the first element that fails a test *)
Variable p : N -> N -> bool.
Hypothesis Hfind : forall k v l, 0 <= k < Z.of_nat (List.length l) ->
  body k (mk v l) = if p (Z.to_N k) (uget l (Z.to_N k)) then ONormal (mk k l) else OReturn (mk k l) (Some 0).

Fixpoint all_range (l : list N) (k : N) (n : nat) : bool :=
  match n with O => true | S n' => p k (uget l k) && all_range l (k + 1) n' end.

Lemma iter_range_find : forall n k v l, 0 <= k -> k + Z.of_nat n <= Z.of_nat (List.length l) ->
  exists v', iter_range n k body (mk v l) = if all_range l (Z.to_N k) n then ONormal (mk v' l) else OReturn (mk v' l) (Some 0).
Proof.
  induction n as [|n IH]; intros k v l Hk Hfit; cbn [iter_range all_range]; [exists v; reflexivity|].
  rewrite Hfind by lia. destruct (p (Z.to_N k) (uget l (Z.to_N k))); cbn [andb]; [|exists k; reflexivity].
  destruct (IH (k + 1) k l) as [v' E]; [lia|lia|]. exists v'. rewrite E.
  replace (Z.to_N (k + 1)) with (Z.to_N k + 1)%N by lia. reflexivity.
Qed.
End Loops.

Section Loops2.
Variable body : Z -> state -> outcome.
Variable mk : Z -> list N -> state.
Variable p : N -> N -> bool.
Variable l : list N.
Hypothesis Hfind : forall k v, 0 <= k < Z.of_nat (List.length l) ->
  body k (mk v l) = if p (Z.to_N k) (uget l (Z.to_N k)) then ONormal (mk k l) else OReturn (mk k l) (Some 0).
Lemma iter_range_find1 : forall n k v, 0 <= k -> k + Z.of_nat n <= Z.of_nat (List.length l) ->
  exists v', iter_range n k body (mk v l) = if all_range p l (Z.to_N k) n then ONormal (mk v' l) else OReturn (mk v' l) (Some 0).
Proof.
  induction n as [|n IH]; intros k v Hk Hfit; cbn [iter_range all_range]; [exists v; reflexivity|].
  rewrite Hfind by lia. destruct (p (Z.to_N k) (uget l (Z.to_N k))); cbn [andb]; [|exists k; reflexivity].
  destruct (IH (k + 1) k) as [v' E]; [lia|lia|]. exists v'. rewrite E.
  replace (Z.to_N (k + 1)) with (Z.to_N k + 1)%N by lia. reflexivity.
Qed.

End Loops2.

Section Loops3.
Variable body : Z -> state -> outcome.
Variable mk : Z -> list N -> state.
Variable g : N -> N -> N.
Variable Inv : list N -> Prop.
Hypothesis Hpres : forall k x, Inv x -> Inv (uset x k (g k)).
Hypothesis Hupd : forall k v x, Inv x -> 0 <= k < Z.of_nat (List.length x) ->
  body k (mk v x) = ONormal (mk k (uset x (Z.to_N k) (g (Z.to_N k)))).
Lemma iter_range_upd_inv : forall n k v x, Inv x -> 0 <= k -> k + Z.of_nat n <= Z.of_nat (List.length x) ->
  exists v', iter_range n k body (mk v x) = ONormal (mk v' (upd_range g x (Z.to_N k) n)).
Proof.
  induction n as [|n IH]; intros k v x Hi Hk Hfit; cbn [iter_range upd_range]; [exists v; reflexivity|].
  rewrite Hupd by (assumption || lia).
  destruct (IH (k + 1) k (uset x (Z.to_N k) (g (Z.to_N k)))) as [v' E]; [apply Hpres; exact Hi|lia|rewrite uset_length; lia|].
  exists v'. rewrite E. replace (Z.to_N (k + 1)) with (Z.to_N k + 1)%N by lia. reflexivity.
Qed.
End Loops3.

Definition ba_state (ix : string) (v : Z) (l : list N) : state :=
  {| locals := [(ix, v)]; fields := []; arrays := [("_storage", zs l)] |}.

Lemma zs_length l : List.length (zs l) = List.length l.
Proof. apply map_length. Qed.

Lemma uget_map_c (c : N) (l : list N) u : (N.to_nat u < List.length l)%nat -> uget (map (fun _ => c) l) u = c.
Proof.
  intros H. unfold uget. generalize dependent (N.to_nat u). clear u.
  induction l as [|h t IH]; intros k H; [cbn in H; lia|]. destruct k as [|k]; [reflexivity|]. cbn. apply IH. cbn in H. lia.
Qed.

Lemma upd_range_const_all c l : upd_range (fun _ _ => c) l 0 (List.length l) = map (fun _ => c) l.
Proof.
  apply nth_ext with (d := 0%N) (d' := 0%N); [rewrite upd_range_length, map_length; reflexivity|].
  intros j Hj. rewrite upd_range_length in Hj.
  assert (E : forall x : list N, nth j x 0%N = uget x (N.of_nat j)) by (intro x; unfold uget; rewrite Nat2N.id; reflexivity).
  rewrite !E. rewrite upd_range_get by (cbn; lia).
  destruct (N.leb_spec 0 (N.of_nat j)); [|lia]. destruct (N.ltb_spec (N.of_nat j) (0 + N.of_nat (Datatypes.length l))); [|lia]. cbn [andb].
  rewrite uget_map_c by (rewrite Nat2N.id; exact Hj). reflexivity.
Qed.


Lemma all_range_forallb (q : N -> bool) : forall l pre,
  all_range (fun _ x => q x) (pre ++ l)%list (N.of_nat (List.length pre)) (List.length l) = forallb q l.
Proof.
  induction l as [|h t IH]; intros pre; cbn [all_range forallb List.length]; [reflexivity|].
  unfold uget at 1. rewrite Nat2N.id, app_nth2 by lia. rewrite Nat.sub_diag. cbn [nth]. f_equal.
  replace (pre ++ h :: t)%list with ((pre ++ [h]) ++ t)%list by (rewrite <- app_assoc; reflexivity).
  replace (N.of_nat (Datatypes.length pre) + 1)%N with (N.of_nat (Datatypes.length (pre ++ [h])%list)) by (rewrite app_length; cbn; lia).
  apply IH.
Qed.


Section FindLoop.
Variable body : Z -> state -> outcome.
Variable mk : Z -> list N -> state.
Variable p : N -> N -> bool.
Variable r : Z.
Variable l : list N.
Hypothesis Hfind : forall k v, 0 <= k < Z.of_nat (List.length l) ->
  body k (mk v l) = if p (Z.to_N k) (uget l (Z.to_N k)) then ONormal (mk k l) else OReturn (mk k l) (Some r).
Lemma iter_range_find_r : forall n k v, 0 <= k -> k + Z.of_nat n <= Z.of_nat (List.length l) ->
  exists v', iter_range n k body (mk v l) = if all_range p l (Z.to_N k) n then ONormal (mk v' l) else OReturn (mk v' l) (Some r).
Proof.
  induction n as [|n IH]; intros k v Hk Hfit; cbn [iter_range all_range]; [exists v; reflexivity|].
  rewrite Hfind by lia. destruct (p (Z.to_N k) (uget l (Z.to_N k))); cbn [andb]; [|exists k; reflexivity].
  destruct (IH (k + 1) k) as [v' E]; [lia|lia|]. exists v'. rewrite E.
  replace (Z.to_N (k + 1)) with (Z.to_N k + 1)%N by lia. reflexivity.
Qed.
End FindLoop.

