(* Lemmas and tactics for running translated function bodies (Generated/LeafCode.v) symbolically in the interpreter of
   Model/Cxx.v: removal of conversions whose operand is in range, lifting of Z expressions over Z.of_N back to N, facts lia
   does not know (ranges of bitwise operations and shifts), array access on lists of bytes.  No statement about the code here. *)
From Coq Require Import List ZArith NArith Bool String Lia ZifyBool.
From FFSM2 Require Import Model.Cxx Model.Bits Model.BitArray Model.BitStream
                          Proofs.BitsProofs Proofs.BitArrayProofs Proofs.BitStreamProofs.
Import ListNotations.
Local Open Scope string_scope.
Local Open Scope Z_scope.
(* ---------- symbolic execution of translated bodies ---------- *)

Lemma conv_id t z : t <> TBool -> tmin t <= z <= tmax t -> conv t z = z.
Proof.
  intros Ht H. destruct t; try congruence; unfold conv, tmin, tmax in *; cbn [signed bits] in *;
  cbn -[Z.modulo Z.div Z.ltb] in *.
  all: try (rewrite Z.mod_small by lia; reflexivity).
  all: match goal with |- context[?a <? ?b] => destruct (Z.ltb_spec a b) end; lia.
Qed.
Lemma arith_ok t z : t <> TBool -> tmin t <= z <= tmax t -> arith t z = Some z.
Proof.
  intros Ht H. destruct t; try congruence; unfold arith, tmin, tmax in *; cbn [signed bits] in *; cbn -[Z.modulo Z.leb] in *.
  all: try (rewrite Z.mod_small by lia; reflexivity).
  all: repeat match goal with |- context[?a <=? ?b] => destruct (Z.leb_spec a b) end; cbn; try reflexivity; lia.
Qed.

Definition result (o : outcome) : option (option Z * list (string * Z) * list (string * list Z)) :=
  match o with
  | ONormal st => Some (None, fields st, arrays st)
  | OReturn st v => Some (v, fields st, arrays st)
  | _ => None
  end.

Definition zs (b : list N) : list Z := map Z.of_N b.

(* names used by the translation (access paths of data members, template parameters, instantiation names) *)
Definition ba_obj (b : list N) : list (string * list Z) := [("_storage", zs b)].
Definition stream_obj (buf : list N) : list (string * list Z) := [("_buffer._data", zs buf)].
Definition cursor_fld (c : N) : list (string * Z) := [("_cursor", Z.of_N c)].
Definition width_const (W : N) : list (string * Z) := [("NBitWidth", Z.of_N W)].
Definition bitWidth_fn : string := "bitWidth_u32".



Ltac Zify.zify_post_hook ::= Z.to_euclidean_division_equations.

Lemma pow2_range k n : 0 <= k <= n -> 1 <= 2 ^ k <= 2 ^ n.
Proof. intros H. split; [assert (0 < 2 ^ k) by (apply Z.pow_pos_nonneg; lia); lia|apply Z.pow_le_mono_r; lia]. Qed.

Lemma Zland_of_N x y : Z.land (Z.of_N x) (Z.of_N y) = Z.of_N (N.land x y).
Proof. destruct x, y; reflexivity. Qed.
Lemma Zlor_of_N x y : Z.lor (Z.of_N x) (Z.of_N y) = Z.of_N (N.lor x y).
Proof. destruct x, y; reflexivity. Qed.
Lemma Zlxor_of_N x y : Z.lxor (Z.of_N x) (Z.of_N y) = Z.of_N (N.lxor x y).
Proof. destruct x, y; reflexivity. Qed.
Lemma Zshiftl_of_N x k : Z.shiftl (Z.of_N x) (Z.of_N k) = Z.of_N (N.shiftl x k).
Proof. rewrite Z.shiftl_mul_pow2 by lia. rewrite N.shiftl_mul_pow2, N2Z.inj_mul, N2Z.inj_pow. reflexivity. Qed.
Lemma Zshiftr_of_N x k : Z.shiftr (Z.of_N x) (Z.of_N k) = Z.of_N (N.shiftr x k).
Proof. rewrite Z.shiftr_div_pow2 by lia. rewrite N.shiftr_div_pow2, N2Z.inj_div, N2Z.inj_pow. reflexivity. Qed.

Lemma Nland_le x y : (N.land x y <= x)%N.
Proof.
  apply N.ldiff_le. apply N.bits_inj. intro j.
  rewrite N.ldiff_spec, N.land_spec, N.bits_0. destruct (N.testbit x j), (N.testbit y j); reflexivity.
Qed.
Lemma land_range a b : 0 <= a -> 0 <= b -> 0 <= Z.land a b <= a.
Proof.
  intros Ha Hb. rewrite <- (Z2N.id a Ha), <- (Z2N.id b Hb), Zland_of_N.
  pose proof (Nland_le (Z.to_N a) (Z.to_N b)). lia.
Qed.

Lemma conv_u8 z : 0 <= z <= 255 -> conv TU8 z = z.  Proof. intro H. apply conv_id; [discriminate|exact H]. Qed.
Lemma conv_u16 z : 0 <= z <= 65535 -> conv TU16 z = z.  Proof. intro H. apply conv_id; [discriminate|exact H]. Qed.
Lemma conv_u32 z : 0 <= z <= 4294967295 -> conv TU32 z = z.  Proof. intro H. apply conv_id; [discriminate|exact H]. Qed.
Lemma conv_u64 z : 0 <= z <= 18446744073709551615 -> conv TU64 z = z.  Proof. intro H. apply conv_id; [discriminate|exact H]. Qed.
Lemma conv_s32 z : -2147483648 <= z <= 2147483647 -> conv TS32 z = z.  Proof. intro H. apply conv_id; [discriminate|exact H]. Qed.
Lemma arith_s32 z : -2147483648 <= z <= 2147483647 -> arith TS32 z = Some z.  Proof. intro H. apply arith_ok; [discriminate|exact H]. Qed.
Lemma arith_u32 z : 0 <= z <= 4294967295 -> arith TU32 z = Some z.  Proof. intro H. apply arith_ok; [discriminate|exact H]. Qed.
Lemma arith_u8 z : 0 <= z <= 255 -> arith TU8 z = Some z.  Proof. intro H. apply arith_ok; [discriminate|exact H]. Qed.
Lemma arith_u64 z : 0 <= z <= 18446744073709551615 -> arith TU64 z = Some z.  Proof. intro H. apply arith_ok; [discriminate|exact H]. Qed.

Lemma uget_lt256 b u : Forall (fun x => (x < 256)%N) b -> 0 <= Z.of_N (uget b u) <= 255.
Proof.
  intros H. unfold uget. destruct (nth_in_or_default (N.to_nat u) b 0%N) as [I|E]; [|rewrite E; lia].
  rewrite Forall_forall in H. specialize (H _ I). lia.
Qed.

Lemma Nlor_lt_pow2 a b w : (a < 2 ^ w -> b < 2 ^ w -> N.lor a b < 2 ^ w)%N.
Proof.
  intros Ha Hb. destruct (N.eq_dec w 0) as [->|Hw].
  { cbn in *. assert (a = 0%N) by lia. assert (b = 0%N) by lia. subst. cbn. lia. }
  destruct (N.eq_dec (N.lor a b) 0) as [->|Hn]; [apply N.neq_0_lt_0, N.pow_nonzero; lia|].
  apply N.log2_lt_pow2; [lia|]. rewrite N.log2_lor. apply N.max_lub_lt.
  - destruct (N.eq_dec a 0) as [->|Ha0]; [cbn; lia|]. apply N.log2_lt_pow2; [lia|exact Ha].
  - destruct (N.eq_dec b 0) as [->|Hb0]; [cbn; lia|]. apply N.log2_lt_pow2; [lia|exact Hb].
Qed.
Lemma Nlxor_lt_pow2 a b w : (a < 2 ^ w -> b < 2 ^ w -> N.lxor a b < 2 ^ w)%N.
Proof.
  intros Ha Hb. destruct (N.eq_dec w 0) as [->|Hw].
  { cbn in *. assert (a = 0%N) by lia. assert (b = 0%N) by lia. subst. cbn. lia. }
  destruct (N.eq_dec (N.lxor a b) 0) as [->|Hn]; [apply N.neq_0_lt_0, N.pow_nonzero; lia|].
  apply N.log2_lt_pow2; [lia|]. eapply N.le_lt_trans; [apply N.log2_lxor|]. apply N.max_lub_lt.
  - destruct (N.eq_dec a 0) as [->|Ha0]; [cbn; lia|]. apply N.log2_lt_pow2; [lia|exact Ha].
  - destruct (N.eq_dec b 0) as [->|Hb0]; [cbn; lia|]. apply N.log2_lt_pow2; [lia|exact Hb].
Qed.
Lemma Nlxor_lt256 a b : (a < 256 -> b < 256 -> N.lxor a b < 256)%N.
Proof. exact (Nlxor_lt_pow2 a b 8). Qed.
Lemma Nlor_lt256 a b : (a < 256 -> b < 256 -> N.lor a b < 256)%N.
Proof. exact (Nlor_lt_pow2 a b 8). Qed.
Lemma Nlor_lt65536 a b : (a < 65536 -> b < 65536 -> N.lor a b < 65536)%N.
Proof. exact (Nlor_lt_pow2 a b 16). Qed.
Lemma Nlor_lt4294967296 a b : (a < 4294967296 -> b < 4294967296 -> N.lor a b < 4294967296)%N.
Proof. exact (Nlor_lt_pow2 a b 32). Qed.
Lemma Npow2_range k n : (k <= n -> 1 <= 2 ^ k <= 2 ^ n)%N.
Proof. intros H. split; [assert (2 ^ k <> 0)%N by (apply N.pow_nonzero; lia); lia|apply N.pow_le_mono_r; lia]. Qed.
Lemma Nshiftl1_range k n : (k <= n -> 1 <= N.shiftl 1 k <= 2 ^ n)%N.
Proof. rewrite N.shiftl_1_l. apply Npow2_range. Qed.
Lemma Nshiftl_bound a k p q : (a < 2 ^ p -> k <= q -> N.shiftl a k < 2 ^ (p + q))%N.
Proof.
  intros Ha Hk. rewrite N.shiftl_mul_pow2, N.pow_add_r.
  assert (2 ^ k <= 2 ^ q)%N by (apply N.pow_le_mono_r; lia).
  assert (0 < 2 ^ k)%N by (apply N.neq_0_lt_0, N.pow_nonzero; lia).
  apply N.lt_le_trans with (2 ^ p * 2 ^ k)%N; [apply N.mul_lt_mono_pos_r; assumption|apply N.mul_le_mono_l; assumption].
Qed.
Lemma Nshiftr_le a k : (N.shiftr a k <= a)%N.
Proof. rewrite N.shiftr_div_pow2. apply N.div_le_upper_bound; [apply N.pow_nonzero; lia|]. 
  assert (1 <= 2 ^ k)%N by (assert (2 ^ k <> 0)%N by (apply N.pow_nonzero; lia); lia). nia. Qed.
Lemma Nland_range a b : (N.land a b <= a /\ N.land a b <= b)%N.
Proof. split; [apply Nland_le|rewrite N.land_comm; apply Nland_le]. Qed.

Lemma Zlnot_eq a : Z.lnot a = - a - 1.  Proof. unfold Z.lnot. lia. Qed.
Lemma Nldiff_range a b : (N.ldiff a b <= a)%N.
Proof.
  apply N.ldiff_le. apply N.bits_inj. intro j. rewrite !N.ldiff_spec, N.bits_0.
  destruct (N.testbit a j), (N.testbit b j); reflexivity.
Qed.
Lemma Zland_lnot_of_N x m : Z.land (Z.of_N x) (Z.lnot (Z.of_N m)) = Z.of_N (N.ldiff x m).
Proof. rewrite <- Z.ldiff_land. destruct x, m; reflexivity. Qed.
(* _storage[unit] &= ~mask on a byte: the model writes it as  x & (255 ^ mask) *)
Lemma ldiff_byte x m : (x < 256)%N -> N.ldiff x m = N.land x (N.lxor 255 m).
Proof.
  intros Hx. apply N.bits_inj. intro j. rewrite N.ldiff_spec, N.land_spec, N.lxor_spec.
  destruct (N.ltb_spec j 8) as [L|G].
  - replace (N.testbit 255 j) with true; [destruct (N.testbit x j), (N.testbit m j); reflexivity|].
    symmetry. change 255%N with (N.ones 8). apply N.ones_spec_low. exact L.
  - replace (N.testbit x j) with false; [reflexivity|]. symmetry.
    destruct (N.eq_dec x 0) as [->|Hn]; [apply N.bits_0|]. apply N.bits_above_log2.
    apply N.lt_le_trans with 8%N; [|exact G]. apply N.log2_lt_pow2; [lia|exact Hx].
Qed.

Ltac is_zconst z := match z with Z0 => idtac | Zpos _ => idtac | Zneg _ => idtac end.

(* facts lia cannot derive by itself: ranges of bitwise and, of powers of two with a bounded exponent *)
Ltac pose_facts :=
  repeat match goal with
  | |- context[Z.land ?a ?b] =>
      lazymatch goal with H : 0 <= Z.land a b <= a |- _ => fail | _ => idtac end;
      pose proof (land_range a b ltac:(lia) ltac:(lia))
  | H : Forall (fun x => (x < 256)%N) ?b |- context[uget ?b ?u] =>
      lazymatch goal with H' : 0 <= Z.of_N (uget b u) <= 255 |- _ => fail | _ => idtac end;
      pose proof (uget_lt256 b u H)
  | |- context[N.shiftr ?a ?k] =>
      lazymatch goal with H : (N.shiftr a k <= a)%N |- _ => fail | _ => idtac end;
      pose proof (Nshiftr_le a k)
  | |- context[N.shiftl ?a ?k] =>
      lazymatch a with 1%N => fail | _ => idtac end;
      lazymatch goal with H : (N.shiftl a k < _)%N |- _ => fail | _ => idtac end;
      first [ pose proof (Nshiftl_bound a k 8 7 ltac:(lia) ltac:(lia)) | pose proof (Nshiftl_bound a k 16 7 ltac:(lia) ltac:(lia))
            | pose proof (Nshiftl_bound a k 8 15 ltac:(lia) ltac:(lia)) | pose proof (Nshiftl_bound a k 16 15 ltac:(lia) ltac:(lia)) ]
  | |- context[N.shiftl 1 ?k] =>
      lazymatch goal with H : (1 <= N.shiftl 1 k <= _)%N |- _ => fail | _ => idtac end;
      first [ pose proof (Nshiftl1_range k 7 ltac:(lia)) | pose proof (Nshiftl1_range k 15 ltac:(lia)) | pose proof (Nshiftl1_range k 31 ltac:(lia)) ]
  | |- context[N.land ?a ?b] =>
      lazymatch goal with H : (N.land a b <= a /\ _)%N |- _ => fail | _ => idtac end;
      pose proof (Nland_range a b)
  | |- context[N.ldiff ?a ?b] =>
      lazymatch goal with H : (N.ldiff a b <= a)%N |- _ => fail | _ => idtac end;
      pose proof (Nldiff_range a b)
  | |- context[N.lxor ?a ?b] =>
      lazymatch goal with H : (N.lxor a b < _)%N |- _ => fail | _ => idtac end;
      pose proof (Nlxor_lt256 a b ltac:(lia) ltac:(lia))
  | |- context[N.lor ?a ?b] =>
      lazymatch goal with H : (N.lor a b < _)%N |- _ => fail | _ => idtac end;
      first [ pose proof (Nlor_lt256 a b ltac:(lia) ltac:(lia)) | pose proof (Nlor_lt65536 a b ltac:(lia) ltac:(lia)) | pose proof (Nlor_lt4294967296 a b ltac:(lia) ltac:(lia)) ]
  | |- context[2 ^ ?k] =>
      tryif is_zconst k then fail else idtac;
      lazymatch goal with H : 1 <= 2 ^ k <= _ |- _ => fail | _ => idtac end;
      first [ pose proof (pow2_range k 7 ltac:(lia)) | pose proof (pow2_range k 15 ltac:(lia)) | pose proof (pow2_range k 31 ltac:(lia)) ]
  end.
Ltac rng := rewrite ?Zlnot_eq; rewrite ?Z.shiftl_1_l; rewrite ?Z.shiftl_mul_pow2, ?Z.shiftr_div_pow2 by lia; pose_facts; lia.

Ltac conv_step :=
  match goal with
  | |- context[conv ?t ?z] =>
      lazymatch z with context[conv _ _] => fail | _ => idtac end;
      first [ rewrite (conv_u8 z) by rng | rewrite (conv_s32 z) by rng | rewrite (conv_u16 z) by rng
            | rewrite (conv_u32 z) by rng | rewrite (conv_u64 z) by rng ]
  | |- context[arith ?t ?z] =>
      lazymatch z with context[conv _ _] => fail | _ => idtac end;
      first [ rewrite (arith_s32 z) by rng | rewrite (arith_u32 z) by rng | rewrite (arith_u8 z) by rng | rewrite (arith_u64 z) by rng ]
  end.

Lemma nth_z_zs b u : 0 <= u < Z.of_nat (List.length b) -> nth_z (zs b) u = Some (Z.of_N (uget b (Z.to_N u))).
Proof.
  intros H. unfold nth_z, zs, uget. destruct (Z.ltb_spec u 0); [lia|].
  rewrite Z_N_nat. rewrite nth_error_map.
  rewrite (nth_error_nth' b 0%N) by lia. reflexivity.
Qed.

Lemma Zquot_of_N_pos a p : Z.of_N a ÷ Zpos p = Z.of_N (a / Npos p).
Proof. rewrite N2Z.inj_quot. reflexivity. Qed.
Lemma Zrem_of_N_pos a p : Z.rem (Z.of_N a) (Zpos p) = Z.of_N (a mod Npos p).
Proof. rewrite N2Z.inj_rem. reflexivity. Qed.
Lemma Zdiv_of_N_pos a p : Z.of_N a / Zpos p = Z.of_N (a / Npos p).
Proof. rewrite N2Z.inj_div. reflexivity. Qed.
Lemma Zmod_of_N_pos a p : (Z.of_N a) mod (Zpos p) = Z.of_N (a mod Npos p).
Proof. rewrite N2Z.inj_mod. reflexivity. Qed.
Lemma Zshiftl_pos_of_N p k : Z.shiftl (Zpos p) (Z.of_N k) = Z.of_N (N.shiftl (Npos p) k).
Proof. exact (Zshiftl_of_N (Npos p) k). Qed.
Lemma Zshiftr_of_N_pos a p : Z.shiftr (Z.of_N a) (Zpos p) = Z.of_N (N.shiftr a (Npos p)).
Proof. exact (Zshiftr_of_N a (Npos p)). Qed.
Lemma Zland_of_N_pos a p : Z.land (Z.of_N a) (Zpos p) = Z.of_N (N.land a (Npos p)).
Proof. exact (Zland_of_N a (Npos p)). Qed.
Lemma of_N_eqb0 a : (Z.of_N a =? 0) = (a =? 0)%N.
Proof. destruct a; reflexivity. Qed.
Lemma of_N_eqb a b : (Z.of_N a =? Z.of_N b) = (a =? b)%N.
Proof. destruct (N.eqb_spec a b) as [->|E]; [apply Z.eqb_refl|apply Z.eqb_neq; lia]. Qed.

Lemma Zsub_pos_of_N p s : (s <= Npos p)%N -> Zpos p - Z.of_N s = Z.of_N (Npos p - s).
Proof. intros H. rewrite N2Z.inj_sub by exact H. reflexivity. Qed.
Lemma Zsub_of_N a b : (b <= a)%N -> Z.of_N a - Z.of_N b = Z.of_N (a - b).
Proof. intros H. rewrite N2Z.inj_sub by exact H. reflexivity. Qed.
Lemma Zsub_of_N_pos a p : (Npos p <= a)%N -> Z.of_N a - Zpos p = Z.of_N (a - Npos p).
Proof. intros H. rewrite N2Z.inj_sub by exact H. reflexivity. Qed.
Lemma Zadd_of_N a b : Z.of_N a + Z.of_N b = Z.of_N (a + b).
Proof. rewrite N2Z.inj_add. reflexivity. Qed.
Lemma min_of_N a b : (if b2z (Z.of_N a <? Z.of_N b) =? 0 then Z.of_N b else Z.of_N a) = Z.of_N (N.min a b).
Proof. destruct (Z.ltb_spec (Z.of_N a) (Z.of_N b)); cbn; f_equal; lia. Qed.
Lemma min_of_N_opt a b : (if b2z (Z.of_N a <? Z.of_N b) =? 0 then Some (Z.of_N b) else Some (Z.of_N a)) = Some (Z.of_N (N.min a b)).
Proof. destruct (Z.ltb_spec (Z.of_N a) (Z.of_N b)); cbn; do 2 f_equal; lia. Qed.
Lemma conv_u8_of_N x : conv TU8 (Z.of_N x) = Z.of_N (x mod 256).
Proof. rewrite N2Z.inj_mod. reflexivity. Qed.
Lemma conv_u16_of_N x : conv TU16 (Z.of_N x) = Z.of_N (x mod 65536).
Proof. rewrite N2Z.inj_mod. reflexivity. Qed.
Lemma conv_u32_of_N x : conv TU32 (Z.of_N x) = Z.of_N (x mod 4294967296).
Proof. rewrite N2Z.inj_mod. reflexivity. Qed.
Lemma arith_u32_of_N x : arith TU32 (Z.of_N x) = Some (Z.of_N (x mod 4294967296)).
Proof. rewrite N2Z.inj_mod. reflexivity. Qed.
Lemma conv_bool_of_N x : conv TBool (Z.of_N x) = b2z (negb (x =? 0)%N).
Proof. destruct x; reflexivity. Qed.

Ltac liftN :=
  rewrite ?Zadd_of_N, ?conv_bool_of_N, ?Zland_lnot_of_N, ?Zquot_of_N_pos, ?Zrem_of_N_pos, ?Zdiv_of_N_pos, ?Zmod_of_N_pos, ?Zshiftl_pos_of_N, ?Zshiftr_of_N_pos, ?Zland_of_N_pos,
          ?Zland_of_N, ?Zlor_of_N, ?Zlxor_of_N, ?Zshiftl_of_N, ?Zshiftr_of_N, ?N2Z.id, ?of_N_eqb0, ?of_N_eqb.

Lemma set_z_zs b u v : 0 <= u < Z.of_nat (List.length b) ->
  set_z (zs b) u (Z.of_N v) = Some (zs (uset b (Z.to_N u) (fun _ => v))).
Proof.
  intros H. unfold set_z, zs, uset. destruct (Z.ltb_spec u 0); [lia|]. rewrite Z_N_nat.
  assert (L : (Z.to_nat u < List.length b)%nat) by lia. clear H H0. revert L. generalize (Z.to_nat u) as k. 
  induction b as [|h t IH]; intros k L; [cbn in L; lia|].
  destruct k as [|k]; cbn; [reflexivity|]. rewrite IH by (cbn in L; lia). reflexivity.
Qed.
Lemma uset_ext_at b u f g : f (uget b u) = g (uget b u) -> uset b u f = uset b u g.
Proof.
  unfold uset, uget. generalize (N.to_nat u) as k. induction b as [|h t IH]; intros k E; [reflexivity|].
  destruct k as [|k]; cbn in *; [rewrite E; reflexivity|]. rewrite (IH k E). reflexivity.
Qed.

(* static_cast<uint8_t>(~mask) for a one-byte mask *)
Lemma conv_u8_lnot_of_N m : (m < 256)%N -> conv TU8 (Z.lnot (Z.of_N m)) = Z.of_N (N.lxor 255 m).
Proof.
  intros Hm.
  assert (E : N.lxor 255 m = (255 - m)%N).
  { (* a finite fact: all 256 masks *)
    assert (A : forallb (fun k => (N.lxor 255 (N.of_nat k) =? 255 - N.of_nat k)%N) (seq 0 256) = true) by (vm_compute; reflexivity).
    rewrite forallb_forall in A. specialize (A (N.to_nat m)). rewrite N2Nat.id in A.
    apply N.eqb_eq, A, in_seq. lia. }
  rewrite E. unfold conv. cbn -[Z.modulo Z.lnot Z.of_N N.sub]. rewrite Zlnot_eq.
  rewrite N2Z.inj_sub by lia. change (Z.of_N 255) with 255.
  replace (- Z.of_N m - 1) with (255 - Z.of_N m + (-1) * 256) by lia.
  rewrite Z.mod_add by lia. apply Z.mod_small. lia.
Qed.

Ltac sub_step :=
  match goal with
  | |- context[Zpos ?p - Z.of_N ?s] => rewrite (Zsub_pos_of_N p s) by rng
  | |- context[Z.of_N ?a - Z.of_N ?b] => rewrite (Zsub_of_N a b) by rng
  | |- context[Z.of_N ?a - Zpos ?p] => rewrite (Zsub_of_N_pos a p) by rng
  end.
Ltac wrap_step :=
  match goal with
  | |- context[conv TU8 (Z.lnot (Z.of_N ?m))] => rewrite (conv_u8_lnot_of_N m) by rng
  | |- context[conv TU8 (Z.of_N ?x)] => rewrite (conv_u8_of_N x)
  | |- context[conv TU16 (Z.of_N ?x)] => rewrite (conv_u16_of_N x)
  | |- context[conv TU32 (Z.of_N ?x)] => rewrite (conv_u32_of_N x)
  | |- context[arith TU32 (Z.of_N ?x)] => rewrite (arith_u32_of_N x)
  end.

(* a conditional that selects the smaller of two values, however the comparison is written *)
Ltac min_step :=
  match goal with
  | |- context[if b2z ?c =? 0 then Some (Z.of_N ?x) else Some (Z.of_N ?y)] =>
      (* N.min is written with a variable operand last, whichever way round the source compares: facts stated about the minimum then apply to both forms *)
      let m := match y with
               | _ => let _ := match goal with _ => is_var y end in constr:(N.min x y)
               | _ => constr:(N.min y x)
               end in
      replace (if b2z c =? 0 then Some (Z.of_N x) else Some (Z.of_N y)) with (Some (Z.of_N m))
        by (symmetry; repeat match goal with |- context[?a <? ?b] => destruct (Z.ltb_spec a b) | |- context[?a <=? ?b] => destruct (Z.leb_spec a b) end; cbn [b2z Z.eqb negb]; f_equal; f_equal; lia)
  end.

Ltac close_min := first [ reflexivity | match goal with |- context[N.min ?a ?b] => rewrite (N.min_comm a b) end; reflexivity ].

Ltac guard_step :=
  match goal with
  | |- context[(?a <? 0) || (?n <=? ?a)] => replace ((a <? 0) || (n <=? a)) with false by (symmetry; rng)
  | |- context[if ?a <? 0 then None else _] => replace (a <? 0) with false by (symmetry; rng)
  end.

Ltac sym_exec :=
  repeat (progress cbn -[conv arith Z.shiftr Z.shiftl Z.land Z.lor Z.lxor Z.lnot Z.quot Z.rem Z.div Z.modulo Z.pow nth_z set_z zs Z.of_N N.shiftl N.shiftr N.land N.lor N.lxor N.ldiff N.div N.modulo N.pow N.sub N.add N.min N.mul bget bset Z.add Z.sub Z.opp Z.mul]
          || conv_step || guard_step || min_step || (progress liftN) || sub_step || wrap_step
          || (rewrite nth_z_zs by rng) || (rewrite set_z_zs by rng)).

(* the state after a run, with the updates carried out *)
Ltac norm_state := cbv [set_local set_field set_array update locals fields arrays String.eqb Ascii.eqb Bool.eqb].

(* ---------- one-step unfoldings of the interpreter (so that a prefix of a body can be run while a loop stays folded) ---------- *)
Lemma exec_while_unfold ft cs f st c b :
  exec ft cs (S f) st (SWhile c b) =
  match eval ft cs call_depth st c with
  | Some cz => if cz =? 0 then ONormal st
               else match exec ft cs f st b with ONormal st' => exec ft cs f st' (SWhile c b) | o => o end
  | None => OFault
  end.
Proof. reflexivity. Qed.


Lemma exec_seq ft cs f st a b :
  exec ft cs (S f) st (SSeq a b) = match exec ft cs f st a with ONormal st' => exec ft cs f st' b | o => o end.
Proof. reflexivity. Qed.
Lemma exec_local ft cs f st x e :
  exec ft cs (S f) st (SLocal x e) = match eval ft cs call_depth st e with Some v => ONormal (set_local st x v) | None => OFault end.
Proof. reflexivity. Qed.
Lemma exec_return ft cs f st e :
  exec ft cs (S f) st (SReturn e) = match eval ft cs call_depth st e with Some v => OReturn st (Some v) | None => OFault end.
Proof. reflexivity. Qed.
(* run a prefix of declarations up to an opaque statement *)
Ltac step_prefix :=
  repeat (rewrite exec_seq; rewrite exec_local;
          cbn -[exec conv arith Z.shiftr Z.shiftl Z.land Z.lor Z.lxor Z.lnot Z.quot Z.rem Z.div Z.modulo Z.pow nth_z set_z zs Z.of_N Z.add Z.sub Z.opp Z.mul];
          repeat conv_step; norm_state).


