(* C01 as an executable monitor. [mon n l st] runs the lifecycle automaton over a trace l (newest first)
   from automaton state st and returns the state it ends in, or None when the trace breaks the enter/exit
   discipline. The automaton follows the *own* enter/exit/reenter callbacks of the states and of the root
   (EvCb w Own m v, m in {enter, exit, reenter}); every other callback only has its view checked
   (control.isActive(k) must be exactly "k is the state the automaton believes entered").
   Main results: every trace with the lifecycle shape of Proofs/MachineLife.v is accepted
   (life_shape_accepted, life_chain_accepted), hence every in-contract API history of the model
   (run_accepted), when every state class defines enter, exit and reenter (so that they are observable).
   The automaton states are named LsOff/LsRootOpen/LsOn/LsBetween: LOff and LOn are already constructors
   of Model.Machine.logmode. *)
From Coq Require Import List Arith Bool NArith Lia.
From FFSM2 Require Import Model.TaskList Model.BitArray Model.Plan Model.Ancestors Model.Dispatch
                          Model.Bits Model.BitStream Model.Machine Model.Script
                          Proofs.AncestorsProofs Proofs.MachineFrame Proofs.MachinePlan Proofs.MachineLife.
Import ListNotations.

Arguments INVALID : simpl never.

(* ================================================================================================ *)
(* 1. the monitor (depends on the number of states only)                                             *)
(* ================================================================================================ *)
Inductive lstate :=
| LsOff                   (* machine inactive: the root is not entered *)
| LsRootOpen              (* the root's enter ran, no state entered yet *)
| LsOn (k : nat)          (* state k entered and not exited *)
| LsBetween.              (* a state's exit ran: next is another state's enter, or the root's exit, or (root exit not
                             observable) nothing *)

Fixpoint bits_eqb (x y : list bool) : bool :=
  match x, y with
  | [], [] => true
  | b :: x', c :: y' => Bool.eqb b c && bits_eqb x' y'
  | _, _ => false
  end.

Lemma bits_eqb_refl x : bits_eqb x x = true.
Proof. induction x as [|b x IH]; cbn [bits_eqb]; [reflexivity|]. rewrite eqb_reflx, IH. reflexivity. Qed.

Lemma bits_eqb_eq x : forall y, bits_eqb x y = true -> x = y.
Proof.
  induction x as [|b x IH]; intros [|c y] H; cbn [bits_eqb] in H; try discriminate; [reflexivity|].
  apply andb_true_iff in H. destruct H as [H1 H2]. apply eqb_prop in H1. rewrite H1, (IH y H2). reflexivity.
Qed.

Section Mon.
Variable P : Type.
Variable n : nat.
Local Notation event := (event P).

(* isActive(j) for j < n when k is the active state (k = INVALID: none is) *)
Definition bits (k : nat) : list bool := map (Nat.eqb k) (seq 0 n).
Definition shows (act : list bool) (k : nat) : bool := bits_eqb act (bits k).

Lemma shows_bits k : shows (bits k) k = true.
Proof. apply bits_eqb_refl. Qed.

(* the state's / the root's own enter, exit, reenter *)
Definition life_step (st : lstate) (w : who) (m : method) (act : list bool) : option lstate :=
  match w, m with
  | Root, MEnter => match st with LsOff | LsBetween => Some LsRootOpen | _ => None end
  | Root, MExit => match st with LsBetween => Some LsOff | _ => None end
  | St k, MEnter =>
      match st with
      | LsOff | LsRootOpen | LsBetween => if (k <? n) && shows act k then Some (LsOn k) else None
      | LsOn _ => None
      end
  | St k, MExit =>
      match st with LsOn k' => if (k' =? k) && shows act k then Some LsBetween else None | _ => None end
  | St k, MReenter =>
      match st with LsOn k' => if (k' =? k) && shows act k then Some (LsOn k) else None | _ => None end
  | _, _ => None
  end.

(* a callback that is not enter/exit/reenter: its view must agree with the automaton *)
Definition view_step (st : lstate) (act : list bool) : option lstate :=
  match st with
  | LsOn k => if shows act k then Some st else None
  | LsOff => if shows act INVALID then Some st else None
  | _ => Some st
  end.

(* enter/exit/reenter of an injected base: between a state's own enter and its own exit the view must agree *)
Definition inj_step (st : lstate) (act : list bool) : option lstate :=
  match st with
  | LsOn k => if shows act k then Some st else None
  | _ => Some st
  end.

Definition cb_step (st : lstate) (w : who) (r : recipient) (m : method) (act : list bool) : option lstate :=
  if is_life m then match r with Own => life_step st w m act | Inj _ => inj_step st act end
  else view_step st act.

Definition mon_step (st : lstate) (e : event) : option lstate :=
  match e with
  | EvCb _ w r m v => cb_step st w r m (v_act P v)
  | _ => Some st
  end.

Definition obind (o : option lstate) (f : lstate -> option lstate) : option lstate :=
  match o with Some x => f x | None => None end.

(* the trace is newest first: fold_right handles the oldest event first *)
Definition mon (l : list event) (st : lstate) : option lstate :=
  fold_right (fun e acc => match acc with Some x => mon_step x e | None => None end) (Some st) l.

Definition abs (a : nat) : lstate := if a =? INVALID then LsOff else LsOn a.

(* the automaton state agrees with registry.active = a *)
Definition compatible (st : lstate) (a : nat) : Prop :=
  match st with
  | LsOn k => k = a /\ a < n
  | LsOff | LsBetween => a = INVALID
  | LsRootOpen => False
  end.

Lemma mon_nil st : mon [] st = Some st.
Proof. reflexivity. Qed.

Lemma mon_cons e l st : mon (e :: l) st = obind (mon l st) (fun x => mon_step x e).
Proof. reflexivity. Qed.

Lemma mon_app l2 l1 st : mon (l2 ++ l1) st = match mon l1 st with Some x => mon l2 x | None => None end.
Proof.
  induction l2 as [|e l2 IH]; cbn [app].
  - destruct (mon l1 st); reflexivity.
  - rewrite mon_cons, IH. destruct (mon l1 st) as [x|]; reflexivity.
Qed.

Lemma mon_app_some l2 l1 st st' : mon (l2 ++ l1) st = Some st' ->
  exists x, mon l1 st = Some x /\ mon l2 x = Some st'.
Proof. rewrite mon_app. destruct (mon l1 st) as [x|]; [|discriminate]. intro H. exists x. split; [reflexivity|exact H]. Qed.

Lemma mon_cons_some e l st st' : mon (e :: l) st = Some st' ->
  exists x, mon l st = Some x /\ mon_step x e = Some st'.
Proof. rewrite mon_cons. destruct (mon l st) as [x|]; [|discriminate]. intro H. exists x. split; [reflexivity|exact H]. Qed.

Lemma compatible_abs a : a = INVALID \/ (a < n /\ a <> INVALID) -> compatible (abs a) a.
Proof.
  unfold abs. intros [->|[H Hne]].
  - rewrite Nat.eqb_refl. reflexivity.
  - destruct (a =? INVALID) eqn:E; [apply Nat.eqb_eq in E; contradiction|]. split; [reflexivity|exact H].
Qed.

(* ================================================================================================ *)
(* 2. what an accepted trace looks like (facts about mon alone)                                      *)
(* ================================================================================================ *)
(* an own lifecycle callback of a state *)
Definition state_life (e : event) : bool :=
  match e with EvCb _ (St _) Own m _ => is_life m | _ => false end.
Definition own_exit_of (k : nat) (e : event) : bool :=
  match e with EvCb _ (St k') Own MExit _ => k' =? k | _ => false end.

Lemma life_step_enter st k act st' : life_step st (St k) MEnter act = Some st' ->
  st' = LsOn k /\ k < n /\ act = bits k /\ (st = LsOff \/ st = LsRootOpen \/ st = LsBetween).
Proof.
  cbn [life_step]. destruct st as [| |k'|]; try discriminate;
    (destruct ((k <? n) && shows act k) eqn:E; [|discriminate]); intro H; inversion H; subst;
    apply andb_true_iff in E; destruct E as [E1 E2]; apply Nat.ltb_lt in E1; apply bits_eqb_eq in E2; auto 6.
Qed.

(* in LsOn k, whatever is not an own lifecycle callback of a state keeps the automaton where it is *)
Lemma mon_step_on_other k e st' : state_life e = false -> mon_step (LsOn k) e = Some st' -> st' = LsOn k.
Proof.
  destruct e as [w r m v| |]; cbn [mon_step state_life]; [|intros _ H; inversion H; reflexivity..].
  unfold cb_step. destruct (is_life m) eqn:Em.
  - destruct r as [i|].
    + intros _. cbn [inj_step]. destruct (shows (v_act P v) k); [|discriminate]. intro H. inversion H. reflexivity.
    + destruct w as [|j]; [|discriminate]. intros _.
      destruct m; cbn [life_step]; discriminate.
  - intros _. cbn [view_step]. destruct (shows (v_act P v) k); [|discriminate]. intro H. inversion H. reflexivity.
Qed.

Lemma mon_on_other k l : forall st', forallb (fun e => negb (state_life e)) l = true -> mon l (LsOn k) = Some st' -> st' = LsOn k.
Proof.
  induction l as [|e l IH]; intros st' Hl H.
  - inversion H. reflexivity.
  - cbn [forallb] in Hl. apply andb_true_iff in Hl. destruct Hl as [He Hl]. apply negb_true_iff in He.
    destruct (mon_cons_some _ _ _ _ H) as (x & Hx & Hs). rewrite (IH x Hl Hx) in Hs.
    exact (mon_step_on_other k e st' He Hs).
Qed.

(* the only own lifecycle callbacks of a state accepted in LsOn k are exit(k) and reenter(k) *)
Lemma mon_step_on_life k e st' : state_life e = true -> mon_step (LsOn k) e = Some st' ->
  exists v, (e = EvCb P (St k) Own MExit v /\ st' = LsBetween) \/ (e = EvCb P (St k) Own MReenter v /\ st' = LsOn k).
Proof.
  destruct e as [w r m v| |]; cbn [mon_step state_life]; try discriminate.
  destruct w as [|j]; [discriminate|]. destruct r as [i|]; [discriminate|]. intro Em.
  unfold cb_step. rewrite Em. intro H. exists v.
  destruct m; try discriminate; cbn [life_step] in H.
  - destruct ((k =? j) && shows (v_act P v) j) eqn:E; [|discriminate]. apply andb_true_iff in E. destruct E as [E _].
    apply Nat.eqb_eq in E. subst j. inversion H. right. split; reflexivity.
  - destruct ((k =? j) && shows (v_act P v) j) eqn:E; [|discriminate]. apply andb_true_iff in E. destruct E as [E _].
    apply Nat.eqb_eq in E. subst j. inversion H. left. split; reflexivity.
Qed.

(* (i) after an accepted enter(k), the next own lifecycle callback of any state is exit(k) or reenter(k) *)
Theorem accepted_after_enter l3 e2 l2 k v l1 st st' :
  mon (l3 ++ e2 :: l2 ++ EvCb P (St k) Own MEnter v :: l1) st = Some st' ->
  forallb (fun e => negb (state_life e)) l2 = true -> state_life e2 = true ->
  exists v2, e2 = EvCb P (St k) Own MExit v2 \/ e2 = EvCb P (St k) Own MReenter v2.
Proof.
  intros H Hl2 He2.
  destruct (mon_app_some _ _ _ _ H) as (x3 & H3 & _).
  destruct (mon_cons_some _ _ _ _ H3) as (x2 & H2 & Hs2).
  destruct (mon_app_some _ _ _ _ H2) as (x1 & H1 & H12).
  destruct (mon_cons_some _ _ _ _ H1) as (x0 & _ & Hs1).
  cbn [mon_step] in Hs1. unfold cb_step in Hs1. cbn [is_life] in Hs1.
  destruct (life_step_enter _ _ _ _ Hs1) as (-> & _).
  rewrite (mon_on_other k l2 x2 Hl2 H12) in Hs2.
  destruct (mon_step_on_life k e2 x3 He2 Hs2) as (v2 & [[E _]|[E _]]); exists v2; [left|right]; exact E.
Qed.

(* without an own exit(k), the automaton cannot leave LsOn k *)
Lemma mon_on_no_exit k l : forall st', existsb (own_exit_of k) l = false -> mon l (LsOn k) = Some st' -> st' = LsOn k.
Proof.
  induction l as [|e l IH]; intros st' Hl H.
  - inversion H. reflexivity.
  - cbn [existsb] in Hl. apply orb_false_iff in Hl. destruct Hl as [He Hl].
    destruct (mon_cons_some _ _ _ _ H) as (x & Hx & Hs). rewrite (IH x Hl Hx) in Hs.
    destruct (state_life e) eqn:El.
    + destruct (mon_step_on_life k e st' El Hs) as (v & [[E _]|[_ E]]); [|exact E].
      subst e. cbn [own_exit_of] in He. rewrite Nat.eqb_refl in He. discriminate.
    + exact (mon_step_on_other k e st' El Hs).
Qed.

(* (ii) between two accepted enters of states there is the exit of the first *)
Theorem accepted_enter_enter l3 k2 v2 l2 k1 v1 l1 st st' :
  mon (l3 ++ EvCb P (St k2) Own MEnter v2 :: l2 ++ EvCb P (St k1) Own MEnter v1 :: l1) st = Some st' ->
  existsb (own_exit_of k1) l2 = true.
Proof.
  intro H.
  destruct (mon_app_some _ _ _ _ H) as (x3 & H3 & _).
  destruct (mon_cons_some _ _ _ _ H3) as (x2 & H2 & Hs2).
  destruct (mon_app_some _ _ _ _ H2) as (x1 & H1 & H12).
  destruct (mon_cons_some _ _ _ _ H1) as (x0 & _ & Hs1).
  cbn [mon_step] in Hs1, Hs2. unfold cb_step in Hs1, Hs2. cbn [is_life] in Hs1, Hs2.
  destruct (life_step_enter _ _ _ _ Hs1) as (-> & _).
  destruct (existsb (own_exit_of k1) l2) eqn:E; [reflexivity|].
  rewrite (mon_on_no_exit k1 l2 x2 E H12) in Hs2. cbn [life_step] in Hs2. discriminate.
Qed.

(* every accepted own enter/exit/reenter of a state shows exactly that state active *)
Theorem accepted_life_view l2 k m v l1 st st' :
  mon (l2 ++ EvCb P (St k) Own m v :: l1) st = Some st' -> is_life m = true -> v_act P v = bits k.
Proof.
  intros H Hm.
  destruct (mon_app_some _ _ _ _ H) as (x2 & H2 & _).
  destruct (mon_cons_some _ _ _ _ H2) as (x1 & _ & Hs).
  cbn [mon_step] in Hs. unfold cb_step in Hs. rewrite Hm in Hs.
  destruct m; try discriminate; cbn [life_step] in Hs.
  - destruct (life_step_enter _ _ _ _ Hs) as (_ & _ & B & _). exact B.
  - destruct x1 as [| |k'|]; try discriminate.
    destruct ((k' =? k) && shows (v_act P v) k) eqn:E; [|discriminate]. apply andb_true_iff in E. destruct E as [_ E2].
    apply bits_eqb_eq in E2. exact E2.
  - destruct x1 as [| |k'|]; try discriminate.
    destruct ((k' =? k) && shows (v_act P v) k) eqn:E; [|discriminate]. apply andb_true_iff in E. destruct E as [_ E2].
    apply bits_eqb_eq in E2. exact E2.
Qed.

End Mon.

(* ================================================================================================ *)
(* 3. the recipients of the lifecycle deliveries                                                     *)
(* ================================================================================================ *)
Definition recipient_eq_dec (x y : recipient) : {x = y} + {x <> y}.
Proof. decide equality. apply Nat.eq_dec. Defined.

Lemma count_own_injs xs : count_occ recipient_eq_dec (map Inj xs) Own = 0.
Proof.
  induction xs as [|x xs IH]; [reflexivity|]. cbn [map]. rewrite count_occ_cons_neq by discriminate. exact IH.
Qed.

Section Acc.
Variable P : Type.
Variable cfg : config.
Local Notation n := (c_n cfg).
Local Notation event := (event P).
Local Notation Mon := (mon P n).
Local Notation Compat := (compatible n).
Local Notation deliv := (deliv P cfg).
Local Notation quiet := (quiet P cfg).
Local Notation change := (change P cfg).
Local Notation life_shape := (life_shape P cfg).
Local Notation life_chain := (life_chain P cfg).

Lemma act_bits_bits a : act_bits cfg a = bits n a.
Proof. reflexivity. Qed.

Lemma filter_injs w m xs : filter (fun r => delivers cfg w r m) (map Inj xs) = map Inj xs.
Proof. induction xs as [|x xs IH]; cbn [map filter delivers]; [reflexivity|]. rewrite IH. reflexivity. Qed.

Lemma deep_order_enter_like m j : m = MEnter \/ m = MReenter -> deep_order m j = map Inj (seq 0 j) ++ [Own].
Proof. intro H. apply deep_order_pre. unfold pre_side. tauto. Qed.

Lemma deep_order_exit j : deep_order MExit j = Own :: map Inj (rev (seq 0 j)).
Proof.
  rewrite deep_order_post by (unfold post_side; tauto). rewrite rev_app_distr. unfold injs. rewrite map_rev. reflexivity.
Qed.

(* the state classes define the callback: the delivery reaches the injected bases and the state itself *)
Lemma recipients_state_pre k m : m = MEnter \/ m = MReenter -> c_def_state cfg m = true ->
  recipients cfg (St k) m = map Inj (seq 0 (c_inj_state cfg)) ++ [Own].
Proof.
  intros Hm Hd. unfold recipients. cbn [exists_who inj_of]. rewrite (deep_order_enter_like m _ Hm).
  rewrite filter_app, filter_injs. cbn [filter delivers defines]. rewrite Hd. reflexivity.
Qed.

Lemma recipients_state_exit k : c_def_state cfg MExit = true ->
  recipients cfg (St k) MExit = Own :: map Inj (rev (seq 0 (c_inj_state cfg))).
Proof.
  intros Hd. unfold recipients. cbn [exists_who inj_of]. rewrite deep_order_exit.
  cbn [filter delivers defines]. rewrite Hd, filter_injs. reflexivity.
Qed.

(* the root: its own callback at most once, after (enter) or before (exit) the injected bases *)
Lemma recipients_root_enter : exists xs,
  recipients cfg Root MEnter = map Inj xs ++ [Own] \/ recipients cfg Root MEnter = map Inj xs.
Proof.
  unfold recipients. cbn [exists_who inj_of]. destruct (c_head cfg).
  - exists (seq 0 (c_inj_root cfg)). rewrite (deep_order_enter_like MEnter _ (or_introl eq_refl)).
    rewrite filter_app, filter_injs. cbn [filter delivers defines]. destruct (c_def_root cfg MEnter).
    + left. reflexivity.
    + right. apply app_nil_r.
  - exists []. right. reflexivity.
Qed.

Lemma recipients_root_exit : exists xs,
  recipients cfg Root MExit = Own :: map Inj xs \/ recipients cfg Root MExit = map Inj xs.
Proof.
  unfold recipients. cbn [exists_who inj_of]. destruct (c_head cfg).
  - exists (rev (seq 0 (c_inj_root cfg))). rewrite deep_order_exit.
    cbn [filter delivers defines]. rewrite filter_injs. destruct (c_def_root cfg MExit); [left|right]; reflexivity.
  - exists []. right. reflexivity.
Qed.

(* the state's own enter/exit/reenter is delivered exactly once per delivery *)
Theorem recipients_own_once k m : is_life m = true -> c_def_state cfg m = true ->
  count_occ recipient_eq_dec (recipients cfg (St k) m) Own = 1.
Proof.
  intros Hm Hd. destruct m; try discriminate.
  - rewrite (recipients_state_pre k MEnter (or_introl eq_refl) Hd), count_occ_app, count_own_injs. reflexivity.
  - rewrite (recipients_state_pre k MReenter (or_intror eq_refl) Hd), count_occ_app, count_own_injs. reflexivity.
  - rewrite (recipients_state_exit k Hd). rewrite count_occ_cons_eq by reflexivity. rewrite count_own_injs. reflexivity.
Qed.

(* ================================================================================================ *)
(* 4. one delivery, as the monitor sees it                                                           *)
(* ================================================================================================ *)
(* all the monitor reads of a delivery is the order of its recipients *)
Definition rec_fold (w : who) (m : method) (a : nat) (rs : list recipient) (o : option lstate) : option lstate :=
  fold_left (fun acc r => obind acc (fun x => cb_step n x w r m (bits n a))) rs o.

Lemma mon_deliv_fold w m a l : Forall (ev_ok P cfg a (fun w' _ m' => w' = w /\ m' = m)) l ->
  forall st, Mon l st = rec_fold w m a (cb_recs P l) (Some st).
Proof.
  induction 1 as [|e l He _ IH]; intro st; [reflexivity|].
  rewrite mon_cons, IH. destruct e as [w' r m' v| |]; cbn [cb_recs].
  - destruct He as ((-> & ->) & _ & Hv). unfold rec_fold. rewrite fold_left_app. cbn [fold_left].
    cbn [mon_step]. rewrite Hv. reflexivity.
  - cbn [mon_step]. destruct (rec_fold w m a (cb_recs P l) (Some st)); reflexivity.
  - cbn [mon_step]. destruct (rec_fold w m a (cb_recs P l) (Some st)); reflexivity.
Qed.

(* the injected bases' lifecycle callbacks leave the automaton alone, provided their view agrees *)
Definition inj_ok (st : lstate) (a : nat) : Prop := match st with LsOn k => k = a | _ => True end.

Lemma rec_fold_injs w m a xs st : is_life m = true -> inj_ok st a ->
  rec_fold w m a (map Inj xs) (Some st) = Some st.
Proof.
  intros Hm Hst. unfold rec_fold. induction xs as [|x xs IH]; [reflexivity|].
  cbn [map fold_left obind]. unfold cb_step at 2. rewrite Hm.
  assert (E : inj_step n st (bits n a) = Some st).
  { destruct st as [| |k|]; cbn [inj_step]; try reflexivity. cbn [inj_ok] in Hst. subst k. rewrite shows_bits. reflexivity. }
  rewrite E. exact IH.
Qed.

(* injected bases first, the own callback last: enter, reenter *)
Lemma mon_deliv_own_last w m a l xs st : is_life m = true -> deliv w m a l ->
  recipients cfg w m = map Inj xs ++ [Own] -> inj_ok st a ->
  Mon l st = life_step n st w m (bits n a).
Proof.
  intros Hm [Hl Hr] Er Hst. rewrite (mon_deliv_fold w m a l Hl), Hr, Er.
  unfold rec_fold. rewrite fold_left_app. fold (rec_fold w m a (map Inj xs) (Some st)).
  rewrite (rec_fold_injs w m a xs st Hm Hst). cbn [fold_left obind]. unfold cb_step. rewrite Hm. reflexivity.
Qed.

(* the own callback first, injected bases after it: exit *)
Lemma mon_deliv_own_first w m a l xs st st' : is_life m = true -> deliv w m a l ->
  recipients cfg w m = Own :: map Inj xs -> life_step n st w m (bits n a) = Some st' -> inj_ok st' a ->
  Mon l st = Some st'.
Proof.
  intros Hm [Hl Hr] Er Hs Hst'. rewrite (mon_deliv_fold w m a l Hl), Hr, Er.
  unfold rec_fold. cbn [fold_left obind]. unfold cb_step at 2. rewrite Hm, Hs.
  exact (rec_fold_injs w m a xs st' Hm Hst').
Qed.

(* no own callback (the class does not define it, or there is no head) *)
Lemma mon_deliv_no_own w m a l xs st : is_life m = true -> deliv w m a l ->
  recipients cfg w m = map Inj xs -> inj_ok st a -> Mon l st = Some st.
Proof.
  intros Hm [Hl Hr] Er Hst. rewrite (mon_deliv_fold w m a l Hl), Hr, Er. exact (rec_fold_injs w m a xs st Hm Hst).
Qed.

(* a stretch without enter/exit/reenter *)
Lemma mon_quiet a l st : quiet a l -> Compat st a -> Mon l st = Some st.
Proof.
  intros Hq Hst. induction Hq as [|e l He _ IH]; [reflexivity|].
  rewrite mon_cons, IH. cbn [obind]. destruct e as [w r m v| |]; cbn [mon_step]; try reflexivity.
  destruct He as (Hm & _ & Hv). unfold cb_step. rewrite Hm, Hv, act_bits_bits.
  destruct st as [| |k|]; cbn [view_step compatible] in *; try reflexivity.
  - subst a. rewrite shows_bits. reflexivity.
  - destruct Hst as [-> _]. rewrite shows_bits. reflexivity.
Qed.

(* ================================================================================================ *)
(* 5. acceptance                                                                                     *)
(* ================================================================================================ *)
Hypothesis Hn : n <= 255.
Hypothesis Hdef_enter : c_def_state cfg MEnter = true.
Hypothesis Hdef_exit : c_def_state cfg MExit = true.
Hypothesis Hdef_reenter : c_def_state cfg MReenter = true.

Lemma lt_not_INVALID a : a < n -> a <> INVALID.
Proof. intros H E. unfold INVALID in E. lia. Qed.

Lemma compatible_on st a : Compat st a -> a < n -> st = LsOn a.
Proof.
  intros Hst Ha. pose proof (lt_not_INVALID a Ha) as Hne.
  destruct st as [| |k|]; cbn [compatible] in Hst; try contradiction. destruct Hst as [-> _]. reflexivity.
Qed.

Lemma compatible_off st a : Compat st a -> a = INVALID -> st = LsOff \/ st = LsBetween.
Proof.
  intros Hst Ha. destruct st as [| |k|]; cbn [compatible] in Hst; auto; [contradiction|].
  destruct Hst as [_ Hlt]. exfalso. exact (lt_not_INVALID a Hlt Ha).
Qed.

(* exit(a), from LsOn a *)
Lemma mon_state_exit a l : a < n -> deliv (St a) MExit a l -> Mon l (LsOn a) = Some LsBetween.
Proof.
  intros Ha D. apply (mon_deliv_own_first (St a) MExit a l _ (LsOn a) LsBetween eq_refl D (recipients_state_exit a Hdef_exit)).
  - cbn [life_step]. rewrite Nat.eqb_refl, shows_bits. reflexivity.
  - exact I.
Qed.

(* enter(a'), from anywhere but LsOn *)
Lemma mon_state_enter a' l st : a' < n -> deliv (St a') MEnter a' l ->
  st = LsOff \/ st = LsRootOpen \/ st = LsBetween -> Mon l st = Some (LsOn a').
Proof.
  intros Ha D Hst.
  rewrite (mon_deliv_own_last (St a') MEnter a' l _ st eq_refl D (recipients_state_pre a' MEnter (or_introl eq_refl) Hdef_enter)).
  - apply Nat.ltb_lt in Ha. destruct Hst as [->|[->| ->]]; cbn [life_step]; rewrite Ha, shows_bits; reflexivity.
  - destruct Hst as [->|[->| ->]]; exact I.
Qed.

(* reenter(a), in LsOn a *)
Lemma mon_state_reenter a l : a < n -> deliv (St a) MReenter a l -> Mon l (LsOn a) = Some (LsOn a).
Proof.
  intros Ha D.
  rewrite (mon_deliv_own_last (St a) MReenter a l _ (LsOn a) eq_refl D (recipients_state_pre a MReenter (or_intror eq_refl) Hdef_reenter)).
  - cbn [life_step]. rewrite Nat.eqb_refl, shows_bits. reflexivity.
  - reflexivity.
Qed.

(* the root's enter: observable or not *)
Lemma mon_root_enter a' l st : deliv Root MEnter a' l -> st = LsOff \/ st = LsBetween ->
  exists st1, Mon l st = Some st1 /\ (st1 = LsOff \/ st1 = LsRootOpen \/ st1 = LsBetween).
Proof.
  intros D Hst. destruct recipients_root_enter as (xs & [E|E]).
  - exists LsRootOpen. split; [|auto].
    rewrite (mon_deliv_own_last Root MEnter a' l xs st eq_refl D E); destruct Hst as [->| ->]; reflexivity.
  - exists st. split; [|tauto].
    apply (mon_deliv_no_own Root MEnter a' l xs st eq_refl D E). destruct Hst as [->| ->]; exact I.
Qed.

(* the root's exit: observable or not *)
Lemma mon_root_exit a l : deliv Root MExit a l ->
  exists st1, Mon l LsBetween = Some st1 /\ (st1 = LsOff \/ st1 = LsBetween).
Proof.
  intros D. destruct recipients_root_exit as (xs & [E|E]).
  - exists LsOff. split; [|auto]. exact (mon_deliv_own_first Root MExit a l xs LsBetween LsOff eq_refl D E eq_refl I).
  - exists LsBetween. split; [|auto]. exact (mon_deliv_no_own Root MExit a l xs LsBetween eq_refl D E I).
Qed.

Lemma change_accepted a a' l st : change a a' l -> Compat st a ->
  exists st', Mon l st = Some st' /\ Compat st' a'.
Proof.
  intros C Hst. destruct C as [->|l1 l2 Hne Ha Ha' D1 D2| l -> Ha D|l1 l2 -> Ha' D1 D2|l1 l2 Ha -> D1 D2].
  - exists st. split; [reflexivity|exact Hst].
  - rewrite (compatible_on st a Hst Ha). exists (LsOn a'). split; [|split; [reflexivity|exact Ha']].
    rewrite mon_app, (mon_state_exit a l1 Ha D1). apply (mon_state_enter a' l2 LsBetween Ha' D2). auto.
  - rewrite (compatible_on st a Hst Ha). exists (LsOn a). split; [|split; [reflexivity|exact Ha]].
    exact (mon_state_reenter a l Ha D).
  - destruct (mon_root_enter a' l1 st D1 (compatible_off st INVALID Hst eq_refl)) as (st1 & E1 & H1).
    exists (LsOn a'). split; [|split; [reflexivity|exact Ha']].
    rewrite mon_app, E1. exact (mon_state_enter a' l2 st1 Ha' D2 H1).
  - rewrite (compatible_on st a Hst Ha).
    destruct (mon_root_exit a l2 D2) as (st1 & E1 & H1).
    exists st1. split; [rewrite mon_app, (mon_state_exit a l1 Ha D1); exact E1|].
    destruct H1 as [->| ->]; reflexivity.
Qed.

(* the events of one API call *)
Theorem life_shape_accepted a a' l : life_shape a a' l ->
  forall st, Compat st a -> exists st', Mon l st = Some st' /\ Compat st' a'.
Proof.
  intros (lc & lq & -> & Q & C) st Hst.
  destruct (change_accepted a a' lc st C Hst) as (st' & E & Hst').
  exists st'. split; [|exact Hst']. rewrite mon_app, (mon_quiet a lq st Q Hst). exact E.
Qed.

Lemma life_chain_accepted_from a0 a l : life_chain a0 a l ->
  forall st0, Compat st0 a0 -> exists st, Mon l st0 = Some st /\ Compat st a.
Proof.
  induction 1 as [a|a a1 a2 l1 l2 _ IH S]; intros st0 H0.
  - exists st0. split; [reflexivity|exact H0].
  - destruct (IH st0 H0) as (st1 & E1 & H1).
    destruct (life_shape_accepted a1 a2 l2 S st1 H1) as (st2 & E2 & H2).
    exists st2. split; [rewrite mon_app, E1; exact E2|exact H2].
Qed.

(* whole histories *)
Theorem life_chain_accepted a l : life_chain INVALID a l -> exists st, Mon l LsOff = Some st /\ Compat st a.
Proof. intro H. exact (life_chain_accepted_from INVALID a l H LsOff eq_refl). Qed.

(* with abs: the API call's events are accepted from the abstraction of the state active before it *)
Corollary life_shape_accepted_abs a a' l : life_shape a a' l -> a = INVALID \/ a < n ->
  exists st', Mon l (abs a) = Some st' /\ Compat st' a'.
Proof.
  intros S Ha. apply (life_shape_accepted a a' l S). apply compatible_abs.
  destruct Ha as [Ha|Ha]; [left; exact Ha|right; split; [exact Ha|exact (lt_not_INVALID a Ha)]].
Qed.
End Acc.

(* every in-contract API history of the model, every behaviour of the callbacks *)
Theorem run_accepted (P : Type) (cfg : config) (orc : oracle P) :
  wf_cfg cfg -> wf_oracle P cfg orc ->
  c_def_state cfg MEnter = true -> c_def_state cfg MExit = true -> c_def_state cfg MReenter = true ->
  forall lg ops, ops_ok P cfg orc (construct P cfg orc lg) ops ->
  exists st, mon P (c_n cfg) (tr P (run P cfg orc lg ops)) LsOff = Some st /\
             compatible (c_n cfg) st (active P (co P (run P cfg orc lg ops))).
Proof.
  intros Hcfg Hwf He Hx Hr lg ops Hok.
  pose proof (run_life P cfg orc (PIc P cfg) (PIc_ok P cfg (proj1 (proj2 Hcfg))) Hwf Hcfg lg ops Hok) as H. cbv zeta in H.
  destruct H as [_ H].
  exact (life_chain_accepted P cfg (proj2 (proj1 Hcfg)) He Hx Hr _ _ H).
Qed.

Print Assumptions run_accepted.
Print Assumptions life_shape_accepted.
Print Assumptions life_chain_accepted.
Print Assumptions accepted_after_enter.
Print Assumptions accepted_enter_enter.
Print Assumptions recipients_own_once.

(* ================================================================================================ *)
(* 6. the monitor runs                                                                               *)
(* ================================================================================================ *)
Module LifeMonitorExamples.
(* three states, a head with one injected base, every state with one injected base, every callback defined *)
Definition ex_cfg : config :=
  {| c_n := 3; c_head := true; c_manual := false; c_limit := 4; c_cap := 4; c_payload := false;
     c_inj_root := 1; c_inj_state := 1; c_plans := true; c_serial := false; c_history := true;
     c_log := LVerbose; c_def_root := fun _ => true; c_def_state := fun _ => true |}.

Definition no_cond : cond := {| cd_occ := None; cd_mod := None; cd_pend := None; cd_cur := None; cd_active := None |}.
(* state 0's update requests 1, state 1's react requests 2 (its entry guard redirects to 0 the first time),
   state 2's update requests 2 (a reenter) *)
Definition ex_tab : list (entry unit) :=
  [ {| e_who := WState 0; e_rec := ROwn; e_meth := Some MUpdate; e_cond := no_cond; e_acts := [AChange unit 1] |};
    {| e_who := WState 1; e_rec := ROwn; e_meth := Some MReact; e_cond := no_cond; e_acts := [AChange unit 2] |};
    {| e_who := WState 2; e_rec := RInj 0; e_meth := Some MEntryGuard;
       e_cond := {| cd_occ := Some 0; cd_mod := None; cd_pend := None; cd_cur := None; cd_active := None |};
       e_acts := [AChange unit 0] |};
    {| e_who := WState 2; e_rec := ROwn; e_meth := Some MUpdate; e_cond := no_cond; e_acts := [AChange unit 2] |} ].
Definition ex_orc : oracle unit := table_oracle unit ex_tab.
Definition ex_ops : list (api_op unit) :=
  [OUpdate unit; OReact unit; OUpdate unit; OReact unit; OReact unit; OUpdate unit; OQuery unit;
   OExit unit; OEnter unit; OImmChange unit 2; OUpdate unit].
Definition ex_run : mstate unit := run unit ex_cfg ex_orc true ex_ops.

(* the automaton follows the model: it ends with state 2 entered *)
Example ex_run_accepted : mon unit 3 (tr unit ex_run) LsOff = Some (LsOn 2) /\ active unit (co unit ex_run) = 2.
Proof. vm_compute. split; reflexivity. Qed.

(* the own lifecycle callbacks of that run, oldest first *)
Definition own_life (l : list (event unit)) : list (who * method) :=
  rev (flat_map (fun e => match e with EvCb _ w Own m _ => if is_life m then [(w, m)] else [] | _ => [] end) l).
Example ex_run_lifecycle : own_life (tr unit ex_run) =
  [(Root, MEnter); (St 0, MEnter);
   (St 0, MExit); (St 1, MEnter);
   (St 1, MExit); (St 0, MEnter);
   (St 0, MExit); (St 1, MEnter);
   (St 1, MExit); (St 2, MEnter);
   (St 2, MReenter);
   (St 2, MExit); (Root, MExit);
   (Root, MEnter); (St 0, MEnter);
   (St 0, MExit); (St 2, MEnter);
   (St 2, MReenter)].
Proof. vm_compute. reflexivity. Qed.

(* hand-made traces *)
Definition mkv (k : nat) : view unit :=
  {| v_kind := KPlan; v_id := k; v_act := bits 3 k; v_req := t_empty unit; v_cur := t_empty unit;
     v_pend := t_empty unit; v_plan := [] |}.
Definition cb (k : nat) (m : method) : event unit := EvCb unit (St k) Own m (mkv k).

(* enter(1) while 0 is still entered: rejected (newest first) *)
Example bad_enter_without_exit : mon unit 3 [cb 1 MEnter; cb 0 MEnter] LsOff = None.
Proof. vm_compute. reflexivity. Qed.
(* exit of a state that is not the one entered; reenter of an inactive state; a stale view *)
Example bad_exit_other : mon unit 3 [cb 1 MExit; cb 0 MEnter] LsOff = None.
Proof. vm_compute. reflexivity. Qed.
Example bad_reenter_off : mon unit 3 [cb 0 MReenter] LsOff = None.
Proof. vm_compute. reflexivity. Qed.
Example bad_view : mon unit 3 [EvCb unit (St 0) Own MUpdate (mkv 1); cb 0 MEnter] LsOff = None.
Proof. vm_compute. reflexivity. Qed.
Example good_pair : mon unit 3 [cb 1 MEnter; cb 0 MExit; cb 0 MReenter; cb 0 MEnter] LsOff = Some (LsOn 1).
Proof. vm_compute. reflexivity. Qed.

(* the hypothesis "every state class defines exit" is needed: when exit is not defined its delivery is not
   observable and the monitor (rightly, for what it sees) rejects the model's trace *)
Definition noexit_cfg : config :=
  {| c_n := 3; c_head := true; c_manual := false; c_limit := 4; c_cap := 4; c_payload := false;
     c_inj_root := 0; c_inj_state := 0; c_plans := true; c_serial := false; c_history := true;
     c_log := LVerbose; c_def_root := fun _ => true;
     c_def_state := fun m => match m with MExit => false | _ => true end |}.
Example noexit_rejected : mon unit 3 (tr unit (run unit noexit_cfg ex_orc true [OUpdate unit])) LsOff = None.
Proof. vm_compute. reflexivity. Qed.
End LifeMonitorExamples.
