(* C16: the logger is an observer.
   (A) Log transparency: attaching, detaching or omitting the logger (at run time, or at compile time through
       the log mode) never changes which callbacks run, their order, what they see, what they do, what the API
       returns, or any resulting state. Technique: [strip] (logger := false, log records erased from the trace)
       commutes with every function of Model/Machine.v, bottom-up, given that the oracle itself cannot see
       log records ([log_blind]). Main theorems: log_transparent_gen, log_transparent, step_log_transparent,
       run_log_transparent(_core/_observe/_trace), run_log_mode_irrelevant.
   (B) Log faithfulness, function level: which records perform emits (perform_log, perform_ignored_silent)
       and where the method records sit relative to the callbacks (deliver_log_adjacent, deliver_log_silent).
   Depends on Model/Script.v only for the remark that the scripted oracle is log-blind. *)
From Coq Require Import List Arith Bool NArith.
From FFSM2 Require Import Model.TaskList Model.BitArray Model.Plan Model.Ancestors Model.Dispatch
                          Model.Bits Model.BitStream Model.Machine Model.Script.
Import ListNotations.

Section LogT.
Variable P : Type.

Definition is_log (e : event P) : bool := match e with EvLog _ _ => true | _ => false end.
Definition erase (t : list (event P)) : list (event P) := filter (fun e => negb (is_log e)) t.
Definition strip (s : mstate P) : mstate P :=
  {| co := set_logger P (co P s) false; tr := erase (tr P s) |}.

(* the oracle under logging cannot see the logger's records *)
Definition log_blind (orc orc' : oracle P) : Prop :=
  forall t w r m v, orc' t w r m v = orc (erase t) w r m v.

Definition stripP {A} (p : mstate P * A) : mstate P * A := (strip (fst p), snd p).
Definition strip3 {A B} (p : mstate P * A * B) : mstate P * A * B := (stripP (fst p), snd p).

Lemma fold_commute {A B} (h : A -> A) (F G : A -> B -> A) :
  (forall x b, h (F x b) = G (h x) b) ->
  forall l x, h (fold_left F l x) = fold_left G l (h x).
Proof.
  intros HC l. induction l as [|b l IH]; intros x; cbn [fold_left]; [reflexivity|].
  rewrite IH, HC. reflexivity.
Qed.

Lemma erase_idem t : erase (erase t) = erase t.
Proof.
  induction t as [|e t IH]; [reflexivity|].
  unfold erase in *. cbn [filter]. destruct (negb (is_log e)) eqn:E; cbn [filter]; [rewrite E, IH|]; auto.
Qed.

Lemma erase_app a b : erase (a ++ b) = erase a ++ erase b.
Proof. unfold erase. apply filter_app. Qed.

Lemma erase_nolog t : (forall e, In e t -> is_log e = false) -> erase t = t.
Proof.
  induction t as [|e t IH]; intros H; [reflexivity|].
  unfold erase in *. cbn [filter]. rewrite (H e (or_introl eq_refl)). cbn [negb]. f_equal.
  apply IH. intros e' He'. apply H. right. exact He'.
Qed.

Lemma erase_is_nolog t : forall e, In e (erase t) -> is_log e = false.
Proof.
  intros e He. unfold erase in He. apply filter_In in He. destruct He as [_ He].
  destruct (is_log e); [discriminate|reflexivity].
Qed.

(* the same configuration compiled with another log mode (FFSM2_ENABLE_LOG_INTERFACE and
   FFSM2_ENABLE_VERBOSE_DEBUG_LOG on, off, or as they were) *)
Definition with_log (c : config) (l : logmode) : config :=
  {| c_n := c_n c; c_head := c_head c; c_manual := c_manual c; c_limit := c_limit c; c_cap := c_cap c;
     c_payload := c_payload c; c_inj_root := c_inj_root c; c_inj_state := c_inj_state c;
     c_plans := c_plans c; c_serial := c_serial c; c_history := c_history c; c_log := l;
     c_def_root := c_def_root c; c_def_state := c_def_state c |}.

Lemma with_log_same c : with_log c (c_log c) = c.
Proof. destruct c; reflexivity. Qed.

(* ---- the leaves: log_rec, emit, upd_core ---- *)
Section Leaves.
Variable cfg : config.

Lemma strip_log_rec l s : strip (log_rec P cfg l s) = strip s.
Proof. unfold log_rec. destruct (log_compiled cfg && logger P (co P s)); reflexivity. Qed.

Lemma co_log_rec l s : co P (log_rec P cfg l s) = co P s.
Proof. unfold log_rec. destruct (log_compiled cfg && logger P (co P s)); reflexivity. Qed.

Lemma log_rec_off l t : logger P (co P t) = false -> log_rec P cfg l t = t.
Proof. intros H. unfold log_rec. rewrite H, andb_false_r. reflexivity. Qed.

Lemma log_rec_strip l s : log_rec P cfg l (strip s) = strip s.
Proof. apply log_rec_off. reflexivity. Qed.

Lemma log_rec_eta l s :
  exists t', log_rec P cfg l s = {| co := co P s; tr := t' |} /\ erase t' = erase (tr P s).
Proof.
  unfold log_rec. destruct (log_compiled cfg && logger P (co P s)).
  - exists (EvLog P l :: tr P s). split; reflexivity.
  - exists (tr P s). split; [destruct s|]; reflexivity.
Qed.
End Leaves.

Lemma strip_emit e s : is_log e = false -> strip (emit P e s) = emit P e (strip s).
Proof. intros H. unfold strip, emit, erase. cbn [co tr filter]. rewrite H. reflexivity. Qed.

Lemma strip_upd_core f s :
  (forall c, set_logger P (f c) false = f (set_logger P c false)) ->
  strip (upd_core P f s) = upd_core P f (strip s).
Proof. intros H. unfold strip, upd_core. cbn [co tr]. rewrite H. reflexivity. Qed.

Lemma upd_core_strip f s :
  (forall c, set_logger P (f c) false = f (set_logger P c false)) ->
  upd_core P f (strip s) = strip (upd_core P f s).
Proof. intros H. symmetry. apply strip_upd_core. exact H. Qed.

Lemma upd_plan_strip g s : upd_plan P g (strip s) = strip (upd_plan P g s).
Proof. reflexivity. Qed.

Lemma strip_idem s : strip (strip s) = strip s.
Proof. unfold strip. cbn [co tr]. rewrite erase_idem. reflexivity. Qed.

Lemma strip_fst {A} (p : mstate P * A) : strip (fst p) = fst (stripP p).
Proof. reflexivity. Qed.

Ltac unpair :=
  repeat (match goal with
          | |- context [stripP (?a, ?b)] => change (stripP (a, b)) with (strip a, b)
          | |- context [strip3 (?a, ?b, ?c)] => change (strip3 (a, b, c)) with (strip a, b, c)
          end);
  cbn beta iota zeta.

(* Left-hand sides run under configuration [cfg] with whatever logger the state carries; right-hand sides
   run stripped (no logger, no records) under [cfg0], the same configuration with an arbitrary log mode. *)
Section WithCfg.
Variable cfg : config.
Variable lm : logmode.
Local Notation cfg0 := (with_log cfg lm).

(* everything but [logs] and [log_compiled] reads the same from cfg0 as from cfg *)
Ltac cfgnorm :=
  change (c_n cfg0) with (c_n cfg); change (c_head cfg0) with (c_head cfg);
  change (c_manual cfg0) with (c_manual cfg); change (c_limit cfg0) with (c_limit cfg);
  change (c_cap cfg0) with (c_cap cfg); change (c_payload cfg0) with (c_payload cfg);
  change (c_plans cfg0) with (c_plans cfg); change (c_history cfg0) with (c_history cfg);
  change (can_plan cfg0) with (can_plan cfg); change (exists_who cfg0) with (exists_who cfg);
  change (delivers cfg0) with (delivers cfg); change (inj_of cfg0) with (inj_of cfg);
  change (leaf cfg0) with (leaf cfg); change (mk_view P cfg0) with (mk_view P cfg);
  change (width_bits cfg0) with (width_bits cfg).

(* ---- perform, perform_all ---- *)
Lemma strip_perform origin a sk :
  strip3 (perform P cfg origin a sk) = perform P cfg0 origin a (stripP sk).
Proof.
  destruct sk as [s k]. unfold strip3, stripP. destruct a as [d|d p| |so|so|o d|o d p| |i];
    cbn [perform fst snd]; cfgnorm.
  - destruct (can_change (k_kind P k)); cbn [fst snd]; [|reflexivity].
    rewrite strip_log_rec, log_rec_off by reflexivity. reflexivity.
  - destruct (can_change (k_kind P k) && c_payload cfg); cbn [fst snd]; [|reflexivity].
    rewrite strip_log_rec, log_rec_off by reflexivity. reflexivity.
  - destruct (k_kind P k); cbn [fst snd]; try reflexivity.
    rewrite strip_log_rec, log_rec_strip. reflexivity.
  - destruct (can_change (k_kind P k) && c_plans cfg && negb (_ =? INVALID)); cbn [fst snd]; [|reflexivity].
    rewrite strip_log_rec, log_rec_off by reflexivity. reflexivity.
  - destruct (can_change (k_kind P k) && c_plans cfg && negb (_ =? INVALID)); cbn [fst snd]; [|reflexivity].
    rewrite strip_log_rec, log_rec_off by reflexivity. reflexivity.
  - destruct (can_plan cfg (k_kind P k)); cbn [fst snd]; [|reflexivity].
    change (plan P (co P (strip s))) with (plan P (co P s)).
    destruct (plan_append P (c_cap cfg) (plan P (co P s)) o d) as [pd ok]. reflexivity.
  - destruct (can_plan cfg (k_kind P k) && c_payload cfg); cbn [fst snd]; [|reflexivity].
    change (plan P (co P (strip s))) with (plan P (co P s)).
    destruct (plan_append_with P (c_cap cfg) (plan P (co P s)) o d p) as [pd ok]. reflexivity.
  - destruct (can_plan cfg (k_kind P k)); reflexivity.
  - destruct (can_plan cfg (k_kind P k)); cbn [fst snd]; [|reflexivity].
    change (plan P (co P (strip s))) with (plan P (co P s)).
    destruct (plan_remove_at P (c_cap cfg) (plan P (co P s)) i) as [pd seen]. reflexivity.
Qed.

Lemma strip_perform_all origin acts sk :
  stripP (perform_all P cfg origin acts sk) = perform_all P cfg0 origin acts (stripP sk).
Proof.
  unfold perform_all. apply fold_commute. intros x a.
  rewrite <- strip_perform.
  destruct (perform P cfg origin a x) as [[s1 k1] res]. reflexivity.
Qed.

(* ---- from here on the oracle matters ---- *)
Section WithOracle.
Variables orc orc' : oracle P.
Hypothesis blind : log_blind orc orc'.

Lemma mk_view_strip o k s : mk_view P cfg0 o k (co P (strip s)) = mk_view P cfg o k (co P s).
Proof. reflexivity. Qed.

Lemma strip_invoke w r m sk :
  stripP (invoke P cfg orc' w r m sk) = invoke P cfg0 orc w r m (stripP sk).
Proof.
  destruct sk as [s k]. unfold invoke. cbn [stripP fst snd].
  rewrite strip_perform_all. rewrite mk_view_strip. rewrite blind. reflexivity.
Qed.

Lemma strip_deliver w m sk :
  stripP (deliver P cfg orc' w m sk) = deliver P cfg0 orc w m (stripP sk).
Proof.
  destruct sk as [s k]. unfold deliver. cbn [stripP fst snd].
  set (s1 := if logs cfg w m then log_rec P cfg _ s else s).
  set (t1 := if logs cfg0 w m then log_rec P cfg0 _ (strip s) else strip s).
  assert (E1 : strip s1 = strip s).
  { unfold s1. destruct (logs cfg w m); [apply strip_log_rec|reflexivity]. }
  assert (E2 : t1 = strip s).
  { unfold t1. destruct (logs cfg0 w m); [apply log_rec_strip|reflexivity]. }
  rewrite E2. cfgnorm. destruct (exists_who cfg w).
  - rewrite (fold_commute stripP _ (fun sk r => if delivers cfg w r m then invoke P cfg0 orc w r m sk else sk)).
    + unfold stripP at 1. cbn [fst snd]. rewrite E1. reflexivity.
    + intros x r. destruct (delivers cfg w r m); [apply strip_invoke|reflexivity].
  - unfold stripP. cbn [fst snd]. rewrite E1. reflexivity.
Qed.

Lemma deliver_strip s k w m :
  deliver P cfg0 orc w m (strip s, k) = stripP (deliver P cfg orc' w m (s, k)).
Proof. exact (eq_sym (strip_deliver w m (s, k))). Qed.

Lemma strip_deliver_guard w m sk :
  strip3 (deliver_guard P cfg orc' w m sk) = deliver_guard P cfg0 orc w m (stripP sk).
Proof.
  unfold deliver_guard. rewrite <- strip_deliver.
  change (snd (stripP sk)) with (snd sk).
  destruct (deliver P cfg orc' w m sk) as [s1 k1]. reflexivity.
Qed.

Lemma deliver_guard_strip s k w m :
  deliver_guard P cfg0 orc w m (strip s, k) = strip3 (deliver_guard P cfg orc' w m (s, k)).
Proof. exact (eq_sym (strip_deliver_guard w m (s, k))). Qed.

Lemma strip_region_phase m post sk :
  stripP (region_phase P cfg orc' m post sk) = region_phase P cfg0 orc m post (stripP sk).
Proof.
  destruct sk as [s k]. unfold region_phase. unpair. cbn [fst snd]. cfgnorm.
  change (active P (co P (strip s))) with (active P (co P s)).
  destruct post.
  - rewrite deliver_strip.
    destruct (deliver P cfg orc' (leaf cfg (active P (co P s))) m (s, k)) as [s1 k1].
    unpair. rewrite upd_plan_strip, deliver_strip.
    destruct (deliver P cfg orc' Root m _) as [s2 k2]. reflexivity.
  - rewrite deliver_strip.
    destruct (deliver P cfg orc' Root m (s, k)) as [s1 k1].
    unpair. rewrite upd_plan_strip, deliver_strip.
    destruct (deliver P cfg orc' (leaf cfg (active P (co P s))) m _) as [s2 k2]. reflexivity.
Qed.

(* ---- plans ---- *)
Lemma strip_plan_scan : forall fuel curr next tc s,
  stripP (plan_scan P cfg fuel curr next tc s) = plan_scan P cfg0 fuel curr next tc (strip s).
Proof.
  induction fuel as [|f IH]; intros curr next tc s; cbn [plan_scan]; [reflexivity|]. cfgnorm.
  change (plan P (co P (strip s))) with (plan P (co P s)).
  change (registry_is_active P (co P (strip s))) with (registry_is_active P (co P s)).
  destruct (curr <? c_cap cfg); [|reflexivity].
  destruct (registry_is_active P (co P s) _); [|reflexivity].
  destruct (ba_get _ _).
  - rewrite (log_rec_off cfg0 _ (upd_core P _ (strip s))) by reflexivity.
    match goal with |- context [log_rec P cfg ?l ?x] =>
      destruct (log_rec_eta cfg l x) as (t' & E1 & E2); rewrite E1 end.
    cbn [tr upd_core] in E2.
    destruct (_ =? _); cbn beta iota zeta; rewrite IH;
      unfold strip, upd_plan, upd_core; cbn [co tr]; rewrite E2; reflexivity.
  - cbn beta iota zeta. rewrite IH. reflexivity.
Qed.

Lemma strip_update_plan status sk :
  stripP (update_plan P cfg orc' status sk) = update_plan P cfg0 orc status (stripP sk).
Proof.
  destruct sk as [s k]. unfold update_plan. unpair. cfgnorm. destruct status.
  - reflexivity.
  - change (plan P (co P (strip s))) with (plan P (co P s)).
    destruct (plan_nonempty P (c_cap cfg) (plan P (co P s))).
    + rewrite <- strip_plan_scan.
      destruct (plan_scan P cfg _ _ _ _ s) as [s1 tc]. reflexivity.
    + rewrite deliver_strip. destruct (deliver P cfg orc' Root MPlanSucceeded _) as [s1 k1]. reflexivity.
  - rewrite deliver_strip. destruct (deliver P cfg orc' Root MPlanFailed _) as [s1 k1]. reflexivity.
Qed.

Lemma strip_deep_update_plans sk :
  stripP (deep_update_plans P cfg orc' sk) = deep_update_plans P cfg0 orc (stripP sk).
Proof.
  unfold deep_update_plans. cfgnorm.
  change (co P (fst (stripP sk))) with (set_logger P (co P (fst sk)) false).
  change (plan P (set_logger P (co P (fst sk)) false)) with (plan P (co P (fst sk))).
  change (active P (set_logger P (co P (fst sk)) false)) with (active P (co P (fst sk))).
  change (state_plan_status P (set_logger P (co P (fst sk)) false)) with (state_plan_status P (co P (fst sk))).
  destruct (st_bool _ && _); [apply strip_update_plan|reflexivity].
Qed.

(* ---- requests ---- *)
Lemma strip_apply_request cur d s :
  stripP (apply_request P cur d s) = apply_request P cur d (strip s).
Proof. unfold apply_request. destruct (t_neq P cur (t_to P d)); reflexivity. Qed.

Lemma strip_cancelled_by_guards cur pend s :
  stripP (cancelled_by_guards P cfg orc' cur pend s) = cancelled_by_guards P cfg0 orc cur pend (strip s).
Proof.
  unfold cancelled_by_guards. cfgnorm.
  change (active P (co P (strip s))) with (active P (co P s)).
  rewrite deliver_guard_strip.
  destruct (deliver_guard P cfg orc' _ MExitGuard _) as [[s1 k1] c1]. unpair.
  destruct c1; [reflexivity|].
  change (requested P (co P (strip s1))) with (requested P (co P s1)).
  rewrite deliver_guard_strip.
  destruct (deliver_guard P cfg orc' _ MEntryGuard _) as [[s2 k2] c2]. reflexivity.
Qed.

Lemma strip_cancelled_by_entry_guards cur pend s :
  stripP (cancelled_by_entry_guards P cfg orc' cur pend s) = cancelled_by_entry_guards P cfg0 orc cur pend (strip s).
Proof.
  unfold cancelled_by_entry_guards. cfgnorm.
  rewrite deliver_guard_strip.
  destruct (deliver_guard P cfg orc' Root MEntryGuard _) as [[s1 k1] c1]. unpair.
  destruct c1; [reflexivity|].
  change (requested P (co P (strip s1))) with (requested P (co P s1)).
  rewrite deliver_guard_strip.
  destruct (deliver_guard P cfg orc' _ MEntryGuard _) as [[s2 k2] c2]. reflexivity.
Qed.

Lemma strip_state_exit w k s :
  strip (state_exit P cfg orc' w k s) = state_exit P cfg0 orc w k (strip s).
Proof.
  unfold state_exit. cfgnorm. rewrite deliver_strip.
  destruct (deliver P cfg orc' w MExit (s, k)) as [s1 k1]. unpair.
  destruct (exists_who cfg w); reflexivity.
Qed.

Lemma strip_deep_change_to_requested cur s :
  strip (deep_change_to_requested P cfg orc' cur s) = deep_change_to_requested P cfg0 orc cur (strip s).
Proof.
  unfold deep_change_to_requested. cbn zeta. cfgnorm.
  change (requested P (co P (strip s))) with (requested P (co P s)).
  change (active P (co P (strip s))) with (active P (co P s)).
  destruct (negb (_ =? _)).
  - rewrite <- strip_state_exit.
    set (s1 := state_exit P cfg orc' _ _ s).
    rewrite strip_fst, strip_deliver. reflexivity.
  - rewrite strip_fst, strip_deliver. reflexivity.
Qed.

Lemma strip_deep_enter cur s :
  strip (deep_enter P cfg orc' cur s) = deep_enter P cfg0 orc cur (strip s).
Proof.
  unfold deep_enter. cbn zeta. cfgnorm.
  rewrite (upd_core_strip _ s) by reflexivity. rewrite deliver_strip.
  destruct (deliver P cfg orc' Root MEnter _) as [s2 k2]. unpair.
  rewrite strip_fst, strip_deliver. reflexivity.
Qed.

Lemma strip_deep_exit s : strip (deep_exit P cfg orc' s) = deep_exit P cfg0 orc (strip s).
Proof.
  unfold deep_exit. cbn zeta. cfgnorm.
  change (active P (co P (strip s))) with (active P (co P s)).
  rewrite <- !strip_state_exit.
  destruct (c_plans cfg); reflexivity.
Qed.

(* ---- the transition loops ---- *)
Lemma strip_transitions_loop : forall fuel cur s,
  stripP (transitions_loop P cfg orc' fuel cur s) = transitions_loop P cfg0 orc fuel cur (strip s).
Proof.
  induction fuel as [|f IH]; intros cur s; cbn [transitions_loop]; [reflexivity|].
  change (request P (co P (strip s))) with (request P (co P s)).
  destruct (t_valid P (request P (co P s))); [|reflexivity].
  rewrite <- strip_apply_request.
  destruct (apply_request P cur _ s) as [s1 applied]. unpair.
  destruct applied.
  - change (request P (co P (strip s1))) with (request P (co P s1)).
    rewrite (upd_core_strip _ s1) by reflexivity.
    rewrite <- strip_cancelled_by_guards.
    destruct (cancelled_by_guards P cfg orc' cur _ _) as [s3 cancelled]. unpair.
    destruct cancelled; rewrite IH; reflexivity.
  - rewrite IH. reflexivity.
Qed.

Lemma strip_process_transitions s :
  stripP (process_transitions P cfg orc' s) = process_transitions P cfg0 orc (strip s).
Proof.
  unfold process_transitions. cfgnorm. rewrite <- strip_transitions_loop.
  destruct (transitions_loop P cfg orc' _ _ s) as [s1 cur]. unpair.
  destruct (t_valid P cur).
  - rewrite <- strip_deep_change_to_requested. reflexivity.
  - reflexivity.
Qed.

Lemma strip_process_request s :
  strip (process_request P cfg orc' s) = process_request P cfg0 orc (strip s).
Proof.
  unfold process_request. cfgnorm.
  change (request P (co P (strip s))) with (request P (co P s)).
  destruct (t_valid P (request P (co P s))).
  - rewrite <- strip_process_transitions.
    destruct (process_transitions P cfg orc' s) as [s1 cur]. unpair.
    destruct (c_history cfg); reflexivity.
  - destruct (c_history cfg); reflexivity.
Qed.

Lemma strip_initial_loop : forall fuel cur s,
  stripP (initial_loop P cfg orc' fuel cur s) = initial_loop P cfg0 orc fuel cur (strip s).
Proof.
  induction fuel as [|f IH]; intros cur s; cbn [initial_loop]; [reflexivity|].
  change (request P (co P (strip s))) with (request P (co P s)).
  destruct (t_valid P (request P (co P s))); [|reflexivity].
  rewrite <- strip_apply_request.
  destruct (apply_request P cur _ s) as [s1 applied]. unpair.
  destruct applied.
  - change (request P (co P (strip s1))) with (request P (co P s1)).
    rewrite (upd_core_strip _ s1) by reflexivity.
    rewrite <- strip_cancelled_by_entry_guards.
    destruct (cancelled_by_entry_guards P cfg orc' cur _ _) as [s3 cancelled]. unpair.
    destruct cancelled; rewrite IH; reflexivity.
  - rewrite IH. reflexivity.
Qed.

Lemma strip_initial_enter s :
  strip (initial_enter P cfg orc' s) = initial_enter P cfg0 orc (strip s).
Proof.
  unfold initial_enter. cfgnorm.
  rewrite <- strip_apply_request.
  destruct (apply_request P (t_empty P) 0 s) as [s1 b1]. unpair.
  rewrite <- strip_cancelled_by_entry_guards.
  destruct (cancelled_by_entry_guards P cfg orc' _ _ s1) as [s2 b2]. unpair.
  rewrite <- strip_initial_loop.
  destruct (initial_loop P cfg orc' _ _ s2) as [s3 cur]. unpair.
  destruct (c_history cfg).
  - rewrite (upd_core_strip _ s3) by reflexivity. rewrite <- strip_deep_enter. reflexivity.
  - rewrite <- strip_deep_enter. reflexivity.
Qed.

Lemma strip_final_exit s : strip (final_exit P cfg orc' s) = final_exit P cfg0 orc (strip s).
Proof.
  unfold final_exit. cbn zeta. cfgnorm. rewrite <- strip_deep_exit.
  rewrite upd_core_strip; [reflexivity|].
  intros c. destruct (c_plans cfg), (c_history cfg); reflexivity.
Qed.

(* ---- update / react / query ---- *)
Lemma region_phase_strip m post s k :
  region_phase P cfg0 orc m post (strip s, k) = stripP (region_phase P cfg orc' m post (s, k)).
Proof. exact (eq_sym (strip_region_phase m post (s, k))). Qed.

Lemma strip_cycle mpre mmid mpost s :
  strip (cycle P cfg orc' mpre mmid mpost s) = cycle P cfg0 orc mpre mmid mpost (strip s).
Proof.
  unfold cycle. cbn zeta. cfgnorm.
  rewrite region_phase_strip, <- !strip_region_phase.
  set (sk := region_phase P cfg orc' mpost true _).
  destruct (c_plans cfg).
  - rewrite <- strip_deep_update_plans.
    destruct (deep_update_plans P cfg orc' sk) as [s1 k1]. unpair.
    rewrite upd_plan_strip. apply strip_process_request.
  - destruct sk as [s1 k1]. unpair. apply strip_process_request.
Qed.

Lemma strip_update s : strip (update P cfg orc' s) = update P cfg0 orc (strip s).
Proof. apply strip_cycle. Qed.
Lemma strip_react s : strip (react P cfg orc' s) = react P cfg0 orc (strip s).
Proof. apply strip_cycle. Qed.

Lemma strip_query s : strip (query P cfg orc' s) = query P cfg0 orc (strip s).
Proof.
  unfold query. cbn zeta. cfgnorm. rewrite deliver_strip.
  destruct (deliver P cfg orc' Root MQuery _) as [s1 k1]. unpair.
  rewrite strip_fst, strip_deliver. reflexivity.
Qed.

(* ---- the rest of the public API ---- *)
Lemma strip_change_to d p s : strip (change_to P cfg d p s) = change_to P cfg0 d p (strip s).
Proof. unfold change_to. rewrite strip_log_rec, log_rec_off by reflexivity. reflexivity. Qed.

Lemma strip_immediate_change_to d p s :
  strip (immediate_change_to P cfg orc' d p s) = immediate_change_to P cfg0 orc d p (strip s).
Proof. unfold immediate_change_to. rewrite strip_process_request, strip_change_to. reflexivity. Qed.

Lemma strip_api_succeed sid s : strip (api_succeed P cfg sid s) = api_succeed P cfg0 sid (strip s).
Proof. unfold api_succeed. rewrite strip_log_rec, log_rec_off by reflexivity. reflexivity. Qed.

Lemma strip_api_fail sid s : strip (api_fail P cfg sid s) = api_fail P cfg0 sid (strip s).
Proof. unfold api_fail. rewrite strip_log_rec, log_rec_off by reflexivity. reflexivity. Qed.

Lemma strip_replay_transition d s :
  stripP (replay_transition P cfg orc' d s) = replay_transition P cfg0 orc d (strip s).
Proof.
  unfold replay_transition. destruct (negb (d =? INVALID)); [|reflexivity].
  cbn zeta. rewrite (upd_core_strip _ s) by reflexivity.
  rewrite <- strip_apply_request.
  destruct (apply_request P (t_empty P) d _) as [s1 b1]. unpair.
  rewrite (upd_core_strip _ s1) by reflexivity.
  rewrite <- strip_deep_change_to_requested. reflexivity.
Qed.

Lemma strip_replay_enter d s :
  strip (replay_enter P cfg orc' d s) = replay_enter P cfg0 orc d (strip s).
Proof.
  unfold replay_enter.
  rewrite <- strip_apply_request.
  destruct (apply_request P (t_empty P) d s) as [s1 b1]. unpair.
  rewrite (upd_core_strip _ s1) by reflexivity.
  rewrite <- strip_deep_enter. reflexivity.
Qed.

(* ---- serialization: load ---- *)
Lemma strip_base_load buf cursor s :
  strip (base_load P cfg orc' buf cursor s) = base_load P cfg0 orc buf cursor (strip s).
Proof.
  unfold base_load. cbn zeta. cfgnorm.
  destruct (read buf cursor (width_bits cfg)) as [v c1].
  rewrite strip_deep_change_to_requested. f_equal.
  rewrite strip_upd_core; [reflexivity|].
  intros c. destruct (c_plans cfg), (c_history cfg); reflexivity.
Qed.

Lemma strip_load_enter buf cursor s :
  strip (load_enter P cfg orc' buf cursor s) = load_enter P cfg0 orc buf cursor (strip s).
Proof.
  unfold load_enter. cfgnorm. destruct (read buf cursor (width_bits cfg)) as [v c1].
  rewrite strip_deep_enter. reflexivity.
Qed.

Lemma strip_load buf s : strip (load P cfg orc' buf s) = load P cfg0 orc buf (strip s).
Proof.
  unfold load. cfgnorm. destruct (read buf 0 1) as [flag c1].
  change (machine_is_active P (co P (strip s))) with (machine_is_active P (co P s)).
  destruct (c_manual cfg), (negb (flag =? 0)%N), (machine_is_active P (co P s));
    auto using strip_base_load, strip_load_enter, strip_final_exit.
Qed.

Lemma strip_api_plan_op a s :
  stripP (api_plan_op P cfg a s) = api_plan_op P cfg0 a (strip s).
Proof.
  unfold api_plan_op.
  pose proof (strip_perform INVALID a (s, mk_ctl P KPlan (t_empty P) (t_empty P))) as H.
  change (stripP (s, mk_ctl P KPlan (t_empty P) (t_empty P))) with (strip s, mk_ctl P KPlan (t_empty P) (t_empty P)) in H.
  rewrite <- H.
  destruct (perform P cfg INVALID a _) as [[s1 k1] res]. reflexivity.
Qed.

(* ---- one API operation ---- *)
Definition detach_op (op : api_op P) : api_op P :=
  match op with OAttachLogger _ _ => OAttachLogger P false | o => o end.

Lemma strip_step s op :
  stripP (step P cfg orc' s op) = step P cfg0 orc (strip s) (detach_op op).
Proof.
  destruct op; cbn [step detach_op]; unfold stripP; cbn [fst snd];
    try (f_equal;
         auto using strip_initial_enter, strip_final_exit, strip_update, strip_react, strip_query,
           strip_change_to, strip_immediate_change_to, strip_api_succeed, strip_api_fail,
           strip_load, strip_replay_enter; fail);
    try (rewrite <- strip_api_plan_op; reflexivity).
  rewrite <- strip_replay_transition.
  destruct (replay_transition P cfg orc' d s) as [s1 b]. reflexivity.
Qed.

Theorem step_transparent s op :
  strip (fst (step P cfg orc' s op)) = fst (step P cfg0 orc (strip s) (detach_op op)) /\
  snd (step P cfg orc' s op) = snd (step P cfg0 orc (strip s) (detach_op op)).
Proof. rewrite <- strip_step. split; reflexivity. Qed.

Lemma strip_run_from : forall ops s,
  strip (run_from P cfg orc' s ops) = run_from P cfg0 orc (strip s) (map detach_op ops).
Proof.
  unfold run_from. induction ops as [|op ops IH]; intros s; cbn [fold_left map]; [reflexivity|].
  rewrite IH. rewrite strip_fst, strip_step. reflexivity.
Qed.

Lemma strip_construct lg : strip (construct P cfg orc' lg) = construct P cfg0 orc false.
Proof.
  unfold construct. cbn zeta. cfgnorm. destruct (c_manual cfg); [reflexivity|].
  rewrite strip_initial_enter. reflexivity.
Qed.
End WithOracle.
End WithCfg.
End LogT.

Arguments stripP {P A}.
Arguments strip3 {P A B}.

(* ================= (A) the theorems, closed ================= *)

(* C16, general form: a run with any logger history under [cfg], stripped of the logger and its records, IS the
   run without a logger under the same configuration compiled with any log mode [lm] *)
Theorem log_transparent_gen : forall P cfg lm orc orc', log_blind P orc orc' -> forall ops s,
  strip P (run_from P cfg orc' s ops) =
  run_from P (with_log cfg lm) orc (strip P s) (map (detach_op P) ops).
Proof. intros P cfg lm orc orc' Hb ops s. apply strip_run_from. exact Hb. Qed.

(* C16: attaching, detaching or omitting the logger changes nothing but the logger's own records *)
Theorem log_transparent : forall P cfg orc orc', log_blind P orc orc' -> forall ops s,
  strip P (run_from P cfg orc' s ops) = run_from P cfg orc (strip P s) (map (detach_op P) ops).
Proof.
  intros P cfg orc orc' Hb ops s.
  rewrite (log_transparent_gen P cfg (c_log cfg) orc orc' Hb), with_log_same. reflexivity.
Qed.

Theorem step_log_transparent_gen : forall P cfg lm orc orc', log_blind P orc orc' -> forall s op,
  strip P (fst (step P cfg orc' s op)) = fst (step P (with_log cfg lm) orc (strip P s) (detach_op P op)) /\
  snd (step P cfg orc' s op) = snd (step P (with_log cfg lm) orc (strip P s) (detach_op P op)).
Proof. intros P cfg lm orc orc' Hb s op. apply step_transparent. exact Hb. Qed.

Theorem step_log_transparent : forall P cfg orc orc', log_blind P orc orc' -> forall s op,
  strip P (fst (step P cfg orc' s op)) = fst (step P cfg orc (strip P s) (detach_op P op)) /\
  snd (step P cfg orc' s op) = snd (step P cfg orc (strip P s) (detach_op P op)).
Proof.
  intros P cfg orc orc' Hb s op.
  pose proof (step_log_transparent_gen P cfg (c_log cfg) orc orc' Hb s op) as H.
  rewrite with_log_same in H. exact H.
Qed.

(* every oracle has a log-blind companion *)
Lemma log_blind_erase P (orc : oracle P) : log_blind P orc (fun t => orc (erase P t)).
Proof. intros t w r m v. reflexivity. Qed.

(* the scripted oracle of the correspondence check (Model/Script.v) counts callback deliveries only, so it is
   its own log-blind companion: the theorems apply to it with orc' = orc *)
Lemma occurrences_erase P t w r m : occurrences P (erase P t) w r m = occurrences P t w r m.
Proof.
  unfold occurrences, erase. induction t as [|e t IH]; [reflexivity|].
  destruct e as [w' r' m' v|a res|l]; cbn [filter is_log negb].
  - destruct (who_eqb w w' && rec_eqb r r' && method_eqb m m'); cbn [length]; rewrite IH; reflexivity.
  - exact IH.
  - exact IH.
Qed.

Lemma table_oracle_log_blind P tab : log_blind P (table_oracle P tab) (table_oracle P tab).
Proof. intros t w r m v. unfold table_oracle. rewrite occurrences_erase. reflexivity. Qed.

(* (i) construction *)
Corollary construct_log_transparent_gen : forall P cfg lm orc orc', log_blind P orc orc' -> forall lg,
  strip P (construct P cfg orc' lg) = construct P (with_log cfg lm) orc false.
Proof. intros P cfg lm orc orc' Hb lg. apply strip_construct. exact Hb. Qed.

Corollary construct_log_transparent : forall P cfg orc orc', log_blind P orc orc' -> forall lg,
  strip P (construct P cfg orc' lg) = construct P cfg orc false.
Proof.
  intros P cfg orc orc' Hb lg.
  rewrite (construct_log_transparent_gen P cfg (c_log cfg) orc orc' Hb), with_log_same. reflexivity.
Qed.

Corollary run_log_transparent_gen : forall P cfg lm orc orc', log_blind P orc orc' -> forall lg ops,
  strip P (run P cfg orc' lg ops) = run P (with_log cfg lm) orc false (map (detach_op P) ops).
Proof.
  intros P cfg lm orc orc' Hb lg ops. unfold run.
  rewrite (log_transparent_gen P cfg lm orc orc' Hb), (construct_log_transparent_gen P cfg lm orc orc' Hb).
  reflexivity.
Qed.

Corollary run_log_transparent : forall P cfg orc orc', log_blind P orc orc' -> forall lg ops,
  strip P (run P cfg orc' lg ops) = run P cfg orc false (map (detach_op P) ops).
Proof.
  intros P cfg orc orc' Hb lg ops.
  rewrite (run_log_transparent_gen P cfg (c_log cfg) orc orc' Hb), with_log_same. reflexivity.
Qed.

(* with no logger attached the compile-time log mode is unobservable *)
Corollary log_mode_irrelevant : forall P cfg lm1 lm2 orc ops s,
  run_from P (with_log cfg lm1) orc (strip P s) (map (detach_op P) ops) =
  run_from P (with_log cfg lm2) orc (strip P s) (map (detach_op P) ops).
Proof.
  intros P cfg lm1 lm2 orc ops s.
  rewrite <- (log_transparent_gen P cfg lm1 orc _ (log_blind_erase P orc)).
  apply log_transparent_gen, log_blind_erase.
Qed.

Corollary run_log_mode_irrelevant : forall P cfg lm1 lm2 orc ops,
  run P (with_log cfg lm1) orc false (map (detach_op P) ops) =
  run P (with_log cfg lm2) orc false (map (detach_op P) ops).
Proof.
  intros P cfg lm1 lm2 orc ops.
  rewrite <- (run_log_transparent_gen P cfg lm1 orc _ (log_blind_erase P orc) false).
  apply run_log_transparent_gen, log_blind_erase.
Qed.

(* (ii) the final cores agree in everything but the logger pointer *)
Lemma strip_core_fields P (s t : mstate P) : strip P s = t ->
  active P (co P s) = active P (co P t) /\ requested P (co P s) = requested P (co P t) /\
  request P (co P s) = request P (co P t) /\ previous P (co P s) = previous P (co P t) /\
  plan P (co P s) = plan P (co P t).
Proof. intros H. subst t. repeat split; reflexivity. Qed.

Corollary log_transparent_core : forall P cfg orc orc', log_blind P orc orc' -> forall ops s,
  let l := co P (run_from P cfg orc' s ops) in
  let r := co P (run_from P cfg orc (strip P s) (map (detach_op P) ops)) in
  active P l = active P r /\ requested P l = requested P r /\ request P l = request P r /\
  previous P l = previous P r /\ plan P l = plan P r.
Proof. intros P cfg orc orc' Hb ops s. apply strip_core_fields, log_transparent, Hb. Qed.

Corollary run_log_transparent_core : forall P cfg orc orc', log_blind P orc orc' -> forall lg ops,
  let l := co P (run P cfg orc' lg ops) in
  let r := co P (run P cfg orc false (map (detach_op P) ops)) in
  active P l = active P r /\ requested P l = requested P r /\ request P l = request P r /\
  previous P l = previous P r /\ plan P l = plan P r.
Proof. intros P cfg orc orc' Hb lg ops. apply strip_core_fields, run_log_transparent, Hb. Qed.

(* what the instance reports between API calls (Machine.observe) does not depend on the logger *)
Corollary run_log_transparent_observe : forall P cfg orc orc', log_blind P orc orc' -> forall lg ops,
  observe P cfg (co P (run P cfg orc' lg ops)) =
  observe P cfg (co P (run P cfg orc false (map (detach_op P) ops))).
Proof.
  intros P cfg orc orc' Hb lg ops. rewrite <- (run_log_transparent P cfg orc orc' Hb lg ops). reflexivity.
Qed.

(* (iii) the sequence of callback deliveries (with the views they saw) and of actions (with their results)
   is identical *)
Corollary log_transparent_trace : forall P cfg orc orc', log_blind P orc orc' -> forall ops s,
  erase P (tr P (run_from P cfg orc' s ops)) =
  tr P (run_from P cfg orc (strip P s) (map (detach_op P) ops)).
Proof.
  intros P cfg orc orc' Hb ops s. rewrite <- (log_transparent P cfg orc orc' Hb ops s). reflexivity.
Qed.

Lemma strip_clean P (s : mstate P) :
  (forall e, In e (tr P s) -> is_log P e = false) -> forall lg,
  strip P (upd_core P (fun c => set_logger P c lg) s) = upd_core P (fun c => set_logger P c false) s.
Proof.
  intros H lg. unfold strip, upd_core. cbn [co tr]. rewrite (erase_nolog P _ H). reflexivity.
Qed.

Corollary log_transparent_trace_clean : forall P cfg orc orc', log_blind P orc orc' -> forall ops s lg,
  (forall e, In e (tr P s) -> is_log P e = false) ->
  erase P (tr P (run_from P cfg orc' (upd_core P (fun c => set_logger P c lg) s) ops)) =
  tr P (run_from P cfg orc (upd_core P (fun c => set_logger P c false) s) (map (detach_op P) ops)).
Proof.
  intros P cfg orc orc' Hb ops s lg H.
  rewrite (log_transparent_trace P cfg orc orc' Hb), (strip_clean P s H). reflexivity.
Qed.

Corollary run_log_transparent_trace : forall P cfg orc orc', log_blind P orc orc' -> forall lg ops,
  erase P (tr P (run P cfg orc' lg ops)) = tr P (run P cfg orc false (map (detach_op P) ops)).
Proof.
  intros P cfg orc orc' Hb lg ops. rewrite <- (run_log_transparent P cfg orc orc' Hb lg ops). reflexivity.
Qed.

(* the run without a logger contains no log record at all, so the equation above is between the logged run
   with its records deleted and the complete unlogged run *)
Corollary run_unlogged_trace_clean : forall P cfg orc ops e,
  In e (tr P (run P cfg orc false (map (detach_op P) ops))) -> is_log P e = false.
Proof.
  intros P cfg orc ops e.
  rewrite <- (run_log_transparent_trace P cfg orc _ (log_blind_erase P orc) false ops).
  apply erase_is_nolog.
Qed.

(* for the scripted oracle, orc' = orc *)
Corollary run_log_transparent_scripted : forall P cfg tab lg ops,
  strip P (run P cfg (table_oracle P tab) lg ops) =
  run P cfg (table_oracle P tab) false (map (detach_op P) ops).
Proof. intros P cfg tab lg ops. apply run_log_transparent, table_oracle_log_blind. Qed.

Print Assumptions log_transparent_gen.
Print Assumptions log_transparent.
Print Assumptions step_log_transparent.
Print Assumptions run_log_transparent.
Print Assumptions run_log_mode_irrelevant.
Print Assumptions run_log_transparent_core.
Print Assumptions run_log_transparent_observe.
Print Assumptions log_transparent_trace_clean.
Print Assumptions run_log_transparent_trace.
Print Assumptions run_log_transparent_scripted.

(* ================= (B) log faithfulness, function level ================= *)
Section Faithful.
Variable P : Type.
Variable cfg : config.

Definition logging (s : mstate P) : bool := log_compiled cfg && logger P (co P s).

(* the records one action through a control of kind [kind] and origin [origin] must produce *)
Definition perform_records (origin : nat) (a : action P) (kind : ckind) : list log_record :=
  match a with
  | AChange _ d => if can_change kind then [LTransition origin d] else []
  | AChangeWith _ d _ => if can_change kind && c_payload cfg then [LTransition origin d] else []
  | ACancel _ => match kind with KGuard => [LCancelled origin] | _ => [] end
  | ASucceed _ so =>
      let sid := match so with None => origin | Some x => x end in
      if can_change kind && c_plans cfg && negb (sid =? INVALID) then [LTaskStatus sid true] else []
  | AFail _ so =>
      let sid := match so with None => origin | Some x => x end in
      if can_change kind && c_plans cfg && negb (sid =? INVALID) then [LTaskStatus sid false] else []
  | _ => []
  end.

Lemma log_rec_tr l s :
  tr P (log_rec P cfg l s) = (if logging s then [EvLog P l] else []) ++ tr P s.
Proof. unfold log_rec, logging. destruct (log_compiled cfg && logger P (co P s)); reflexivity. Qed.

Lemma log_rec_logger l s : logger P (co P (log_rec P cfg l s)) = logger P (co P s).
Proof. rewrite co_log_rec. reflexivity. Qed.

(* perform: exactly the records of [perform_records], and only with a logger attached *)
Theorem perform_log origin a s k :
  tr P (fst (fst (perform P cfg origin a (s, k)))) =
  map (EvLog P) (if logging s then perform_records origin a (k_kind P k) else []) ++ tr P s.
Proof.
  destruct a as [d|d p| |so|so|o d|o d p| |i]; cbn [perform perform_records].
  - destruct (can_change (k_kind P k)); cbn [fst snd]; [|destruct (logging s); reflexivity].
    rewrite log_rec_tr. change (logging (upd_core P _ s)) with (logging s). destruct (logging s); reflexivity.
  - destruct (can_change (k_kind P k) && c_payload cfg); cbn [fst snd]; [|destruct (logging s); reflexivity].
    rewrite log_rec_tr. change (logging (upd_core P _ s)) with (logging s). destruct (logging s); reflexivity.
  - destruct (k_kind P k); cbn [fst snd]; try (destruct (logging s); reflexivity).
    rewrite log_rec_tr. destruct (logging s); reflexivity.
  - destruct (can_change (k_kind P k) && c_plans cfg && negb (_ =? INVALID)); cbn [fst snd]; [|destruct (logging s); reflexivity].
    rewrite log_rec_tr. change (logging (upd_core P _ s)) with (logging s). destruct (logging s); reflexivity.
  - destruct (can_change (k_kind P k) && c_plans cfg && negb (_ =? INVALID)); cbn [fst snd]; [|destruct (logging s); reflexivity].
    rewrite log_rec_tr. change (logging (upd_core P _ s)) with (logging s). destruct (logging s); reflexivity.
  - destruct (can_plan cfg (k_kind P k)); [destruct (plan_append _ _ _ _ _) as [pd ok]|]; destruct (logging s); reflexivity.
  - destruct (can_plan cfg (k_kind P k) && c_payload cfg); [destruct (plan_append_with _ _ _ _ _ _) as [pd ok]|]; destruct (logging s); reflexivity.
  - destruct (can_plan cfg (k_kind P k)); destruct (logging s); reflexivity.
  - destruct (can_plan cfg (k_kind P k)); [destruct (plan_remove_at _ _ _ _) as [pd seen]|]; destruct (logging s); reflexivity.
Qed.

(* a refused action is silent *)
Theorem perform_ignored_silent origin a s k :
  snd (perform P cfg origin a (s, k)) = RIgnored P ->
  tr P (fst (fst (perform P cfg origin a (s, k)))) = tr P s.
Proof.
  destruct a as [d|d p| |so|so|o d|o d p| |i]; cbn [perform].
  - destruct (can_change (k_kind P k)); cbn [fst snd]; [discriminate|reflexivity].
  - destruct (can_change (k_kind P k) && c_payload cfg); cbn [fst snd]; [discriminate|reflexivity].
  - destruct (k_kind P k); cbn [fst snd]; try discriminate; reflexivity.
  - destruct (can_change (k_kind P k) && c_plans cfg && negb (_ =? INVALID)); cbn [fst snd]; [discriminate|reflexivity].
  - destruct (can_change (k_kind P k) && c_plans cfg && negb (_ =? INVALID)); cbn [fst snd]; [discriminate|reflexivity].
  - destruct (can_plan cfg (k_kind P k)); [destruct (plan_append _ _ _ _ _) as [pd ok]|]; reflexivity.
  - destruct (can_plan cfg (k_kind P k) && c_payload cfg); [destruct (plan_append_with _ _ _ _ _ _) as [pd ok]|]; reflexivity.
  - destruct (can_plan cfg (k_kind P k)); reflexivity.
  - destruct (can_plan cfg (k_kind P k)); [destruct (plan_remove_at _ _ _ _) as [pd seen]|]; reflexivity.
Qed.

(* the readable instances of perform_log, logger attached *)
Corollary perform_log_change origin d s k : logging s = true -> can_change (k_kind P k) = true ->
  tr P (fst (fst (perform P cfg origin (AChange P d) (s, k)))) = EvLog P (LTransition origin d) :: tr P s.
Proof. intros HL HK. rewrite perform_log, HL. cbn [perform_records]. rewrite HK. reflexivity. Qed.

Corollary perform_log_change_with origin d p s k :
  logging s = true -> can_change (k_kind P k) = true -> c_payload cfg = true ->
  tr P (fst (fst (perform P cfg origin (AChangeWith P d p) (s, k)))) = EvLog P (LTransition origin d) :: tr P s.
Proof. intros HL HK HP. rewrite perform_log, HL. cbn [perform_records]. rewrite HK, HP. reflexivity. Qed.

Corollary perform_log_cancel origin s k : logging s = true -> k_kind P k = KGuard ->
  tr P (fst (fst (perform P cfg origin (ACancel P) (s, k)))) = EvLog P (LCancelled origin) :: tr P s.
Proof. intros HL HK. rewrite perform_log, HL. cbn [perform_records]. rewrite HK. reflexivity. Qed.

Corollary perform_log_status origin so s k (ok : bool) :
  let sid := match so with None => origin | Some x => x end in
  logging s = true -> can_change (k_kind P k) = true -> c_plans cfg = true -> sid <> INVALID ->
  tr P (fst (fst (perform P cfg origin (if ok then ASucceed P so else AFail P so) (s, k)))) =
  EvLog P (LTaskStatus sid ok) :: tr P s.
Proof.
  intros sid HL HK HP HS. apply Nat.eqb_neq in HS.
  rewrite perform_log, HL. destruct ok; cbn [perform_records]; fold sid; rewrite HK, HP, HS; reflexivity.
Qed.

Corollary perform_log_plan_ops origin a s k :
  match a with APlanAppend _ _ _ | APlanAppendWith _ _ _ _ | APlanClear _ | APlanRemoveAt _ _ => True | _ => False end ->
  tr P (fst (fst (perform P cfg origin a (s, k)))) = tr P s.
Proof. intros H. rewrite perform_log. destruct a; try contradiction; destruct (logging s); reflexivity. Qed.

Corollary perform_log_detached origin a s k : logging s = false ->
  tr P (fst (fst (perform P cfg origin a (s, k)))) = tr P s.
Proof. intros HL. rewrite perform_log, HL. reflexivity. Qed.

Lemma perform_logging origin a s k : logging (fst (fst (perform P cfg origin a (s, k)))) = logging s.
Proof.
  unfold logging. f_equal.
  destruct a as [d|d p| |so|so|o d|o d p| |i]; cbn [perform].
  - destruct (can_change (k_kind P k)); cbn [fst snd]; [rewrite log_rec_logger|]; reflexivity.
  - destruct (can_change (k_kind P k) && c_payload cfg); cbn [fst snd]; [rewrite log_rec_logger|]; reflexivity.
  - destruct (k_kind P k); cbn [fst snd]; try reflexivity. rewrite log_rec_logger. reflexivity.
  - destruct (can_change (k_kind P k) && c_plans cfg && negb (_ =? INVALID)); cbn [fst snd]; [rewrite log_rec_logger|]; reflexivity.
  - destruct (can_change (k_kind P k) && c_plans cfg && negb (_ =? INVALID)); cbn [fst snd]; [rewrite log_rec_logger|]; reflexivity.
  - destruct (can_plan cfg (k_kind P k)); [destruct (plan_append _ _ _ _ _) as [pd ok]|]; reflexivity.
  - destruct (can_plan cfg (k_kind P k) && c_payload cfg); [destruct (plan_append_with _ _ _ _ _ _) as [pd ok]|]; reflexivity.
  - destruct (can_plan cfg (k_kind P k)); reflexivity.
  - destruct (can_plan cfg (k_kind P k)); [destruct (plan_remove_at _ _ _ _) as [pd seen]|]; reflexivity.
Qed.

(* ---- method records sit directly under the callbacks they announce ---- *)
(* an event that is neither a callback nor a method record *)
Definition quiet (e : event P) : Prop :=
  match e with EvCb _ _ _ _ _ => False | EvLog _ (LMethod _ _) => False | _ => True end.
(* an event that may follow the method record of (w, m): callbacks of (w, m) only, no further method record *)
Definition under (w : who) (m : method) (e : event P) : Prop :=
  match e with EvCb _ w' _ m' _ => w' = w /\ m' = m | EvLog _ (LMethod _ _) => False | _ => True end.

Lemma quiet_under w m e : quiet e -> under w m e.
Proof. destruct e as [w' r m' v|a res|l]; cbn; try tauto. Qed.

Lemma perform_records_quiet origin a kind :
  Forall quiet (map (EvLog P) (perform_records origin a kind)).
Proof.
  destruct a; cbn [perform_records];
    repeat match goal with |- context [if ?b then _ else _] => destruct b end;
    try destruct kind; cbn [map]; repeat constructor.
Qed.

Lemma perform_all_tr origin : forall acts s k,
  exists new, tr P (fst (perform_all P cfg origin acts (s, k))) = new ++ tr P s /\ Forall quiet new.
Proof.
  unfold perform_all.
  induction acts as [|a acts IH]; intros s k; cbn [fold_left].
  - exists []. split; [reflexivity|constructor].
  - pose proof (perform_log origin a s k) as HT.
    destruct (perform P cfg origin a (s, k)) as [[s1 k1] res]. cbn [fst snd] in HT.
    destruct (IH (emit P (EvAct P a res) s1) k1) as (new & E & Q).
    exists (new ++ EvAct P a res :: map (EvLog P) (if logging s then perform_records origin a (k_kind P k) else [])).
    split.
    + rewrite E. cbn [emit tr]. rewrite HT, <- app_assoc. reflexivity.
    + apply Forall_app. split; [exact Q|]. constructor; [exact I|].
      destruct (logging s); [apply perform_records_quiet|constructor].
Qed.

Variable orc : oracle P.

Lemma invoke_tr w r m s k :
  exists new, tr P (fst (invoke P cfg orc w r m (s, k))) = new ++ tr P s /\ Forall (under w m) new.
Proof.
  unfold invoke.
  destruct (perform_all_tr (id_of w) (orc (tr P s) w r m (mk_view P cfg (id_of w) k (co P s)))
              (emit P (EvCb P w r m (mk_view P cfg (id_of w) k (co P s))) s) k) as (new & E & Q).
  exists (new ++ [EvCb P w r m (mk_view P cfg (id_of w) k (co P s))]). split.
  - rewrite E, <- app_assoc. reflexivity.
  - apply Forall_app. split.
    + eapply Forall_impl; [|exact Q]. intros e. apply quiet_under.
    + constructor; [split; reflexivity|constructor].
Qed.

Lemma deliver_fold_tr w m : forall rs s k,
  exists new,
    tr P (fst (fold_left (fun sk r => if delivers cfg w r m then invoke P cfg orc w r m sk else sk) rs (s, k))) =
    new ++ tr P s /\ Forall (under w m) new.
Proof.
  induction rs as [|r rs IH]; intros s k; cbn [fold_left].
  - exists []. split; [reflexivity|constructor].
  - destruct (delivers cfg w r m).
    + destruct (invoke_tr w r m s k) as (n1 & E1 & Q1).
      destruct (invoke P cfg orc w r m (s, k)) as [s1 k1]. cbn [fst] in E1.
      destruct (IH s1 k1) as (n2 & E2 & Q2).
      exists (n2 ++ n1). split; [rewrite E2, E1, app_assoc; reflexivity|].
      apply Forall_app. split; assumption.
    + apply IH.
Qed.

(* S_::deepX with a logger attached and the record compiled in: the oldest event it adds is its own method
   record; everything above it is callbacks of (w, m) and the actions/records they cause; no other method
   record intervenes *)
Theorem deliver_log_adjacent w m s k :
  logging s = true -> logs cfg w m = true ->
  exists new,
    tr P (fst (deliver P cfg orc w m (s, k))) = new ++ EvLog P (LMethod (id_of w) m) :: tr P s /\
    Forall (under w m) new.
Proof.
  intros HL HM. unfold deliver. rewrite HM.
  assert (E : log_rec P cfg (LMethod (id_of w) m) s = emit P (EvLog P (LMethod (id_of w) m)) s).
  { unfold log_rec. unfold logging in HL. rewrite HL. reflexivity. }
  rewrite E. destruct (exists_who cfg w).
  - apply deliver_fold_tr.
  - exists []. split; [reflexivity|constructor].
Qed.

(* without the record (not compiled for this state/method, or no logger): no method record at all *)
Theorem deliver_log_silent w m s k :
  logging s && logs cfg w m = false ->
  exists new,
    tr P (fst (deliver P cfg orc w m (s, k))) = new ++ tr P s /\ Forall (under w m) new.
Proof.
  intros H. unfold deliver.
  assert (E : (if logs cfg w m then log_rec P cfg (LMethod (id_of w) m) s else s) = s).
  { destruct (logs cfg w m); [|reflexivity]. rewrite andb_true_r in H.
    unfold log_rec. unfold logging in H. rewrite H. reflexivity. }
  rewrite E. destruct (exists_who cfg w).
  - apply deliver_fold_tr.
  - exists []. split; [reflexivity|constructor].
Qed.

End Faithful.

Print Assumptions perform_log.
Print Assumptions perform_ignored_silent.
Print Assumptions deliver_log_adjacent.
Print Assumptions deliver_log_silent.
