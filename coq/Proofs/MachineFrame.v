(* Frame lemmas for the machine model: what one callback delivery (and everything built from deliveries
   without applying a transition) can and cannot change, and the exact shape of the events it appends.
   The plan's structural invariant is a parameter PI here (instantiated from Proofs/PlanProofs.v in
   Proofs/MachinePlan.v); everything else is proved outright. *)
From Coq Require Import List Arith Bool NArith Lia.
From FFSM2 Require Import Model.TaskList Model.BitArray Model.Plan Model.Ancestors Model.Dispatch
                          Model.Bits Model.BitStream Model.Machine Proofs.DispatchProofs.
Import ListNotations.

Arguments INVALID : simpl never.

Section F.
Variable P : Type.
Variable cfg : config.
Variable orc : oracle P.
Local Notation n := (c_n cfg).
Local Notation cap := (c_cap cfg).
Local Notation mstate := (mstate P).
Local Notation core := (core P).
Local Notation event := (event P).
Local Notation action := (action P).
Local Notation ctl := (ctl P).
Local Notation transition := (transition P).
Local Notation view := (view P).

(* ---- in-contract callbacks ---- *)
Definition wf_action (a : action) : Prop :=
  match a with
  | AChange _ d | AChangeWith _ d _ => d < n
  | ASucceed _ (Some s) | AFail _ (Some s) => s < n
  | APlanAppend _ o d | APlanAppendWith _ o d _ => o < n /\ d < n
  | _ => True
  end.
Definition wf_oracle : Prop := forall t w r m v, Forall wf_action (orc t w r m v).

Definition wf_cfg : Prop := 1 <= n <= 255 /\ 1 <= cap <= 255 /\ c_limit cfg <= 255.

(* the outstanding request, when there is one, names a state of the machine *)
Definition RW (c : core) : Prop := t_valid P (request P c) = true -> t_dest P (request P c) < n.

(* ---- the plan's structural invariant, abstract here: what the machine needs to know about it ---- *)
Variable PI : plan_data P -> Prop.
(* the masks the plan step builds for its deferred clearing: all ones, then single bits cleared *)
Inductive tcmask : ba -> Prop :=
| tm_full : tcmask (ba_set_all (N.of_nat n) (ba_init (N.of_nat n)))
| tm_clear b i : tcmask b -> tcmask (ba_clear b i).

Record plan_inv_ok : Prop := {
  (* the report bits change only through set(i), clear(i) and (successes) &= mask: the invariant may constrain the bit arrays *)
  pio_succ_set : forall d i, PI d -> PI (pd_with_succ P d (ba_set (pd_succ d) i));
  pio_succ_clear : forall d i, PI d -> PI (pd_with_succ P d (ba_clear (pd_succ d) i));
  pio_succ_and : forall d tc, PI d -> tcmask tc -> PI (pd_with_succ P d (ba_and_assign (pd_succ d) tc));
  pio_fail_set : forall d i, PI d -> PI (pd_with_fail P d (ba_set (pd_fail d) i));
  pio_fail_clear : forall d i, PI d -> PI (pd_with_fail P d (ba_clear (pd_fail d) i));
  pio_statuses : forall d h s, PI d -> PI (pd_with_statuses P d h s);
  pio_append : forall d o dst, PI d -> o < n -> dst < n -> PI (fst (plan_append P cap d o dst));
  pio_append_with : forall d o dst p, PI d -> o < n -> dst < n -> PI (fst (plan_append_with P cap d o dst p));
  pio_clear : forall d, PI d -> PI (plan_clear P cap n d);
  pio_remove_at : forall d k, PI d -> PI (fst (plan_remove_at P cap d k));
  pio_pd_clear : forall d, PI d -> PI (pd_clear P d);
  pio_init : PI (pd_init P cap n);
  (* the tasks the plan holds name states of the machine, and firing one removes it from a well-formed plan *)
  pio_task : forall d i, PI d -> In i (plan_indices P cap d) -> tk_dest (task_at P d i) < n;
  pio_next : forall d l1 x l2, PI d -> plan_indices P cap d = l1 ++ x :: l2 -> x < cap /\ it_next P cap d x = hd INVALID l2;
  pio_remove : forall d l1 x l2, PI d -> plan_indices P cap d = l1 ++ x :: l2 ->
               PI (plan_remove P cap d x) /\ plan_indices P cap (plan_remove P cap d x) = l1 ++ l2;
  pio_indices_bits : forall d b, plan_indices P cap (pd_with_succ P d b) = plan_indices P cap d
}.
Hypothesis HPI : plan_inv_ok.
Local Notation PI_succ_set := (pio_succ_set HPI).
Local Notation PI_succ_clear := (pio_succ_clear HPI).
Local Notation PI_succ_and := (pio_succ_and HPI).
Local Notation PI_fail_set := (pio_fail_set HPI).
Local Notation PI_fail_clear := (pio_fail_clear HPI).
Local Notation PI_statuses := (pio_statuses HPI).
Local Notation PI_append := (pio_append HPI).
Local Notation PI_append_with := (pio_append_with HPI).
Local Notation PI_clear := (pio_clear HPI).
Local Notation PI_remove_at := (pio_remove_at HPI).

(* ---- frames ---- *)
Record fr (evp : event -> Prop) (s s' : mstate) : Prop := {
  fr_active : active P (co P s') = active P (co P s);
  fr_requested : requested P (co P s') = requested P (co P s);
  fr_logger : logger P (co P s') = logger P (co P s);
  fr_previous : previous P (co P s') = previous P (co P s);
  fr_rw : RW (co P s) -> RW (co P s');
  fr_pi : PI (plan P (co P s)) -> PI (plan P (co P s'));
  fr_tr : exists l, tr P s' = l ++ tr P s /\ Forall evp l
}.

Lemma fr_refl (evp : event -> Prop) s : fr evp s s.
Proof. constructor; auto. exists []. split; [reflexivity|constructor]. Qed.

Lemma fr_trans (evp : event -> Prop) s1 s2 s3 : fr evp s1 s2 -> fr evp s2 s3 -> fr evp s1 s3.
Proof.
  intros [a1 b1 c1 d1 e1 f1 (l1 & g1 & h1)] [a2 b2 c2 d2 e2 f2 (l2 & g2 & h2)].
  constructor; try congruence; auto.
  exists (l2 ++ l1). split; [rewrite g2, g1, app_assoc; reflexivity|apply Forall_app; split; assumption].
Qed.

Lemma fr_weaken (evp evq : event -> Prop) s s' : (forall e, evp e -> evq e) -> fr evp s s' -> fr evq s s'.
Proof.
  intros H [a b c d e f (l & g & h)]. constructor; auto. exists l. split; [exact g|].
  eapply Forall_impl; [exact H|exact h].
Qed.

Lemma fr_emit (evp : event -> Prop) e s : evp e -> fr evp s (emit P e s).
Proof. intro H. constructor; auto. exists [e]. split; [reflexivity|constructor; [exact H|constructor]]. Qed.

Lemma fr_upd_core (evp : event -> Prop) f s :
  (forall c, active P (f c) = active P c) -> (forall c, requested P (f c) = requested P c) ->
  (forall c, logger P (f c) = logger P c) -> (forall c, previous P (f c) = previous P c) ->
  (RW (co P s) -> RW (f (co P s))) -> (PI (plan P (co P s)) -> PI (plan P (f (co P s)))) ->
  fr evp s (upd_core P f s).
Proof.
  intros a b c d e g. constructor; cbn [upd_core co tr]; auto. exists []. split; [reflexivity|constructor].
Qed.

Definition noncb (e : event) : Prop := match e with EvCb _ _ _ _ _ => False | _ => True end.

Lemma fr_log_rec (evp : event -> Prop) l s : evp (EvLog P l) -> fr evp s (log_rec P cfg l s).
Proof. intro H. unfold log_rec. destruct (log_compiled cfg && logger P (co P s)); [apply fr_emit; exact H|apply fr_refl]. Qed.

(* ---- one action ---- *)
Definition same_ctl_but (k k' : ctl) : Prop :=
  k_kind P k' = k_kind P k /\ k_cur P k' = k_cur P k /\ k_pend P k' = k_pend P k /\
  (k_cancelled P k = true -> k_cancelled P k' = true).

Lemma same_ctl_refl k : same_ctl_but k k.
Proof. repeat split; auto. Qed.
Lemma same_ctl_trans k1 k2 k3 : same_ctl_but k1 k2 -> same_ctl_but k2 k3 -> same_ctl_but k1 k3.
Proof. intros (a & b & c & d) (a' & b' & c' & d'). repeat split; try congruence. auto. Qed.

Lemma RW_set_request c t : (t_valid P t = true -> t_dest P t < n) -> RW (set_request P c t).
Proof. intro H. unfold RW. cbn [set_request request]. exact H. Qed.

Lemma RW_set_plan c d : RW c -> RW (set_plan P c d).
Proof. intro H. exact H. Qed.

Lemma perform_fr origin a s k :
  wf_action a ->
  let '(s', k', _) := perform P cfg origin a (s, k) in
  fr noncb s s' /\ same_ctl_but k k'.
Proof.
  intros Hwf. unfold perform.
  destruct a as [d|d p| |so|so|o d|o d p| |i]; cbn [wf_action] in Hwf.
  - destruct (can_change (k_kind P k)).
    + split; [|apply same_ctl_refl]. eapply fr_trans; [|apply fr_log_rec; exact I].
      apply fr_upd_core; auto. intros _. apply RW_set_request. intros _. exact Hwf.
    + split; [apply fr_refl|apply same_ctl_refl].
  - destruct (can_change (k_kind P k) && c_payload cfg).
    + split; [|apply same_ctl_refl]. eapply fr_trans; [|apply fr_log_rec; exact I].
      apply fr_upd_core; auto. intros _. apply RW_set_request. intros _. exact Hwf.
    + split; [apply fr_refl|apply same_ctl_refl].
  - destruct (k_kind P k); try (split; [apply fr_refl|apply same_ctl_refl]).
    split; [apply fr_log_rec; exact I|]. repeat split; auto.
  - destruct (can_change (k_kind P k) && c_plans cfg && negb (_ =? INVALID)).
    + split; [|repeat split; auto]. eapply fr_trans; [|apply fr_log_rec; exact I].
      apply fr_upd_core; auto. cbn [set_plan plan]. apply PI_succ_set.
    + split; [apply fr_refl|apply same_ctl_refl].
  - destruct (can_change (k_kind P k) && c_plans cfg && negb (_ =? INVALID)).
    + split; [|repeat split; auto]. eapply fr_trans; [|apply fr_log_rec; exact I].
      apply fr_upd_core; auto. cbn [set_plan plan]. apply PI_fail_set.
    + split; [apply fr_refl|apply same_ctl_refl].
  - destruct (can_plan cfg (k_kind P k)); [|split; [apply fr_refl|apply same_ctl_refl]].
    destruct Hwf as [Ho Hd].
    pose proof (PI_append (plan P (co P s)) o d) as HP.
    destruct (plan_append P cap (plan P (co P s)) o d) as [pd ok]. cbn [fst] in HP.
    split; [|apply same_ctl_refl]. apply fr_upd_core; auto.
  - destruct (can_plan cfg (k_kind P k) && c_payload cfg); [|split; [apply fr_refl|apply same_ctl_refl]].
    destruct Hwf as [Ho Hd].
    pose proof (PI_append_with (plan P (co P s)) o d p) as HP.
    destruct (plan_append_with P cap (plan P (co P s)) o d p) as [pd ok]. cbn [fst] in HP.
    split; [|apply same_ctl_refl]. apply fr_upd_core; auto.
  - destruct (can_plan cfg (k_kind P k)); [|split; [apply fr_refl|apply same_ctl_refl]].
    split; [|apply same_ctl_refl]. apply fr_upd_core; auto. cbn [set_plan plan]. apply PI_clear.
  - destruct (can_plan cfg (k_kind P k)); [|split; [apply fr_refl|apply same_ctl_refl]].
    pose proof (PI_remove_at (plan P (co P s)) i) as HP.
    destruct (plan_remove_at P cap (plan P (co P s)) i) as [pd seen]. cbn [fst] in HP.
    split; [|apply same_ctl_refl]. apply fr_upd_core; auto.
Qed.

Lemma perform_all_fr origin acts : forall s k,
  Forall wf_action acts ->
  let '(s', k') := perform_all P cfg origin acts (s, k) in
  fr noncb s s' /\ same_ctl_but k k'.
Proof.
  unfold perform_all.
  induction acts as [|a acts IH]; intros s k Hwf; cbn [fold_left].
  - split; [apply fr_refl|apply same_ctl_refl].
  - inversion Hwf as [|? ? Ha Hr]; subst.
    pose proof (perform_fr origin a s k Ha) as H1.
    destruct (perform P cfg origin a (s, k)) as [[s1 k1] res].
    destruct H1 as [F1 K1].
    specialize (IH (emit P (EvAct P a res) s1) k1 Hr).
    destruct (fold_left _ acts _) as [s' k'].
    destruct IH as [F2 K2]. split.
    + eapply fr_trans; [exact F1|]. eapply fr_trans; [apply (fr_emit noncb (EvAct P a res)); exact I|exact F2].
    + eapply same_ctl_trans; eassumption.
Qed.

(* ---- one user callback ---- *)
Definition act_bits (a : nat) : list bool := map (Nat.eqb a) (seq 0 n).

(* an event appended while state [a] is the active one, by callbacks satisfying [Q] *)
Definition ev_ok (a : nat) (Q : who -> recipient -> method -> Prop) (e : event) : Prop :=
  match e with
  | EvCb _ w r m v => Q w r m /\ v_id P v = id_of w /\ v_act P v = act_bits a
  | _ => True
  end.

Lemma ev_ok_weaken a (Q Q' : who -> recipient -> method -> Prop) e :
  (forall w r m, Q w r m -> Q' w r m) -> ev_ok a Q e -> ev_ok a Q' e.
Proof. intros H. destruct e; cbn; auto. intros (q & i & b). auto. Qed.

Lemma noncb_ev_ok a Q e : noncb e -> ev_ok a Q e.
Proof. destruct e; cbn; intros H; auto; contradiction. Qed.

Lemma mk_view_act origin k c : v_act P (mk_view P cfg origin k c) = act_bits (active P c).
Proof.
  unfold mk_view, act_bits. cbn [v_act]. destruct (k_kind P k); reflexivity.
Qed.

Hypothesis Hwf : wf_oracle.

Lemma invoke_fr w r m s k :
  let '(s', k') := invoke P cfg orc w r m (s, k) in
  fr (ev_ok (active P (co P s)) (fun w' r' m' => w' = w /\ r' = r /\ m' = m)) s s' /\ same_ctl_but k k' /\
  exists l, tr P s' = l ++ EvCb P w r m (mk_view P cfg (id_of w) k (co P s)) :: tr P s /\ Forall noncb l.
Proof.
  unfold invoke.
  set (v := mk_view P cfg (id_of w) k (co P s)).
  pose proof (perform_all_fr (id_of w) (orc (tr P s) w r m v) (emit P (EvCb P w r m v) s) k (Hwf _ _ _ _ _)) as H.
  destruct (perform_all P cfg (id_of w) _ _) as [s' k'].
  destruct H as [F K]. split; [|split; [exact K|]].
  - apply (fr_trans _ s (emit P (EvCb P w r m v) s)).
    + apply fr_emit. cbn [ev_ok]. split; [auto|]. split; [reflexivity|apply mk_view_act].
    + eapply fr_weaken; [|exact F]. intros e. apply noncb_ev_ok.
  - destruct (fr_tr _ _ _ F) as (l & E & Hl). exists l. split; [exact E|exact Hl].
Qed.

(* ---- one delivery: S_::deepX ---- *)
(* the recipients of the callbacks among newly appended events, oldest first *)
Fixpoint cb_recs (l : list event) : list recipient :=
  match l with
  | [] => []
  | EvCb _ _ r _ _ :: t => cb_recs t ++ [r]
  | _ :: t => cb_recs t
  end.

Lemma cb_recs_app l1 l2 : cb_recs (l1 ++ l2) = cb_recs l2 ++ cb_recs l1.
Proof.
  induction l1 as [|e l1 IH]; cbn [app cb_recs]; [rewrite app_nil_r; reflexivity|].
  destruct e; rewrite IH, ?app_assoc; reflexivity.
Qed.

Lemma cb_recs_noncb l : Forall noncb l -> cb_recs l = [].
Proof. induction 1 as [|e l He _ IH]; [reflexivity|]. destruct e; cbn in *; [contradiction|exact IH|exact IH]. Qed.

Definition recipients (w : who) (m : method) : list recipient :=
  if exists_who cfg w then filter (fun r => delivers cfg w r m) (deep_order m (inj_of cfg w)) else [].

(* the events of one delivery of method m to w while a is active: only callbacks of (w, m), each
   recipient of the delivery order exactly once, in that order *)
Definition deliv (w : who) (m : method) (a : nat) (l : list event) : Prop :=
  Forall (ev_ok a (fun w' _ m' => w' = w /\ m' = m)) l /\ cb_recs l = recipients w m.

Lemma deliver_fold_fr w m (rs : list recipient) : forall s k,
  let '(s', k') := fold_left (fun sk r => if delivers cfg w r m then invoke P cfg orc w r m sk else sk) rs (s, k) in
  fr (ev_ok (active P (co P s)) (fun w' _ m' => w' = w /\ m' = m)) s s' /\ same_ctl_but k k' /\
  exists l, tr P s' = l ++ tr P s /\ cb_recs l = filter (fun r => delivers cfg w r m) rs.
Proof.
  induction rs as [|r rs IH]; intros s k; cbn [fold_left filter].
  - split; [apply fr_refl|]. split; [apply same_ctl_refl|]. exists []. split; reflexivity.
  - destruct (delivers cfg w r m) eqn:D.
    + pose proof (invoke_fr w r m s k) as H1.
      destruct (invoke P cfg orc w r m (s, k)) as [s1 k1].
      destruct H1 as (F1 & K1 & l1 & E1 & N1).
      specialize (IH s1 k1).
      destruct (fold_left _ rs (s1, k1)) as [s' k'].
      destruct IH as (F2 & K2 & l2 & E2 & R2).
      rewrite (fr_active _ _ _ F1) in F2.
      split; [|split; [eapply same_ctl_trans; eassumption|]].
      * eapply fr_trans; [|exact F2]. eapply fr_weaken; [|exact F1].
        intros e. apply ev_ok_weaken. intros w' r' m' (a & _ & c). auto.
      * exists (l2 ++ l1 ++ [EvCb P w r m (mk_view P cfg (id_of w) k (co P s))]). split.
        -- rewrite E2, E1, <- !app_assoc. reflexivity.
        -- rewrite !cb_recs_app. cbn [cb_recs app]. rewrite (cb_recs_noncb l1 N1), R2. reflexivity.
    + apply IH.
Qed.

Lemma deliver_fr w m s k :
  let '(s', k') := deliver P cfg orc w m (s, k) in
  fr (ev_ok (active P (co P s)) (fun w' _ m' => w' = w /\ m' = m)) s s' /\ same_ctl_but k k' /\
  exists l, tr P s' = l ++ tr P s /\ deliv w m (active P (co P s)) l.
Proof.
  unfold deliver.
  set (s1 := if logs cfg w m then log_rec P cfg (LMethod (id_of w) m) s else s).
  assert (F0 : fr (ev_ok (active P (co P s)) (fun w' _ m' => w' = w /\ m' = m)) s s1).
  { subst s1. destruct (logs cfg w m); [apply fr_log_rec; exact I|apply fr_refl]. }
  destruct (exists_who cfg w) eqn:Ex.
  - pose proof (deliver_fold_fr w m (deep_order m (inj_of cfg w)) s1 k) as H.
    destruct (fold_left _ _ (s1, k)) as [s' k'].
    destruct H as (F1 & K1 & l1 & E1 & R1).
    rewrite (fr_active _ _ _ F0) in F1.
    pose proof (fr_trans _ _ _ _ F0 F1) as F.
    split; [exact F|]. split; [exact K1|].
    destruct (fr_tr _ _ _ F) as (l & E & Hl). exists l. split; [exact E|].
    split; [exact Hl|].
    destruct (fr_tr _ _ _ F0) as (l0 & E0 & Hl0).
    assert (l = l1 ++ l0).
    { rewrite E1, E0, app_assoc in E. apply app_inv_tail in E. congruence. }
    subst l. rewrite cb_recs_app, R1.
    assert (cb_recs l0 = []) as ->.
    { subst s1. destruct (logs cfg w m).
      - unfold log_rec in E0. destruct (log_compiled cfg && logger P (co P s)); cbn [emit tr] in E0.
        + change (EvLog P (LMethod (id_of w) m) :: tr P s) with ([EvLog P (LMethod (id_of w) m)] ++ tr P s) in E0.
          apply app_inv_tail in E0. subst l0. reflexivity.
        + change (tr P s) with ([] ++ tr P s) in E0 at 1. apply app_inv_tail in E0. subst l0. reflexivity.
      - change (tr P s) with ([] ++ tr P s) in E0 at 1. apply app_inv_tail in E0. subst l0. reflexivity. }
    unfold recipients. rewrite Ex. reflexivity.
  - split; [exact F0|]. split; [apply same_ctl_refl|].
    destruct (fr_tr _ _ _ F0) as (l0 & E0 & Hl0). exists l0. split; [exact E0|]. split; [exact Hl0|].
    unfold recipients. rewrite Ex.
    subst s1. destruct (logs cfg w m).
    + unfold log_rec in E0. destruct (log_compiled cfg && logger P (co P s)); cbn [emit tr] in E0.
      * change (EvLog P (LMethod (id_of w) m) :: tr P s) with ([EvLog P (LMethod (id_of w) m)] ++ tr P s) in E0.
        apply app_inv_tail in E0. subst l0. reflexivity.
      * change (tr P s) with ([] ++ tr P s) in E0 at 1. apply app_inv_tail in E0. subst l0. reflexivity.
    + change (tr P s) with ([] ++ tr P s) in E0 at 1. apply app_inv_tail in E0. subst l0. reflexivity.
Qed.


(* ---- frames that may change registry.requested (the guard loop, applyRequest) ---- *)
Record frr (evp : event -> Prop) (s s' : mstate) : Prop := {
  frr_active : active P (co P s') = active P (co P s);
  frr_logger : logger P (co P s') = logger P (co P s);
  frr_previous : previous P (co P s') = previous P (co P s);
  frr_rw : RW (co P s) -> RW (co P s');
  frr_pi : PI (plan P (co P s)) -> PI (plan P (co P s'));
  frr_tr : exists l, tr P s' = l ++ tr P s /\ Forall evp l
}.
Lemma fr_frr evp s s' : fr evp s s' -> frr evp s s'.
Proof. intros [a b c d e f g]. constructor; assumption. Qed.
Lemma frr_refl (evp : event -> Prop) s : frr evp s s.
Proof. apply fr_frr, fr_refl. Qed.
Lemma frr_trans (evp : event -> Prop) s1 s2 s3 : frr evp s1 s2 -> frr evp s2 s3 -> frr evp s1 s3.
Proof.
  intros [a1 c1 d1 e1 f1 (l1 & g1 & h1)] [a2 c2 d2 e2 f2 (l2 & g2 & h2)].
  constructor; try congruence; auto.
  exists (l2 ++ l1). split; [rewrite g2, g1, app_assoc; reflexivity|apply Forall_app; split; assumption].
Qed.
Lemma frr_set_requested (evp : event -> Prop) s v : frr evp s (upd_core P (fun c => set_requested P c v) s).
Proof. constructor; cbn [upd_core co tr set_requested active logger previous plan]; auto. exists []. split; [reflexivity|constructor]. Qed.

(* ---- quiet stretches: callbacks other than enter/exit/reenter, all seeing state a as the active one ---- *)
Definition is_life (m : method) : bool := match m with MEnter | MExit | MReenter => true | _ => false end.
Definition qev (a : nat) : event -> Prop := ev_ok a (fun _ _ m => is_life m = false).

Lemma deliver_quiet w m s k : is_life m = false ->
  let '(s', k') := deliver P cfg orc w m (s, k) in
  fr (qev (active P (co P s))) s s' /\ same_ctl_but k k'.
Proof.
  intro Hm. pose proof (deliver_fr w m s k) as H. destruct (deliver P cfg orc w m (s, k)) as [s' k'].
  destruct H as (F & K & _). split; [|exact K].
  eapply fr_weaken; [|exact F]. intro e. apply ev_ok_weaken. intros w' r' m' (_ & ->). exact Hm.
Qed.

Lemma deliver_guard_quiet w m s k : is_life m = false ->
  let '(s', k', _) := deliver_guard P cfg orc w m (s, k) in
  fr (qev (active P (co P s))) s s' /\ same_ctl_but k k'.
Proof.
  intro Hm. unfold deliver_guard. cbn [snd].
  pose proof (deliver_quiet w m s k Hm) as H. destruct (deliver P cfg orc w m (s, k)) as [s' k']. exact H.
Qed.

Lemma fr_upd_plan (evp : event -> Prop) f s : (forall d, PI d -> PI (f d)) -> fr evp s (upd_plan P f s).
Proof. intro H. unfold upd_plan. apply fr_upd_core; auto. cbn [set_plan plan]. apply H. Qed.

Lemma region_phase_quiet m post s k : is_life m = false ->
  let '(s', k') := region_phase P cfg orc m post (s, k) in
  fr (qev (active P (co P s))) s s' /\ same_ctl_but k k'.
Proof.
  intro Hm. unfold region_phase. cbn [fst].
  set (a := active P (co P s)).
  destruct post.
  - pose proof (deliver_quiet (leaf cfg a) m s k Hm) as H1.
    destruct (deliver P cfg orc (leaf cfg a) m (s, k)) as [s1 k1]. destruct H1 as [F1 K1].
    set (s1' := upd_plan P _ s1).
    assert (F1' : fr (qev a) s s1') by (eapply fr_trans; [exact F1|apply fr_upd_plan; intros; apply PI_statuses; assumption]).
    pose proof (deliver_quiet Root m s1' k1 Hm) as H2.
    destruct (deliver P cfg orc Root m (s1', k1)) as [s2 k2]. destruct H2 as [F2 K2].
    rewrite (fr_active _ _ _ F1') in F2. fold a in F2.
    split.
    + eapply fr_trans; [exact F1'|]. eapply fr_trans; [exact F2|apply fr_upd_plan; intros; apply PI_statuses; assumption].
    + destruct K1 as (a1 & b1 & c1 & d1). destruct K2 as (a2 & b2 & c2 & d2).
      repeat split; cbn [set_status k_kind k_cur k_pend k_cancelled]; try congruence. auto.
  - pose proof (deliver_quiet Root m s k Hm) as H1.
    destruct (deliver P cfg orc Root m (s, k)) as [s1 k1]. destruct H1 as [F1 K1].
    set (s1' := upd_plan P _ s1).
    assert (F1' : fr (qev a) s s1') by (eapply fr_trans; [exact F1|apply fr_upd_plan; intros; apply PI_statuses; assumption]).
    pose proof (deliver_quiet (leaf cfg a) m s1' k1 Hm) as H2.
    destruct (deliver P cfg orc (leaf cfg a) m (s1', k1)) as [s2 k2]. destruct H2 as [F2 K2].
    rewrite (fr_active _ _ _ F1') in F2. fold a in F2.
    split.
    + eapply fr_trans; [exact F1'|]. eapply fr_trans; [exact F2|apply fr_upd_plan; intros; apply PI_statuses; assumption].
    + destruct K1 as (a1 & b1 & c1 & d1). destruct K2 as (a2 & b2 & c2 & d2).
      repeat split; cbn [set_status k_kind k_cur k_pend k_cancelled]; try congruence. auto.
Qed.


(* ---- the plan step ---- *)
Definition scan_pos (d : plan_data P) (curr next : nat) : Prop :=
  curr = INVALID \/ exists l1 l2, plan_indices P cap d = l1 ++ curr :: l2 /\ next = hd INVALID l2.

Lemma INVALID_ge_cap : cap <= 255 -> (INVALID <? cap) = false.
Proof. intro H. apply Nat.ltb_ge. unfold INVALID. exact H. Qed.

Lemma it_next_INVALID d : cap <= 255 -> it_next P cap d INVALID = INVALID.
Proof. intro H. unfold it_next. rewrite (INVALID_ge_cap H). reflexivity. Qed.

Lemma scan_pos_advance d l1 l2 : cap <= 255 -> PI d -> plan_indices P cap d = l1 ++ l2 ->
  scan_pos d (hd INVALID l2) (it_next P cap d (hd INVALID l2)).
Proof.
  intros Hc Hpi E. destruct l2 as [|y l2']; cbn [hd].
  - left. reflexivity.
  - right. exists l1, l2'. split; [exact E|]. exact (proj2 (pio_next HPI d l1 y l2' Hpi E)).
Qed.

Lemma plan_scan_tcmask : forall fuel curr next tc s, tcmask tc -> tcmask (snd (plan_scan P cfg fuel curr next tc s)).
Proof.
  induction fuel as [|f IH]; intros curr next tc s Htc; cbn [plan_scan]; [exact Htc|].
  destruct (curr <? cap); [|exact Htc].
  destruct (registry_is_active P (co P s) _); [|exact Htc].
  destruct (ba_get _ _).
  - destruct (tk_origin _ =? tk_dest _); apply IH; [exact Htc|apply tm_clear; exact Htc].
  - apply IH. exact Htc.
Qed.

Lemma plan_scan_fr : forall fuel curr next tc s,
  cap <= 255 -> PI (plan P (co P s)) -> scan_pos (plan P (co P s)) curr next ->
  fr noncb s (fst (plan_scan P cfg fuel curr next tc s)).
Proof.
  induction fuel as [|f IH]; intros curr next tc s Hc Hpi Hpos; cbn [plan_scan]; [apply fr_refl|].
  destruct (curr <? cap) eqn:Ecur; [|apply fr_refl].
  destruct Hpos as [->|(l1 & l2 & El & Hn)]; [rewrite (INVALID_ge_cap Hc) in Ecur; discriminate|].
  set (t := task_at P (plan P (co P s)) curr).
  destruct (registry_is_active P (co P s) (tk_origin t)); [|apply fr_refl].
  assert (Hin : In curr (plan_indices P cap (plan P (co P s)))) by (rewrite El; apply in_or_app; right; left; reflexivity).
  pose proof (pio_task HPI _ _ Hpi Hin) as Hdest. fold t in Hdest.
  destruct (ba_get (pd_succ (plan P (co P s))) (N.of_nat (tk_origin t))).
  - (* fires *)
    set (s1 := log_rec P cfg (LTransition (tk_origin t) (tk_dest t))
                 (upd_core P (fun c => set_request P c {| t_origin := tk_origin t; t_dest := tk_dest t; t_pay := tk_payload t |}) s)).
    assert (F1 : fr noncb s s1).
    { subst s1. eapply fr_trans; [|apply fr_log_rec; exact I]. apply fr_upd_core; auto.
      intros _. apply RW_set_request. intros _. exact Hdest. }
    assert (I1 : plan_indices P cap (plan P (co P s1)) = l1 ++ curr :: l2 /\ PI (plan P (co P s1))).
    { split; [|apply (fr_pi _ _ _ F1 Hpi)]. subst s1. unfold log_rec.
      destruct (log_compiled cfg && logger P _); exact El. }
    destruct I1 as [El1 Hpi1].
    destruct (tk_origin t =? tk_dest t).
    + set (s2 := upd_plan P (fun d => pd_with_succ P d (ba_clear (pd_succ d) (N.of_nat (tk_origin t)))) s1).
      assert (F2 : fr noncb s1 s2) by (apply fr_upd_plan; intros; apply PI_succ_clear; assumption).
      assert (El2 : plan_indices P cap (plan P (co P s2)) = l1 ++ curr :: l2).
      { subst s2. cbn [upd_plan upd_core co set_plan plan]. rewrite (pio_indices_bits HPI). exact El1. }
      pose proof (fr_pi _ _ _ F2 Hpi1) as Hpi2.
      destruct (pio_remove HPI _ _ _ _ Hpi2 El2) as [Hpi3 El3].
      set (s3 := upd_plan P (fun d => plan_remove P cap d curr) s2).
      assert (F3 : fr noncb s2 s3).
      { subst s3. unfold upd_plan. apply fr_upd_core; auto; try (intros _; exact Hpi3). }
      cbn [fst]. eapply fr_trans; [exact F1|]. eapply fr_trans; [exact F2|]. eapply fr_trans; [exact F3|].
      apply IH; [exact Hc|exact Hpi3|]. rewrite Hn.
      apply (scan_pos_advance _ l1 l2 Hc Hpi3 El3).
    + destruct (pio_remove HPI _ _ _ _ Hpi1 El1) as [Hpi3 El3].
      set (s3 := upd_plan P (fun d => plan_remove P cap d curr) s1).
      assert (F3 : fr noncb s1 s3).
      { subst s3. unfold upd_plan. apply fr_upd_core; auto; try (intros _; exact Hpi3). }
      cbn [fst]. eapply fr_trans; [exact F1|]. eapply fr_trans; [exact F3|].
      apply IH; [exact Hc|exact Hpi3|]. rewrite Hn.
      apply (scan_pos_advance _ l1 l2 Hc Hpi3 El3).
  - (* does not fire: stays in the plan *)
    cbn [fst]. apply IH; [exact Hc|exact Hpi|]. rewrite Hn.
    assert (El' : plan_indices P cap (plan P (co P s)) = (l1 ++ [curr]) ++ l2) by (rewrite <- app_assoc; exact El).
    apply (scan_pos_advance _ (l1 ++ [curr]) l2 Hc Hpi El').
Qed.


Lemma plan_indices_first d : (first (pd_pl d) <? cap) = true ->
  exists r, plan_indices P cap d = first (pd_pl d) :: r.
Proof. intro E. unfold plan_indices. cbn [iter_indices]. rewrite E. eexists. reflexivity. Qed.

Lemma update_plan_quiet st s k : cap <= 255 -> PI (plan P (co P s)) ->
  let '(s', k') := update_plan P cfg orc st (s, k) in
  fr (qev (active P (co P s))) s s' /\ k_kind P k' = k_kind P k.
Proof.
  intros Hc Hpi. unfold update_plan. destruct st.
  - split; [apply fr_refl|reflexivity].
  - destruct (plan_nonempty P cap (plan P (co P s))) eqn:Ene.
    + unfold plan_nonempty in Ene. destruct (plan_indices_first _ Ene) as [r Er].
      pose proof (plan_scan_fr (S cap) (first (pd_pl (plan P (co P s)))) (it_next P cap (plan P (co P s)) (first (pd_pl (plan P (co P s)))))
                    (ba_set_all (N.of_nat n) (ba_init (N.of_nat n))) s Hc Hpi) as F.
      pose proof (plan_scan_tcmask (S cap) (first (pd_pl (plan P (co P s)))) (it_next P cap (plan P (co P s)) (first (pd_pl (plan P (co P s)))))
                    (ba_set_all (N.of_nat n) (ba_init (N.of_nat n))) s tm_full) as Htc.
      destruct (plan_scan P cfg (S cap) _ _ _ s) as [s1 tc]. cbn [fst] in F. cbn [snd] in Htc.
      split; [|reflexivity].
      eapply fr_trans.
      * eapply fr_weaken; [|apply F]. { intro e. apply noncb_ev_ok. }
        right. exists [], r. split; [exact Er|]. exact (proj2 (pio_next HPI _ [] _ r Hpi Er)).
      * apply fr_upd_plan. intros; apply PI_succ_and; assumption.
    + pose proof (deliver_quiet Root MPlanSucceeded s (set_status P k SSuccess) eq_refl) as H.
      destruct (deliver P cfg orc Root MPlanSucceeded _) as [s1 k1]. destruct H as [F K].
      split; [|destruct K as (K & _); exact K].
      eapply fr_trans; [exact F|]. apply fr_upd_plan. intros; apply PI_clear; assumption.
  - pose proof (deliver_quiet Root MPlanFailed s (set_status P k SFailure) eq_refl) as H.
    destruct (deliver P cfg orc Root MPlanFailed _) as [s1 k1]. destruct H as [F K].
    split; [|destruct K as (K & _); exact K].
    eapply fr_trans; [exact F|]. apply fr_upd_plan. intros; apply PI_clear; assumption.
Qed.

Lemma deep_update_plans_quiet s k : cap <= 255 -> PI (plan P (co P s)) ->
  let '(s', k') := deep_update_plans P cfg orc (s, k) in
  fr (qev (active P (co P s))) s s'.
Proof.
  intros Hc Hpi. unfold deep_update_plans. cbn [fst].
  destruct (st_bool _ && pd_exists _).
  - pose proof (update_plan_quiet (st_or (pd_sub_status (plan P (co P s)))
        (state_plan_status P (co P s) (id_of (leaf cfg (active P (co P s)))))) s k Hc Hpi) as H.
    destruct (update_plan P cfg orc _ (s, k)) as [s' k']. exact (proj1 H).
  - apply fr_refl.
Qed.

(* ---- guards ---- *)
Lemma cancelled_by_guards_quiet cur pend s :
  fr (qev (active P (co P s))) s (fst (cancelled_by_guards P cfg orc cur pend s)).
Proof.
  unfold cancelled_by_guards.
  pose proof (deliver_guard_quiet (leaf cfg (active P (co P s))) MExitGuard s (mk_ctl P KGuard cur pend) eq_refl) as H1.
  destruct (deliver_guard P cfg orc (leaf cfg (active P (co P s))) MExitGuard _) as [[s1 k1] c1].
  destruct H1 as [F1 K1]. destruct c1; [exact F1|].
  pose proof (deliver_guard_quiet (leaf cfg (requested P (co P s1))) MEntryGuard s1 k1 eq_refl) as H2.
  destruct (deliver_guard P cfg orc (leaf cfg (requested P (co P s1))) MEntryGuard _) as [[s2 k2] c2].
  destruct H2 as [F2 K2]. cbn [fst]. rewrite (fr_active _ _ _ F1) in F2.
  eapply fr_trans; eassumption.
Qed.

Lemma cancelled_by_entry_guards_quiet cur pend s :
  fr (qev (active P (co P s))) s (fst (cancelled_by_entry_guards P cfg orc cur pend s)).
Proof.
  unfold cancelled_by_entry_guards.
  pose proof (deliver_guard_quiet Root MEntryGuard s (mk_ctl P KGuard cur pend) eq_refl) as H1.
  destruct (deliver_guard P cfg orc Root MEntryGuard _) as [[s1 k1] c1].
  destruct H1 as [F1 K1]. destruct c1; [exact F1|].
  pose proof (deliver_guard_quiet (leaf cfg (requested P (co P s1))) MEntryGuard s1 k1 eq_refl) as H2.
  destruct (deliver_guard P cfg orc (leaf cfg (requested P (co P s1))) MEntryGuard _) as [[s2 k2] c2].
  destruct H2 as [F2 K2]. cbn [fst]. rewrite (fr_active _ _ _ F1) in F2.
  eapply fr_trans; eassumption.
Qed.

(* ---- the substitution loops ---- *)
(* the survivor so far, when there is one, is what registry.requested names (this is the statement that was
   false before the F1 repair) *)
Definition CurOK (s : mstate) (cur : transition) : Prop :=
  t_valid P cur = true -> t_dest P cur < n /\ requested P (co P s) = t_dest P cur.

Lemma t_clear_invalid t : t_valid P (t_clear P t) = false.
Proof. reflexivity. Qed.

Lemma RW_clear_request c : RW (set_request P c (t_clear P (request P c))).
Proof. apply RW_set_request. rewrite t_clear_invalid. discriminate. Qed.

Lemma fr_clear_request (evp : event -> Prop) s : fr evp s (upd_core P (fun c => set_request P c (t_clear P (request P c))) s).
Proof. apply fr_upd_core; auto. intros _. apply RW_clear_request. Qed.

Lemma transitions_loop_frr : forall fuel cur s,
  RW (co P s) -> CurOK s cur ->
  let '(s', cur') := transitions_loop P cfg orc fuel cur s in
  frr (qev (active P (co P s))) s s' /\ RW (co P s') /\ CurOK s' cur'.
Proof.
  induction fuel as [|f IH]; intros cur s Hrw Hcur; cbn [transitions_loop].
  - split; [apply frr_refl|]. split; assumption.
  - destruct (t_valid P (request P (co P s))) eqn:Ev; [|split; [apply frr_refl|split; assumption]].
    unfold apply_request.
    destruct (t_neq P cur (t_to P (t_dest P (request P (co P s))))) eqn:Ene.
    + set (d := t_dest P (request P (co P s))).
      set (s1 := upd_core P (fun c => set_requested P c d) s).
      set (pend := request P (co P s1)).
      set (s2 := upd_core P (fun c => set_request P c (t_clear P (request P c))) s1).
      assert (Hd : d < n) by (apply Hrw; exact Ev).
      assert (F2 : frr (qev (active P (co P s))) s s2).
      { eapply frr_trans; [apply frr_set_requested|]. apply fr_frr, fr_clear_request. }
      pose proof (cancelled_by_guards_quiet cur pend s2) as FG.
      destruct (cancelled_by_guards P cfg orc cur pend s2) as [s3 cancelled]. cbn [fst] in FG.
      change (active P (co P s2)) with (active P (co P s)) in FG.
      assert (R3 : RW (co P s3)) by (apply (fr_rw _ _ _ FG); apply RW_clear_request).
      assert (Q3 : requested P (co P s3) = d) by (rewrite (fr_requested _ _ _ FG); reflexivity).
      destruct cancelled.
      * set (s4 := upd_core P (fun c => set_requested P c (t_dest P cur)) s3).
        specialize (IH cur s4 R3).
        assert (A4 : active P (co P s4) = active P (co P s)) by (cbn; rewrite (fr_active _ _ _ FG); reflexivity).
        destruct (transitions_loop P cfg orc f cur s4) as [s' cur'].
        destruct IH as (F5 & R5 & C5).
        { intros Hv. split; [exact (proj1 (Hcur Hv))|reflexivity]. }
        rewrite A4 in F5.
        split; [|split; assumption].
        eapply frr_trans; [exact F2|]. eapply frr_trans; [apply fr_frr; exact FG|].
        eapply frr_trans; [apply frr_set_requested|exact F5].
      * specialize (IH pend s3 R3).
        assert (A3 : active P (co P s3) = active P (co P s)) by (rewrite (fr_active _ _ _ FG); reflexivity).
        destruct (transitions_loop P cfg orc f pend s3) as [s' cur'].
        destruct IH as (F5 & R5 & C5).
        { intros _. subst pend s1. cbn [upd_core co set_requested request]. fold d. split; [exact Hd|exact Q3]. }
        rewrite A3 in F5.
        split; [|split; assumption].
        eapply frr_trans; [exact F2|]. eapply frr_trans; [apply fr_frr; exact FG|exact F5].
    + set (s1 := upd_core P (fun c => set_request P c (t_clear P (request P c))) s).
      specialize (IH cur s1 (RW_clear_request _)).
      destruct (transitions_loop P cfg orc f cur s1) as [s' cur'].
      destruct IH as (F5 & R5 & C5); [exact Hcur|].
      split; [|split; assumption].
      eapply frr_trans; [apply fr_frr, fr_clear_request|exact F5].
Qed.


(* ---- applying a transition: exit / enter / reenter ---- *)
Lemma leaf_spec k : k < n -> leaf cfg k = St k.
Proof.
  intro H. unfold leaf.
  pose proof (dispatch_root nat 0 (seq 0 n) k) as D. rewrite seq_length in D.
  rewrite (D H), seq_nth by exact H. reflexivity.
Qed.

(* the lifecycle events of one API call: from active state a to a' *)
Inductive change (a a' : nat) : list event -> Prop :=
| ch_none : a' = a -> change a a' []
| ch_trans l1 l2 : a <> a' -> a < n -> a' < n ->
    deliv (St a) MExit a l1 -> deliv (St a') MEnter a' l2 -> change a a' (l2 ++ l1)
| ch_reenter l : a' = a -> a < n -> deliv (St a) MReenter a l -> change a a' l
| ch_activate l1 l2 : a = INVALID -> a' < n ->
    deliv Root MEnter a' l1 -> deliv (St a') MEnter a' l2 -> change a a' (l2 ++ l1)
| ch_deactivate l1 l2 : a < n -> a' = INVALID ->
    deliv (St a) MExit a l1 -> deliv Root MExit a l2 -> change a a' (l2 ++ l1).

(* frame of the lifecycle functions: everything but active/requested/trace *)
Record frl (s s' : mstate) : Prop := {
  frl_logger : logger P (co P s') = logger P (co P s);
  frl_previous : previous P (co P s') = previous P (co P s);
  frl_rw : RW (co P s) -> RW (co P s');
  frl_pi : PI (plan P (co P s)) -> PI (plan P (co P s'))
}.
Lemma fr_frl evp s s' : fr evp s s' -> frl s s'.
Proof. intros [a b c d e f g]. constructor; assumption. Qed.
Lemma frr_frl evp s s' : frr evp s s' -> frl s s'.
Proof. intros [a c d e f g]. constructor; assumption. Qed.
Lemma frl_refl s : frl s s.
Proof. constructor; auto. Qed.
Lemma frl_trans s1 s2 s3 : frl s1 s2 -> frl s2 s3 -> frl s1 s3.
Proof. intros [a b c d] [a' b' c' d']. constructor; try congruence; auto. Qed.
Lemma frl_upd_core f s :
  (forall c, logger P (f c) = logger P c) -> (forall c, previous P (f c) = previous P c) ->
  (RW (co P s) -> RW (f (co P s))) -> (PI (plan P (co P s)) -> PI (plan P (f (co P s)))) ->
  frl s (upd_core P f s).
Proof. intros a b c d. constructor; cbn [upd_core co]; auto. Qed.

Lemma pd_clear_task_status_PI d sid : PI d -> PI (pd_clear_task_status P d sid).
Proof.
  intro H. unfold pd_clear_task_status. destruct (sid =? INVALID); [exact H|].
  apply (pio_fail_clear HPI (pd_with_succ P d (ba_clear (pd_succ d) (N.of_nat sid)))). apply PI_succ_clear. exact H.
Qed.

Lemma state_exit_fr w k s :
  let s' := state_exit P cfg orc w k s in
  fr (ev_ok (active P (co P s)) (fun w' _ m' => w' = w /\ m' = MExit)) s s' /\
  exists l, tr P s' = l ++ tr P s /\ deliv w MExit (active P (co P s)) l.
Proof.
  unfold state_exit.
  pose proof (deliver_fr w MExit s k) as H. destruct (deliver P cfg orc w MExit (s, k)) as [s1 k1].
  destruct H as (F & _ & l & E & D).
  destruct (exists_who cfg w).
  - split.
    + eapply fr_trans; [exact F|]. apply fr_upd_plan. intros. apply pd_clear_task_status_PI. assumption.
    + exists l. split; [exact E|exact D].
  - split; [exact F|]. exists l. split; [exact E|exact D].
Qed.

Lemma deep_change_to_requested_spec cur s a r :
  active P (co P s) = a -> requested P (co P s) = r -> a < n -> r < n ->
  let s' := deep_change_to_requested P cfg orc cur s in
  active P (co P s') = r /\ requested P (co P s') = INVALID /\ frl s s' /\
  exists l, tr P s' = l ++ tr P s /\ change a r l.
Proof.
  intros Ha Hr Han Hrn. unfold deep_change_to_requested. rewrite Hr, Ha.
  destruct (negb (r =? a)) eqn:E.
  - apply negb_true_iff, Nat.eqb_neq in E.
    rewrite (leaf_spec a Han).
    pose proof (state_exit_fr (St a) (mk_ctl P KPlan cur (t_empty P)) s) as H1. cbv zeta in H1.
    set (s1 := state_exit P cfg orc (St a) (mk_ctl P KPlan cur (t_empty P)) s) in *.
    destruct H1 as (F1 & l1 & E1 & D1). rewrite Ha in F1, D1.
    set (s2 := upd_core P (fun c1 => set_requested P (set_active P c1 (requested P c1)) INVALID) s1).
    assert (A2 : active P (co P s2) = r).
    { subst s2. cbn [upd_core co set_requested set_active active requested]. rewrite (fr_requested _ _ _ F1). exact Hr. }
    rewrite A2, (leaf_spec r Hrn).
    pose proof (deliver_fr (St r) MEnter s2 (mk_ctl P KPlan cur (t_empty P))) as H2.
    destruct (deliver P cfg orc (St r) MEnter (s2, _)) as [s3 k3]. cbn [fst].
    destruct H2 as (F2 & _ & l2 & E2 & D2). rewrite A2 in F2, D2.
    split; [rewrite (fr_active _ _ _ F2); exact A2|].
    split; [rewrite (fr_requested _ _ _ F2); reflexivity|].
    split.
    + eapply frl_trans; [apply (fr_frl _ _ _ F1)|]. eapply frl_trans; [|apply (fr_frl _ _ _ F2)].
      subst s2. apply frl_upd_core; auto.
    + exists (l2 ++ l1). split; [rewrite E2; subst s2; cbn [upd_core tr]; rewrite E1, app_assoc; reflexivity|].
      apply ch_trans; auto.
  - apply negb_false_iff, Nat.eqb_eq in E. rewrite E in *. clear E.
    set (s1 := upd_core P (fun c1 => set_requested P c1 INVALID) s).
    assert (A1 : active P (co P s1) = a) by exact Ha.
    rewrite A1, (leaf_spec a Han).
    pose proof (deliver_fr (St a) MReenter s1 (mk_ctl P KPlan cur (t_empty P))) as H2.
    destruct (deliver P cfg orc (St a) MReenter (s1, _)) as [s3 k3]. cbn [fst].
    destruct H2 as (F2 & _ & l2 & E2 & D2). rewrite A1 in F2, D2.
    split; [rewrite (fr_active _ _ _ F2); exact A1|].
    split; [rewrite (fr_requested _ _ _ F2); reflexivity|].
    split.
    + eapply frl_trans; [|apply (fr_frl _ _ _ F2)]. subst s1. apply frl_upd_core; auto.
    + exists l2. split; [exact E2|]. apply ch_reenter; auto.
Qed.

Lemma deep_enter_spec cur s r :
  active P (co P s) = INVALID -> requested P (co P s) = r -> r < n ->
  let s' := deep_enter P cfg orc cur s in
  active P (co P s') = r /\ requested P (co P s') = INVALID /\ frl s s' /\
  exists l, tr P s' = l ++ tr P s /\ change INVALID r l.
Proof.
  intros Ha Hr Hrn. unfold deep_enter.
  set (s1 := upd_core P (fun c => set_requested P (set_active P c (requested P c)) INVALID) s).
  assert (A1 : active P (co P s1) = r) by (subst s1; cbn [upd_core co set_requested set_active active]; exact Hr).
  pose proof (deliver_fr Root MEnter s1 (mk_ctl P KPlan cur (t_empty P))) as H1.
  destruct (deliver P cfg orc Root MEnter (s1, _)) as [s2 k2].
  destruct H1 as (F1 & _ & l1 & E1 & D1). rewrite A1 in F1, D1.
  assert (A2 : active P (co P s2) = r) by (rewrite (fr_active _ _ _ F1); exact A1).
  rewrite A2, (leaf_spec r Hrn).
  pose proof (deliver_fr (St r) MEnter s2 k2) as H2.
  destruct (deliver P cfg orc (St r) MEnter (s2, k2)) as [s3 k3]. cbn [fst].
  destruct H2 as (F2 & _ & l2 & E2 & D2). rewrite A2 in F2, D2.
  split; [rewrite (fr_active _ _ _ F2); exact A2|].
  split; [rewrite (fr_requested _ _ _ F2), (fr_requested _ _ _ F1); reflexivity|].
  split.
  - eapply frl_trans; [|apply (fr_frl _ _ _ F2)]. eapply frl_trans; [|apply (fr_frl _ _ _ F1)].
    subst s1. apply frl_upd_core; auto.
  - exists (l2 ++ l1). split; [rewrite E2, E1, app_assoc; reflexivity|].
    apply ch_activate; auto.
Qed.

Lemma deep_exit_spec s a :
  active P (co P s) = a -> a < n ->
  let s' := deep_exit P cfg orc s in
  active P (co P s') = INVALID /\ requested P (co P s') = requested P (co P s) /\ frl s s' /\
  exists l, tr P s' = l ++ tr P s /\ change a INVALID l.
Proof.
  intros Ha Han. unfold deep_exit. rewrite Ha, (leaf_spec a Han).
  pose proof (state_exit_fr (St a) (mk_ctl P KPlan (t_empty P) (t_empty P)) s) as H1. cbv zeta in H1.
  set (s1 := state_exit P cfg orc (St a) _ s) in *.
  destruct H1 as (F1 & l1 & E1 & D1). rewrite Ha in F1, D1.
  pose proof (state_exit_fr Root (mk_ctl P KPlan (t_empty P) (t_empty P)) s1) as H2. cbv zeta in H2.
  set (s2 := state_exit P cfg orc Root _ s1) in *.
  destruct H2 as (F2 & l2 & E2 & D2). rewrite (fr_active _ _ _ F1), Ha in F2, D2.
  set (s3 := upd_core P (fun c => set_active P c INVALID) s2).
  assert (F3 : frl s s3).
  { eapply frl_trans; [apply (fr_frl _ _ _ F1)|]. eapply frl_trans; [apply (fr_frl _ _ _ F2)|].
    subst s3. apply frl_upd_core; auto. }
  assert (Q3 : requested P (co P s3) = requested P (co P s)).
  { subst s3. cbn [upd_core co set_active requested]. rewrite (fr_requested _ _ _ F2), (fr_requested _ _ _ F1). reflexivity. }
  assert (T3 : tr P s3 = (l2 ++ l1) ++ tr P s) by (subst s3; cbn [upd_core tr]; rewrite E2, E1, app_assoc; reflexivity).
  assert (C : change a INVALID (l2 ++ l1)) by (apply ch_deactivate; auto).
  destruct (c_plans cfg).
  - split; [reflexivity|]. split; [exact Q3|]. split.
    + eapply frl_trans; [exact F3|]. unfold upd_plan. apply frl_upd_core; auto. cbn [set_plan plan]. apply PI_clear.
    + exists (l2 ++ l1). split; [exact T3|exact C].
  - split; [reflexivity|]. split; [exact Q3|]. split; [exact F3|]. exists (l2 ++ l1). split; [exact T3|exact C].
Qed.


(* ---- the shape of one API call's events, as far as the lifecycle is concerned ---- *)
Definition quiet (a : nat) (l : list event) : Prop := Forall (qev a) l.
Definition life_shape (a a' : nat) (l : list event) : Prop :=
  exists lc lq, l = lc ++ lq /\ quiet a lq /\ change a a' lc.

Lemma life_shape_quiet a l : quiet a l -> life_shape a a l.
Proof. intro H. exists [], l. split; [reflexivity|]. split; [exact H|apply ch_none; reflexivity]. Qed.

Lemma life_shape_after_quiet a a' l lq : life_shape a a' l -> quiet a lq -> life_shape a a' (l ++ lq).
Proof.
  intros (lc & lq0 & -> & Q0 & C) Q. exists lc, (lq0 ++ lq). split; [rewrite app_assoc; reflexivity|].
  split; [apply Forall_app; split; assumption|exact C].
Qed.

(* between API calls *)
Definition SInv (s : mstate) : Prop :=
  requested P (co P s) = INVALID /\ (active P (co P s) = INVALID \/ active P (co P s) < n) /\
  RW (co P s) /\ PI (plan P (co P s)).

Lemma process_request_spec s a :
  cap <= 255 -> active P (co P s) = a -> a < n -> requested P (co P s) = INVALID -> RW (co P s) -> PI (plan P (co P s)) ->
  let s' := process_request P cfg orc s in
  SInv s' /\ active P (co P s') < n /\ logger P (co P s') = logger P (co P s) /\
  exists l, tr P s' = l ++ tr P s /\ life_shape a (active P (co P s')) l.
Proof.
  intros Hc Ha Han Hq Hrw Hpi. unfold process_request.
  assert (Main : let '(s1, cur) := if t_valid P (request P (co P s)) then process_transitions P cfg orc s else (s, t_empty P) in
     SInv s1 /\ active P (co P s1) < n /\ logger P (co P s1) = logger P (co P s) /\
     exists l, tr P s1 = l ++ tr P s /\ life_shape a (active P (co P s1)) l).
  { destruct (t_valid P (request P (co P s))) eqn:Ev.
    - unfold process_transitions.
      pose proof (transitions_loop_frr (c_limit cfg) (t_empty P) s Hrw) as H.
      destruct (transitions_loop P cfg orc (c_limit cfg) (t_empty P) s) as [s1 cur].
      destruct H as (F1 & R1 & C1); [intro Hv; discriminate|]. rewrite Ha in F1.
      destruct (frr_tr _ _ _ F1) as (lq & Eq & Hq1).
      destruct (t_valid P cur) eqn:Evc.
      + destruct (C1 Evc) as [Hd Hreq].
        pose proof (deep_change_to_requested_spec cur s1 a (t_dest P cur)) as H2. cbv zeta in H2.
        destruct H2 as (A2 & Q2 & F2 & l2 & E2 & Ch2); auto.
        { rewrite (frr_active _ _ _ F1); exact Ha. }
        set (s2 := deep_change_to_requested P cfg orc cur s1) in *.
        unfold SInv. cbn [upd_core co set_requested active requested logger tr plan request].
        split; [|split; [rewrite A2; exact Hd|split]].
        * split; [reflexivity|]. split; [right; rewrite A2; exact Hd|]. split.
          -- apply (frl_rw _ _ F2). exact R1.
          -- apply (frl_pi _ _ F2). apply (frr_pi _ _ _ F1). exact Hpi.
        * rewrite (frl_logger _ _ F2), (frr_logger _ _ _ F1). reflexivity.
        * exists (l2 ++ lq). split; [rewrite E2, Eq, app_assoc; reflexivity|].
          rewrite A2. exists l2, lq. split; [reflexivity|]. split; [exact Hq1|exact Ch2].
      + unfold SInv. cbn [upd_core co set_requested active requested logger tr plan request].
        split; [|split; [rewrite (frr_active _ _ _ F1), Ha; exact Han|split]].
        * split; [reflexivity|]. split; [right; rewrite (frr_active _ _ _ F1), Ha; exact Han|]. split.
          -- exact R1.
          -- apply (frr_pi _ _ _ F1). exact Hpi.
        * apply (frr_logger _ _ _ F1).
        * exists lq. split; [exact Eq|]. rewrite (frr_active _ _ _ F1), Ha. apply life_shape_quiet. exact Hq1.
    - split; [|split; [rewrite Ha; exact Han|split; [reflexivity|]]].
      + split; [exact Hq|]. split; [right; rewrite Ha; exact Han|]. split; assumption.
      + exists []. split; [reflexivity|]. rewrite Ha. apply life_shape_quiet. constructor. }
  destruct (if t_valid P (request P (co P s)) then process_transitions P cfg orc s else (s, t_empty P)) as [s1 cur].
  destruct (c_history cfg); [|exact Main].
  destruct Main as ((Q1 & A1 & R1 & P1) & An & L1 & T1).
  unfold SInv. cbn [upd_core co set_previous active requested logger tr plan request].
  split; [|split; [exact An|split; [exact L1|exact T1]]].
  split; [exact Q1|]. split; [exact A1|]. split; [exact R1|exact P1].
Qed.

End F.
