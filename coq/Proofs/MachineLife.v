(* C01 at the level of whole API histories: between API calls the machine is either inactive or has exactly
   one active state below n, and the events every call appends have the lifecycle shape [life_shape]:
   a quiet stretch (no enter/exit/reenter; every callback view shows the state active at the start of the
   call), then at most one lifecycle change (exit a; enter a' | reenter a | root enter; enter a' |
   exit a; root exit), each delivery reaching every recipient exactly once. Relative to an abstract plan
   invariant PI (instantiated in Proofs/MachinePlan.v). *)
From Coq Require Import List Arith Bool NArith Lia.
From FFSM2 Require Import Model.TaskList Model.BitArray Model.Plan Model.Ancestors Model.Dispatch
                          Model.Bits Model.BitStream Model.Machine Proofs.MachineFrame Proofs.SerialProofs.
Import ListNotations.

Arguments INVALID : simpl never.

Section L.
Variable P : Type.
Variable cfg : config.
Variable orc : oracle P.
Variable PI : plan_data P -> Prop.
Hypothesis HPI : plan_inv_ok P cfg PI.
Hypothesis Hwf : wf_oracle P cfg orc.
Hypothesis Hcfg : wf_cfg cfg.
Local Notation n := (c_n cfg).
Local Notation cap := (c_cap cfg).
Local Notation mstate := (mstate P).
Local Notation event := (event P).
Local Notation transition := (transition P).
Local Notation fr := (fr P cfg PI).
Local Notation frr := (frr P cfg PI).
Local Notation frl := (frl P cfg PI).
Local Notation RW := (RW P cfg).
Local Notation SInv := (SInv P cfg PI).
Local Notation qev := (qev P cfg).
Local Notation quiet := (quiet P cfg).
Local Notation change := (change P cfg).
Local Notation life_shape := (life_shape P cfg).
Local Notation deliv := (deliv P cfg).

Lemma cap_le : cap <= 255. Proof. destruct Hcfg as (_ & H & _). lia. Qed.
Lemma n_pos : 0 < n. Proof. destruct Hcfg as (H & _). lia. Qed.
Lemma n_le : n <= 255. Proof. destruct Hcfg as (H & _). lia. Qed.
Lemma lt_n_not_INVALID a : a < n -> a <> INVALID.
Proof. intros H E. pose proof n_le. unfold INVALID in E. lia. Qed.

Lemma change_life_shape a a' l : change a a' l -> life_shape a a' l.
Proof. intro C. exists l, []. split; [rewrite app_nil_r; reflexivity|]. split; [constructor|exact C]. Qed.

(* ---- activation ---- *)
Definition CurOK0 (s : mstate) (cur : transition) : Prop :=
  if t_valid P cur then t_dest P cur < n /\ requested P (co P s) = t_dest P cur
  else requested P (co P s) = 0.

Lemma initial_loop_frr : forall fuel cur s,
  RW (co P s) -> CurOK0 s cur ->
  let '(s', cur') := initial_loop P cfg orc fuel cur s in
  frr (qev (active P (co P s))) s s' /\ RW (co P s') /\ CurOK0 s' cur'.
Proof.
  induction fuel as [|f IH]; intros cur s Hrw Hcur; cbn [initial_loop].
  - split; [apply frr_refl|]. split; assumption.
  - destruct (t_valid P (request P (co P s))) eqn:Ev; [|split; [apply frr_refl|split; assumption]].
    unfold apply_request.
    destruct (t_neq P cur (t_to P (t_dest P (request P (co P s))))) eqn:Ene.
    + set (d := t_dest P (request P (co P s))).
      set (s1 := upd_core P (fun c => set_requested P c d) s).
      set (pend := request P (co P s1)).
      set (s2 := upd_core P (fun c => set_request P c (t_clear P (request P c))) s1).
      assert (Hd : d < n) by (apply Hrw; exact Ev).
      assert (F2 : frr (qev (active P (co P s))) s s2).
      { eapply frr_trans; [apply frr_set_requested|]. apply fr_frr, fr_clear_request. }
      pose proof (cancelled_by_entry_guards_quiet P cfg orc PI HPI Hwf cur pend s2) as FG.
      destruct (cancelled_by_entry_guards P cfg orc cur pend s2) as [s3 cancelled]. cbn [fst] in FG.
      change (active P (co P s2)) with (active P (co P s)) in FG.
      assert (R3 : RW (co P s3)) by (apply (fr_rw _ _ _ _ _ _ FG); apply RW_clear_request).
      assert (Q3 : requested P (co P s3) = d) by (rewrite (fr_requested _ _ _ _ _ _ FG); reflexivity).
      destruct cancelled.
      * set (s4 := upd_core P (fun c => set_requested P c (if t_valid P cur then t_dest P cur else 0)) s3).
        specialize (IH cur s4 R3).
        assert (A4 : active P (co P s4) = active P (co P s)) by (cbn; rewrite (fr_active _ _ _ _ _ _ FG); reflexivity).
        destruct (initial_loop P cfg orc f cur s4) as [s' cur'].
        destruct IH as (F5 & R5 & C5).
        { unfold CurOK0 in *. subst s4. cbn [upd_core co set_requested requested].
          destruct (t_valid P cur); [split; [exact (proj1 Hcur)|reflexivity]|reflexivity]. }
        rewrite A4 in F5.
        split; [|split; assumption].
        eapply frr_trans; [exact F2|]. eapply frr_trans; [apply fr_frr; exact FG|].
        eapply frr_trans; [apply frr_set_requested|exact F5].
      * specialize (IH pend s3 R3).
        assert (A3 : active P (co P s3) = active P (co P s)) by (rewrite (fr_active _ _ _ _ _ _ FG); reflexivity).
        destruct (initial_loop P cfg orc f pend s3) as [s' cur'].
        destruct IH as (F5 & R5 & C5).
        { unfold CurOK0. subst pend s1. cbn [upd_core co set_requested request]. fold d.
          assert (Evd : t_valid P (request P (co P s)) = true) by exact Ev. rewrite Evd. split; [exact Hd|exact Q3]. }
        rewrite A3 in F5.
        split; [|split; assumption].
        eapply frr_trans; [exact F2|]. eapply frr_trans; [apply fr_frr; exact FG|exact F5].
    + set (s1 := upd_core P (fun c => set_request P c (t_clear P (request P c))) s).
      specialize (IH cur s1 (RW_clear_request P cfg _)).
      destruct (initial_loop P cfg orc f cur s1) as [s' cur'].
      destruct IH as (F5 & R5 & C5); [exact Hcur|].
      split; [|split; assumption].
      eapply frr_trans; [apply fr_frr, fr_clear_request|exact F5].
Qed.

Lemma initial_enter_spec s :
  active P (co P s) = INVALID -> RW (co P s) -> PI (plan P (co P s)) ->
  let s' := initial_enter P cfg orc s in
  SInv s' /\ active P (co P s') < n /\ logger P (co P s') = logger P (co P s) /\
  exists l, tr P s' = l ++ tr P s /\ life_shape INVALID (active P (co P s')) l.
Proof.
  intros Ha Hrw Hpi. unfold initial_enter, apply_request.
  assert (Ene : t_neq P (t_empty P) (t_to P 0) = true) by reflexivity. rewrite Ene.
  set (s1 := upd_core P (fun c => set_requested P c 0) s).
  pose proof (cancelled_by_entry_guards_quiet P cfg orc PI HPI Hwf (t_empty P) (t_empty P) s1) as FG.
  destruct (cancelled_by_entry_guards P cfg orc (t_empty P) (t_empty P) s1) as [s2 c2]. cbn [fst] in FG.
  change (active P (co P s1)) with (active P (co P s)) in FG. rewrite Ha in FG.
  assert (R2 : RW (co P s2)) by (apply (fr_rw _ _ _ _ _ _ FG); exact Hrw).
  pose proof (initial_loop_frr (c_limit cfg) (t_empty P) s2 R2) as HL.
  destruct (initial_loop P cfg orc (c_limit cfg) (t_empty P) s2) as [s3 cur].
  destruct HL as (F3 & R3 & C3).
  { unfold CurOK0. cbn [t_valid t_empty t_dest]. rewrite (fr_requested _ _ _ _ _ _ FG). reflexivity. }
  rewrite (fr_active _ _ _ _ _ _ FG) in F3. change (active P (co P s1)) with (active P (co P s)) in F3. rewrite Ha in F3.
  set (s4 := if c_history cfg then upd_core P (fun c => set_previous P c cur) s3 else s3).
  assert (E4 : active P (co P s4) = INVALID /\ requested P (co P s4) = requested P (co P s3) /\ tr P s4 = tr P s3 /\
               RW (co P s4) /\ PI (plan P (co P s4)) /\ logger P (co P s4) = logger P (co P s3)).
  { subst s4. destruct (c_history cfg); cbn [upd_core co set_previous active requested tr plan logger];
      (split; [rewrite (frr_active _ _ _ _ _ _ F3), (fr_active _ _ _ _ _ _ FG); exact Ha|]);
      (split; [reflexivity|]); (split; [reflexivity|]); (split; [exact R3|]); (split; [|reflexivity]);
      apply (frr_pi _ _ _ _ _ _ F3), (fr_pi _ _ _ _ _ _ FG); exact Hpi. }
  destruct E4 as (A4 & Q4 & T4 & R4 & P4 & L4).
  assert (Hr : requested P (co P s4) < n).
  { rewrite Q4. unfold CurOK0 in C3. destruct (t_valid P cur); [destruct C3 as [C3a C3b]; rewrite C3b; exact C3a|rewrite C3; exact n_pos]. }
  pose proof (deep_enter_spec P cfg orc PI HPI Hwf cur s4 _ A4 eq_refl Hr) as H5. cbv zeta in H5.
  set (s5 := deep_enter P cfg orc cur s4) in *.
  destruct H5 as (A5 & Q5 & F5 & l5 & E5 & C5).
  destruct (frr_tr _ _ _ _ _ _ F3) as (l3 & E3 & H3). destruct (fr_tr _ _ _ _ _ _ FG) as (l2 & E2 & H2).
  unfold MachineFrame.SInv. cbn [upd_core co set_requested active requested logger tr plan request].
  split; [|split; [rewrite A5; exact Hr|split]].
  - split; [reflexivity|]. split; [right; rewrite A5; exact Hr|]. split.
    + apply (frl_rw _ _ _ _ _ F5). exact R4.
    + apply (frl_pi _ _ _ _ _ F5). exact P4.
  - rewrite (frl_logger _ _ _ _ _ F5), L4, (frr_logger _ _ _ _ _ _ F3), (fr_logger _ _ _ _ _ _ FG). reflexivity.
  - exists (l5 ++ l3 ++ l2). split.
    + rewrite E5, T4, E3, E2. subst s1. cbn [upd_core tr]. rewrite <- !app_assoc. reflexivity.
    + rewrite A5. exists l5, (l3 ++ l2). split; [reflexivity|]. split; [apply Forall_app; split; assumption|exact C5].
Qed.

(* ---- deactivation ---- *)
Lemma final_exit_spec s a :
  active P (co P s) = a -> a < n -> PI (plan P (co P s)) ->
  let s' := final_exit P cfg orc s in
  SInv s' /\ active P (co P s') = INVALID /\ logger P (co P s') = logger P (co P s) /\
  exists l, tr P s' = l ++ tr P s /\ change a INVALID l.
Proof.
  intros Ha Han Hpi. unfold final_exit.
  pose proof (deep_exit_spec P cfg orc PI HPI Hwf s a Ha Han) as H1. cbv zeta in H1.
  set (s1 := deep_exit P cfg orc s) in *.
  destruct H1 as (A1 & Q1 & F1 & l1 & E1 & C1).
  unfold MachineFrame.SInv.
  split; [|split; [|split]].
  - cbn [upd_core co].
    destruct (c_plans cfg), (c_history cfg); cbn [set_previous set_plan set_request set_requested set_active active requested request plan];
      (split; [reflexivity|]); (split; [left; reflexivity|]);
      (split; [unfold MachineFrame.RW; cbn [set_previous set_plan set_request set_requested set_active request]; rewrite t_clear_invalid; discriminate|]);
      try (apply (pio_pd_clear _ _ _ HPI)); apply (frl_pi _ _ _ _ _ F1); exact Hpi.
  - cbn [upd_core co]. destruct (c_plans cfg), (c_history cfg); reflexivity.
  - cbn [upd_core co]. rewrite <- (frl_logger _ _ _ _ _ F1). destruct (c_plans cfg), (c_history cfg); reflexivity.
  - exists l1. split; [exact E1|exact C1].
Qed.


(* ---- update / react / query ---- *)
Lemma life_shape_prepend_quiet a a' l lq : life_shape a a' l -> quiet a lq -> life_shape a a' (l ++ lq).
Proof. apply life_shape_after_quiet. Qed.

Lemma cycle_spec mpre mmid mpost s a :
  is_life mpre = false -> is_life mmid = false -> is_life mpost = false ->
  SInv s -> active P (co P s) = a -> a < n ->
  let s' := cycle P cfg orc mpre mmid mpost s in
  SInv s' /\ active P (co P s') < n /\ logger P (co P s') = logger P (co P s) /\
  exists l, tr P s' = l ++ tr P s /\ life_shape a (active P (co P s')) l.
Proof.
  intros H1 H2 H3 (Hq & Hact & Hrw & Hpi) Ha Han. unfold cycle.
  pose proof (region_phase_quiet P cfg orc PI HPI Hwf mpre false s (mk_ctl P KFull (t_empty P) (t_empty P)) H1) as R1.
  destruct (region_phase P cfg orc mpre false _) as [s1 k1]. destruct R1 as [F1 _]. rewrite Ha in F1.
  pose proof (region_phase_quiet P cfg orc PI HPI Hwf mmid false s1 k1 H2) as R2.
  destruct (region_phase P cfg orc mmid false (s1, k1)) as [s2 k2]. destruct R2 as [F2 _].
  rewrite (fr_active _ _ _ _ _ _ F1), Ha in F2.
  pose proof (region_phase_quiet P cfg orc PI HPI Hwf mpost true s2 k2 H3) as R3.
  destruct (region_phase P cfg orc mpost true (s2, k2)) as [s3 k3]. destruct R3 as [F3 _].
  rewrite (fr_active _ _ _ _ _ _ F2), (fr_active _ _ _ _ _ _ F1), Ha in F3.
  pose proof (fr_trans _ _ _ _ _ _ _ (fr_trans _ _ _ _ _ _ _ F1 F2) F3) as F13.
  set (s5 := let '(s4, _) := if c_plans cfg then deep_update_plans P cfg orc (s3, k3) else (s3, k3) in
             if c_plans cfg then upd_plan P (pd_clear_region_statuses P) s4 else s4).
  assert (F5 : fr (qev a) s s5).
  { subst s5. destruct (c_plans cfg).
    - pose proof (deep_update_plans_quiet P cfg orc PI HPI Hwf s3 k3 cap_le (fr_pi _ _ _ _ _ _ F13 Hpi)) as F4.
      destruct (deep_update_plans P cfg orc (s3, k3)) as [s4 k4].
      rewrite (fr_active _ _ _ _ _ _ F13), Ha in F4.
      eapply fr_trans; [exact F13|]. eapply fr_trans; [exact F4|].
      apply fr_upd_plan. intros d Hd. apply (pio_statuses _ _ _ HPI). exact Hd.
    - exact F13. }
  assert (Es : (let '(s4, _) := if c_plans cfg then deep_update_plans P cfg orc (s3, k3) else (s3, k3) in
               process_request P cfg orc (if c_plans cfg then upd_plan P (pd_clear_region_statuses P) s4 else s4))
               = process_request P cfg orc s5).
  { subst s5. destruct (if c_plans cfg then deep_update_plans P cfg orc (s3, k3) else (s3, k3)). reflexivity. }
  rewrite Es. clearbody s5.
  pose proof (process_request_spec P cfg orc PI HPI Hwf s5 a cap_le) as HP. cbv zeta in HP.
  destruct HP as (I6 & A6 & L6 & l6 & E6 & S6).
  { rewrite (fr_active _ _ _ _ _ _ F5); exact Ha. } { exact Han. }
  { rewrite (fr_requested _ _ _ _ _ _ F5); exact Hq. } { apply (fr_rw _ _ _ _ _ _ F5); exact Hrw. }
  { apply (fr_pi _ _ _ _ _ _ F5); exact Hpi. }
  split; [exact I6|]. split; [exact A6|]. split; [rewrite L6; apply (fr_logger _ _ _ _ _ _ F5)|].
  destruct (fr_tr _ _ _ _ _ _ F5) as (l5 & E5 & Q5).
  exists (l6 ++ l5). split; [rewrite E6, E5, app_assoc; reflexivity|].
  apply life_shape_after_quiet; assumption.
Qed.

(* update()/react() = the phase callbacks and the plan step (which apply no transition), then processRequest *)
Lemma cycle_decompose mpre mmid mpost s a :
  is_life mpre = false -> is_life mmid = false -> is_life mpost = false ->
  SInv s -> active P (co P s) = a -> a < n ->
  exists s5, cycle P cfg orc mpre mmid mpost s = process_request P cfg orc s5 /\ fr (qev a) s s5.
Proof.
  intros H1 H2 H3 (Hq & Hact & Hrw & Hpi) Ha Han. unfold cycle.
  pose proof (region_phase_quiet P cfg orc PI HPI Hwf mpre false s (mk_ctl P KFull (t_empty P) (t_empty P)) H1) as R1.
  destruct (region_phase P cfg orc mpre false _) as [s1 k1]. destruct R1 as [F1 _]. rewrite Ha in F1.
  pose proof (region_phase_quiet P cfg orc PI HPI Hwf mmid false s1 k1 H2) as R2.
  destruct (region_phase P cfg orc mmid false (s1, k1)) as [s2 k2]. destruct R2 as [F2 _].
  rewrite (fr_active _ _ _ _ _ _ F1), Ha in F2.
  pose proof (region_phase_quiet P cfg orc PI HPI Hwf mpost true s2 k2 H3) as R3.
  destruct (region_phase P cfg orc mpost true (s2, k2)) as [s3 k3]. destruct R3 as [F3 _].
  rewrite (fr_active _ _ _ _ _ _ F2), (fr_active _ _ _ _ _ _ F1), Ha in F3.
  pose proof (fr_trans _ _ _ _ _ _ _ (fr_trans _ _ _ _ _ _ _ F1 F2) F3) as F13.
  set (s5 := let '(s4, _) := if c_plans cfg then deep_update_plans P cfg orc (s3, k3) else (s3, k3) in
             if c_plans cfg then upd_plan P (pd_clear_region_statuses P) s4 else s4).
  exists s5. split.
  - subst s5. destruct (if c_plans cfg then deep_update_plans P cfg orc (s3, k3) else (s3, k3)). reflexivity.
  - subst s5. destruct (c_plans cfg).
    + pose proof (deep_update_plans_quiet P cfg orc PI HPI Hwf s3 k3 cap_le (fr_pi _ _ _ _ _ _ F13 Hpi)) as F4.
      destruct (deep_update_plans P cfg orc (s3, k3)) as [s4 k4].
      rewrite (fr_active _ _ _ _ _ _ F13), Ha in F4.
      eapply fr_trans; [exact F13|]. eapply fr_trans; [exact F4|].
      apply fr_upd_plan. intros d Hd. apply (pio_statuses _ _ _ HPI). exact Hd.
    + exact F13.
Qed.

Lemma query_spec s a :
  SInv s -> active P (co P s) = a -> a < n ->
  let s' := query P cfg orc s in
  SInv s' /\ active P (co P s') = a /\ logger P (co P s') = logger P (co P s) /\
  exists l, tr P s' = l ++ tr P s /\ life_shape a a l.
Proof.
  intros (Hq & Hact & Hrw & Hpi) Ha Han. unfold query.
  pose proof (deliver_quiet P cfg orc PI HPI Hwf Root MQuery s (mk_ctl P KConst (t_empty P) (t_empty P)) eq_refl) as H1.
  destruct (deliver P cfg orc Root MQuery _) as [s1 k1]. destruct H1 as [F1 _]. rewrite Ha in F1.
  pose proof (deliver_quiet P cfg orc PI HPI Hwf (leaf cfg (active P (co P s1))) MQuery s1 k1 eq_refl) as H2.
  destruct (deliver P cfg orc (leaf cfg (active P (co P s1))) MQuery _) as [s2 k2]. destruct H2 as [F2 _]. cbn [fst].
  rewrite (fr_active _ _ _ _ _ _ F1), Ha in F2.
  pose proof (fr_trans _ _ _ _ _ _ _ F1 F2) as F.
  split; [|split; [rewrite (fr_active _ _ _ _ _ _ F); exact Ha|split; [apply (fr_logger _ _ _ _ _ _ F)|]]].
  - split; [rewrite (fr_requested _ _ _ _ _ _ F); exact Hq|]. split; [right; rewrite (fr_active _ _ _ _ _ _ F), Ha; exact Han|].
    split; [apply (fr_rw _ _ _ _ _ _ F); exact Hrw|apply (fr_pi _ _ _ _ _ _ F); exact Hpi].
  - destruct (fr_tr _ _ _ _ _ _ F) as (l & E & Q). exists l. split; [exact E|]. apply life_shape_quiet. exact Q.
Qed.

(* ---- operations that touch neither the registry nor deliver callbacks ---- *)
Lemma still_spec (s s' : mstate) a :
  SInv s -> active P (co P s) = a -> fr (fun e => noncb P e) s s' ->
  SInv s' /\ active P (co P s') = a /\ exists l, tr P s' = l ++ tr P s /\ life_shape a a l.
Proof.
  intros (Hq & Hact & Hrw & Hpi) Ha F.
  split; [|split; [rewrite (fr_active _ _ _ _ _ _ F); exact Ha|]].
  - split; [rewrite (fr_requested _ _ _ _ _ _ F); exact Hq|]. split; [rewrite (fr_active _ _ _ _ _ _ F); exact Hact|].
    split; [apply (fr_rw _ _ _ _ _ _ F); exact Hrw|apply (fr_pi _ _ _ _ _ _ F); exact Hpi].
  - destruct (fr_tr _ _ _ _ _ _ F) as (l & E & Q). exists l. split; [exact E|]. apply life_shape_quiet.
    eapply Forall_impl; [|exact Q]. intros e He. apply noncb_ev_ok. exact He.
Qed.

Lemma change_to_fr d p s : d < n -> fr (fun e => noncb P e) s (change_to P cfg d p s).
Proof.
  intro Hd. unfold change_to. eapply fr_trans; [|apply fr_log_rec; exact I].
  apply fr_upd_core; auto. intros _. apply RW_set_request. intros _. exact Hd.
Qed.


(* ---- load / replay: transitions applied without guards ---- *)

Lemma base_load'_spec a0 s a :
  SInv s -> active P (co P s) = a -> a < n -> a0 < n ->
  let s' := base_load' P cfg orc a0 s in
  SInv s' /\ active P (co P s') = a0 /\ logger P (co P s') = logger P (co P s) /\
  exists l, tr P s' = l ++ tr P s /\ change a a0 l.
Proof.
  intros (Hq & Hact & Hrw & Hpi) Ha Han H0. unfold base_load'.
  set (s3 := upd_core P _ (upd_core P _ (upd_core P _ s))).
  assert (A3 : active P (co P s3) = a).
  { subst s3. cbn [upd_core co]. destruct (c_plans cfg), (c_history cfg); exact Ha. }
  assert (Q3 : requested P (co P s3) = a0).
  { subst s3. cbn [upd_core co]. destruct (c_plans cfg), (c_history cfg); reflexivity. }
  assert (R3 : RW (co P s3)).
  { subst s3. unfold MachineFrame.RW. cbn [upd_core co].
    destruct (c_plans cfg), (c_history cfg); cbn [set_previous set_plan set_request set_requested request];
      rewrite t_clear_invalid; discriminate. }
  assert (P3 : PI (plan P (co P s3))).
  { subst s3. cbn [upd_core co].
    destruct (c_plans cfg), (c_history cfg); cbn [set_previous set_plan set_request set_requested plan];
      try apply (pio_pd_clear _ _ _ HPI); exact Hpi. }
  assert (L3 : logger P (co P s3) = logger P (co P s) /\ tr P s3 = tr P s).
  { subst s3. cbn [upd_core co tr]. destruct (c_plans cfg), (c_history cfg); split; reflexivity. }
  pose proof (deep_change_to_requested_spec P cfg orc PI HPI Hwf (t_empty P) s3 a a0 A3 Q3 Han H0) as H. cbv zeta in H.
  set (s4 := deep_change_to_requested P cfg orc (t_empty P) s3) in *.
  destruct H as (A4 & Q4 & F4 & l & E & C).
  split; [|split; [exact A4|split; [rewrite (frl_logger _ _ _ _ _ F4); exact (proj1 L3)|]]].
  - split; [exact Q4|]. split; [right; rewrite A4; exact H0|].
    split; [apply (frl_rw _ _ _ _ _ F4); exact R3|apply (frl_pi _ _ _ _ _ F4); exact P3].
  - exists l. split; [rewrite E, (proj2 L3); reflexivity|exact C].
Qed.

Lemma load_enter'_spec a0 s :
  SInv s -> active P (co P s) = INVALID -> a0 < n ->
  let s' := load_enter' P cfg orc a0 s in
  SInv s' /\ active P (co P s') = a0 /\ logger P (co P s') = logger P (co P s) /\
  exists l, tr P s' = l ++ tr P s /\ change INVALID a0 l.
Proof.
  intros (Hq & Hact & Hrw & Hpi) Ha H0. unfold load_enter'.
  set (s1 := upd_core P (fun c => set_requested P c a0) s).
  pose proof (deep_enter_spec P cfg orc PI HPI Hwf (t_empty P) s1 a0 Ha eq_refl H0) as H. cbv zeta in H.
  set (s2 := deep_enter P cfg orc (t_empty P) s1) in *.
  destruct H as (A2 & Q2 & F2 & l & E & C).
  split; [|split; [exact A2|split; [exact (frl_logger _ _ _ _ _ F2)|]]].
  - split; [exact Q2|]. split; [right; rewrite A2; exact H0|].
    split; [apply (frl_rw _ _ _ _ _ F2); exact Hrw|apply (frl_pi _ _ _ _ _ F2); exact Hpi].
  - exists l. split; [exact E|exact C].
Qed.

Definition is_on (s : mstate) : Prop := active P (co P s) < n.
Definition is_off (s : mstate) : Prop := active P (co P s) = INVALID.

Lemma machine_is_active_on s : is_on s -> machine_is_active P (co P s) = true.
Proof. intro H. unfold machine_is_active. apply negb_true_iff, Nat.eqb_neq, lt_n_not_INVALID. exact H. Qed.
Lemma machine_is_active_off s : is_off s -> machine_is_active P (co P s) = false.
Proof. intro H. unfold machine_is_active, is_off in *. rewrite H. reflexivity. Qed.

Lemma load_spec buf s :
  SInv s -> buf_ok cfg buf -> (c_manual cfg = false -> is_on s) ->
  let s' := load P cfg orc buf s in
  SInv s' /\ logger P (co P s') = logger P (co P s) /\
  exists l, tr P s' = l ++ tr P s /\ life_shape (active P (co P s)) (active P (co P s')) l.
Proof.
  intros Hs Hb Hauto. unfold load. unfold buf_ok in Hb.
  destruct (read buf 0 1) as [flag c1]. destruct Hb as [Hidx Hflag].
  destruct (read buf c1 (width_bits cfg)) as [v c2] eqn:Er. cbn [fst] in Hidx.
  assert (Hon_off : is_on s \/ is_off s).
  { destruct Hs as (_ & [H|H] & _); [right; exact H|left; exact H]. }
  assert (Still : SInv s /\ logger P (co P s) = logger P (co P s) /\
                  exists l, tr P s = l ++ tr P s /\ life_shape (active P (co P s)) (active P (co P s)) l).
  { split; [exact Hs|]. split; [reflexivity|]. exists []. split; [reflexivity|]. apply life_shape_quiet. constructor. }
  destruct (c_manual cfg) eqn:Em.
  - destruct (flag =? 0)%N eqn:Ef; cbn [negb].
    + destruct Hon_off as [Hon|Hoff].
      * rewrite (machine_is_active_on s Hon).
        pose proof (final_exit_spec s _ eq_refl Hon (proj2 (proj2 (proj2 Hs)))) as H. cbv zeta in H.
        destruct H as (I & A & L & l & E & S). split; [exact I|]. split; [exact L|]. exists l. split; [exact E|]. rewrite A. apply change_life_shape. exact S.
      * rewrite (machine_is_active_off s Hoff). exact Still.
    + apply N.eqb_neq in Ef. specialize (Hidx Ef).
      destruct Hon_off as [Hon|Hoff].
      * rewrite (machine_is_active_on s Hon), (base_load_read P cfg orc buf c1 v c2 s Er).
        pose proof (base_load'_spec (N.to_nat v) s _ Hs eq_refl Hon Hidx) as H. cbv zeta in H.
        destruct H as (I & A & L & l & E & C). split; [exact I|]. split; [exact L|]. exists l. split; [exact E|].
        rewrite A. apply change_life_shape. exact C.
      * rewrite (machine_is_active_off s Hoff), (load_enter_read P cfg orc buf c1 v c2 s Er).
        pose proof (load_enter'_spec (N.to_nat v) s Hs Hoff Hidx) as H. cbv zeta in H.
        destruct H as (I & A & L & l & E & C). split; [exact I|]. split; [exact L|]. exists l. split; [exact E|].
        rewrite A. unfold is_off in Hoff. rewrite Hoff. apply change_life_shape. exact C.
  - specialize (Hflag eq_refl). specialize (Hauto eq_refl).
    destruct (flag =? 0)%N eqn:Ef; [apply N.eqb_eq in Ef; contradiction|]. cbn [negb].
    apply N.eqb_neq in Ef. specialize (Hidx Ef).
    rewrite (base_load_read P cfg orc buf c1 v c2 s Er).
    pose proof (base_load'_spec (N.to_nat v) s _ Hs eq_refl Hauto Hidx) as H. cbv zeta in H.
    destruct H as (I & A & L & l & E & C). split; [exact I|]. split; [exact L|]. exists l. split; [exact E|].
    rewrite A. apply change_life_shape. exact C.
Qed.

(* loading what another instance of the same type saved: C12's round trip *)
Lemma load_roundtrip (c0 : core P) s :
  SInv s -> saver_ok P cfg c0 -> (c_manual cfg = false -> is_on s) ->
  let s' := load P cfg orc (save P cfg c0) s in
  SInv s' /\ active P (co P s') = active P c0 /\ logger P (co P s') = logger P (co P s) /\
  exists l, tr P s' = l ++ tr P s /\ change (active P (co P s)) (active P c0) l.
Proof.
  intros Hs Hc0 Hauto.
  assert (Hn : n_ok cfg) by (destruct Hcfg as (H & _); exact H).
  rewrite (load_save_spec P cfg orc Hn c0 s Hc0).
  assert (Hon_off : is_on s \/ is_off s).
  { destruct Hs as (_ & [H|H] & _); [right; exact H|left; exact H]. }
  assert (Hsaver : (active P c0 < n /\ machine_is_active P c0 = true) \/ (active P c0 = INVALID /\ machine_is_active P c0 = false /\ c_manual cfg = true)).
  { destruct Hc0 as [H|[H1 H2]].
    - left. split; [exact H|]. unfold machine_is_active. apply negb_true_iff, Nat.eqb_neq, lt_n_not_INVALID. exact H.
    - right. split; [exact H1|]. split; [unfold machine_is_active; rewrite H1; reflexivity|exact H2]. }
  destruct (c_manual cfg) eqn:Em.
  - destruct Hsaver as [[H0 M0]|[H0 [M0 _]]]; rewrite M0.
    + destruct Hon_off as [Hon|Hoff].
      * rewrite (machine_is_active_on s Hon). exact (base_load'_spec (active P c0) s _ Hs eq_refl Hon H0).
      * rewrite (machine_is_active_off s Hoff). pose proof (load_enter'_spec (active P c0) s Hs Hoff H0) as H.
        unfold is_off in Hoff. rewrite Hoff. exact H.
    + rewrite H0. destruct Hon_off as [Hon|Hoff].
      * rewrite (machine_is_active_on s Hon). exact (final_exit_spec s _ eq_refl Hon (proj2 (proj2 (proj2 Hs)))).
      * rewrite (machine_is_active_off s Hoff). unfold is_off in Hoff. rewrite Hoff.
        split; [exact Hs|]. split; [exact Hoff|]. split; [reflexivity|]. exists []. split; [reflexivity|apply ch_none; reflexivity].
  - destruct Hsaver as [[H0 M0]|[_ [_ Hm]]]; [|discriminate].
    exact (base_load'_spec (active P c0) s _ Hs eq_refl (Hauto eq_refl) H0).
Qed.

Lemma t_neq_empty_to d : d <> INVALID -> t_neq P (t_empty P) (t_to P d) = true.
Proof.
  intro H. unfold t_neq, t_empty, t_to. cbn [t_origin t_dest t_pay is_some].
  rewrite Nat.eqb_refl. cbn [negb orb].
  destruct (INVALID =? d) eqn:E; [apply Nat.eqb_eq in E; congruence|reflexivity].
Qed.

Lemma replay_transition_spec d s a :
  SInv s -> active P (co P s) = a -> a < n -> d < n ->
  let s' := fst (replay_transition P cfg orc d s) in
  SInv s' /\ active P (co P s') = d /\ logger P (co P s') = logger P (co P s) /\
  snd (replay_transition P cfg orc d s) = true /\
  exists l, tr P s' = l ++ tr P s /\ change a d l.
Proof.
  intros (Hq & Hact & Hrw & Hpi) Ha Han Hd. unfold replay_transition.
  assert (Hne : d <> INVALID) by (apply lt_n_not_INVALID; exact Hd).
  assert (E : negb (d =? INVALID) = true) by (apply negb_true_iff, Nat.eqb_neq; exact Hne).
  rewrite E. unfold apply_request. rewrite (t_neq_empty_to d Hne).
  set (s2 := upd_core P (fun c => set_previous P c (t_to P d)) _).
  pose proof (deep_change_to_requested_spec P cfg orc PI HPI Hwf (t_empty P) s2 a d Ha eq_refl Han Hd) as H. cbv zeta in H.
  set (s3 := deep_change_to_requested P cfg orc (t_empty P) s2) in *.
  destruct H as (A3 & Q3 & F3 & l & E3 & C). cbn [fst snd].
  split; [|split; [exact A3|split; [exact (frl_logger _ _ _ _ _ F3)|split; [reflexivity|]]]].
  - split; [reflexivity|]. split; [right; cbn [upd_core co set_requested active]; rewrite A3; exact Hd|].
    split; [apply (frl_rw _ _ _ _ _ F3); exact Hrw|apply (frl_pi _ _ _ _ _ F3); exact Hpi].
  - exists l. split; [exact E3|exact C].
Qed.

Lemma replay_transition_invalid s : replay_transition P cfg orc INVALID s = (s, false).
Proof. unfold replay_transition. rewrite Nat.eqb_refl. reflexivity. Qed.

Lemma replay_enter_spec d s :
  SInv s -> active P (co P s) = INVALID -> d < n ->
  let s' := replay_enter P cfg orc d s in
  SInv s' /\ active P (co P s') = d /\ logger P (co P s') = logger P (co P s) /\
  exists l, tr P s' = l ++ tr P s /\ change INVALID d l.
Proof.
  intros (Hq & Hact & Hrw & Hpi) Ha Hd. unfold replay_enter.
  assert (Hne : d <> INVALID) by (apply lt_n_not_INVALID; exact Hd).
  unfold apply_request. rewrite (t_neq_empty_to d Hne).
  set (s2 := upd_core P (fun c => set_previous P c (t_to P d)) _).
  pose proof (deep_enter_spec P cfg orc PI HPI Hwf (t_empty P) s2 d Ha eq_refl Hd) as H. cbv zeta in H.
  set (s3 := deep_enter P cfg orc (t_empty P) s2) in *.
  destruct H as (A3 & Q3 & F3 & l & E3 & C).
  split; [|split; [exact A3|split; [exact (frl_logger _ _ _ _ _ F3)|]]].
  - split; [reflexivity|]. split; [right; cbn [upd_core co set_requested active]; rewrite A3; exact Hd|].
    split; [apply (frl_rw _ _ _ _ _ F3); exact Hrw|apply (frl_pi _ _ _ _ _ F3); exact Hpi].
  - exists l. split; [exact E3|exact C].
Qed.


(* ---- the public API, one operation at a time ---- *)
Definition in_contract (s : mstate) (op : api_op P) : Prop :=
  match op with
  | OEnter _ => is_off s
  | OExit _ => is_on s
  | OUpdate _ | OReact _ | OQuery _ => is_on s
  | OChange _ d | OChangeWith _ d _ | OImmChange _ d | OImmChangeWith _ d _ => is_on s /\ d < n
  | OSucceed _ sid | OFail _ sid => sid < n
  | OPlanAppend _ o d | OPlanAppendWith _ o d _ => o < n /\ d < n
  | OPlanClear _ | OPlanRemoveAt _ _ => True
  | OLoad _ buf => buf_ok cfg buf /\ (c_manual cfg = false -> is_on s)
  | OReplayEnter _ d => is_off s /\ d < n
  | OReplayTransition _ d => is_on s /\ (d < n \/ d = INVALID)
  | OAttachLogger _ _ => True
  end.

Lemma SInv_on_off s : SInv s -> is_on s \/ is_off s.
Proof. intros (_ & [H|H] & _); [right; exact H|left; exact H]. Qed.

Lemma step_spec s op :
  SInv s -> in_contract s op ->
  let s' := fst (step P cfg orc s op) in
  SInv s' /\ exists l, tr P s' = l ++ tr P s /\ life_shape (active P (co P s)) (active P (co P s')) l.
Proof.
  intros Hs Hc.
  assert (Hs' := Hs). destruct Hs' as (Hq & Hact & Hrw & Hpi).
  destruct op; cbn [step fst in_contract] in *.
  - (* enter *)
    pose proof (initial_enter_spec s Hc Hrw Hpi) as H. cbv zeta in H. destruct H as (I & A & L & l & E & S).
    split; [exact I|]. exists l. split; [exact E|]. unfold is_off in Hc. rewrite Hc. exact S.
  - (* exit *)
    pose proof (final_exit_spec s _ eq_refl Hc Hpi) as H. cbv zeta in H. destruct H as (I & A & L & l & E & S).
    split; [exact I|]. exists l. split; [exact E|]. rewrite A. apply change_life_shape. exact S.
  - pose proof (cycle_spec MPreUpdate MUpdate MPostUpdate s _ eq_refl eq_refl eq_refl Hs eq_refl Hc) as H. cbv zeta in H.
    destruct H as (I & A & L & l & E & S). split; [exact I|]. exists l. split; [exact E|exact S].
  - pose proof (cycle_spec MPreReact MReact MPostReact s _ eq_refl eq_refl eq_refl Hs eq_refl Hc) as H. cbv zeta in H.
    destruct H as (I & A & L & l & E & S). split; [exact I|]. exists l. split; [exact E|exact S].
  - pose proof (query_spec s _ Hs eq_refl Hc) as H. cbv zeta in H.
    destruct H as (I & A & L & l & E & S). split; [exact I|]. exists l. split; [exact E|]. rewrite A. exact S.
  - destruct Hc as [Hon Hd]. destruct (still_spec s _ _ Hs eq_refl (change_to_fr d None s Hd)) as (I & A & l & E & S).
    split; [exact I|]. exists l. split; [exact E|]. rewrite A. exact S.
  - destruct Hc as [Hon Hd]. destruct (still_spec s _ _ Hs eq_refl (change_to_fr d (Some p) s Hd)) as (I & A & l & E & S).
    split; [exact I|]. exists l. split; [exact E|]. rewrite A. exact S.
  - destruct Hc as [Hon Hd]. unfold immediate_change_to.
    pose proof (change_to_fr d None s Hd) as F. set (s1 := change_to P cfg d None s) in *.
    pose proof (process_request_spec P cfg orc PI HPI Hwf s1 (active P (co P s)) cap_le (fr_active _ _ _ _ _ _ F) Hon) as H. cbv zeta in H.
    destruct H as (I & A & L & l & E & S).
    { rewrite (fr_requested _ _ _ _ _ _ F); exact Hq. } { apply (fr_rw _ _ _ _ _ _ F); exact Hrw. } { apply (fr_pi _ _ _ _ _ _ F); exact Hpi. }
    split; [exact I|]. destruct (fr_tr _ _ _ _ _ _ F) as (l1 & E1 & Q1).
    exists (l ++ l1). split; [rewrite E, E1, app_assoc; reflexivity|]. apply life_shape_after_quiet; [exact S|].
    eapply Forall_impl; [|exact Q1]. intros e He. apply noncb_ev_ok. exact He.
  - destruct Hc as [Hon Hd]. unfold immediate_change_to.
    pose proof (change_to_fr d (Some p) s Hd) as F. set (s1 := change_to P cfg d (Some p) s) in *.
    pose proof (process_request_spec P cfg orc PI HPI Hwf s1 (active P (co P s)) cap_le (fr_active _ _ _ _ _ _ F) Hon) as H. cbv zeta in H.
    destruct H as (I & A & L & l & E & S).
    { rewrite (fr_requested _ _ _ _ _ _ F); exact Hq. } { apply (fr_rw _ _ _ _ _ _ F); exact Hrw. } { apply (fr_pi _ _ _ _ _ _ F); exact Hpi. }
    split; [exact I|]. destruct (fr_tr _ _ _ _ _ _ F) as (l1 & E1 & Q1).
    exists (l ++ l1). split; [rewrite E, E1, app_assoc; reflexivity|]. apply life_shape_after_quiet; [exact S|].
    eapply Forall_impl; [|exact Q1]. intros e He. apply noncb_ev_ok. exact He.
  - (* succeed *)
    assert (F : fr (fun e => noncb P e) s (api_succeed P cfg sid s)).
    { unfold api_succeed. eapply fr_trans; [|apply fr_log_rec; exact I].
      apply fr_upd_plan. intros d0 Hd0. apply (pio_succ_set _ _ _ HPI). exact Hd0. }
    destruct (still_spec s _ _ Hs eq_refl F) as (I & A & l & E & S).
    split; [exact I|]. exists l. split; [exact E|]. rewrite A. exact S.
  - assert (F : fr (fun e => noncb P e) s (api_fail P cfg sid s)).
    { unfold api_fail. eapply fr_trans; [|apply fr_log_rec; exact I].
      apply fr_upd_plan. intros d0 Hd0. apply (pio_fail_set _ _ _ HPI). exact Hd0. }
    destruct (still_spec s _ _ Hs eq_refl F) as (I & A & l & E & S).
    split; [exact I|]. exists l. split; [exact E|]. rewrite A. exact S.
  - (* plan ops through the instance *)
    unfold api_plan_op.
    pose proof (perform_fr P cfg PI HPI INVALID (APlanAppend P o d) s (mk_ctl P KPlan (t_empty P) (t_empty P)) Hc) as H.
    destruct (perform P cfg INVALID (APlanAppend P o d) _) as [[s1 k1] res]. destruct H as [F _]. cbn [fst].
    destruct (still_spec s _ _ Hs eq_refl F) as (I & A & l & E & S).
    split; [exact I|]. exists l. split; [exact E|]. rewrite A. exact S.
  - unfold api_plan_op.
    pose proof (perform_fr P cfg PI HPI INVALID (APlanAppendWith P o d p) s (mk_ctl P KPlan (t_empty P) (t_empty P)) Hc) as H.
    destruct (perform P cfg INVALID (APlanAppendWith P o d p) _) as [[s1 k1] res]. destruct H as [F _]. cbn [fst].
    destruct (still_spec s _ _ Hs eq_refl F) as (I & A & l & E & S).
    split; [exact I|]. exists l. split; [exact E|]. rewrite A. exact S.
  - unfold api_plan_op.
    pose proof (perform_fr P cfg PI HPI INVALID (APlanClear P) s (mk_ctl P KPlan (t_empty P) (t_empty P)) I) as H.
    destruct (perform P cfg INVALID (APlanClear P) _) as [[s1 k1] res]. destruct H as [F _]. cbn [fst].
    destruct (still_spec s _ _ Hs eq_refl F) as (I0 & A & l & E & S).
    split; [exact I0|]. exists l. split; [exact E|]. rewrite A. exact S.
  - unfold api_plan_op.
    pose proof (perform_fr P cfg PI HPI INVALID (APlanRemoveAt P k) s (mk_ctl P KPlan (t_empty P) (t_empty P)) I) as H.
    destruct (perform P cfg INVALID (APlanRemoveAt P k) _) as [[s1 k1] res]. destruct H as [F _]. cbn [fst].
    destruct (still_spec s _ _ Hs eq_refl F) as (I0 & A & l & E & S).
    split; [exact I0|]. exists l. split; [exact E|]. rewrite A. exact S.
  - (* load *)
    destruct Hc as [Hb Hauto]. pose proof (load_spec buf s Hs Hb Hauto) as H. cbv zeta in H.
    destruct H as (I & L & l & E & S). split; [exact I|]. exists l. split; [exact E|exact S].
  - destruct Hc as [Hoff Hd]. pose proof (replay_enter_spec d s Hs Hoff Hd) as H. cbv zeta in H.
    destruct H as (I & A & L & l & E & C). split; [exact I|]. exists l. split; [exact E|].
    unfold is_off in Hoff. rewrite A, Hoff. apply change_life_shape. exact C.
  - destruct Hc as [Hon [Hd|Hd]].
    + pose proof (replay_transition_spec d s _ Hs eq_refl Hon Hd) as H. cbv zeta in H.
      destruct (replay_transition P cfg orc d s) as [s1 b]. cbn [fst snd] in *.
      destruct H as (I & A & L & _ & l & E & C). split; [exact I|]. exists l. split; [exact E|].
      rewrite A. apply change_life_shape. exact C.
    + rewrite Hd, replay_transition_invalid. cbn [fst]. split; [exact Hs|]. exists []. split; [reflexivity|].
      apply life_shape_quiet. constructor.
  - (* attachLogger *)
    split.
    + split; [exact Hq|]. split; [exact Hact|]. split; [exact Hrw|exact Hpi].
    + exists []. split; [reflexivity|]. apply life_shape_quiet. constructor.
Qed.

(* ---- whole histories ---- *)
Inductive life_chain : nat -> nat -> list event -> Prop :=
| lc_nil a : life_chain a a []
| lc_step a a1 a2 l1 l2 : life_chain a a1 l1 -> life_shape a1 a2 l2 -> life_chain a a2 (l2 ++ l1).

Fixpoint ops_ok (s : mstate) (ops : list (api_op P)) : Prop :=
  match ops with
  | [] => True
  | op :: r => in_contract s op /\ ops_ok (fst (step P cfg orc s op)) r
  end.

Lemma run_from_spec : forall ops s a0 l0,
  SInv s -> ops_ok s ops -> tr P s = l0 -> life_chain a0 (active P (co P s)) l0 ->
  let s' := run_from P cfg orc s ops in
  SInv s' /\ life_chain a0 (active P (co P s')) (tr P s').
Proof.
  induction ops as [|op ops IH]; intros s a0 l0 Hs Hok Ht Hch; cbn [run_from fold_left].
  - split; [exact Hs|]. rewrite Ht. exact Hch.
  - destruct Hok as [Hc Hok].
    pose proof (step_spec s op Hs Hc) as H. cbv zeta in H. destruct H as (I & l & E & S).
    apply (IH _ a0 (l ++ l0) I Hok); [rewrite E, Ht; reflexivity|].
    eapply lc_step; eassumption.
Qed.

Lemma core_init_SInv lg : SInv {| co := core_init P cfg lg; tr := [] |}.
Proof.
  split; [reflexivity|]. split; [left; reflexivity|]. split; [intro H; discriminate|].
  cbn [co core_init plan]. apply (pio_init _ _ _ HPI).
Qed.

Lemma construct_spec lg :
  let s := construct P cfg orc lg in
  SInv s /\ life_chain INVALID (active P (co P s)) (tr P s) /\ (c_manual cfg = false -> is_on s) /\ (c_manual cfg = true -> is_off s).
Proof.
  unfold construct. pose proof (core_init_SInv lg) as H0.
  destruct (c_manual cfg).
  - split; [exact H0|]. split; [apply lc_nil|]. split; [discriminate|]. intros _. reflexivity.
  - destruct H0 as (Hq & Hact & Hrw & Hpi).
    pose proof (initial_enter_spec {| co := core_init P cfg lg; tr := [] |} eq_refl Hrw Hpi) as H. cbv zeta in H.
    destruct H as (I & A & L & l & E & S). split; [exact I|]. split.
    + rewrite E. cbn [tr]. eapply lc_step; [apply lc_nil|exact S].
    + split; [intros _; exact A|discriminate].
Qed.

Lemma destroy_spec s a0 :
  SInv s -> (c_manual cfg = false -> is_on s) -> life_chain a0 (active P (co P s)) (tr P s) ->
  let s' := destroy P cfg orc s in
  life_chain a0 (active P (co P s')) (tr P s') /\ (c_manual cfg = false -> is_off s').
Proof.
  intros Hs Hauto Hch. unfold destroy. destruct (c_manual cfg).
  - split; [exact Hch|discriminate].
  - specialize (Hauto eq_refl). pose proof (final_exit_spec s _ eq_refl Hauto (proj2 (proj2 (proj2 Hs)))) as H. cbv zeta in H.
    destruct H as (I & A & L & l & E & S). split.
    + rewrite E. eapply lc_step; [exact Hch|]. rewrite A. apply change_life_shape. exact S.
    + intros _. exact A.
Qed.

(* every history, from construction: C01 over whole API histories of one instance *)
Theorem run_life : forall lg ops,
  ops_ok (construct P cfg orc lg) ops ->
  let s := run P cfg orc lg ops in
  SInv s /\ life_chain INVALID (active P (co P s)) (tr P s).
Proof.
  intros lg ops Hok. unfold run.
  pose proof (construct_spec lg) as H. cbv zeta in H. destruct H as (I & C & _).
  exact (run_from_spec ops _ INVALID _ I Hok eq_refl C).
Qed.


(* ---- a lifecycle change consults no guard and runs no phase callback ---- *)
Definition only_life (e : event) : Prop :=
  match e with EvCb _ _ _ m _ => is_life m = true | _ => True end.

Lemma deliv_only_life w m a l : is_life m = true -> deliv w m a l -> Forall only_life l.
Proof.
  intros Hm [H _]. eapply Forall_impl; [|exact H]. intros e. destruct e; cbn; auto. intros ((_ & ->) & _). exact Hm.
Qed.

Lemma change_only_life a a' l : change a a' l -> Forall only_life l.
Proof.
  intros C. destruct C as [_|l1 l2 _ _ _ D1 D2|l _ _ D|l1 l2 _ _ D1 D2|l1 l2 _ _ D1 D2].
  - constructor.
  - apply Forall_app. split; [exact (deliv_only_life _ MEnter _ _ eq_refl D2)|exact (deliv_only_life _ MExit _ _ eq_refl D1)].
  - exact (deliv_only_life _ MReenter _ _ eq_refl D).
  - apply Forall_app. split; [exact (deliv_only_life _ MEnter _ _ eq_refl D2)|exact (deliv_only_life _ MEnter _ _ eq_refl D1)].
  - apply Forall_app. split; [exact (deliv_only_life _ MExit _ _ eq_refl D2)|exact (deliv_only_life _ MExit _ _ eq_refl D1)].
Qed.

End L.
