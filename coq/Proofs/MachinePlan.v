(* The plan invariant the machine frame lemmas (Proofs/MachineFrame.v) are parametric in, made concrete:
   PIc = the plan refines a bounded list (PlanInv of Proofs/PlanProofs.v) and every task it holds
   names states of the machine. PIc_ok discharges every field of plan_inv_ok. *)
From Coq Require Import List Arith Bool NArith Lia.
From FFSM2 Require Import Model.TaskList Model.BitArray Model.Plan Model.Machine
                          Proofs.BitArrayProofs Proofs.PlanProofs Proofs.MachineFrame.
Import ListNotations.

Arguments INVALID : simpl never.

(* a task names states of the machine *)
Definition okt (P : Type) (n : nat) (t : task P) : Prop := tk_origin t < n /\ tk_dest t < n.

Definition PIc (P : Type) (cfg : config) (d : plan_data P) : Prop :=
  exists order, PlanInv P (c_cap cfg) d order /\
                Forall (fun i => tk_origin (task_at P d i) < c_n cfg /\ tk_dest (task_at P d i) < c_n cfg) order.

Section MP.
Variable P : Type.
Variable cfg : config.
Local Notation n := (c_n cfg).
Local Notation cap := (c_cap cfg).

Lemma PIc_tasks d order :
  Forall (fun i => tk_origin (task_at P d i) < n /\ tk_dest (task_at P d i) < n) order <->
  Forall (okt P n) (tasks_of P d order).
Proof. unfold tasks_of. rewrite Forall_map. unfold okt. reflexivity. Qed.

Lemma PIc_intro d order : PlanInv P cap d order -> Forall (okt P n) (tasks_of P d order) -> PIc P cfg d.
Proof. intros H F. exists order. split; [exact H|]. apply PIc_tasks. exact F. Qed.

Lemma PIc_elim d : PIc P cfg d -> exists order, PlanInv P cap d order /\ Forall (okt P n) (tasks_of P d order).
Proof. intros (order & H & F). exists order. split; [exact H|]. apply PIc_tasks. exact F. Qed.

(* the plan's tasks as its users see them, under PIc *)
Lemma PIc_plan_tasks d : PIc P cfg d -> Forall (okt P n) (plan_tasks P cap d).
Proof.
  intro H. destruct (PIc_elim d H) as (order & HI & F). rewrite (plan_tasks_spec P cap d order HI). exact F.
Qed.

Lemma PIc_ext d d' : pd_tasks d' = pd_tasks d -> pd_pl d' = pd_pl d -> PIc P cfg d -> PIc P cfg d'.
Proof.
  intros Et Ep H. destruct (PIc_elim d H) as (order & HI & F).
  apply (PIc_intro d' order).
  - exact (PlanInv_ext P cap d d' order Et Ep HI).
  - rewrite (tasks_of_ext P d d' order Et). exact F.
Qed.

Lemma Forall_remove_nth {A : Type} (Q : A -> Prop) k (l : list A) : Forall Q l -> Forall Q (remove_nth k l).
Proof.
  intro H. revert k. induction H as [|a l Ha Hl IH]; intros [|k]; cbn [remove_nth]; try constructor; auto.
Qed.

Lemma iter_indices_ext (d d' : plan_data P) : pd_pl d' = pd_pl d ->
  forall fuel c, iter_indices P cap fuel d' c = iter_indices P cap fuel d c.
Proof.
  intro Ep. induction fuel as [|f IH]; intro c; cbn [iter_indices]; [reflexivity|].
  destruct (c <? cap); [|reflexivity]. unfold it_next. rewrite Ep, IH. reflexivity.
Qed.

Lemma plan_indices_ext (d d' : plan_data P) : pd_pl d' = pd_pl d -> plan_indices P cap d' = plan_indices P cap d.
Proof. intro Ep. unfold plan_indices. rewrite Ep. apply iter_indices_ext. exact Ep. Qed.

Lemma plan_tasks_ext (d d' : plan_data P) : pd_tasks d' = pd_tasks d -> pd_pl d' = pd_pl d ->
  plan_tasks P cap d' = plan_tasks P cap d.
Proof.
  intros Et Ep. unfold plan_tasks. rewrite (plan_indices_ext d d' Ep).
  apply map_ext. intro i. unfold task_at. rewrite Et. reflexivity.
Qed.

Theorem PIc_ok : 1 <= cap <= 255 -> plan_inv_ok P cfg (PIc P cfg).
Proof.
  intro Hc. constructor.
  - (* pio_succ_set *) intros d i H. exact (PIc_ext d (pd_with_succ P d _) eq_refl eq_refl H).
  - (* pio_succ_clear *) intros d i H. exact (PIc_ext d (pd_with_succ P d _) eq_refl eq_refl H).
  - (* pio_succ_and *) intros d tc H _. exact (PIc_ext d (pd_with_succ P d _) eq_refl eq_refl H).
  - (* pio_fail_set *) intros d i H. exact (PIc_ext d (pd_with_fail P d _) eq_refl eq_refl H).
  - (* pio_fail_clear *) intros d i H. exact (PIc_ext d (pd_with_fail P d _) eq_refl eq_refl H).
  - (* pio_statuses *) intros d h s H. exact (PIc_ext d (pd_with_statuses P d h s) eq_refl eq_refl H).
  - (* pio_append *)
    intros d o dst H Ho Hd. destruct (PIc_elim d H) as (order & HI & F).
    pose proof (plan_append_spec P cap d order o dst HI) as S.
    destruct (length order <? cap).
    + destruct S as (i & d' & E & _ & HI' & HT & _ & _). rewrite E. cbn [fst].
      apply (PIc_intro d' (order ++ [i]) HI'). rewrite HT. apply Forall_app. split; [exact F|].
      constructor; [|constructor]. split; [exact Ho|exact Hd].
    + rewrite S. cbn [fst]. exact H.
  - (* pio_append_with *)
    intros d o dst p H Ho Hd. destruct (PIc_elim d H) as (order & HI & F).
    pose proof (plan_append_with_spec P cap d order o dst p HI) as S.
    destruct (length order <? cap).
    + destruct S as (i & d' & E & _ & HI' & HT & _ & _). rewrite E. cbn [fst].
      apply (PIc_intro d' (order ++ [i]) HI'). rewrite HT. apply Forall_app. split; [exact F|].
      constructor; [|constructor]. split; [exact Ho|exact Hd].
    + rewrite S. cbn [fst]. exact (PIc_ext d (pd_with_exists P d true) eq_refl eq_refl H).
  - (* pio_clear *)
    intros d H. destruct (PIc_elim d H) as (order & HI & F).
    destruct (plan_clear_spec P cap n d order HI) as (HI' & _).
    apply (PIc_intro _ [] HI'). constructor.
  - (* pio_remove_at *)
    intros d k H. destruct (PIc_elim d H) as (order & HI & F).
    destruct (plan_remove_at_spec P cap d order k HI) as (d' & E & S). rewrite E. cbn [fst].
    destruct (k <? length order).
    + destruct S as (HI' & HT & _). apply (PIc_intro d' _ HI'). rewrite HT. apply Forall_remove_nth. exact F.
    + rewrite S. exact H.
  - (* pio_pd_clear *)
    intros d H. destruct (PIc_elim d H) as (order & HI & F).
    destruct (pd_clear_spec P cap d order HI) as (HI' & _).
    apply (PIc_intro _ [] HI'). constructor.
  - (* pio_init *)
    apply (PIc_intro _ [] (pd_init_inv P cap n Hc)). constructor.
  - (* pio_task *)
    intros d i (order & HI & F) Hin. rewrite (plan_indices_spec P cap d order HI) in Hin.
    rewrite Forall_forall in F. exact (proj2 (F i Hin)).
  - (* pio_next *)
    intros d l1 x l2 (order & HI & F) E. rewrite (plan_indices_spec P cap d order HI) in E. rewrite E in HI.
    split.
    + apply (PlanInv_lt P cap d _ x HI). apply in_or_app. right. left. reflexivity.
    + exact (it_next_spec P cap d l1 (x :: l2) HI).
  - (* pio_remove *)
    intros d l1 x l2 (order & HI & F) E. rewrite (plan_indices_spec P cap d order HI) in E. rewrite E in HI, F.
    destruct (plan_remove_spec P cap d l1 x l2 HI) as (HI' & Hfr & _ & _).
    split; [|exact (plan_indices_spec P cap _ _ HI')].
    exists (l1 ++ l2). split; [exact HI'|].
    rewrite Forall_forall in *. intros i Hi. rewrite (Hfr i Hi). apply F.
    apply in_app_or in Hi. apply in_or_app. destruct Hi as [Hi|Hi]; [left; exact Hi|right; right; exact Hi].
  - (* pio_indices_bits *)
    intros d b. apply plan_indices_ext. reflexivity.
Qed.

(* ---- the same invariant with the two report bit arrays well formed (ceil(n/8) bytes each): PIw ---- *)
Local Notation nN := (N.of_nat n).
Hypothesis Hn1 : (1 <= nN)%N.
Definition wfb (b : ba) : Prop := BitArrayProofs.wf nN b.
Definition PIw (d : plan_data P) : Prop := PIc P cfg d /\ wfb (pd_succ d) /\ wfb (pd_fail d).

Lemma tcmask_wf tc : tcmask cfg tc -> wfb tc.
Proof.
  induction 1 as [|b i _ IH].
  - unfold wfb. apply (set_all_wf _ Hn1). apply (init_wf _ Hn1).
  - apply (clear_wf _ Hn1). exact IH.
Qed.

Lemma wfb_length b o : wfb b -> wfb o -> length b = length o.
Proof. intros [H1 _] [H2 _]. apply Nat2N.inj. rewrite H1, H2. reflexivity. Qed.

Lemma clear_bits_wf k b : wfb b -> wfb (clear_bits k b).
Proof. intro H. induction k as [|k IH]; cbn [clear_bits]; [exact H|]. apply (clear_wf _ Hn1). exact IH. Qed.

(* the plan's structural operations leave the report bits alone *)
Lemma pd_link_bits d idx : pd_succ (fst (pd_link P d idx)) = pd_succ d /\ pd_fail (fst (pd_link P d idx)) = pd_fail d.
Proof. unfold pd_link. destruct (idx =? INVALID); split; reflexivity. Qed.

Lemma plan_append_bits d o dst :
  pd_succ (fst (plan_append P cap d o dst)) = pd_succ d /\ pd_fail (fst (plan_append P cap d o dst)) = pd_fail d.
Proof.
  unfold plan_append. destruct (_ <? cap); [|split; reflexivity].
  destruct (emplace P cap _ o dst None) as [t' idx]. exact (pd_link_bits (pd_with_tasks P (pd_with_exists P d true) t') idx).
Qed.

Lemma plan_append_with_bits d o dst p :
  pd_succ (fst (plan_append_with P cap d o dst p)) = pd_succ d /\ pd_fail (fst (plan_append_with P cap d o dst p)) = pd_fail d.
Proof.
  unfold plan_append_with. destruct (emplace P cap _ o dst (Some p)) as [t' idx]. exact (pd_link_bits (pd_with_tasks P (pd_with_exists P d true) t') idx).
Qed.

Lemma plan_remove_bits d idx : pd_succ (plan_remove P cap d idx) = pd_succ d /\ pd_fail (plan_remove P cap d idx) = pd_fail d.
Proof. split; reflexivity. Qed.

Lemma clear_loop_bits : forall fuel d idx,
  pd_succ (clear_loop P cap fuel d idx) = pd_succ d /\ pd_fail (clear_loop P cap fuel d idx) = pd_fail d.
Proof.
  induction fuel as [|f IH]; intros d idx; cbn [clear_loop]; [split; reflexivity|].
  destruct (idx =? INVALID); [split; reflexivity|].
  exact (IH (plan_remove P cap d idx) _).
Qed.

Lemma plan_clear_tasks_bits d :
  pd_succ (plan_clear_tasks P cap d) = pd_succ d /\ pd_fail (plan_clear_tasks P cap d) = pd_fail d.
Proof.
  unfold plan_clear_tasks. destruct (first (pd_pl d) <? cap); [|split; reflexivity].
  cbn [pd_with_pl pd_succ pd_fail]. exact (clear_loop_bits (S cap) d (first (pd_pl d))).
Qed.

Lemma remove_at_loop_bits : forall fuel d curr next k seen,
  pd_succ (fst (remove_at_loop P cap fuel d curr next k seen)) = pd_succ d /\
  pd_fail (fst (remove_at_loop P cap fuel d curr next k seen)) = pd_fail d.
Proof.
  induction fuel as [|f IH]; intros d curr next k seen; cbn [remove_at_loop]; [split; reflexivity|].
  destruct (curr <? cap); [|split; reflexivity].
  match goal with |- context [remove_at_loop P cap f ?d1 _ _ _ _] => destruct (IH d1 next (it_next P cap d1 next)
      (match k with Some (S j) => Some j | _ => None end) (seen ++ [task_at P d curr])) as [A B] end.
  rewrite A, B. destruct (match k with Some 0 => true | _ => false end); split; reflexivity.
Qed.

Theorem PIw_ok : 1 <= cap <= 255 -> plan_inv_ok P cfg PIw.
Proof.
  intro Hc. pose proof (PIc_ok Hc) as K. constructor.
  - intros d i (H & Ws & Wf). split; [exact (pio_succ_set _ _ _ K d i H)|]. split; [apply (set_wf _ Hn1); exact Ws|exact Wf].
  - intros d i (H & Ws & Wf). split; [exact (pio_succ_clear _ _ _ K d i H)|]. split; [apply (clear_wf _ Hn1); exact Ws|exact Wf].
  - intros d tc (H & Ws & Wf) Htc. split; [exact (pio_succ_and _ _ _ K d tc H Htc)|]. split; [|exact Wf].
    cbn [pd_with_succ pd_succ]. apply (and_assign_wf _ Hn1); [exact Ws|]. apply wfb_length; [exact Ws|apply tcmask_wf; exact Htc].
  - intros d i (H & Ws & Wf). split; [exact (pio_fail_set _ _ _ K d i H)|]. split; [exact Ws|apply (set_wf _ Hn1); exact Wf].
  - intros d i (H & Ws & Wf). split; [exact (pio_fail_clear _ _ _ K d i H)|]. split; [exact Ws|apply (clear_wf _ Hn1); exact Wf].
  - intros d h s (H & Ws & Wf). split; [exact (pio_statuses _ _ _ K d h s H)|]. split; assumption.
  - intros d o dst (H & Ws & Wf) Ho Hd. split; [exact (pio_append _ _ _ K d o dst H Ho Hd)|].
    destruct (plan_append_bits d o dst) as [A B]. rewrite A, B. split; assumption.
  - intros d o dst p (H & Ws & Wf) Ho Hd. split; [exact (pio_append_with _ _ _ K d o dst p H Ho Hd)|].
    destruct (plan_append_with_bits d o dst p) as [A B]. rewrite A, B. split; assumption.
  - intros d (H & Ws & Wf). split; [exact (pio_clear _ _ _ K d H)|].
    unfold plan_clear. cbn [pd_with_fail pd_with_succ pd_succ pd_fail].
    destruct (plan_clear_tasks_bits d) as [A B]. rewrite A, B. split; apply clear_bits_wf; assumption.
  - intros d k (H & Ws & Wf). split; [exact (pio_remove_at _ _ _ K d k H)|].
    unfold plan_remove_at. destruct (remove_at_loop_bits (S cap) d (first (pd_pl d)) (it_next P cap d (first (pd_pl d))) (Some k) []) as [A B].
    rewrite A, B. split; assumption.
  - intros d (H & Ws & Wf). split; [exact (pio_pd_clear _ _ _ K d H)|].
    cbn [pd_clear pd_succ pd_fail]. split; apply (clear_all_wf _ Hn1); assumption.
  - split; [exact (pio_init _ _ _ K)|]. cbn [pd_init pd_succ pd_fail]. split; apply (init_wf _ Hn1).
  - intros d i (H & _) Hin. exact (pio_task _ _ _ K d i H Hin).
  - intros d l1 x l2 (H & _) E. exact (pio_next _ _ _ K d l1 x l2 H E).
  - intros d l1 x l2 (H & Ws & Wf) E. destruct (pio_remove _ _ _ K d l1 x l2 H E) as [H' E'].
    split; [|exact E']. split; [exact H'|]. split; assumption.
  - intros d b. exact (pio_indices_bits _ _ _ K d b).
Qed.

Lemma PIw_PIc d : PIw d -> PIc P cfg d.
Proof. intros (H & _). exact H. Qed.
End MP.

Print Assumptions PIc_ok.
Print Assumptions PIw_ok.
