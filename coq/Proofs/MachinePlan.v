(* The plan invariant the machine frame lemmas (Proofs/MachineFrame.v) are parametric in, made concrete:
   PIc = the plan refines a bounded list (PlanInv of Proofs/PlanProofs.v) and every task it holds
   names states of the machine. PIc_ok discharges every field of plan_inv_ok. *)
From Coq Require Import List Arith Bool NArith Lia.
From FFSM2 Require Import Model.TaskList Model.BitArray Model.Plan Model.Machine
                          Proofs.PlanProofs Proofs.MachineFrame.
Import ListNotations.

Arguments INVALID : simpl never.

(* a task names states of the machine *)
Definition okt (P : Type) (n : nat) (t : task P) : Prop := tk_origin t < n /\ tk_dest t < n.

Definition PIc (P : Type) (cfg : config) (d : plan_data P) : Prop :=
  exists order, PlanInv P (c_cap cfg) d order /\
                Forall (fun i => tk_origin (task_at P d i) < c_n cfg /\ tk_dest (task_at P d i) < c_n cfg) order.

Section MP.
Variable P : Type.
Variable cfg : config.
Local Notation n := (c_n cfg).
Local Notation cap := (c_cap cfg).

Lemma PIc_tasks d order :
  Forall (fun i => tk_origin (task_at P d i) < n /\ tk_dest (task_at P d i) < n) order <->
  Forall (okt P n) (tasks_of P d order).
Proof. unfold tasks_of. rewrite Forall_map. unfold okt. reflexivity. Qed.

Lemma PIc_intro d order : PlanInv P cap d order -> Forall (okt P n) (tasks_of P d order) -> PIc P cfg d.
Proof. intros H F. exists order. split; [exact H|]. apply PIc_tasks. exact F. Qed.

Lemma PIc_elim d : PIc P cfg d -> exists order, PlanInv P cap d order /\ Forall (okt P n) (tasks_of P d order).
Proof. intros (order & H & F). exists order. split; [exact H|]. apply PIc_tasks. exact F. Qed.

(* the plan's tasks as its users see them, under PIc *)
Lemma PIc_plan_tasks d : PIc P cfg d -> Forall (okt P n) (plan_tasks P cap d).
Proof.
  intro H. destruct (PIc_elim d H) as (order & HI & F). rewrite (plan_tasks_spec P cap d order HI). exact F.
Qed.

Lemma PIc_ext d d' : pd_tasks d' = pd_tasks d -> pd_pl d' = pd_pl d -> PIc P cfg d -> PIc P cfg d'.
Proof.
  intros Et Ep H. destruct (PIc_elim d H) as (order & HI & F).
  apply (PIc_intro d' order).
  - exact (PlanInv_ext P cap d d' order Et Ep HI).
  - rewrite (tasks_of_ext P d d' order Et). exact F.
Qed.

Lemma Forall_remove_nth {A : Type} (Q : A -> Prop) k (l : list A) : Forall Q l -> Forall Q (remove_nth k l).
Proof.
  intro H. revert k. induction H as [|a l Ha Hl IH]; intros [|k]; cbn [remove_nth]; try constructor; auto.
Qed.

Lemma iter_indices_ext (d d' : plan_data P) : pd_pl d' = pd_pl d ->
  forall fuel c, iter_indices P cap fuel d' c = iter_indices P cap fuel d c.
Proof.
  intro Ep. induction fuel as [|f IH]; intro c; cbn [iter_indices]; [reflexivity|].
  destruct (c <? cap); [|reflexivity]. unfold it_next. rewrite Ep, IH. reflexivity.
Qed.

Lemma plan_indices_ext (d d' : plan_data P) : pd_pl d' = pd_pl d -> plan_indices P cap d' = plan_indices P cap d.
Proof. intro Ep. unfold plan_indices. rewrite Ep. apply iter_indices_ext. exact Ep. Qed.

Lemma plan_tasks_ext (d d' : plan_data P) : pd_tasks d' = pd_tasks d -> pd_pl d' = pd_pl d ->
  plan_tasks P cap d' = plan_tasks P cap d.
Proof.
  intros Et Ep. unfold plan_tasks. rewrite (plan_indices_ext d d' Ep).
  apply map_ext. intro i. unfold task_at. rewrite Et. reflexivity.
Qed.

Theorem PIc_ok : 1 <= cap <= 255 -> plan_inv_ok P cfg (PIc P cfg).
Proof.
  intro Hc. constructor.
  - (* pio_succ *) intros d b H. exact (PIc_ext d (pd_with_succ P d b) eq_refl eq_refl H).
  - (* pio_fail *) intros d b H. exact (PIc_ext d (pd_with_fail P d b) eq_refl eq_refl H).
  - (* pio_statuses *) intros d h s H. exact (PIc_ext d (pd_with_statuses P d h s) eq_refl eq_refl H).
  - (* pio_append *)
    intros d o dst H Ho Hd. destruct (PIc_elim d H) as (order & HI & F).
    pose proof (plan_append_spec P cap d order o dst HI) as S.
    destruct (length order <? cap).
    + destruct S as (i & d' & E & _ & HI' & HT & _ & _). rewrite E. cbn [fst].
      apply (PIc_intro d' (order ++ [i]) HI'). rewrite HT. apply Forall_app. split; [exact F|].
      constructor; [|constructor]. split; [exact Ho|exact Hd].
    + rewrite S. cbn [fst]. exact H.
  - (* pio_append_with *)
    intros d o dst p H Ho Hd. destruct (PIc_elim d H) as (order & HI & F).
    pose proof (plan_append_with_spec P cap d order o dst p HI) as S.
    destruct (length order <? cap).
    + destruct S as (i & d' & E & _ & HI' & HT & _ & _). rewrite E. cbn [fst].
      apply (PIc_intro d' (order ++ [i]) HI'). rewrite HT. apply Forall_app. split; [exact F|].
      constructor; [|constructor]. split; [exact Ho|exact Hd].
    + rewrite S. cbn [fst]. exact (PIc_ext d (pd_with_exists P d true) eq_refl eq_refl H).
  - (* pio_clear *)
    intros d H. destruct (PIc_elim d H) as (order & HI & F).
    destruct (plan_clear_spec P cap n d order HI) as (HI' & _).
    apply (PIc_intro _ [] HI'). constructor.
  - (* pio_remove_at *)
    intros d k H. destruct (PIc_elim d H) as (order & HI & F).
    destruct (plan_remove_at_spec P cap d order k HI) as (d' & E & S). rewrite E. cbn [fst].
    destruct (k <? length order).
    + destruct S as (HI' & HT & _). apply (PIc_intro d' _ HI'). rewrite HT. apply Forall_remove_nth. exact F.
    + rewrite S. exact H.
  - (* pio_pd_clear *)
    intros d H. destruct (PIc_elim d H) as (order & HI & F).
    destruct (pd_clear_spec P cap d order HI) as (HI' & _).
    apply (PIc_intro _ [] HI'). constructor.
  - (* pio_init *)
    apply (PIc_intro _ [] (pd_init_inv P cap n Hc)). constructor.
  - (* pio_task *)
    intros d i (order & HI & F) Hin. rewrite (plan_indices_spec P cap d order HI) in Hin.
    rewrite Forall_forall in F. exact (proj2 (F i Hin)).
  - (* pio_next *)
    intros d l1 x l2 (order & HI & F) E. rewrite (plan_indices_spec P cap d order HI) in E. rewrite E in HI.
    split.
    + apply (PlanInv_lt P cap d _ x HI). apply in_or_app. right. left. reflexivity.
    + exact (it_next_spec P cap d l1 (x :: l2) HI).
  - (* pio_remove *)
    intros d l1 x l2 (order & HI & F) E. rewrite (plan_indices_spec P cap d order HI) in E. rewrite E in HI, F.
    destruct (plan_remove_spec P cap d l1 x l2 HI) as (HI' & Hfr & _ & _).
    split; [|exact (plan_indices_spec P cap _ _ HI')].
    exists (l1 ++ l2). split; [exact HI'|].
    rewrite Forall_forall in *. intros i Hi. rewrite (Hfr i Hi). apply F.
    apply in_app_or in Hi. apply in_or_app. destruct Hi as [Hi|Hi]; [left; exact Hi|right; right; exact Hi].
  - (* pio_indices_bits *)
    intros d b. apply plan_indices_ext. reflexivity.
Qed.
End MP.

Print Assumptions PIc_ok.
