(* The machine-level results with the plan invariant instantiated (PIc, Proofs/MachinePlan.v), in the form the
   property files state them: [Ready cfg s a] is "the machine is between API calls, or at the point of
   update()/react()/immediateChangeTo() where requests are processed, with state a active". *)
From Coq Require Import List Arith Bool NArith Lia.
From FFSM2 Require Import Model.TaskList Model.BitArray Model.Plan Model.Ancestors Model.Machine
  Proofs.MachineFrame Proofs.PlanProofs Proofs.MachinePlan Proofs.MachineLife Proofs.GuardProofs Proofs.CycleProofs Proofs.PlanStep Proofs.SerialProofs.
Import ListNotations.

Arguments INVALID : simpl never.

Section T.
Variable P : Type.
Variable cfg : config.
Variable orc : oracle P.
Hypothesis Hcfg : wf_cfg cfg.
Hypothesis Hwf : wf_oracle P cfg orc.

Definition Inv (s : mstate P) : Prop := SInv P cfg (PIc P cfg) s.
Definition Ready (s : mstate P) (a : nat) : Prop :=
  active P (co P s) = a /\ a < c_n cfg /\ requested P (co P s) = INVALID /\ RW P cfg (co P s) /\ PIc P cfg (plan P (co P s)).

Let HPI : plan_inv_ok P cfg (PIc P cfg) := PIc_ok P cfg (proj1 (proj2 Hcfg)).
Let Hcap : c_cap cfg <= 255 := proj2 (proj1 (proj2 Hcfg)).
Let Hn : c_n cfg <= 255 := proj2 (proj1 Hcfg).

Lemma Inv_Ready s : Inv s -> active P (co P s) < c_n cfg -> Ready s (active P (co P s)).
Proof. intros (q & _ & r & p) H. repeat split; assumption. Qed.
Lemma Ready_Inv s a : Ready s a -> Inv s.
Proof. intros (<- & h & q & r & p). split; [exact q|]. split; [right; exact h|]. split; assumption. Qed.

(* ---- C02 / C03 / C04 / C11: request processing ---- *)
Theorem process_request_top s a : Ready s a ->
  let s1 := loop_state P cfg orc (c_limit cfg) (t_empty P) s in
  let rounds := loop_rounds P cfg orc (c_limit cfg) (t_empty P) s in
  let surv := last_survivor P rounds in
  let s' := process_request P cfg orc s in
  exists lr,
    tr P s1 = lr ++ tr P s /\ rounds_shape P cfg a (t_empty P) rounds lr /\ quiet P cfg a lr /\
    length rounds <= c_limit cfg /\
    requested P (co P s') = INVALID /\ request P (co P s') = request P (co P s1) /\
    previous P (co P s') = (if c_history cfg then surv else previous P (co P s)) /\
    logger P (co P s') = logger P (co P s) /\ Inv s' /\
    (if t_valid P surv
     then t_dest P surv < c_n cfg /\ active P (co P s') = t_dest P surv /\
          exists lc, tr P s' = lc ++ lr ++ tr P s /\ change P cfg a (t_dest P surv) lc /\ Forall (gview P KPlan surv (t_empty P)) lc
     else active P (co P s') = a /\ tr P s' = lr ++ tr P s).
Proof.
  intros (Ha & Han & Hq & Hrw & Hpi).
  pose proof (process_request_exact P cfg orc (PIc P cfg) HPI Hwf s a Ha Han Hq Hrw Hpi) as H. cbv zeta in H |- *.
  destruct H as (lr & E1 & Rs & Q & Rq & Rl & Pv & Lg & Rw' & Pi' & Fin).
  exists lr. split; [exact E1|]. split; [exact Rs|]. split; [exact Q|]. split; [apply rounds_le_limit|].
  split; [exact Rq|]. split; [exact Rl|]. split; [exact Pv|]. split; [exact Lg|]. split; [|exact Fin].
  split; [exact Rq|]. split; [|split; assumption].
  destruct (t_valid P (last_survivor P (loop_rounds P cfg orc (c_limit cfg) (t_empty P) s))).
  - destruct Fin as (Hd & A & _). right. rewrite A. exact Hd.
  - destruct Fin as (A & _). right. rewrite A. exact Han.
Qed.

Theorem leftover_top s a : Ready s a ->
  let s' := process_request P cfg orc s in
  let rounds := loop_rounds P cfg orc (c_limit cfg) (t_empty P) s in
  request P (co P s') = request P (co P (loop_state P cfg orc (c_limit cfg) (t_empty P) s)) /\
  length rounds <= c_limit cfg /\
  (t_valid P (request P (co P s')) = true -> length rounds = c_limit cfg).
Proof.
  intros (Ha & Han & Hq & Hrw & Hpi).
  destruct (leftover_untouched P cfg orc (PIc P cfg) HPI Hwf s a Ha Han Hq Hrw Hpi) as (_ & A & B & C).
  cbv zeta. split; [exact A|]. split; [exact B|exact C].
Qed.

Theorem cancelled_never_entered_top s a d : Ready s a ->
  let surv := last_survivor P (loop_rounds P cfg orc (c_limit cfg) (t_empty P) s) in
  t_valid P surv = true -> t_dest P surv <> d -> active P (co P (process_request P cfg orc s)) <> d.
Proof.
  intros (Ha & Han & Hq & Hrw & Hpi). cbv zeta.
  exact (cancelled_never_entered P cfg orc (PIc P cfg) HPI Hwf s a Ha Han Hq Hrw Hpi d).
Qed.

Theorem all_cancelled_stays_top s a : Ready s a ->
  Forall (fun r => r_cancelled P r = true) (loop_rounds P cfg orc (c_limit cfg) (t_empty P) s) ->
  active P (co P (process_request P cfg orc s)) = a.
Proof.
  intros (Ha & Han & Hq & Hrw & Hpi).
  exact (all_cancelled_stays P cfg orc (PIc P cfg) HPI Hwf s a Ha Han Hq Hrw Hpi).
Qed.

Theorem enter_only_survivor_top s a : Ready s a ->
  let surv := last_survivor P (loop_rounds P cfg orc (c_limit cfg) (t_empty P) s) in
  exists l, tr P (process_request P cfg orc s) = l ++ tr P s /\
    Forall (fun e => match e with
                     | EvCb _ w _ MEnter _ => t_valid P surv = true /\ w = St (t_dest P surv)
                     | _ => True end) l.
Proof.
  intros (Ha & Han & Hq & Hrw & Hpi). cbv zeta.
  destruct (enter_only_survivor P cfg orc (PIc P cfg) HPI Hwf s a Ha Han Hq Hrw Hpi Hn) as (l & E & F).
  exists l. split; [exact E|]. eapply Forall_impl; [|exact F]. intros e He. destruct e as [w r m v| |]; auto.
Qed.

Theorem action_request_is_lazy_top origin (a0 : action P) s k : wf_action P cfg a0 ->
  let '(s', _, res) := perform P cfg origin a0 (s, k) in
  active P (co P s') = active P (co P s) /\ requested P (co P s') = requested P (co P s) /\
  previous P (co P s') = previous P (co P s) /\ logger P (co P s') = logger P (co P s) /\
  (exists l, tr P s' = l ++ tr P s /\ Forall (GuardProofs.is_log P) l) /\
  request P (co P s') =
    match a0 with
    | AChange _ d => match res with ROk _ => {| t_origin := origin; t_dest := d; t_pay := None |} | _ => request P (co P s) end
    | AChangeWith _ d p0 => match res with ROk _ => {| t_origin := origin; t_dest := d; t_pay := Some p0 |} | _ => request P (co P s) end
    | _ => request P (co P s)
    end.
Proof. exact (action_request_is_lazy P cfg (PIc P cfg) HPI origin a0 s k). Qed.

(* update()/react() process requests only at their very end *)
Theorem cycle_processes_last mpre mmid mpost s a :
  is_life mpre = false -> is_life mmid = false -> is_life mpost = false -> Ready s a ->
  exists s5, cycle P cfg orc mpre mmid mpost s = process_request P cfg orc s5 /\ Ready s5 a /\
             exists l, tr P s5 = l ++ tr P s /\ quiet P cfg a l.
Proof.
  intros H1 H2 H3 R. pose proof (Ready_Inv s a R) as I. destruct R as (Ha & Han & Hq & Hrw & Hpi).
  destruct (cycle_decompose P cfg orc (PIc P cfg) HPI Hwf Hcfg mpre mmid mpost s a H1 H2 H3 I Ha Han) as (s5 & E & F).
  exists s5. split; [exact E|]. split.
  - split; [rewrite (fr_active _ _ _ _ _ _ F); exact Ha|]. split; [exact Han|].
    split; [rewrite (fr_requested _ _ _ _ _ _ F); exact Hq|].
    split; [apply (fr_rw _ _ _ _ _ _ F); exact Hrw|apply (fr_pi _ _ _ _ _ _ F); exact Hpi].
  - destruct (fr_tr _ _ _ _ _ _ F) as (l & El & Ql). exists l. split; [exact El|exact Ql].
Qed.


(* every state reached by an in-contract API history is Ready (when active) - so the statements above, made for Ready
   states, hold at every point of every history *)
Theorem reachable_ready lg ops :
  ops_ok P cfg orc (construct P cfg orc lg) ops ->
  let s := run P cfg orc lg ops in
  Inv s /\ (active P (co P s) < c_n cfg -> Ready s (active P (co P s))).
Proof.
  intro Hok. pose proof (run_life P cfg orc (PIc P cfg) HPI Hwf Hcfg lg ops Hok) as H. cbv zeta in H |- *.
  destruct H as [I _]. split; [exact I|]. intro Ha. apply Inv_Ready; assumption.
Qed.


(* C10 at machine level: in every state reached by an in-contract history the plan is a well-formed bounded list
   (PIc), and whenever it is empty the whole configured capacity is available again *)
Theorem reachable_plan_capacity lg ops (ts : list (nat * nat)) :
  ops_ok P cfg orc (construct P cfg orc lg) ops ->
  let d := plan P (co P (run P cfg orc lg ops)) in
  PIc P cfg d /\
  (plan_tasks P (c_cap cfg) d = [] -> length ts = c_cap cfg ->
   exists d', PlanProofs.append_all P (c_cap cfg) d ts = (d', repeat true (c_cap cfg)) /\
              (forall o dst, plan_append P (c_cap cfg) d' o dst = (d', false))).
Proof.
  intro Hok. destruct (reachable_ready lg ops Hok) as [(_ & _ & _ & Hpi) _]. cbv zeta. split; [exact Hpi|].
  intros He Hl. destruct (PIc_elim P cfg _ Hpi) as (order & Hinv & _).
  assert (order = []).
  { rewrite (PlanProofs.plan_tasks_spec P _ _ _ Hinv) in He. unfold PlanProofs.tasks_of in He.
    destruct order; [reflexivity|discriminate]. }
  subst order.
  destruct (PlanProofs.capacity_restored P _ _ ts Hinv Hl) as (d' & A & _ & B & _).
  exists d'. split; [exact A|exact B].
Qed.

(* ---- C11: the transition history drives a replica ---- *)
(* after a processing step, the authority's active state is the destination of previousTransition() when that is
   set, and unchanged otherwise; replaying that destination on a replica in the same state gives the same state,
   running enter/exit/reenter only - whatever the replica's own callbacks (orc') do *)
Variable orc' : oracle P.
Hypothesis Hwf' : wf_oracle P cfg orc'.

Definition feed (prev : transition P) (r : mstate P) : mstate P :=
  if t_valid P prev then fst (replay_transition P cfg orc' (t_dest P prev) r) else r.

Theorem previous_tracks_active s a : Ready s a -> c_history cfg = true ->
  let s' := process_request P cfg orc s in
  (t_valid P (previous P (co P s')) = true -> t_dest P (previous P (co P s')) = active P (co P s') /\ active P (co P s') < c_n cfg) /\
  (t_valid P (previous P (co P s')) = false -> active P (co P s') = a).
Proof.
  intros R Hh. destruct (process_request_top s a R) as (lr & _ & _ & _ & _ & _ & _ & Pv & _ & _ & Fin). cbv zeta in *.
  rewrite Hh in Pv. rewrite Pv.
  destruct (t_valid P (last_survivor P (loop_rounds P cfg orc (c_limit cfg) (t_empty P) s))) eqn:E.
  - destruct Fin as (Hd & A & _). split; [intros _; rewrite A; split; [reflexivity|exact Hd]|discriminate].
  - destruct Fin as (A & _). split; [discriminate|intros _; exact A].
Qed.

Theorem replica_in_sync s a (r : mstate P) : Ready s a -> c_history cfg = true ->
  SInv P cfg (PIc P cfg) r -> active P (co P r) = a ->
  let s' := process_request P cfg orc s in
  let r' := feed (previous P (co P s')) r in
  active P (co P r') = active P (co P s') /\ SInv P cfg (PIc P cfg) r' /\
  exists l, tr P r' = l ++ tr P r /\ Forall (only_life P) l.
Proof.
  intros R Hh Ir Ar. cbv zeta. destruct (previous_tracks_active s a R Hh) as [Hv Hnv]. cbv zeta in Hv, Hnv.
  unfold feed. destruct (t_valid P (previous P (co P (process_request P cfg orc s)))) eqn:E.
  - destruct (Hv eq_refl) as [Hd Hlt]. rewrite Hd in *.
    assert (Han : a < c_n cfg) by (destruct R as (_ & H & _); exact H).
    pose proof (replay_transition_spec P cfg orc' (PIc P cfg) HPI Hwf' Hcfg _ r a Ir Ar Han Hlt) as H. cbv zeta in H.
    destruct H as (I' & A' & _ & _ & l & El & C).
    split; [exact A'|]. split; [exact I'|]. exists l. split; [exact El|]. exact (change_only_life P cfg _ _ _ C).
  - split; [rewrite (Hnv eq_refl); exact Ar|]. split; [exact Ir|]. exists []. split; [reflexivity|constructor].
Qed.

End T.
