(* PlanT / PayloadPlanT / PlanDataT (Model/Plan.v) refine "a plan is a list of at most cap tasks".
   Part 1: the doubly linked order over taskLinks + tasksBounds (PInv).
   Part 2: the plan as a whole (PlanInv = free list FL + PInv + same domain), operation specifications.
   Part 3: arbitrary histories against the abstract list machine (plan_refines_list). *)
From Coq Require Import List Arith Bool Lia NArith.
From FFSM2 Require Import Model.TaskList Model.BitArray Model.Plan Proofs.TaskListProofs.
Import ListNotations.

(* ------------------------------------------------------------------------------------------ *)
(* generic list facts                                                                          *)
(* ------------------------------------------------------------------------------------------ *)
Lemma INVALID_eq : INVALID = 255.
Proof. reflexivity. Qed.

Lemma lget_lupd_same l i f : i < length l -> lget (lupd l i f) i = f (lget l i).
Proof. unfold lget. revert i; induction l as [|h t IH]; intros [|i] H; simpl in *; try lia; auto. apply IH; lia. Qed.
Lemma lget_lupd_other l i j f : i <> j -> lget (lupd l i f) j = lget l j.
Proof. unfold lget. revert i j; induction l as [|h t IH]; intros [|i] [|j] H; simpl in *; try congruence; auto. Qed.
Lemma lupd_length l i f : length (lupd l i f) = length l.
Proof. revert i; induction l as [|h t IH]; intros [|i]; simpl; auto. Qed.

Lemma NoDup_snoc (l : list nat) x : NoDup l -> ~ In x l -> NoDup (l ++ [x]).
Proof.
  induction l as [|a l IH]; intros Hnd Hn; cbn [app].
  - constructor; [intros []|constructor].
  - apply NoDup_cons_iff in Hnd. destruct Hnd as [Ha Hnd]. constructor.
    + intro Hin. apply in_app_or in Hin. destruct Hin as [Hin|[Hin|[]]]; [contradiction|].
      apply Hn. left. symmetry. exact Hin.
    + apply IH; [exact Hnd|]. intro Hin. apply Hn. right. exact Hin.
Qed.

Lemma last_nonempty_default (l : list nat) b d d' : last (b :: l) d = last (b :: l) d'.
Proof. revert b; induction l as [|c l IH]; intro b; [reflexivity|]. cbn [last]. apply IH. Qed.
Lemma last_cons_def (l : list nat) a d : last (a :: l) d = last l a.
Proof. destruct l as [|b l]; [reflexivity|]. cbn [last]. apply last_nonempty_default. Qed.
Lemma last_app_ne (l : list nat) b r d : last (l ++ b :: r) d = last (b :: r) d.
Proof.
  induction l as [|a l IH]; [reflexivity|]. cbn [app]. rewrite <- IH.
  destruct (l ++ b :: r) eqn:E; [destruct l; discriminate|reflexivity].
Qed.
Lemma last_in (l : list nat) b d : In (last (b :: l) d) (b :: l).
Proof. revert b; induction l as [|c l IH]; intro b; [left; reflexivity|]. right. apply IH. Qed.

Lemma in_remove_mid (l1 l2 : list nat) x i :
  NoDup (l1 ++ x :: l2) -> (In i (l1 ++ l2) <-> In i (l1 ++ x :: l2) /\ i <> x).
Proof.
  intro Hnd. pose proof (NoDup_remove_2 _ _ _ Hnd) as Hx.
  rewrite !in_app_iff in *. cbn [In]. split.
  - intros H. split; [tauto|]. intro; subst. tauto.
  - intros [[H|[H|H]] Hne]; [tauto|congruence|tauto].
Qed.

(* delete the k-th element, if there is one *)
Fixpoint remove_nth {A : Type} (k : nat) (l : list A) : list A :=
  match l, k with
  | [], _ => []
  | _ :: t, O => t
  | h :: t, S j => h :: remove_nth j t
  end.
Lemma map_remove_nth {A B : Type} (f : A -> B) k l : map f (remove_nth k l) = remove_nth k (map f l).
Proof. revert k; induction l as [|a l IH]; intros [|k]; cbn [remove_nth map]; try reflexivity. f_equal. apply IH. Qed.
Lemma remove_nth_oob {A : Type} k (l : list A) : length l <= k -> remove_nth k l = l.
Proof. revert k; induction l as [|a l IH]; intros [|k] H; cbn [remove_nth length] in *; try reflexivity; try lia. f_equal. apply IH. lia. Qed.
Lemma remove_nth_length {A : Type} k (l : list A) : k < length l -> S (length (remove_nth k l)) = length l.
Proof. revert k; induction l as [|a l IH]; intros [|k] H; cbn [remove_nth length] in *; try reflexivity; try lia. f_equal. apply IH. lia. Qed.
Lemma remove_nth_split {A : Type} k (l : list A) : k < length l ->
  exists l1 x l2, l = l1 ++ x :: l2 /\ remove_nth k l = l1 ++ l2 /\ length l1 = k.
Proof.
  revert k; induction l as [|a l IH]; intros [|k] H; cbn [remove_nth length] in *; try lia.
  - exists [], a, l. repeat split.
  - destruct (IH k) as (l1 & x & l2 & E1 & E2 & E3); [lia|].
    exists (a :: l1), x, l2. cbn [app length]. rewrite E2, <- E1, E3. repeat split.
Qed.

(* ------------------------------------------------------------------------------------------ *)
(* Part 1: the link table                                                                      *)
(* ------------------------------------------------------------------------------------------ *)
Section LK.
Variable cap : nat.
Hypothesis Hcap : 1 <= cap <= 255.
Local Notation unlink := (unlink cap).

(* every node stores (its predecessor, its successor); pv is the predecessor of the head *)
Fixpoint dchain (ls : list link) (pv : nat) (order : list nat) : Prop :=
  match order with
  | [] => True
  | a :: rest => lget ls a = (pv, hd INVALID rest) /\ dchain ls a rest
  end.

Record PInv (p : pl) (order : list nat) : Prop := {
  pi_len : length (links p) = cap;
  pi_nodup : NoDup order;
  pi_lt : forall i, In i order -> i < cap;
  pi_chain : dchain (links p) INVALID order;
  pi_first : first p = hd INVALID order;
  pi_last : lastb p = last order INVALID;
  pi_free : forall i, i < cap -> ~ In i order -> lget (links p) i = dlink
}.

Lemma dchain_lupd_notin ls pv order i f : ~ In i order -> dchain ls pv order -> dchain (lupd ls i f) pv order.
Proof.
  revert pv; induction order as [|a rest IH]; intros pv Hn Hc; cbn [dchain] in *; auto.
  destruct Hc as [H1 H2]. split.
  - rewrite lget_lupd_other; [exact H1|]. intro; subst; apply Hn; left; reflexivity.
  - apply IH; [|exact H2]. intro H; apply Hn; right; exact H.
Qed.

Theorem link_task_PInv p order idx :
  PInv p order -> idx < cap -> ~ In idx order -> PInv (link_task p idx) (order ++ [idx]).
Proof.
  intros [Hlen Hnd Hlt Hch Hf Hl Hfree] Hi Hn.
  assert (Hidx : lget (links p) idx = dlink) by (apply Hfree; [exact Hi|exact Hn]).
  unfold link_task. destruct order as [|a rest].
  - cbn [hd] in Hf. rewrite Hf, Nat.eqb_refl. constructor; cbn [links first lastb app hd last].
    + exact Hlen.
    + constructor; [intros []|constructor].
    + intros i [<-|[]]. exact Hi.
    + cbn [dchain hd]. split; [exact Hidx|exact I].
    + reflexivity.
    + reflexivity.
    + intros i Hic Hni. apply Hfree; [exact Hic|intros []].
  - cbn [hd] in Hf. assert (Ha : a < cap) by (apply Hlt; left; reflexivity).
    replace (first p =? INVALID) with false by (symmetry; apply Nat.eqb_neq; unfold INVALID; lia).
    set (lb := lastb p) in *.
    assert (Hlb_in : In lb (a :: rest)).
    { rewrite Hl. apply last_in. }
    assert (Hlb_ne : lb <> idx) by (intro; subst; contradiction).
    constructor; cbn [links first lastb].
    + rewrite !lupd_length. exact Hlen.
    + apply NoDup_snoc; assumption.
    + intros i Hin. apply in_app_or in Hin. destruct Hin as [H|[<-|[]]]; [apply Hlt; exact H|exact Hi].
    + (* the chain *)
      clear Hf Hfree. revert Hch Hl Hnd Hlt Hn Hlb_in. generalize INVALID at 1 3 as pv0. subst lb.
      generalize (a :: rest) as ord. clear a rest Ha.
      induction ord as [|x r IH]; intros pv0 Hch Hl Hnd Hlt Hn Hin; [destruct Hin|].
      cbn [app dchain] in *. destruct Hch as [Hx Hr].
      destruct r as [|y r'].
      * (* x is the last node *)
        cbn [last] in Hl. cbn [app hd dchain]. rewrite Hl in *.
        assert (x <> idx) by (intro; subst; apply Hn; left; reflexivity).
        split; [|split].
        -- rewrite lget_lupd_other by congruence. rewrite lget_lupd_same by (rewrite Hlen; apply Hlt; left; reflexivity).
           rewrite Hx. reflexivity.
        -- rewrite lget_lupd_same by (rewrite lupd_length, Hlen; exact Hi).
           rewrite lget_lupd_other by exact H. rewrite Hidx. reflexivity.
        -- exact I.
      * assert (Hxl : x <> lastb p).
        { rewrite Hl. inversion Hnd as [|? ? Hxn _]; subst. intro E. apply Hxn. rewrite E.
          change (last (x :: y :: r') INVALID) with (last (y :: r') INVALID). apply last_in. }
        assert (x <> idx) by (intro; subst; apply Hn; left; reflexivity).
        split.
        -- rewrite !lget_lupd_other by congruence. exact Hx.
        -- apply IH; auto.
           ++ inversion Hnd; assumption.
           ++ intros i Hi'. apply Hlt. right. exact Hi'.
           ++ intro Hin'. apply Hn. right. exact Hin'.
           ++ destruct Hin as [E|E]; [congruence|exact E].
    + cbn [app hd]. exact Hf.
    + symmetry. apply last_last.
    + intros i Hic Hni. assert (i <> idx) by (intro; subst; apply Hni; apply in_or_app; right; left; reflexivity).
      assert (~ In i (a :: rest)) by (intro; apply Hni; apply in_or_app; left; assumption).
      rewrite lget_lupd_other by congruence.
      rewrite lget_lupd_other by (intro; subst; contradiction). apply Hfree; assumption.
Qed.

(* ---- removal anywhere ---- *)
Definition unl (ls : list link) (pv nx x : nat) : list link :=
  let ls1 := if pv <? cap then lupd ls pv (fun l => (fst l, nx)) else ls in
  let ls2 := if nx <? cap then lupd ls1 nx (fun l => (pv, snd l)) else ls1 in
  lupd ls2 x (fun _ => dlink).

Lemma unl_length ls pv nx x : length (unl ls pv nx x) = length ls.
Proof. unfold unl. destruct (pv <? cap), (nx <? cap); rewrite ?lupd_length; reflexivity. Qed.

Lemma unl_other ls pv nx x i : i <> pv -> i <> nx -> i <> x -> lget (unl ls pv nx x) i = lget ls i.
Proof.
  intros H1 H2 H3. unfold unl. rewrite lget_lupd_other by congruence.
  destruct (nx <? cap); [rewrite lget_lupd_other by congruence|];
  (destruct (pv <? cap); [rewrite lget_lupd_other by congruence|]); reflexivity.
Qed.

Lemma dchain_unl_notin ls pv nx x p0 order :
  ~ In pv order -> ~ In nx order -> ~ In x order -> dchain ls p0 order -> dchain (unl ls pv nx x) p0 order.
Proof.
  intros H1 H2 H3 H. unfold unl. apply dchain_lupd_notin; [exact H3|].
  destruct (nx <? cap); [apply dchain_lupd_notin; [exact H2|]|];
  (destruct (pv <? cap); [apply dchain_lupd_notin; [exact H1|]|]); exact H.
Qed.

Lemma dchain_mid ls : forall l1 p0 x l2, dchain ls p0 (l1 ++ x :: l2) -> lget ls x = (last l1 p0, hd INVALID l2).
Proof.
  induction l1 as [|a l1 IH]; intros p0 x l2 H; cbn [app dchain] in H.
  - destruct H as [H _]. exact H.
  - destruct H as [_ H]. rewrite last_cons_def. apply IH. exact H.
Qed.

Lemma dchain_unlink ls x l2 (Hlen : length ls = cap) : forall l1 p0,
  NoDup (l1 ++ x :: l2) -> (forall i, In i (l1 ++ x :: l2) -> i < cap) -> ~ In p0 (l1 ++ x :: l2) ->
  dchain ls p0 (l1 ++ x :: l2) ->
  dchain (unl ls (last l1 p0) (hd INVALID l2) x) p0 (l1 ++ l2).
Proof.
  induction l1 as [|a l1 IH]; intros p0 Hnd Hlt Hp0 Hc.
  - cbn [app last] in *. destruct Hc as [Hx Hr].
    apply NoDup_cons_iff in Hnd. destruct Hnd as [Hxl2 Hnd2].
    destruct l2 as [|y l2']; [exact I|].
    cbn [hd dchain] in *. destruct Hr as [Hy Hr'].
    assert (Hyc : y < cap) by (apply Hlt; right; left; reflexivity).
    assert (Hyx : y <> x) by (intro; subst; apply Hxl2; left; reflexivity).
    assert (Hyp : y <> p0) by (intro; subst; apply Hp0; right; left; reflexivity).
    apply NoDup_cons_iff in Hnd2. destruct Hnd2 as [Hyl Hnd3].
    split.
    + unfold unl. rewrite lget_lupd_other by congruence.
      replace (y <? cap) with true by (symmetry; apply Nat.ltb_lt; exact Hyc).
      rewrite lget_lupd_same.
      * f_equal. destruct (p0 <? cap); [rewrite lget_lupd_other by congruence|]; rewrite Hy; reflexivity.
      * destruct (p0 <? cap); rewrite ?lupd_length; lia.
    + apply dchain_unl_notin; [| |intro H; apply Hxl2; right; exact H|exact Hr'].
      * intro H. apply Hp0. right. right. exact H.
      * exact Hyl.
  - cbn [app] in *. cbn [dchain] in Hc. destruct Hc as [Ha Hr].
    apply NoDup_cons_iff in Hnd. destruct Hnd as [Hanot Hnd'].
    rewrite last_cons_def. cbn [dchain]. split.
    + assert (Hac : a < cap) by (apply Hlt; left; reflexivity).
      assert (Hax : a <> x) by (intro; subst; apply Hanot; apply in_or_app; right; left; reflexivity).
      assert (Hanx : a <> hd INVALID l2).
      { destruct l2 as [|y l2']; [cbn [hd]; unfold INVALID; lia|]. cbn [hd]. intro; subst. apply Hanot. apply in_or_app. right. right. left. reflexivity. }
      destruct l1 as [|b l1'].
      * (* a is the predecessor: its next becomes nx *)
        cbn [last app hd]. unfold unl. rewrite lget_lupd_other by congruence.
        replace (a <? cap) with true by (symmetry; apply Nat.ltb_lt; exact Hac).
        destruct (hd INVALID l2 <? cap).
        -- rewrite lget_lupd_other by congruence. rewrite lget_lupd_same by lia. rewrite Ha. reflexivity.
        -- rewrite lget_lupd_same by lia. rewrite Ha. reflexivity.
      * assert (Hal : a <> last (b :: l1') a).
        { intro E. apply Hanot. apply in_or_app. left. rewrite E. apply last_in. }
        rewrite unl_other by congruence. rewrite Ha. reflexivity.
    + apply IH; [exact Hnd'| |exact Hanot|exact Hr].
      intros i Hi. apply Hlt. right. exact Hi.
Qed.

Theorem unlink_PInv p l1 x l2 :
  PInv p (l1 ++ x :: l2) -> PInv (unlink p x) (l1 ++ l2).
Proof.
  intros [Hlen Hnd Hlt Hch Hf Hl Hfree].
  pose proof (dchain_mid _ _ _ _ _ Hch) as Hx.
  assert (Hxc : x < cap) by (apply Hlt; apply in_or_app; right; left; reflexivity).
  assert (Hinv : ~ In INVALID (l1 ++ x :: l2)) by (intro H; apply Hlt in H; unfold INVALID in H; lia).
  pose proof (dchain_unlink (links p) x l2 Hlen l1 INVALID Hnd Hlt Hinv Hch) as Hnew.
  set (pv := last l1 INVALID) in *. set (nx := hd INVALID l2) in *.
  assert (Epv : (pv <? cap) = negb (match l1 with [] => true | _ => false end)).
  { subst pv. destruct l1 as [|b l1']; [cbn [last negb]; apply Nat.ltb_ge; unfold INVALID; lia|].
    cbn [negb]. apply Nat.ltb_lt. apply Hlt. apply in_or_app. left. apply last_in. }
  assert (Enx : (nx <? cap) = negb (match l2 with [] => true | _ => false end)).
  { subst nx. destruct l2 as [|y l2']; [cbn [hd negb]; apply Nat.ltb_ge; unfold INVALID; lia|].
    cbn [negb hd]. apply Nat.ltb_lt. apply Hlt. apply in_or_app. right. right. left. reflexivity. }
  assert (Elinks : links (unlink p x) = unl (links p) pv nx x).
  { unfold Plan.unlink, unl. rewrite Hx. cbn [fst snd]. fold pv nx.
    destruct (pv <? cap), (nx <? cap); reflexivity. }
  assert (Efirst : first (unlink p x) = hd INVALID (l1 ++ l2)).
  { unfold Plan.unlink. rewrite Hx. cbn [fst snd]. fold pv nx. rewrite Epv.
    destruct l1 as [|b l1']; cbn [negb app hd].
    - destruct (nx <? cap); reflexivity.
    - destruct (nx <? cap); cbn [first]; rewrite Hf; reflexivity. }
  assert (Elast : lastb (unlink p x) = last (l1 ++ l2) INVALID).
  { unfold Plan.unlink. rewrite Hx. cbn [fst snd]. fold pv nx. rewrite Enx.
    destruct l2 as [|y l2']; cbn [negb].
    - rewrite app_nil_r. destruct (pv <? cap); reflexivity.
    - destruct (pv <? cap); cbn [lastb]; rewrite Hl;
      rewrite (last_app_ne l1 x (y :: l2')), (last_app_ne l1 y l2'); reflexivity. }
  constructor.
  - rewrite Elinks. rewrite unl_length. exact Hlen.
  - apply NoDup_remove_1 in Hnd. exact Hnd.
  - intros i Hi. apply Hlt. apply in_app_or in Hi. apply in_or_app. destruct Hi; [left|right; right]; assumption.
  - rewrite Elinks. exact Hnew.
  - exact Efirst.
  - exact Elast.
  - intros i Hic Hni. rewrite Elinks.
    destruct (Nat.eq_dec i x) as [->|Hix].
    + unfold unl. rewrite lget_lupd_same; [reflexivity|]. destruct (nx <? cap), (pv <? cap); rewrite ?lupd_length; lia.
    + assert (Hni' : ~ In i (l1 ++ x :: l2)).
      { intro H. apply Hni. apply in_app_or in H. apply in_or_app. destruct H as [H|[H|H]]; [left; exact H|congruence|right; exact H]. }
      rewrite unl_other.
      * apply Hfree; [exact Hic|exact Hni'].
      * subst pv. destruct l1 as [|b l1']; [cbn [last]; unfold INVALID; lia|].
        intro E. apply Hni. apply in_or_app. left. rewrite E. apply last_in.
      * subst nx. destruct l2 as [|y l2']; [cbn [hd]; unfold INVALID; lia|].
        cbn [hd]. intro; subst. apply Hni. apply in_or_app. right. left. reflexivity.
      * exact Hix.
Qed.

Lemma PInv_nil_fresh ls : length ls = cap -> (forall i, i < cap -> lget ls i = dlink) ->
  PInv {| links := ls; first := INVALID; lastb := INVALID |} [].
Proof.
  intros Hl Hf. constructor; cbn [links first lastb hd last dchain].
  - exact Hl.
  - constructor.
  - intros i [].
  - exact I.
  - reflexivity.
  - reflexivity.
  - intros i Hi _. apply Hf. exact Hi.
Qed.

Lemma PInv_next p l1 x l2 : PInv p (l1 ++ x :: l2) -> snd (lget (links p) x) = hd INVALID l2.
Proof. intros H. rewrite (dchain_mid _ _ _ _ _ (pi_chain _ _ H)). reflexivity. Qed.
End LK.

(* ------------------------------------------------------------------------------------------ *)
(* Part 2: the plan                                                                            *)
(* ------------------------------------------------------------------------------------------ *)
Lemma nth_map_dlink (l : list link) i : lget (map (fun _ => dlink) l) i = dlink.
Proof. unfold lget. revert i; induction l as [|h t IH]; intros [|i]; cbn [map nth]; try reflexivity. apply IH. Qed.

Lemma map_last_ne {A B : Type} (f : A -> B) : forall l a d1 d2, last (map f (a :: l)) d1 = f (last (a :: l) d2).
Proof. induction l as [|b l IH]; intros a d1 d2; [reflexivity|]. cbn [map last] in *. apply (IH b). Qed.

Section PP.
Variable P : Type.
Variable cap : nat.
Variable n : nat.
Local Notation plan_data := (plan_data P).
Local Notation task := (task P).
Local Notation task_at := (task_at P).
Local Notation tget := (TaskList.get P).
Local Notation FL := (FL P cap).
Local Notation PInv := (PInv cap).

Definition mk_task (o dst : nat) (p : option P) : task := {| tk_origin := o; tk_dest := dst; tk_payload := p |}.

(* the abstraction: the tasks in plan order *)
Definition tasks_of (d : plan_data) (order : list nat) : list task := map (task_at d) order.

(* order (ghost) = the slot indices of the plan's tasks, in plan order *)
Record PlanInv (d : plan_data) (order : list nat) : Prop := {
  pv_fl : exists vac occ, FL (pd_tasks d) vac occ /\ (forall i, In i order <-> In i (map fst occ));
  pv_links : PInv (pd_pl d) order
}.

Definition same_aux (d d' : plan_data) : Prop :=
  pd_succ d' = pd_succ d /\ pd_fail d' = pd_fail d /\
  pd_head_status d' = pd_head_status d /\ pd_sub_status d' = pd_sub_status d.
Definition same_rest (d d' : plan_data) : Prop := same_aux d d' /\ pd_exists d' = pd_exists d.

Lemma same_rest_refl d : same_rest d d.
Proof. unfold same_rest, same_aux. repeat split. Qed.
Lemma same_rest_trans d1 d2 d3 : same_rest d1 d2 -> same_rest d2 d3 -> same_rest d1 d3.
Proof.
  intros [(A1 & B1 & C1 & D1) E1] [(A2 & B2 & C2 & D2) E2]. unfold same_rest, same_aux.
  repeat split; etransitivity; eassumption.
Qed.

Lemma PlanInv_cap d order : PlanInv d order -> 1 <= cap <= 255.
Proof. intros [(vac & occ & F & _) _]. exact (fl_cap _ _ _ _ _ F). Qed.
Lemma PlanInv_lt d order i : PlanInv d order -> In i order -> i < cap.
Proof. intros [_ HP] Hi. exact (pi_lt _ _ _ HP i Hi). Qed.
Lemma PlanInv_nodup d order : PlanInv d order -> NoDup order.
Proof. intros [_ HP]. exact (pi_nodup _ _ _ HP). Qed.
Lemma PlanInv_links_length d order : PlanInv d order -> length (links (pd_pl d)) = cap.
Proof. intros [_ HP]. exact (pi_len _ _ _ HP). Qed.

Lemma PlanInv_ext d d' order :
  pd_tasks d' = pd_tasks d -> pd_pl d' = pd_pl d -> PlanInv d order -> PlanInv d' order.
Proof. intros Et Ep [Hfl HP]. constructor; [rewrite Et; exact Hfl|rewrite Ep; exact HP]. Qed.
Lemma tasks_of_ext d d' order : pd_tasks d' = pd_tasks d -> tasks_of d' order = tasks_of d order.
Proof. intros Et. unfold tasks_of, Plan.task_at. rewrite Et. reflexivity. Qed.

(* the task count is the length of the plan, and never exceeds the capacity *)
Lemma PlanInv_count d order : PlanInv d order -> t_count (pd_tasks d) = length order /\ length order <= cap.
Proof.
  intros [(vac & occ & F & Hdom) HP].
  pose proof (fl_count_occ _ _ _ _ _ F) as Hc.
  pose proof (fl_count _ _ _ _ _ F) as Hcu.
  pose proof (used_le P cap _ (fl_last _ _ _ _ _ F)) as Hu.
  assert (E : length order = length (map fst occ)).
  { apply Nat.le_antisymm; apply NoDup_incl_length.
    - exact (pi_nodup _ _ _ HP).
    - intros i Hi. apply Hdom. exact Hi.
    - exact (fl_occ_nodup _ _ _ _ _ F).
    - intros i Hi. apply Hdom. exact Hi. }
  rewrite map_length in E. split; lia.
Qed.

Lemma task_at_ext d d' i :
  tget (t_items (pd_tasks d')) i = tget (t_items (pd_tasks d)) i -> task_at d' i = task_at d i.
Proof. intro H. unfold Plan.task_at. rewrite H. reflexivity. Qed.

Lemma FL_get t vac occ i : FL t vac occ -> In i (map fst occ) -> In (i, tget (t_items t) i) occ.
Proof.
  intros F Hin. apply in_map_iff in Hin. destruct Hin as [[k s] [Hk Hks]]. cbn [fst] in Hk. subst k.
  destruct (fl_occ_sub _ _ _ _ _ F i s Hks) as (_ & _ & Hg). rewrite Hg. exact Hks.
Qed.

(* ---- 1. construction ---- *)
Theorem pd_init_inv : 1 <= cap <= 255 -> PlanInv (pd_init P cap n) [].
Proof.
  intro Hc. constructor.
  - exists [0], []. split; [exact (init_FL P cap Hc)|]. intro i. split; intros [].
  - cbn [pd_init pd_pl]. apply PInv_nil_fresh.
    + apply repeat_length.
    + intros i Hi. unfold lget. apply nth_repeat.
Qed.

(* ---- 2. observers ---- *)
Lemma it_next_spec d pre rest :
  PlanInv d (pre ++ rest) -> it_next P cap d (hd INVALID rest) = hd INVALID (List.tl rest).
Proof.
  intros H. pose proof (PlanInv_cap _ _ H) as Hc. unfold it_next. destruct rest as [|a r]; cbn [hd List.tl].
  - replace (INVALID <? cap) with false; [reflexivity|]. symmetry. apply Nat.ltb_ge. unfold INVALID. lia.
  - assert (Ha : a < cap) by (apply (PlanInv_lt d _ a H); apply in_or_app; right; left; reflexivity).
    replace (a <? cap) with true by (symmetry; apply Nat.ltb_lt; exact Ha).
    exact (PInv_next cap _ pre a r (pv_links _ _ H)).
Qed.

Lemma iter_indices_spec d : forall rest pre fuel,
  PlanInv d (pre ++ rest) -> length rest <= fuel -> iter_indices P cap fuel d (hd INVALID rest) = rest.
Proof.
  induction rest as [|a r IH]; intros pre fuel H Hf.
  - pose proof (PlanInv_cap _ _ H) as Hc.
    destruct fuel as [|f]; cbn [iter_indices hd]; [reflexivity|].
    replace (INVALID <? cap) with false; [reflexivity|]. symmetry. apply Nat.ltb_ge. unfold INVALID. lia.
  - destruct fuel as [|f]; cbn [length] in Hf; [lia|].
    assert (Ha : a < cap) by (apply (PlanInv_lt d _ a H); apply in_or_app; right; left; reflexivity).
    cbn [iter_indices hd].
    replace (a <? cap) with true by (symmetry; apply Nat.ltb_lt; exact Ha).
    f_equal. pose proof (it_next_spec d pre (a :: r) H) as E. cbn [hd List.tl] in E. rewrite E.
    apply (IH (pre ++ [a])); [rewrite <- app_assoc; exact H|lia].
Qed.

Theorem plan_indices_spec d order : PlanInv d order -> plan_indices P cap d = order.
Proof.
  intros H. destruct (PlanInv_count d order H) as [_ Hle].
  unfold plan_indices. rewrite (pi_first _ _ _ (pv_links _ _ H)).
  apply (iter_indices_spec d order []); [exact H|lia].
Qed.

Theorem plan_tasks_spec d order : PlanInv d order -> plan_tasks P cap d = tasks_of d order.
Proof. intros H. unfold plan_tasks. rewrite (plan_indices_spec d order H). reflexivity. Qed.

Theorem plan_nonempty_spec d order : PlanInv d order -> plan_nonempty P cap d = negb (length order =? 0).
Proof.
  intros H. pose proof (PlanInv_cap _ _ H) as Hc.
  unfold plan_nonempty. rewrite (pi_first _ _ _ (pv_links _ _ H)).
  destruct order as [|a r]; cbn [hd length Nat.eqb negb].
  - apply Nat.ltb_ge. unfold INVALID. lia.
  - apply Nat.ltb_lt. apply (PlanInv_lt d _ a H). left. reflexivity.
Qed.

Theorem plan_first_last_spec d order dflt : PlanInv d order -> order <> [] ->
  plan_first P d = hd dflt (tasks_of d order) /\ plan_last P d = last (tasks_of d order) dflt.
Proof.
  intros H Hne. destruct order as [|a r]; [congruence|].
  unfold plan_first, plan_last.
  rewrite (pi_first _ _ _ (pv_links _ _ H)), (pi_last _ _ _ (pv_links _ _ H)).
  split; [reflexivity|]. unfold tasks_of. symmetry. apply map_last_ne.
Qed.

(* ---- 3. append ---- *)
Lemma append_core d order o dst p :
  PlanInv d order -> length order < cap ->
  exists i t', emplace P cap (pd_tasks d) o dst p = (t', i) /\ i < cap /\ ~ In i order /\
    forall d', pd_tasks d' = t' -> pd_pl d' = link_task (pd_pl d) i ->
      PlanInv d' (order ++ [i]) /\ tasks_of d' (order ++ [i]) = tasks_of d order ++ [mk_task o dst p].
Proof.
  intros H Hlt. destruct (PlanInv_count d order H) as [Hcnt _]. pose proof (PlanInv_cap _ _ H) as Hc.
  destruct H as [(vac & occ & F & Hdom) HP].
  assert (Hlt' : t_count (pd_tasks d) < cap) by lia.
  destruct (emplace_FL P cap _ vac occ o dst p F Hlt') as (v0 & rest & Hv & Hs & Hv0 & Hni & vac' & F').
  destruct (emplace P cap (pd_tasks d) o dst p) as [t' i] eqn:E. cbn [fst snd] in Hs, F'. subst i.
  assert (Hno : ~ In v0 order) by (intro Hin; apply Hni; apply Hdom; exact Hin).
  exists v0, t'. split; [reflexivity|]. split; [exact Hv0|]. split; [exact Hno|].
  intros d' Ht Hp. split.
  - constructor.
    + exists vac', ((v0, {| s_prev := o; s_next := dst; s_pay := p |}) :: occ). rewrite Ht. split; [exact F'|].
      intro i. cbn [map fst In]. split.
      * intro Hin. apply in_app_or in Hin. destruct Hin as [Hin|[<-|[]]]; [right; apply Hdom; exact Hin|left; reflexivity].
      * intros [<-|Hin]; apply in_or_app; [right; left; reflexivity|left; apply Hdom; exact Hin].
    + rewrite Hp. apply (link_task_PInv cap Hc); assumption.
  - unfold tasks_of. rewrite map_app. cbn [map]. f_equal.
    + apply map_ext_in. intros i Hi. apply task_at_ext. rewrite Ht.
      pose proof (FL_get _ _ _ i F (proj1 (Hdom i) Hi)) as Hin.
      destruct (fl_occ_sub _ _ _ _ _ F' i _ (or_intror Hin)) as (_ & _ & Hg). exact Hg.
    + f_equal. unfold Plan.task_at. rewrite Ht.
      destruct (fl_occ_sub _ _ _ _ _ F' v0 _ (or_introl eq_refl)) as (_ & _ & Hg). rewrite Hg. reflexivity.
Qed.

Theorem plan_append_spec d order o dst : PlanInv d order ->
  if length order <? cap then
    exists i d', plan_append P cap d o dst = (d', true) /\ ~ In i order /\ PlanInv d' (order ++ [i]) /\
      tasks_of d' (order ++ [i]) = tasks_of d order ++ [mk_task o dst None] /\
      pd_exists d' = true /\ same_aux d d'
  else plan_append P cap d o dst = (d, false).
Proof.
  intros H. destruct (PlanInv_count d order H) as [Hcnt Hle]. pose proof (PlanInv_cap _ _ H) as Hc.
  unfold plan_append. rewrite Hcnt.
  destruct (length order <? cap) eqn:E; [|reflexivity].
  apply Nat.ltb_lt in E.
  destruct (append_core d order o dst None H E) as (i & t' & Ee & Hi & Hni & Hd').
  cbn [pd_tasks pd_with_exists]. rewrite Ee.
  unfold pd_link. replace (i =? INVALID) with false by (symmetry; apply Nat.eqb_neq; unfold INVALID; lia).
  set (d' := pd_with_pl P _ _).
  destruct (Hd' d' eq_refl eq_refl) as [HI HT].
  exists i, d'. split; [reflexivity|]. split; [exact Hni|]. split; [exact HI|]. split; [exact HT|].
  split; [reflexivity|]. unfold same_aux. repeat split.
Qed.

Theorem plan_append_with_spec d order o dst p : PlanInv d order ->
  if length order <? cap then
    exists i d', plan_append_with P cap d o dst p = (d', true) /\ ~ In i order /\ PlanInv d' (order ++ [i]) /\
      tasks_of d' (order ++ [i]) = tasks_of d order ++ [mk_task o dst (Some p)] /\
      pd_exists d' = true /\ same_aux d d'
  else plan_append_with P cap d o dst p = (pd_with_exists P d true, false).
Proof.
  intros H. destruct (PlanInv_count d order H) as [Hcnt Hle]. pose proof (PlanInv_cap _ _ H) as Hc.
  unfold plan_append_with.
  destruct (length order <? cap) eqn:E.
  - apply Nat.ltb_lt in E.
    destruct (append_core d order o dst (Some p) H E) as (i & t' & Ee & Hi & Hni & Hd').
    cbn [pd_tasks pd_with_exists]. rewrite Ee.
    unfold pd_link. replace (i =? INVALID) with false by (symmetry; apply Nat.eqb_neq; unfold INVALID; lia).
    set (d' := pd_with_pl P _ _).
    destruct (Hd' d' eq_refl eq_refl) as [HI HT].
    exists i, d'. split; [reflexivity|]. split; [exact Hni|]. split; [exact HI|]. split; [exact HT|].
    split; [reflexivity|]. unfold same_aux. repeat split.
  - apply Nat.ltb_ge in E.
    destruct H as [(vac & occ & F & Hdom) HP].
    assert (Hfull : t_count (pd_tasks d) = cap) by lia.
    cbn [pd_tasks pd_with_exists].
    rewrite (emplace_full P cap _ vac occ o dst (Some p) F Hfull).
    unfold pd_link. rewrite Nat.eqb_refl. reflexivity.
Qed.

(* a rejected PayloadPlanT::append only raises planExists *)
Lemma pd_with_exists_fields (d : plan_data) b :
  pd_tasks (pd_with_exists P d b) = pd_tasks d /\ pd_pl (pd_with_exists P d b) = pd_pl d /\
  pd_exists (pd_with_exists P d b) = b /\ same_aux d (pd_with_exists P d b).
Proof. unfold same_aux. repeat split. Qed.

(* ---- 4. remove ---- *)
Theorem plan_remove_spec d l1 x l2 : PlanInv d (l1 ++ x :: l2) ->
  PlanInv (plan_remove P cap d x) (l1 ++ l2) /\
  (forall i, In i (l1 ++ l2) -> task_at (plan_remove P cap d x) i = task_at d i) /\
  tasks_of (plan_remove P cap d x) (l1 ++ l2) = tasks_of d (l1 ++ l2) /\
  same_rest d (plan_remove P cap d x).
Proof.
  intros H. pose proof (PlanInv_cap _ _ H) as Hc.
  destruct H as [(vac & occ & F & Hdom) HP].
  assert (Hx : In x (map fst occ)) by (apply Hdom; apply in_or_app; right; left; reflexivity).
  pose proof (remove_FL P cap _ vac occ x F Hx) as F'.
  pose proof (pi_nodup _ _ _ HP) as Hnd.
  set (d' := plan_remove P cap d x).
  assert (Et : pd_tasks d' = remove P cap (pd_tasks d) x) by reflexivity.
  assert (Ep : pd_pl d' = unlink cap (pd_pl d) x) by reflexivity.
  assert (Hframe : forall i, In i (l1 ++ l2) -> task_at d' i = task_at d i).
  { intros i Hi. apply (in_remove_mid l1 l2 x i Hnd) in Hi. destruct Hi as [Hi Hne].
    apply task_at_ext. rewrite Et.
    pose proof (FL_get _ _ _ i F (proj1 (Hdom i) Hi)) as Hin.
    assert (Hin' : In (i, tget (t_items (pd_tasks d)) i) (rem P x occ)) by (apply rem_in; split; assumption).
    destruct (fl_occ_sub _ _ _ _ _ F' i _ Hin') as (_ & _ & Hg). exact Hg. }
  split; [|split; [exact Hframe|split]].
  - constructor.
    + exists (x :: vac), (rem P x occ). rewrite Et. split; [exact F'|].
      intro i. split.
      * intro Hi. apply (in_remove_mid l1 l2 x i Hnd) in Hi. destruct Hi as [Hi Hne].
        apply rem_dom. split; [apply Hdom; exact Hi|exact Hne].
      * intro Hi. apply rem_dom in Hi. destruct Hi as [Hi Hne].
        apply (in_remove_mid l1 l2 x i Hnd). split; [apply Hdom; exact Hi|exact Hne].
    + rewrite Ep. apply (unlink_PInv cap Hc). exact HP.
  - unfold tasks_of. apply map_ext_in. exact Hframe.
  - unfold same_rest, same_aux. repeat split.
Qed.

(* ---- 5. clear ---- *)
Lemma clear_loop_spec : forall order fuel d, PlanInv d order -> length order <= fuel ->
  PlanInv (clear_loop P cap fuel d (hd INVALID order)) [] /\
  same_rest d (clear_loop P cap fuel d (hd INVALID order)).
Proof.
  induction order as [|a r IH]; intros fuel d H Hf.
  - assert (E : clear_loop P cap fuel d (hd INVALID []) = d).
    { destruct fuel as [|f]; cbn [clear_loop hd]; [reflexivity|]. rewrite Nat.eqb_refl. reflexivity. }
    rewrite E. split; [exact H|apply same_rest_refl].
  - destruct fuel as [|f]; cbn [length] in Hf; [lia|].
    pose proof (PlanInv_cap _ _ H) as Hc.
    assert (Ha : a < cap) by (apply (PlanInv_lt d _ a H); left; reflexivity).
    cbn [clear_loop hd].
    replace (a =? INVALID) with false by (symmetry; apply Nat.eqb_neq; unfold INVALID; lia).
    rewrite (PInv_next cap (pd_pl d) [] a r (pv_links _ _ H)).
    destruct (plan_remove_spec d [] a r H) as (H' & _ & _ & Hs). cbn [app] in H'.
    destruct (IH f _ H') as [H2 Hs2]; [lia|].
    split; [exact H2|exact (same_rest_trans _ _ _ Hs Hs2)].
Qed.

Theorem plan_clear_tasks_spec d order : PlanInv d order ->
  PlanInv (plan_clear_tasks P cap d) [] /\ plan_tasks P cap (plan_clear_tasks P cap d) = [] /\
  same_rest d (plan_clear_tasks P cap d).
Proof.
  intros H. pose proof (PlanInv_cap _ _ H) as Hc. destruct (PlanInv_count d order H) as [_ Hle].
  assert (G : PlanInv (plan_clear_tasks P cap d) [] /\ same_rest d (plan_clear_tasks P cap d)).
  { unfold plan_clear_tasks. rewrite (pi_first _ _ _ (pv_links _ _ H)).
    destruct (hd INVALID order <? cap) eqn:E.
    - destruct (clear_loop_spec order (S cap) d H) as [H1 Hs]; [lia|].
      set (d1 := clear_loop P cap (S cap) d (hd INVALID order)) in *.
      split.
      + destruct H1 as [Hfl HP]. constructor; [exact Hfl|].
        cbn [pd_pl pd_with_pl]. apply PInv_nil_fresh.
        * exact (pi_len _ _ _ HP).
        * intros i Hi. apply (pi_free _ _ _ HP i Hi). intros [].
      + destruct Hs as [(A & B & C & D) E']. unfold same_rest, same_aux. repeat split; assumption.
    - destruct order as [|a r]; [split; [exact H|apply same_rest_refl]|].
      exfalso. cbn [hd] in E. apply Nat.ltb_ge in E.
      assert (Ha : a < cap) by (apply (PlanInv_lt d _ a H); left; reflexivity). lia. }
  destruct G as [G1 G2]. split; [exact G1|]. split; [|exact G2].
  rewrite (plan_tasks_spec _ [] G1). reflexivity.
Qed.

Theorem plan_clear_spec d order : PlanInv d order ->
  PlanInv (plan_clear P cap n d) [] /\ plan_tasks P cap (plan_clear P cap n d) = [] /\
  pd_exists (plan_clear P cap n d) = pd_exists d /\
  pd_head_status (plan_clear P cap n d) = pd_head_status d /\ pd_sub_status (plan_clear P cap n d) = pd_sub_status d /\
  pd_succ (plan_clear P cap n d) = clear_bits n (pd_succ d) /\ pd_fail (plan_clear P cap n d) = clear_bits n (pd_fail d).
Proof.
  intros H. destruct (plan_clear_tasks_spec d order H) as (H1 & _ & (A & B & C & D) & E).
  assert (G : PlanInv (plan_clear P cap n d) []) by (apply (PlanInv_ext (plan_clear_tasks P cap d)); [reflexivity|reflexivity|exact H1]).
  split; [exact G|]. split; [rewrite (plan_tasks_spec _ [] G); reflexivity|].
  unfold plan_clear. cbn [pd_exists pd_head_status pd_sub_status pd_succ pd_fail pd_with_fail pd_with_succ].
  rewrite A, B. repeat split; assumption.
Qed.

Theorem pd_clear_spec d order : PlanInv d order ->
  PlanInv (pd_clear P d) [] /\ plan_tasks P cap (pd_clear P d) = [] /\ pd_exists (pd_clear P d) = false.
Proof.
  intros H. destruct H as [(vac & occ & F & Hdom) HP].
  assert (G : PlanInv (pd_clear P d) []).
  { constructor.
    - exists [0], []. split; [exact (clear_FL P cap _ vac occ F)|]. intro i. split; intros [].
    - cbn [pd_clear pd_pl]. apply PInv_nil_fresh.
      + rewrite map_length. exact (pi_len _ _ _ HP).
      + intros i _. apply nth_map_dlink. }
  split; [exact G|]. split; [rewrite (plan_tasks_spec _ [] G); reflexivity|reflexivity].
Qed.

(* ---- 6. removal through the iterator ---- *)
Lemma remove_at_loop_spec : forall rest pre fuel d k seen,
  PlanInv d (pre ++ rest) -> length rest <= fuel ->
  exists d', remove_at_loop P cap fuel d (hd INVALID rest) (hd INVALID (List.tl rest)) k seen
             = (d', seen ++ tasks_of d rest) /\
    match k with
    | Some j => if j <? length rest
                then PlanInv d' (pre ++ remove_nth j rest) /\
                     (forall i, In i (pre ++ remove_nth j rest) -> task_at d' i = task_at d i) /\
                     same_rest d d'
                else d' = d
    | None => d' = d
    end.
Proof.
  induction rest as [|a r IH]; intros pre fuel d k seen H Hf.
  - pose proof (PlanInv_cap _ _ H) as Hc.
    exists d. split.
    + cbn [hd List.tl tasks_of map]. rewrite app_nil_r.
      destruct fuel as [|f]; cbn [remove_at_loop]; [reflexivity|].
      replace (INVALID <? cap) with false; [reflexivity|]. symmetry. apply Nat.ltb_ge. unfold INVALID. lia.
    + destruct k as [j|]; [|reflexivity]. cbn [length].
      destruct (j <? 0) eqn:E; [apply Nat.ltb_lt in E; lia|reflexivity].
  - destruct fuel as [|f]; cbn [length] in Hf; [lia|].
    pose proof (PlanInv_cap _ _ H) as Hc.
    assert (Ha : a < cap) by (apply (PlanInv_lt d _ a H); apply in_or_app; right; left; reflexivity).
    assert (H' : PlanInv d ((pre ++ [a]) ++ r)) by (rewrite <- app_assoc; exact H).
    assert (ET : forall s, (s ++ [task_at d a]) ++ tasks_of d r = s ++ tasks_of d (a :: r)).
    { intro s. rewrite <- app_assoc. reflexivity. }
    destruct k as [[|j]|]; cbn [remove_at_loop hd List.tl];
      replace (a <? cap) with true by (symmetry; apply Nat.ltb_lt; exact Ha).
    + (* the k-th task: removed through the iterator, which goes on with its cached next *)
      destruct (plan_remove_spec d pre a r H) as (H1 & Hfr & _ & Hs).
      set (d1 := plan_remove P cap d a) in *.
      rewrite (it_next_spec d1 pre r H1).
      destruct (IH pre f d1 None (seen ++ [task_at d a]) H1) as (d' & El & Ed); [lia|].
      rewrite Ed in El. exists d1. split.
      * rewrite El, <- ET. apply f_equal. apply f_equal. unfold tasks_of. apply map_ext_in.
        intros i Hi. apply Hfr. apply in_or_app. right. exact Hi.
      * cbn [length remove_nth].
        replace (0 <? S (length r)) with true by (symmetry; apply Nat.ltb_lt; lia).
        split; [exact H1|]. split; [exact Hfr|exact Hs].
    + rewrite (it_next_spec d (pre ++ [a]) r H').
      destruct (IH (pre ++ [a]) f d (Some j) (seen ++ [task_at d a]) H') as (d' & El & Ed); [lia|].
      exists d'. split; [rewrite El, ET; reflexivity|].
      cbn [length remove_nth]. change (S j <? S (length r)) with (j <? length r).
      destruct (j <? length r); [|exact Ed].
      rewrite <- app_assoc in Ed. exact Ed.
    + rewrite (it_next_spec d (pre ++ [a]) r H').
      destruct (IH (pre ++ [a]) f d None (seen ++ [task_at d a]) H') as (d' & El & Ed); [lia|].
      exists d'. split; [rewrite El, ET; reflexivity|exact Ed].
Qed.

Theorem plan_remove_at_spec d order k : PlanInv d order ->
  exists d', plan_remove_at P cap d k = (d', tasks_of d order) /\
    if k <? length order
    then PlanInv d' (remove_nth k order) /\
         tasks_of d' (remove_nth k order) = remove_nth k (tasks_of d order) /\
         same_rest d d'
    else d' = d.
Proof.
  intros H. destruct (PlanInv_count d order H) as [_ Hle].
  unfold plan_remove_at. rewrite (pi_first _ _ _ (pv_links _ _ H)). cbv zeta.
  rewrite (it_next_spec d [] order H).
  destruct (remove_at_loop_spec order [] (S cap) d (Some k) [] H) as (d' & El & Ed); [lia|].
  exists d'. split; [exact El|].
  destruct (k <? length order); [|exact Ed].
  cbn [app] in Ed. destruct Ed as (H1 & Hfr & Hs).
  split; [exact H1|]. split; [|exact Hs].
  unfold tasks_of. rewrite <- map_remove_nth. apply map_ext_in. exact Hfr.
Qed.

(* ---- 7. the capacity comes back ---- *)
Fixpoint append_all (d : plan_data) (ts : list (nat * nat)) : plan_data * list bool :=
  match ts with
  | [] => (d, [])
  | (o, dst) :: r => let '(d1, b) := plan_append P cap d o dst in
                     let '(d2, bs) := append_all d1 r in (d2, b :: bs)
  end.

Lemma append_all_spec : forall ts d order, PlanInv d order -> length order + length ts <= cap ->
  exists d' order', append_all d ts = (d', repeat true (length ts)) /\ length order' = length ts /\
    PlanInv d' (order ++ order') /\
    tasks_of d' (order ++ order') = tasks_of d order ++ map (fun x => mk_task (fst x) (snd x) None) ts.
Proof.
  induction ts as [|[o dst] ts IH]; intros d order H Hlen.
  - exists d, []. cbn [map length repeat append_all]. rewrite !app_nil_r. split; [reflexivity|]. split; [reflexivity|]. split; [exact H|reflexivity].
  - cbn [length] in Hlen. cbn [append_all].
    pose proof (plan_append_spec d order o dst H) as Hs.
    replace (length order <? cap) with true in Hs by (symmetry; apply Nat.ltb_lt; lia).
    destruct Hs as (i & d1 & E1 & Hni & H1 & HT1 & _ & _). rewrite E1.
    destruct (IH d1 (order ++ [i]) H1) as (d' & order' & E2 & Hl & H2 & HT2).
    { rewrite app_length. cbn [length]. lia. }
    rewrite E2. exists d', (i :: order'). rewrite <- app_assoc in H2, HT2. cbn [app] in H2, HT2.
    split; [reflexivity|]. split; [cbn [length]; lia|]. split; [exact H2|].
    rewrite HT2, HT1, <- app_assoc. reflexivity.
Qed.

Theorem capacity_restored d ts : PlanInv d [] -> length ts = cap ->
  exists d', append_all d ts = (d', repeat true cap) /\
    plan_tasks P cap d' = map (fun x => mk_task (fst x) (snd x) None) ts /\
    (forall o dst, plan_append P cap d' o dst = (d', false)) /\
    (forall o dst p, plan_append_with P cap d' o dst p = (pd_with_exists P d' true, false)).
Proof.
  intros H Hl.
  destruct (append_all_spec ts d [] H) as (d' & order' & E & Hlo & H' & HT); [cbn [length]; lia|].
  cbn [app tasks_of map] in H', HT. rewrite Hl in E.
  exists d'. split; [exact E|]. split; [rewrite (plan_tasks_spec d' order' H'); exact HT|].
  assert (Hfull : (length order' <? cap) = false) by (apply Nat.ltb_ge; lia).
  split.
  - intros o dst. pose proof (plan_append_spec d' order' o dst H') as Hs. rewrite Hfull in Hs. exact Hs.
  - intros o dst p. pose proof (plan_append_with_spec d' order' o dst p H') as Hs. rewrite Hfull in Hs. exact Hs.
Qed.

(* ------------------------------------------------------------------------------------------ *)
(* Part 3: histories                                                                           *)
(* ------------------------------------------------------------------------------------------ *)
Inductive plan_op :=
| PAppend (o dst : nat)
| PAppendWith (o dst : nat) (p : P)
| PRemoveAt (k : nat)
| PClear.
Inductive plan_obs := ObsBool (b : bool) | ObsSeen (l : list task) | ObsNone.

(* the model *)
Definition model_step (d : plan_data) (op : plan_op) : plan_data * plan_obs :=
  match op with
  | PAppend o dst => let '(d', b) := plan_append P cap d o dst in (d', ObsBool b)
  | PAppendWith o dst p => let '(d', b) := plan_append_with P cap d o dst p in (d', ObsBool b)
  | PRemoveAt k => let '(d', s) := plan_remove_at P cap d k in (d', ObsSeen s)
  | PClear => (plan_clear P cap n d, ObsNone)
  end.

(* the specification: a list of at most cap tasks and the planExists flag *)
Record abs := { a_tasks : list task; a_exists : bool }.
Definition abs_step (a : abs) (op : plan_op) : abs * plan_obs :=
  match op with
  | PAppend o dst =>
      if length (a_tasks a) <? cap
      then ({| a_tasks := a_tasks a ++ [mk_task o dst None]; a_exists := true |}, ObsBool true)
      else (a, ObsBool false)
  | PAppendWith o dst p =>
      if length (a_tasks a) <? cap
      then ({| a_tasks := a_tasks a ++ [mk_task o dst (Some p)]; a_exists := true |}, ObsBool true)
      else ({| a_tasks := a_tasks a; a_exists := true |}, ObsBool false)
  | PRemoveAt k => ({| a_tasks := remove_nth k (a_tasks a); a_exists := a_exists a |}, ObsSeen (a_tasks a))
  | PClear => ({| a_tasks := []; a_exists := a_exists a |}, ObsNone)
  end.

(* what a client can see of a plan between two operations *)
Record view := { v_tasks : list task; v_nonempty : bool; v_exists : bool }.
Definition model_view (d : plan_data) : view :=
  {| v_tasks := plan_tasks P cap d; v_nonempty := plan_nonempty P cap d; v_exists := pd_exists d |}.
Definition abs_view (a : abs) : view :=
  {| v_tasks := a_tasks a; v_nonempty := negb (length (a_tasks a) =? 0); v_exists := a_exists a |}.

Fixpoint model_run (d : plan_data) (ops : list plan_op) : list (plan_obs * view) :=
  match ops with
  | [] => []
  | op :: r => let '(d', ob) := model_step d op in (ob, model_view d') :: model_run d' r
  end.
Fixpoint abs_run (a : abs) (ops : list plan_op) : list (plan_obs * view) :=
  match ops with
  | [] => []
  | op :: r => let '(a', ob) := abs_step a op in (ob, abs_view a') :: abs_run a' r
  end.
Definition model_state (d : plan_data) (ops : list plan_op) : plan_data :=
  fold_left (fun d op => fst (model_step d op)) ops d.
Definition abs_state (a : abs) (ops : list plan_op) : abs :=
  fold_left (fun a op => fst (abs_step a op)) ops a.

Definition Rel (d : plan_data) (a : abs) : Prop :=
  exists order, PlanInv d order /\ tasks_of d order = a_tasks a /\ pd_exists d = a_exists a.

Lemma Rel_view d a : Rel d a -> model_view d = abs_view a.
Proof.
  intros (order & H & HT & HE). unfold model_view, abs_view.
  rewrite (plan_tasks_spec d order H), (plan_nonempty_spec d order H), HT, HE.
  rewrite <- HT. unfold tasks_of. rewrite map_length. reflexivity.
Qed.

Lemma abs_len_inv a op : length (a_tasks a) <= cap -> length (a_tasks (fst (abs_step a op))) <= cap.
Proof.
  intros Hl. destruct op as [o dst|o dst p|k|]; cbn [abs_step].
  - destruct (length (a_tasks a) <? cap) eqn:E; cbn [fst a_tasks]; [|exact Hl].
    apply Nat.ltb_lt in E. rewrite app_length. cbn [length]. lia.
  - destruct (length (a_tasks a) <? cap) eqn:E; cbn [fst a_tasks]; [|exact Hl].
    apply Nat.ltb_lt in E. rewrite app_length. cbn [length]. lia.
  - cbn [fst a_tasks]. destruct (Nat.lt_ge_cases k (length (a_tasks a))) as [Hk|Hk].
    + pose proof (remove_nth_length k (a_tasks a) Hk). lia.
    + rewrite remove_nth_oob by exact Hk. exact Hl.
  - cbn [fst a_tasks length]. lia.
Qed.

Lemma step_refines d a op : Rel d a ->
  snd (model_step d op) = snd (abs_step a op) /\ Rel (fst (model_step d op)) (fst (abs_step a op)).
Proof.
  intros (order & H & HT & HE).
  assert (HL : length (a_tasks a) = length order) by (rewrite <- HT; unfold tasks_of; apply map_length).
  destruct op as [o dst|o dst p|k|]; cbn [model_step abs_step]; rewrite ?HL.
  - pose proof (plan_append_spec d order o dst H) as Hs.
    destruct (length order <? cap).
    + destruct Hs as (i & d' & E & Hni & HI & HT' & Hex & _). rewrite E. cbn [fst snd].
      split; [reflexivity|]. exists (order ++ [i]). cbn [a_tasks a_exists].
      split; [exact HI|]. split; [rewrite HT', HT; reflexivity|exact Hex].
    + rewrite Hs. cbn [fst snd]. split; [reflexivity|]. exists order. auto.
  - pose proof (plan_append_with_spec d order o dst p H) as Hs.
    destruct (length order <? cap).
    + destruct Hs as (i & d' & E & Hni & HI & HT' & Hex & _). rewrite E. cbn [fst snd].
      split; [reflexivity|]. exists (order ++ [i]). cbn [a_tasks a_exists].
      split; [exact HI|]. split; [rewrite HT', HT; reflexivity|exact Hex].
    + rewrite Hs. cbn [fst snd]. split; [reflexivity|]. exists order. cbn [a_tasks a_exists].
      split; [apply (PlanInv_ext d); [reflexivity|reflexivity|exact H]|].
      split; [rewrite <- HT; apply tasks_of_ext; reflexivity|reflexivity].
  - destruct (plan_remove_at_spec d order k H) as (d' & E & Hd). rewrite E. cbn [fst snd].
    split; [rewrite HT; reflexivity|].
    destruct (k <? length order) eqn:Ek.
    + destruct Hd as (HI & HT' & (_ & Hex)). exists (remove_nth k order). cbn [a_tasks a_exists].
      split; [exact HI|]. split; [rewrite HT', HT; reflexivity|rewrite Hex; exact HE].
    + apply Nat.ltb_ge in Ek. rewrite Hd. exists order. cbn [a_tasks a_exists].
      split; [exact H|]. split; [|exact HE].
      rewrite remove_nth_oob by lia. exact HT.
  - destruct (plan_clear_spec d order H) as (HI & _ & Hex & _). cbn [fst snd].
    split; [reflexivity|]. exists []. cbn [a_tasks a_exists].
    split; [exact HI|]. split; [reflexivity|rewrite Hex; exact HE].
Qed.

Lemma run_refines : forall ops d a, Rel d a ->
  model_run d ops = abs_run a ops /\ Rel (model_state d ops) (abs_state a ops).
Proof.
  induction ops as [|op ops IH]; intros d a HR; [split; [reflexivity|exact HR]|].
  destruct (step_refines d a op HR) as [Eo HR'].
  cbn [model_run abs_run model_state abs_state fold_left].
  destruct (model_step d op) as [d' ob]. destruct (abs_step a op) as [a' ob']. cbn [fst snd] in *.
  destruct (IH d' a' HR') as [Er Hst]. subst ob'.
  rewrite (Rel_view d' a' HR'), Er. split; [reflexivity|exact Hst].
Qed.

Definition abs_init : abs := {| a_tasks := []; a_exists := false |}.

Lemma init_Rel : 1 <= cap <= 255 -> Rel (pd_init P cap n) abs_init.
Proof. intro Hc. exists []. split; [exact (pd_init_inv Hc)|]. split; reflexivity. Qed.

(* every history of appends, iterator removals and clears, of any length, is indistinguishable from the
   list machine: same returned booleans, same tasks seen by the removing iteration, same plan contents,
   same operator bool and same planExists after every single operation *)
Theorem plan_refines_list : forall ops, 1 <= cap <= 255 ->
  model_run (pd_init P cap n) ops = abs_run abs_init ops.
Proof. intros ops Hc. exact (proj1 (run_refines ops _ _ (init_Rel Hc))). Qed.

(* and the concrete state stays well formed and keeps abstracting the list machine's state *)
Theorem plan_run_inv : forall ops, 1 <= cap <= 255 ->
  exists order, PlanInv (model_state (pd_init P cap n) ops) order /\ length order <= cap /\
    tasks_of (model_state (pd_init P cap n) ops) order = a_tasks (abs_state abs_init ops) /\
    plan_tasks P cap (model_state (pd_init P cap n) ops) = a_tasks (abs_state abs_init ops) /\
    pd_exists (model_state (pd_init P cap n) ops) = a_exists (abs_state abs_init ops).
Proof.
  intros ops Hc. destruct (proj2 (run_refines ops _ _ (init_Rel Hc))) as (order & H & HT & HE).
  exists order. split; [exact H|]. split; [exact (proj2 (PlanInv_count _ _ H))|].
  split; [exact HT|]. split; [rewrite (plan_tasks_spec _ _ H); exact HT|exact HE].
Qed.
End PP.

Print Assumptions link_task_PInv.
Print Assumptions unlink_PInv.
Print Assumptions pd_init_inv.
Print Assumptions plan_tasks_spec.
Print Assumptions plan_nonempty_spec.
Print Assumptions plan_first_last_spec.
Print Assumptions plan_append_spec.
Print Assumptions plan_append_with_spec.
Print Assumptions plan_remove_spec.
Print Assumptions plan_clear_tasks_spec.
Print Assumptions plan_clear_spec.
Print Assumptions pd_clear_spec.
Print Assumptions plan_remove_at_spec.
Print Assumptions capacity_restored.
Print Assumptions plan_refines_list.
Print Assumptions plan_run_inv.

(* a concrete history on a plan of capacity 2 (not vacuous: the third append is refused, the removing
   iteration sees both tasks, and the freed slot is reused) *)
Example plan_history_example :
  map fst (model_run nat 2 3 (pd_init nat 2 3)
             [PAppend nat 1 2; PAppendWith nat 2 3 7; PAppend nat 5 5; PRemoveAt nat 0; PAppend nat 4 4])
  = [ObsBool nat true; ObsBool nat true; ObsBool nat false;
     ObsSeen nat [mk_task nat 1 2 None; mk_task nat 2 3 (Some 7)]; ObsBool nat true]
  /\ plan_tasks nat 2 (model_state nat 2 3 (pd_init nat 2 3)
             [PAppend nat 1 2; PAppendWith nat 2 3 7; PAppend nat 5 5; PRemoveAt nat 0; PAppend nat 4 4])
  = [mk_task nat 2 3 (Some 7); mk_task nat 4 4 None].
Proof. vm_compute. split; reflexivity. Qed.
