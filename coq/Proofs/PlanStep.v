(* C08 / C09 at function level: FullControlT::updatePlan (the SUCCESS scan) against an abstract firing rule
   over the list of tasks, and C_::deepUpdatePlans case by case. *)
From Coq Require Import List Arith Bool NArith Lia.
From FFSM2 Require Import Model.TaskList Model.BitArray Model.Plan Model.Ancestors Model.Dispatch Model.Machine
                          Proofs.BitArrayProofs Proofs.PlanProofs Proofs.MachineFrame Proofs.MachinePlan.
Import ListNotations.

Arguments INVALID : simpl never.

(* ------------------------------------------------------------------------------------------ *)
(* the abstract firing rule                                                                     *)
(* ------------------------------------------------------------------------------------------ *)
Section FS.
Variable P : Type.
Local Notation task := (task P).

(* fired, remaining, success bit of a, "clear it after the scan" *)
Fixpoint fire_scan (a : nat) (sa defer : bool) (ts : list task) : list task * list task * bool * bool :=
  match ts with
  | [] => ([], [], sa, defer)
  | t :: r =>
    if tk_origin t =? a then
      if sa then let cyc := tk_origin t =? tk_dest t in
                 let '(f, rem, sa', d') := fire_scan a (negb cyc) (if cyc then defer else true) r in
                 (t :: f, rem, sa', d')
      else let '(f, rem, sa', d') := fire_scan a sa defer r in (f, t :: rem, sa', d')
    else ([], t :: r, sa, defer)     (* a task of another origin stops the scan *)
  end.

(* l is a subsequence of m *)
Inductive subseq {A : Type} : list A -> list A -> Prop :=
| sub_nil : subseq [] []
| sub_take x l m : subseq l m -> subseq (x :: l) (x :: m)
| sub_skip x l m : subseq l m -> subseq l (x :: m).

Lemma subseq_refl {A : Type} (l : list A) : subseq l l.
Proof. induction l; constructor; assumption. Qed.
Lemma subseq_nil_l {A : Type} (l : list A) : subseq [] l.
Proof. induction l; constructor; assumption. Qed.
Lemma subseq_In {A : Type} (l m : list A) x : subseq l m -> In x l -> In x m.
Proof. induction 1 as [|y l m _ IH|y l m _ IH]; cbn [In]; intros H; auto. destruct H; auto. Qed.
Lemma subseq_Forall {A : Type} (Q : A -> Prop) (l m : list A) : subseq l m -> Forall Q m -> Forall Q l.
Proof.
  induction 1 as [|y l m _ IH|y l m _ IH]; intros H; auto.
  - inversion H; subst. constructor; auto.
  - inversion H; subst. auto.
Qed.
Lemma subseq_length {A : Type} (l m : list A) : subseq l m -> length l <= length m.
Proof. induction 1; cbn [length]; lia. Qed.

(* tasks is an interleaving of fired and remaining, both in their original order *)
Inductive merge {A : Type} : list A -> list A -> list A -> Prop :=
| mg_nil : merge [] [] []
| mg_l x l r m : merge l r m -> merge (x :: l) r (x :: m)
| mg_r x l r m : merge l r m -> merge l (x :: r) (x :: m).

Lemma merge_nil_l {A : Type} (r : list A) : merge [] r r.
Proof. induction r; constructor; assumption. Qed.
Lemma merge_subseq_l {A : Type} (l r m : list A) : merge l r m -> subseq l m.
Proof. induction 1; constructor; assumption. Qed.
Lemma merge_subseq_r {A : Type} (l r m : list A) : merge l r m -> subseq r m.
Proof. induction 1; constructor; assumption. Qed.
Lemma merge_length {A : Type} (l r m : list A) : merge l r m -> length m = length l + length r.
Proof. induction 1; cbn [length]; lia. Qed.

Ltac fs_step a sa defer t r IH :=
  cbn [fire_scan]; destruct (tk_origin t =? a) eqn:Eo;
  [ destruct sa;
    [ pose proof (IH (negb (tk_origin t =? tk_dest t)) (if tk_origin t =? tk_dest t then defer else true)) as IH1;
      destruct (fire_scan a (negb (tk_origin t =? tk_dest t)) (if tk_origin t =? tk_dest t then defer else true) r)
        as [[[f rem] sa1] d1]
    | pose proof (IH false defer) as IH1; destruct (fire_scan a false defer r) as [[[f rem] sa1] d1] ]
  | ].

Lemma fire_scan_merge a : forall ts sa defer,
  let '(fired, remaining, _, _) := fire_scan a sa defer ts in merge fired remaining ts.
Proof.
  induction ts as [|t r IH]; intros sa defer; [constructor|].
  fs_step a sa defer t r IH.
  - constructor. exact IH1.
  - constructor. exact IH1.
  - apply merge_nil_l.
Qed.

Lemma fired_all_origin_a a : forall ts sa defer,
  let '(fired, _, _, _) := fire_scan a sa defer ts in Forall (fun t => tk_origin t = a) fired.
Proof.
  induction ts as [|t r IH]; intros sa defer; [constructor|].
  fs_step a sa defer t r IH.
  - constructor; [apply Nat.eqb_eq; exact Eo|exact IH1].
  - exact IH1.
  - constructor.
Qed.

(* the exact shape: the scan walks a prefix of tasks of origin a and stops at the first task of another
   origin (or the end); the walked prefix splits into fired and kept, in order; the rest is untouched *)
Lemma fire_scan_shape a : forall ts sa defer,
  let '(fired, remaining, _, _) := fire_scan a sa defer ts in
  exists scanned kept rest, ts = scanned ++ rest /\ Forall (fun t => tk_origin t = a) scanned /\
    merge fired kept scanned /\ remaining = kept ++ rest /\
    match rest with [] => True | u :: _ => tk_origin u <> a end.
Proof.
  induction ts as [|t r IH]; intros sa defer.
  - exists [], [], []. repeat split; constructor.
  - fs_step a sa defer t r IH.
    + destruct IH1 as (sc & kp & rs & E & Ho & Hm & Er & Hr).
      exists (t :: sc), kp, rs. rewrite E. split; [reflexivity|]. split; [constructor; [apply Nat.eqb_eq; exact Eo|exact Ho]|].
      split; [constructor; exact Hm|]. split; [exact Er|exact Hr].
    + destruct IH1 as (sc & kp & rs & E & Ho & Hm & Er & Hr).
      exists (t :: sc), (t :: kp), rs. rewrite E, Er. split; [reflexivity|]. split; [constructor; [apply Nat.eqb_eq; exact Eo|exact Ho]|].
      split; [constructor; exact Hm|]. split; [reflexivity|exact Hr].
    + exists [], [], (t :: r). split; [reflexivity|]. split; [constructor|]. split; [constructor|]. split; [reflexivity|].
      apply Nat.eqb_neq. exact Eo.
Qed.

(* fired_prefix: every task ahead of the last scanned position has origin a; in particular a fired task is
   never preceded by a task of another origin *)
Corollary fired_prefix a ts sa defer :
  let '(fired, remaining, _, _) := fire_scan a sa defer ts in
  exists scanned rest, ts = scanned ++ rest /\ subseq fired scanned /\ Forall (fun t => tk_origin t = a) scanned.
Proof.
  pose proof (fire_scan_shape a ts sa defer) as H. destruct (fire_scan a sa defer ts) as [[[f rem] sa1] d1].
  destruct H as (sc & kp & rs & E & Ho & Hm & _). exists sc, rs. split; [exact E|]. split; [exact (merge_subseq_l _ _ _ Hm)|exact Ho].
Qed.

Corollary remaining_order a ts sa defer :
  let '(fired, remaining, _, _) := fire_scan a sa defer ts in subseq remaining ts /\ subseq fired ts.
Proof.
  pose proof (fire_scan_merge a ts sa defer) as H. destruct (fire_scan a sa defer ts) as [[[f rem] sa1] d1].
  split; [exact (merge_subseq_r _ _ _ H)|exact (merge_subseq_l _ _ _ H)].
Qed.

(* every task is fired or kept, never both, never twice (positions, not values) *)
Corollary fired_once a ts sa defer :
  let '(fired, remaining, _, _) := fire_scan a sa defer ts in length ts = length fired + length remaining.
Proof.
  pose proof (fire_scan_merge a ts sa defer) as H. destruct (fire_scan a sa defer ts) as [[[f rem] sa1] d1].
  exact (merge_length _ _ _ H).
Qed.

Lemma head_fires a t r defer : tk_origin t = a ->
  let '(fired, _, _, _) := fire_scan a true defer (t :: r) in exists f, fired = t :: f.
Proof.
  intro E. cbn [fire_scan]. apply Nat.eqb_eq in E. rewrite E.
  destruct (fire_scan a _ _ r) as [[[f rem] sa1] d1]. exists f. reflexivity.
Qed.

Lemma no_success_no_fire a : forall ts defer,
  let '(fired, remaining, sa', d') := fire_scan a false defer ts in
  fired = [] /\ remaining = ts /\ sa' = false /\ d' = defer.
Proof.
  induction ts as [|t r IH]; intro defer; cbn [fire_scan]; [repeat split|].
  destruct (tk_origin t =? a); [|repeat split].
  specialize (IH defer). destruct (fire_scan a false defer r) as [[[f rem] sa1] d1].
  destruct IH as (-> & -> & -> & ->). repeat split.
Qed.

(* the success bit survives the step only if nothing fired *)
Lemma success_kept_inv a : forall ts sa defer,
  let '(fired, remaining, sa', d') := fire_scan a sa defer ts in
  sa' && negb d' = true -> sa = true /\ defer = false /\ fired = [] /\ remaining = ts.
Proof.
  induction ts as [|t r IH]; intros sa defer.
  - cbn [fire_scan]. intro H. apply andb_prop in H. destruct H as [H1 H2]. apply negb_true_iff in H2. repeat split; assumption.
  - fs_step a sa defer t r IH.
    + intro H. destruct (IH1 H) as (A & B & _). exfalso.
      destruct (tk_origin t =? tk_dest t); cbn [negb] in A; discriminate.
    + intro H. destruct (IH1 H) as (A & _). discriminate.
    + intro H. apply andb_prop in H. destruct H as [H1 H2]. apply negb_true_iff in H2. repeat split; assumption.
Qed.

Corollary success_consumed a ts sa defer :
  let '(fired, _, sa', d') := fire_scan a sa defer ts in fired <> [] -> sa' && negb d' = false.
Proof.
  pose proof (success_kept_inv a ts sa defer) as H. destruct (fire_scan a sa defer ts) as [[[f rem] sa1] d1].
  intro Hne. destruct (sa1 && negb d1); [|reflexivity]. destruct (H eq_refl) as (_ & _ & E & _). contradiction.
Qed.

(* a cyclic task ends the firing: whatever fired before the last fired task was not cyclic *)
Lemma fired_cyclic_last a : forall ts sa defer,
  let '(fired, _, _, _) := fire_scan a sa defer ts in
  forall f t, fired = f ++ [t] -> Forall (fun u => tk_origin u <> tk_dest u) f.
Proof.
  induction ts as [|t r IH]; intros sa defer.
  - cbn [fire_scan]. intros f t E. destruct f; discriminate.
  - cbn [fire_scan]. destruct (tk_origin t =? a) eqn:Eo; [destruct sa|].
    + destruct (tk_origin t =? tk_dest t) eqn:Ec; cbn [negb].
      * pose proof (no_success_no_fire a r defer) as N.
        destruct (fire_scan a false defer r) as [[[f rem] sa1] d1]. destruct N as (-> & _).
        intros f0 u E. destruct f0 as [|x f0]; [constructor|]. cbn [app] in E. injection E as _ E. destruct f0; discriminate.
      * specialize (IH true true). destruct (fire_scan a true true r) as [[[f rem] sa1] d1].
        intros f0 u E. destruct f0 as [|x f0]; [constructor|]. cbn [app] in E. injection E as <- E.
        constructor; [apply Nat.eqb_neq; exact Ec|exact (IH f0 u E)].
    + specialize (IH false defer). destruct (fire_scan a false defer r) as [[[f rem] sa1] d1]. exact IH.
    + intros f0 u E. destruct f0; discriminate.
Qed.

(* what the rule does with several pending tasks of the succeeded state: a non-cyclic task leaves the
   success bit up during the scan, so every following task of that origin fires too (the last request wins);
   a cyclic task lowers it at once, so what follows stays in the plan *)
Example fire_scan_fires_all_pending :
  fire_scan 0 true false [Build_task 0 1 None; Build_task 0 2 None; Build_task 3 0 None]
  = ([Build_task 0 1 None; Build_task 0 2 None], [Build_task 3 0 None], true, true).
Proof. reflexivity. Qed.
Example fire_scan_cyclic_stops :
  fire_scan 0 true false [Build_task 0 0 None; Build_task 0 2 None]
  = ([Build_task 0 0 None], [Build_task 0 2 None], false, false).
Proof. reflexivity. Qed.
End FS.

(* ------------------------------------------------------------------------------------------ *)
(* the SUCCESS scan of FullControlT::updatePlan                                                 *)
(* ------------------------------------------------------------------------------------------ *)
Section PS.
Variable P : Type.
Variable cfg : config.
Local Notation n := (c_n cfg).
Local Notation cap := (c_cap cfg).
Local Notation nN := (N.of_nat (c_n cfg)).
Local Notation mstate := (mstate P).
Local Notation task := (task P).
Hypothesis Hn : 1 <= n <= 255.
Hypothesis Hcap : 1 <= cap <= 255.

Definition req_of (t : task) : transition P := {| t_origin := tk_origin t; t_dest := tk_dest t; t_pay := tk_payload t |}.
Definition fire_log (t : task) : event P := EvLog P (LTransition (tk_origin t) (tk_dest t)).
Definition log_on (s : mstate) : bool := log_compiled cfg && logger P (co P s).

Lemma log_rec_eq l s :
  log_rec P cfg l s = {| co := co P s; tr := (if log_on s then [EvLog P l] else []) ++ tr P s |}.
Proof. unfold log_rec, log_on, emit. destruct (log_compiled cfg && logger P (co P s)); destruct s; reflexivity. Qed.

Lemma nN_pos : (1 <= nN)%N.
Proof. lia. Qed.

Lemma of_nat_eqb a j : (N.of_nat a =? N.of_nat j)%N = (j =? a).
Proof.
  destruct (Nat.eqb_spec j a) as [->|Hne]; [apply N.eqb_refl|]. apply N.eqb_neq. lia.
Qed.

Lemma get_clear_nat b a j : wf nN b -> a < n ->
  ba_get (ba_clear b (N.of_nat a)) (N.of_nat j) = if j =? a then false else ba_get b (N.of_nat j).
Proof. intros Hw Ha. rewrite (get_clear nN nN_pos b _ _ Hw) by lia. rewrite of_nat_eqb. reflexivity. Qed.

Lemma last_cons_gen {A : Type} (l : list A) a d : last (a :: l) d = last l a.
Proof.
  revert a d. induction l as [|b l IH]; intros a d; [reflexivity|].
  change (last (a :: b :: l) d) with (last (b :: l) d). rewrite (IH b d), (IH b a). reflexivity.
Qed.

(* firing the task in slot x *)
Definition fire_state (s : mstate) (x : nat) (t : task) (cyc : bool) : mstate :=
  let s1 := upd_core P (fun c => set_request P c {| t_origin := tk_origin t; t_dest := tk_dest t; t_pay := tk_payload t |}) s in
  let s1 := log_rec P cfg (LTransition (tk_origin t) (tk_dest t)) s1 in
  let s2 := if cyc then upd_plan P (fun d => pd_with_succ P d (ba_clear (pd_succ d) (N.of_nat (tk_origin t)))) s1 else s1 in
  upd_plan P (fun d => plan_remove P cap d x) s2.

Lemma fire_state_facts s x t cyc pre r :
  PlanInv P cap (plan P (co P s)) (pre ++ x :: r) -> tk_origin t = active P (co P s) -> active P (co P s) < n ->
  wf nN (pd_succ (plan P (co P s))) ->
  let s3 := fire_state s x t cyc in
  PlanInv P cap (plan P (co P s3)) (pre ++ r) /\
  (forall i, In i (pre ++ r) -> task_at P (plan P (co P s3)) i = task_at P (plan P (co P s)) i) /\
  request P (co P s3) = req_of t /\
  wf nN (pd_succ (plan P (co P s3))) /\
  (forall j, ba_get (pd_succ (plan P (co P s3))) (N.of_nat j) =
             if cyc && (j =? active P (co P s)) then false else ba_get (pd_succ (plan P (co P s))) (N.of_nat j)) /\
  pd_fail (plan P (co P s3)) = pd_fail (plan P (co P s)) /\
  pd_exists (plan P (co P s3)) = pd_exists (plan P (co P s)) /\
  pd_head_status (plan P (co P s3)) = pd_head_status (plan P (co P s)) /\
  pd_sub_status (plan P (co P s3)) = pd_sub_status (plan P (co P s)) /\
  active P (co P s3) = active P (co P s) /\ requested P (co P s3) = requested P (co P s) /\
  previous P (co P s3) = previous P (co P s) /\ logger P (co P s3) = logger P (co P s) /\
  tr P s3 = (if log_on s then [fire_log t] else []) ++ tr P s.
Proof.
  intros HI Eo Ha Hw. unfold fire_state. rewrite log_rec_eq.
  destruct cyc.
  - set (d2 := pd_with_succ P (plan P (co P s)) (ba_clear (pd_succ (plan P (co P s))) (N.of_nat (tk_origin t)))).
    assert (HI2 : PlanInv P cap d2 (pre ++ x :: r)) by (apply (PlanInv_ext P cap (plan P (co P s))); [reflexivity|reflexivity|exact HI]).
    destruct (plan_remove_spec P cap d2 pre x r HI2) as (H3 & Hfr & _ & ((A & B & C & D) & E)).
    cbv zeta. cbn [upd_plan upd_core co tr set_plan set_request plan request active requested previous logger].
    fold d2.
    split; [exact H3|]. split; [exact Hfr|]. split; [reflexivity|].
    rewrite A, B, C, D, E. subst d2. cbn [pd_succ pd_fail pd_exists pd_head_status pd_sub_status pd_with_succ].
    split; [apply (clear_wf nN nN_pos); exact Hw|].
    split; [intro j; rewrite Eo, (get_clear_nat _ _ j Hw Ha); cbn [andb]; reflexivity|].
    repeat split.
  - destruct (plan_remove_spec P cap _ pre x r HI) as (H3 & Hfr & _ & ((A & B & C & D) & E)).
    cbv zeta. cbn [upd_plan upd_core co tr set_plan set_request plan request active requested previous logger].
    split; [exact H3|]. split; [exact Hfr|]. split; [reflexivity|].
    rewrite A, B, C, D, E.
    split; [exact Hw|]. split; [intro j; reflexivity|]. repeat split.
Qed.

(* what the scan from a position achieves, relative to the abstract rule's verdict *)
Record scan_post (s : mstate) (tc : ba) (pre_t fired remaining : list task) (sa' d' : bool) (s' : mstate) (tc' : ba) : Prop := {
  sp_plan : exists order', PlanInv P cap (plan P (co P s')) order' /\
                           tasks_of P (plan P (co P s')) order' = pre_t ++ remaining;
  sp_request : request P (co P s') = last (map req_of fired) (request P (co P s));
  sp_wf_succ : wf nN (pd_succ (plan P (co P s')));
  sp_wf_tc : wf nN tc';
  sp_succ : forall j, ba_get (pd_succ (plan P (co P s'))) (N.of_nat j) =
                      if j =? active P (co P s) then sa' else ba_get (pd_succ (plan P (co P s))) (N.of_nat j);
  sp_tc : forall j, ba_get tc' (N.of_nat j) = if j =? active P (co P s) then negb d' else ba_get tc (N.of_nat j);
  sp_fail : pd_fail (plan P (co P s')) = pd_fail (plan P (co P s));
  sp_exists : pd_exists (plan P (co P s')) = pd_exists (plan P (co P s));
  sp_head : pd_head_status (plan P (co P s')) = pd_head_status (plan P (co P s));
  sp_sub : pd_sub_status (plan P (co P s')) = pd_sub_status (plan P (co P s));
  sp_active : active P (co P s') = active P (co P s);
  sp_requested : requested P (co P s') = requested P (co P s);
  sp_previous : previous P (co P s') = previous P (co P s);
  sp_logger : logger P (co P s') = logger P (co P s);
  sp_tr : tr P s' = (if log_on s then rev (map fire_log fired) else []) ++ tr P s
}.

Lemma scan_post_refl s tc pre rest :
  PlanInv P cap (plan P (co P s)) (pre ++ rest) -> wf nN (pd_succ (plan P (co P s))) -> wf nN tc ->
  scan_post s tc (tasks_of P (plan P (co P s)) pre) [] (tasks_of P (plan P (co P s)) rest)
            (ba_get (pd_succ (plan P (co P s))) (N.of_nat (active P (co P s))))
            (negb (ba_get tc (N.of_nat (active P (co P s))))) s tc.
Proof.
  intros HI Hw Htc. constructor; try reflexivity; try assumption.
  - exists (pre ++ rest). split; [exact HI|]. unfold tasks_of. apply map_app.
  - intro j. destruct (Nat.eqb_spec j (active P (co P s))) as [->|_]; reflexivity.
  - intro j. rewrite negb_involutive. destruct (Nat.eqb_spec j (active P (co P s))) as [->|_]; reflexivity.
  - cbn [map rev]. destruct (log_on s); reflexivity.
Qed.

Lemma plan_scan_gen : forall fuel rest pre tc s fired remaining sa' d' s' tc',
  PlanInv P cap (plan P (co P s)) (pre ++ rest) -> length rest <= fuel -> active P (co P s) < n ->
  wf nN (pd_succ (plan P (co P s))) -> wf nN tc ->
  fire_scan P (active P (co P s)) (ba_get (pd_succ (plan P (co P s))) (N.of_nat (active P (co P s))))
            (negb (ba_get tc (N.of_nat (active P (co P s))))) (tasks_of P (plan P (co P s)) rest)
    = (fired, remaining, sa', d') ->
  plan_scan P cfg fuel (hd INVALID rest) (hd INVALID (List.tl rest)) tc s = (s', tc') ->
  scan_post s tc (tasks_of P (plan P (co P s)) pre) fired remaining sa' d' s' tc'.
Proof.
  induction fuel as [|f IH]; intros rest pre tc s fired remaining sa' d' s' tc' HI Hlen Ha Hw Htc HF HS.
  - destruct rest as [|x r]; [|cbn [length] in Hlen; lia].
    cbn [plan_scan] in HS. cbn [tasks_of map fire_scan] in HF.
    injection HS as <- <-. injection HF as <- <- <- <-.
    apply (scan_post_refl s tc pre [] HI Hw Htc).
  - destruct rest as [|x r].
    + cbn [plan_scan hd] in HS. rewrite (INVALID_ge_cap cfg (proj2 Hcap)) in HS.
      cbn [tasks_of map fire_scan] in HF.
      injection HS as <- <-. injection HF as <- <- <- <-.
      apply (scan_post_refl s tc pre [] HI Hw Htc).
    + assert (Hx : x < cap) by (apply (PlanInv_lt P cap _ _ x HI); apply in_or_app; right; left; reflexivity).
      cbn [length] in Hlen.
      revert HS. cbn [plan_scan hd List.tl].
      replace (x <? cap) with true by (symmetry; apply Nat.ltb_lt; exact Hx).
      cbn [tasks_of map fire_scan] in HF. fold (tasks_of P (plan P (co P s)) r) in HF.
      set (t := task_at P (plan P (co P s)) x) in *.
      unfold registry_is_active.
      destruct (active P (co P s) =? tk_origin t) eqn:Ea.
      * assert (Eo : tk_origin t = active P (co P s)) by (symmetry; apply Nat.eqb_eq; exact Ea).
        rewrite Nat.eqb_sym, Ea in HF.
        assert (Esa' : ba_get (pd_succ (plan P (co P s))) (N.of_nat (tk_origin t)) =
                       ba_get (pd_succ (plan P (co P s))) (N.of_nat (active P (co P s)))) by (rewrite Eo; reflexivity).
        rewrite Esa'. clear Esa'.
        destruct (ba_get (pd_succ (plan P (co P s))) (N.of_nat (active P (co P s)))) eqn:Esa.
        -- (* fires *)
           destruct (fire_scan P (active P (co P s)) (negb (tk_origin t =? tk_dest t)) _ (tasks_of P (plan P (co P s)) r))
             as [[[f0 rem0] sa0] d0] eqn:EF.
           injection HF as <- <- <- <-.
           assert (Step : forall cyc tc1,
                     (tk_origin t =? tk_dest t) = cyc -> tc1 = (if cyc then tc else ba_clear tc (N.of_nat (tk_origin t))) ->
                     plan_scan P cfg f (hd INVALID r)
                       (it_next P cap (plan P (co P (fire_state s x t cyc))) (hd INVALID r)) tc1 (fire_state s x t cyc) = (s', tc') ->
                     scan_post s tc (tasks_of P (plan P (co P s)) pre) (t :: f0) rem0 sa0 d0 s' tc').
           { intros cyc tc1 Ec Etc HS. rewrite Ec in EF.
             pose proof (fire_state_facts s x t cyc pre r HI Eo Ha Hw) as FS. cbv zeta in FS.
             set (s3 := fire_state s x t cyc) in *.
             destruct FS as (H3 & Hfr & Rq & Hw3 & Hb3 & F3 & X3 & Hh3 & Hs3 & A3 & Q3 & Pv3 & L3 & T3).
             rewrite (it_next_spec P cap _ pre r H3) in HS.
             assert (Htc1 : wf nN tc1) by (rewrite Etc; destruct cyc; [exact Htc|apply (clear_wf nN nN_pos); exact Htc]).
             assert (Hb1 : forall j, ba_get tc1 (N.of_nat j) =
                                     if negb cyc && (j =? active P (co P s)) then false else ba_get tc (N.of_nat j)).
             { intro j. rewrite Etc. destruct cyc; cbn [negb andb]; [reflexivity|]. rewrite Eo. apply get_clear_nat; assumption. }
             assert (Tr : tasks_of P (plan P (co P s3)) r = tasks_of P (plan P (co P s)) r).
             { unfold tasks_of. apply map_ext_in. intros i Hi. apply Hfr. apply in_or_app. right. exact Hi. }
             assert (Tp : tasks_of P (plan P (co P s3)) pre = tasks_of P (plan P (co P s)) pre).
             { unfold tasks_of. apply map_ext_in. intros i Hi. apply Hfr. apply in_or_app. left. exact Hi. }
             assert (HF3 : fire_scan P (active P (co P s3)) (ba_get (pd_succ (plan P (co P s3))) (N.of_nat (active P (co P s3))))
                             (negb (ba_get tc1 (N.of_nat (active P (co P s3))))) (tasks_of P (plan P (co P s3)) r)
                           = (f0, rem0, sa0, d0)).
             { rewrite A3, Tr, Hb3, Hb1, Nat.eqb_refl, Esa, <- EF. destruct cyc; cbn [negb andb]; [reflexivity|reflexivity]. }
             assert (Hlen3 : length r <= f) by lia.
             rewrite <- A3 in Ha.
             pose proof (IH r pre tc1 s3 f0 rem0 sa0 d0 s' tc' H3 Hlen3 Ha Hw3 Htc1 HF3 HS) as [a1 a2 a3 a4 a5 a6 a7 a8 a9 a10 a11 a12 a13 a14 a15].
             rewrite A3 in a5, a6. rewrite Tp in a1.
             constructor; try assumption; try congruence.
             - cbn [map]. rewrite last_cons_gen, a2, Rq. reflexivity.
             - intro j. rewrite a5, Hb3. destruct (j =? active P (co P s)); [reflexivity|]. rewrite andb_false_r. reflexivity.
             - intro j. rewrite a6, Hb1. destruct (j =? active P (co P s)); [reflexivity|]. rewrite andb_false_r. reflexivity.
             - rewrite a15, T3. unfold log_on at 1. rewrite L3. fold (log_on s). cbn [map rev].
               destruct (log_on s); [rewrite <- app_assoc; reflexivity|reflexivity]. }
           destruct (tk_origin t =? tk_dest t) eqn:Ec.
           ++ intro HS. apply (Step true tc eq_refl eq_refl). exact HS.
           ++ intro HS. apply (Step false (ba_clear tc (N.of_nat (tk_origin t))) eq_refl eq_refl). exact HS.
        -- (* the success bit is not set: the task stays *)
           destruct (fire_scan P (active P (co P s)) false _ (tasks_of P (plan P (co P s)) r)) as [[[f0 rem0] sa0] d0] eqn:EF.
           injection HF as <- <- <- <-.
           intro HS.
           assert (HI' : PlanInv P cap (plan P (co P s)) ((pre ++ [x]) ++ r)) by (rewrite <- app_assoc; exact HI).
           rewrite (it_next_spec P cap _ (pre ++ [x]) r HI') in HS.
           rewrite <- Esa in EF.
           assert (Hlen3 : length r <= f) by lia.
           pose proof (IH r (pre ++ [x]) tc s f0 rem0 sa0 d0 s' tc' HI' Hlen3 Ha Hw Htc EF HS) as [a1 a2 a3 a4 a5 a6 a7 a8 a9 a10 a11 a12 a13 a14 a15].
           constructor; try assumption.
           destruct a1 as (order' & Ho & Et). exists order'. split; [exact Ho|]. rewrite Et.
           unfold tasks_of. rewrite map_app, <- app_assoc. reflexivity.
      * (* a task of another origin: the scan stops *)
        apply Nat.eqb_neq in Ea.
        replace (tk_origin t =? active P (co P s)) with false in HF by (symmetry; apply Nat.eqb_neq; congruence).
        injection HF as <- <- <- <-. intro HS. injection HS as <- <-.
        apply (scan_post_refl s tc pre (x :: r) HI Hw Htc).
Qed.

Lemma last_map_nil (r : transition P) : last (map req_of []) r = r.
Proof. reflexivity. Qed.
Lemma last_map_snoc f t (r : transition P) : last (map req_of (f ++ [t])) r = req_of t.
Proof. rewrite map_app. cbn [map]. apply last_last. Qed.

Lemma wf_same_length b o : wf nN b -> wf nN o -> length b = length o.
Proof. intros [H1 _] [H2 _]. apply Nat2N.inj. rewrite H1, H2. reflexivity. Qed.

Lemma get_all_set j : j < n -> ba_get (ba_set_all nN (ba_init nN)) (N.of_nat j) = true.
Proof. intro H. rewrite (get_set_all nN nN_pos _ _ (init_wf nN nN_pos)). apply N.ltb_lt. lia. Qed.

(* the state after the SUCCESS branch of updatePlan on a non-empty plan, against the abstract verdict *)
Record fire_post (s : mstate) (fired remaining : list task) (sa' d' : bool) (s' : mstate) : Prop := {
  fp_tasks : plan_tasks P cap (plan P (co P s')) = remaining;
  fp_request : request P (co P s') = last (map req_of fired) (request P (co P s));
  fp_succ_a : ba_get (pd_succ (plan P (co P s'))) (N.of_nat (active P (co P s))) = sa' && negb d';
  fp_succ_other : forall j, j < n -> j <> active P (co P s) ->
     ba_get (pd_succ (plan P (co P s'))) (N.of_nat j) = ba_get (pd_succ (plan P (co P s))) (N.of_nat j);
  fp_wf_succ : wf nN (pd_succ (plan P (co P s')));
  fp_fail : pd_fail (plan P (co P s')) = pd_fail (plan P (co P s));
  fp_exists : pd_exists (plan P (co P s')) = pd_exists (plan P (co P s));
  fp_head : pd_head_status (plan P (co P s')) = pd_head_status (plan P (co P s));
  fp_sub : pd_sub_status (plan P (co P s')) = pd_sub_status (plan P (co P s));
  fp_active : active P (co P s') = active P (co P s);
  fp_requested : requested P (co P s') = requested P (co P s);
  fp_previous : previous P (co P s') = previous P (co P s);
  fp_logger : logger P (co P s') = logger P (co P s);
  fp_pic : PIc P cfg (plan P (co P s'));
  (* only logger records, one per fired task, oldest fired first; no callback, no action *)
  fp_tr : tr P s' = (if log_on s then rev (map fire_log fired) else []) ++ tr P s
}.

Theorem plan_scan_spec (orc : oracle P) s k fired remaining sa' d' s' k' :
  PIc P cfg (plan P (co P s)) -> active P (co P s) < n -> wf nN (pd_succ (plan P (co P s))) ->
  plan_tasks P cap (plan P (co P s)) <> [] ->
  fire_scan P (active P (co P s)) (ba_get (pd_succ (plan P (co P s))) (N.of_nat (active P (co P s)))) false
            (plan_tasks P cap (plan P (co P s))) = (fired, remaining, sa', d') ->
  update_plan P cfg orc SSuccess (s, k) = (s', k') ->
  k' = k /\ fire_post s fired remaining sa' d' s'.
Proof.
  intros Hpi Ha Hw Hne HF HU.
  destruct (PIc_elim P cfg _ Hpi) as (order & HI & Fok).
  rewrite (plan_tasks_spec P cap _ order HI) in HF, Hne.
  assert (Hnil : order <> []) by (intro E; apply Hne; rewrite E; reflexivity).
  unfold update_plan in HU.
  rewrite (plan_nonempty_spec P cap _ order HI) in HU.
  destruct order as [|x r]; [congruence|]. cbn [length Nat.eqb negb] in HU.
  rewrite (pi_first _ _ _ (pv_links _ _ _ _ HI)) in HU.
  pose proof (it_next_spec P cap _ [] (x :: r) HI) as En. rewrite En in HU. clear En.
  set (tc0 := ba_set_all nN (ba_init nN)) in *.
  assert (Htc0 : wf nN tc0) by (apply (set_all_wf nN nN_pos), (init_wf nN nN_pos)).
  assert (E0 : negb (ba_get tc0 (N.of_nat (active P (co P s)))) = false) by (subst tc0; rewrite (get_all_set _ Ha); reflexivity).
  assert (HF' : fire_scan P (active P (co P s)) (ba_get (pd_succ (plan P (co P s))) (N.of_nat (active P (co P s))))
                  (negb (ba_get tc0 (N.of_nat (active P (co P s))))) (tasks_of P (plan P (co P s)) (x :: r))
                = (fired, remaining, sa', d')) by (rewrite E0; exact HF).
  destruct (plan_scan P cfg (S cap) (hd INVALID (x :: r)) (hd INVALID (List.tl (x :: r))) tc0 s) as [s1 tc1] eqn:ES.
  destruct (PlanInv_count P cap _ _ HI) as [_ Hle].
  assert (Hlen : length (x :: r) <= S cap) by lia.
  pose proof (plan_scan_gen (S cap) (x :: r) [] tc0 s fired remaining sa' d' s1 tc1 HI Hlen Ha Hw Htc0 HF' ES)
    as [a1 a2 a3 a4 a5 a6 a7 a8 a9 a10 a11 a12 a13 a14 a15].
  injection HU as <- <-. split; [reflexivity|].
  destruct a1 as (order' & Ho & Et). cbn [tasks_of map app] in Et.
  assert (Elen : length (pd_succ (plan P (co P s1))) = length tc1) by (apply wf_same_length; assumption).
  constructor; cbn [upd_plan upd_core co tr set_plan plan request active requested previous logger
                    pd_with_succ pd_succ pd_fail pd_exists pd_head_status pd_sub_status]; try assumption.
  - rewrite (plan_tasks_ext P cfg (plan P (co P s1)) (pd_with_succ P (plan P (co P s1)) _) eq_refl eq_refl).
    rewrite (plan_tasks_spec P cap _ order' Ho). exact Et.
  - rewrite (get_and_assign _ _ _ Elen), a5, a6, Nat.eqb_refl. reflexivity.
  - intros j Hj Hja. rewrite (get_and_assign _ _ _ Elen), a5, a6.
    replace (j =? active P (co P s)) with false by (symmetry; apply Nat.eqb_neq; exact Hja).
    subst tc0. rewrite (get_all_set _ Hj). apply andb_true_r.
  - apply (and_assign_wf nN nN_pos); assumption.
  - apply (PIc_ext P cfg (plan P (co P s1))); [reflexivity|reflexivity|].
    apply (PIc_intro P cfg _ order' Ho). rewrite Et.
    pose proof (remaining_order P (active P (co P s)) (tasks_of P (plan P (co P s)) (x :: r))
                  (ba_get (pd_succ (plan P (co P s))) (N.of_nat (active P (co P s)))) false) as RO.
    rewrite HF in RO. destruct RO as [RO _]. exact (subseq_Forall _ _ _ RO Fok).
Qed.

(* ------------------------------------------------------------------------------------------ *)
(* C_::deepUpdatePlans                                                                          *)
(* ------------------------------------------------------------------------------------------ *)
(* clearing a bit needs no well-formedness: the bit reads false afterwards and no other bit is raised *)
Lemma get_clear_same_nowf b i : ba_get (ba_clear b i) i = false.
Proof.
  rewrite get_bit. unfold ba_bit, ba_clear.
  destruct (Nat.lt_ge_cases (N.to_nat (i / 8)) (length b)) as [L|L].
  - rewrite uget_uset_same by exact L. rewrite N.land_spec, N.lxor_spec. unfold ba_mask.
    rewrite testbit_shiftl1, N.eqb_refl, (testbit_255 nN nN_pos).
    replace (i mod 8 <? 8)%N with true by (symmetry; apply N.ltb_lt; apply N.mod_lt; discriminate).
    apply andb_false_r.
  - rewrite uget_out by (rewrite uset_length; exact L). apply N.bits_0.
Qed.

Lemma get_clear_mono_nowf b i j : ba_get (ba_clear b i) j = true -> ba_get b j = true.
Proof.
  rewrite !get_bit. unfold ba_bit, ba_clear.
  destruct (N.eq_dec (i / 8) (j / 8)) as [E|E].
  - rewrite <- E. destruct (Nat.lt_ge_cases (N.to_nat (i / 8)) (length b)) as [L|L].
    + rewrite uget_uset_same by exact L. rewrite N.land_spec. intro H. apply andb_prop in H. exact (proj1 H).
    + rewrite uget_out by (rewrite uset_length; exact L). rewrite N.bits_0. discriminate.
  - rewrite uget_uset_other by exact E. auto.
Qed.

Lemma clear_bits_get : forall k b j, j < k -> ba_get (clear_bits k b) (N.of_nat j) = false.
Proof.
  induction k as [|k IH]; intros b j H; [lia|]. cbn [clear_bits].
  destruct (Nat.eq_dec j k) as [->|Hne]; [apply get_clear_same_nowf|].
  destruct (ba_get (ba_clear (clear_bits k b) (N.of_nat k)) (N.of_nat j)) eqn:E; [|reflexivity].
  apply get_clear_mono_nowf in E. rewrite IH in E by lia. discriminate.
Qed.

Variable orc : oracle P.
Hypothesis Hwf : wf_oracle P cfg orc.

(* the status C_::deepUpdatePlans acts on: subStatus | S_::deepUpdatePlans of the active state *)
Definition plan_st (c : core P) : tstatus :=
  st_or (pd_sub_status (plan P c)) (state_plan_status P c (active P c)).

Lemma deep_update_plans_eq s k : active P (co P s) < n ->
  deep_update_plans P cfg orc (s, k) =
  if st_bool (plan_st (co P s)) && pd_exists (plan P (co P s)) then update_plan P cfg orc (plan_st (co P s)) (s, k) else (s, k).
Proof. intro Ha. unfold deep_update_plans, plan_st. cbn [fst]. rewrite (leaf_spec cfg _ Ha). reflexivity. Qed.

(* one plan outcome callback (planSucceeded / planFailed) delivered to the root, then PlanT::clear() *)
Record outcome_post (m : method) (st : tstatus) (s : mstate) (k : ctl P) (s' : mstate) (k' : ctl P) : Prop := {
  op_shape : exists s1, deliver P cfg orc Root m (s, set_status P k st) = (s1, k') /\
                        s' = upd_plan P (plan_clear P cap n) s1;
  (* the events appended are exactly one delivery of m to Root: the plan step itself adds nothing *)
  op_tr : exists l, tr P s' = l ++ tr P s /\ deliv P cfg Root m (active P (co P s)) l;
  op_tasks : plan_tasks P cap (plan P (co P s')) = [];
  op_bits : forall j, j < n -> ba_get (pd_succ (plan P (co P s'))) (N.of_nat j) = false /\
                               ba_get (pd_fail (plan P (co P s'))) (N.of_nat j) = false;
  op_active : active P (co P s') = active P (co P s);
  op_requested : requested P (co P s') = requested P (co P s);
  op_previous : previous P (co P s') = previous P (co P s);
  op_logger : logger P (co P s') = logger P (co P s);
  op_kind : k_kind P k' = k_kind P k;
  op_pic : PIc P cfg (plan P (co P s'))
}.

Lemma outcome_step m st s k s' k' : PIc P cfg (plan P (co P s)) ->
  (let '(s1, k1) := deliver P cfg orc Root m (s, set_status P k st) in (upd_plan P (plan_clear P cap n) s1, k1)) = (s', k') ->
  outcome_post m st s k s' k'.
Proof.
  intros Hpi HU.
  pose proof (deliver_fr P cfg orc (PIc P cfg) (PIc_ok P cfg Hcap) Hwf Root m s (set_status P k st)) as D.
  destruct (deliver P cfg orc Root m (s, set_status P k st)) as [s1 k1] eqn:ED.
  destruct D as (F & K & l & El & Dl). injection HU as <- <-.
  pose proof (fr_pi _ _ _ _ _ _ F Hpi) as Hpi1.
  destruct (PIc_elim P cfg _ Hpi1) as (order & HI & _).
  destruct (plan_clear_spec P cap n _ order HI) as (HI' & Ht & _ & _ & _ & Es & Ef).
  constructor; cbn [upd_plan upd_core co tr set_plan plan active requested previous logger].
  - exists s1. split; [exact ED|reflexivity].
  - exists l. split; [exact El|exact Dl].
  - exact Ht.
  - intros j Hj. rewrite Es, Ef. split; apply clear_bits_get; exact Hj.
  - exact (fr_active _ _ _ _ _ _ F).
  - exact (fr_requested _ _ _ _ _ _ F).
  - exact (fr_previous _ _ _ _ _ _ F).
  - exact (fr_logger _ _ _ _ _ _ F).
  - destruct K as (K & _). exact K.
  - apply (PIc_intro P cfg _ [] HI'). constructor.
Qed.

Lemma plan_empty_iff d : PIc P cfg d -> plan_nonempty P cap d = false <-> plan_tasks P cap d = [].
Proof.
  intro Hpi. destruct (PIc_elim P cfg _ Hpi) as (order & HI & _).
  rewrite (plan_nonempty_spec P cap _ order HI), (plan_tasks_spec P cap _ order HI).
  destruct order as [|x r]; cbn [length Nat.eqb negb tasks_of map]; split; intro H; try reflexivity; discriminate.
Qed.

(* 1. nothing to do *)
Theorem dup_idle s k : active P (co P s) < n ->
  st_bool (plan_st (co P s)) = false \/ pd_exists (plan P (co P s)) = false ->
  deep_update_plans P cfg orc (s, k) = (s, k).
Proof.
  intros Ha H. rewrite (deep_update_plans_eq s k Ha).
  destruct H as [H|H]; rewrite H; [reflexivity|rewrite andb_false_r; reflexivity].
Qed.

(* 2. failure: planFailed, then the plan is cleared *)
Theorem dup_failure s k s' k' : active P (co P s) < n -> PIc P cfg (plan P (co P s)) ->
  pd_exists (plan P (co P s)) = true -> plan_st (co P s) = SFailure ->
  deep_update_plans P cfg orc (s, k) = (s', k') ->
  outcome_post MPlanFailed SFailure s k s' k'.
Proof.
  intros Ha Hpi Hex Hst HU. rewrite (deep_update_plans_eq s k Ha), Hst, Hex in HU. cbn [st_bool andb] in HU.
  apply (outcome_step MPlanFailed SFailure s k s' k' Hpi). exact HU.
Qed.

(* 3. success with nothing left to do: planSucceeded, then the plan is cleared, whatever the callback appended *)
Theorem dup_success_empty s k s' k' : active P (co P s) < n -> PIc P cfg (plan P (co P s)) ->
  pd_exists (plan P (co P s)) = true -> plan_st (co P s) = SSuccess ->
  plan_tasks P cap (plan P (co P s)) = [] ->
  deep_update_plans P cfg orc (s, k) = (s', k') ->
  outcome_post MPlanSucceeded SSuccess s k s' k'.
Proof.
  intros Ha Hpi Hex Hst Hemp HU. rewrite (deep_update_plans_eq s k Ha), Hst, Hex in HU. cbn [st_bool andb] in HU.
  unfold update_plan in HU. rewrite (proj2 (plan_empty_iff _ Hpi) Hemp) in HU.
  apply (outcome_step MPlanSucceeded SSuccess s k s' k' Hpi). exact HU.
Qed.

(* 4. success with tasks pending: the firing rule, and no plan outcome callback *)
Theorem dup_success_fire s k s' k' fired remaining sa' d' : active P (co P s) < n -> PIc P cfg (plan P (co P s)) ->
  wf nN (pd_succ (plan P (co P s))) ->
  pd_exists (plan P (co P s)) = true -> plan_st (co P s) = SSuccess ->
  plan_tasks P cap (plan P (co P s)) <> [] ->
  fire_scan P (active P (co P s)) (ba_get (pd_succ (plan P (co P s))) (N.of_nat (active P (co P s)))) false
            (plan_tasks P cap (plan P (co P s))) = (fired, remaining, sa', d') ->
  deep_update_plans P cfg orc (s, k) = (s', k') ->
  k' = k /\ fire_post s fired remaining sa' d' s'.
Proof.
  intros Ha Hpi Hw Hex Hst Hne HF HU. rewrite (deep_update_plans_eq s k Ha), Hst, Hex in HU. cbn [st_bool andb] in HU.
  exact (plan_scan_spec orc s k fired remaining sa' d' s' k' Hpi Ha Hw Hne HF HU).
Qed.

(* the failure bit of the active state dominates *)
Lemma st_or_failure x : st_or x SFailure = SFailure.
Proof. destruct x; reflexivity. Qed.

Theorem failure_delivered s k s' k' : active P (co P s) < n -> PIc P cfg (plan P (co P s)) ->
  pd_exists (plan P (co P s)) = true ->
  ba_get (pd_fail (plan P (co P s))) (N.of_nat (active P (co P s))) = true ->
  deep_update_plans P cfg orc (s, k) = (s', k') ->
  plan_st (co P s) = SFailure /\ outcome_post MPlanFailed SFailure s k s' k'.
Proof.
  intros Ha Hpi Hex Hf HU.
  assert (Hst : plan_st (co P s) = SFailure).
  { unfold plan_st, state_plan_status. rewrite Hf. apply st_or_failure. }
  split; [exact Hst|]. exact (dup_failure s k s' k' Ha Hpi Hex Hst HU).
Qed.

(* never both outcome callbacks in one call: the appended events are logger records only, or one delivery
   of planFailed, or one delivery of planSucceeded *)
Theorem dup_never_both s k s' k' : active P (co P s) < n -> PIc P cfg (plan P (co P s)) ->
  wf nN (pd_succ (plan P (co P s))) ->
  deep_update_plans P cfg orc (s, k) = (s', k') ->
  exists l, tr P s' = l ++ tr P s /\
    (Forall (noncb P) l \/ deliv P cfg Root MPlanFailed (active P (co P s)) l \/
     deliv P cfg Root MPlanSucceeded (active P (co P s)) l).
Proof.
  intros Ha Hpi Hw HU.
  destruct (st_bool (plan_st (co P s)) && pd_exists (plan P (co P s))) eqn:Eb.
  - apply andb_prop in Eb. destruct Eb as [Est Hex].
    destruct (plan_st (co P s)) eqn:Hst; [discriminate| |].
    + destruct (plan_tasks P cap (plan P (co P s))) as [|t0 ts0] eqn:Et.
      * destruct (op_tr _ _ _ _ _ _ (dup_success_empty s k s' k' Ha Hpi Hex Hst Et HU)) as (l & El & Dl).
        exists l. split; [exact El|]. right. right. exact Dl.
      * destruct (fire_scan P (active P (co P s)) (ba_get (pd_succ (plan P (co P s))) (N.of_nat (active P (co P s)))) false
                    (plan_tasks P cap (plan P (co P s)))) as [[[fired remaining] sa'] d'] eqn:HF.
        assert (Hne : plan_tasks P cap (plan P (co P s)) <> []) by (rewrite Et; discriminate).
        destruct (dup_success_fire s k s' k' fired remaining sa' d' Ha Hpi Hw Hex Hst Hne HF HU) as [_ FP].
        exists (if log_on s then rev (map fire_log fired) else []). split; [exact (fp_tr _ _ _ _ _ _ FP)|]. left.
        destruct (log_on s); [|constructor]. apply Forall_rev. apply Forall_map. apply Forall_forall. intros t _. exact I.
    + destruct (op_tr _ _ _ _ _ _ (dup_failure s k s' k' Ha Hpi Hex Hst HU)) as (l & El & Dl).
      exists l. split; [exact El|]. right. left. exact Dl.
  - rewrite (dup_idle s k Ha) in HU.
    + injection HU as <- <-. exists []. split; [reflexivity|]. left. constructor.
    + apply andb_false_iff in Eb. exact Eb.
Qed.

(* the two readable forms of fire_post's request and trace clauses *)
Corollary fire_post_request s fired remaining sa' d' s' : fire_post s fired remaining sa' d' s' ->
  (fired = [] -> request P (co P s') = request P (co P s)) /\
  (forall f t, fired = f ++ [t] -> request P (co P s') = req_of t).
Proof.
  intro FP. split.
  - intros ->. rewrite (fp_request _ _ _ _ _ _ FP). reflexivity.
  - intros f t ->. rewrite (fp_request _ _ _ _ _ _ FP). apply last_map_snoc.
Qed.

Corollary fire_post_trace s fired remaining sa' d' s' : fire_post s fired remaining sa' d' s' ->
  exists logs, tr P s' = logs ++ tr P s /\ Forall (noncb P) logs /\
    rev logs = if log_compiled cfg && logger P (co P s) then map fire_log fired else [].
Proof.
  intro FP. exists (if log_on s then rev (map fire_log fired) else []).
  split; [exact (fp_tr _ _ _ _ _ _ FP)|]. unfold log_on. destruct (log_compiled cfg && logger P (co P s)).
  - split; [|apply rev_involutive]. apply Forall_rev. apply Forall_map. apply Forall_forall. intros t _. exact I.
  - split; [constructor|reflexivity].
Qed.

(* after a step that fired something the success bit of the active state is consumed *)
Corollary fire_post_consumed s fired remaining sa' d' s' :
  fire_scan P (active P (co P s)) (ba_get (pd_succ (plan P (co P s))) (N.of_nat (active P (co P s)))) false
            (plan_tasks P cap (plan P (co P s))) = (fired, remaining, sa', d') ->
  fire_post s fired remaining sa' d' s' -> fired <> [] ->
  ba_get (pd_succ (plan P (co P s'))) (N.of_nat (active P (co P s))) = false.
Proof.
  intros HF FP Hne. rewrite (fp_succ_a _ _ _ _ _ _ FP).
  pose proof (success_consumed P (active P (co P s)) (plan_tasks P cap (plan P (co P s)))
                (ba_get (pd_succ (plan P (co P s))) (N.of_nat (active P (co P s)))) false) as SC.
  rewrite HF in SC. exact (SC Hne).
Qed.
End PS.

(* ------------------------------------------------------------------------------------------ *)
(* planExists is raised only by the append operations                                           *)
(* ------------------------------------------------------------------------------------------ *)
Section PE.
Variable P : Type.
Variable cfg : config.
Variable orc : oracle P.
Local Notation n := (c_n cfg).
Local Notation cap := (c_cap cfg).
Local Notation mstate := (mstate P).

Definition pex (s : mstate) : bool := pd_exists (plan P (co P s)).
(* planExists was not raised from s to s' *)
Definition Rex (s s' : mstate) : Prop := pex s' = true -> pex s = true.

Definition no_append (a : action P) : Prop :=
  match a with APlanAppend _ _ _ | APlanAppendWith _ _ _ _ => False | _ => True end.
Hypothesis Hno : forall t w r m v, Forall no_append (orc t w r m v).

Lemma Rex_refl s : Rex s s.
Proof. intro H; exact H. Qed.
Lemma Rex_trans s1 s2 s3 : Rex s1 s2 -> Rex s2 s3 -> Rex s1 s3.
Proof. unfold Rex. auto. Qed.
Lemma Rex_same s s' : pex s' = pex s -> Rex s s'.
Proof. unfold Rex. intros ->. auto. Qed.
Lemma Rex_upd f s : (forall c, pd_exists (plan P (f c)) = true -> pd_exists (plan P c) = true) -> Rex s (upd_core P f s).
Proof. intro H. unfold Rex, pex. cbn [upd_core co]. apply H. Qed.
Lemma Rex_upd_plan f s : (forall d, pd_exists (f d) = true -> pd_exists d = true) -> Rex s (upd_plan P f s).
Proof. intro H. unfold upd_plan. apply Rex_upd. intro c. cbn [set_plan plan]. apply H. Qed.
Lemma Rex_emit e s : Rex s (emit P e s).
Proof. intro H; exact H. Qed.
Lemma Rex_log_rec l s : Rex s (log_rec P cfg l s).
Proof. unfold log_rec. destruct (log_compiled cfg && logger P (co P s)); [apply Rex_emit|apply Rex_refl]. Qed.

(* the plan operations other than append *)
Lemma pex_clear_loop : forall fuel d i, pd_exists (clear_loop P cap fuel d i) = pd_exists d.
Proof.
  induction fuel as [|f IH]; intros d i; cbn [clear_loop]; [reflexivity|].
  destruct (i =? INVALID); [reflexivity|]. rewrite IH. reflexivity.
Qed.
Lemma pex_plan_clear d : pd_exists (plan_clear P cap n d) = pd_exists d.
Proof.
  unfold plan_clear, plan_clear_tasks. cbn [pd_exists pd_with_fail pd_with_succ].
  destruct (first (pd_pl d) <? cap); [|reflexivity]. cbn [pd_exists pd_with_pl]. apply pex_clear_loop.
Qed.
Lemma pex_remove_at_loop : forall fuel d c nx k seen, pd_exists (fst (remove_at_loop P cap fuel d c nx k seen)) = pd_exists d.
Proof.
  induction fuel as [|f IH]; intros d c nx k seen; cbn [remove_at_loop]; [reflexivity|].
  destruct (c <? cap); [|reflexivity]. rewrite IH. destruct k as [[|j]|]; reflexivity.
Qed.
Lemma pex_remove_at d k : pd_exists (fst (plan_remove_at P cap d k)) = pd_exists d.
Proof. unfold plan_remove_at. apply pex_remove_at_loop. Qed.
Lemma pex_clear_task_status d s : pd_exists (pd_clear_task_status P d s) = pd_exists d.
Proof. unfold pd_clear_task_status. destruct (s =? INVALID); reflexivity. Qed.

Lemma perform_R origin a s k : no_append a -> Rex s (fst (fst (perform P cfg origin a (s, k)))).
Proof.
  intro Ha. unfold perform. destruct a as [d|d p| |so|so|o d|o d p| |i]; cbn [no_append] in Ha; try contradiction.
  - destruct (can_change (k_kind P k)); cbn [fst]; [|apply Rex_refl].
    eapply Rex_trans; [|apply Rex_log_rec]. apply Rex_upd. auto.
  - destruct (can_change (k_kind P k) && c_payload cfg); cbn [fst]; [|apply Rex_refl].
    eapply Rex_trans; [|apply Rex_log_rec]. apply Rex_upd. auto.
  - destruct (k_kind P k); cbn [fst]; try apply Rex_refl. apply Rex_log_rec.
  - destruct (can_change (k_kind P k) && c_plans cfg && negb (_ =? INVALID)); cbn [fst]; [|apply Rex_refl].
    eapply Rex_trans; [|apply Rex_log_rec]. apply Rex_upd. auto.
  - destruct (can_change (k_kind P k) && c_plans cfg && negb (_ =? INVALID)); cbn [fst]; [|apply Rex_refl].
    eapply Rex_trans; [|apply Rex_log_rec]. apply Rex_upd. auto.
  - destruct (can_plan cfg (k_kind P k)); cbn [fst]; [|apply Rex_refl].
    apply Rex_upd. intro c. cbn [set_plan plan]. rewrite pex_plan_clear. auto.
  - destruct (can_plan cfg (k_kind P k)); cbn [fst]; [|apply Rex_refl].
    pose proof (pex_remove_at (plan P (co P s)) i) as E.
    destruct (plan_remove_at P cap (plan P (co P s)) i) as [pd seen]. cbn [fst] in *.
    unfold Rex, pex. cbn [upd_core co set_plan plan]. rewrite E. auto.
Qed.

Lemma perform_all_R origin acts : forall s k, Forall no_append acts -> Rex s (fst (perform_all P cfg origin acts (s, k))).
Proof.
  unfold perform_all. induction acts as [|a acts IH]; intros s k H; cbn [fold_left]; [apply Rex_refl|].
  inversion H as [|? ? Ha Hr]; subst.
  pose proof (perform_R origin a s k Ha) as H1.
  destruct (perform P cfg origin a (s, k)) as [[s1 k1] res]. cbn [fst] in H1.
  eapply Rex_trans; [exact H1|]. eapply Rex_trans; [apply (Rex_emit (EvAct P a res))|]. apply IH. exact Hr.
Qed.

Lemma invoke_R w r m s k : Rex s (fst (invoke P cfg orc w r m (s, k))).
Proof.
  unfold invoke. eapply Rex_trans; [apply Rex_emit|]. apply perform_all_R. apply Hno.
Qed.

Lemma deliver_R w m s k : Rex s (fst (deliver P cfg orc w m (s, k))).
Proof.
  unfold deliver.
  set (s1 := if logs cfg w m then log_rec P cfg (LMethod (id_of w) m) s else s).
  assert (F0 : Rex s s1) by (subst s1; destruct (logs cfg w m); [apply Rex_log_rec|apply Rex_refl]).
  destruct (exists_who cfg w); [|exact F0].
  eapply Rex_trans; [exact F0|]. clear F0. generalize s1 k. clear s1 s k.
  induction (deep_order m (inj_of cfg w)) as [|r rs IH]; intros s k; cbn [fold_left]; [apply Rex_refl|].
  destruct (delivers cfg w r m); [|apply IH].
  pose proof (invoke_R w r m s k) as H1. destruct (invoke P cfg orc w r m (s, k)) as [s1 k1]. cbn [fst] in H1.
  eapply Rex_trans; [exact H1|apply IH].
Qed.

Lemma deliver_guard_R w m s k : Rex s (fst (fst (deliver_guard P cfg orc w m (s, k)))).
Proof.
  unfold deliver_guard. pose proof (deliver_R w m s k) as H.
  destruct (deliver P cfg orc w m (s, k)) as [s1 k1]. exact H.
Qed.

Lemma region_phase_R m post s k : Rex s (fst (region_phase P cfg orc m post (s, k))).
Proof.
  unfold region_phase. cbn [fst]. set (a := active P (co P s)). destruct post.
  - pose proof (deliver_R (leaf cfg a) m s k) as H1. destruct (deliver P cfg orc (leaf cfg a) m (s, k)) as [s1 k1]. cbn [fst] in H1.
    set (s1' := upd_plan P _ s1).
    assert (H1' : Rex s s1') by (eapply Rex_trans; [exact H1|apply Rex_upd_plan; auto]).
    pose proof (deliver_R Root m s1' k1) as H2. destruct (deliver P cfg orc Root m (s1', k1)) as [s2 k2]. cbn [fst] in *.
    eapply Rex_trans; [exact H1'|]. eapply Rex_trans; [exact H2|apply Rex_upd_plan; auto].
  - pose proof (deliver_R Root m s k) as H1. destruct (deliver P cfg orc Root m (s, k)) as [s1 k1]. cbn [fst] in H1.
    set (s1' := upd_plan P _ s1).
    assert (H1' : Rex s s1') by (eapply Rex_trans; [exact H1|apply Rex_upd_plan; auto]).
    pose proof (deliver_R (leaf cfg a) m s1' k1) as H2. destruct (deliver P cfg orc (leaf cfg a) m (s1', k1)) as [s2 k2]. cbn [fst] in *.
    eapply Rex_trans; [exact H1'|]. eapply Rex_trans; [exact H2|apply Rex_upd_plan; auto].
Qed.

Lemma plan_scan_R : forall fuel curr next tc s, Rex s (fst (plan_scan P cfg fuel curr next tc s)).
Proof.
  induction fuel as [|f IH]; intros curr next tc s; cbn [plan_scan]; [apply Rex_refl|].
  destruct (curr <? cap); [|apply Rex_refl].
  destruct (registry_is_active P (co P s) _); [|apply Rex_refl].
  destruct (ba_get _ _); [|apply IH].
  destruct (_ =? _); (eapply Rex_trans; [|apply IH]).
  - eapply Rex_trans; [|apply Rex_upd_plan; auto]. eapply Rex_trans; [|apply Rex_upd_plan; auto].
    eapply Rex_trans; [|apply Rex_log_rec]. apply Rex_upd. auto.
  - eapply Rex_trans; [|apply Rex_upd_plan; auto].
    eapply Rex_trans; [|apply Rex_log_rec]. apply Rex_upd. auto.
Qed.

Lemma update_plan_R st s k : Rex s (fst (update_plan P cfg orc st (s, k))).
Proof.
  unfold update_plan. destruct st.
  - apply Rex_refl.
  - destruct (plan_nonempty P cap (plan P (co P s))).
    + pose proof (plan_scan_R (S cap) (first (pd_pl (plan P (co P s)))) (it_next P cap (plan P (co P s)) (first (pd_pl (plan P (co P s)))))
                    (ba_set_all (N.of_nat n) (ba_init (N.of_nat n))) s) as H.
      destruct (plan_scan P cfg (S cap) _ _ _ s) as [s1 tc]. cbn [fst] in *.
      eapply Rex_trans; [exact H|apply Rex_upd_plan; auto].
    + pose proof (deliver_R Root MPlanSucceeded s (set_status P k SSuccess)) as H.
      destruct (deliver P cfg orc Root MPlanSucceeded _) as [s1 k1]. cbn [fst] in *.
      eapply Rex_trans; [exact H|apply Rex_upd_plan]. intro d. rewrite pex_plan_clear. auto.
  - pose proof (deliver_R Root MPlanFailed s (set_status P k SFailure)) as H.
    destruct (deliver P cfg orc Root MPlanFailed _) as [s1 k1]. cbn [fst] in *.
    eapply Rex_trans; [exact H|apply Rex_upd_plan]. intro d. rewrite pex_plan_clear. auto.
Qed.

Lemma deep_update_plans_R s k : Rex s (fst (deep_update_plans P cfg orc (s, k))).
Proof.
  unfold deep_update_plans. cbn [fst]. destruct (st_bool _ && pd_exists _); [apply update_plan_R|apply Rex_refl].
Qed.

Lemma cancelled_by_guards_R cur pend s : Rex s (fst (cancelled_by_guards P cfg orc cur pend s)).
Proof.
  unfold cancelled_by_guards.
  pose proof (deliver_guard_R (leaf cfg (active P (co P s))) MExitGuard s (mk_ctl P KGuard cur pend)) as H1.
  destruct (deliver_guard P cfg orc (leaf cfg (active P (co P s))) MExitGuard _) as [[s1 k1] c1]. cbn [fst] in H1.
  destruct c1; [exact H1|].
  pose proof (deliver_guard_R (leaf cfg (requested P (co P s1))) MEntryGuard s1 k1) as H2.
  destruct (deliver_guard P cfg orc (leaf cfg (requested P (co P s1))) MEntryGuard _) as [[s2 k2] c2]. cbn [fst] in *.
  eapply Rex_trans; eassumption.
Qed.

Lemma cancelled_by_entry_guards_R cur pend s : Rex s (fst (cancelled_by_entry_guards P cfg orc cur pend s)).
Proof.
  unfold cancelled_by_entry_guards.
  pose proof (deliver_guard_R Root MEntryGuard s (mk_ctl P KGuard cur pend)) as H1.
  destruct (deliver_guard P cfg orc Root MEntryGuard _) as [[s1 k1] c1]. cbn [fst] in H1.
  destruct c1; [exact H1|].
  pose proof (deliver_guard_R (leaf cfg (requested P (co P s1))) MEntryGuard s1 k1) as H2.
  destruct (deliver_guard P cfg orc (leaf cfg (requested P (co P s1))) MEntryGuard _) as [[s2 k2] c2]. cbn [fst] in *.
  eapply Rex_trans; eassumption.
Qed.

Lemma state_exit_R w k s : Rex s (state_exit P cfg orc w k s).
Proof.
  unfold state_exit. pose proof (deliver_R w MExit s k) as H. destruct (deliver P cfg orc w MExit (s, k)) as [s1 k1]. cbn [fst] in H.
  destruct (exists_who cfg w); [|exact H].
  eapply Rex_trans; [exact H|apply Rex_upd_plan]. intro d. rewrite pex_clear_task_status. auto.
Qed.

Lemma deep_change_to_requested_R cur s : Rex s (deep_change_to_requested P cfg orc cur s).
Proof.
  unfold deep_change_to_requested. destruct (negb (_ =? _)).
  - eapply Rex_trans; [|apply deliver_R]. eapply Rex_trans; [apply state_exit_R|]. apply Rex_upd. auto.
  - eapply Rex_trans; [|apply deliver_R]. apply Rex_upd. auto.
Qed.

Lemma deep_enter_R cur s : Rex s (deep_enter P cfg orc cur s).
Proof.
  unfold deep_enter.
  set (s1 := upd_core P _ s). assert (H0 : Rex s s1) by (apply Rex_upd; auto).
  pose proof (deliver_R Root MEnter s1 (mk_ctl P KPlan cur (t_empty P))) as H1.
  destruct (deliver P cfg orc Root MEnter (s1, _)) as [s2 k2]. cbn [fst] in H1.
  eapply Rex_trans; [exact H0|]. eapply Rex_trans; [exact H1|]. apply deliver_R.
Qed.

Lemma deep_exit_R s : Rex s (deep_exit P cfg orc s).
Proof.
  unfold deep_exit.
  set (s1 := state_exit P cfg orc _ _ s). assert (H1 : Rex s s1) by apply state_exit_R.
  set (s2 := state_exit P cfg orc _ _ s1). assert (H2 : Rex s1 s2) by apply state_exit_R.
  set (s3 := upd_core P _ s2). assert (H3 : Rex s2 s3) by (apply Rex_upd; auto).
  eapply Rex_trans; [exact H1|]. eapply Rex_trans; [exact H2|].
  destruct (c_plans cfg); [|exact H3]. eapply Rex_trans; [exact H3|]. apply Rex_upd_plan. intro d. rewrite pex_plan_clear. auto.
Qed.

Lemma apply_request_R cur d s : Rex s (fst (apply_request P cur d s)).
Proof. unfold apply_request. destruct (t_neq P cur (t_to P d)); cbn [fst]; [apply Rex_upd; auto|apply Rex_refl]. Qed.

Lemma transitions_loop_R : forall fuel cur s, Rex s (fst (transitions_loop P cfg orc fuel cur s)).
Proof.
  induction fuel as [|f IH]; intros cur s; cbn [transitions_loop]; [apply Rex_refl|].
  destruct (t_valid P (request P (co P s))); [|apply Rex_refl].
  pose proof (apply_request_R cur (t_dest P (request P (co P s))) s) as H1.
  destruct (apply_request P cur _ s) as [s1 applied]. cbn [fst] in H1.
  eapply Rex_trans; [exact H1|]. destruct applied.
  - set (s2 := upd_core P _ s1). assert (H2 : Rex s1 s2) by (apply Rex_upd; auto).
    pose proof (cancelled_by_guards_R cur (request P (co P s1)) s2) as H3.
    destruct (cancelled_by_guards P cfg orc cur _ s2) as [s3 cancelled]. cbn [fst] in H3.
    eapply Rex_trans; [exact H2|]. eapply Rex_trans; [exact H3|].
    destruct cancelled; [|apply IH]. eapply Rex_trans; [|apply IH]. apply Rex_upd. auto.
  - eapply Rex_trans; [|apply IH]. apply Rex_upd. auto.
Qed.

Lemma process_transitions_R s : Rex s (fst (process_transitions P cfg orc s)).
Proof.
  unfold process_transitions. pose proof (transitions_loop_R (c_limit cfg) (t_empty P) s) as H.
  destruct (transitions_loop P cfg orc (c_limit cfg) (t_empty P) s) as [s1 cur]. cbn [fst] in *.
  eapply Rex_trans; [exact H|]. eapply Rex_trans; [|apply Rex_upd; auto].
  destruct (t_valid P cur); [apply deep_change_to_requested_R|apply Rex_refl].
Qed.

Lemma process_request_R s : Rex s (process_request P cfg orc s).
Proof.
  unfold process_request.
  assert (H : Rex s (fst (if t_valid P (request P (co P s)) then process_transitions P cfg orc s else (s, t_empty P)))).
  { destruct (t_valid P (request P (co P s))); [apply process_transitions_R|apply Rex_refl]. }
  destruct (if t_valid P (request P (co P s)) then process_transitions P cfg orc s else (s, t_empty P)) as [s1 cur]. cbn [fst] in H.
  destruct (c_history cfg); [|exact H]. eapply Rex_trans; [exact H|apply Rex_upd; auto].
Qed.

Lemma initial_loop_R : forall fuel cur s, Rex s (fst (initial_loop P cfg orc fuel cur s)).
Proof.
  induction fuel as [|f IH]; intros cur s; cbn [initial_loop]; [apply Rex_refl|].
  destruct (t_valid P (request P (co P s))); [|apply Rex_refl].
  pose proof (apply_request_R cur (t_dest P (request P (co P s))) s) as H1.
  destruct (apply_request P cur _ s) as [s1 applied]. cbn [fst] in H1.
  eapply Rex_trans; [exact H1|]. destruct applied.
  - set (s2 := upd_core P _ s1). assert (H2 : Rex s1 s2) by (apply Rex_upd; auto).
    pose proof (cancelled_by_entry_guards_R cur (request P (co P s1)) s2) as H3.
    destruct (cancelled_by_entry_guards P cfg orc cur _ s2) as [s3 cancelled]. cbn [fst] in H3.
    eapply Rex_trans; [exact H2|]. eapply Rex_trans; [exact H3|].
    destruct cancelled; [|apply IH]. eapply Rex_trans; [|apply IH]. apply Rex_upd. auto.
  - eapply Rex_trans; [|apply IH]. apply Rex_upd. auto.
Qed.

Lemma initial_enter_R s : Rex s (initial_enter P cfg orc s).
Proof.
  unfold initial_enter.
  pose proof (apply_request_R (t_empty P) 0 s) as H1. destruct (apply_request P (t_empty P) 0 s) as [s1 b1]. cbn [fst] in H1.
  pose proof (cancelled_by_entry_guards_R (t_empty P) (t_empty P) s1) as H2.
  destruct (cancelled_by_entry_guards P cfg orc (t_empty P) (t_empty P) s1) as [s2 b2]. cbn [fst] in H2.
  pose proof (initial_loop_R (c_limit cfg) (t_empty P) s2) as H3.
  destruct (initial_loop P cfg orc (c_limit cfg) (t_empty P) s2) as [s3 cur]. cbn [fst] in H3.
  eapply Rex_trans; [exact H1|]. eapply Rex_trans; [exact H2|]. eapply Rex_trans; [exact H3|].
  eapply Rex_trans; [|apply Rex_upd; auto]. eapply Rex_trans; [|apply deep_enter_R].
  destruct (c_history cfg); [apply Rex_upd; auto|apply Rex_refl].
Qed.

Lemma Rex_reset s : Rex s (upd_core P (fun c =>
    let c1 := set_request P (set_requested P (set_active P c INVALID) INVALID) (t_clear P (request P c)) in
    let c2 := if c_plans cfg then set_plan P c1 (pd_clear P (plan P c1)) else c1 in
    if c_history cfg then set_previous P c2 (t_clear P (previous P c2)) else c2) s).
Proof.
  apply Rex_upd. intro c. cbv zeta. destruct (c_plans cfg), (c_history cfg); cbn; auto; discriminate.
Qed.

Lemma final_exit_R s : Rex s (final_exit P cfg orc s).
Proof. unfold final_exit. eapply Rex_trans; [apply deep_exit_R|apply Rex_reset]. Qed.

Lemma cycle_R m1 m2 m3 s : Rex s (cycle P cfg orc m1 m2 m3 s).
Proof.
  unfold cycle.
  pose proof (region_phase_R m1 false s (mk_ctl P KFull (t_empty P) (t_empty P))) as H1.
  destruct (region_phase P cfg orc m1 false _) as [s1 k1]. cbn [fst] in H1.
  pose proof (region_phase_R m2 false s1 k1) as H2.
  destruct (region_phase P cfg orc m2 false (s1, k1)) as [s2 k2]. cbn [fst] in H2.
  pose proof (region_phase_R m3 true s2 k2) as H3.
  destruct (region_phase P cfg orc m3 true (s2, k2)) as [s3 k3]. cbn [fst] in H3.
  eapply Rex_trans; [exact H1|]. eapply Rex_trans; [exact H2|]. eapply Rex_trans; [exact H3|].
  destruct (c_plans cfg).
  - pose proof (deep_update_plans_R s3 k3) as H4. destruct (deep_update_plans P cfg orc (s3, k3)) as [s4 k4]. cbn [fst] in H4.
    eapply Rex_trans; [exact H4|]. eapply Rex_trans; [|apply process_request_R]. apply Rex_upd_plan. auto.
  - apply process_request_R.
Qed.

Lemma query_R s : Rex s (query P cfg orc s).
Proof.
  unfold query. pose proof (deliver_R Root MQuery s (mk_ctl P KConst (t_empty P) (t_empty P))) as H1.
  destruct (deliver P cfg orc Root MQuery _) as [s1 k1]. cbn [fst] in H1.
  eapply Rex_trans; [exact H1|apply deliver_R].
Qed.

Lemma change_to_R d p s : Rex s (change_to P cfg d p s).
Proof. unfold change_to. eapply Rex_trans; [|apply Rex_log_rec]. apply Rex_upd. auto. Qed.

Lemma replay_transition_R d s : Rex s (fst (replay_transition P cfg orc d s)).
Proof.
  unfold replay_transition. destruct (negb (d =? INVALID)); [|apply Rex_refl].
  set (s0 := upd_core P _ s). assert (H0 : Rex s s0) by (apply Rex_upd; auto).
  pose proof (apply_request_R (t_empty P) d s0) as H1. destruct (apply_request P (t_empty P) d s0) as [s1 b1]. cbn [fst] in *.
  eapply Rex_trans; [exact H0|]. eapply Rex_trans; [exact H1|].
  eapply Rex_trans; [|apply Rex_upd; auto]. eapply Rex_trans; [|apply deep_change_to_requested_R]. apply Rex_upd. auto.
Qed.

Lemma replay_enter_R d s : Rex s (replay_enter P cfg orc d s).
Proof.
  unfold replay_enter.
  pose proof (apply_request_R (t_empty P) d s) as H1. destruct (apply_request P (t_empty P) d s) as [s1 b1]. cbn [fst] in *.
  eapply Rex_trans; [exact H1|].
  eapply Rex_trans; [|apply Rex_upd; auto]. eapply Rex_trans; [|apply deep_enter_R]. apply Rex_upd. auto.
Qed.

Lemma base_load_R buf cur s : Rex s (base_load P cfg orc buf cur s).
Proof.
  unfold base_load. destruct (BitStream.read buf cur (width_bits cfg)) as [v c1].
  eapply Rex_trans; [|apply deep_change_to_requested_R].
  set (s1 := upd_core P _ s). assert (H1 : Rex s s1) by (apply Rex_upd; auto).
  set (s2 := upd_core P _ s1). assert (H2 : Rex s1 s2) by (apply Rex_upd; auto).
  eapply Rex_trans; [exact H1|]. eapply Rex_trans; [exact H2|].
  apply Rex_upd. intro c. cbv zeta. destruct (c_plans cfg), (c_history cfg); cbn; auto; discriminate.
Qed.

Lemma load_enter_R buf cur s : Rex s (load_enter P cfg orc buf cur s).
Proof.
  unfold load_enter. destruct (BitStream.read buf cur (width_bits cfg)) as [v c1].
  eapply Rex_trans; [|apply deep_enter_R]. apply Rex_upd. auto.
Qed.

Lemma load_R buf s : Rex s (load P cfg orc buf s).
Proof.
  unfold load. destruct (BitStream.read buf 0 1) as [flag c1].
  destruct (c_manual cfg); destruct (negb (flag =? 0)%N); try destruct (machine_is_active P (co P s));
    try apply base_load_R; try apply load_enter_R; try apply final_exit_R; apply Rex_refl.
Qed.

Definition append_op (op : api_op P) : Prop :=
  match op with OPlanAppend _ _ _ | OPlanAppendWith _ _ _ _ => True | _ => False end.

(* with callbacks that never append, an API call other than the plan appends cannot raise planExists *)
Theorem plan_exists_only_by_append s op : ~ append_op op ->
  pd_exists (plan P (co P (fst (step P cfg orc s op)))) = true -> pd_exists (plan P (co P s)) = true.
Proof.
  intro Hop. change (Rex s (fst (step P cfg orc s op))).
  destruct op; cbn [step fst append_op] in *; try (exfalso; apply Hop; exact I).
  - apply initial_enter_R.
  - apply final_exit_R.
  - apply cycle_R.
  - apply cycle_R.
  - apply query_R.
  - apply change_to_R.
  - apply change_to_R.
  - unfold immediate_change_to. eapply Rex_trans; [apply change_to_R|apply process_request_R].
  - unfold immediate_change_to. eapply Rex_trans; [apply change_to_R|apply process_request_R].
  - unfold api_succeed. eapply Rex_trans; [|apply Rex_log_rec]. apply Rex_upd_plan. auto.
  - unfold api_fail. eapply Rex_trans; [|apply Rex_log_rec]. apply Rex_upd_plan. auto.
  - unfold api_plan_op. pose proof (perform_R INVALID (APlanClear P) s (mk_ctl P KPlan (t_empty P) (t_empty P)) I) as H.
    destruct (perform P cfg INVALID (APlanClear P) _) as [[s1 k1] res]. exact H.
  - unfold api_plan_op. pose proof (perform_R INVALID (APlanRemoveAt P k) s (mk_ctl P KPlan (t_empty P) (t_empty P)) I) as H.
    destruct (perform P cfg INVALID (APlanRemoveAt P k) _) as [[s1 k1] res]. exact H.
  - apply load_R.
  - apply replay_enter_R.
  - pose proof (replay_transition_R d s) as H. destruct (replay_transition P cfg orc d s) as [s1 b]. exact H.
  - apply Rex_upd. auto.
Qed.

End PE.

Print Assumptions plan_scan_spec.
Print Assumptions dup_never_both.
Print Assumptions failure_delivered.
Print Assumptions fired_cyclic_last.
Print Assumptions fire_scan_shape.
Print Assumptions plan_exists_only_by_append.
